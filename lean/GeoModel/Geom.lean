/-
  GeoModel.Geom — model of geometry/ring.go, line.go, poly.go, rect.go, point.go
  (after the D3 fix in Line.ContainsLine).
-/
import GeoModel.Series
namespace Geo

/-- `Ring = Series` interface: a `*baseSeries` or a `Rect` used as a ring. -/
inductive Ring where
  | ser (s : Series)
  | bx (b : Box)
deriving Repr, Inhabited

def Box.pointAt (r : Box) (i : Nat) : Pt :=
  match i with
  | 0 => ⟨r.min.x, r.min.y⟩
  | 1 => ⟨r.max.x, r.min.y⟩
  | 2 => ⟨r.max.x, r.max.y⟩
  | 3 => ⟨r.min.x, r.max.y⟩
  | _ => ⟨r.min.x, r.min.y⟩

def Box.segmentAt (r : Box) (i : Nat) : Seg :=
  match i with
  | 0 => ⟨⟨r.min.x, r.min.y⟩, ⟨r.max.x, r.min.y⟩⟩
  | 1 => ⟨⟨r.max.x, r.min.y⟩, ⟨r.max.x, r.max.y⟩⟩
  | 2 => ⟨⟨r.max.x, r.max.y⟩, ⟨r.min.x, r.max.y⟩⟩
  | _ => ⟨⟨r.min.x, r.max.y⟩, ⟨r.min.x, r.min.y⟩⟩

def Ring.rect : Ring → Box
  | .ser s => s.rect
  | .bx b => b
def Ring.empty : Ring → Bool
  | .ser s => s.empty
  | .bx _ => false
def Ring.convex : Ring → Bool
  | .ser s => s.convex
  | .bx _ => true
def Ring.clockwise : Ring → Bool
  | .ser s => s.clockwise
  | .bx _ => false
def Ring.numPoints : Ring → Nat
  | .ser s => s.numPoints
  | .bx _ => 5
def Ring.numSegments : Ring → Nat
  | .ser s => s.numSegments
  | .bx _ => 4
def Ring.pointAt : Ring → Nat → Pt
  | .ser s, i => s.pts[i]!
  | .bx b, i => b.pointAt i
def Ring.segmentAt : Ring → Nat → Seg
  | .ser s, i => s.segmentAt i
  | .bx b, i => b.segmentAt i
def Ring.valid : Ring → Bool
  | .ser s => s.valid
  | .bx b => b.min.valid && b.max.valid

/-- `Search` of either implementation; a decoding panic leaves the state untouched (C04
    proves it never happens on built indexes; the correspondence compares outcomes). -/
def Ring.search {σ : Type} (r : Ring) (q : Box) (f : σ → Seg → Nat → σ × Bool) (st : σ) : σ :=
  match r with
  | .ser s => (s.search q f st).get st
  | .bx b =>
    (foldUntil (fun st i =>
      let seg := b.segmentAt i
      if seg.box.intersects q then f st seg i else (st, true)) st [0,1,2,3]).1

structure RingRes where
  hit : Bool
  idx : Option Nat
deriving DecidableEq, Repr, Inhabited

/-- the ±∞ strip is modelled by a box wider than the ring's rect on both sides
    (every segment rect lies within the ring rect, so the test outcome is the same). -/
def stripBox (r : Ring) (p : Pt) : Box :=
  ⟨⟨min r.rect.min.x p.x - 1, p.y⟩, ⟨max r.rect.max.x p.x + 1, p.y⟩⟩

def ringContainsPoint (ring : Ring) (p : Pt) (allowOnEdge : Bool) : RingRes :=
  if !ring.rect.containsPt p then ⟨false, none⟩
  else
    let st := ring.search (stripBox ring p)
      (fun (st : Bool × Option Nat) seg index =>
        let res := seg.raycast p
        if res.on then ((allowOnEdge, some index), false)
        else if res.inn then ((!st.1, st.2), true)
        else (st, true)) (false, none)
    ⟨st.1, st.2⟩

/-- any-match search: is there a visited segment satisfying `pred`? (early exit) -/
def Ring.searchAny (r : Ring) (q : Box) (pred : Seg → Nat → Bool) : Bool :=
  r.search q (fun (st : Bool) seg i => if pred seg i then (true, false) else (st, true)) false

def ringContainsSegmentS (ring : Ring) (seg : Seg) (allowOnEdge : Bool) : BoolSite :=
  if !ring.rect.containsPt seg.a || !ring.rect.containsPt seg.b then ⟨false, 1⟩
  else
    let resA := ringContainsPoint ring seg.a allowOnEdge
    if !resA.hit then ⟨false, 2⟩
    else if seg.b = seg.a then ⟨true, 3⟩
    else
      let resB := ringContainsPoint ring seg.b allowOnEdge
      if !resB.hit then ⟨false, 4⟩
      else if ring.convex then ⟨true, 5⟩
      else if allowOnEdge then
        match resA.idx, resB.idx with
        | some ia, some ib =>
          if ib = ia then ⟨true, 6⟩
          else
            let rSegA := ring.segmentAt ia
            let rSegB := ring.segmentAt ib
            if rSegA.a = seg.a || rSegA.b = seg.a || rSegB.a = seg.a || rSegB.b = seg.a ||
               rSegA.a = seg.b || rSegA.b = seg.b || rSegB.a = seg.b || rSegB.b = seg.b then ⟨true, 7⟩
            else
              let (rSegA, rSegB) := if ib < ia then (rSegB, rSegA) else (rSegA, rSegB)
              let pts := [rSegA.a, rSegA.b, rSegB.a, rSegB.b, rSegA.a]
              let cwc := (pts.zip pts.tail).foldl (fun acc (ab : Pt × Pt) =>
                acc + (ab.2.x - ab.1.x) * (ab.2.y + ab.1.y)) (0 : Rat)
              let clockwise := decide (cwc > 0)
              if clockwise != ring.clockwise then ⟨false, 8⟩
              else
                let inter := ring.searchAny seg.box (fun seg2 _ =>
                  seg.intersects seg2 && !(seg2.raycast seg.a).on && !(seg2.raycast seg.b).on)
                ⟨!inter, 9⟩
        | some _, none =>
          let inter := ring.searchAny seg.box (fun seg2 _ =>
            seg.intersects seg2 && !(seg2.raycast seg.a).on)
          ⟨!inter, 10⟩
        | none, some _ =>
          let inter := ring.searchAny seg.box (fun seg2 _ =>
            seg.intersects seg2 && !(seg2.raycast seg.b).on)
          ⟨!inter, 11⟩
        | none, none =>
          let inter := ring.searchAny seg.box (fun seg2 _ =>
            seg.intersects seg2 && !(seg.raycast seg2.a).on && !(seg.raycast seg2.b).on)
          ⟨!inter, 12⟩
      else
        let inter := ring.searchAny seg.box (fun seg2 _ => seg.intersects seg2)
        ⟨!inter, 13⟩

def ringContainsSegment (ring : Ring) (seg : Seg) (allowOnEdge : Bool) : Bool :=
  (ringContainsSegmentS ring seg allowOnEdge).val

structure RISt where
  count : Nat
  segAOn : Bool
  segBOn : Bool
deriving Repr, Inhabited

def ringIntersectsSegmentS (ring : Ring) (seg : Seg) (allowOnEdge : Bool) : BoolSite :=
  if !seg.box.intersects ring.rect then ⟨false, 1⟩
  else if (ringContainsPoint ring seg.a allowOnEdge).hit then ⟨true, 2⟩
  else if (ringContainsPoint ring seg.b allowOnEdge).hit then ⟨true, 3⟩
  else
    let st := ring.search seg.box (fun (st : RISt) seg2 _ =>
      if seg.intersects seg2 then
        if !allowOnEdge then
          if !(seg.collinearPt seg2.a && seg.collinearPt seg2.b) then
            if !st.segAOn && (seg.a = seg2.a || seg.a = seg2.b) then
              ({ st with segAOn := true }, true)
            else if !st.segBOn && (seg.b = seg2.a || seg.b = seg2.b) then
              ({ st with segBOn := true }, true)
            else
              let st' := { st with count := st.count + 1 }
              (st', st'.count < 2)
          else (st, st.count < 2)
        else
          let st' := { st with count := st.count + 1 }
          (st', st'.count < 2)
      else (st, st.count < 2)) ⟨0, false, false⟩
    ⟨st.count ≥ 2, if st.count ≥ 2 then 4 else 5⟩

def ringIntersectsSegment (ring : Ring) (seg : Seg) (allowOnEdge : Bool) : Bool :=
  (ringIntersectsSegmentS ring seg allowOnEdge).val

def complexRingMinPoints : Nat := 16

/-- body of ringContainsRing after the ≥16-point rectangle shortcut. -/
def ringContainsRingBody (ring other : Ring) (allowOnEdge : Bool) : Bool :=
  if !ring.rect.containsBox other.rect then false
  else if ring.convex then
    (List.range other.numPoints).all (fun i => (ringContainsPoint ring (other.pointAt i) allowOnEdge).hit)
  else
    (List.range other.numSegments).all (fun i => ringContainsSegment ring (other.segmentAt i) allowOnEdge)

def ringContainsRing (ring other : Ring) (allowOnEdge : Bool) : Bool :=
  if ring.empty || other.empty then false
  else if other.numPoints ≥ complexRingMinPoints &&
      -- ringContainsRing(ring, other.Rect(), allowOnEdge): a Rect is never empty, has 5 points
      ringContainsRingBody ring (.bx other.rect) allowOnEdge then true
  else ringContainsRingBody ring other allowOnEdge

def ringIntersectsRing (ring other : Ring) (allowOnEdge : Bool) : Bool :=
  if ring.empty || other.empty then false
  else if !ring.rect.intersects other.rect then false
  else
    let (ring, other) := if other.rect.area > ring.rect.area then (other, ring) else (ring, other)
    (List.range other.numSegments).any (fun i => ringIntersectsSegment ring (other.segmentAt i) allowOnEdge)

/-- `Line` = open baseSeries -/
abbrev Line := Series

def ringContainsLine (ring : Ring) (line : Line) (allowOnEdge : Bool) : Bool :=
  ringContainsRing ring (.ser line) allowOnEdge

def ringIntersectsLine (ring : Ring) (line : Line) (allowOnEdge : Bool) : Bool :=
  if ring.empty || line.empty then false
  else if !ring.rect.intersects line.rect then false
  else if (List.range line.numPoints).any (fun i => (ringContainsPoint ring line.pts[i]! allowOnEdge).hit) then true
  else (List.range line.numSegments).any (fun i => ringIntersectsSegment ring (line.segmentAt i) allowOnEdge)

/-! ### Poly -/

structure Poly where
  ext : Option Ring      -- nil Exterior is possible (`new(Poly)`, `NewPolygon(nil)`)
  holes : List Ring
deriving Repr, Inhabited

def Poly.empty (p : Poly) : Bool := match p.ext with | none => true | some e => e.empty
def Poly.rect (p : Poly) : Box := match p.ext with | none => ⟨⟨0,0⟩,⟨0,0⟩⟩ | some e => e.rect
def Poly.valid (p : Poly) : Bool :=
  match p.ext with
  | none => true
  | some e => e.valid && p.holes.all Ring.valid

def Poly.containsPoint (poly : Poly) (p : Pt) : Bool :=
  match poly.ext with
  | none => false
  | some ext =>
    if !(ringContainsPoint ext p true).hit then false
    else !(poly.holes.any (fun h => (ringContainsPoint h p false).hit))

def Poly.containsLine (poly : Poly) (line : Line) : Bool :=
  match poly.ext with
  | none => false
  | some ext =>
    if !ringContainsLine ext line true then false
    else !(poly.holes.any (fun h => ringIntersectsLine h line false))

def Poly.intersectsLine (poly : Poly) (line : Line) : Bool :=
  match poly.ext with
  | none => false
  | some ext =>
    if !ringIntersectsLine ext line true then false
    else !(poly.holes.any (fun h => ringContainsLine h line false))

def Poly.containsPoly (poly other : Poly) : Bool :=
  match poly.ext, other.ext with
  | some ext, some oext =>
    if !ringContainsRing ext oext true then false
    else
      poly.holes.all (fun polyHole =>
        if ringIntersectsRing polyHole oext false then
          other.holes.any (fun otherHole => ringContainsRing otherHole polyHole true)
        else true)
  | _, _ => false

def Poly.intersectsPoly (poly other : Poly) : Bool :=
  match poly.ext, other.ext with
  | some ext, some oext =>
    if !ringIntersectsRing oext ext true then false
    else if poly.holes.any (fun h => ringContainsRing h oext false) then false
    else if other.holes.any (fun h => ringContainsRing h ext false) then false
    else true
  | _, _ => false

def Box.asPoly (r : Box) : Poly := ⟨some (.bx r), []⟩

def Poly.containsRect (poly : Poly) (r : Box) : Bool := poly.containsPoly r.asPoly
def Poly.intersectsRect (poly : Poly) (r : Box) : Bool := poly.intersectsPoly r.asPoly

/-! ### Line -/

def Line.containsPoint (line : Line) (p : Pt) : Bool :=
  ((line.search p.box (fun (st : Bool) seg _ =>
      if (seg.raycast p).on then (true, false) else (st, true)) false).get false)

structure WalkSt where
  segIdx : Nat
  i : Nat
  dir : Int
deriving Repr, Inhabited

/-- one iteration of the ContainsLine walk; `none` = keep going, `some b` = return b. -/
def walkStep (line other : Line) (lineNumSegments : Nat) (st : WalkSt) : WalkSt × Option Bool :=
  let lineSeg := line.segmentAt st.segIdx
  let otherSeg := other.segmentAt st.i
  if lineSeg.containsSeg otherSeg then ({ st with i := st.i + 1, dir := 0 }, none)
  else if otherSeg.a = lineSeg.a then
    if st.segIdx == 0 || st.dir == 1 then (st, some false)
    else ({ st with segIdx := st.segIdx - 1, dir := -1 }, none)
  else if otherSeg.a = lineSeg.b then
    if st.segIdx == lineNumSegments - 1 || st.dir == -1 then (st, some false)
    else ({ st with segIdx := st.segIdx + 1, dir := 1 }, none)
  else ({ st with i := st.i + 1, dir := 0 }, none)

/-- the walk with explicit fuel; `none` = fuel exhausted (C05 proves it never is). -/
def walk (line other : Line) (lineNumSegments otherNumSegments : Nat) : Nat → WalkSt → Option Bool
  | 0, _ => none
  | fuel+1, st =>
    if st.i < otherNumSegments then
      match walkStep line other lineNumSegments st with
      | (_, some b) => some b
      | (st', none) => walk line other lineNumSegments otherNumSegments fuel st'
    else some true

def Line.containsLineO (line other : Line) : Option Bool :=
  if line.empty || other.empty then some false
  else
    let n := line.numSegments
    match (List.range n).find? (fun j => (line.segmentAt j).containsSeg (other.segmentAt 0)) with
    | none => some false
    | some segIdx =>
      let m := other.numSegments
      walk line other n m ((n + 2) * (m + 2)) ⟨segIdx, 1, 0⟩

def Line.containsLine (line other : Line) : Bool := (line.containsLineO other).getD false

def Line.intersectsLine (line other : Line) : Bool :=
  if line.empty || other.empty then false
  else if !line.rect.intersects other.rect then false
  else
    let (line, other) := if line.numPoints > other.numPoints then (other, line) else (line, other)
    (List.range line.numSegments).any (fun i =>
      let segA := line.segmentAt i
      (Ring.ser other).searchAny segA.box (fun segB _ => segA.intersects segB))

def Line.containsPoly (line : Line) (poly : Poly) : Bool :=
  if line.empty || poly.empty then false
  else
    let rect := poly.rect
    if rect.min.x ≠ rect.max.x && rect.min.y ≠ rect.max.y then false
    else
      -- other.baseSeries.points = {rect.Min, rect.Max}; rect = rect; open, no index
      let other : Line := ⟨#[rect.min, rect.max], false, false, false, rect, none⟩
      line.containsLine other

def Line.containsRect (line : Line) (r : Box) : Bool := line.containsPoly r.asPoly

def Box.intersectsLine (r : Box) (line : Line) : Bool := ringIntersectsLine (.bx r) line true
def Line.intersectsRect (line : Line) (r : Box) : Bool := r.intersectsLine line
def Line.intersectsPoly (line : Line) (poly : Poly) : Bool := poly.intersectsLine line

/-! ### Rect, Point -/

def Box.containsLine (r : Box) (line : Line) : Bool := !line.empty && r.containsBox line.rect
def Box.containsPoly (r : Box) (poly : Poly) : Bool := !poly.empty && r.containsBox poly.rect
def Box.intersectsPoly (r : Box) (poly : Poly) : Bool := poly.intersectsRect r

def Pt.containsRect (p : Pt) (r : Box) : Bool := decide (p.box = r)
def Pt.intersectsRect (p : Pt) (r : Box) : Bool := r.containsPt p
def Pt.containsLine (p : Pt) (line : Line) : Bool := !line.empty && decide (line.rect = p.box)
def Pt.intersectsLine (p : Pt) (line : Line) : Bool := line.containsPoint p
def Pt.containsPoly (p : Pt) (poly : Poly) : Bool := !poly.empty && decide (poly.rect = p.box)
def Pt.intersectsPoly (p : Pt) (poly : Poly) : Bool := poly.containsPoint p

/-! ### the four geometry kinds and the 4×4 matrix -/

inductive Geom where
  | point (p : Pt)
  | rect (r : Box)
  | line (l : Line)
  | poly (p : Poly)
deriving Repr, Inhabited

def Geom.contains : Geom → Geom → Bool
  | .point a, .point b => decide (a = b)
  | .point a, .rect b => a.containsRect b
  | .point a, .line b => a.containsLine b
  | .point a, .poly b => a.containsPoly b
  | .rect a, .point b => a.containsPt b
  | .rect a, .rect b => a.containsBox b
  | .rect a, .line b => a.containsLine b
  | .rect a, .poly b => a.containsPoly b
  | .line a, .point b => a.containsPoint b
  | .line a, .rect b => a.containsRect b
  | .line a, .line b => a.containsLine b
  | .line a, .poly b => a.containsPoly b
  | .poly a, .point b => a.containsPoint b
  | .poly a, .rect b => a.containsRect b
  | .poly a, .line b => a.containsLine b
  | .poly a, .poly b => a.containsPoly b

def Geom.intersects : Geom → Geom → Bool
  | .point a, .point b => decide (a = b)
  | .point a, .rect b => a.intersectsRect b
  | .point a, .line b => a.intersectsLine b
  | .point a, .poly b => a.intersectsPoly b
  | .rect a, .point b => a.containsPt b
  | .rect a, .rect b => a.intersects b
  | .rect a, .line b => a.intersectsLine b
  | .rect a, .poly b => a.intersectsPoly b
  | .line a, .point b => a.containsPoint b
  | .line a, .rect b => a.intersectsRect b
  | .line a, .line b => a.intersectsLine b
  | .line a, .poly b => a.intersectsPoly b
  | .poly a, .point b => a.containsPoint b
  | .poly a, .rect b => a.intersectsRect b
  | .poly a, .line b => a.intersectsLine b
  | .poly a, .poly b => a.intersectsPoly b

end Geo
