package main

import (
	"bufio"
	"flag"
	"fmt"
	"os"
	"strings"
)

// verifharness: `worker` runs ops against the real code (one result line per op line);
// `gen` writes op streams.

func runOp(line string) (out string) {
	defer func() {
		if r := recover(); r != nil {
			out = fmt.Sprintf("panic: %v", r)
			out = strings.ReplaceAll(out, "\n", " ")
		}
	}()
	toks := strings.Fields(line)
	if len(toks) == 0 {
		return "bad-op"
	}
	if toks[0] == "same" && len(toks) > 2 {
		toks = toks[2:]
		line = strings.Join(toks, " ")
	}
	if s, ok := xOp(toks); ok {
		return s
	}
	if s, ok := kernOp(toks); ok {
		return s
	}
	if s, ok := kprocOp(toks); ok {
		return s
	}
	if s, ok := geomOp(toks); ok {
		return s
	}
	if s, ok := objOp(toks, line); ok {
		return s
	}
	return "bad-op"
}

func isDef(line string) bool {
	if strings.HasPrefix(line, "same ") {
		return false
	}
	return strings.HasPrefix(line, "def ") || strings.HasPrefix(line, "move ") ||
		strings.HasPrefix(line, "reset") || strings.HasPrefix(line, "oreset") || strings.HasPrefix(line, "onew") || strings.HasPrefix(line, "oparse")
}

func worker(args []string) {
	fs := flag.NewFlagSet("worker", flag.ExitOnError)
	skip := fs.Int("skip", 0, "execute only definitions among the first N ops, printing nothing for them")
	fs.Parse(args)
	in := bufio.NewReaderSize(os.Stdin, 1<<20)
	out := bufio.NewWriterSize(os.Stdout, 1<<16)
	defer out.Flush()
	n := 0
	for {
		line, err := in.ReadString('\n')
		if len(line) > 0 {
			line = strings.TrimRight(line, "\r\n")
			if n < *skip {
				if isDef(line) {
					runOp(line)
				}
			} else {
				fmt.Fprintln(out, runOp(line))
				out.Flush()
			}
			n++
		}
		if err != nil {
			return
		}
	}
}

func main() {
	if len(os.Args) < 2 {
		fmt.Fprintln(os.Stderr, "usage: verifharness worker|gen ...")
		os.Exit(2)
	}
	switch os.Args[1] {
	case "worker":
		worker(os.Args[2:])
	case "gen":
		gen(os.Args[2:])
	default:
		fmt.Fprintln(os.Stderr, "unknown command")
		os.Exit(2)
	}
}
