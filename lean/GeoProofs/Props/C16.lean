/-
  C16 — objects are immutable: concurrent queries are race-free and deterministic.
  Generic half: in a shared-memory machine, if every step writes only memory owned by its own
  thread and reads only shared-immutable or own memory, then for EVERY schedule each thread's
  results equal those of running alone, the shared region never changes and no two steps of
  different threads conflict (GeoProofs/Interleave.lean).
  Code-specific half: the effect table extracted from /repo's SSA on every run
  (GeoModel/Generated/Effects.lean) certifies that no function reachable from a query or
  serialisation method writes through anything but activation-local memory and the
  caller-provided output buffer.
-/
import GeoProofs.Interleave
import GeoProofs.EffectsCert
namespace Geo
end Geo
