/-
  GeoProofs.Algebra.LeafOK — leaves whose geometry is a VALID shape of the specification:
  `Geom.shape` reads the specification shape off the geometry (vertex lists), `Geom.OK` says the
  shape is valid (`Spec.Shape.valid`), its holes satisfy `IX.HolesConvexOK` (vacuous without
  holes), and the geometry is exactly what the constructors build from these vertex lists without
  index (`build`).  Then `Geom.intersects` is exact (C02Exact).
-/
import GeoProofs.Algebra.Symm
import GeoProofs.Props.C02Exact

namespace Geo
open GL IX

def Ring.ptsL : Ring → List Pt
  | .ser s => s.pts.toList
  | .bx b => Spec.rectPts b.min b.max

def Geom.shape : Geom → Spec.Shape
  | .point p => .point p
  | .rect r => .rect r.min r.max
  | .line l => .line l.pts.toList
  | .poly p => .poly (match p.ext with | some e => e.ptsL | none => []) (p.holes.map Ring.ptsL)

def Geom.OK (A : Geom) : Prop :=
  A.shape.valid = true ∧ HolesConvexOK A.shape ∧ A = build A.shape

theorem build_shape (S : Spec.Shape) : (build S).shape = S := by
  cases S with
  | point p => rfl
  | rect lo hi => rfl
  | line pts => simp [build, Geom.shape]
  | poly ext hs =>
    simp only [build, Geom.shape, Ring.ptsL, mkSeries_pts, List.map_map]
    congr 1
    conv_rhs => rw [← List.map_id hs]
    apply List.map_congr_left
    intro h _
    simp [Ring.ptsL]

/-- everything `build` makes from a valid shape (holes `ConvexOK`) is OK -/
theorem Geom.OK.of_build (S : Spec.Shape) (hv : S.valid = true) (hc : HolesConvexOK S) :
    (build S).OK := by
  unfold Geom.OK
  rw [build_shape]
  exact ⟨hv, hc, rfl⟩

theorem symOK_build (S : Spec.Shape) : (build S).SymOK := by
  cases S with
  | point p => trivial
  | rect lo hi => trivial
  | line pts => exact mkSeries_WF_none _ _ _
  | poly ext hs =>
    intro e he
    simp only [Option.some.injEq] at he
    subst he
    exact ⟨_, .none, 0, rfl, series_search_exact_kind_none _ _ _⟩

theorem Geom.OK.symOK {A : Geom} (h : A.OK) : A.SymOK := by
  rw [h.2.2]; exact symOK_build _

theorem Geom.OK.intersects_eq {A B : Geom} (hA : A.OK) (hB : B.OK) :
    A.intersects B = Spec.meets A.shape B.shape := by
  have := geom_intersects_exact_holes_of_convexOK A.shape B.shape hA.1 hB.1 hA.2.1 hB.2.1
  rw [← hA.2.2, ← hB.2.2] at this
  exact this

theorem spec_meets_comm (A B : Spec.Shape) (hA : A.valid = true) (hB : B.valid = true) :
    Spec.meets A B = Spec.meets B A := by
  rw [Bool.eq_iff_iff, spec_meets_iff_holes A B hA hB, spec_meets_iff_holes B A hB hA]
  constructor <;> rintro ⟨x, h1, h2⟩ <;> exact ⟨x, h2, h1⟩

theorem Geom.OK.nonEmpty {A : Geom} (hA : A.OK) : A.shape.nonEmpty = true :=
  (factsH_of_valid _ hA.1).ne

/-! ### objects -/

def Obj.shape (a : Obj) : Spec.Shape := a.geom.shape

/-- structural condition for symmetry (no validity) -/
def Obj.LeafSymOK (a : Obj) : Prop := a.geom.SymOK

/-- the leaf is a valid shape built without index -/
def Obj.LeafOK (a : Obj) : Prop := a.geom.OK

theorem Obj.LeafOK.symOK {a : Obj} (h : a.LeafOK) : a.LeafSymOK := Geom.OK.symOK h
theorem Obj.LeafSymOK.wf {a : Obj} (h : a.LeafSymOK) : a.LeafWF := Geom.SymOK.wf h
theorem Obj.LeafOK.wf {a : Obj} (h : a.LeafOK) : a.LeafWF := h.symOK.wf

theorem allLeaves_mono {C D : Obj → Prop} (f : ∀ g, C g → D g) {x : Obj} (h : Obj.AllLeaves C x) :
    Obj.AllLeaves D x := fun g hg hl => f g (h g hg hl)

end Geo
