/-
  GeoProofs.Convex.Monotone — a closed chain with left turns that is monotone (one ascending and
  one descending run per period) has every vertex on the left of every edge line.  Pure algebra
  on the edge vectors: within a run the slopes are ordered (transitivity of `×` in a half
  plane), hence the signed distance to an edge line is unimodal along the chain.
-/
import GeoProofs.Convex.Tops

namespace Geo
namespace Cvx

/-- cross product of the edge vectors `l` and `m` -/
def X (P : Nat → Pt) (l m : Nat) : Rat :=
  ((P (l+1)).x - (P l).x) * ((P (m+1)).y - (P m).y) - ((P (l+1)).y - (P l).y) * ((P (m+1)).x - (P m).x)

theorem F_succ (P : Nat → Pt) (i j : Nat) :
    Spec.cross (P i) (P (i+1)) (P (j+1)) = Spec.cross (P i) (P (i+1)) (P j) + X P i j := by
  simp only [K.cross_def, X]; ring

theorem X_turn (P : Nat → Pt) (l : Nat) : X P l (l+1) = Spec.cross (P l) (P (l+1)) (P (l+2)) := by
  simp only [K.cross_def, X]; ring

theorem X_self (P : Nat → Pt) (l : Nat) : X P l l = 0 := by simp only [X]; ring

theorem X_anti (P : Nat → Pt) (l m : Nat) : X P l m = - X P m l := by simp only [X]; ring

theorem X_id (P : Nat → Pt) (l m k : Nat) :
    ((P (m+1)).y - (P m).y) * X P l k =
      ((P (k+1)).y - (P k).y) * X P l m + ((P (l+1)).y - (P l).y) * X P m k := by
  simp only [X]; ring

theorem F_self (P : Nat → Pt) (i : Nat) : Spec.cross (P i) (P (i+1)) (P i) = 0 := by
  simp only [K.cross_def]; ring

section
variable {P : Nat → Pt} (turn : ∀ i, 0 ≤ Spec.cross (P i) (P (i+1)) (P (i+2)))
include turn

/-- slopes are ordered along an ascending run -/
theorem asc_X {a c : Nat} (hA : Asc P a c) (l : Nat) (hl : a ≤ l) :
    ∀ m, l ≤ m → m < c → 0 ≤ X P l m := by
  intro m hlm
  induction m, hlm using Nat.le_induction with
  | base => intro _; rw [X_self]
  | succ m hm ih =>
    intro hmc
    have h1 := ih (by omega)
    have h2 : 0 ≤ X P m (m+1) := by rw [X_turn]; exact turn m
    have e := X_id P l m (m+1)
    have dl : 0 < (P (l+1)).y - (P l).y := sub_pos.2 (hA l hl (by omega))
    have dm : 0 < (P (m+1)).y - (P m).y := sub_pos.2 (hA m (by omega) (by omega))
    have dk : 0 < (P (m+1+1)).y - (P (m+1)).y := sub_pos.2 (hA (m+1) (by omega) hmc)
    have : 0 ≤ ((P (m+1)).y - (P m).y) * X P l (m+1) := by
      rw [e]; exact add_nonneg (mul_nonneg dk.le h1) (mul_nonneg dl.le h2)
    exact nonneg_of_mul_nonneg_right this dm

/-- slopes are ordered along a descending run -/
theorem desc_X {a c : Nat} (hD : Desc P a c) (l : Nat) (hl : a ≤ l) :
    ∀ m, l ≤ m → m < c → 0 ≤ X P l m := by
  intro m hlm
  induction m, hlm using Nat.le_induction with
  | base => intro _; rw [X_self]
  | succ m hm ih =>
    intro hmc
    have h1 := ih (by omega)
    have h2 : 0 ≤ X P m (m+1) := by rw [X_turn]; exact turn m
    have e := X_id P l m (m+1)
    have dl : (P (l+1)).y - (P l).y < 0 := sub_neg.2 (hD l hl (by omega))
    have dm : (P (m+1)).y - (P m).y < 0 := sub_neg.2 (hD m (by omega) (by omega))
    have dk : (P (m+1+1)).y - (P (m+1)).y < 0 := sub_neg.2 (hD (m+1) (by omega) hmc)
    have : ((P (m+1)).y - (P m).y) * X P l (m+1) ≤ 0 := by
      rw [e]
      exact add_nonpos (mul_nonpos_of_nonpos_of_nonneg dk.le h1) (mul_nonpos_of_nonpos_of_nonneg dl.le h2)
    by_contra hc
    have := mul_pos_of_neg_of_neg dm (not_le.1 hc)
    linarith

omit turn in
/-- nonnegative increments: the signed distance grows -/
theorem F_mono_up (i a : Nat) : ∀ j, a ≤ j → (∀ l, a ≤ l → l < j → 0 ≤ X P i l) →
    Spec.cross (P i) (P (i+1)) (P a) ≤ Spec.cross (P i) (P (i+1)) (P j) := by
  intro j haj
  induction j, haj using Nat.le_induction with
  | base => intro _; exact le_rfl
  | succ j hj ih =>
    intro hx
    rw [F_succ]
    have := ih (fun l h1 h2 => hx l h1 (by omega))
    have := hx j hj (by omega)
    linarith

omit turn in
/-- nonpositive increments: the signed distance decreases -/
theorem F_mono_down (i a : Nat) : ∀ j, a ≤ j → (∀ l, a ≤ l → l < j → X P i l ≤ 0) →
    Spec.cross (P i) (P (i+1)) (P j) ≤ Spec.cross (P i) (P (i+1)) (P a) := by
  intro j haj
  induction j, haj using Nat.le_induction with
  | base => intro _; exact le_rfl
  | succ j hj ih =>
    intro hx
    rw [F_succ]
    have := ih (fun l h1 h2 => hx l h1 (by omega))
    have := hx j hj (by omega)
    linarith

/-- CLAIM A: every vertex is on the left of the line of an ascending edge -/
theorem left_of_up_edge {b r e : Nat} (hbr : b < r) (hre : r < e) (hA : Asc P b r)
    (hD : Desc P r e) (hper : P e = P b) (i : Nat) (hi1 : b ≤ i) (hi2 : i < r) :
    ∀ j, b ≤ j → j ≤ e → 0 ≤ Spec.cross (P i) (P (i+1)) (P j) := by
  have A1 : ∀ j, i ≤ j → j ≤ r → 0 ≤ Spec.cross (P i) (P (i+1)) (P j) := fun j h1 h2 => by
    have := F_mono_up (P := P) i i j h1 (fun l a1 a2 => asc_X turn hA i hi1 l a1 (by omega))
    rwa [F_self] at this
  have A2 : ∀ j, b ≤ j → j ≤ i → 0 ≤ Spec.cross (P i) (P (i+1)) (P j) := fun j h1 h2 => by
    have := F_mono_down (P := P) i j i h2 (fun l a1 a2 => by
      rw [X_anti]
      have := asc_X turn hA l (by omega) i (by omega) hi2
      linarith)
    rwa [F_self] at this
  intro j hbj hje
  by_cases hji : j ≤ i
  · exact A2 j hbj hji
  by_cases hjr : j ≤ r
  · exact A1 j (by omega) hjr
  by_cases hall : ∀ l, r ≤ l → l < j → 0 ≤ X P i l
  · exact le_trans (A1 r (by omega) le_rfl) (F_mono_up i r j (by omega) hall)
  · push_neg at hall
    obtain ⟨l0, a1, a2, a3⟩ := hall
    have di : 0 < (P (i+1)).y - (P i).y := sub_pos.2 (hA i hi1 hi2)
    have d0 : (P (l0+1)).y - (P l0).y < 0 := sub_neg.2 (hD l0 a1 (by omega))
    have tail : ∀ l, l0 ≤ l → l < e → X P i l ≤ 0 := fun l b1 b2 => by
      have dl : (P (l+1)).y - (P l).y < 0 := sub_neg.2 (hD l (by omega) b2)
      have hx := desc_X turn hD l0 a1 l b1 b2
      have e := X_id P i l0 l
      have : 0 ≤ ((P (l0+1)).y - (P l0).y) * X P i l := by
        rw [e]
        exact add_nonneg (mul_nonneg_of_nonpos_of_nonpos dl.le a3.le) (mul_nonneg di.le hx)
      by_contra hc
      have := mul_neg_of_neg_of_pos d0 (not_le.1 hc)
      linarith
    have h1 := F_mono_down (P := P) i j e hje (fun l b1 b2 => tail l (by omega) b2)
    rw [hper] at h1
    exact le_trans (A2 b le_rfl hi1) h1

end

theorem exists_shift (n : Nat) (hn : 0 < n) (x : Nat) : ∀ a, ∃ x', a ≤ x' ∧ x' < a + n ∧ x' % n = x % n
  | 0 => ⟨x % n, Nat.zero_le _, by simpa using Nat.mod_lt x hn, Nat.mod_mod _ _⟩
  | a+1 => by
    obtain ⟨x', h1, h2, h3⟩ := exists_shift n hn x a
    by_cases e : x' = a
    · exact ⟨x' + n, by omega, by omega, by rw [Nat.add_mod_right, h3]⟩
    · exact ⟨x', by omega, by omega, h3⟩

theorem Simple0.congr {P : Nat → Pt} {n : Nat} (h : Simple0 P n) {x x' : Nat}
    (e : x' % n = x % n) : P x' = P x ∧ P (x'+1) = P (x+1) := by
  refine ⟨by rw [h.per_mod x', h.per_mod x, e], ?_⟩
  rw [h.per_mod (x'+1), h.per_mod (x+1), Nat.add_mod x' 1 n, Nat.add_mod x 1 n, e]

/-- LEMMA S for chains without horizontal edges: every vertex is on the left of every edge -/
theorem LT.support {P : Nat → Pt} {n : Nat} (h : LT P n) (i j : Nat) :
    0 ≤ Spec.cross (P i) (P (i+1)) (P j) := by
  have hn : 0 < n := by have := h.n3; omega
  obtain ⟨b, r, hbr, hrn, hA, hD⟩ := monotone_period h
  obtain ⟨i', i1, i2, i3⟩ := exists_shift n hn i b
  obtain ⟨e1, e2⟩ := h.toSimple0.congr i3
  rw [← e1, ← e2]
  by_cases hir : i' < r
  · obtain ⟨j', j1, j2, j3⟩ := exists_shift n hn j b
    rw [← (h.toSimple0.congr j3).1]
    exact left_of_up_edge h.turn hbr hrn hA hD (h.per b) i' i1 hir j' j1 (by omega)
  · obtain ⟨j', j1, j2, j3⟩ := exists_shift n hn j r
    rw [← (h.toSimple0.congr j3).1]
    have hQ := h.rot
    have hA' : Asc (fun i => Cvx.rot (P i)) r (b+n) := fun l a1 a2 => by
      simp only [rot_y]; have := hD l a1 a2; linarith
    have hD' : Desc (fun i => Cvx.rot (P i)) (b+n) (r+n) := fun l a1 a2 => by
      simp only [rot_y]
      have := hA (l - n) (by omega) (by omega)
      rw [show l - n + 1 = (l + 1) - n from by omega] at this
      have p1 : P l = P (l - n) := by rw [← h.per (l - n)]; congr 1; omega
      have p2 : P (l + 1) = P (l + 1 - n) := by rw [← h.per (l + 1 - n)]; congr 1; omega
      rw [p1, p2]; linarith
    have := left_of_up_edge (P := fun i => Cvx.rot (P i)) hQ.turn hrn (by omega) hA' hD'
      (by simp only [h.per]) i' (by omega) i2 j' j1 (by omega)
    simp only [rotOK.cross, one_mul] at this
    exact this

end Cvx
end Geo
