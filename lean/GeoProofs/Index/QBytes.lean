/-
  GeoProofs.Index.QBytes — byte-level refinement for the compressed quadtree:
  `qCompress` writes an encoding of the tree (`Enc`), and `qSearchBytes` on any data that
  `Enc`odes a tree computes exactly `qSearchTree` (no out-of-range read, no fuel exhaustion).
  Final theorem: `qtree_search_exact` (property C04, quadtree half).

  `Enc data lo hi addr n` : the bytes at `addr` decode to `n`, and every byte this depends on
  lies in the window `[lo, hi)`; hence it is stable under any change of `data` outside the
  window (`Enc.imp`) — later `putU32` patches of sibling slots and later appends.
-/
import GeoProofs.Index.Codec
import GeoProofs.Index.QTree

namespace Geo

/-! ## restatement of `qCompress` with its local helpers lifted out -/

/-- byte width chosen for a node's item list -/
def ibOf (items : List Nat) : Nat :=
  items.foldl (fun w it => max w (numBytes it)) (numBytes items.length)

def mkSlot (acc : Array Nat × List Nat) (c : QNode) : Array Nat × List Nat :=
  match c with
  | .nil => (acc.1.push 0, acc.2 ++ [0])
  | _ => ((acc.1.push 1) ++ #[0,0,0,0], acc.2 ++ [acc.1.size + 1])

def emitSlot (dst : Array Nat) (isNil : Bool) (mark : Nat) (rec : Array Nat → Array Nat) : Array Nat :=
  if isNil then dst else rec (putU32 dst mark dst.size)

theorem qCompress_nil (dst : Array Nat) : qCompress .nil dst = dst := rfl

theorem qCompress_node_raw (split : Bool) (items : List Nat) (q0 q1 q2 q3 : QNode) (dst : Array Nat) :
    qCompress (.node split items q0 q1 q2 q3) dst =
      if !split then
        (items.foldl (fun d it => appendNum d it (ibOf items))
          (appendNum (dst.push (ibOf items)) items.length (ibOf items))).push 0
      else
        emitSlot (emitSlot (emitSlot (emitSlot
          (mkSlot (mkSlot (mkSlot (mkSlot
            ((items.foldl (fun d it => appendNum d it (ibOf items))
              (appendNum (dst.push (ibOf items)) items.length (ibOf items))).push 1, []) q0) q1) q2) q3).1
          q0.isNil ((mkSlot (mkSlot (mkSlot (mkSlot
            ((items.foldl (fun d it => appendNum d it (ibOf items))
              (appendNum (dst.push (ibOf items)) items.length (ibOf items))).push 1, []) q0) q1) q2) q3).2.getD 0 0) (qCompress q0))
          q1.isNil ((mkSlot (mkSlot (mkSlot (mkSlot
            ((items.foldl (fun d it => appendNum d it (ibOf items))
              (appendNum (dst.push (ibOf items)) items.length (ibOf items))).push 1, []) q0) q1) q2) q3).2.getD 1 0) (qCompress q1))
          q2.isNil ((mkSlot (mkSlot (mkSlot (mkSlot
            ((items.foldl (fun d it => appendNum d it (ibOf items))
              (appendNum (dst.push (ibOf items)) items.length (ibOf items))).push 1, []) q0) q1) q2) q3).2.getD 2 0) (qCompress q2))
          q3.isNil ((mkSlot (mkSlot (mkSlot (mkSlot
            ((items.foldl (fun d it => appendNum d it (ibOf items))
              (appendNum (dst.push (ibOf items)) items.length (ibOf items))).push 1, []) q0) q1) q2) q3).2.getD 3 0) (qCompress q3) := by
  rw [qCompress]
  rfl

theorem ibOf_ge_aux (g : Nat → Nat) (items : List Nat) (w0 : Nat) :
    w0 ≤ items.foldl (fun w it => max w (g it)) w0 ∧
    ∀ it ∈ items, g it ≤ items.foldl (fun w it => max w (g it)) w0 := by
  induction items generalizing w0 with
  | nil => simp
  | cons x xs ih =>
    simp only [List.foldl_cons, List.mem_cons, forall_eq_or_imp]
    have := ih (max w0 (g x))
    refine ⟨by omega, by omega, this.2⟩

theorem ibOf_cases_aux (items : List Nat) (w0 : Nat) (h : w0 = 1 ∨ w0 = 2 ∨ w0 = 4) :
    let r := items.foldl (fun w it => max w (numBytes it)) w0
    r = 1 ∨ r = 2 ∨ r = 4 := by
  induction items generalizing w0 with
  | nil => simpa using h
  | cons x xs ih =>
    simp only [List.foldl_cons]
    apply ih
    have := numBytes_cases x
    omega

theorem ibOf_cases (items : List Nat) : ibOf items = 1 ∨ ibOf items = 2 ∨ ibOf items = 4 :=
  ibOf_cases_aux items _ (numBytes_cases _)

theorem numBytes_length_le_ibOf (items : List Nat) : numBytes items.length ≤ ibOf items :=
  (ibOf_ge_aux numBytes items _).1

theorem numBytes_le_ibOf (items : List Nat) : ∀ it ∈ items, numBytes it ≤ ibOf items :=
  (ibOf_ge_aux numBytes items _).2

/-- the bytes of a node before its quad slots: width, count, items, split flag -/
def header (split : Bool) (items : List Nat) : List Nat :=
  ibOf items :: (leBytes items.length (ibOf items) ++
    (encItems items (ibOf items) ++ [if split then 1 else 0]))

theorem header_length (split : Bool) (items : List Nat) :
    (header split items).length = 1 + ibOf items + items.length * ibOf items + 1 := by
  simp [header]; omega

theorem header_eq (split : Bool) (items : List Nat) (dst : Array Nat) :
    (items.foldl (fun d it => appendNum d it (ibOf items))
      (appendNum (dst.push (ibOf items)) items.length (ibOf items))).push (if split then 1 else 0) =
    dst ++ (header split items).toArray := by
  rw [foldl_appendNum _ _ _ (ibOf_cases items), appendNum_eq _ _ _ (ibOf_cases items)]
  apply Array.ext'
  simp [header]

/-- placeholder bytes of a quad slot -/
def slot0 (c : QNode) : List Nat := if c.isNil then [0] else [1, 0, 0, 0, 0]

/-- final bytes of a quad slot whose child sits at address `a` -/
def slotBytes (c : QNode) (a : Nat) : List Nat := if c.isNil then [0] else 1 :: leBytes a 4

@[simp] theorem slotBytes_length (c : QNode) (a : Nat) : (slotBytes c a).length = (slot0 c).length := by
  unfold slotBytes slot0; split <;> simp

theorem slot0_length_pos (c : QNode) : 0 < (slot0 c).length := by
  unfold slot0; split <;> simp

theorem mkSlot_eq (acc : Array Nat × List Nat) (c : QNode) :
    mkSlot acc c = (acc.1 ++ (slot0 c).toArray, acc.2 ++ [if c.isNil then 0 else acc.1.size + 1]) := by
  cases c with
  | nil => simp [mkSlot, slot0]
  | node s its a b c d =>
    simp only [mkSlot, slot0, QNode.isNil_node]
    congr 1

/-- one child of `qCompress`: patch the slot at `p`, then append the child. -/
def emitQ (c : QNode) (p : Nat) (d : Array Nat) : Array Nat :=
  if c.isNil then d else qCompress c (putU32 d (p + 1) d.size)

def emitAll : List QNode → Nat → Array Nat → Array Nat
  | [], _, d => d
  | c :: cs, p, d => emitAll cs (p + (slot0 c).length) (emitQ c p d)

theorem emitSlot_eq (d : Array Nat) (c : QNode) (p : Nat) :
    emitSlot d c.isNil (if c.isNil then 0 else p + 1) (qCompress c) = emitQ c p d := by
  unfold emitSlot emitQ
  split <;> rfl

theorem qCompress_node (split : Bool) (items : List Nat) (q0 q1 q2 q3 : QNode) (dst : Array Nat) :
    qCompress (.node split items q0 q1 q2 q3) dst =
      if split then
        emitAll [q0, q1, q2, q3] (dst.size + (header split items).length)
          (dst ++ (header split items).toArray ++ ([q0, q1, q2, q3].flatMap slot0).toArray)
      else dst ++ (header split items).toArray := by
  rw [qCompress_node_raw]
  cases split with
  | false =>
    simp only [Bool.not_false, if_true, Bool.false_eq_true, if_false]
    exact header_eq false items dst
  | true =>
    simp only [Bool.not_true, Bool.false_eq_true, if_false, if_true]
    have h := header_eq true items dst
    simp only [if_true] at h
    rw [h]
    have hs : dst.size + (header true items).length = (dst ++ (header true items).toArray).size := by simp
    rw [hs]
    generalize dst ++ (header true items).toArray = D
    simp only [mkSlot_eq, List.nil_append, List.cons_append, List.getD_cons_zero, List.getD_cons_succ]
    rw [emitSlot_eq, emitSlot_eq, emitSlot_eq, emitSlot_eq]
    have e : (D ++ (List.flatMap slot0 [q0, q1, q2, q3]).toArray) =
        D ++ (slot0 q0).toArray ++ (slot0 q1).toArray ++ (slot0 q2).toArray ++ (slot0 q3).toArray := by
      apply Array.ext'; simp
    rw [e]
    simp only [emitAll, Array.size_append, List.size_toArray]

/-! ## sizes only grow -/

theorem emitQ_size_le (c : QNode) (hc : ∀ d : Array Nat, d.size ≤ (qCompress c d).size) (p : Nat)
    (d : Array Nat) : d.size ≤ (emitQ c p d).size := by
  unfold emitQ
  split
  · exact Nat.le_refl _
  · have := hc (putU32 d (p + 1) d.size)
    rwa [size_putU32] at this

theorem emitAll_size_le (cs : List QNode)
    (hcs : ∀ c ∈ cs, ∀ d : Array Nat, d.size ≤ (qCompress c d).size) (p : Nat) (d : Array Nat) :
    d.size ≤ (emitAll cs p d).size := by
  induction cs generalizing p d with
  | nil => exact Nat.le_refl _
  | cons c cs ih =>
    simp only [emitAll]
    have h1 := emitQ_size_le c (hcs c (by simp)) p d
    have h2 := ih (fun c hc => hcs c (by simp [hc])) (p + (slot0 c).length) (emitQ c p d)
    omega

theorem qCompress_size_le (c : QNode) (dst : Array Nat) : dst.size ≤ (qCompress c dst).size := by
  induction c generalizing dst with
  | nil => exact Nat.le_refl _
  | node split items q0 q1 q2 q3 ih0 ih1 ih2 ih3 =>
    rw [qCompress_node]
    split
    · have := emitAll_size_le [q0, q1, q2, q3] (by
        intro c hc
        simp only [List.mem_cons, List.not_mem_nil, or_false] at hc
        rcases hc with rfl | rfl | rfl | rfl <;> assumption)
        (dst.size + (header split items).length)
        (dst ++ (header split items).toArray ++ ([q0, q1, q2, q3].flatMap slot0).toArray)
      simp only [Array.size_append] at this
      omega
    · simp

/-! ## the encoding relation -/

/-- one quad slot at `p`: its bytes (inside `[lo, hi)`) name an address `a < 2^32` satisfying `E`. -/
def SlotP (data : Array Nat) (lo hi p : Nat) (c : QNode) (E : Nat → Prop) : Prop :=
  ∃ a, lo ≤ p ∧ p + (slot0 c).length ≤ hi ∧ HasBytes data p (slotBytes c a) ∧ a < 2 ^ 32 ∧ E a

/-- "the bytes at `addr` decode to `n`", every byte it depends on lying in `[lo, hi)`. -/
def Enc (data : Array Nat) (lo hi : Nat) : Nat → QNode → Prop
  | _, .nil => True
  | addr, .node split items q0 q1 q2 q3 =>
    lo ≤ addr ∧ addr + (header split items).length ≤ hi ∧
    HasBytes data addr (header split items) ∧
    (split = true →
      SlotP data lo hi (addr + (header split items).length) q0 (fun a => Enc data lo hi a q0) ∧
      SlotP data lo hi (addr + (header split items).length + (slot0 q0).length) q1
        (fun a => Enc data lo hi a q1) ∧
      SlotP data lo hi (addr + (header split items).length + (slot0 q0).length + (slot0 q1).length) q2
        (fun a => Enc data lo hi a q2) ∧
      SlotP data lo hi (addr + (header split items).length + (slot0 q0).length + (slot0 q1).length +
        (slot0 q2).length) q3 (fun a => Enc data lo hi a q3))

def SlotsEnc (data : Array Nat) (lo hi : Nat) : Nat → List QNode → Prop
  | _, [] => True
  | p, c :: cs =>
    SlotP data lo hi p c (fun a => Enc data lo hi a c) ∧ SlotsEnc data lo hi (p + (slot0 c).length) cs

theorem enc_node_iff (data : Array Nat) (lo hi addr : Nat) (split : Bool) (items : List Nat)
    (q0 q1 q2 q3 : QNode) :
    Enc data lo hi addr (.node split items q0 q1 q2 q3) ↔
      lo ≤ addr ∧ addr + (header split items).length ≤ hi ∧
      HasBytes data addr (header split items) ∧
      (split = true → SlotsEnc data lo hi (addr + (header split items).length) [q0, q1, q2, q3]) := by
  simp only [Enc, SlotsEnc, and_true]

theorem SlotP.imp {d d' : Array Nat} {lo hi lo' hi' p : Nat} {c : QNode} {E E' : Nat → Prop}
    (h : SlotP d lo hi p c E) (hlo : lo' ≤ lo) (hhi : hi ≤ hi')
    (hag : ∀ i, lo ≤ i → i < hi → d'[i]? = d[i]?) (hE : ∀ a, E a → E' a) :
    SlotP d' lo' hi' p c E' := by
  obtain ⟨a, h1, h2, h3, h4, h5⟩ := h
  refine ⟨a, by omega, by omega, h3.congr (fun i hi1 hi2 => hag i (by omega) ?_), h4, hE a h5⟩
  rw [slotBytes_length] at hi2
  omega

/-- `Enc` only depends on the bytes in `[lo, hi)`, and the window may be widened. -/
theorem Enc.imp {d d' : Array Nat} {lo hi lo' hi' : Nat} (hlo : lo' ≤ lo) (hhi : hi ≤ hi')
    (hag : ∀ i, lo ≤ i → i < hi → d'[i]? = d[i]?) {addr : Nat} {n : QNode}
    (h : Enc d lo hi addr n) : Enc d' lo' hi' addr n := by
  induction n generalizing addr with
  | nil => trivial
  | node split items q0 q1 q2 q3 ih0 ih1 ih2 ih3 =>
    obtain ⟨h1, h2, h3, h4⟩ := h
    refine ⟨by omega, by omega, h3.congr (fun i hi1 hi2 => hag i (by omega) (by omega)), ?_⟩
    intro hs
    obtain ⟨s0, s1, s2, s3⟩ := h4 hs
    exact ⟨s0.imp hlo hhi hag (fun a => ih0), s1.imp hlo hhi hag (fun a => ih1),
      s2.imp hlo hhi hag (fun a => ih2), s3.imp hlo hhi hag (fun a => ih3)⟩

theorem SlotsEnc.imp {d d' : Array Nat} {lo hi lo' hi' : Nat} (hlo : lo' ≤ lo) (hhi : hi ≤ hi')
    (hag : ∀ i, lo ≤ i → i < hi → d'[i]? = d[i]?) {p : Nat} {cs : List QNode}
    (h : SlotsEnc d lo hi p cs) : SlotsEnc d' lo' hi' p cs := by
  induction cs generalizing p with
  | nil => trivial
  | cons c cs ih =>
    exact ⟨h.1.imp hlo hhi hag (fun a => Enc.imp hlo hhi hag), ih h.2⟩

/-! ## `qCompress` establishes the encoding -/

/-- what compressing `c` onto `dst` guarantees -/
def CSpec (c : QNode) : Prop :=
  ∀ dst : Array Nat, c.isNil = false → (qCompress c dst).size < 2 ^ 32 →
    dst.size ≤ (qCompress c dst).size ∧
    (∀ i, i < dst.size → (qCompress c dst)[i]? = dst[i]?) ∧
    Enc (qCompress c dst) dst.size (qCompress c dst).size dst.size c

theorem emitQ_spec (c : QNode) (hc : CSpec c) (p : Nat) (d : Array Nat)
    (hp : HasBytes d p (slot0 c)) (hsz : (emitQ c p d).size < 2 ^ 32) :
    d.size ≤ (emitQ c p d).size ∧
    (∀ i, i < d.size → (i < p ∨ p + (slot0 c).length ≤ i) → (emitQ c p d)[i]? = d[i]?) ∧
    ∃ a, HasBytes (emitQ c p d) p (slotBytes c a) ∧ a < 2 ^ 32 ∧
      Enc (emitQ c p d) d.size (emitQ c p d).size a c := by
  by_cases hnil : c.isNil = true
  · have hcn : c = .nil := QNode.isNil_eq_true.mp hnil
    subst hcn
    simp only [emitQ, QNode.isNil_nil, if_true]
    refine ⟨Nat.le_refl _, by intros; trivial, 0, ?_, by decide, trivial⟩
    simpa [slotBytes, slot0] using hp
  · have hnil' : c.isNil = false := by simpa using hnil
    have hps := hp.lt_size (by simp [slot0, hnil'])
    simp only [slot0, hnil', Bool.false_eq_true, if_false] at hp hps ⊢
    simp only [List.length_cons, List.length_nil] at hps
    simp only [emitQ, hnil', Bool.false_eq_true, if_false] at hsz ⊢
    have hsp := hc (putU32 d (p + 1) d.size) hnil' hsz
    rw [size_putU32] at hsp
    obtain ⟨h1, h2, h3⟩ := hsp
    refine ⟨h1, ?_, d.size, ?_, by omega, h3⟩
    · intro i hi ho
      rw [h2 i hi]
      exact getElem?_putU32_of_outside d (p + 1) d.size i (by simp only [List.length_cons, List.length_nil] at ho; omega)
    · simp only [slotBytes, hnil', Bool.false_eq_true, if_false]
      rw [hasBytes_cons]
      constructor
      · rw [h2 p (by omega), getElem?_putU32_of_outside d (p + 1) d.size p (by omega)]
        exact (hasBytes_cons.mp hp).1
      · refine (hasBytes_putU32_self d (p + 1) d.size (by omega)).congr ?_
        intro i hi1 hi2
        simp only [leBytes_length] at hi2
        exact h2 i (by omega)

theorem emitAll_spec (cs : List QNode) (hcs : ∀ c ∈ cs, CSpec c) (lo p : Nat) (d : Array Nat)
    (hlo : lo ≤ p) (hp : HasBytes d p (cs.flatMap slot0))
    (hpd : p + (cs.flatMap slot0).length ≤ d.size)
    (hsz : (emitAll cs p d).size < 2 ^ 32) :
    d.size ≤ (emitAll cs p d).size ∧
    (∀ i, i < d.size → (i < p ∨ p + (cs.flatMap slot0).length ≤ i) → (emitAll cs p d)[i]? = d[i]?) ∧
    SlotsEnc (emitAll cs p d) lo (emitAll cs p d).size p cs := by
  induction cs generalizing p d with
  | nil => exact ⟨Nat.le_refl _, fun _ _ _ => rfl, trivial⟩
  | cons c cs ih =>
    simp only [List.flatMap_cons, List.length_append] at hp hpd ⊢
    rw [hasBytes_append] at hp
    simp only [emitAll] at hsz ⊢
    -- the remaining slots are untouched by this step
    have hcspec := hcs c (by simp)
    -- sizes first: we need the step's output size bound, from the IH's monotonicity
    have hstep_of : (emitQ c p d).size < 2 ^ 32 →
        d.size ≤ (emitQ c p d).size ∧
        (∀ i, i < d.size → (i < p ∨ p + (slot0 c).length ≤ i) → (emitQ c p d)[i]? = d[i]?) ∧
        ∃ a, HasBytes (emitQ c p d) p (slotBytes c a) ∧ a < 2 ^ 32 ∧
          Enc (emitQ c p d) d.size (emitQ c p d).size a c :=
      emitQ_spec c hcspec p d hp.1
    -- monotonicity of `emitQ` without the size hypothesis is not available, so get the
    -- HasBytes for the rest from agreement once we know sizes; do a case split on nil.
    have hmono : d.size ≤ (emitQ c p d).size ∧
        (∀ i, i < d.size → (i < p ∨ p + (slot0 c).length ≤ i) → (emitQ c p d)[i]? = d[i]?) ∧
        ∃ a, HasBytes (emitQ c p d) p (slotBytes c a) ∧ a < 2 ^ 32 ∧
          Enc (emitQ c p d) d.size (emitQ c p d).size a c := by
      apply hstep_of
      have := emitAll_size_le cs (fun c _ d => qCompress_size_le c d) (p + (slot0 c).length) (emitQ c p d)
      omega
    obtain ⟨m1, m2, a, m3, m4, m5⟩ := hmono
    have hp' : HasBytes (emitQ c p d) (p + (slot0 c).length) (cs.flatMap slot0) :=
      hp.2.congr (fun i hi1 hi2 => m2 i (by omega) (by omega))
    have hih := ih (fun c hc => hcs c (by simp [hc])) (p + (slot0 c).length) (emitQ c p d)
      (by omega) hp' (by omega) hsz
    obtain ⟨i1, i2, i3⟩ := hih
    refine ⟨by omega, ?_, ?_, i3⟩
    · intro i hi ho
      rw [i2 i (by omega) (by omega), m2 i hi (by omega)]
    · have hl := slot0_length_pos c
      refine ⟨a, hlo, by omega, ?_, m4, ?_⟩
      · refine m3.congr (fun i hi1 hi2 => i2 i ?_ ?_)
        · rw [slotBytes_length] at hi2; omega
        · rw [slotBytes_length] at hi2; omega
      · exact m5.imp (by omega) i1 (fun i hi1 hi2 => i2 i hi2 (by omega))

theorem qCompress_spec (c : QNode) : CSpec c := by
  induction c with
  | nil => intro dst h; simp at h
  | node split items q0 q1 q2 q3 ih0 ih1 ih2 ih3 =>
    intro dst _ hsz
    rw [qCompress_node] at hsz ⊢
    cases split with
    | false =>
      simp only [Bool.false_eq_true, if_false] at hsz ⊢
      refine ⟨by simp, fun i hi => Array.getElem?_append_left hi, ?_⟩
      refine ⟨Nat.le_refl _, by simp, hasBytes_append_self _ _, fun h => by cases h⟩
    | true =>
      simp only [if_true] at hsz ⊢
      have hcs : ∀ c ∈ [q0, q1, q2, q3], CSpec c := by
        intro c hc
        simp only [List.mem_cons, List.not_mem_nil, or_false] at hc
        rcases hc with rfl | rfl | rfl | rfl <;> assumption
      have hP : dst.size + (header true items).length = (dst ++ (header true items).toArray).size := by
        simp
      have hp : HasBytes (dst ++ (header true items).toArray ++ ([q0, q1, q2, q3].flatMap slot0).toArray)
          (dst.size + (header true items).length) ([q0, q1, q2, q3].flatMap slot0) := by
        rw [hP]; exact hasBytes_append_self _ _
      have hH : HasBytes (dst ++ (header true items).toArray ++ ([q0, q1, q2, q3].flatMap slot0).toArray)
          dst.size (header true items) := (hasBytes_append_self _ _).append_right _
      have := emitAll_spec [q0, q1, q2, q3] hcs dst.size (dst.size + (header true items).length) _
        (by omega) hp (by simp; omega) hsz
      obtain ⟨h1, h2, h3⟩ := this
      simp only [Array.size_append, List.size_toArray] at h1 h2
      refine ⟨by omega, ?_, ?_⟩
      · intro i hi
        rw [h2 i (by omega) (by omega), Array.getElem?_append_left (by simp; omega),
          Array.getElem?_append_left hi]
      · rw [enc_node_iff]
        refine ⟨Nat.le_refl _, by omega, ?_, fun _ => h3⟩
        exact hH.congr (fun i hi1 hi2 => h2 i (by omega) (by omega))

/-! ## searching encoded bytes = searching the tree -/

section search
variable {α σ : Type} [Carrier α] (boxOf : Nat → GBox α) (q : GBox α) (f : σ → Nat → σ × Bool)

/-- the four `step`s of `qSearchTree`, as a list recursion -/
def treeQuads (bounds : GBox α) : Nat → List QNode → σ × Bool → σ × Bool
  | _, [], acc => acc
  | qi, c :: cs, acc =>
    treeQuads bounds (qi + 1) cs
      (qStep q bounds acc c.isNil qi (qSearchTree boxOf q f c (quadBounds bounds qi)))

theorem treeQuads_stopped (bounds : GBox α) (qi : Nat) (cs : List QNode) (s : σ) :
    treeQuads boxOf q f bounds qi cs (s, false) = (s, false) := by
  induction cs generalizing qi with
  | nil => rfl
  | cons c cs ih => simp [treeQuads, qStep, ih]

theorem qSearchTree_node' (split : Bool) (items : List Nat) (q0 q1 q2 q3 : QNode) (bounds : GBox α)
    (s : σ) :
    qSearchTree boxOf q f (.node split items q0 q1 q2 q3) bounds s =
      if !(visitItems boxOf q f s items).2 then ((visitItems boxOf q f s items).1, false)
      else if !split then ((visitItems boxOf q f s items).1, true)
      else treeQuads boxOf q f bounds 0 [q0, q1, q2, q3] ((visitItems boxOf q f s items).1, true) := by
  rw [qSearchTree_node]; rfl

theorem quads_eq (data : Array Nat) (lo hi fuel : Nat) (bounds : GBox α) (cs : List QNode)
    (hrec : ∀ c ∈ cs, c.isNil = false → ∀ a b s, Enc data lo hi a c →
      qSearchBytes boxOf q f data fuel a b s = some (qSearchTree boxOf q f c b s))
    (qi p : Nat) (s : σ) (hs : SlotsEnc data lo hi p cs) :
    qSearchBytes.quads boxOf q f data fuel bounds qi cs.length p s =
      some (treeQuads boxOf q f bounds qi cs (s, true)) := by
  induction cs generalizing qi p s with
  | nil => rw [List.length_nil, qSearchBytes.quads.eq_1]; rfl
  | cons c cs ih =>
    obtain ⟨⟨a, _, _, hb, ha, hE⟩, hrest⟩ := hs
    have ih' := ih (fun c hc => hrec c (by simp [hc]))
    rw [List.length_cons, qSearchBytes.quads.eq_2]
    by_cases hnil : c.isNil = true
    · have h0 : data[p]? = some 0 := by
        simpa [slotBytes, hnil, hasBytes_singleton] using hb
      have hl : (slot0 c).length = 1 := by simp [slot0, hnil]
      rw [hl] at hrest
      simp [h0, treeQuads, qStep, hnil, ih' (qi + 1) (p + 1) s hrest]
    · have hnil' : c.isNil = false := by simpa using hnil
      simp only [slotBytes, hnil', Bool.false_eq_true, if_false, hasBytes_cons] at hb
      have hl : (slot0 c).length = 5 := by simp [slot0, hnil']
      rw [hl] at hrest
      have hr : readLE data (p + 1) 4 = some a := readLE_of_hasBytes hb.2 (by simpa using ha)
      have hrc := hrec c (by simp) hnil' a (quadBounds bounds qi)
      simp only [hb.1, hr, treeQuads, qStep, hnil']
      by_cases hm : (quadBounds bounds qi).meets q = true
      · simp [hm, hrc _ hE]
        rcases qSearchTree boxOf q f c (quadBounds bounds qi) s with ⟨s', c'⟩
        cases c' with
        | true => simpa using ih' (qi + 1) (p + 5) s' hrest
        | false => simp [treeQuads_stopped]
      · simp [hm, ih' (qi + 1) (p + 5) s hrest]
/-- on data that encodes `n`, the byte-level search never reads out of range, never runs out of
    fuel (given `fuel ≥ depth`), and computes exactly the tree-level search. -/
theorem qSearchBytes_of_enc (data : Array Nat) (lo hi : Nat) (n : QNode) :
    ∀ (fuel addr : Nat) (bounds : GBox α) (s : σ), Enc data lo hi addr n → n.isNil = false →
      n.depth ≤ fuel → (∀ i ∈ n.allItems, i < 2 ^ 32) → n.maxLen < 2 ^ 32 →
      qSearchBytes boxOf q f data fuel addr bounds s = some (qSearchTree boxOf q f n bounds s) := by
  induction n with
  | nil => intro _ _ _ _ _ h; simp at h
  | node split items q0 q1 q2 q3 ih0 ih1 ih2 ih3 =>
    intro fuel addr bounds s henc _ hdepth hitems hlen
    cases fuel with
    | zero => simp [QNode.depth] at hdepth
    | succ fuel =>
      rw [enc_node_iff] at henc
      obtain ⟨_, _, hH, hS⟩ := henc
      have hibc := ibOf_cases items
      simp only [header, hasBytes_cons, hasBytes_append, leBytes_length, encItems_length] at hH
      obtain ⟨hb0, hb1, hb2, hb3⟩ := hH
      have hlen' : items.length < 2 ^ 32 := by
        simp only [QNode.maxLen] at hlen; omega
      have hrn : readNum data (addr + 1) (ibOf items) = some items.length :=
        readNum_of_hasBytes hibc hb1
          (lt_pow_of_numBytes_le hibc (numBytes_length_le_ibOf items) hlen')
      have hvi := visitItemsBytes_of_hasBytes boxOf q f hibc items (addr + 1 + ibOf items) s
        (fun it hit => lt_pow_of_numBytes_le hibc (numBytes_le_ibOf items it hit)
          (hitems it (by simp only [QNode.allItems, List.mem_append]; exact Or.inl hit))) hb2
      rw [qSearchBytes.eq_2, qSearchTree_node']
      simp only [hb0, hrn, hvi, Option.bind_eq_bind, Option.bind_some, Option.pure_def]
      rcases visitItems boxOf q f s items with ⟨s1, c1⟩
      cases c1 with
      | false => simp
      | true =>
        simp only [hb3]
        cases split with
        | false => simp
        | true =>
          have hrec : ∀ c ∈ [q0, q1, q2, q3], c.isNil = false → ∀ a b s, Enc data lo hi a c →
              qSearchBytes boxOf q f data fuel a b s = some (qSearchTree boxOf q f c b s) := by
            intro c hc hcn a b s hE
            simp only [QNode.depth] at hdepth
            simp only [QNode.maxLen] at hlen
            simp only [QNode.allItems] at hitems
            simp only [List.mem_cons, List.not_mem_nil, or_false] at hc
            rcases hc with rfl | rfl | rfl | rfl
            · exact ih0 fuel a b s hE hcn (by omega) (fun i hi => hitems i (by simp [hi])) (by omega)
            · exact ih1 fuel a b s hE hcn (by omega) (fun i hi => hitems i (by simp [hi])) (by omega)
            · exact ih2 fuel a b s hE hcn (by omega) (fun i hi => hitems i (by simp [hi])) (by omega)
            · exact ih3 fuel a b s hE hcn (by omega) (fun i hi => hitems i (by simp [hi])) (by omega)
          have hq := quads_eq boxOf q f data lo hi fuel bounds [q0, q1, q2, q3] hrec 0
            (addr + (header true items).length) s1 (hS rfl)
          have hp : addr + (header true items).length =
              addr + 1 + ibOf items + items.length * ibOf items + 1 := by
            rw [header_length]; omega
          rw [hp] at hq
          simpa using hq
/-- the compressed bytes encode the tree: searching them (at the address where the tree was
    written, whatever precedes and follows) is the tree search, with no out-of-range read. -/
theorem qSearchBytes_qCompress (n : QNode) (pre post : Array Nat) (fuel : Nat) (bounds : GBox α)
    (s : σ) (hn : n.isNil = false) (hitems : ∀ i ∈ n.allItems, i < 2 ^ 32)
    (hlen : n.maxLen < 2 ^ 32) (hsz : (qCompress n pre).size < 2 ^ 32) (hfuel : n.depth ≤ fuel) :
    qSearchBytes boxOf q f ((qCompress n pre) ++ post) fuel pre.size bounds s =
      some (qSearchTree boxOf q f n bounds s) := by
  obtain ⟨_, _, henc⟩ := qCompress_spec n pre hn hsz
  have henc' : Enc (qCompress n pre ++ post) pre.size (qCompress n pre).size pre.size n :=
    henc.imp (Nat.le_refl _) (Nat.le_refl _) (fun i _ hi => Array.getElem?_append_left hi)
  exact qSearchBytes_of_enc boxOf q f _ _ _ n fuel pre.size bounds s henc' hn hfuel hitems hlen

end search

/-- C04, quadtree half: searching the compressed quadtree of `nsegs` segments reports exactly the
    segments whose box meets the query (a permutation of the filtered range: each once), honours
    early stop (`foldUntil`), and never reads out of range nor exhausts its fuel (`some`) — for
    every carrier whose `lt` is a strict weak order, whatever `mid` computes. -/
theorem qtree_search_exact {α : Type} [Carrier α] [LawfulCarrier α] (boxOf : Nat → GBox α)
    (bounds q : GBox α) (nsegs : Nat) (hn : nsegs < 2 ^ 32)
    (hb : ∀ i, i < nsegs → boxOf i ⊆ bounds)
    (hsz : (qCompress (qBuild boxOf bounds nsegs) #[2, 0, 0, 0, 0]).size < 2 ^ 32) :
    ∃ visit : List Nat,
      List.Perm visit ((List.range nsegs).filter (fun i => (boxOf i).meets q)) ∧
      ∀ (σ : Type) (f : σ → Nat → σ × Bool) (s : σ),
        qSearchBytes boxOf q f (qCompress (qBuild boxOf bounds nsegs) #[2, 0, 0, 0, 0])
          (qMaxDepth + 2) 5 bounds s = some (foldUntil f s visit) := by
  refine ⟨qVisit boxOf q (qBuild boxOf bounds nsegs) bounds,
    qBuild_search_exact boxOf q bounds nsegs hb, ?_⟩
  intro σ f s
  have hperm := (qBuild_spec boxOf bounds nsegs hb).2
  have hitems : ∀ i ∈ (qBuild boxOf bounds nsegs).allItems, i < 2 ^ 32 := by
    intro i hi
    have := List.mem_range.mp (hperm.mem_iff.mp hi)
    omega
  have hlen : (qBuild boxOf bounds nsegs).maxLen < 2 ^ 32 := by
    have h1 := QNode.maxLen_le_allItems (qBuild boxOf bounds nsegs)
    have h2 := hperm.length_eq
    rw [List.length_range] at h2
    omega
  have hdepth : (qBuild boxOf bounds nsegs).depth ≤ qMaxDepth + 2 := by
    have := qBuild_depth boxOf bounds nsegs
    omega
  have := qSearchBytes_qCompress boxOf q f (qBuild boxOf bounds nsegs) #[2, 0, 0, 0, 0] #[]
    (qMaxDepth + 2) bounds s (qBuild_isNil boxOf bounds nsegs) hitems hlen hsz hdepth
  rw [Array.append_empty] at this
  rw [← qSearchTree_eq_foldUntil]
  exact this

end Geo

#print axioms Geo.qCompress_spec
#print axioms Geo.qSearchBytes_of_enc
#print axioms Geo.qSearchBytes_qCompress
#print axioms Geo.qtree_search_exact
