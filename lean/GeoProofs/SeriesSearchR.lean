/-
  GeoProofs.SeriesSearchR — the R-tree case of C04 for the concrete `Series` (carrier `Rat`,
  coordinates encoded as IEEE-754 binary64 by `encF64`/`decF64`), without any hypothesis on the
  byte-level search: `series_search_exact_rtree_dyadic`.

  Ingredients: `rtree_search_exact_patched` (Index/RBytesGood.lean: exactness of the search on
  the bytes as stored, with the float round trip needed on the occurring coordinates only),
  `SignExactSub Rat` (below), and the float codec round trip on `Dyadic53` rationals
  (Index/F64Codec.lean).  Then every C01 statement holds for R-tree-indexed rings as well.
-/
import GeoProofs.SeriesSearch
import GeoProofs.Index.RBytesGood
import GeoProofs.Props.C01

namespace Geo

/-! ### exact rational subtraction has an exact sign -/

instance : SignExactSub Rat where
  sub_neg a b := by
    show decide (a - b < 0) = decide (a < b)
    rw [decide_eq_decide]
    exact sub_neg
  sub_pos a b := by
    show decide (0 < a - b) = decide (b < a)
    rw [decide_eq_decide]
    exact sub_pos

/-! ### segment boxes only contain vertex coordinates -/

theorem segBox_good (G : Rat → Prop) (pts : Array Pt) (closed : Bool)
    (hd : ∀ p ∈ pts.toList, G p.x ∧ G p.y) (i : Nat) (hi : i < numSegmentsOf pts closed) :
    ((segmentAtOf pts i).box.g).Good G := by
  obtain ⟨ha, hb⟩ := segmentAt_mem pts closed i hi
  obtain ⟨a1, a2⟩ := hd _ ha
  obtain ⟨b1, b2⟩ := hd _ hb
  unfold GBox.Good Box.g Seg.box
  simp only
  refine ⟨?_, ?_, ?_, ?_⟩ <;> split <;> assumption

/-- R-tree-indexed series, for any set `G` of coordinates on which the float codec round-trips
    and which contains all vertex coordinates. -/
theorem series_search_exact_rtree_of_codec (G : Rat → Prop)
    (henc : ∀ x, G x → decF64 (encF64 x) = x)
    (pts : Array Pt) (closed : Bool) (minPoints : Nat)
    (hd : ∀ p ∈ pts.toList, G p.x ∧ G p.y)
    (hn : pts.size < 2 ^ 32) (hsz : (rBytesOf pts closed).size < 2 ^ 32) :
    (mkSeries pts closed .rtree minPoints).SearchExact := by
  refine series_search_exact_rtree pts closed minPoints hsz (fun q => ?_)
  have hns : numSegmentsOf pts closed < 2 ^ 32 := by
    have := numSegmentsOf_le pts closed; omega
  exact rtree_search_exact_patched G encF64 decF64 (fun i => (segmentAtOf pts i).box.g) q
    (numSegmentsOf pts closed) hns henc (fun x => by simp [encF64])
    (fun i hi => segBox_good G pts closed hd i hi) hsz

end Geo

#print axioms Geo.series_search_exact_rtree_of_codec
