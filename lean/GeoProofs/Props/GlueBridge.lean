/-
  GeoProofs.Props.GlueBridge — final statements: the glue of geometry/poly.go, rect.go, line.go
  as regenerated from the CURRENT Go source (GeoModel/Generated/GlueGen.lean, translator
  translate/glue.go), instantiated with the hand model's ring-level functions
  (`Glue.modelOps`), equals the hand model of GeoModel/Geom.lean — for ALL inputs.

  `Glue.toG p = ⟨p.ext, p.holes⟩` is the hand model's `Poly` as the generated record; `some _`
  is a non-nil pointer, `none` the nil pointer (last theorem: every method answers false /
  true / Rect{} on nil exactly as the Go guards say).
-/
import GeoProofs.Glue.PolyGlue

namespace Geo

theorem glue_polyEmpty (p : Poly) :
    GGen.polyEmpty Glue.modelOps (some (Glue.toG p)) = p.empty :=
  Glue.polyEmpty_eq p

theorem glue_polyRect (p : Poly) :
    GGen.polyRect Glue.modelOps (some (Glue.toG p)) = p.rect :=
  Glue.polyRect_eq p

theorem glue_polyContainsPoint (p : Poly) (pt : Pt) :
    GGen.polyContainsPoint Glue.modelOps (some (Glue.toG p)) pt = p.containsPoint pt :=
  Glue.polyContainsPoint_eq p pt

theorem glue_polyIntersectsPoint (p : Poly) (pt : Pt) :
    GGen.polyIntersectsPoint Glue.modelOps (some (Glue.toG p)) pt = p.containsPoint pt :=
  Glue.polyIntersectsPoint_eq p pt

theorem glue_polyContainsRect (p : Poly) (r : Box) :
    GGen.polyContainsRect Glue.modelOps (some (Glue.toG p)) r = p.containsRect r :=
  Glue.polyContainsRect_eq p r

theorem glue_polyIntersectsRect (p : Poly) (r : Box) :
    GGen.polyIntersectsRect Glue.modelOps (some (Glue.toG p)) r = p.intersectsRect r :=
  Glue.polyIntersectsRect_eq p r

theorem glue_polyContainsLine (p : Poly) (l : Line) :
    GGen.polyContainsLine Glue.modelOps (some (Glue.toG p)) (some l) = p.containsLine l :=
  Glue.polyContainsLine_eq p l

theorem glue_polyIntersectsLine (p : Poly) (l : Line) :
    GGen.polyIntersectsLine Glue.modelOps (some (Glue.toG p)) (some l) = p.intersectsLine l :=
  Glue.polyIntersectsLine_eq p l

theorem glue_polyContainsPoly (p o : Poly) :
    GGen.polyContainsPoly Glue.modelOps (some (Glue.toG p)) (some (Glue.toG o)) = p.containsPoly o :=
  Glue.polyContainsPoly_eq p o

theorem glue_polyIntersectsPoly (p o : Poly) :
    GGen.polyIntersectsPoly Glue.modelOps (some (Glue.toG p)) (some (Glue.toG o)) = p.intersectsPoly o :=
  Glue.polyIntersectsPoly_eq p o

theorem glue_rectContainsLine (r : Box) (l : Line) :
    GGen.rectContainsLine Glue.modelOps r (some l) = r.containsLine l :=
  Glue.rectContainsLine_eq r l

theorem glue_rectIntersectsLine (r : Box) (l : Line) :
    GGen.rectIntersectsLine Glue.modelOps r (some l) = r.intersectsLine l :=
  Glue.rectIntersectsLine_eq r l

theorem glue_rectContainsPoly (r : Box) (p : Poly) :
    GGen.rectContainsPoly Glue.modelOps r (some (Glue.toG p)) = r.containsPoly p :=
  Glue.rectContainsPoly_eq r p

theorem glue_rectIntersectsPoly (r : Box) (p : Poly) :
    GGen.rectIntersectsPoly Glue.modelOps r (some (Glue.toG p)) = r.intersectsPoly p :=
  Glue.rectIntersectsPoly_eq r p

theorem glue_lineIntersectsPoint (l : Line) (pt : Pt) :
    GGen.lineIntersectsPoint Glue.modelOps (some l) pt = l.containsPoint pt :=
  Glue.lineIntersectsPoint_eq l pt

theorem glue_lineContainsRect (l : Line) (r : Box) :
    GGen.lineContainsRect Glue.modelOps (some l) r = l.containsRect r :=
  Glue.lineContainsRect_eq l r

theorem glue_lineIntersectsRect (l : Line) (r : Box) :
    GGen.lineIntersectsRect Glue.modelOps (some l) r = l.intersectsRect r :=
  Glue.lineIntersectsRect_eq l r

theorem glue_lineIntersectsPoly (l : Line) (p : Poly) :
    GGen.lineIntersectsPoly Glue.modelOps (some l) (some (Glue.toG p)) = l.intersectsPoly p :=
  Glue.lineIntersectsPoly_eq l p

/-- nil receivers / arguments -/
theorem glue_nil (ops : GGen.RingOps Ring Line Box Pt) (g : Option (GGen.GPoly Ring))
    (l : Option Line) (pt : Pt) (r : Box) :
    GGen.polyEmpty ops none = true ∧ GGen.polyRect ops none = ops.rectZero ∧
    GGen.polyContainsPoint ops none pt = false ∧ GGen.polyIntersectsPoint ops none pt = false ∧
    GGen.polyContainsRect ops none r = false ∧ GGen.polyIntersectsRect ops none r = false ∧
    GGen.polyContainsLine ops none l = false ∧ GGen.polyIntersectsLine ops none l = false ∧
    GGen.polyContainsPoly ops none g = false ∧ GGen.polyIntersectsPoly ops none g = false ∧
    GGen.rectContainsLine ops r none = false ∧ GGen.rectIntersectsLine ops r none = false ∧
    GGen.rectContainsPoly ops r none = false ∧ GGen.rectIntersectsPoly ops r none = false ∧
    GGen.lineIntersectsPoint ops none pt = false ∧ GGen.lineContainsRect ops none r = false ∧
    GGen.lineIntersectsRect ops none r = false ∧ GGen.lineIntersectsPoly ops l none = false :=
  ⟨rfl, rfl, rfl, rfl, rfl, rfl, rfl, rfl, rfl, rfl, rfl, rfl, rfl, rfl, rfl, rfl, rfl, rfl⟩

end Geo

#print axioms Geo.glue_polyEmpty
#print axioms Geo.glue_polyRect
#print axioms Geo.glue_polyContainsPoint
#print axioms Geo.glue_polyIntersectsPoint
#print axioms Geo.glue_polyContainsRect
#print axioms Geo.glue_polyIntersectsRect
#print axioms Geo.glue_polyContainsLine
#print axioms Geo.glue_polyIntersectsLine
#print axioms Geo.glue_polyContainsPoly
#print axioms Geo.glue_polyIntersectsPoly
#print axioms Geo.glue_rectContainsLine
#print axioms Geo.glue_rectIntersectsLine
#print axioms Geo.glue_rectContainsPoly
#print axioms Geo.glue_rectIntersectsPoly
#print axioms Geo.glue_lineIntersectsPoint
#print axioms Geo.glue_lineContainsRect
#print axioms Geo.glue_lineIntersectsRect
#print axioms Geo.glue_lineIntersectsPoly
#print axioms Geo.glue_nil
