/-
  GeoProofs.Float.BridgeRay — on the regime E the binary64 `Raycast` (`raycastF`) takes the
  same decisions as the exact model `Geo.raycast`, return site included.
-/
import GeoProofs.Float.Nudge

namespace Geo.F
open Geo

/-! ### magnitudes of coordinate differences -/

theorem D1.abs_ge {x : ℚ} (h : D1 x) (h0 : x ≠ 0) : 1 / 16 ≤ |x| := by
  obtain ⟨k, _, rfl⟩ := h
  have hk : k ≠ 0 := by rintro rfl; simp at h0
  have : (1 : ℚ) ≤ |(k : ℚ)| := by exact_mod_cast Int.one_le_abs hk
  rw [abs_div, abs_of_pos (by positivity : (0 : ℚ) < 2 ^ 4), le_div_iff₀ (by positivity)]
  linarith

theorem D1.abs_le {x : ℚ} (h : D1 x) : |x| ≤ 2 ^ 21 := by
  obtain ⟨k, hk, rfl⟩ := h
  have : |(k : ℚ)| ≤ 2 ^ 25 := by exact_mod_cast hk
  rw [abs_div, abs_of_pos (by positivity : (0 : ℚ) < 2 ^ 4), div_le_iff₀ (by positivity)]
  calc |(k : ℚ)| ≤ 2 ^ 25 := this
    _ = 2 ^ 21 * 2 ^ 4 := by norm_num

/-! ### the two quotient comparisons -/

theorem fdivF_zero (n : ℚ) : fdivF n 0 = Geo.fdiv n 0 := by simp [fdivF, Geo.fdiv]

theorem fdivF_ne {n d : ℚ} (h : d ≠ 0) : fdivF n d = .fin (fdiv n d) := by simp [fdivF, h]

theorem gfdiv_ne {n d : ℚ} (h : d ≠ 0) : Geo.fdiv n d = .fin (n / d) := by simp [Geo.fdiv, h]

theorem feq_bridge {a b c d : ℚ} (ha : D1 a) (hb : D1 b) (hc : D1 c) (hd : D1 d) :
    (fdivF a b).feq (fdivF c d) = (Geo.fdiv a b).feq (Geo.fdiv c d) := by
  by_cases hb0 : b = 0
  · subst hb0
    by_cases hd0 : d = 0
    · subst hd0; rw [fdivF_zero, fdivF_zero]
    · rw [fdivF_zero, fdivF_ne hd0, gfdiv_ne hd0]
      unfold Geo.fdiv; simp only [if_true]
      split_ifs <;> rfl
  · by_cases hd0 : d = 0
    · subst hd0
      rw [fdivF_zero, fdivF_ne hb0, gfdiv_ne hb0]
      unfold Geo.fdiv; simp only [if_true]
      split_ifs <;> rfl
    · rw [fdivF_ne hb0, fdivF_ne hd0, gfdiv_ne hb0, gfdiv_ne hd0]
      simp only [FQ.feq]
      exact decide_eq_decide.mpr (fdiv_eq_iff ha hb hc hd hb0 hd0)

theorem fge_bridge {a b c d : ℚ} (ha : D1 a) (hb : D1 b) (hc : D1 c) (hd : D1 d) :
    (fdivF a b).fge (fdivF c d) = (Geo.fdiv a b).fge (Geo.fdiv c d) := by
  by_cases hb0 : b = 0
  · subst hb0
    by_cases hd0 : d = 0
    · subst hd0; rw [fdivF_zero, fdivF_zero]
    · rw [fdivF_zero, fdivF_ne hd0, gfdiv_ne hd0]
      unfold Geo.fdiv; simp only [if_true]
      split_ifs <;> rfl
  · by_cases hd0 : d = 0
    · subst hd0
      rw [fdivF_zero, fdivF_ne hb0, gfdiv_ne hb0]
      unfold Geo.fdiv; simp only [if_true]
      split_ifs <;> rfl
    · rw [fdivF_ne hb0, fdivF_ne hd0, gfdiv_ne hb0, gfdiv_ne hd0]
      simp only [FQ.fge]
      exact decide_eq_decide.mpr (fdiv_le_iff hc hd ha hb hd0 hb0)

/-- stage 4 -/
theorem rcSlopeEqF_eq {a b p : Pt} (ha : PtE a) (hb : PtE b) (hp : PtE p) :
    rcSlopeEqF a b p = rcSlopeEq a b p := by
  unfold rcSlopeEqF rcSlopeEq
  rw [fsub_exact hp.1 ha.1, fsub_exact hb.1 ha.1, fsub_exact hp.2 ha.2, fsub_exact hb.2 ha.2,
    feq_bridge (hp.1.sub ha.1) (hb.1.sub ha.1) (hp.2.sub ha.2) (hb.2.sub ha.2)]

end Geo.F
