/-
  GeoProofs.Intersects.Model — exactness of `ringIntersectsLine` and `ringIntersectsRing`
  (allowOnEdge = true) for rings of the model that realise closed chains (`IX.RingSpec`).

  `ringIntersectsRing` only tests the segments of the ring with the smaller rectangle area
  against the region of the other ring.  This is complete: if no boundary point of `O` lies in
  the region of `R`, then either the regions are disjoint, or the boundary of `R` lies strictly
  inside `O` — but then the rectangle of `R` is strictly smaller than that of `O`
  (`strict_nesting_rect`), so the code would have swapped the two.
-/
import GeoProofs.Intersects.Rings
import GeoProofs.Intersects.Regions

namespace Geo
namespace IX
open GL Jordan

theorem inRing_nil (p : Pt) : Spec.inRing [] p = false := rfl

theorem RingSpec.inRing_empty {r : Ring} {pts : List Pt} (h : RingSpec r pts) (he : r.empty = true)
    (p : Pt) : Spec.inRing (Spec.edges pts true) p = false := by
  rw [h.empty_iff.1 he]; rfl

/-- a point lies on the boundary of the chain iff it lies on a segment of the ring -/
theorem RingSpec.onBoundary_iff {r : Ring} {pts : List Pt} (h : RingSpec r pts) (x : Pt) :
    Spec.onBoundary (Spec.edges pts true) x = true ↔
      ∃ i, i < r.numSegments ∧ OnSeg (r.segmentAt i).a (r.segmentAt i).b x := by
  rw [Geo.onBoundary_iff]
  constructor
  · rintro ⟨e, he, hon⟩
    obtain ⟨i, hi, rfl⟩ := h.of_mem he
    exact ⟨i, hi, hon⟩
  · rintro ⟨i, hi, hon⟩
    exact ⟨_, h.edge_mem hi, hon⟩

/-- the loop "some segment of `O` intersects the ring `R`" -/
theorem anySegment_iff {R : Ring} {A : List Pt} (hR : RingSpec R A) (n : Nat) (segAt : Nat → Seg) :
    (List.range n).any (fun i => ringIntersectsSegment R (segAt i) true) = true ↔
      ∃ i, i < n ∧ ∃ x, OnSeg (segAt i).a (segAt i).b x ∧ Spec.inRing (Spec.edges A true) x = true := by
  rw [List.any_eq_true]
  constructor
  · rintro ⟨i, hi, h⟩
    exact ⟨i, List.mem_range.1 hi, (ringIntersectsSegment_exact_of_spec hR _).1 h⟩
  · rintro ⟨i, hi, h⟩
    exact ⟨i, List.mem_range.2 hi, (ringIntersectsSegment_exact_of_spec hR _).2 h⟩

/-! ### ring × line string -/

/-- every point of every segment lies in the rectangle of `processPoints` -/
theorem onSeg_in_rect' (l : Line) (hrect : l.rect = (processPoints l.pts l.closed).rect)
    (i : Nat) (hi : i < l.numSegments) (p : Pt)
    (hp : OnSeg (l.segmentAt i).a (l.segmentAt i).b p) : l.rect.containsPt p = true :=
  onSeg_in_rect { l with index := none } ⟨rfl, hrect⟩ i hi p hp

theorem ringIntersectsLine_exact_of_spec {r : Ring} {A : List Pt} (hr : RingSpec r A) (l : Line)
    (hrect : l.rect = (processPoints l.pts l.closed).rect) :
    ringIntersectsLine r l true = true ↔
      ∃ i, i < l.numSegments ∧ ∃ x, OnSeg (l.segmentAt i).a (l.segmentAt i).b x ∧
        Spec.inRing (Spec.edges A true) x = true := by
  unfold ringIntersectsLine
  by_cases h1 : (r.empty || l.empty) = true
  · rw [if_pos h1]
    refine iff_of_false (by simp) ?_
    rintro ⟨i, hi, x, -, hx⟩
    rw [Bool.or_eq_true] at h1
    rcases h1 with h | h
    · rw [hr.inRing_empty h] at hx; cases hx
    · rw [(numSegments_eq_zero_iff l).2 h] at hi; omega
  rw [if_neg h1]
  by_cases h2 : (!r.rect.intersects l.rect) = true
  · rw [if_pos h2]
    refine iff_of_false (by simp) ?_
    rintro ⟨i, hi, x, hon, hx⟩
    have := intersects_of_common _ _ x (hr.inRect x hx) (onSeg_in_rect' l hrect i hi x hon)
    simp [this] at h2
  rw [if_neg h2]
  have hle : l.empty = false := by
    cases h : l.empty with
    | false => rfl
    | true => simp [h] at h1
  by_cases h3 : (List.range l.numPoints).any (fun i => (ringContainsPoint r l.pts[i]! true).hit) = true
  · rw [if_pos h3]
    refine iff_of_true rfl ?_
    rw [List.any_eq_true] at h3
    obtain ⟨j, hj, hhit⟩ := h3
    rw [hr.mem] at hhit
    obtain ⟨i, hi, hon⟩ := vertex_on_segment l hle j (List.mem_range.1 hj)
    exact ⟨i, hi, _, hon, hhit⟩
  · rw [if_neg h3]
    exact anySegment_iff hr l.numSegments l.segmentAt

/-! ### ring × ring -/

/-- the segments of `O` against the region of `R`, when the rectangle of `O` is not the larger -/
theorem boundary_hits_iff {R O : Ring} {A B : List Pt} (hR : RingSpec R A) (hO : RingSpec O B)
    (hRne : R.empty = false) (harea : O.rect.area ≤ R.rect.area) :
    (∃ x, Spec.onBoundary (Spec.edges B true) x = true ∧ Spec.inRing (Spec.edges A true) x = true) ↔
      ∃ x, Spec.inRing (Spec.edges A true) x = true ∧ Spec.inRing (Spec.edges B true) x = true := by
  constructor
  · rintro ⟨x, h1, h2⟩
    exact ⟨x, h2, inRing_of_onBoundary h1⟩
  · rintro ⟨x, hxA, hxB⟩
    by_contra hno
    have H2 : ∀ u, Spec.onBoundary (Spec.edges B true) u = true →
        Spec.inRing (Spec.edges A true) u = false := by
      intro u hu
      cases h : Spec.inRing (Spec.edges A true) u with
      | false => rfl
      | true => exact absurd ⟨u, hu, h⟩ hno
    have hnomeet : ∀ e ∈ Spec.edges A true, ∀ f ∈ Spec.edges B true, ¬ SegsMeet e.1 e.2 f.1 f.2 := by
      rintro e he f hf ⟨z, hz1, hz2⟩
      have := H2 z (onBoundary_of_onSeg hf hz2)
      rw [inRing_of_onBoundary (onBoundary_of_onSeg he hz1)] at this
      cases this
    obtain ⟨⟨v0, hv0, -⟩, -⟩ := hR.tight hRne
    have hconst := inRing_const_on_boundary A B hnomeet
    cases hc : Spec.inRing (Spec.edges B true) v0 with
    | true =>
      have hin : ∀ u, Spec.onBoundary (Spec.edges A true) u = true →
          Spec.inRing (Spec.edges B true) u = true ∧ Spec.onBoundary (Spec.edges B true) u = false := by
        intro u hu
        refine ⟨by rw [hconst u v0 hu hv0, hc], ?_⟩
        cases hb : Spec.onBoundary (Spec.edges B true) u with
        | false => rfl
        | true =>
          have := H2 u hb
          rw [inRing_of_onBoundary hu] at this
          cases this
      have := strict_nesting_rect hR hO hRne hin
      exact absurd harea (not_le.2 this)
    | false =>
      have H1 : ∀ u, Spec.onBoundary (Spec.edges A true) u = true →
          Spec.inRing (Spec.edges B true) u = false := by
        intro u hu
        rw [hconst u v0 hu hv0, hc]
      exact regions_disjoint_of_boundaries_out _ _ H1 H2 x hxA hxB

theorem anySegment_ring_iff {R O : Ring} {A B : List Pt} (hR : RingSpec R A) (hO : RingSpec O B) :
    (List.range O.numSegments).any (fun i => ringIntersectsSegment R (O.segmentAt i) true) = true ↔
      ∃ x, Spec.onBoundary (Spec.edges B true) x = true ∧ Spec.inRing (Spec.edges A true) x = true := by
  rw [anySegment_iff hR]
  constructor
  · rintro ⟨i, hi, x, hon, hx⟩
    exact ⟨x, (hO.onBoundary_iff x).2 ⟨i, hi, hon⟩, hx⟩
  · rintro ⟨x, hb, hx⟩
    obtain ⟨i, hi, hon⟩ := (hO.onBoundary_iff x).1 hb
    exact ⟨i, hi, x, hon, hx⟩

/-- EXACTNESS of ring × ring: the two closed regions share a point -/
theorem ringIntersectsRing_exact_of_spec {r o : Ring} {A B : List Pt}
    (hr : RingSpec r A) (ho : RingSpec o B) :
    ringIntersectsRing r o true = true ↔
      ∃ x, Spec.inRing (Spec.edges A true) x = true ∧ Spec.inRing (Spec.edges B true) x = true := by
  unfold ringIntersectsRing
  by_cases h1 : (r.empty || o.empty) = true
  · rw [if_pos h1]
    refine iff_of_false (by simp) ?_
    rintro ⟨x, hxA, hxB⟩
    rw [Bool.or_eq_true] at h1
    rcases h1 with h | h
    · rw [hr.inRing_empty h] at hxA; cases hxA
    · rw [ho.inRing_empty h] at hxB; cases hxB
  rw [if_neg h1]
  have hre : r.empty = false := by
    cases h : r.empty with
    | false => rfl
    | true => simp [h] at h1
  have hoe : o.empty = false := by
    cases h : o.empty with
    | false => rfl
    | true => simp [h] at h1
  by_cases h2 : (!r.rect.intersects o.rect) = true
  · rw [if_pos h2]
    refine iff_of_false (by simp) ?_
    rintro ⟨x, hxA, hxB⟩
    have := intersects_of_common _ _ x (hr.inRect x hxA) (ho.inRect x hxB)
    simp [this] at h2
  rw [if_neg h2]
  by_cases hg : o.rect.area > r.rect.area
  · simp only [hg, if_true]
    rw [anySegment_ring_iff ho hr, boundary_hits_iff ho hr hoe (le_of_lt hg)]
    constructor <;> rintro ⟨x, h1, h2⟩ <;> exact ⟨x, h2, h1⟩
  · simp only [hg, if_false]
    rw [anySegment_ring_iff hr ho, boundary_hits_iff hr ho hre (not_lt.1 hg)]

end IX
end Geo
