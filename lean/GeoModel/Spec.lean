/-
  GeoModel.Spec — the specification side, executable: exact planar membership, exact
  "share a point", exact "every point of B is in A".  These are the judges of a property
  failure.  They are written independently of the model's algorithms (orientation tests,
  crossing parity, cut-and-sample), over `Rat`.
-/
import GeoModel.Geom
namespace Geo
namespace Spec

def cross (a b p : Pt) : Rat := (b.x - a.x) * (p.y - a.y) - (b.y - a.y) * (p.x - a.x)

/-- p lies on the closed segment ab -/
def onSeg (a b p : Pt) : Bool :=
  decide (cross a b p = 0) &&
  decide (min a.x b.x ≤ p.x) && decide (p.x ≤ max a.x b.x) &&
  decide (min a.y b.y ≤ p.y) && decide (p.y ≤ max a.y b.y)

/-- half-open crossing rule: the rightward ray from p crosses ab; an endpoint level with p
    counts as below it. -/
def crosses (a b p : Pt) : Bool :=
  (decide (a.y ≤ p.y) != decide (b.y ≤ p.y)) &&
  (if a.y < b.y then decide (0 < cross a b p) else decide (0 < cross b a p))

/-- the two closed segments share a point -/
def segsMeet (a b c d : Pt) : Bool :=
  let o1 := cross a b c
  let o2 := cross a b d
  let o3 := cross c d a
  let o4 := cross c d b
  (decide (o1 * o2 < 0) && decide (o3 * o4 < 0)) ||
  onSeg a b c || onSeg a b d || onSeg c d a || onSeg c d b

/-- edges of a point sequence under the NumSegments / SegmentAt rule -/
def edges (pts : List Pt) (closed : Bool) : List (Pt × Pt) :=
  let open_ := pts.zip pts.tail
  if closed then
    if pts.length < 3 then []
    else match pts.head?, pts.getLast? with
      | some f, some l => if l = f then open_ else open_ ++ [(l, f)]
      | _, _ => []
  else open_

def onBoundary (es : List (Pt × Pt)) (p : Pt) : Bool := es.any (fun e => onSeg e.1 e.2 p)
def parity (es : List (Pt × Pt)) (p : Pt) : Nat := (es.filter (fun e => crosses e.1 e.2 p)).length % 2
def inRing (es : List (Pt × Pt)) (p : Pt) : Bool := onBoundary es p || parity es p == 1
def strictIn (es : List (Pt × Pt)) (p : Pt) : Bool := !onBoundary es p && parity es p == 1

/-- spec-level shapes: plain point lists -/
inductive Shape where
  | point (p : Pt)
  | rect (lo hi : Pt)
  | line (pts : List Pt)
  | poly (ext : List Pt) (holes : List (List Pt))
deriving Repr, Inhabited

def rectPts (lo hi : Pt) : List Pt := [lo, ⟨hi.x, lo.y⟩, hi, ⟨lo.x, hi.y⟩, lo]

def Shape.member : Shape → Pt → Bool
  | .point a, p => decide (a = p)
  | .rect lo hi, p => decide (lo.x ≤ p.x) && decide (p.x ≤ hi.x) && decide (lo.y ≤ p.y) && decide (p.y ≤ hi.y)
  | .line pts, p => onBoundary (edges pts false) p
  | .poly ext holes, p => inRing (edges ext true) p && holes.all (fun h => !strictIn (edges h true) p)

/-- all boundary / curve edges of a shape -/
def Shape.edges : Shape → List (Pt × Pt)
  | .point a => [(a, a)]
  | .rect lo hi => Spec.edges (rectPts lo hi) true
  | .line pts => Spec.edges pts false
  | .poly ext holes => Spec.edges ext true ++ (holes.map (fun h => Spec.edges h true)).flatten

def Shape.vertices : Shape → List Pt
  | .point a => [a]
  | .rect lo hi => rectPts lo hi
  | .line pts => pts
  | .poly ext holes => ext ++ holes.flatten

def Shape.nonEmpty : Shape → Bool
  | .point _ => true
  | .rect _ _ => true
  | .line pts => pts.length ≥ 2
  | .poly ext _ => ext.length ≥ 3

/-! ### validity (the C02/C03 quantifier: simple rings, holes inside the exterior) -/

def area2 (pts : List Pt) : Rat :=
  (Spec.edges pts true).foldl (fun acc e => acc + (e.1.x * e.2.y - e.2.x * e.1.y)) 0

/-- a closed ring is simple: ≥3 edges, no zero-length edge, consecutive edges share only
    their common vertex, non-consecutive edges are disjoint, non-zero area. -/
def simpleRing (pts : List Pt) : Bool :=
  let es := (Spec.edges pts true).toArray
  let n := es.size
  n ≥ 3 && area2 pts ≠ 0 &&
  (List.range n).all (fun i =>
    let e := es[i]!
    e.1 ≠ e.2 &&
    (List.range n).all (fun j =>
      if j ≤ i then true
      else
        let f := es[j]!
        let adjacent := j == i + 1 || (i == 0 && j == n - 1)
        if adjacent then
          -- share exactly the common vertex: the far endpoints are not on the other edge
          if j == i + 1 then !(onSeg e.1 e.2 f.2) && !(onSeg f.1 f.2 e.1)
          else !(onSeg e.1 e.2 f.1) && !(onSeg f.1 f.2 e.2)
        else !(segsMeet e.1 e.2 f.1 f.2)))

/-- a line string is valid: ≥2 points and no zero-length segment (self-crossing is allowed). -/
def validLine (pts : List Pt) : Bool :=
  pts.length ≥ 2 && (Spec.edges pts false).all (fun e => e.1 ≠ e.2)

/-- hole `h` lies inside ring `ext`: every vertex in the closed region and no proper
    edge crossing (touching at single points is tolerated by the statement only for
    boundaries; we require the stricter "no shared point" to stay clear of debatable
    validity). -/
def holeInside (ext h : List Pt) : Bool :=
  h.all (fun p => strictIn (Spec.edges ext true) p) &&
  (Spec.edges h true).all (fun e => (Spec.edges ext true).all (fun f => !(segsMeet e.1 e.2 f.1 f.2)))

def holesDisjoint (a b : List Pt) : Bool :=
  (Spec.edges a true).all (fun e => (Spec.edges b true).all (fun f => !(segsMeet e.1 e.2 f.1 f.2))) &&
  a.all (fun p => !(inRing (Spec.edges b true) p)) && b.all (fun p => !(inRing (Spec.edges a true) p))

def Shape.valid : Shape → Bool
  | .point _ => true
  | .rect lo hi => decide (lo.x ≤ hi.x) && decide (lo.y ≤ hi.y)
  | .line pts => validLine pts
  | .poly ext holes =>
    simpleRing ext && holes.all simpleRing && holes.all (holeInside ext) &&
    (List.range holes.length).all (fun i => (List.range holes.length).all (fun j =>
      if j ≤ i then true else holesDisjoint (holes.getD i []) (holes.getD j [])))

/-! ### exact intersection -/

def meets (a b : Shape) : Bool :=
  a.nonEmpty && b.nonEmpty &&
  (a.vertices.any (fun p => b.member p) ||
   b.vertices.any (fun p => a.member p) ||
   a.edges.any (fun e => b.edges.any (fun f => segsMeet e.1 e.2 f.1 f.2)))

/-! ### exact containment: cut and sample -/

/-- parameter of point p along segment a→b (a ≠ b, p on the line) -/
def paramOn (a b p : Pt) : Rat :=
  if a.x ≠ b.x then (p.x - a.x) / (b.x - a.x) else (p.y - a.y) / (b.y - a.y)

/-- parameters along a→b where the segment meets segment c–d (isolated crossing, or the
    endpoints of a collinear overlap) -/
def cutParams (a b c d : Pt) : List Rat :=
  let r : Pt := ⟨b.x - a.x, b.y - a.y⟩
  let s : Pt := ⟨d.x - c.x, d.y - c.y⟩
  let rxs := r.x * s.y - r.y * s.x
  let ends := (if onSeg a b c then [paramOn a b c] else []) ++ (if onSeg a b d then [paramOn a b d] else [])
  if rxs = 0 then ends
  else
    let t := ((c.x - a.x) * s.y - (c.y - a.y) * s.x) / rxs
    let u := ((c.x - a.x) * r.y - (c.y - a.y) * r.x) / rxs
    if 0 ≤ t && t ≤ 1 && 0 ≤ u && u ≤ 1 then t :: ends else ends

def insertSorted (x : Rat) : List Rat → List Rat
  | [] => [x]
  | y :: ys => if x < y then x :: y :: ys else if x = y then y :: ys else y :: insertSorted x ys

def pointAt (a b : Pt) (t : Rat) : Pt := ⟨a.x + t * (b.x - a.x), a.y + t * (b.y - a.y)⟩

/-- the closed segment ab lies in `A` (A's curve/boundary edges given separately) -/
def segInside (member : Pt → Bool) (aedges : List (Pt × Pt)) (a b : Pt) : Bool :=
  if a = b then member a
  else
    let ts := aedges.foldl (fun acc f => (cutParams a b f.1 f.2).foldl (fun acc t => insertSorted t acc) acc) [0, 1]
    let mids := (ts.zip ts.tail).map (fun (p : Rat × Rat) => (p.1 + p.2) / 2)
    (ts ++ mids).all (fun t => member (pointAt a b t))

/-- a point strictly inside a simple ring -/
def interiorPoint (pts : List Pt) : Option Pt :=
  let ys := pts.foldl (fun acc p => insertSorted p.y acc) []
  match ys with
  | y0 :: y1 :: _ =>
    let y := (y0 + y1) / 2
    let xs := (Spec.edges pts true).foldl (fun acc e =>
      let a := e.1; let b := e.2
      if (a.y < y && y < b.y) || (b.y < y && y < a.y) then
        insertSorted (a.x + (y - a.y) * (b.x - a.x) / (b.y - a.y)) acc
      else acc) []
    match xs with
    | x0 :: x1 :: _ => some ⟨(x0 + x1) / 2, y⟩
    | _ => none
  | _ => none

def isRegion : Shape → Bool
  | .rect lo hi => decide (lo.x < hi.x) && decide (lo.y < hi.y)
  | .poly _ _ => true
  | _ => false

def Shape.holes : Shape → List (List Pt)
  | .poly _ hs => hs
  | _ => []

/-- every point of `b` belongs to `a`, and `b` is non-empty.  Exact for valid shapes. -/
def covers (a b : Shape) : Bool :=
  a.nonEmpty && b.nonEmpty &&
  (match a, b with
   | _, .point p => a.member p
   | .point q, _ => b.vertices.all (fun p => p = q)
   | _, _ =>
     -- a is a line or a region; b is a line, rect or polygon
     if isRegion b && !isRegion a then false    -- a region never fits in a curve
     else
       b.edges.all (fun e => segInside a.member a.edges e.1 e.2) &&
       (if isRegion b then
          a.holes.all (fun h => match interiorPoint h with
            | some x => !(b.member x)
            | none => true)
        else true))

end Spec
end Geo
