/-
  GeoProofs.Reencode.SimpleIff — the executable `simpleEdges` is the cyclic form `SimpleE`.
-/
import GeoProofs.Reencode.Simple

namespace Geo
namespace RE
open Spec

/-- the pairwise clause of `simpleRing` for `i < j` -/
def pairB (n : Nat) (e f : Edge) (i j : Nat) : Bool :=
  if j ≤ i then true
  else
    if (j == i + 1 || (i == 0 && j == n - 1)) = true then
      if (j == i + 1) = true then !(onSeg e.1 e.2 f.2) && !(onSeg f.1 f.2 e.1)
      else !(onSeg e.1 e.2 f.1) && !(onSeg f.1 f.2 e.2)
    else !(segsMeet e.1 e.2 f.1 f.2)

theorem simpleEdges_unfold (es : List Edge) :
    simpleEdges es = true ↔ 3 ≤ es.length ∧ areaSum es ≠ 0 ∧
      ∀ i, i < es.length → (es[i]!).1 ≠ (es[i]!).2 ∧
        ∀ j, j < es.length → pairB es.length es[i]! es[j]! i j = true := by
  unfold simpleEdges pairB
  simp only [Bool.and_eq_true, decide_eq_true_eq, List.all_eq_true, List.mem_range,
    List.size_toArray, ge_iff_le, List.getElem!_toArray, and_assoc]

theorem pairB_succ {n : Nat} {e f : Edge} {i : Nat} :
    pairB n e f i (i + 1) = true ↔ Adj e f := by
  unfold pairB Adj
  simp

theorem pairB_wrap {n : Nat} {e f : Edge} (h3 : 3 ≤ n) :
    pairB n e f 0 (n - 1) = true ↔ Adj f e := by
  unfold pairB Adj
  have e1 : (n - 1 == 0 + 1) = false := by simp; omega
  have e2 : ¬ (n - 1 ≤ 0) := by omega
  simp only [e1, e2, if_false, beq_self_eq_true, Bool.true_and, Bool.false_or, if_true,
    Bool.and_eq_true, Bool.not_eq_true', Bool.false_eq_true]
  exact and_comm

theorem pairB_far {n : Nat} {e f : Edge} {i j : Nat} (hij : i < j) (h1 : j ≠ i + 1)
    (h2 : ¬ (i = 0 ∧ j = n - 1)) : pairB n e f i j = true ↔ Far e f := by
  unfold pairB Far
  have e1 : (j == i + 1) = false := by simp; exact h1
  have e2 : (i == 0 && j == n - 1) = false := by
    rw [Bool.and_eq_false_iff]; simp only [beq_eq_false_iff_ne]
    by_cases hx : i = 0
    · right; exact fun hy => h2 ⟨hx, hy⟩
    · left; exact hx
  simp only [show ¬ (j ≤ i) from by omega, if_false, e1, e2, Bool.or_self, Bool.false_eq_true,
    Bool.not_eq_true']

theorem simpleEdges_iff (es : List Edge) :
    simpleEdges es = true ↔ areaSum es ≠ 0 ∧ SimpleE (fun i => es[i]!) es.length := by
  rw [simpleEdges_unfold]
  constructor
  · rintro ⟨h3, ha, hall⟩
    refine ⟨ha, h3, fun i hi => (hall i hi).1, fun i hi => ?_, ?_⟩
    · rcases succ_mod_cases i _ hi with ⟨e1, g1⟩ | ⟨e1, g1⟩ <;> simp only [e1]
      · exact pairB_succ.1 ((hall i hi).2 (i + 1) g1)
      · have := (hall 0 (by omega)).2 (es.length - 1) (by omega)
        rw [pairB_wrap h3] at this
        rw [show i = es.length - 1 from by omega]; exact this
    · have main : ∀ i j, i < j → j < es.length → (i + 1) % es.length ≠ j →
          (j + 1) % es.length ≠ i → Far es[i]! es[j]! := by
        intro i j hij hj b c
        have hi : i < es.length := by omega
        refine (pairB_far hij ?_ ?_).1 ((hall i hi).2 j hj)
        · intro hc; apply b; rw [hc] at hj; rw [Nat.mod_eq_of_lt hj, hc]
        · rintro ⟨h0, hn⟩; apply c
          rw [hn, show es.length - 1 + 1 = es.length from by omega, Nat.mod_self, h0]
      intro i j hi hj a b c
      rcases Nat.lt_or_gt_of_ne a with hij | hij
      · exact main i j hij hj b c
      · exact (main j i hij hi c b).symm
  · rintro ⟨ha, hs⟩
    have h3 := hs.three
    refine ⟨h3, ha, fun i hi => ⟨hs.nz i hi, fun j hj => ?_⟩⟩
    by_cases hij : j ≤ i
    · unfold pairB; rw [if_pos hij]
    · by_cases h1 : j = i + 1
      · subst h1
        have := hs.adj i hi
        rw [Nat.mod_eq_of_lt hj] at this
        exact pairB_succ.2 this
      · by_cases h2 : i = 0 ∧ j = es.length - 1
        · obtain ⟨rfl, rfl⟩ := h2
          have := hs.adj (es.length - 1) (by omega)
          rw [show es.length - 1 + 1 = es.length from by omega, Nat.mod_self] at this
          exact (pairB_wrap h3).2 this
        · refine (pairB_far (by omega) h1 h2).2 (hs.far i j hi hj (by omega) ?_ ?_)
          · rw [Nat.mod_eq_of_lt (by omega)]; omega
          · rcases succ_mod_cases j _ hj with ⟨e1, _⟩ | ⟨e1, g1⟩ <;> rw [e1]
            · omega
            · intro hc; exact h2 ⟨hc.symm, by omega⟩

/-! ### invariance -/

theorem getElem!_rotate (v : List Edge) (k j : Nat) (hj : j < v.length) :
    (v.rotate k)[j]! = v[(j + k) % v.length]! := by
  have h1 : j < (v.rotate k).length := by simpa using hj
  have h2 : (j + k) % v.length < v.length := Nat.mod_lt _ (by omega)
  rw [getElem!_pos (v.rotate k) j h1, getElem!_pos v _ h2, List.getElem_rotate]

theorem getElem!_flip (v : List Edge) (j : Nat) (hj : j < v.length) :
    ((v.map Prod.swap).reverse)[j]! = (v[v.length - 1 - j]!).swap := by
  have h1 : j < ((v.map Prod.swap).reverse).length := by simpa using hj
  have h2 : v.length - 1 - j < v.length := by omega
  rw [getElem!_pos _ j h1, getElem!_pos v _ h2, List.getElem_reverse]
  simp

theorem simpleEdges_rot1 (es : List Edge) (h : simpleEdges es = true) :
    simpleEdges (es.rotate 1) = true := by
  rw [simpleEdges_iff] at h ⊢
  refine ⟨by rw [areaSum_rotate]; exact h.1, ?_⟩
  rw [List.length_rotate]
  exact h.2.shift.congr (fun i hi => getElem!_rotate es 1 i hi)

theorem simpleEdges_rot (es : List Edge) (k : Nat) (h : simpleEdges es = true) :
    simpleEdges (es.rotate k) = true := by
  induction k with
  | zero => simpa using h
  | succ k ih => rw [← List.rotate_rotate]; exact simpleEdges_rot1 _ ih

theorem simpleEdges_rotate (es : List Edge) (k : Nat) :
    simpleEdges (es.rotate k) = simpleEdges es := by
  rw [Bool.eq_iff_iff]
  refine ⟨fun h => ?_, simpleEdges_rot es k⟩
  by_cases hnil : es = []
  · subst hnil; simpa using h
  have hpos : 0 < es.length := List.length_pos_iff.2 hnil
  have := simpleEdges_rot _ (es.length - k % es.length) h
  rw [List.rotate_rotate, ← List.rotate_mod] at this
  have e : (k + (es.length - k % es.length)) % es.length = 0 := by
    rcases Nat.eq_zero_or_pos es.length with h0 | h0
    · omega
    · have hk := Nat.mod_lt k h0
      have : k + (es.length - k % es.length) = es.length * (k / es.length + 1) := by
        have := Nat.div_add_mod k es.length
        rw [Nat.mul_add, Nat.mul_one]; omega
      rw [this, Nat.mul_mod_right]
  rw [e, List.rotate_zero] at this
  exact this

theorem simpleEdges_flip1 (es : List Edge) (h : simpleEdges es = true) :
    simpleEdges (es.map Prod.swap).reverse = true := by
  rw [simpleEdges_iff] at h ⊢
  refine ⟨by rw [areaSum_flip]; exact neg_ne_zero.2 h.1, ?_⟩
  rw [List.length_reverse, List.length_map]
  exact h.2.flip.congr (fun i hi => getElem!_flip es i hi)

theorem flip_flip (es : List Edge) : ((es.map Prod.swap).reverse.map Prod.swap).reverse = es := by
  rw [List.map_reverse, List.reverse_reverse, List.map_map]
  have : (Prod.swap ∘ Prod.swap : Edge → Edge) = id := by funext e; simp
  rw [this, List.map_id]

theorem simpleEdges_flip (es : List Edge) :
    simpleEdges (es.map Prod.swap).reverse = simpleEdges es := by
  rw [Bool.eq_iff_iff]
  refine ⟨fun h => ?_, simpleEdges_flip1 es⟩
  have := simpleEdges_flip1 _ h
  rwa [flip_flip] at this

theorem ECyc.simple_eq {es es' : List Edge} (h : ECyc es es') :
    simpleEdges es' = simpleEdges es := by
  induction h with
  | refl es => rfl
  | rot es k => exact simpleEdges_rotate es k
  | flip es => exact simpleEdges_flip es
  | symm _ ih => exact ih.symm
  | trans _ _ ih1 ih2 => exact ih2.trans ih1

end RE
end Geo
