package main

import (
	"bytes"
	"encoding/hex"
	"encoding/json"
	"fmt"
	"math"
	"reflect"
	"strconv"
	"strings"

	"github.com/tidwall/geojson"
	"github.com/tidwall/geojson/geometry"
)

// implementation-side property oracles for the JSON layer, built on encoding/json only.

var otext = map[string]string{}

// ordered decoding of one JSON object: keys in order (decoded), raw values
type kv struct {
	key string
	raw json.RawMessage
}

func orderedMembers(text []byte) ([]kv, error) {
	dec := json.NewDecoder(bytes.NewReader(text))
	tok, err := dec.Token()
	if err != nil {
		return nil, err
	}
	if d, ok := tok.(json.Delim); !ok || d != '{' {
		return nil, fmt.Errorf("not an object")
	}
	var out []kv
	for dec.More() {
		kt, err := dec.Token()
		if err != nil {
			return nil, err
		}
		var raw json.RawMessage
		if err := dec.Decode(&raw); err != nil {
			return nil, err
		}
		out = append(out, kv{kt.(string), raw})
	}
	return out, nil
}

func lastOf(ms []kv, key string) (json.RawMessage, bool) {
	var r json.RawMessage
	found := false
	for _, m := range ms {
		if m.key == key {
			r, found = m.raw, true
		}
	}
	return r, found
}

func isReserved(k string) bool {
	switch k {
	case "type", "coordinates", "geometry", "geometries", "features":
		return true
	}
	return false
}

func compact(raw []byte) string {
	var b bytes.Buffer
	if err := json.Compact(&b, raw); err != nil {
		return "!" + string(raw)
	}
	return b.String()
}

// numbers of a position as float64 (null -> NaN); any JSON container (array, or object values)
func posNums(raw json.RawMessage) ([]float64, bool) {
	var arr []json.RawMessage
	if err := json.Unmarshal(raw, &arr); err != nil {
		return nil, false
	}
	var out []float64
	for _, e := range arr {
		s := strings.TrimSpace(string(e))
		if s == "null" {
			out = append(out, math.NaN())
			continue
		}
		f, err := strconv.ParseFloat(s, 64)
		if err != nil && !strings.Contains(err.Error(), "range") {
			return nil, false
		}
		out = append(out, f)
	}
	return out, true
}

func sameF(a, b float64) bool {
	if math.IsNaN(a) || math.IsInf(a, 0) {
		return math.IsNaN(b) // non-finite is written as null
	}
	return math.Float64bits(a) == math.Float64bits(b) || (a == 0 && b == 0)
}

// compare positions of one geometry part: dims fixed by the first input position
func samePositions(in, out []json.RawMessage, dims *int) string {
	if len(in) != len(out) {
		return fmt.Sprintf("position count %d vs %d", len(in), len(out))
	}
	for i := range in {
		a, ok1 := posNums(in[i])
		b, ok2 := posNums(out[i])
		if !ok1 || !ok2 || len(a) < 2 || len(b) < 2 {
			return "unreadable position"
		}
		if len(a) > 4 {
			a = a[:4]
		}
		if *dims < 0 {
			*dims = len(a) - 2
		}
		if !sameF(a[0], b[0]) || !sameF(a[1], b[1]) {
			return fmt.Sprintf("x/y changed at position %d: %v vs %v", i, a, b)
		}
		if len(b) != 2+*dims {
			return fmt.Sprintf("dimensionality %d vs declared %d", len(b)-2, *dims)
		}
		for k := 0; k < *dims; k++ {
			want := 0.0
			if 2+k < len(a) {
				want = a[2+k]
			}
			if !sameF(want, b[2+k]) {
				return fmt.Sprintf("z/m changed at position %d", i)
			}
		}
	}
	return ""
}

func arrOf(raw json.RawMessage) ([]json.RawMessage, bool) {
	var arr []json.RawMessage
	if err := json.Unmarshal(raw, &arr); err != nil {
		return nil, false
	}
	return arr, true
}

func sameCoords(typ string, in, out json.RawMessage) string {
	switch typ {
	case "Point":
		d := -1
		return samePositions([]json.RawMessage{in}, []json.RawMessage{out}, &d)
	case "LineString":
		a, ok1 := arrOf(in)
		b, ok2 := arrOf(out)
		if !ok1 || !ok2 {
			return "coordinates not arrays"
		}
		d := -1
		return samePositions(a, b, &d)
	case "Polygon":
		a, ok1 := arrOf(in)
		b, ok2 := arrOf(out)
		if !ok1 || !ok2 || len(a) != len(b) {
			return "ring count"
		}
		d := -1
		for i := range a {
			ra, _ := arrOf(a[i])
			rb, _ := arrOf(b[i])
			if m := samePositions(ra, rb, &d); m != "" {
				return m
			}
		}
		return ""
	case "MultiPoint", "MultiLineString", "MultiPolygon":
		a, ok1 := arrOf(in)
		b, ok2 := arrOf(out)
		if !ok1 || !ok2 || len(a) != len(b) {
			return "child count"
		}
		child := map[string]string{"MultiPoint": "Point", "MultiLineString": "LineString", "MultiPolygon": "Polygon"}[typ]
		for i := range a {
			if m := sameCoords(child, a[i], b[i]); m != "" {
				return fmt.Sprintf("child %d: %s", i, m)
			}
		}
		return ""
	}
	return "unknown type " + typ
}

// sameInfo: does `out` (the written JSON) carry the same information as `in` (the accepted
// input)? Returns "" or a description. isCircle: the object was recognised as a Circle.
func sameInfo(in, out []byte, isCircle bool) string {
	mi, err1 := orderedMembers(in)
	mo, err2 := orderedMembers(out)
	if err1 != nil || err2 != nil {
		return "undecodable"
	}
	ti, _ := lastOf(mi, "type")
	to, _ := lastOf(mo, "type")
	var typI, typO string
	json.Unmarshal(ti, &typI)
	json.Unmarshal(to, &typO)
	if typI != typO {
		return "type changed: " + typI + " -> " + typO
	}
	if isCircle {
		// centre and radius in metres; units normalised
		gi, _ := lastOf(mi, "geometry")
		gO, _ := lastOf(mo, "geometry")
		gim, _ := orderedMembers(gi)
		gom, _ := orderedMembers(gO)
		ci, _ := lastOf(gim, "coordinates")
		co, _ := lastOf(gom, "coordinates")
		a, _ := posNums(ci)
		b, _ := posNums(co)
		if len(a) < 2 || len(b) != 2 || !sameF(a[0], b[0]) || !sameF(a[1], b[1]) {
			return "circle centre changed"
		}
		var po struct {
			Type   string   `json:"type"`
			Radius *float64 `json:"radius"`
			Units  string   `json:"radius_units"`
		}
		pr, _ := lastOf(mo, "properties")
		if err := json.Unmarshal(pr, &po); err != nil || po.Type != "Circle" || po.Units != "m" {
			return "circle properties malformed"
		}
		return ""
	}
	// foreign members: same keys, same order, same values
	var fi, fo []kv
	for _, m := range mi {
		if !isReserved(m.key) {
			fi = append(fi, m)
		}
	}
	for _, m := range mo {
		if !isReserved(m.key) {
			fo = append(fo, m)
		}
	}
	if typI == "Feature" {
		// a Feature always has a properties member: it may have been added
		hasP := false
		for _, m := range fi {
			if m.key == "properties" {
				hasP = true
			}
		}
		if !hasP {
			if len(fo) == 0 || fo[len(fo)-1].key != "properties" || compact(fo[len(fo)-1].raw) != "{}" {
				return "Feature without properties member"
			}
			fo = fo[:len(fo)-1]
		}
	}
	if len(fi) != len(fo) {
		return fmt.Sprintf("foreign member count %d -> %d", len(fi), len(fo))
	}
	for i := range fi {
		if fi[i].key != fo[i].key || compact(fi[i].raw) != compact(fo[i].raw) {
			return "foreign member " + fi[i].key + " changed"
		}
	}
	switch typI {
	case "Feature":
		gi, _ := lastOf(mi, "geometry")
		gO, ok := lastOf(mo, "geometry")
		if !ok {
			return "geometry lost"
		}
		return sameInfo(gi, gO, false)
	case "GeometryCollection", "FeatureCollection":
		key := "geometries"
		if typI == "FeatureCollection" {
			key = "features"
		}
		ci, _ := lastOf(mi, key)
		co, _ := lastOf(mo, key)
		a, ok1 := arrOf(ci)
		b, ok2 := arrOf(co)
		if !ok1 || !ok2 || len(a) != len(b) {
			return "child count changed"
		}
		for i := range a {
			// a child may itself be a recognised circle
			if m := sameInfo(a[i], b[i], looksCircleOut(b[i]) && !looksCircleOut(a[i]) || (looksCircleOut(b[i]) && isCircleIn(a[i]))); m != "" {
				return fmt.Sprintf("child %d: %s", i, m)
			}
		}
		return ""
	default:
		ci, _ := lastOf(mi, "coordinates")
		co, ok := lastOf(mo, "coordinates")
		if !ok {
			return "coordinates lost"
		}
		return sameCoords(typI, ci, co)
	}
}

func looksCircleOut(raw []byte) bool {
	return bytes.Contains(raw, []byte(`"properties":{"type":"Circle","radius":`)) && bytes.HasSuffix(bytes.TrimSpace(raw), []byte(`"radius_units":"m"}}`))
}

func isCircleIn(raw []byte) bool {
	ms, err := orderedMembers(raw)
	if err != nil {
		return false
	}
	var props struct {
		Type string `json:"type"`
	}
	for _, m := range ms {
		if m.key == "properties" {
			json.Unmarshal(m.raw, &props)
			break
		}
	}
	return props.Type == "Circle"
}

func observe(o geojson.Object) string {
	probes := []geojson.Object{
		geojson.NewPoint(geometry.Point{X: 1, Y: 2}),
		geojson.NewRect(geometry.Rect{Min: geometry.Point{X: -10, Y: -10}, Max: geometry.Point{X: 10, Y: 10}}),
		geojson.NewLineString(geometry.NewLine([]geometry.Point{{X: -5, Y: -5}, {X: 5, Y: 5}, {X: 5, Y: -5}}, nil)),
	}
	var sb strings.Builder
	fmt.Fprintf(&sb, "%v %v %v %d", o.Rect(), o.Empty(), o.Valid(), o.NumPoints())
	for _, p := range probes {
		fmt.Fprintf(&sb, " %v%v%v%v", o.Contains(p), o.Within(p), o.Intersects(p), p.Intersects(o))
	}
	return sb.String()
}

// xroundtrip ID OPTS: the C06 clauses, judged on the implementation with encoding/json
func xroundtrip(toks []string) string {
	o, ok := oenv[toks[1]]
	if !ok {
		return "ok" // the document was rejected: nothing to round-trip
	}
	opts, ok := parseOpts(toks[2])
	if !ok {
		return "bad-op"
	}
	in := otext[toks[1]]
	j1 := o.JSON()
	if !json.Valid([]byte(j1)) {
		return "FAIL output is not valid JSON"
	}
	finite := !strings.Contains(j1, "null") || !hasNonFinite(o)
	o2, err := geojson.Parse(j1, opts)
	if err != nil {
		if !finite {
			return "ok"
		}
		return "FAIL output rejected on re-parse: " + err.Error()
	}
	if kindName(o2) != kindName(o) {
		return "FAIL kind changed " + kindName(o) + " -> " + kindName(o2)
	}
	if j2 := o2.JSON(); j2 != j1 {
		return "FAIL not a fixpoint"
	}
	_, isCircle := o.(*geojson.Circle)
	if m := sameInfo([]byte(in), []byte(j1), isCircle); m != "" {
		return "FAIL information lost: " + m
	}
	if finite {
		if a, b := observe(o), observe(o2); a != b {
			return "FAIL geometry answers differ after round trip"
		}
	}
	return "ok"
}

func hasNonFinite(o geojson.Object) bool {
	r := o.Rect()
	for _, v := range []float64{r.Min.X, r.Min.Y, r.Max.X, r.Max.Y} {
		if math.IsNaN(v) || math.IsInf(v, 0) {
			return true
		}
	}
	return strings.Contains(o.JSON(), "null")
}

// --- C17: structural checks on written JSON -------------------------------------------

func depthOK(v interface{}, d int) bool {
	arr, ok := v.([]interface{})
	if !ok {
		return false
	}
	if d == 1 {
		if len(arr) < 2 {
			return false
		}
		for _, e := range arr {
			switch e.(type) {
			case float64, nil:
			default:
				return false
			}
		}
		return true
	}
	for _, e := range arr {
		if !depthOK(e, d-1) {
			return false
		}
	}
	return true
}

func wantType(kind string) (string, int) {
	switch kind {
	case "Point", "SimplePoint":
		return "Point", 1
	case "LineString":
		return "LineString", 2
	case "Polygon", "Rect":
		return "Polygon", 3
	case "MultiPoint":
		return "MultiPoint", 2
	case "MultiLineString":
		return "MultiLineString", 3
	case "MultiPolygon":
		return "MultiPolygon", 4
	case "Circle", "Feature":
		return "Feature", 0
	}
	return kind, 0
}

func structureOK(o geojson.Object, text string) (valid, typ, depth bool) {
	valid = json.Valid([]byte(text))
	if !valid {
		return
	}
	var m map[string]interface{}
	dec := json.NewDecoder(strings.NewReader(text))
	if err := dec.Decode(&m); err != nil {
		return
	}
	wt, wd := wantType(kindName(o))
	t, _ := m["type"].(string)
	typ = t == wt
	depth = true
	if wd > 0 {
		depth = depthOK(m["coordinates"], wd)
	}
	// children of collections / feature geometry
	switch v := o.(type) {
	case *geojson.Feature:
		g, _ := json.Marshal(m["geometry"])
		_, ct, cd := structureOK(v.Base(), string(g))
		_, hasP := m["properties"]
		typ = typ && ct && hasP
		depth = depth && cd
	case *geojson.GeometryCollection, *geojson.FeatureCollection:
		key := "geometries"
		if _, ok := o.(*geojson.FeatureCollection); ok {
			key = "features"
		}
		arr, ok := m[key].([]interface{})
		ch := o.(geojson.Collection).Children()
		if !ok || len(arr) != len(ch) {
			depth = false
			return
		}
		for i := range ch {
			g, _ := json.Marshal(arr[i])
			_, ct, cd := structureOK(ch[i], string(g))
			typ = typ && ct
			depth = depth && cd
		}
	}
	return
}

func xobjOp(toks []string) (string, bool) {
	switch toks[0] {
	case "xroundtrip":
		return xroundtrip(toks), true
	case "onewf":
		return onewf(toks), true
	case "xalgebra":
		return xalgebra(toks), true
	}
	return "", false
}

// float tokens: <bits hex>:<canon hex>
func ftok(t string) (float64, bool) {
	p := strings.Split(t, ":")
	if len(p) != 2 {
		return 0, false
	}
	b, err := hex.DecodeString(p[0])
	if err != nil || len(b) != 8 {
		return 0, false
	}
	var u uint64
	for _, x := range b {
		u = u<<8 | uint64(x)
	}
	return math.Float64frombits(u), true
}

func fpts(toks []string) ([]geometry.Point, bool) {
	if len(toks)%2 != 0 {
		return nil, false
	}
	var pts []geometry.Point
	for i := 0; i < len(toks); i += 2 {
		x, ok1 := ftok(toks[i])
		y, ok2 := ftok(toks[i+1])
		if !ok1 || !ok2 {
			return nil, false
		}
		pts = append(pts, geometry.Point{X: x, Y: y})
	}
	return pts, true
}

// onewf ID ctor args : constructors with arbitrary float64 values
func onewf(toks []string) string {
	if len(toks) < 3 {
		return "bad-op"
	}
	id, ctor, args := toks[1], toks[2], toks[3:]
	var o geojson.Object
	switch ctor {
	case "point", "spoint":
		pts, ok := fpts(args)
		if !ok || len(pts) != 1 {
			return "bad-op"
		}
		if ctor == "point" {
			o = geojson.NewPoint(pts[0])
		} else {
			o = geojson.NewSimplePoint(pts[0])
		}
	case "pointz":
		pts, ok := fpts(args[:2])
		z, ok2 := ftok(args[2])
		if !ok || !ok2 {
			return "bad-op"
		}
		o = geojson.NewPointZ(pts[0], z)
	case "rect":
		pts, ok := fpts(args)
		if !ok || len(pts) != 2 {
			return "bad-op"
		}
		o = geojson.NewRect(geometry.Rect{Min: pts[0], Max: pts[1]})
	case "circle":
		pts, ok := fpts(args[:2])
		m, ok2 := ftok(args[2])
		steps, err := strconv.Atoi(args[3])
		if !ok || !ok2 || err != nil {
			return "bad-op"
		}
		o = geojson.NewCircle(pts[0], m, steps)
	case "line":
		pts, ok := fpts(args)
		if !ok {
			return "bad-op"
		}
		o = geojson.NewLineString(geometry.NewLine(pts, nil))
	case "polygon":
		// nrings (n pts...)...
		nr, err := strconv.Atoi(args[0])
		if err != nil {
			return "bad-op"
		}
		rest := args[1:]
		var rings [][]geometry.Point
		for i := 0; i < nr; i++ {
			n, err := strconv.Atoi(rest[0])
			if err != nil || len(rest) < 1+2*n {
				return "bad-op"
			}
			pts, ok := fpts(rest[1 : 1+2*n])
			if !ok {
				return "bad-op"
			}
			rings = append(rings, pts)
			rest = rest[1+2*n:]
		}
		if nr == 0 {
			o = geojson.NewPolygon(nil)
		} else {
			o = geojson.NewPolygon(geometry.NewPoly(rings[0], rings[1:], nil))
		}
	case "mp":
		pts, ok := fpts(args)
		if !ok {
			return "bad-op"
		}
		o = geojson.NewMultiPoint(pts)
	default:
		return "bad-op"
	}
	oenv[id] = o
	return "ok " + kindName(o) + " " + hx(firstJSON(o))
}

// xalgebra A B: the C09 laws that can be judged on the implementation alone (all 12 kinds,
// circles included): within = contains swapped, and rectangle consequences.
func xalgebra(toks []string) string {
	a, ok := oenv[toks[1]]
	b, ok2 := oenv[toks[2]]
	if !ok || !ok2 {
		return "ok"
	}
	if a.Within(b) != b.Contains(a) {
		return "FAIL within != contains swapped"
	}
	if b.Within(a) != a.Contains(b) {
		return "FAIL within != contains swapped (other order)"
	}
	if a.Intersects(b) != b.Intersects(a) {
		return "FAIL intersects not symmetric"
	}
	if a.Contains(b) && !b.Empty() {
		if !a.Intersects(b) {
			return "FAIL contains without intersects " + algebraSig(a, b)
		}
		if !a.Rect().ContainsRect(b.Rect()) {
			return "FAIL contains but rectangle does not cover " + algebraSig(a, b)
		}
	}
	if a.Intersects(b) && !a.Rect().IntersectsRect(b.Rect()) {
		return "FAIL intersects but rectangles are disjoint"
	}
	if toks[1] == toks[2] && !a.Empty() && a.Valid() {
		if !a.Intersects(a) {
			return "FAIL self-intersects"
		}
		if !a.Contains(a) {
			// signature for the known-finding match: which leaf kinds occur, is a collection wrapped in a feature
			kinds := map[string]bool{}
			var walk func(o geojson.Object, inFeature bool)
			walk = func(o geojson.Object, inFeature bool) {
				switch v := o.(type) {
				case *geojson.Feature:
					walk(v.Base(), true)
				case geojson.Collection:
					if inFeature {
						kinds["FeatureOfCollection"] = true
					}
					for _, c := range v.Children() {
						walk(c, false)
					}
				default:
					kinds[kindName(o)] = true
				}
			}
			walk(a, false)
			var ks []string
			for _, k := range []string{"LineString", "FeatureOfCollection", "Polygon", "Point", "SimplePoint", "Rect"} {
				if kinds[k] {
					ks = append(ks, k)
				}
			}
			return "FAIL self-contains [" + strings.Join(ks, ",") + "]"
		}
	}
	return "ok"
}

// signature for the known-finding match: leaf kinds of receiver and argument, "big" when the
// argument has a leaf with at least 16 points (the rectangle shortcut of ringContainsRing)
func algebraSig(a, b geojson.Object) string {
	big := false
	kindsOf := func(o geojson.Object, markBig bool) string {
		kinds := map[string]bool{}
		var walk func(o geojson.Object)
		walk = func(o geojson.Object) {
			switch v := o.(type) {
			case *geojson.Feature:
				walk(v.Base())
			case geojson.Collection:
				for _, c := range v.Children() {
					walk(c)
				}
			default:
				kinds[kindName(o)] = true
				if markBig && o.NumPoints() >= 16 {
					big = true
				}
			}
		}
		walk(o)
		var ks []string
		for _, k := range []string{"LineString", "Polygon", "Point", "SimplePoint", "Rect", "Circle"} {
			if kinds[k] {
				ks = append(ks, k)
			}
		}
		return strings.Join(ks, ",")
	}
	s := "[A:" + kindsOf(a, false) + " B:" + kindsOf(b, true)
	if big {
		s += " big"
	}
	return s + "]"
}

var _ = reflect.DeepEqual
