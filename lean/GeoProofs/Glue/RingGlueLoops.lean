/-
  GeoProofs.Glue.RingGlueLoops — the ring / line loops: ringContainsRing (with its recursion),
  ringIntersectsRing, ringContainsLine, ringIntersectsLine.
-/
import GeoProofs.Glue.RingGlueCSeg
set_option linter.unusedSimpArgs false

namespace Geo.RGlue
open Geo

section loops
variable (f : Ring → Ring → Bool → Bool)

theorem toNat_ofNat' (j : Nat) : (Int.ofNat j).toNat = j := rfl

/-- the loop over the points of `o` -/
theorem loop_points {r : Ring} (hr : Exact r) (o : Ring) (b : Bool) :
    RGen.forRange (σ := Unit) (ρ := Bool) (fun (i : Int) (_ : Unit) =>
      if (!(RGen.ringContainsPoint (mopsR f) r ((mopsR f).ringPointAt o i) b).hit) = true
      then RGen.Flow.ret false else RGen.Flow.next ()) (RGen.intRange 0 ((mopsR f).ringNumPoints o)) () =
    if (List.range o.numPoints).all (fun i => (Geo.ringContainsPoint r (o.pointAt i) b).hit) = true
    then RGen.Exit.done () else RGen.Exit.ret false := by
  have h := forRange_all (fun i : Int => (Geo.ringContainsPoint r (o.pointAt i.toNat) b).hit)
    (RGen.intRange 0 ((mopsR f).ringNumPoints o))
  have e : (mopsR f).ringNumPoints o = (o.numPoints : Int) := rfl
  rw [e, intRange_zero, List.all_map] at h
  rw [e, intRange_zero]
  have e2 : ∀ i : Int, (RGen.ringContainsPoint (mopsR f) r ((mopsR f).ringPointAt o i) b).hit =
      (Geo.ringContainsPoint r (o.pointAt i.toNat) b).hit := fun i => ringContainsPoint_hit f hr _ b
  simp only [e2]
  exact h

/-- the loop over the segments of `o` (ringContainsSegment) -/
theorem loop_csegs {r : Ring} (hr : Exact r) (o : Ring) (b : Bool) :
    RGen.forRange (σ := Unit) (ρ := Bool) (fun (i : Int) (_ : Unit) =>
      if (!RGen.ringContainsSegment (mopsR f) r ((mopsR f).ringSegmentAt o i) b) = true
      then RGen.Flow.ret false else RGen.Flow.next ()) (RGen.intRange 0 ((mopsR f).ringNumSegments o)) () =
    if (List.range o.numSegments).all (fun i => Geo.ringContainsSegment r (o.segmentAt i) b) = true
    then RGen.Exit.done () else RGen.Exit.ret false := by
  have h := forRange_all (fun i : Int => Geo.ringContainsSegment r (o.segmentAt i.toNat) b)
    (RGen.intRange 0 ((mopsR f).ringNumSegments o))
  have e : (mopsR f).ringNumSegments o = (o.numSegments : Int) := rfl
  rw [e, intRange_zero, List.all_map] at h
  rw [e, intRange_zero]
  have e2 : ∀ i : Int, RGen.ringContainsSegment (mopsR f) r ((mopsR f).ringSegmentAt o i) b =
      Geo.ringContainsSegment r (o.segmentAt i.toNat) b := fun i => ringContainsSegment_gen f hr _ b
  simp only [e2]
  exact h

/-- the loop over the segments of `o` (ringIntersectsSegment) -/
theorem loop_isegs {r : Ring} (hr : Exact r) (o : Ring) (b : Bool) :
    RGen.forRange (σ := Unit) (ρ := Bool) (fun (i : Int) (_ : Unit) =>
      if RGen.ringIntersectsSegment (mopsR f) r ((mopsR f).ringSegmentAt o i) b = true
      then RGen.Flow.ret true else RGen.Flow.next ()) (RGen.intRange 0 ((mopsR f).ringNumSegments o)) () =
    if (List.range o.numSegments).any (fun i => Geo.ringIntersectsSegment r (o.segmentAt i) b) = true
    then RGen.Exit.ret true else RGen.Exit.done () := by
  have h := forRange_any (fun i : Int => Geo.ringIntersectsSegment r (o.segmentAt i.toNat) b)
    (RGen.intRange 0 ((mopsR f).ringNumSegments o))
  have e : (mopsR f).ringNumSegments o = (o.numSegments : Int) := rfl
  rw [e, intRange_zero, List.any_map] at h
  rw [e, intRange_zero]
  have e2 : ∀ i : Int, RGen.ringIntersectsSegment (mopsR f) r ((mopsR f).ringSegmentAt o i) b =
      Geo.ringIntersectsSegment r (o.segmentAt i.toNat) b := fun i => ringIntersectsSegment_gen f hr _ b
  simp only [e2]
  exact h

theorem empty_m (r : Ring) : (mopsR f).ringEmpty r = r.empty := rfl
theorem convex_m (r : Ring) : (mopsR f).ringConvex r = r.convex := rfl
theorem containsRect_m (r o : Ring) :
    (mopsR f).rectContainsRect ((mopsR f).ringRect r) ((mopsR f).ringRect o) = r.rect.containsBox o.rect := rfl
theorem intersectsRect_m (r o : Ring) :
    (mopsR f).rectIntersectsRect ((mopsR f).ringRect r) ((mopsR f).ringRect o) = r.rect.intersects o.rect := rfl
theorem rec_m (r o : Ring) (b : Bool) :
    (mopsR f).rec_ringContainsRing r ((mopsR f).ringOfRect ((mopsR f).ringRect o)) b = f r (.bx o.rect) b := rfl
theorem minPts_m (o : Ring) :
    decide ((mopsR f).ringNumPoints o ≥ RGen.complexRingMinPoints) = decide (o.numPoints ≥ Geo.complexRingMinPoints) := by
  show decide ((o.numPoints : Int) ≥ 16) = decide (o.numPoints ≥ 16)
  exact decide_eq_decide.mpr (by omega)

/-- the body of the generated ringContainsRing, with the recursive call left as `f` -/
theorem ringContainsRing_gen {r : Ring} (hr : Exact r) (o : Ring) (b : Bool) :
    RGen.ringContainsRing (mopsR f) r o b =
      (if r.empty || o.empty then false
       else if decide (o.numPoints ≥ Geo.complexRingMinPoints) && f r (.bx o.rect) b then true
       else ringContainsRingBody r o b) := by
  unfold RGen.ringContainsRing ringContainsRingBody
  simp only [loop_points f hr, loop_csegs f hr, empty_m, convex_m, containsRect_m, rec_m, minPts_m]
  split_ifs <;> simp_all <;> omega

/-- on a rectangle the model's ringContainsRing is its body (a Rect is never empty and has 5 points) -/
theorem model_bx (r : Ring) (bb : Box) (b : Bool) (he : r.empty = false) :
    Geo.ringContainsRing r (.bx bb) b = ringContainsRingBody r (.bx bb) b := by
  unfold Geo.ringContainsRing
  have h1 : (Ring.bx bb).empty = false := rfl
  have h2 : (Ring.bx bb).numPoints = 5 := rfl
  simp [he, h1, h2, Geo.complexRingMinPoints]

/-- the loop over the points of `o` (any) -/
theorem loop_ipoints {r : Ring} (hr : Exact r) (o : Ring) (b : Bool) :
    RGen.forRange (σ := Unit) (ρ := Bool) (fun (i : Int) (_ : Unit) =>
      if (RGen.ringContainsPoint (mopsR f) r ((mopsR f).ringPointAt o i) b).hit = true
      then RGen.Flow.ret true else RGen.Flow.next ()) (RGen.intRange 0 ((mopsR f).ringNumPoints o)) () =
    if (List.range o.numPoints).any (fun i => (Geo.ringContainsPoint r (o.pointAt i) b).hit) = true
    then RGen.Exit.ret true else RGen.Exit.done () := by
  have h := forRange_any (fun i : Int => (Geo.ringContainsPoint r (o.pointAt i.toNat) b).hit)
    (RGen.intRange 0 ((mopsR f).ringNumPoints o))
  have e : (mopsR f).ringNumPoints o = (o.numPoints : Int) := rfl
  rw [e, intRange_zero, List.any_map] at h
  rw [e, intRange_zero]
  have e2 : ∀ i : Int, (RGen.ringContainsPoint (mopsR f) r ((mopsR f).ringPointAt o i) b).hit =
      (Geo.ringContainsPoint r (o.pointAt i.toNat) b).hit := fun i => ringContainsPoint_hit f hr _ b
  simp only [e2]
  exact h

theorem area_m (r o : Ring) :
    (mopsR f).f64Gt ((mopsR f).rectArea ((mopsR f).ringRect o)) ((mopsR f).rectArea ((mopsR f).ringRect r)) =
      decide (o.rect.area > r.rect.area) := rfl

/-- **ringIntersectsRing** -/
theorem ringIntersectsRing_gen {r o : Ring} (hr : Exact r) (ho : Exact o) (b : Bool) :
    RGen.ringIntersectsRing (mopsR f) r o b = Geo.ringIntersectsRing r o b := by
  unfold RGen.ringIntersectsRing Geo.ringIntersectsRing
  simp only [empty_m, intersectsRect_m, area_m]
  by_cases ha : o.rect.area > r.rect.area
  · simp only [ha, decide_true, ↓reduceIte, loop_isegs f ho]
    split_ifs <;> simp_all
  · simp only [ha, decide_false, Bool.false_eq_true, ↓reduceIte, loop_isegs f hr]
    split_ifs <;> simp_all

/-- **ringContainsLine** is ringContainsRing on the line's series -/
theorem ringContainsLine_gen (r : Ring) (l : Line) (b : Bool) :
    RGen.ringContainsLine (mopsR f) r l b = RGen.ringContainsRing (mopsR f) r (.ser l) b := rfl

/-- **ringIntersectsLine** -/
theorem ringIntersectsLine_gen {r : Ring} (hr : Exact r) (l : Line) (b : Bool) :
    RGen.ringIntersectsLine (mopsR f) r l b = Geo.ringIntersectsLine r l b := by
  unfold RGen.ringIntersectsLine Geo.ringIntersectsLine
  have e1 : (mopsR f).lineEmpty l = l.empty := rfl
  have e2 : (mopsR f).rectIntersectsRect ((mopsR f).ringRect r) ((mopsR f).lineRect l) = r.rect.intersects l.rect := rfl
  have e3 : (mopsR f).lineNumPoints l = (mopsR f).ringNumPoints (.ser l) := rfl
  have e4 : (mopsR f).lineNumSegments l = (mopsR f).ringNumSegments (.ser l) := rfl
  have e5 : ∀ i, (mopsR f).linePointAt l i = (mopsR f).ringPointAt (.ser l) i := fun _ => rfl
  have e6 : ∀ i, (mopsR f).lineSegmentAt l i = (mopsR f).ringSegmentAt (.ser l) i := fun _ => rfl
  simp only [empty_m, e1, e2, e3, e4, e5, e6, loop_ipoints f hr, loop_isegs f hr]
  have p1 : (Ring.ser l).numPoints = l.numPoints := rfl
  have p2 : ∀ i, (Ring.ser l).pointAt i = l.pts[i]! := fun _ => rfl
  have p3 : (Ring.ser l).numSegments = l.numSegments := rfl
  have p4 : ∀ i, (Ring.ser l).segmentAt i = l.segmentAt i := fun _ => rfl
  simp only [p1, p2, p3, p4]
  split_ifs <;> simp_all

end loops
end Geo.RGlue
