/-
  GeoProofs.Float.Validate — EXECUTABLE validation of the definitions (no theorems here).

  1. `rn`, `nextUp` against the hardware: Lean's `Float` operations are the C double operations;
     `toQ` decodes the bit pattern of the result exactly.  Random p/q, 1/q, p·q·2^-k, p + q·2^-k
     with 41-bit p, q (so that rounding really happens) and `Geo.floatNextUp`; subnormal cases.
  2. the hand transcription `raycastF`/`segIntersectsF` (over `rn`) against the kernels
     GENERATED from the Go source (`Geo.KGen.*`) run on hardware floats, on lattices in E
     (tiny lattices to hit the degenerate branches, the full range, and the corners of E).
  `#guard` fails the build on any disagreement.
-/
import GeoProofs.Float.KernelF
import GeoModel.Generated.KernelGen
open Geo Geo.F

def toQ (f : Float) : Option ℚ :=
  let b := f.toBits.toNat
  let s : ℚ := if b / 2 ^ 63 = 1 then -1 else 1
  let e : ℕ := (b / 2 ^ 52) % 2048
  let fr : ℕ := b % 2 ^ 52
  if e = 2047 then none
  else if e = 0 then some (s * (fr : ℚ) * (2 : ℚ) ^ (-1074 : ℤ))
  else some (s * ((2 ^ 52 + fr : ℕ) : ℚ) * (2 : ℚ) ^ ((e : ℤ) - 1075))

/-- LCG -/
def nxt (s : Nat) : Nat := (s * 6364136223846793005 + 1442695040888963407) % 2 ^ 64
def rint (s : Nat) (bits : Nat) : Int := ((s / 2 ^ 20) % 2 ^ (bits + 1) : Nat) - (2 ^ bits : Nat)

/-- count failures of: hardware p/q = rn(p/q), p*q, p+q·2^-k, nextUp -/
def testOps (n : Nat) : Nat × Nat × Nat × Nat × Nat := Id.run do
  let mut s := 12345
  let mut fd := 0; let mut fm := 0; let mut fa := 0; let mut fn := 0; let mut fr := 0
  for _ in [0:n] do
    s := nxt s; let p := rint s 40
    s := nxt s; let q := rint s 40
    s := nxt s; let k := (s / 2 ^ 30) % 80
    let x := Float.ofInt p; let y := Float.ofInt q
    let ys := y / Float.ofNat (2 ^ k)      -- exact scaling
    let yq : ℚ := (q : ℚ) / 2 ^ k
    if q ≠ 0 then
      if toQ (x / y) != some (rn ((p : ℚ) / q)) then fd := fd + 1
      if toQ (1.0 / y) != some (rn (1 / (q : ℚ))) then fr := fr + 1
    if toQ (x * ys) != some (rn ((p : ℚ) * yq)) then fm := fm + 1
    if toQ (x + ys) != some (rn ((p : ℚ) + yq)) then fa := fa + 1
    if toQ (Geo.floatNextUp ys) != some (nextUp yq) then fn := fn + 1
  return (fd, fr, fm, fa, fn)

#guard testOps 20000 == (0, 0, 0, 0, 0)
#guard toQ (Geo.floatNextUp 0.0) == some (nextUp 0)
#guard toQ (Geo.floatNextUp (-1.0)) == some (nextUp (-1))
#guard toQ (Geo.floatNextUp (-2.2250738585072014e-308)) == some (nextUp (-(2:ℚ)^(-1022:ℤ)))
#guard toQ (5e-324 / 3.0) == some (rn ((2:ℚ)^(-1074:ℤ) / 3))
#guard toQ (5e-324 / 2.0) == some (rn ((2:ℚ)^(-1074:ℤ) / 2))
#guard toQ (1.5e-323 / 2.0) == some (rn (3*(2:ℚ)^(-1074:ℤ) / 2))
#guard toQ (2.2250738585072014e-308 / 3.0) == some (rn ((2:ℚ)^(-1022:ℤ) / 3))

/-! ### the hand transcription against the kernels generated from the Go source, run on Float -/
def kpt (kx ky : Int) : KPoint Float := ⟨Float.ofInt kx / 16.0, Float.ofInt ky / 16.0⟩
def qpt (kx ky : Int) : Pt := ⟨(kx : ℚ) / 16, (ky : ℚ) / 16⟩

/-- lattice of `bits`-bit numerators, optionally shifted to the top of E -/
def testKernels (n bits : Nat) (off : Int) : Nat × Nat := Id.run do
  let mut s := 777 + bits
  let mut fr := 0; let mut fs := 0
  for _ in [0:n] do
    let mut ks : Array Int := #[]
    for _ in [0:8] do
      s := nxt s; ks := ks.push (rint s bits + off)
    let a := kpt ks[0]! ks[1]!; let b := kpt ks[2]! ks[3]!
    let c := kpt ks[4]! ks[5]!; let d := kpt ks[6]! ks[7]!
    let a' := qpt ks[0]! ks[1]!; let b' := qpt ks[2]! ks[3]!
    let c' := qpt ks[4]! ks[5]!; let d' := qpt ks[6]! ks[7]!
    let r := KGen.segmentRaycast ⟨a, b⟩ c
    let r' := raycastF a' b' c'
    if r.inn != r'.inn || r.on != r'.on then fr := fr + 1
    if KGen.segmentIntersectsSegment ⟨a, b⟩ ⟨c, d⟩ != (segIntersectsF ⟨a', b'⟩ ⟨c', d'⟩).val then
      fs := fs + 1
  return (fr, fs)

#guard testKernels 20000 1 0 == (0, 0)
#guard testKernels 20000 2 0 == (0, 0)
#guard testKernels 5000 4 0 == (0, 0)
#guard testKernels 5000 23 0 == (0, 0)
#guard testKernels 5000 3 (2 ^ 24 - 8) == (0, 0)
#guard testKernels 5000 3 (-(2 ^ 24) + 8) == (0, 0)
