/-
  GeoProofs.ContainsConvex.Inner — (⇐): a point on the closed inner side of every edge line of a
  simple convex ring belongs to the closed region.  Route: from the point `x` (off the boundary)
  walk through the midpoint of an edge whose line misses `x` to the mirror image `q` of `x`; the
  walk crosses that edge properly and meets no other edge, `q` is outside, so `x` has odd parity.
-/
import GeoProofs.ContainsConvex.Closed

namespace Geo
namespace CC
open Cvx Jordan

section
variable {L : List Pt} {P : Nat → Pt} {n : Nat} {σ : Rat} (R : CvxRing L P n σ)
include R

/-- the walk from `x` to its mirror image in the midpoint of edge `k` meets no other edge -/
theorem CvxRing.walk_avoids (x : Pt) (hin : InAll L σ x)
    (hb : Spec.onBoundary (Spec.edges L true) x = false) (k : Nat) (hk : k < n)
    (hc0 : 0 < σ * Spec.cross (P k) (P (k+1)) x) (q : Pt)
    (hqx : q.x = (P k).x + (P (k+1)).x - x.x) (hqy : q.y = (P k).y + (P (k+1)).y - x.y)
    (j : Nat) (hj : j < n) (hjk : j ≠ k) :
    ¬ SegsMeet (P j) (P (j+1)) x q := by
  have affq : ∀ c d : Pt, Spec.cross c d q =
      Spec.cross c d (P k) + Spec.cross c d (P (k+1)) - Spec.cross c d x := by
    intro c d; simp only [K.cross_def, hqx, hqy]; ring
  have hqk : Spec.cross (P k) (P (k+1)) q = - Spec.cross (P k) (P (k+1)) x := by
    simp only [K.cross_def, hqx, hqy]; ring
  have hσ := R.sig_ne
  rintro ⟨z, hz1, hz2⟩
  obtain ⟨t, t0, t1, hzx, hzy⟩ := (K.onSeg_iff_param x q z).1 hz2
  have hA : 0 ≤ σ * Spec.cross (P k) (P (k+1)) z :=
    scross_nonneg_onSeg σ hz1 (R.sup k j) (R.sup k (j+1))
  rw [cross_param _ _ x q z t hzx hzy, hqk] at hA
  have ht2 : t ≤ 1/2 := by
    by_contra h
    have := mul_pos (show 0 < 2 * t - 1 by linarith [not_le.1 h]) hc0
    linarith
  have hFx : 0 ≤ σ * Spec.cross (P j) (P (j+1)) x := hin (P j, P (j+1)) (R.edge_mem j)
  have hFa : 0 ≤ σ * Spec.cross (P j) (P (j+1)) (P k) := R.sup j k
  have hFb : 0 ≤ σ * Spec.cross (P j) (P (j+1)) (P (k+1)) := R.sup j (k+1)
  have hexp : 0 = (1 - 2 * t) * (σ * Spec.cross (P j) (P (j+1)) x) +
      t * (σ * Spec.cross (P j) (P (j+1)) (P k)) +
      t * (σ * Spec.cross (P j) (P (j+1)) (P (k+1))) := by
    have := cross_param (P j) (P (j+1)) x q z t hzx hzy
    rw [hz1.1, affq] at this
    linear_combination σ * this
  rcases eq_or_lt_of_le t0 with ht | ht
  · have hzx' : z = x := (K.pt_eq_iff z x).2 ⟨by rw [hzx, ← ht]; ring, by rw [hzy, ← ht]; ring⟩
    rw [hzx'] at hz1
    rw [R.onBoundary_of_onEdge j x hz1] at hb
    cases hb
  · have h1 : 0 ≤ (1 - 2 * t) * (σ * Spec.cross (P j) (P (j+1)) x) :=
      mul_nonneg (by linarith) hFx
    have h2 := mul_nonneg ht.le hFa
    have h3 := mul_nonneg ht.le hFb
    have ca : Spec.cross (P j) (P (j+1)) (P k) = 0 := by
      have : t * (σ * Spec.cross (P j) (P (j+1)) (P k)) = 0 := by linarith
      rcases mul_eq_zero.1 this with h | h
      · linarith
      · exact (mul_eq_zero.1 h).resolve_left hσ
    have cb : Spec.cross (P j) (P (j+1)) (P (k+1)) = 0 := by
      have : t * (σ * Spec.cross (P j) (P (j+1)) (P (k+1))) = 0 := by linarith
      rcases mul_eq_zero.1 this with h | h
      · linarith
      · exact (mul_eq_zero.1 h).resolve_left hσ
    rcases eq_or_lt_of_le ht2 with hh | hh
    · have hzk : OnSeg (P k) (P (k+1)) z :=
        K.onSeg_of_param (t := 1/2) (by norm_num) (by norm_num)
          (by rw [hzx, hh, hqx]; ring) (by rw [hzy, hh, hqy]; ring)
      obtain ⟨hz', -⟩ := simple0_meet R.simple hk hj (Ne.symm hjk) hzk hz1
      apply R.simple.ne k
      rcases hz' with h | h
      · have ex := congrArg Pt.x h
        have ey := congrArg Pt.y h
        rw [hzx, hh, hqx] at ex
        rw [hzy, hh, hqy] at ey
        exact (K.pt_eq_iff _ _).2 ⟨by linarith, by linarith⟩
      · have ex := congrArg Pt.x h
        have ey := congrArg Pt.y h
        rw [hzx, hh, hqx] at ex
        rw [hzy, hh, hqy] at ey
        exact (K.pt_eq_iff _ _).2 ⟨by linarith, by linarith⟩
    · have cx : Spec.cross (P j) (P (j+1)) x = 0 := by
        have : (1 - 2 * t) * (σ * Spec.cross (P j) (P (j+1)) x) = 0 := by linarith
        rcases mul_eq_zero.1 this with h | h
        · linarith
        · exact (mul_eq_zero.1 h).resolve_left hσ
      have := collinear3 (R.simple.ne j) ca cb cx
      rw [this, mul_zero] at hc0
      exact lt_irrefl _ hc0

/-- a point on the closed inner side of every edge line, off the boundary, has odd parity -/
theorem CvxRing.parity_one (x : Pt) (hin : InAll L σ x)
    (hb : Spec.onBoundary (Spec.edges L true) x = false) :
    Spec.parity (Spec.edges L true) x = 1 := by
  obtain ⟨k, hk, hne⟩ := R.exists_off_line x hb
  have hσ := R.sig_ne
  have hab := R.simple.ne k
  have hc0 : 0 < σ * Spec.cross (P k) (P (k+1)) x :=
    lt_of_le_of_ne (hin (P k, P (k+1)) (R.edge_mem k)) (Ne.symm (mul_ne_zero hσ hne))
  obtain ⟨q, hqx, hqy⟩ : ∃ q : Pt, q.x = (P k).x + (P (k+1)).x - x.x ∧
      q.y = (P k).y + (P (k+1)).y - x.y := ⟨⟨_, _⟩, rfl, rfl⟩
  have hqk : Spec.cross (P k) (P (k+1)) q = - Spec.cross (P k) (P (k+1)) x := by
    simp only [K.cross_def, hqx, hqy]; ring
  have hbq : Spec.onBoundary (Spec.edges L true) q = false := by
    by_contra hcon
    have hcon' : Spec.onBoundary (Spec.edges L true) q = true := by simpa using hcon
    have := R.boundary_inAll q hcon' (P k, P (k+1)) (R.edge_mem k)
    simp only [hqk] at this
    linarith
  have hpq : Spec.parity (Spec.edges L true) q = 0 :=
    parity_zero_out L _ _ hab σ R.sig (R.hall k) q (by rw [hqk]; linarith) hbq
  have hke : (Spec.edges L true)[k]? = some (P k, P (k+1)) := by
    rw [R.edges]
    simp [hk]
  have hx2 : Spec.cross x q (P k) = - Spec.cross (P k) (P (k+1)) x := by
    simp only [K.cross_def, hqx, hqy]; ring
  have hx3 : Spec.cross x q (P (k+1)) = Spec.cross (P k) (P (k+1)) x := by
    simp only [K.cross_def, hqx, hqy]; ring
  have hsq : 0 < Spec.cross (P k) (P (k+1)) x * Spec.cross (P k) (P (k+1)) x :=
    mul_self_pos.2 hne
  have := parity_flips_of_one_proper_crossing_idx L x q (P k, P (k+1)) k hke
    ⟨by simp only [hqk]; linarith, by simp only [hx2, hx3]; linarith⟩
    (fun j f hjk hf => by
      obtain ⟨hj, rfl⟩ := R.getElem? j f hf
      rw [segsMeet_eq_false_iff]
      exact R.walk_avoids x hin hb k hk hc0 q hqx hqy j hj hjk)
  rw [hpq] at this
  have hlt : Spec.parity (Spec.edges L true) x < 2 := by
    unfold Spec.parity; exact Nat.mod_lt _ (by norm_num)
  omega

/-- (⇐) -/
theorem CvxRing.inAll_inRing (x : Pt) (hin : InAll L σ x) :
    Spec.inRing (Spec.edges L true) x = true := by
  unfold Spec.inRing
  by_cases hb : Spec.onBoundary (Spec.edges L true) x = true
  · rw [hb]; rfl
  · have hb' : Spec.onBoundary (Spec.edges L true) x = false := by simpa using hb
    rw [R.parity_one x hin hb']
    simp

/-- the closed region is the intersection of the closed inner half-planes -/
theorem CvxRing.inRing_iff (x : Pt) :
    Spec.inRing (Spec.edges L true) x = true ↔ InAll L σ x :=
  ⟨R.inRing_inAll x, R.inAll_inRing x⟩

/-- CLOSED CONVEXITY -/
theorem CvxRing.closed_convex (p q x : Pt) (hp : Spec.inRing (Spec.edges L true) p = true)
    (hq : Spec.inRing (Spec.edges L true) q = true) (hx : OnSeg p q x) :
    Spec.inRing (Spec.edges L true) x = true := by
  rw [R.inRing_iff] at hp hq ⊢
  exact fun e he => scross_nonneg_onSeg σ hx (hp e he) (hq e he)

end

/-- **closed convexity of a simple ring with the convex flag** -/
theorem closed_convex_of_simple (L : List Pt) (hs : Spec.simpleRing L = true)
    (hc : (processPoints L.toArray true).convex = true) (p q x : Pt)
    (hp : Spec.inRing (Spec.edges L true) p = true)
    (hq : Spec.inRing (Spec.edges L true) q = true) (hx : OnSeg p q x) :
    Spec.inRing (Spec.edges L true) x = true := by
  obtain ⟨σ, R⟩ := cvxRing_of_simple L hs hc
  exact R.closed_convex p q x hp hq hx

end CC
end Geo
