/-
  GeoProofs.OptPred.Binary — `Obj.intersects`, `Obj.contains`, `Obj.within` of similar objects.
-/
import GeoProofs.OptPred.Unary

namespace Geo
open Obj

theorem intersectsParts_sim {cs cs' : List Obj}
    (key : ∀ {g g' : Obj}, Obj.Sim g g' → intersectsSome cs g = intersectsSome cs' g') :
    ∀ {gs gs' : List Obj}, Obj.SimL gs gs' → intersectsParts cs gs = intersectsParts cs' gs' := by
  intro gs
  induction gs with
  | nil => intro gs' h; cases h; simp only [Obj.intersectsParts]
  | cons g gs ih =>
    intro gs' h
    cases h with
    | cons _ g' _ gs'' hg hgs => simp only [Obj.intersectsParts, key hg, ih hgs]

theorem containsAll_sim {cs cs' : List Obj}
    (key : ∀ {g g' : Obj}, Obj.Sim g g' → g.HolesSafe → containsSome cs g = containsSome cs' g') :
    ∀ {gs gs' : List Obj}, Obj.SimL gs gs' → Obj.AllLeafL (fun _ => True) Poly.HolesSafe gs →
      containsAll cs gs = containsAll cs' gs' := by
  intro gs
  induction gs with
  | nil => intro gs' h _; cases h; simp only [Obj.containsAll]
  | cons g gs ih =>
    intro gs' h hs
    cases h with
    | cons _ g' _ gs'' hg hgs => simp only [Obj.containsAll, key hg hs.1, ih hgs hs.2]

mutual
/-- **`intersects` on all objects**: no side condition -/
theorem Obj.Sim.intersects : ∀ {a a' : Obj}, Obj.Sim a a' → ∀ {b b' : Obj}, Obj.Sim b b' →
    a.intersects b = a'.intersects b'
  | _, _, .point _ _, _, _, hb => by simp only [Obj.intersects]; exact hb.intersectsPoint _
  | _, _, .spoint _, _, _, hb => by simp only [Obj.intersects]; exact hb.intersectsPoint _
  | _, _, .lineString _ _ _ _ h, _, _, hb => by simp only [Obj.intersects]; exact hb.intersectsLine h
  | _, _, .polygon _ _ _ _ h, _, _, hb => by simp only [Obj.intersects]; exact hb.intersectsPoly h
  | _, _, .rectO r _ _, _, _, hb => by simp only [Obj.intersects]; exact hb.intersectsRect r
  | _, _, .coll _ _ _ _ _ _ h, _, _, hb => by
    simp only [Obj.intersects]
    exact intersectsParts_sim (fun hg => Obj.SimL.intersectsSome h hg) hb.leaves.nonEmpty
  | _, _, .feature _ _ _ h, _, _, hb => by simp only [Obj.intersects]; exact Obj.Sim.intersects h hb
  | _, _, .circle _ _, _, _, _ => by simp only [Obj.intersects]
theorem Obj.SimL.intersectsSome : ∀ {cs cs' : List Obj}, Obj.SimL cs cs' → ∀ {g g' : Obj}, Obj.Sim g g' →
    intersectsSome cs g = intersectsSome cs' g'
  | _, _, .nil, _, _, _ => by simp only [Obj.intersectsSome]
  | _, _, .cons _ _ _ _ h hs, _, _, hg => by
    simp only [Obj.intersectsSome, h.empty, h.rect, hg.rect, Obj.Sim.intersects h hg,
      Obj.SimL.intersectsSome hs hg]
end

mutual
/-- **`contains` on all objects**, under the side conditions of `Geom.Sim.contains` on every
    polygon leaf: exteriors of the receiver, holes of the argument -/
theorem Obj.Sim.contains : ∀ {a a' : Obj}, Obj.Sim a a' → a.ExtSafe →
    ∀ {b b' : Obj}, Obj.Sim b b' → b.HolesSafe → a.contains b = a'.contains b'
  | _, _, .point _ _, _, _, _, hb, _ => by simp only [Obj.contains]; exact hb.withinPoint _
  | _, _, .spoint _, _, _, _, hb, _ => by simp only [Obj.contains]; exact hb.withinPoint _
  | _, _, .lineString _ _ _ _ h, _, _, _, hb, _ => by simp only [Obj.contains]; exact hb.withinLine h
  | _, _, .polygon _ _ _ _ h, ha, _, _, hb, hbs => by
    simp only [Obj.contains]; exact hb.withinPoly hbs h ha
  | _, _, .rectO r _ _, _, _, _, hb, _ => by simp only [Obj.contains]; exact hb.withinRect r
  | _, _, .coll k cs cs' ex i i' h, ha, b, _, hb, hbs => by
    have he := (Obj.Sim.coll k cs cs' ex i i' h).empty
    have hparts := hb.leaves.nonEmpty
    simp only [Obj.contains, he, hparts.isEmpty]
    rw [containsAll_sim (fun hg hgs => Obj.SimL.containsSome h ha hg hgs) hparts
      (Obj.allLeafL_filter _ (Obj.allLeaf_leaves b hbs))]
  | _, _, .feature _ _ _ h, ha, _, _, hb, hbs => by
    simp only [Obj.contains]; exact Obj.Sim.contains h ha hb hbs
  | _, _, .circle _ _, _, _, _, _, _ => by simp only [Obj.contains]
theorem Obj.SimL.containsSome : ∀ {cs cs' : List Obj}, Obj.SimL cs cs' →
    Obj.AllLeafL (fun _ => True) Poly.ExtSafe cs →
    ∀ {g g' : Obj}, Obj.Sim g g' → g.HolesSafe → containsSome cs g = containsSome cs' g'
  | _, _, .nil, _, _, _, _, _ => by simp only [Obj.containsSome]
  | _, _, .cons _ _ _ _ h hs, ha, _, _, hg, hgs => by
    simp only [Obj.containsSome, h.empty, h.rect, hg.rect, Obj.Sim.contains h ha.1 hg hgs,
      Obj.SimL.containsSome hs ha.2 hg hgs]
end

theorem Obj.Sim.within {a a' b b' : Obj} (ha : Obj.Sim a a') (hb : Obj.Sim b b')
    (hsa : a.HolesSafe) (hsb : b.ExtSafe) : a.within b = a'.within b' :=
  hb.contains hsb ha hsa

end Geo
