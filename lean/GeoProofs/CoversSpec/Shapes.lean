/-
  GeoProofs.CoversSpec.Shapes — the shape-level parts of the adequacy theorem
  `Spec.covers a b = true ↔ CS.Covers a b` for valid shapes: non-emptiness, edge points are
  members, non-regions are the union of their edges, piecewise constancy of line / polygon
  membership, `segInside` on rectangles, the point cases, the curve case, and the unfolding of
  `covers` for regions.
-/
import GeoProofs.CoversSpec.Defs
import GeoProofs.Intersects.Holes
import GeoProofs.Contains.Covers
import GeoProofs.ContainsConvex.SegInside
namespace Geo
namespace CS
open Spec Jordan

theorem nonEmpty_of_valid (b : Shape) (hb : b.valid = true) : b.nonEmpty = true :=
  (IX.factsH_of_valid b hb).ne

theorem vertices_ne_nil (b : Shape) (h : b.nonEmpty = true) : ∃ v, v ∈ b.vertices := by
  cases b with
  | point p => exact ⟨p, by simp [Shape.vertices]⟩
  | rect lo hi => exact ⟨lo, by simp [Shape.vertices, rectPts]⟩
  | line pts =>
    simp only [Shape.nonEmpty, decide_eq_true_eq, ge_iff_le] at h
    match pts, h with
    | p :: _, _ => exact ⟨p, by simp [Shape.vertices]⟩
  | poly ext hs =>
    simp only [Shape.nonEmpty, decide_eq_true_eq, ge_iff_le] at h
    match ext, h with
    | p :: _, _ => exact ⟨p, by simp [Shape.vertices]⟩

theorem exists_member_of_valid (b : Shape) (hb : b.valid = true) : ∃ p, b.member p = true := by
  obtain ⟨v, hv⟩ := vertices_ne_nil b (nonEmpty_of_valid b hb)
  exact ⟨v, (IX.factsH_of_valid b hb).vmem v hv⟩

theorem covers_point_right (a : Shape) (ha : a.valid = true) (p : Pt) :
    covers a (.point p) = true ↔ Covers a (.point p) := by
  unfold covers Covers
  rw [nonEmpty_of_valid a ha]
  simp only [Shape.nonEmpty, Bool.and_self, Bool.true_and, Shape.member, decide_eq_true_eq]
  constructor
  · intro h
    exact ⟨⟨p, rfl⟩, fun q hq => hq ▸ h⟩
  · intro h
    exact h.2 p rfl


theorem rect_member_iff (lo hi x : Pt) : (Shape.rect lo hi).member x = true ↔
    lo.x ≤ x.x ∧ x.x ≤ hi.x ∧ lo.y ≤ x.y ∧ x.y ≤ hi.y := by
  simp only [Shape.member, Bool.and_eq_true, decide_eq_true_eq]
  tauto

theorem rect_convex (lo hi p q : Pt) (hp : (Shape.rect lo hi).member p = true)
    (hq : (Shape.rect lo hi).member q = true) : ∀ x, OnSeg p q x → (Shape.rect lo hi).member x = true := by
  intro x hx
  rw [rect_member_iff] at hp hq ⊢
  obtain ⟨-, h1, h2, h3, h4⟩ := hx
  exact ⟨le_trans (le_min hp.1 hq.1) h1, le_trans h2 (max_le hp.2.1 hq.2.1),
    le_trans (le_min hp.2.2.1 hq.2.2.1) h3, le_trans h4 (max_le hp.2.2.2 hq.2.2.2)⟩

theorem segInsideOK_of_convex (m : Pt → Bool) (es : List (Pt × Pt))
    (hconv : ∀ p q, m p = true → m q = true → ∀ x, OnSeg p q x → m x = true) : SegInsideOK m es := by
  intro p q
  rw [CC.segInside_of_convex _ _ p q (hconv p q), Bool.and_eq_true]
  constructor
  · rintro ⟨hp, hq⟩; exact hconv p q hp hq
  · intro h; exact ⟨h p (K.onSeg_left p q), h q (K.onSeg_right p q)⟩

theorem segInsideOK_rect (lo hi : Pt) :
    SegInsideOK (Shape.rect lo hi).member (Shape.rect lo hi).edges :=
  segInsideOK_of_convex _ _ (rect_convex lo hi)


theorem pieceConst_onBoundary (es : List (Pt × Pt)) : PieceConst (Spec.onBoundary es) es := by
  intro x y _ hd z w hz hw
  unfold Spec.onBoundary
  apply Contains.any_congr_mem
  intro e he
  rw [Bool.eq_iff_iff, spec_onSeg_iff, spec_onSeg_iff]
  rcases hd e he with h | h
  · exact iff_of_true (h z hz) (h w hw)
  · exact iff_of_false (h z hz) (h w hw)

theorem pieceConst_line (pts : List Pt) :
    PieceConst (Shape.line pts).member (Shape.line pts).edges :=
  pieceConst_onBoundary _

theorem edge_points_member (b : Shape) (hb : b.valid = true) :
    ∀ e ∈ b.edges, ∀ x, OnSeg e.1 e.2 x → b.member x = true :=
  (IX.factsH_of_valid b hb).emem

theorem member_on_edge (b : Shape) (hb : b.valid = true) (hr : isRegion b = false) :
    ∀ x, b.member x = true → ∃ e ∈ b.edges, OnSeg e.1 e.2 x := by
  intro x hx
  cases b with
  | point p =>
    simp only [Shape.member, decide_eq_true_eq] at hx
    subst hx
    exact ⟨(p, p), by simp [Shape.edges], K.onSeg_left _ _⟩
  | line pts => exact (Geo.onBoundary_iff _ _).1 hx
  | poly ext hs => simp [isRegion] at hr
  | rect lo hi =>
    rw [rect_member_iff] at hx
    simp only [Shape.valid, Bool.and_eq_true, decide_eq_true_eq] at hb
    simp only [isRegion, Bool.and_eq_false_iff, decide_eq_false_iff_not, not_lt] at hr
    obtain ⟨x1, x2, y1, y2⟩ := hx
    show ∃ e ∈ Spec.edges (rectPts lo hi) true, _
    rw [IX.rect_edges]
    rcases hr with h | h
    · have hx' : lo.x = hi.x := le_antisymm hb.1 h
      refine ⟨(⟨hi.x, lo.y⟩, hi), by simp, ?_⟩
      refine ⟨?_, ?_, ?_, ?_, ?_⟩
      · rw [K.cross_def]; simp only; have : x.x = hi.x := by linarith
        rw [this]; ring
      · simp only [min_self]; linarith
      · simp only [max_self]; linarith
      · simp only; rw [min_eq_left hb.2]; exact y1
      · simp only; rw [max_eq_right hb.2]; exact y2
    · have hy' : lo.y = hi.y := le_antisymm hb.2 h
      refine ⟨(lo, ⟨hi.x, lo.y⟩), by simp, ?_⟩
      refine ⟨?_, ?_, ?_, ?_, ?_⟩
      · rw [K.cross_def]; simp only; have : x.y = lo.y := by linarith
        rw [this]; ring
      · simp only; rw [min_eq_left hb.1]; exact x1
      · simp only; rw [max_eq_right hb.1]; exact x2
      · simp only [min_self]; linarith
      · simp only [max_self]; linarith


theorem covers_unfold (a b : Shape) (hpa : ∀ q, a ≠ .point q) (hpb : ∀ p, b ≠ .point p) :
    covers a b = (a.nonEmpty && b.nonEmpty &&
      (if isRegion b && !isRegion a then false
       else
         b.edges.all (fun e => segInside a.member a.edges e.1 e.2) &&
         (if isRegion b then
            a.holes.all (fun h => match interiorPoint h with
              | some x => !(b.member x)
              | none => true)
          else true))) := by
  cases a <;> cases b <;>
    first | exact absurd rfl (hpa _) | exact absurd rfl (hpb _) | rfl

theorem not_point_of_region (b : Shape) (h : isRegion b = true) : ∀ p, b ≠ .point p := by
  intro p hp; subst hp; simp [isRegion] at h

theorem covers_curve (a b : Shape) (ha : a.valid = true) (hb : b.valid = true)
    (hpa : ∀ q, a ≠ .point q) (hpb : ∀ p, b ≠ .point p) (hr : isRegion b = false)
    (hseg : SegInsideOK a.member a.edges) : covers a b = true ↔ Covers a b := by
  rw [covers_unfold a b hpa hpb, nonEmpty_of_valid a ha, nonEmpty_of_valid b hb, hr]
  simp only [Bool.false_and, Bool.false_eq_true, if_false, Bool.and_true, Bool.true_and,
    List.all_eq_true]
  unfold Covers
  constructor
  · intro h
    refine ⟨exists_member_of_valid b hb, ?_⟩
    intro p hp
    obtain ⟨e, he, hon⟩ := member_on_edge b hb hr p hp
    exact (hseg e.1 e.2).1 (h e he) p hon
  · rintro ⟨-, h⟩ e he
    rw [hseg e.1 e.2]
    intro x hx
    exact h x (edge_points_member b hb e he x hx)

theorem covers_region_unfold (a b : Shape) (hpa : ∀ q, a ≠ .point q) (ha : a.valid = true)
    (hb : b.valid = true) (hrb : isRegion b = true) (hra : isRegion a = true) :
    covers a b = true ↔ (b.edges.all (fun e => segInside a.member a.edges e.1 e.2) = true ∧
      a.holes.all (fun h => match interiorPoint h with
        | some x => !(b.member x) | none => true) = true) := by
  rw [covers_unfold a b hpa (not_point_of_region b hrb), nonEmpty_of_valid a ha,
    nonEmpty_of_valid b hb, hrb, hra]
  simp only [Bool.not_true, Bool.and_false, Bool.false_eq_true, if_false, if_true, Bool.true_and,
    Bool.and_eq_true]

theorem covers_region_in_curve_false (a b : Shape) (hpa : ∀ q, a ≠ .point q)
    (hrb : isRegion b = true) (hra : isRegion a = false) : covers a b = false := by
  rw [covers_unfold a b hpa (not_point_of_region b hrb), hrb, hra]
  simp


theorem two_vertices_line (pts : List Pt) (hv : validLine pts = true) :
    ∃ u v, u ∈ pts ∧ v ∈ pts ∧ u ≠ v := by
  unfold validLine at hv
  simp only [Bool.and_eq_true, decide_eq_true_eq, ge_iff_le, List.all_eq_true] at hv
  obtain ⟨hlen, hall⟩ := hv
  match pts, hlen with
  | p :: q :: rest, _ =>
    have he : (p, q) ∈ Spec.edges (p :: q :: rest) false := by simp [Spec.edges]
    have := hall (p, q) he
    exact ⟨p, q, by simp, by simp, by simpa using this⟩

theorem two_vertices_ring (L : List Pt) (hs : simpleRing L = true) :
    ∃ u v, u ∈ L ∧ v ∈ L ∧ u ≠ v := by
  obtain ⟨-, h3, hE, hS⟩ := Cvx.ring_data L hs
  have he : (Cvx.cyc L 1, Cvx.cyc L 2) ∈ Spec.edges L true := by
    rw [hE, List.mem_map]
    exact ⟨1, List.mem_range.2 (by omega), rfl⟩
  obtain ⟨h1, h2⟩ := IX.edges_ends L true _ he
  refine ⟨_, _, h1, h2, ?_⟩
  intro heq
  apply hS.adj1 0
  simp only [Nat.zero_add] at heq ⊢
  rw [← heq]
  exact K.onSeg_right _ _


/-- a valid shape with two distinct vertices is covered by no point -/
theorem covers_point_left_false (q : Pt) (b : Shape) (hb : b.valid = true)
    (hpb : ∀ p, b ≠ .point p)
    (h2 : ∃ u v, u ∈ b.vertices ∧ v ∈ b.vertices ∧ u ≠ v) :
    covers (.point q) b = true ↔ Covers (.point q) b := by
  obtain ⟨u, v, hu, hv, huv⟩ := h2
  have hL : covers (.point q) b = (true && b.nonEmpty && b.vertices.all (fun p => p = q)) := by
    cases b <;> first | exact absurd rfl (hpb _) | rfl
  constructor
  · intro h
    rw [hL] at h
    simp only [Bool.true_and, Bool.and_eq_true, List.all_eq_true, decide_eq_true_eq] at h
    exact absurd ((h.2 u hu).trans (h.2 v hv).symm) huv
  · rintro ⟨-, h⟩
    have hm := (IX.factsH_of_valid b hb).vmem
    have e1 := h u (hm u hu)
    have e2 := h v (hm v hv)
    simp only [Shape.member, decide_eq_true_eq] at e1 e2
    exact absurd (e1.symm.trans e2) huv

theorem covers_point_left (q : Pt) (b : Shape) (hb : b.valid = true) :
    covers (.point q) b = true ↔ Covers (.point q) b := by
  cases b with
  | point p => exact covers_point_right (.point q) rfl p
  | line pts =>
    obtain ⟨u, v, hu, hv, huv⟩ := two_vertices_line pts hb
    exact covers_point_left_false q _ hb (fun p hp => by cases hp) ⟨u, v, hu, hv, huv⟩
  | poly ext hs =>
    have hs' : simpleRing ext = true := by
      simp only [Shape.valid, Bool.and_eq_true] at hb
      exact hb.1.1.1
    obtain ⟨u, v, hu, hv, huv⟩ := two_vertices_ring ext hs'
    exact covers_point_left_false q _ hb (fun p hp => by cases hp)
      ⟨u, v, List.mem_append_left _ hu, List.mem_append_left _ hv, huv⟩
  | rect lo hi =>
    have hL : covers (.point q) (.rect lo hi) =
        (true && true && (rectPts lo hi).all (fun p => p = q)) := rfl
    rw [hL]
    simp only [Bool.true_and, List.all_eq_true, decide_eq_true_eq, rectPts, List.mem_cons,
      List.not_mem_nil, or_false]
    unfold Covers
    have hb' := hb
    simp only [Shape.valid, Bool.and_eq_true, decide_eq_true_eq] at hb'
    constructor
    · intro h
      have h1 : lo = q := h lo (Or.inl rfl)
      have h2 : hi = q := h hi (Or.inr (Or.inr (Or.inl rfl)))
      refine ⟨exists_member_of_valid _ hb, ?_⟩
      intro p hp
      rw [rect_member_iff] at hp
      subst h1
      simp only [Shape.member, decide_eq_true_eq]
      rw [K.pt_eq_iff]
      rw [K.pt_eq_iff] at h2
      constructor <;> linarith [hp.1, hp.2.1, hp.2.2.1, hp.2.2.2, h2.1, h2.2]
    · rintro ⟨-, h⟩
      have m1 : (Shape.rect lo hi).member lo = true := by
        rw [rect_member_iff]; exact ⟨le_refl _, hb'.1, le_refl _, hb'.2⟩
      have m2 : (Shape.rect lo hi).member hi = true := by
        rw [rect_member_iff]; exact ⟨hb'.1, le_refl _, hb'.2, le_refl _⟩
      have e1 := h lo m1
      have e2 := h hi m2
      simp only [Shape.member, decide_eq_true_eq] at e1 e2
      subst e1
      intro p hp
      rcases hp with rfl | rfl | rfl | rfl | rfl
      · rfl
      · rw [K.pt_eq_iff]; rw [K.pt_eq_iff] at e2; exact ⟨e2.1.symm, rfl⟩
      · exact e2.symm
      · rw [K.pt_eq_iff]; rw [K.pt_eq_iff] at e2; exact ⟨rfl, e2.2.symm⟩
      · rfl


theorem openOn_param {x y : Pt} (hxy : x ≠ y) (z : Pt) :
    OpenOn x y z ↔ ∃ t : Rat, 0 < t ∧ t < 1 ∧ z.x = x.x + t * (y.x - x.x) ∧
      z.y = x.y + t * (y.y - x.y) := by
  constructor
  · rintro ⟨hon, hzx, hzy⟩
    obtain ⟨t, t0, t1, hx, hy⟩ := (K.onSeg_iff_param x y z).1 hon
    refine ⟨t, lt_of_le_of_ne t0 ?_, lt_of_le_of_ne t1 ?_, hx, hy⟩
    · rintro rfl
      exact hzx ((K.pt_eq_iff _ _).2 ⟨by rw [hx]; ring, by rw [hy]; ring⟩)
    · rintro rfl
      exact hzy ((K.pt_eq_iff _ _).2 ⟨by rw [hx]; ring, by rw [hy]; ring⟩)
  · rintro ⟨t, t0, t1, hx, hy⟩
    refine ⟨K.onSeg_of_param t0.le t1.le hx hy, ?_, ?_⟩
    · intro h
      apply hxy
      rw [K.pt_eq_iff] at h ⊢
      have h1 : t * (y.x - x.x) = 0 := by linarith [h.1]
      have h2 : t * (y.y - x.y) = 0 := by linarith [h.2]
      rcases mul_eq_zero.1 h1 with h | h1
      · exact absurd h t0.ne'
      rcases mul_eq_zero.1 h2 with h | h2
      · exact absurd h t0.ne'
      exact ⟨by linarith, by linarith⟩
    · intro h
      apply hxy
      rw [K.pt_eq_iff] at h ⊢
      have h1 : (1 - t) * (y.x - x.x) = 0 := by linarith [h.1]
      have h2 : (1 - t) * (y.y - x.y) = 0 := by linarith [h.2]
      rcases mul_eq_zero.1 h1 with h | h1
      · exact absurd h (by linarith)
      rcases mul_eq_zero.1 h2 with h | h2
      · exact absurd h (by linarith)
      exact ⟨by linarith, by linarith⟩

theorem openOn_convex {x y z w u : Pt} (hxy : x ≠ y) (hz : OpenOn x y z) (hw : OpenOn x y w)
    (hu : OnSeg z w u) : OpenOn x y u := by
  obtain ⟨s, s0, s1, zx, zy⟩ := (openOn_param hxy z).1 hz
  obtain ⟨t, t0, t1, wx, wy⟩ := (openOn_param hxy w).1 hw
  obtain ⟨r, r0, r1, ux, uy⟩ := (K.onSeg_iff_param z w u).1 hu
  rw [openOn_param hxy]
  refine ⟨(1 - r) * s + r * t, ?_, ?_, ?_, ?_⟩
  · rcases eq_or_lt_of_le r0 with rfl | hr
    · simpa using s0
    · have : 0 ≤ (1 - r) * s := mul_nonneg (by linarith) s0.le
      have : 0 < r * t := mul_pos hr t0
      linarith
  · rcases eq_or_lt_of_le r0 with rfl | hr
    · simpa using s1
    · have : (1 - r) * s ≤ (1 - r) * 1 := mul_le_mul_of_nonneg_left s1.le (by linarith)
      have : r * t < r * 1 := mul_lt_mul_of_pos_left t1 hr
      linarith
  · rw [ux, wx, zx]; ring
  · rw [uy, wy, zy]; ring


/-- piecewise constancy from: edge points are members, and membership is constant along
    segments that avoid every edge -/
theorem pieceConst_of_const (m : Pt → Bool) (es : List (Pt × Pt))
    (hedge : ∀ e ∈ es, ∀ x, OnSeg e.1 e.2 x → m x = true)
    (hconst : ∀ p q, Avoid es p q → m p = m q) : PieceConst m es := by
  intro x y hxy hd z w hz hw
  by_cases hex : ∃ e ∈ es, ∀ u, OpenOn x y u → OnSeg e.1 e.2 u
  · obtain ⟨e, he, hall⟩ := hex
    rw [hedge e he z (hall z hz), hedge e he w (hall w hw)]
  · apply hconst
    rw [avoid_iff]
    intro e he u hu hon
    rcases hd e he with h | h
    · exact hex ⟨e, he, h⟩
    · exact h u (openOn_convex hxy hz hw hu) hon

theorem pieceConst_poly (ext : List Pt) (holes : List (List Pt))
    (hv : (Shape.poly ext holes).valid = true) :
    PieceConst (Shape.poly ext holes).member (Shape.poly ext holes).edges := by
  apply pieceConst_of_const _ _ (edge_points_member _ hv)
  intro p q hav
  exact (Contains.poly_member_const ext holes p q hav q (K.onSeg_right p q)).symm

end CS
end Geo
