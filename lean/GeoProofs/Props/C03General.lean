/-
  Property C03 (contains), GENERAL POSITION: when no edge of A meets any edge of B
  ("no contact"), polygon containment of the code is EXACT — with one exception found by this
  development, the ≥ 16-point rectangle shortcut of `ringContainsRing` (finding D19).

  Known findings D4, D5, D13 (Props/C03.lean) are wrong answers in CONTACT configurations.
  The theorems here justify attributing a wrong containment answer to those findings only when
  the two boundaries share a point:

  * `ringContainsSegment_of_avoids`      ring × segment, any closed chain, any `allowOnEdge`
  * `ringContainsRing_of_avoids`         ring × ring/line with < 16 points
  * `ringContainsRing_of_avoids_rect`    … any number of points, when the ring also avoids the
                                          sides of the argument's bounding rectangle
  * `ringContainsLine_of_avoids`
  * `ringIntersectsSegment_of_avoids`, `ringIntersectsLine_strict_of_avoids` (hole tests)
  * `poly_contains_line_of_no_contact`   (build A).contains (build B) = Spec.covers A B,
                                          A any polygon value, B any line string
  * `ringContainsRing_shortcut_counterexample`,
    `poly_contains_general_position_counterexample`  — D19: the shortcut answers `true` for an
    argument that lies entirely OUTSIDE the ring, with no contact between the two shapes (the
    contact is between the ring and the argument's bounding RECTANGLE, whose corners sit on
    vertices of the ring, so that `ringContainsSegment` returns at site 7 for all four sides).
-/
import GeoProofs.Props.C03
import GeoProofs.Contains.PolyLine

namespace Geo
open GL Jordan Contains

/-- `ringContainsLine` without contact -/
theorem ringContainsLine_of_avoids (pts : Array Pt) (line : Series) (allowOnEdge : Bool)
    (hrect : line.rect = (processPoints line.pts line.closed).rect)
    (hav : NoContact (Spec.edges pts.toList true) (Spec.edges line.pts.toList line.closed))
    (hsmall : line.numPoints < 16) :
    ringContainsLine (.ser (mkSeries pts true .none 0)) line allowOnEdge =
      (!line.empty && Spec.inRing (Spec.edges pts.toList true) line.pts[0]!) :=
  ringContainsRing_of_avoids pts line allowOnEdge hrect hav hsmall

/-- … and then every point of every segment of the argument is strictly inside -/
theorem ringContainsRing_of_avoids_all (pts : Array Pt) (o : Series) (allowOnEdge : Bool)
    (hrect : o.rect = (processPoints o.pts o.closed).rect)
    (hav : NoContact (Spec.edges pts.toList true) (Spec.edges o.pts.toList o.closed))
    (hsmall : o.numPoints < 16) :
    ringContainsRing (.ser (mkSeries pts true .none 0)) (.ser o) allowOnEdge = true ↔
      (o.empty = false ∧ ∀ f ∈ Spec.edges o.pts.toList o.closed, ∀ x, OnSeg f.1 f.2 x →
        Spec.strictIn (Spec.edges pts.toList true) x = true) := by
  rw [ringContainsRing_of_avoids pts o allowOnEdge hrect hav hsmall]
  by_cases he : o.empty = true
  · simp [he]
  · have he' : o.empty = false := by simpa using he
    have hne : ((o.closed && o.pts.size < 3) || o.pts.size < 2) = false := he'
    obtain ⟨hns, h2⟩ := numSegmentsOf_ge o.pts o.closed hne
    have hc := chain_const pts.toList o.pts o.closed hne hav
    simp only [he', Bool.not_false, Bool.true_and, true_and]
    constructor
    · intro h f hf x hx
      have hf' : ∀ e ∈ Spec.edges pts.toList true, Spec.segsMeet e.1 e.2 f.1 f.2 = false :=
        fun e he => hav e he f hf
      obtain ⟨i, hi, rfl⟩ := edges_mem_segmentAt o.pts o.closed f hf
      have hi' := Nat.lt_of_lt_of_le hi (numSegmentsOf_le o.pts o.closed)
      refine segment_inside_of_avoids pts.toList _ _ hf' ?_ x hx
      have hci := (hc i hi').2
      rw [h] at hci
      exact hci
    · intro h
      have hpos : 0 < numSegmentsOf o.pts o.closed :=
        Nat.lt_of_lt_of_le (by omega : 0 < o.pts.size - 1) hns
      have := h _ (segmentAt_mem_edges o.pts o.closed 0 hpos) _ (K.onSeg_left _ _)
      have h0 : Spec.strictIn (Spec.edges pts.toList true) o.pts[0]! = true := this
      rw [← inRing_eq_strictIn_of_off (hc 0 (by omega)).1] at h0
      exact h0

/-! ## finding D19: the ≥ 16-point rectangle shortcut is wrong in general position -/

/-- a simple concave ring: the square `[0,20]²` minus a four-pointed star whose east arm is a
    channel to the outside; the star's inner vertices are the corners of `[8,12]²` -/
def ringStar : List Pt :=
  [⟨0,0⟩,⟨20,0⟩,⟨20,8⟩,⟨12,8⟩,⟨10,2⟩,⟨8,8⟩,⟨2,10⟩,⟨8,12⟩,⟨10,18⟩,⟨12,12⟩,⟨20,12⟩,⟨20,20⟩,⟨0,20⟩,⟨0,0⟩]

/-- a diamond inscribed in `[8,12]²`, 16 vertices (17 points), inside the star, i.e. OUTSIDE the
    ring -/
def diamond16 : List Pt :=
  [⟨10,8⟩,⟨21/2,17/2⟩,⟨11,9⟩,⟨23/2,19/2⟩,⟨12,10⟩,⟨23/2,21/2⟩,⟨11,11⟩,⟨21/2,23/2⟩,⟨10,12⟩,
   ⟨19/2,23/2⟩,⟨9,11⟩,⟨17/2,21/2⟩,⟨8,10⟩,⟨17/2,19/2⟩,⟨9,9⟩,⟨19/2,17/2⟩,⟨10,8⟩]

/-- no contact, all vertices of the argument strictly outside the ring — and the code says
    "contained" (for both values of `allowOnEdge = true` used by `Poly.containsPoly` /
    `Poly.containsLine`) -/
theorem ringContainsRing_shortcut_counterexample :
    ringContainsRing (.ser (mkSeries ringStar.toArray true .none 0))
        (.ser (mkSeries diamond16.toArray true .none 0)) true = true ∧
    ringContainsLine (.ser (mkSeries ringStar.toArray true .none 0))
        (mkSeries diamond16.toArray false .none 0) true = true ∧
    NoContact (Spec.edges ringStar true) (Spec.edges diamond16 true) ∧
    (∀ p ∈ diamond16, Spec.inRing (Spec.edges ringStar true) p = false) ∧
    -- the same argument with one vertex fewer than the threshold is answered correctly
    ringContainsRing (.ser (mkSeries ringStar.toArray true .none 0))
        (.ser (mkSeries (diamond16.eraseIdx 1 |>.eraseIdx 2).toArray true .none 0)) true = false := by
  unfold NoContact
  decide +kernel

theorem poly_contains_general_position_counterexample :
    (build (.poly ringStar [])).contains (build (.poly diamond16 [])) = true ∧
    Spec.covers (.poly ringStar []) (.poly diamond16 []) = false ∧
    (build (.poly ringStar [])).contains (build (.line diamond16)) = true ∧
    Spec.covers (.poly ringStar []) (.line diamond16) = false ∧
    (Spec.Shape.poly ringStar []).valid = true ∧ (Spec.Shape.poly diamond16 []).valid = true ∧
    (Spec.Shape.line diamond16).valid = true ∧
    NoContact (Spec.Shape.poly ringStar []).edges (Spec.Shape.poly diamond16 []).edges ∧
    (build (.poly ringStar [])).intersects (build (.poly diamond16 [])) = false := by
  unfold NoContact
  decide +kernel

end Geo

#print axioms Geo.ringContainsSegment_of_avoids
#print axioms Geo.ringContainsSegment_of_avoids_all
#print axioms Geo.ringContainsSegment_false_of_avoids
#print axioms Geo.ringContainsRing_of_avoids
#print axioms Geo.ringContainsRing_of_avoids_all
#print axioms Geo.ringContainsRing_of_avoids_rect
#print axioms Geo.ringContainsLine_of_avoids
#print axioms Geo.ringIntersectsSegment_of_avoids
#print axioms Geo.ringIntersectsLine_strict_of_avoids
#print axioms Geo.poly_contains_line_of_no_contact
#print axioms Geo.ringContainsRing_shortcut_counterexample
#print axioms Geo.poly_contains_general_position_counterexample
