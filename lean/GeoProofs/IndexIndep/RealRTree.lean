/-
  GeoProofs.IndexIndep.RealRTree — the order dependence of `ringContainsSegment` is REALISED by
  the model's real R-tree (no hypothetical order): a 17-segment subdivision of the pinched
  polygon of `Counterexample.lean` (17 segments = the smallest size at which the R-tree,
  `rMaxEntries = 16`, splits and thereby reorders its items).

  Route: the byte-level search of an R-tree-indexed series on binary64 coordinates is the
  early-exit fold over `(rBuild …).items` — the items of the built tree in depth-first order —
  filtered by the query (`rSearchBytes_rBuild_agree`, `RTree.search_eq_foldUntil`).  That list is
  computed by the kernel; `ringContainsSegmentS_eq_L` turns the model function into its
  list-level form, which the kernel evaluates.
-/
import GeoProofs.IndexIndep.Counterexample
import GeoProofs.IndexIndep.Shapes
import GeoProofs.SeriesSearchR

namespace Geo

/-- the items of the R-tree built for a series, in the order its search visits them -/
def rOrder (pts : Array Pt) (closed : Bool) : List Nat :=
  (rBuild (fun i => (segmentAtOf pts i).box.g) (numSegmentsOf pts closed)).items

/-- an R-tree-indexed series (index really built) on binary64 coordinates: its search is the
    early-exit fold over `rOrder` filtered by the query -/
theorem rtree_series_foldOn (pts : Array Pt) (closed : Bool) (m : Nat)
    (hm : (m != 0 && decide (pts.size ≥ m)) = true)
    (hd : ∀ p ∈ pts.toList, Dyadic53 p.x ∧ Dyadic53 p.y)
    (hn : pts.size < 2 ^ 32) (hsz : (rBytesOf pts closed).size < 2 ^ 32) (q : Box) :
    (Ring.ser (mkSeries pts closed .rtree m)).FoldOn q
      (visitL (mkSeries pts closed .rtree m) (rOrder pts closed) q) := by
  have hns : numSegmentsOf pts closed < 2 ^ 32 := by
    have := numSegmentsOf_le pts closed; omega
  refine ⟨fun i hi => ?_, fun f st => ?_⟩
  · exact rBuild_items_lt _ _ i (List.mem_filter.1 hi).1
  · have hidx : (mkSeries pts closed .rtree m).index =
        some (putU32 (rBytesOf pts closed) 1 (rBytesOf pts closed).size) := by
      rw [mkSeries_index, if_pos hm]; rfl
    have hext : BytesExt #[1, 0, 0, 0, 0] (rBytesOf pts closed) := rtree_compress_ext encF64 _ _
    have h5 : 5 ≤ (rBytesOf pts closed).size := hext.1
    have h0 : (rBytesOf pts closed)[0]? = some 1 := by rw [hext.2 0 (by simp)]; rfl
    rw [ring_search_ser, search_setCompressed _ _ hidx h5 hsz, h0]
    simp only [mkSeries_segmentAt]
    have key : rSearchBytes decF64 (fun i => (segmentAtOf pts i).box.g) q.g
        (fun st i => f st (segmentAtOf pts i) i)
        (putU32 (rBytesOf pts closed) 1 (rBytesOf pts closed).size) 5 st =
        some ((rBuild (fun i => (segmentAtOf pts i).box.g) (numSegmentsOf pts closed)).search
          (fun i => (segmentAtOf pts i).box.g) q.g (fun st i => f st (segmentAtOf pts i) i) st) :=
      rSearchBytes_rBuild_agree Dyadic53 encF64 decF64 decF64_encF64 (fun x => by simp [encF64])
        (fun i => (segmentAtOf pts i).box.g) q.g (fun st i => f st (segmentAtOf pts i) i)
        (numSegmentsOf pts closed) hns
        (fun i hi => segBox_good Dyadic53 pts closed hd i hi) st hsz
        (putU32 (rBytesOf pts closed) 1 (rBytesOf pts closed).size) (size_putU32 _ _ _)
        (fun i h1 _ => getElem?_putU32_of_outside _ 1 _ i (by omega))
    rw [key, RTree.search_eq_foldUntil _ _ _ _ (rBuild_inv _ _)]
    unfold visitL rOrder
    simp only [mkSeries_segmentAt, box_intersects_eq_meets]
    rfl

/-! ### the instance -/

/-- the pinched polygon `(0,0),(64,0),(64,64),(48,16),(32,0),(0,64)` with 11 extra collinear
    vertices; closed encoding (18 points, 17 segments).  Vertex 11 = (32,0) lies in the interior
    of edge 3 = (24,0)-(64,0). -/
def ring17 : Array Pt :=
  #[⟨0,0⟩, ⟨8,0⟩, ⟨16,0⟩, ⟨24,0⟩, ⟨64,0⟩, ⟨64,64⟩, ⟨62,58⟩, ⟨60,52⟩, ⟨58,46⟩, ⟨54,34⟩, ⟨48,16⟩,
    ⟨32,0⟩, ⟨28,8⟩, ⟨24,16⟩, ⟨20,24⟩, ⟨12,40⟩, ⟨0,64⟩, ⟨0,0⟩]

/-- from the touching vertex across the notch at (48,16) to the right side: NOT contained -/
def seg17 : Seg := ⟨⟨32,0⟩, ⟨64,48⟩⟩

theorem ring17_dyadic : ∀ p ∈ ring17.toList, Dyadic53 p.x ∧ Dyadic53 p.y := by
  have h : ∀ p ∈ ring17.toList, (∃ k : Int, p.x = k ∧ k.natAbs < 2 ^ 53) ∧
      (∃ k : Int, p.y = k ∧ k.natAbs < 2 ^ 53) := by
    have hb : (ring17.toList.all (fun p => decide (p.x.den = 1 ∧ p.x.num.natAbs < 2 ^ 53 ∧
        p.y.den = 1 ∧ p.y.num.natAbs < 2 ^ 53))) = true := by decide +kernel
    intro p hp
    have := List.all_eq_true.1 hb p hp
    simp only [decide_eq_true_eq] at this
    obtain ⟨h1, h2, h3, h4⟩ := this
    exact ⟨⟨p.x.num, (Rat.den_eq_one_iff _).1 h1 |>.symm, h2⟩,
      ⟨p.y.num, (Rat.den_eq_one_iff _).1 h3 |>.symm, h4⟩⟩
  intro p hp
  obtain ⟨⟨k1, e1, b1⟩, ⟨k2, e2, b2⟩⟩ := h p hp
  rw [e1, e2]
  exact ⟨Dyadic53.of_int k1 b1, Dyadic53.of_int k2 b2⟩

/-- the order in which the real R-tree stores (and visits) the 17 segments: after the split of
    the root leaf the items are no longer in index order; in particular edge 11 (which has
    (32,0) as an END) now comes before edge 3 (which carries (32,0) in its interior) -/
theorem ring17_rOrder :
    rOrder ring17 true = [0, 1, 2, 16, 15, 14, 13, 12, 11, 3, 4, 5, 6, 7, 8, 9, 10] := by
  decide +kernel

theorem ring17_foldOn (q : Box) :
    (Ring.ser (mkSeries ring17 true .rtree 1)).FoldOn q
      (visitL (mkSeries ring17 true .rtree 1) (rOrder ring17 true) q) :=
  rtree_series_foldOn ring17 true 1 (by decide +kernel) ring17_dyadic (by decide +kernel)
    (by decide +kernel) q

/-- **realised order dependence** (kernel-checked, no hypothesis): on the SAME ring and query the
    model answers `false` (site 9: the crossing with the notch is found — the correct answer)
    without index, and `true` (site 7: shared-endpoint shortcut) with the R-tree index. -/
theorem ringContainsSegment_rtree_vs_none :
    ringContainsSegmentS (.ser (mkSeries ring17 true .none 0)) seg17 true = ⟨false, 9⟩ ∧
    ringContainsSegmentS (.ser (mkSeries ring17 true .rtree 1)) seg17 true = ⟨true, 7⟩ := by
  constructor
  · decide +kernel
  · rw [ringContainsSegmentS_eq_L _ _ ring17_foldOn]
    decide +kernel

/-- both series search exactly, so they are similar rings: `Ring.Sim` (hence
    `Series.SearchExact`) does not imply equal `ringContainsSegment` answers -/
theorem ringContainsSegment_not_index_indep :
    ∃ (r r' : Ring) (seg : Seg), r.Sim r' ∧
      ringContainsSegment r seg true ≠ ringContainsSegment r' seg true := by
  refine ⟨.ser (mkSeries ring17 true .none 0), .ser (mkSeries ring17 true .rtree 1), seg17, ?_, ?_⟩
  · exact (mkSeries_same _ _ _ _ _ _).sim (series_search_exact_kind_none _ _ _)
      (series_search_exact_rtree_dyadic ring17 true 1 ring17_dyadic (by decide +kernel)
        (by decide +kernel))
  · unfold ringContainsSegment
    rw [ringContainsSegment_rtree_vs_none.1, ringContainsSegment_rtree_vs_none.2]
    decide

/-! ### the same at the level of the 4×4 matrix -/

def poly17 (k : IndexKind) (m : Nat) : Geom := .poly ⟨some (.ser (mkSeries ring17 true k m)), []⟩
def line17 : Geom := .line (mkSeries #[seg17.a, seg17.b] false .none 0)

/-- a polygon without holes against a two-point line: `contains` is `ringContainsSegment` on
    the exterior, once the bounding-box, emptiness and convexity tests are evaluated -/
theorem poly17_contains (k : IndexKind) (m : Nat) :
    (poly17 k m).contains line17 = ringContainsSegment (.ser (mkSeries ring17 true k m)) seg17 true := by
  have e1 : (Ring.ser (mkSeries ring17 true k m)).empty = false :=
    (by decide +kernel : (Ring.ser (mkSeries ring17 true .none 0)).empty = false)
  have e2 : (Ring.ser (mkSeries #[seg17.a, seg17.b] false .none 0)).empty = false := by decide +kernel
  have e3 : (Ring.ser (mkSeries #[seg17.a, seg17.b] false .none 0)).numPoints = 2 := by decide +kernel
  have e4 : (Ring.ser (mkSeries ring17 true k m)).rect.containsBox
      (Ring.ser (mkSeries #[seg17.a, seg17.b] false .none 0)).rect = true :=
    (by decide +kernel : (Ring.ser (mkSeries ring17 true .none 0)).rect.containsBox
      (Ring.ser (mkSeries #[seg17.a, seg17.b] false .none 0)).rect = true)
  have e5 : (Ring.ser (mkSeries ring17 true k m)).convex = false :=
    (by decide +kernel : (Ring.ser (mkSeries ring17 true .none 0)).convex = false)
  have e6 : (Ring.ser (mkSeries #[seg17.a, seg17.b] false .none 0)).numSegments = 1 := by decide +kernel
  have e7 : (Ring.ser (mkSeries #[seg17.a, seg17.b] false .none 0)).segmentAt 0 = seg17 := by decide +kernel
  unfold poly17 line17
  show Poly.containsLine ⟨some (.ser (mkSeries ring17 true k m)), []⟩
    (mkSeries #[seg17.a, seg17.b] false .none 0) = _
  unfold Poly.containsLine ringContainsLine ringContainsRing ringContainsRingBody
  simp only [e1, e2, e3, e4, e5, e6, complexRingMinPoints]
  simp
  rw [e7]

/-- **`Geom.contains` depends on the index kind** (kernel-checked on the model): polygon
    `ring17`, line `(32,0)-(64,48)`: `false` without index, `true` with the R-tree index. -/
theorem geom_contains_rtree_vs_none :
    (poly17 .none 0).contains line17 = false ∧ (poly17 .rtree 1).contains line17 = true := by
  rw [poly17_contains, poly17_contains]
  unfold ringContainsSegment
  rw [ringContainsSegment_rtree_vs_none.1, ringContainsSegment_rtree_vs_none.2]
  exact ⟨rfl, rfl⟩

end Geo
