/-
  GeoProofs.Glue.ParseGluePoly — one pass of the generated per-position iterator of
  parseJSONPolygonCoords = one pass of the model's parseRingLoop; the ring iteration.
-/
import GeoProofs.Glue.ParseGlueLine3

set_option linter.unusedSimpArgs false

namespace Geo.PGlue
open Geo Geo.PGen

theorem polyBody2_eq (rec : RecT) : PGen.parseJSONPolygonCoords_body2 (mops rec) = PGen.parseJSONLineStringCoords_body2 (mops rec) := rfl

theorem arrAt_last {α : Type} (z : α) (xs : List α) (x : α) : arrAt z (xs ++ [x]) (xs.length : Int) = x := by
  unfold arrAt
  have h0 : ¬ ((xs.length : Int) < 0) := by omega
  rw [if_neg h0]; simp

theorem arrSet_last {α : Type} (xs : List α) (x y : α) : arrSet (xs ++ [x]) (xs.length : Int) y = xs ++ [y] := by
  unfold arrSet
  have h0 : ¬ ((xs.length : Int) < 0) := by omega
  rw [if_neg h0]; simp

structure RelR (cur : List FP) (ex : Option GExtra) (dims : Int) (acc : List Pos) (st : DimSt) : Prop where
  acc_eq : acc = cur.map toPos
  ex_eq : st.ex = ex.map exM
  dims_eq : dims = (st.dims : Int)

/-- one pass of the model's parseRingLoop -/
def mRingStep (ringIdx : Nat) (v : JVal) (acc : List Pos) (st : DimSt) : Except PErr (List Pos × DimSt) := do
  let nums ← takeNums false v.elems 0
  match nums with
  | x :: y :: _ =>
    let acc' := acc ++ [mkPos x y]
    let st' ← dimStep st nums (ringIdx == 0 && acc'.length == 1)
    pure (acc', st')
  | _ => throw .coordsInvalid

theorem ringLoop_cons (ri : Nat) (v : JVal) (vs : List JVal) (acc : List Pos) (st : DimSt) :
    parseRingLoop ri (v :: vs) acc st =
      match mRingStep ri v acc st with
      | .ok (a, s) => parseRingLoop ri vs a s
      | .error e => .error e := by
  rw [parseRingLoop]
  unfold mRingStep
  simp only [bind, Except.bind, pure, Except.pure]
  cases takeNums false v.elems 0 with
  | error e => simp
  | ok nums =>
    simp only
    rcases nums with _ | ⟨x, _ | ⟨y, r⟩⟩
    · simp [throw, throwThe, MonadExceptOf.throw]
    · simp [throw, throwThe, MonadExceptOf.throw]
    · simp only
      cases dimStep st (x :: y :: r) (ri == 0 && (acc ++ [mkPos x y]).length == 1) <;> simp

end Geo.PGlue
