/-
  GeoProofs.CoversSpec.Corner — K2: turning a corner of a simple chain on a given side
-/
import GeoProofs.CoversSpec.Vertex

namespace Geo
namespace CS
open Jordan Cvx

variable {es : List (Pt × Pt)} {P : Nat → Pt} {n : Nat}

/-- inside a zone where only the edges `e1`, `e2` occur: `w` sees the point `z` of the line of
    `e1` if `e2` does not come between -/
theorem sees_of_two {w z : Pt} {e1 e2 : Pt × Pt} {s : Rat}
    (honly : ∀ e ∈ es, ∀ x, OnSeg w z x → OnSeg e.1 e.2 x → e = e1 ∨ e = e2)
    (hz1 : Spec.cross e1.1 e1.2 z = 0) (hw1 : 0 < s * Spec.cross e1.1 e1.2 w)
    (h2 : (0 < s * Spec.cross e2.1 e2.2 w ∧ 0 < s * Spec.cross e2.1 e2.2 z) ∨
          (∀ x, OnSeg e2.1 e2.2 x → s * Spec.cross e1.1 e1.2 x ≤ 0)) : Sees es w z := by
  intro e he x hx hex
  obtain ⟨σ, s0, s1, rfl⟩ := (onSeg_iff_lerp _ _ _).1 hx
  have key : s * Spec.cross e1.1 e1.2 (lerp w z σ) = (1 - σ) * (s * Spec.cross e1.1 e1.2 w) := by
    rw [cross_lerp, hz1]; ring
  have fin : (1 - σ) * (s * Spec.cross e1.1 e1.2 w) ≤ 0 → lerp w z σ = z := by
    intro h
    have : 1 - σ ≤ 0 := by
      by_contra hc; rw [not_le] at hc
      have := mul_pos hc hw1; linarith
    have : σ = 1 := by linarith
    rw [this, lerp_one]
  rcases honly e he _ hx hex with rfl | rfl
  · apply fin; rw [← key, hex.1]; simp
  · rcases h2 with ⟨ha, hb⟩ | hB
    · exfalso
      have h0 := hex.1
      rw [cross_lerp] at h0
      have : 0 < (1 - σ) * (s * Spec.cross e.1 e.2 w) + σ * (s * Spec.cross e.1 e.2 z) := by
        rcases eq_or_lt_of_le s0 with h | h
        · rw [← h]; simpa using ha
        · have := mul_pos h hb
          have := mul_nonneg (sub_nonneg.2 s1) ha.le
          linarith
      have e0 : (1 - σ) * (s * Spec.cross e.1 e.2 w) + σ * (s * Spec.cross e.1 e.2 z) =
          s * ((1 - σ) * Spec.cross e.1 e.2 w + σ * Spec.cross e.1 e.2 z) := by ring
      rw [e0, h0] at this; simp at this
    · apply fin; rw [← key]; exact hB _ hex

theorem lerp_symm (a v : Pt) (t : Rat) : lerp v a t = lerp a v (1 - t) := by
  simp only [lerp, Pt.mk.injEq]; constructor <;> ring

theorem near_lerp_mono {ε : Rat} {v a : Pt} {τ t : Rat} (h : Near ε (lerp v a τ) v)
    (t0 : 0 ≤ t) (tτ : t ≤ τ) : Near ε (lerp v a t) v := by
  obtain ⟨h1, h2⟩ := h
  have hτ : 0 ≤ τ := le_trans t0 tτ
  have e : ∀ (o r k : Rat), o + r * k - o = r * k := fun o r k => by ring
  simp only [lerp] at h1 h2
  rw [e, abs_mul, abs_of_nonneg hτ] at h1 h2
  refine ⟨?_, ?_⟩
  · show |v.x + t * (a.x - v.x) - v.x| ≤ ε
    rw [e, abs_mul, abs_of_nonneg t0]
    exact le_trans (mul_le_mul_of_nonneg_right tτ (abs_nonneg _)) h1
  · show |v.y + t * (a.y - v.y) - v.y| ≤ ε
    rw [e, abs_mul, abs_of_nonneg t0]
    exact le_trans (mul_le_mul_of_nonneg_right tτ (abs_nonneg _)) h2

theorem cross_cyc (a v c : Pt) : Spec.cross v c a = Spec.cross a v c := by
  simp only [K.cross_def]; ring

theorem cross_self_mid (a v : Pt) : Spec.cross a v v = 0 := by
  simp only [K.cross_def]; ring

theorem cross_self_fst (a v : Pt) : Spec.cross a v a = 0 := by
  simp only [K.cross_def]; ring

/-- around a vertex only its two edges occur -/
theorem RingD.vertex_zone (R : RingD es P n) (i : Nat) :
    ∃ ε : Rat, 0 < ε ∧ ∀ w z, Near ε w (P (i+1)) → Near ε z (P (i+1)) → ∀ e ∈ es, ∀ x,
      OnSeg w z x → OnSeg e.1 e.2 x → e = (P i, P (i+1)) ∨ e = (P (i+1), P (i+2)) := by
  obtain ⟨ε, hε, ht⟩ := tube (P (i+1)) (P (i+1))
    (es.filter (fun f => decide (f ≠ (P i, P (i+1))) && decide (f ≠ (P (i+1), P (i+2))))) (by
      rintro f hf ⟨x, hx1, hx2⟩
      have hx : x = P (i+1) := K.onSeg_degenerate.1 hx1
      rw [List.mem_filter] at hf
      obtain ⟨hf1, hf2⟩ := hf
      simp only [Bool.and_eq_true, decide_eq_true_eq] at hf2
      rw [hx] at hx2
      rcases R.at_vertex i hf1 hx2 with h | h
      · exact hf2.1 h
      · exact hf2.2 h)
  refine ⟨ε, hε, ?_⟩
  intro w z hw hz e he x hx hex
  by_contra hc
  rw [not_or] at hc
  have hf : e ∈ es.filter (fun f => decide (f ≠ (P i, P (i+1))) && decide (f ≠ (P (i+1), P (i+2)))) := by
    rw [List.mem_filter]
    exact ⟨he, by simp only [Bool.and_eq_true, decide_eq_true_eq]; exact hc⟩
  obtain ⟨y, hy, hny⟩ := near_seg_convex (a := P (i+1)) (b := P (i+1)) (K.onSeg_left _ _)
    (K.onSeg_left _ _) hw hz hx
  exact ht y x hy hny e hf hex

end CS
end Geo

namespace Geo
namespace CS
open Jordan Cvx

variable {es : List (Pt × Pt)} {P : Nat → Pt} {n : Nat}

/-- corner, given a direction point `q` strictly on side `s` of both edges at the vertex -/
theorem RingD.corner_core (R : RingD es P n) (i : Nat) (s : Rat) (q : Pt)
    (hq1 : 0 < s * Spec.cross (P i) (P (i+1)) q) (hq2 : 0 < s * Spec.cross (P (i+1)) (P (i+2)) q) :
    ∃ w z z', OpenOn (P i) (P (i+1)) z ∧ OpenOn (P (i+1)) (P (i+2)) z' ∧ Sees es w z ∧
      Sees es w z' ∧ 0 < s * Spec.cross (P i) (P (i+1)) w ∧
      0 < s * Spec.cross (P (i+1)) (P (i+2)) w := by
  obtain ⟨ε, hε, hzone⟩ := R.vertex_zone i
  obtain ⟨μ, μ0, μ1, hnw⟩ := exists_near_on_seg q (P (i+1)) ε hε
  obtain ⟨τa, a0, a1, hna⟩ := exists_near_on_seg (P i) (P (i+1)) ε hε
  obtain ⟨τc, c0, c1, hnc⟩ := exists_near_on_seg (P (i+2)) (P (i+1)) ε hε
  change Near ε (lerp (P (i+1)) q μ) (P (i+1)) at hnw
  change Near ε (lerp (P (i+1)) (P i) τa) (P (i+1)) at hna
  change Near ε (lerp (P (i+1)) (P (i+2)) τc) (P (i+1)) at hnc
  set l := min τa τc / 2 with hl
  have l0 : 0 < l := by rw [hl]; have := lt_min a0 c0; linarith
  have la : l ≤ τa := by rw [hl]; have := min_le_left τa τc; linarith [lt_min a0 c0]
  have lc : l ≤ τc := by rw [hl]; have := min_le_right τa τc; linarith [lt_min a0 c0]
  have l1 : l < 1 := by rw [hl]; have := min_le_left τa τc; linarith
  have hnz := near_lerp_mono hna l0.le la
  have hnz' := near_lerp_mono hnc l0.le lc
  set X := Spec.cross (P i) (P (i+1)) (P (i+2)) with hX
  -- crosses
  have c1' : Spec.cross (P i) (P (i+1)) (lerp (P (i+1)) (P i) l) = 0 := by
    rw [cross_lerp, cross_self_mid, cross_self_fst]; ring
  have c2' : Spec.cross (P (i+1)) (P (i+2)) (lerp (P (i+1)) (P i) l) = l * X := by
    rw [cross_lerp, cross_self_fst, cross_cyc]; ring
  have c3' : Spec.cross (P (i+1)) (P (i+2)) (lerp (P (i+1)) (P (i+2)) l) = 0 := by
    rw [cross_lerp, cross_self_mid, cross_self_fst]; ring
  have c4' : Spec.cross (P i) (P (i+1)) (lerp (P (i+1)) (P (i+2)) l) = l * X := by
    rw [cross_lerp, cross_self_mid]; ring
  have c5' : Spec.cross (P i) (P (i+1)) (lerp (P (i+1)) q μ) = μ * Spec.cross (P i) (P (i+1)) q := by
    rw [cross_lerp, cross_self_mid]; ring
  have c6' : Spec.cross (P (i+1)) (P (i+2)) (lerp (P (i+1)) q μ) =
      μ * Spec.cross (P (i+1)) (P (i+2)) q := by
    rw [cross_lerp, cross_self_fst]; ring
  have w1 : 0 < s * Spec.cross (P i) (P (i+1)) (lerp (P (i+1)) q μ) := by
    rw [c5']; have := mul_pos μ0 hq1; linarith
  have w2 : 0 < s * Spec.cross (P (i+1)) (P (i+2)) (lerp (P (i+1)) q μ) := by
    rw [c6']; have := mul_pos μ0 hq2; linarith
  refine ⟨lerp (P (i+1)) q μ, lerp (P (i+1)) (P i) l, lerp (P (i+1)) (P (i+2)) l, ?_, ?_, ?_, ?_, w1, w2⟩
  · rw [lerp_symm]; exact openOn_of_lerp (R.ne_succ i) (by linarith) (by linarith)
  · exact openOn_of_lerp (R.ne_succ (i+1)) l0 l1
  · apply sees_of_two (e1 := (P i, P (i+1))) (e2 := (P (i+1), P (i+2))) (s := s)
      (fun e he x hx hex => hzone _ _ hnw hnz e he x hx hex) c1' w1
    by_cases hκ : 0 < s * X
    · left; refine ⟨w2, ?_⟩
      simp only; rw [c2']; have := mul_pos l0 hκ; linarith
    · right
      intro x hx
      obtain ⟨t, t0, t1, rfl⟩ := (onSeg_iff_lerp _ _ _).1 hx
      simp only
      rw [cross_lerp, cross_self_mid]
      rw [not_lt] at hκ
      have := mul_nonneg t0 (neg_nonneg.2 hκ)
      rw [← hX]; linarith
  · apply sees_of_two (e1 := (P (i+1), P (i+2))) (e2 := (P i, P (i+1))) (s := s)
      (fun e he x hx hex => (hzone _ _ hnw hnz' e he x hx hex).symm) c3' w2
    by_cases hκ : 0 < s * X
    · left; refine ⟨w1, ?_⟩
      simp only; rw [c4']; have := mul_pos l0 hκ; linarith
    · right
      intro x hx
      obtain ⟨t, t0, t1, rfl⟩ := (onSeg_iff_lerp _ _ _).1 hx
      simp only
      rw [cross_lerp, cross_self_fst, cross_cyc]
      rw [not_lt] at hκ
      have := mul_nonneg (sub_nonneg.2 t1) (neg_nonneg.2 hκ)
      rw [← hX]; linarith

/-- K2: at every vertex and on either side there is a point seeing open points of both edges -/
theorem RingD.corner (R : RingD es P n) (i : Nat) (s : Rat) (hs : s = 1 ∨ s = -1) :
    ∃ w z z', OpenOn (P i) (P (i+1)) z ∧ OpenOn (P (i+1)) (P (i+2)) z' ∧ Sees es w z ∧
      Sees es w z' ∧ 0 < s * Spec.cross (P i) (P (i+1)) w ∧
      0 < s * Spec.cross (P (i+1)) (P (i+2)) w := by
  have hss : s * s = 1 := by rcases hs with rfl | rfl <;> norm_num
  rcases lt_trichotomy 0 (s * Spec.cross (P i) (P (i+1)) (P (i+2))) with hκ | hκ | hκ
  · apply R.corner_core i s ⟨(P (i+2)).x + (P i).x - (P (i+1)).x, (P (i+2)).y + (P i).y - (P (i+1)).y⟩
    · have : Spec.cross (P i) (P (i+1)) ⟨(P (i+2)).x + (P i).x - (P (i+1)).x,
          (P (i+2)).y + (P i).y - (P (i+1)).y⟩ = Spec.cross (P i) (P (i+1)) (P (i+2)) := by
        simp only [K.cross_def]; ring
      rw [this]; exact hκ
    · have : Spec.cross (P (i+1)) (P (i+2)) ⟨(P (i+2)).x + (P i).x - (P (i+1)).x,
          (P (i+2)).y + (P i).y - (P (i+1)).y⟩ = Spec.cross (P i) (P (i+1)) (P (i+2)) := by
        simp only [K.cross_def]; ring
      rw [this]; exact hκ
  · have hX : Spec.cross (P i) (P (i+1)) (P (i+2)) = 0 := by
      rcases mul_eq_zero.1 hκ.symm with h | h
      · rw [h] at hss; simp at hss
      · exact h
    apply R.corner_core i s (off (P i) (P (i+1)) (P (i+1)) s)
    · rw [cross_off, cross_self_mid]
      have := len2_pos (R.ne_succ i)
      nlinarith
    · have hd := dot_pos_of_straight hX (R.simple.adj1 i) (R.simple.adj2 i)
      have : Spec.cross (P (i+1)) (P (i+2)) (off (P i) (P (i+1)) (P (i+1)) s) =
          s * (((P (i+1)).x - (P i).x) * ((P (i+2)).x - (P (i+1)).x) +
            ((P (i+1)).y - (P i).y) * ((P (i+2)).y - (P (i+1)).y)) := by
        simp only [K.cross_def, off]; ring
      rw [this, ← mul_assoc, hss, one_mul]; exact hd
  · apply R.corner_core i s ⟨3 * (P (i+1)).x - (P i).x - (P (i+2)).x,
      3 * (P (i+1)).y - (P i).y - (P (i+2)).y⟩
    · have : Spec.cross (P i) (P (i+1)) ⟨3 * (P (i+1)).x - (P i).x - (P (i+2)).x,
          3 * (P (i+1)).y - (P i).y - (P (i+2)).y⟩ = - Spec.cross (P i) (P (i+1)) (P (i+2)) := by
        simp only [K.cross_def]; ring
      rw [this]; linarith
    · have : Spec.cross (P (i+1)) (P (i+2)) ⟨3 * (P (i+1)).x - (P i).x - (P (i+2)).x,
          3 * (P (i+1)).y - (P i).y - (P (i+2)).y⟩ = - Spec.cross (P i) (P (i+1)) (P (i+2)) := by
        simp only [K.cross_def]; ring
      rw [this]; linarith

end CS
end Geo
