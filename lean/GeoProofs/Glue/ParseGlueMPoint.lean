/-
  GeoProofs.Glue.ParseGlueMPoint — generated parseJSONMultiPoint = the "MultiPoint" arm of the model's parse.
-/
import GeoProofs.Glue.ParseGlueTop

set_option linter.unusedSimpArgs false

namespace Geo.PGlue
open Geo Geo.PGen

abbrev GMP := PGen.MultiPoint MF GRect Obj (List Obj) MStr

theorem mapM_cons_except {α β : Type} (f : α → Except PErr β) (a : α) (as : List α) :
    (a :: as).mapM f = match f a with
      | .error e => .error e
      | .ok b => match as.mapM f with
        | .error e => .error e
        | .ok bs => .ok (b :: bs) := by
  rw [List.mapM_cons]
  cases f a with
  | error e => rfl
  | ok b => cases as.mapM f <;> rfl

theorem mpoint_fold (rec : RecT) (keys : Option GKeys) (opts : Option GOpts) :
    ∀ (vs : List JVal) (xs : List RPair), xs.map (·.2) = vs.map some → ∀ (g : GMP) (c0 : FP) (e0 : Option GExtra),
    match vs.mapM (fun v => parsePointCoords v) with
    | .ok cs => ∃ c' e',
        searchFold (PGen.parseJSONMultiPoint_lit1 (mops rec) keys opts) xs (g, none, c0, e0) =
          ({ g with collection := { g.collection with children := g.collection.children ++ cs.map (fun c => Obj.point c.1 c.2) } }, none, c', e')
    | .error e => e = .coordsInvalid ∧
        (searchFold (PGen.parseJSONMultiPoint_lit1 (mops rec) keys opts) xs (g, none, c0, e0)).2.1 = some .errCoordinatesInvalid := by
  intro vs
  induction vs with
  | nil => intro xs h g c0 e0; simp at h; subst h; simp [searchFold, pure, Except.pure]
  | cons v vs ih =>
    intro xs h g c0 e0
    cases xs with
    | nil => simp at h
    | cons x xs =>
      simp only [List.map_cons, List.cons.injEq] at h
      obtain ⟨hx, hxs⟩ := h
      obtain ⟨k, x2⟩ := x
      simp only at hx; subst hx
      rw [mapM_cons_except]
      have hp := pointCoords_some rec keys opts v
      have hstep : PGen.parseJSONMultiPoint_lit1 (mops rec) keys opts (k, some v) (g, none, c0, e0) =
          (let G := PGen.parseJSONPointCoords (mops rec) keys (some v) opts
           if !G.2.2.isNone then ((g, G.2.2, G.1, G.2.1), false)
           else (({ g with collection := { g.collection with children := g.collection.children ++ [Obj.point (toPos G.1) (G.2.1.map exM)] } },
                   G.2.2, G.1, G.2.1), true)) := rfl
      generalize PGen.parseJSONPointCoords (mops rec) keys (some v) opts = G at hp hstep
      cases hpc : parsePointCoords v with
      | error e =>
        rw [hpc] at hp
        obtain ⟨he, hg⟩ := hp
        simp only
        refine ⟨he, ?_⟩
        rw [searchFold, hstep]
        simp [hg]
      | ok pe =>
        obtain ⟨pos, ex⟩ := pe
        rw [hpc] at hp
        obtain ⟨h1, h2, h3⟩ := hp
        have hs : PGen.parseJSONMultiPoint_lit1 (mops rec) keys opts (k, some v) (g, none, c0, e0) =
            (({ g with collection := { g.collection with children := g.collection.children ++ [Obj.point pos ex] } }, none, G.1, G.2.1), true) := by
          rw [hstep]; simp [h1, h2, h3]
        simp only
        rw [searchFold_cons_true _ _ _ _ _ hs]
        have := ih xs hxs { g with collection := { g.collection with children := g.collection.children ++ [Obj.point pos ex] } } G.1 G.2.1
        cases hm : vs.mapM (fun v => parsePointCoords v) with
        | error e => rw [hm] at this; simpa using this
        | ok cs =>
          rw [hm] at this
          obtain ⟨c', e', hf⟩ := this
          exact ⟨c', e', by rw [hf]; simp⟩

theorem validLoop (rec : RecT) : ∀ (cs : List Obj),
    forRange (PGen.parseJSONMultiPoint_body2 (mops rec)) cs () =
      if cs.all Obj.valid then Exit.done () else Exit.ret (Exit.ret (default, some .errCoordinatesInvalid)) := by
  intro cs
  induction cs with
  | nil => simp [forRange]
  | cons c cs ih =>
    rw [forRange]
    have : PGen.parseJSONMultiPoint_body2 (mops rec) c () =
        if !c.valid then Flow.ret (Exit.ret (default, some .errCoordinatesInvalid)) else Flow.next () := rfl
    rw [this]
    cases hv : c.valid
    · simp [hv]
    · simp [hv, ih]

/-- the "MultiPoint" arm of the model's parse -/
def mMultiPoint (o : POpts) (k : Keys) : Except PErr Obj :=
  match reqArray k.coordinates .coordsMissing .coordsInvalid with
  | .error e => .error e
  | .ok rc =>
    match rc.elems.mapM (fun v => parsePointCoords v) with
    | .error e => .error e
    | .ok cs =>
      let children : List Obj := cs.map (fun c => Obj.point c.1 c.2)
      if o.requireValid && !(children.all Obj.valid) then .error .coordsInvalid
      else .ok (mkColl o .multiPoint children (withMembers none k))

theorem multiPoint_eq (rec : RecT) (gk : GKeys) (o : POpts) (k : Keys) (hk : KeysRel gk k) :
    Agree (PGen.parseJSONMultiPoint (mops rec) (some gk) (some (optsG o))) (mMultiPoint o k) := by
  unfold PGen.parseJSONMultiPoint mMultiPoint reqArray
  simp only [m_gjsonResultExists, m_gjsonResultIsArray, m_gjsonResultForEach, m_nilObject, m_objectOfMultiPoint,
    m_zeroGeometryPoint, m_zeroParseOptions, deref_some, hk.coords]
  cases hc : k.coordinates with
  | none => simp [Agree, errG]
  | some rc =>
    cases hb : rc.isArray with
    | false => simp [Agree, errG, hb]
    | true =>
      simp only [hb, Option.isSome_some, Bool.not_true, Bool.false_eq_true, if_false, ↓reduceIte]
      have hf := mpoint_fold rec (some gk) (some (optsG o)) rc.elems (forEach (some rc)) (forEach_vals rc)
        (PGen.zeroMultiPoint (mops rec)) (mfInt 0, mfInt 0) none
      cases hm : rc.elems.mapM (fun v => parsePointCoords v) with
      | error e =>
        rw [hm] at hf
        obtain ⟨he, h1⟩ := hf
        simp [Agree, errG, he, h1, hm]
      | ok cs =>
        rw [hm] at hf
        obtain ⟨c', e', hs⟩ := hf
        simp only [hm]
        rw [hs]
        simp only [Option.isNone_none, Bool.not_true, Bool.false_eq_true, if_false]
        have hb' := bbox_eq rec none gk (some (optsG o)) k hk
        have hz : (PGen.zeroMultiPoint (mops rec)).collection.extra = none := rfl
        have hzc : (PGen.zeroMultiPoint (mops rec)).collection.children = [] := rfl
        simp only [hz, hzc, List.nil_append]
        generalize PGen.parseBBoxAndExtras (mops rec) none (some gk) (some (optsG o)) = B at hb' ⊢
        obtain ⟨hb1, hb2⟩ := hb'
        simp only [hb1, Option.isNone_none, Bool.not_true, Bool.false_eq_true, if_false, validLoop]
        have ho : (optsG o).requireValid = o.requireValid := rfl
        rw [ho]
        rw [initRect_obj rec .multiPoint _ o rfl]
        simp only [hb2, Option.map_none]
        cases o.requireValid <;> cases hv : (cs.map (fun c => Obj.point c.1 c.2)).all Obj.valid <;> simp [Agree, errG, hv]

#print axioms multiPoint_eq

end Geo.PGlue
