/-
  GeoProofs.Glue.WriteGlue — the JSON writers REGENERATED from the current Go source
  (GeoModel/Generated/WriteGen.lean, `translate writers`), instantiated with the text operations
  of the hand model (`WGlue.mopsR gj rp rec`): Buf := String, float64 := the pre-rendered text of
  the number ("null" when it is not finite), geometry.Point := Pos, geometry.Series := List Pos,
  *extra := Option Extra, Object := Obj; gjson is an oracle `GJ` (trusted contract, stated as
  hypotheses `ExOK`, `GJCoords`); the dynamic dispatch `child.AppendJSON(dst)` is the parameter
  `rec` (`mops gj rp` := `mopsR gj rp writeRec`, the children written by the model's own
  `Geo.write`).  Per writer: the generated definition = the hand model (GeoModel/Write.lean),
  `none` (Go panics) exactly where the model returns `none`; the theorems about writers with
  children assume `rec` computes `write` ON THE CHILDREN only, which gives both the bridge at
  `rec := write` and the uniqueness of the solution (Props/WriteBridge.lean).
-/
import GeoModel.Generated.WriteGen
import GeoProofs.WriteLemmas

namespace Geo.WGlue
open Geo Geo.WGen

/-- gjson as an oracle: `Get(json, path).Exists()` and `Get(json, path).String()` -/
structure GJ where
  exists_ : String → String → Bool
  str : String → String → String

/-- s[lo:hi] at the level of characters (= bytes on ASCII text; `members[1:len-1]` strips the
    two braces either way) -/
def strSlice (s : String) (lo hi : Int) : Option String :=
  if 0 ≤ lo ∧ lo ≤ hi ∧ hi ≤ (s.length : Int) then
    some (String.ofList ((s.toList.take hi.toNat).drop lo.toNat))
  else none

abbrev MPoly := Poly × List (List Pos)
abbrev MColl := List Obj × Option Extra

/-- the hand model's operations.  `rp` = the geometry.Poly of `(*Rect).Polygon()`, `rec` = the
    dynamic dispatch `child.AppendJSON(dst)` -/
def mopsR (gj : GJ) (rp : Poly) (rec : Obj → String → Option String) :
    Ops String String (List Pos) Pos MPoly (List Pos) (Bool × String) (Pos × String) MColl Extra
      (Obj × Option Extra) MColl MColl (List Pos × Option Extra) MColl MColl MColl Obj
      (Pos × Option Extra) (MPoly × Option Extra) (Box × Pos × Pos) Pos where
  bufByte dst c := dst ++ String.singleton c
  bufLit dst s := dst ++ s
  bufNil := ""
  bufStr dst s := dst ++ s
  gPoint_X p := p.xs
  gPoint_Y p := p.ys
  gPoly_Empty b := b.1.empty
  gPoly_Exterior b := b.2.headD []
  gPoly_Holes b := b.2.tail
  gSeries_NumPoints s := s.length
  gSeries_PointAt s i := s.getD i.toNat default
  gSeries_ofGLine l := l
  gjsonGet json path := (gj.exists_ json path, gj.str json path)
  gjsonGetBytes json path := (gj.exists_ json path, gj.str json path)
  jResult_Exists r := r.1
  jResult_String r := r.2
  mathIsInf _ _ := false
  mathIsNaN t := t == "null"
  rec_AppendJSON := rec
  strLen s := s.length
  strSlice := strSlice
  strconvAppendFloat dst t _ _ _ := dst ++ t
  stringsIndex _ _ := 0
  tCircle_center g := g.1
  tCircle_meters g := g.2
  tCollection_children g := g.1
  tCollection_extra g := g.2
  tExtra_dims e := e.dims
  tExtra_members e := e.members
  tExtra_values e := e.values
  tFeatureCollection_collection g := g
  tFeature_base g := g.1
  tFeature_extra g := g.2
  tGeometryCollection_collection g := g
  tLineString_base g := g.1
  tLineString_extra g := g.2
  tMultiLineString_collection g := g
  tMultiPoint_collection g := g
  tMultiPolygon_collection g := g
  tPoint_base g := g.1
  tPoint_extra g := g.2
  tPolygon_base g := g.1
  tPolygon_extra g := g.2
  tRect_Polygon g := .polygon rp [rectRing g.2.1 g.2.2] none
  tSimplePoint_Point g := g

/-- the model's own writer as the dynamic dispatch -/
def writeRec (o : Obj) (dst : String) : Option String := (write o).map (dst ++ ·)

/-- the hand model's operations with the children written by the model's own `write` -/
abbrev mops (gj : GJ) (rp : Poly) := mopsR gj rp writeRec

/-! ### loops -/

theorem intRange_zero (lo : Int) : intRange lo lo = [] := by simp [intRange]

theorem intRange_succ (lo : Int) (n : Nat) :
    intRange lo (lo + (n + 1 : Nat)) = lo :: intRange (lo + 1) (lo + 1 + (n : Nat)) := by
  simp only [intRange]
  have h1 : (lo + ((n + 1 : Nat) : Int) - lo).toNat = n + 1 := by omega
  have h2 : (lo + 1 + (n : Int) - (lo + 1)).toNat = n := by omega
  rw [h1, h2, List.range_succ_eq_map]
  simp only [List.map_cons, List.map_map, Int.ofNat_eq_natCast, Int.natCast_zero, Int.add_zero, List.cons.injEq,
    true_and]
  apply List.map_congr_left
  intro k _
  simp only [Function.comp, Int.natCast_succ]
  omega

theorem loopM_nil {ε σ : Type} (body : ε → σ → Option σ) (s : σ) : loopM body [] s = some s := rfl

theorem loopM_cons {ε σ : Type} (body : ε → σ → Option σ) (x : ε) (xs : List ε) (s : σ) :
    loopM body (x :: xs) s = (body x s).bind (loopM body xs) := by
  rw [loopM]; cases body x s <;> rfl

theorem singleton_eq (c : Char) : String.singleton c = String.ofList [c] := by
  apply String.ext; simp

theorem intRange_nat (n : Nat) : intRange 0 (n : Int) = (List.range n).map Int.ofNat := by
  simp [intRange]

/-- equality of two concatenations of literals, single bytes and atoms -/
macro "str_eq'" : tactic =>
  `(tactic| (apply String.ext; simp only [String.toList_append, String.toList_singleton, String.reduceToList,
      List.cons_append, List.nil_append, List.append_assoc, List.append_nil]))

/-! ### appendJSONFloat, appendJSONPoint -/

theorem appendJSONFloat_eq (gj : GJ) (rp : Poly) (rec : Obj → String → Option String) (dst t : String) :
    appendJSONFloat (mopsR gj rp rec) dst t = some (dst ++ t) := by
  simp only [appendJSONFloat, mopsR]
  by_cases h : t = "null"
  · subst h; simp
  · simp [h]

theorem bufByte_eq (gj : GJ) (rp : Poly) (rec : Obj → String → Option String) (dst : String) (c : Char) :
    (mopsR gj rp rec).bufByte dst c = dst ++ String.singleton c := rfl

theorem bufLit_eq (gj : GJ) (rp : Poly) (rec : Obj → String → Option String) (dst s : String) : (mopsR gj rp rec).bufLit dst s = dst ++ s := rfl

/-- the extras loop of appendJSONPoint over any list of indices -/
theorem extras_loop (gj : GJ) (rp : Poly) (rec : Obj → String → Option String) (e : Extra) (idx : Nat) (is : List Nat) (dst : String) :
    loopM (fun (x' : Int) (st' : String) =>
        let i : Int := x'
        let dst : String := st'
        let dst : String := (mopsR gj rp rec).bufByte dst ','
        Option.bind (sliceAt ((mopsR gj rp rec).tExtra_values e) (((idx : Int) * ((mopsR gj rp rec).tExtra_dims e)) + i)) fun (e'3 : String) =>
        Option.bind (appendJSONFloat (mopsR gj rp rec) dst e'3) fun (dst : String) =>
        some dst) (is.map Int.ofNat) dst
      = (is.mapM (fun i => e.values[idx * e.dims + i]?)).map (fun ts => dst ++ cjTail ts) := by
  generalize hb : (fun (x' : Int) (st' : String) => _) = body
  have hstep : ∀ (i : Nat) (dst : String),
      body (Int.ofNat i) dst = (e.values[idx * e.dims + i]?).map (fun v => dst ++ "," ++ v) := by
    intro i dst
    subst hb
    have hidx : ((idx : Int) * ((mopsR gj rp rec).tExtra_dims e) + Int.ofNat i) = ((idx * e.dims + i : Nat) : Int) := by
      simp [mopsR]
    have hneg : ¬ (((idx * e.dims + i : Nat) : Int) < 0) := by omega
    have hv : (mopsR gj rp rec).tExtra_values e = e.values := rfl
    simp only [hidx, sliceAt, appendJSONFloat_eq, bufByte_eq, hneg, if_false, Int.toNat_natCast, hv]
    cases e.values[idx * e.dims + i]? with
    | none => rfl
    | some v => simp only [Option.bind_some, Option.map_some, Option.some.injEq]; str_eq'
  clear hb
  induction is generalizing dst with
  | nil => simp [loopM_nil, cjTail_nil]
  | cons i is ih =>
    rw [List.map_cons, loopM_cons, hstep, List.mapM_cons]
    cases e.values[idx * e.dims + i]? with
    | none => rfl
    | some v =>
      simp only [Option.map_some, Option.bind_some, Option.bind_eq_bind, ih]
      cases is.mapM (fun i => e.values[idx * e.dims + i]?) with
      | none => rfl
      | some ts =>
        simp only [Option.map_some, Option.pure_def, Option.bind_some, cjTail_cons, Option.some.injEq]
        str_eq'

theorem extras_loop' (gj : GJ) (rp : Poly) (rec : Obj → String → Option String) (e : Extra) (idx : Nat) (dst : String) :
    loopM (fun (x' : Int) (st' : String) =>
        let i : Int := x'
        let dst : String := st'
        let dst : String := (mopsR gj rp rec).bufByte dst ','
        Option.bind (sliceAt ((mopsR gj rp rec).tExtra_values e) (((idx : Int) * ((mopsR gj rp rec).tExtra_dims e)) + i)) fun (e'3 : String) =>
        Option.bind (appendJSONFloat (mopsR gj rp rec) dst e'3) fun (dst : String) =>
        some dst) (intRange 0 ((mopsR gj rp rec).tExtra_dims e)) dst
      = ((List.range e.dims).mapM (fun i => e.values[idx * e.dims + i]?)).map (fun ts => dst ++ cjTail ts) := by
  have h := extras_loop gj rp rec e idx (List.range e.dims) dst
  rw [← intRange_nat] at h
  exact h

theorem appendJSONPoint_eq (gj : GJ) (rp : Poly) (rec : Obj → String → Option String) (dst : String) (pos : Pos) (ex : Option Extra) (idx : Nat) :
    appendJSONPoint (mopsR gj rp rec) dst pos ex (idx : Int) = (writePos pos ex idx).map (dst ++ ·) := by
  unfold appendJSONPoint
  cases ex with
  | none =>
    simp only [appendJSONFloat_eq, bufByte_eq, Option.bind_some, writePos, Option.map_some, Option.some.injEq]
    simp only [mopsR]; str_eq'
  | some e =>
    simp only [extras_loop']
    simp only [appendJSONFloat_eq, Option.bind_some, writePos]
    cases (List.range e.dims).mapM (fun i => e.values[idx * e.dims + i]?) with
    | none => rfl
    | some ts =>
      simp only [Option.map_some, Option.bind_some, Option.bind_eq_bind, Option.pure_def, Option.some.injEq, mopsR]
      rw [show String.join (ts.map (fun v => "," ++ v)) = cjTail ts from rfl]
      str_eq'

/-! ### appendJSONExtra -/

/-- what appendJSONExtra needs from an `extra`: the model's `hasProps` is gjson's answer, and
    `members` is not a 1-character text (on which `members[1:len(members)-1]` PANICS) -/
def ExOK (gj : GJ) : Option Extra → Prop
  | none => True
  | some e => e.hasProps = gj.exists_ e.members "properties" ∧ e.members.length ≠ 1

theorem length_pos_of_ne_empty {s : String} (h : s ≠ "") : 0 < s.length := by
  rcases Nat.eq_zero_or_pos s.length with h0 | h0
  · exact absurd (by simpa using h0) h
  · exact h0

theorem strSlice_strip {s : String} (h : 2 ≤ s.length) :
    strSlice s 1 ((s.length : Int) - 1) = some ((s.drop 1).dropEnd 1).toString := by
  have hc : (0 : Int) ≤ 1 ∧ (1 : Int) ≤ (s.length : Int) - 1 ∧ (s.length : Int) - 1 ≤ (s.length : Int) := by omega
  rw [strSlice, if_pos hc]
  congr 1
  apply String.ext
  rw [strip_toList, String.toList_ofList, List.dropLast_eq_take, List.drop_take]
  have h1 : ((s.length : Int) - 1).toNat = s.length - 1 := by omega
  simp only [h1, List.length_drop, String.length_toList, Int.toNat_one]

theorem strSlice_one {s : String} (h : s.length = 1) : strSlice s 1 ((s.length : Int) - 1) = none := by
  rw [strSlice, if_neg]; omega

theorem appendJSONExtra_eq (gj : GJ) (rp : Poly) (rec : Obj → String → Option String) (ex : Option Extra) (dst : String) (req : Bool)
    (h : ExOK gj ex) :
    extra_appendJSONExtra (mopsR gj rp rec) ex dst req = some (dst ++ writeExtra ex req) := by
  unfold extra_appendJSONExtra
  cases ex with
  | none => cases req <;> simp [writeExtra, bufLit_eq]
  | some e =>
    obtain ⟨hp, hl⟩ := h
    have hm : (mopsR gj rp rec).tExtra_members e = e.members := rfl
    have hs : (mopsR gj rp rec).strSlice = strSlice := rfl
    have hlen : (mopsR gj rp rec).strLen e.members = (e.members.length : Int) := rfl
    have hg : (mopsR gj rp rec).jResult_Exists ((mopsR gj rp rec).gjsonGet e.members "properties") = e.hasProps := by
      rw [hp]; rfl
    simp only [hm, hs, hlen, hg, writeExtra]
    by_cases hne : e.members = ""
    · simp only [hne, bne_self_eq_false, Bool.false_eq_true, if_false]
      cases req <;> simp [bufLit_eq]
    · have h2 : 2 ≤ e.members.length := by have := length_pos_of_ne_empty hne; omega
      have hb : (e.members != "") = true := by simpa using hne
      simp only [hb, if_true, strSlice_strip h2, Option.bind_some, bufByte_eq, bufLit_eq]
      have hstr : ∀ a b : String, (mopsR gj rp rec).bufStr a b = a ++ b := fun _ _ => rfl
      cases req <;> cases e.hasProps <;>
        simp only [hstr, Bool.false_eq_true, if_false, if_true, Bool.not_false, Bool.not_true, Bool.and_true,
          Bool.and_false, Option.bind_some, Option.some.injEq] <;> str_eq'

/-- on a 1-character `members` the Go code panics (`members[1:0]`); the hand model `writeExtra`
    is total.  Not reachable through Parse / NewFeature (members is "" or a `{…}` text). -/
theorem appendJSONExtra_panic (gj : GJ) (rp : Poly) (rec : Obj → String → Option String) (e : Extra) (dst : String) (req : Bool)
    (h : e.members.length = 1) :
    extra_appendJSONExtra (mopsR gj rp rec) (some e) dst req = none := by
  unfold extra_appendJSONExtra
  have hm : (mopsR gj rp rec).tExtra_members e = e.members := rfl
  have hs : (mopsR gj rp rec).strSlice = strSlice := rfl
  have hlen : (mopsR gj rp rec).strLen e.members = (e.members.length : Int) := rfl
  have hne : (e.members != "") = true := by
    simp only [bne_iff_ne, ne_eq]; intro h0; rw [h0] at h; simp at h
  simp only [hm, hs, hlen, hne, if_true, strSlice_one h, Option.bind_none]

/-! ### appendJSONSeries -/

theorem series_loop (gj : GJ) (rp : Poly) (rec : Obj → String → Option String) (poss : List Pos) (ex : Option Extra) :
    ∀ (rest : List Pos) (k pidx : Nat) (dst : String), poss.drop k = rest →
    loopM (fun (x' : Int) (st' : String × Int) =>
        let i : Int := x'
        let dst : String := st'.1
        let pidx : Int := st'.2
        Option.bind (if decide (i > 0) then
            let dst : String := (mopsR gj rp rec).bufByte dst ','
            some dst
          else
            some dst) fun (j'1 : String) =>
        let dst : String := j'1
        Option.bind (appendJSONPoint (mopsR gj rp rec) dst ((mopsR gj rp rec).gSeries_PointAt poss i) ex pidx) fun (dst : String) =>
        let pidx : Int := pidx + 1
        some (dst, pidx)) (intRange (k : Int) ((k : Int) + (rest.length : Nat))) (dst, (pidx : Int))
      = (writeSeries.go ex rest pidx).map (fun parts =>
          (dst ++ (if k = 0 then cj parts else cjTail parts), ((pidx + rest.length : Nat) : Int))) := by
  generalize hb : (fun (x' : Int) (st' : String × Int) => _) = body
  have hstep : ∀ (k pidx : Nat) (dst : String) (p : Pos), poss[k]? = some p →
      body (k : Int) (dst, (pidx : Int)) =
        (writePos p ex pidx).map (fun t => (dst ++ (if k = 0 then "" else ",") ++ t, ((pidx + 1 : Nat) : Int))) := by
    intro k pidx dst p hp
    subst hb
    have hpt : (mopsR gj rp rec).gSeries_PointAt poss (k : Int) = p := by
      show poss.getD (k : Int).toNat default = p
      rw [Int.toNat_natCast, List.getD_eq_getElem?_getD, hp]; rfl
    simp only [hpt]
    by_cases hk : k = 0
    · subst hk
      simp only [Int.natCast_zero, gt_iff_lt, Int.lt_irrefl, decide_false, Bool.false_eq_true, if_false, Option.bind_some,
        appendJSONPoint_eq, if_true]
      cases writePos p ex pidx with
      | none => rfl
      | some t => simp only [Option.map_some, Option.bind_some, Int.natCast_add, Int.natCast_one, String.append_empty]
    · have hpos : ((k : Int) > 0) := by omega
      simp only [hpos, decide_true, if_true, Option.bind_some, appendJSONPoint_eq, hk, if_false, bufByte_eq]
      cases writePos p ex pidx with
      | none => rfl
      | some t =>
        simp only [Option.map_some, Option.bind_some, Int.natCast_add, Int.natCast_one, Option.some.injEq, Prod.mk.injEq,
          and_true]
        str_eq'
  clear hb
  intro rest
  induction rest with
  | nil =>
    intro k pidx dst _
    simp only [List.length_nil, Int.natCast_zero, Int.add_zero, intRange_zero, loopM_nil, writeSeries.go, Option.map_some,
      Nat.add_zero, cj, cjTail_nil, ite_self, String.append_empty]
  | cons p rest ih =>
    intro k pidx dst hr
    have hp : poss[k]? = some p := by
      have := List.getElem?_drop (xs := poss) (i := k) (j := 0)
      rw [hr] at this; simpa using this.symm
    have hr' : poss.drop (k + 1) = rest := by
      rw [← List.drop_drop, hr]; rfl
    rw [List.length_cons, intRange_succ, loopM_cons, hstep k pidx dst p hp, writeSeries.go]
    cases writePos p ex pidx with
    | none => rfl
    | some t =>
      simp only [Option.map_some, Option.bind_some, Option.bind_eq_bind]
      have := ih (k + 1) (pidx + 1) (dst ++ (if k = 0 then "" else ",") ++ t) hr'
      simp only [Int.natCast_add, Int.natCast_one] at this
      simp only [Int.natCast_add, Int.natCast_one, this]
      cases writeSeries.go ex rest (pidx + 1) with
      | none => rfl
      | some parts =>
        simp only [Option.map_some, Option.pure_def, Option.bind_some, Option.some.injEq, Prod.mk.injEq,
          Nat.succ_ne_zero, if_false]
        constructor
        · by_cases hk : k = 0
          · simp only [hk, if_true, cj_cons]; str_eq'
          · simp only [hk, if_false, cjTail_cons]; str_eq'
        · omega

theorem series_loop0 (gj : GJ) (rp : Poly) (rec : Obj → String → Option String) (poss : List Pos) (ex : Option Extra) (pidx : Nat) (dst : String) :
    loopM (fun (x' : Int) (st' : String × Int) =>
        let i : Int := x'
        let dst : String := st'.1
        let pidx : Int := st'.2
        Option.bind (if decide (i > 0) then
            let dst : String := (mopsR gj rp rec).bufByte dst ','
            some dst
          else
            some dst) fun (j'1 : String) =>
        let dst : String := j'1
        Option.bind (appendJSONPoint (mopsR gj rp rec) dst ((mopsR gj rp rec).gSeries_PointAt poss i) ex pidx) fun (dst : String) =>
        let pidx : Int := pidx + 1
        some (dst, pidx)) (intRange 0 ((mopsR gj rp rec).gSeries_NumPoints poss)) (dst, (pidx : Int))
      = (writeSeries.go ex poss pidx).map (fun parts => (dst ++ cj parts, ((pidx + poss.length : Nat) : Int))) := by
  have h := series_loop gj rp rec poss ex poss 0 pidx dst rfl
  simp only [Int.natCast_zero, Int.zero_add, if_true] at h
  exact h

theorem appendJSONSeries_eq (gj : GJ) (rp : Poly) (rec : Obj → String → Option String) (dst : String) (poss : List Pos) (ex : Option Extra) (pidx : Nat) :
    appendJSONSeries (mopsR gj rp rec) dst poss ex (pidx : Int) =
      (writeSeries poss ex pidx).map (fun r => (dst ++ r.1, (r.2 : Int))) := by
  unfold appendJSONSeries
  simp only [series_loop0, writeSeries, intercalate_eq_cj]
  cases writeSeries.go ex poss pidx with
  | none => rfl
  | some parts =>
    simp only [Option.map_some, Option.bind_some, Option.bind_eq_bind, Option.pure_def, Option.some.injEq, Prod.mk.injEq,
      and_true, bufByte_eq]
    str_eq'

/-! ### the leaf kinds -/

theorem appendJSONPoint_eq0 (gj : GJ) (rp : Poly) (rec : Obj → String → Option String) (dst : String) (pos : Pos) (ex : Option Extra) :
    appendJSONPoint (mopsR gj rp rec) dst pos ex 0 = (writePos pos ex 0).map (dst ++ ·) := by
  simpa using appendJSONPoint_eq gj rp rec dst pos ex 0

theorem appendJSONSeries_eq0 (gj : GJ) (rp : Poly) (rec : Obj → String → Option String) (dst : String) (poss : List Pos) (ex : Option Extra) :
    appendJSONSeries (mopsR gj rp rec) dst poss ex 0 =
      (writeSeries poss ex 0).map (fun r => (dst ++ r.1, (r.2 : Int))) := by
  simpa using appendJSONSeries_eq gj rp rec dst poss ex 0

theorem Point_AppendJSON_eq (gj : GJ) (rp : Poly) (rec : Obj → String → Option String) (pos : Pos) (ex : Option Extra) (dst : String)
    (h : ExOK gj ex) :
    Point_AppendJSON (mopsR gj rp rec) (pos, ex) dst = (write (.point pos ex)).map (dst ++ ·) := by
  unfold Point_AppendJSON
  have h1 : (mopsR gj rp rec).tPoint_base (pos, ex) = pos := rfl
  have h2 : (mopsR gj rp rec).tPoint_extra (pos, ex) = ex := rfl
  simp only [h1, h2, appendJSONPoint_eq0, write, bufLit_eq, bufByte_eq]
  cases writePos pos ex 0 with
  | none => rfl
  | some c =>
    simp only [Option.map_some, Option.bind_some, Option.bind_eq_bind, Option.pure_def, appendJSONExtra_eq gj rp rec ex _ _ h,
      Option.some.injEq]
    str_eq'

theorem SimplePoint_AppendJSON_eq (gj : GJ) (rp : Poly) (rec : Obj → String → Option String) (pos : Pos) (dst : String) :
    SimplePoint_AppendJSON (mopsR gj rp rec) pos dst = (write (.spoint pos)).map (dst ++ ·) := by
  unfold SimplePoint_AppendJSON
  have h1 : (mopsR gj rp rec).tSimplePoint_Point pos = pos := rfl
  simp only [h1, appendJSONPoint_eq0, write, bufLit_eq, bufByte_eq]
  cases writePos pos none 0 with
  | none => rfl
  | some c =>
    simp only [Option.map_some, Option.bind_some, Option.bind_eq_bind, Option.pure_def, Option.some.injEq]
    str_eq'

/-- `if g.extra != nil { dst = g.extra.appendJSONExtra(dst, false) }` -/
theorem guarded_extra (gj : GJ) (rp : Poly) (rec : Obj → String → Option String) (ex : Option Extra) (dst : String) (h : ExOK gj ex) :
    (if Option.isSome ex then
      Option.bind (extra_appendJSONExtra (mopsR gj rp rec) ex dst false) fun (dst : String) => some dst
    else some dst) = some (dst ++ writeExtra ex false) := by
  cases ex with
  | none => simp [writeExtra]
  | some e => simp only [Option.isSome_some, if_true, appendJSONExtra_eq gj rp rec _ _ _ h, Option.bind_some]

theorem LineString_AppendJSON_eq (gj : GJ) (rp : Poly) (rec : Obj → String → Option String) (l : Line) (poss : List Pos) (ex : Option Extra)
    (dst : String) (h : ExOK gj ex) :
    LineString_AppendJSON (mopsR gj rp rec) (poss, ex) dst = (write (.lineString l poss ex)).map (dst ++ ·) := by
  unfold LineString_AppendJSON
  have h1 : (mopsR gj rp rec).gSeries_ofGLine ((mopsR gj rp rec).tLineString_base (poss, ex)) = poss := rfl
  have h2 : (mopsR gj rp rec).tLineString_extra (poss, ex) = ex := rfl
  simp only [h1, h2, appendJSONSeries_eq0, write, bufLit_eq, bufByte_eq]
  cases writeSeries poss ex 0 with
  | none => rfl
  | some c =>
    simp only [Option.map_some, Option.bind_some, Option.bind_eq_bind, Option.pure_def, guarded_extra gj rp rec ex _ h,
      Option.some.injEq]
    str_eq'

theorem writeSeries_idx {r : List Pos} {ex : Option Extra} {pidx : Nat} {q : String × Nat}
    (h : writeSeries r ex pidx = some q) : q.2 = pidx + r.length := by
  simp only [writeSeries] at h
  cases hg : writeSeries.go ex r pidx with
  | none => simp [hg] at h
  | some parts => simp [hg] at h; rw [← h]

/-- the holes loop of Polygon.AppendJSON -/
theorem holes_loop (gj : GJ) (rp : Poly) (rec : Obj → String → Option String) (ex : Option Extra) : ∀ (holes : List (List Pos)) (pidx : Nat) (dst : String),
    loopM (fun (x' : List Pos) (st' : String × Int) =>
        let hole : List Pos := x'
        let dst : String := st'.1
        let pidx : Int := st'.2
        let dst : String := (mopsR gj rp rec).bufByte dst ','
        Option.bind (appendJSONSeries (mopsR gj rp rec) dst hole ex pidx) fun (r'2 : String × Int) =>
        let dst : String := r'2.1
        let pidx : Int := r'2.2
        some (dst, pidx)) holes (dst, (pidx : Int))
      = (writeRings.go ex holes pidx).map (fun parts =>
          (dst ++ cjTail parts, ((pidx + (holes.map List.length).sum : Nat) : Int))) := by
  generalize hb : (fun (x' : List Pos) (st' : String × Int) => _) = body
  have hstep : ∀ (r : List Pos) (pidx : Nat) (dst : String),
      body r (dst, (pidx : Int)) = (writeSeries r ex pidx).map (fun q => (dst ++ "," ++ q.1, (q.2 : Int))) := by
    intro r pidx dst
    subst hb
    simp only [appendJSONSeries_eq, bufByte_eq]
    cases writeSeries r ex pidx with
    | none => rfl
    | some q =>
      simp only [Option.map_some, Option.bind_some, Option.some.injEq, Prod.mk.injEq, and_true]
      str_eq'
  clear hb
  intro holes
  induction holes with
  | nil => intro pidx dst; simp [loopM_nil, writeRings.go, cjTail_nil]
  | cons r rs ih =>
    intro pidx dst
    rw [loopM_cons, hstep, writeRings.go]
    cases hq : writeSeries r ex pidx with
    | none => rfl
    | some q =>
      obtain ⟨t, n⟩ := q
      have hn : n = pidx + r.length := writeSeries_idx hq
      simp only [Option.map_some, Option.bind_some, Option.bind_eq_bind, ih]
      cases writeRings.go ex rs n with
      | none => rfl
      | some parts =>
        simp only [Option.map_some, Option.pure_def, Option.bind_some, Option.some.injEq, Prod.mk.injEq, cjTail_cons,
          List.map_cons, List.sum_cons]
        constructor
        · str_eq'
        · omega

/-- `holes_loop` with the `let`s of the body reduced (the form `simp only` leaves) -/
theorem holes_loop_z (gj : GJ) (rp : Poly) (rec : Obj → String → Option String) (ex : Option Extra) (holes : List (List Pos)) (pidx : Nat) (dst : String) :
    loopM (fun (x' : List Pos) (st' : String × Int) =>
        Option.bind (appendJSONSeries (mopsR gj rp rec) ((mopsR gj rp rec).bufByte st'.1 ',') x' ex st'.2)
          fun (r'2 : String × Int) => some (r'2.1, r'2.2)) holes (dst, (pidx : Int))
      = (writeRings.go ex holes pidx).map (fun parts =>
          (dst ++ cjTail parts, ((pidx + (holes.map List.length).sum : Nat) : Int))) :=
  holes_loop gj rp rec ex holes pidx dst

theorem Polygon_AppendJSON_eq (gj : GJ) (rp : Poly) (rec : Obj → String → Option String) (poly : Poly) (rings : List (List Pos)) (ex : Option Extra)
    (dst : String) (h : ExOK gj ex) (hr : poly.empty = false → rings ≠ []) :
    Polygon_AppendJSON (mopsR gj rp rec) ((poly, rings), ex) dst = (write (.polygon poly rings ex)).map (dst ++ ·) := by
  unfold Polygon_AppendJSON
  have h1 : (mopsR gj rp rec).gPoly_Empty ((mopsR gj rp rec).tPolygon_base ((poly, rings), ex)) = poly.empty := rfl
  have h2 : (mopsR gj rp rec).tPolygon_extra ((poly, rings), ex) = ex := rfl
  have h3 : (mopsR gj rp rec).gPoly_Exterior ((mopsR gj rp rec).tPolygon_base ((poly, rings), ex)) = rings.headD [] := rfl
  have h4 : (mopsR gj rp rec).gPoly_Holes ((mopsR gj rp rec).tPolygon_base ((poly, rings), ex)) = rings.tail := rfl
  simp only [h1, h2, h3, h4, write, guarded_extra gj rp rec ex _ h, Option.bind_some]
  cases he : poly.empty with
  | true =>
    simp only [Bool.not_true, Bool.false_eq_true, if_false, if_true, Option.bind_some, Option.bind_eq_bind,
      Option.pure_def, Option.map_some, Option.some.injEq, bufLit_eq, bufByte_eq]
    str_eq'
  | false =>
    obtain ⟨r, rs, rfl⟩ : ∃ r rs, rings = r :: rs := by
      cases rings with
      | nil => exact absurd rfl (hr he)
      | cons r rs => exact ⟨r, rs, rfl⟩
    simp only [Bool.not_false, if_true, Bool.false_eq_true, if_false, List.headD_cons, List.tail_cons,
      appendJSONSeries_eq0, writeRings, writeRings.go, intercalate_eq_cj]
    cases hq : writeSeries r ex 0 with
    | none => rfl
    | some q =>
      obtain ⟨t, n⟩ := q
      simp only [Option.map_some, Option.bind_some, Option.bind_eq_bind, holes_loop_z]
      cases writeRings.go ex rs n with
      | none => rfl
      | some parts =>
        simp only [Option.map_some, Option.pure_def, Option.bind_some, Option.some.injEq, cj_cons, bufLit_eq, bufByte_eq]
        str_eq'

theorem Rect_AppendJSON_eq (gj : GJ) (rp : Poly) (rec : Obj → String → Option String) (b : Box) (lo hi : Pos) (dst : String)
    (hrp : rp.empty = false)
    (hrec : ∀ d, rec (.polygon rp [rectRing lo hi] none) d = (write (.polygon rp [rectRing lo hi] none)).map (d ++ ·)) :
    Rect_AppendJSON (mopsR gj rp rec) (b, lo, hi) dst = (write (.rectO b lo hi)).map (dst ++ ·) := by
  unfold Rect_AppendJSON
  show rec (.polygon rp [rectRing lo hi] none) dst = _
  rw [hrec]
  simp only [write, hrp, Bool.false_eq_true, if_false, writeExtra]
  cases writeRings [rectRing lo hi] none with
  | none => rfl
  | some c =>
    simp only [Option.bind_some, Option.bind_eq_bind, Option.pure_def, Option.map_some, Option.some.injEq]
    str_eq'

/-! ### Feature, Circle, the bare collection -/

theorem rec_eq (gj : GJ) (rp : Poly) (rec : Obj → String → Option String) (o : Obj) (dst : String) :
    (mopsR gj rp rec).rec_AppendJSON o dst = rec o dst := rfl

theorem Feature_AppendJSON_eq (gj : GJ) (rp : Poly) (rec : Obj → String → Option String) (base : Obj) (ex : Option Extra)
    (dst : String) (h : ExOK gj ex) (hrec : ∀ d, rec base d = (write base).map (d ++ ·)) :
    Feature_AppendJSON (mopsR gj rp rec) (base, ex) dst = (write (.feature base ex)).map (dst ++ ·) := by
  unfold Feature_AppendJSON
  have h1 : (mopsR gj rp rec).tFeature_base (base, ex) = base := rfl
  have h2 : (mopsR gj rp rec).tFeature_extra (base, ex) = ex := rfl
  simp only [h1, h2, rec_eq, hrec, write, bufLit_eq, bufByte_eq]
  cases write base with
  | none => rfl
  | some c =>
    simp only [Option.map_some, Option.bind_some, Option.bind_eq_bind, Option.pure_def, appendJSONExtra_eq gj rp rec ex _ _ h,
      Option.some.injEq]
    str_eq'

theorem Circle_AppendJSON_eq (gj : GJ) (rp : Poly) (rec : Obj → String → Option String) (c : Pos) (radius : String) (dst : String) :
    Circle_AppendJSON (mopsR gj rp rec) (c, radius) dst = (write (.circle c radius)).map (dst ++ ·) := by
  unfold Circle_AppendJSON
  simp only [appendJSONFloat_eq, Option.bind_some, write, bufLit_eq, bufByte_eq, Option.map_some, Option.some.injEq]
  simp only [mopsR]
  str_eq'

theorem collection_AppendJSON_eq (gj : GJ) (rp : Poly) (rec : Obj → String → Option String) (g : MColl) (dst : String) :
    collection_AppendJSON (mopsR gj rp rec) g dst = some (dst ++ "null") := rfl

/-! ### GeometryCollection, FeatureCollection: `for i := 0; i < len(g.children); i++` -/

theorem children_loop (gj : GJ) (rp : Poly) (rec : Obj → String → Option String) (cs : List Obj)
    (hrec : ∀ c ∈ cs, ∀ d, rec c d = (write c).map (d ++ ·)) :
    ∀ (rest : List Obj) (k : Nat) (dst : String), cs.drop k = rest →
    loopM (fun (x' : Int) (st' : String) =>
        let i : Int := x'
        let dst : String := st'
        Option.bind (if decide (i > 0) then
            let dst : String := (mopsR gj rp rec).bufByte dst ','
            some dst
          else
            some dst) fun (j'1 : String) =>
        let dst : String := j'1
        Option.bind (sliceAt cs i) fun (e'2 : Obj) =>
        Option.bind ((mopsR gj rp rec).rec_AppendJSON e'2 dst) fun (dst : String) =>
        some dst) (intRange (k : Int) ((k : Int) + (rest.length : Nat))) dst
      = (writeAll rest).map (fun parts => dst ++ (if k = 0 then cj parts else cjTail parts)) := by
  generalize hb : (fun (x' : Int) (st' : String) => _) = body
  have hstep : ∀ (k : Nat) (dst : String) (c : Obj), cs[k]? = some c →
      body (k : Int) dst = (write c).map (fun t => dst ++ (if k = 0 then "" else ",") ++ t) := by
    intro k dst c hc
    subst hb
    have hs : sliceAt cs (k : Int) = some c := by
      have hneg : ¬ ((k : Int) < 0) := by omega
      simp only [sliceAt, hneg, if_false, Int.toNat_natCast, hc]
    simp only [hs, Option.bind_some, rec_eq, hrec c (List.mem_of_getElem? hc)]
    by_cases hk : k = 0
    · subst hk
      simp only [Int.natCast_zero, gt_iff_lt, Int.lt_irrefl, decide_false, Bool.false_eq_true, if_false, Option.bind_some,
        if_true, String.append_empty]
      cases write c <;> rfl
    · have hpos : ((k : Int) > 0) := by omega
      simp only [hpos, decide_true, if_true, Option.bind_some, hk, if_false, bufByte_eq]
      cases write c with
      | none => rfl
      | some t => simp only [Option.map_some, Option.bind_some, Option.some.injEq]; str_eq'
  clear hb
  intro rest
  induction rest with
  | nil =>
    intro k dst _
    simp only [List.length_nil, Int.natCast_zero, Int.add_zero, intRange_zero, loopM_nil, writeAll, Option.map_some,
      cj, cjTail_nil, ite_self, String.append_empty]
  | cons c rest ih =>
    intro k dst hr
    have hc : cs[k]? = some c := by
      have := List.getElem?_drop (xs := cs) (i := k) (j := 0)
      rw [hr] at this; simpa using this.symm
    have hr' : cs.drop (k + 1) = rest := by
      rw [← List.drop_drop, hr]; rfl
    rw [List.length_cons, intRange_succ, loopM_cons, hstep k dst c hc, writeAll]
    cases write c with
    | none => rfl
    | some t =>
      simp only [Option.map_some, Option.bind_some, Option.bind_eq_bind]
      have := ih (k + 1) (dst ++ (if k = 0 then "" else ",") ++ t) hr'
      simp only [Int.natCast_add, Int.natCast_one] at this
      simp only [this]
      cases writeAll rest with
      | none => rfl
      | some parts =>
        simp only [Option.map_some, Option.pure_def, Option.bind_some, Option.some.injEq, Nat.succ_ne_zero, if_false]
        by_cases hk : k = 0
        · simp only [hk, if_true, cj_cons]; str_eq'
        · simp only [hk, if_false, cjTail_cons]; str_eq'

theorem children_loop0 (gj : GJ) (rp : Poly) (rec : Obj → String → Option String) (cs : List Obj) (dst : String)
    (hrec : ∀ c ∈ cs, ∀ d, rec c d = (write c).map (d ++ ·)) :
    loopM (fun (x' : Int) (st' : String) =>
        let i : Int := x'
        let dst : String := st'
        Option.bind (if decide (i > 0) then
            let dst : String := (mopsR gj rp rec).bufByte dst ','
            some dst
          else
            some dst) fun (j'1 : String) =>
        let dst : String := j'1
        Option.bind (sliceAt cs i) fun (e'2 : Obj) =>
        Option.bind ((mopsR gj rp rec).rec_AppendJSON e'2 dst) fun (dst : String) =>
        some dst) (intRange 0 (Int.ofNat (List.length cs))) dst
      = (writeAll cs).map (fun parts => dst ++ cj parts) := by
  have h := children_loop gj rp rec cs hrec cs 0 dst rfl
  simp only [Int.natCast_zero, Int.zero_add, if_true] at h
  exact h

theorem GeometryCollection_AppendJSON_eq (gj : GJ) (rp : Poly) (rec : Obj → String → Option String) (cs : List Obj) (ex : Option Extra) (idx : Bool)
    (dst : String) (h : ExOK gj ex) (hrec : ∀ c ∈ cs, ∀ d, rec c d = (write c).map (d ++ ·)) :
    GeometryCollection_AppendJSON (mopsR gj rp rec) (cs, ex) dst =
      (write (.coll .geometryCollection cs ex idx)).map (dst ++ ·) := by
  unfold GeometryCollection_AppendJSON
  have h1 : (mopsR gj rp rec).tCollection_children ((mopsR gj rp rec).tGeometryCollection_collection (cs, ex)) = cs := rfl
  have h2 : (mopsR gj rp rec).tCollection_extra ((mopsR gj rp rec).tGeometryCollection_collection (cs, ex)) = ex := rfl
  simp only [h1, children_loop0 gj rp rec cs _ hrec]
  simp only [h2, write_coll, writeParts, guarded_extra gj rp rec ex _ h, Option.bind_some]
  cases writeAll cs with
  | none => rfl
  | some parts =>
    simp only [Option.map_some, Option.bind_some, Option.some.injEq, objText, CollKind.typeName, collKey, bufLit_eq,
      bufByte_eq]
    str_eq'

theorem FeatureCollection_AppendJSON_eq (gj : GJ) (rp : Poly) (rec : Obj → String → Option String) (cs : List Obj) (ex : Option Extra) (idx : Bool)
    (dst : String) (h : ExOK gj ex) (hrec : ∀ c ∈ cs, ∀ d, rec c d = (write c).map (d ++ ·)) :
    FeatureCollection_AppendJSON (mopsR gj rp rec) (cs, ex) dst =
      (write (.coll .featureCollection cs ex idx)).map (dst ++ ·) := by
  unfold FeatureCollection_AppendJSON
  have h1 : (mopsR gj rp rec).tCollection_children ((mopsR gj rp rec).tFeatureCollection_collection (cs, ex)) = cs := rfl
  have h2 : (mopsR gj rp rec).tCollection_extra ((mopsR gj rp rec).tFeatureCollection_collection (cs, ex)) = ex := rfl
  simp only [h1, children_loop0 gj rp rec cs _ hrec]
  simp only [h2, write_coll, writeParts, guarded_extra gj rp rec ex _ h, Option.bind_some]
  cases writeAll cs with
  | none => rfl
  | some parts =>
    simp only [Option.map_some, Option.bind_some, Option.some.injEq, objText, CollKind.typeName, collKey, bufLit_eq,
      bufByte_eq]
    str_eq'

/-! ### MultiPoint, MultiLineString, MultiPolygon: `for i, g := range g.children` with
     `gjson.GetBytes(g.AppendJSON(nil), "coordinates").String()` -/

/-- the gjson contract for the children of a Multi* collection: the "coordinates" member of the
    text a child writes is the child's coordinates text (in particular the child is a geometry
    with coordinates whenever it can be written at all) -/
def GJCoords (gj : GJ) (cs : List Obj) : Prop :=
  ∀ c ∈ cs, ∀ t, write c = some t → writeCoords c = some (gj.str t "coordinates")

theorem writeCoords_none_of_write_none : ∀ (c : Obj), write c = none → writeCoords c = none
  | .point pos ex, h => by rw [write_point] at h; simpa using h
  | .spoint pos, h => by rw [write_spoint] at h; simpa using h
  | .lineString l poss ex, h => by rw [write_lineString] at h; simpa using h
  | .polygon p rings ex, h => by rw [write_polygon] at h; simpa using h
  | .rectO b lo hi, h => by rw [write_rectO] at h; simpa using h
  | .coll _ _ _ _, _ => by simp [writeCoords]
  | .feature _ _, _ => by simp [writeCoords]
  | .circle _ _, _ => by simp [writeCoords]

theorem multi_loop (gj : GJ) (rp : Poly) (rec : Obj → String → Option String) :
    ∀ (rest : List Obj) (k : Nat) (dst : String), GJCoords gj rest →
    (∀ c ∈ rest, ∀ d, rec c d = (write c).map (d ++ ·)) →
    loopM (fun (x' : Int × Obj) (st' : String) =>
        let i : Int := x'.1
        let g : Obj := x'.2
        let dst : String := st'
        Option.bind (if decide (i > 0) then
            let dst : String := (mopsR gj rp rec).bufByte dst ','
            some dst
          else
            some dst) fun (j'1 : String) =>
        let dst : String := j'1
        Option.bind ((mopsR gj rp rec).rec_AppendJSON g (mopsR gj rp rec).bufNil) fun (r'2 : String) =>
        let dst : String := (mopsR gj rp rec).bufStr dst ((mopsR gj rp rec).jResult_String ((mopsR gj rp rec).gjsonGetBytes r'2 "coordinates"))
        some dst) ((intRange (k : Int) ((k : Int) + (rest.length : Nat))).zip rest) dst
      = (writeAllCoords rest).map (fun parts => dst ++ (if k = 0 then cj parts else cjTail parts)) := by
  generalize hb : (fun (x' : Int × Obj) (st' : String) => _) = body
  have hstep : ∀ (k : Nat) (dst : String) (c : Obj), (∀ d, rec c d = (write c).map (d ++ ·)) →
      body ((k : Int), c) dst =
        (write c).map (fun t => dst ++ (if k = 0 then "" else ",") ++ gj.str t "coordinates") := by
    intro k dst c hrc
    subst hb
    have hrec : (mopsR gj rp rec).rec_AppendJSON c (mopsR gj rp rec).bufNil = write c := by
      rw [rec_eq, hrc]; show (write c).map ("" ++ ·) = _
      cases write c with
      | none => rfl
      | some t => simp only [Option.map_some, String.empty_append]
    have hget : ∀ r : String, (mopsR gj rp rec).jResult_String ((mopsR gj rp rec).gjsonGetBytes r "coordinates") =
        gj.str r "coordinates" := fun _ => rfl
    have hstr : ∀ a b : String, (mopsR gj rp rec).bufStr a b = a ++ b := fun _ _ => rfl
    simp only [hrec, hget, hstr]
    by_cases hk : k = 0
    · subst hk
      simp only [Int.natCast_zero, gt_iff_lt, Int.lt_irrefl, decide_false, Bool.false_eq_true, if_false, Option.bind_some,
        if_true, String.append_empty]
      cases write c <;> rfl
    · have hpos : ((k : Int) > 0) := by omega
      simp only [hpos, decide_true, if_true, Option.bind_some, hk, if_false, bufByte_eq]
      cases write c with
      | none => rfl
      | some t => simp only [Option.map_some, Option.bind_some, Option.some.injEq]; str_eq'
  clear hb
  intro rest
  induction rest with
  | nil =>
    intro k dst _ _
    simp only [List.length_nil, Int.natCast_zero, Int.add_zero, intRange_zero, List.zip_nil_left, loopM_nil,
      writeAllCoords, Option.map_some, cj, cjTail_nil, ite_self, String.append_empty]
  | cons c rest ih =>
    intro k dst hg hrc
    have hg' : GJCoords gj rest := fun c' hc' => hg c' (List.mem_cons_of_mem _ hc')
    have hrc' : ∀ c' ∈ rest, ∀ d, rec c' d = (write c').map (d ++ ·) := fun c' hc' => hrc c' (List.mem_cons_of_mem _ hc')
    rw [List.length_cons, intRange_succ, List.zip_cons_cons, loopM_cons, hstep k dst c (hrc c (List.mem_cons_self ..)),
      writeAllCoords]
    cases hw : write c with
    | none => rw [writeCoords_none_of_write_none c hw]; rfl
    | some t =>
      rw [hg c (List.mem_cons_self ..) t hw]
      simp only [Option.map_some, Option.bind_some, Option.bind_eq_bind]
      have := ih (k + 1) (dst ++ (if k = 0 then "" else ",") ++ gj.str t "coordinates") hg' hrc'
      simp only [Int.natCast_add, Int.natCast_one] at this
      simp only [this]
      cases writeAllCoords rest with
      | none => rfl
      | some parts =>
        simp only [Option.map_some, Option.pure_def, Option.bind_some, Option.some.injEq, Nat.succ_ne_zero, if_false]
        by_cases hk : k = 0
        · simp only [hk, if_true, cj_cons]; str_eq'
        · simp only [hk, if_false, cjTail_cons]; str_eq'

theorem multi_loop0 (gj : GJ) (rp : Poly) (rec : Obj → String → Option String) (cs : List Obj) (dst : String) (hg : GJCoords gj cs)
    (hrec : ∀ c ∈ cs, ∀ d, rec c d = (write c).map (d ++ ·)) :
    loopM (fun (x' : Int × Obj) (st' : String) =>
        let i : Int := x'.1
        let g : Obj := x'.2
        let dst : String := st'
        Option.bind (if decide (i > 0) then
            let dst : String := (mopsR gj rp rec).bufByte dst ','
            some dst
          else
            some dst) fun (j'1 : String) =>
        let dst : String := j'1
        Option.bind ((mopsR gj rp rec).rec_AppendJSON g (mopsR gj rp rec).bufNil) fun (r'2 : String) =>
        let dst : String := (mopsR gj rp rec).bufStr dst ((mopsR gj rp rec).jResult_String ((mopsR gj rp rec).gjsonGetBytes r'2 "coordinates"))
        some dst) (enumInt cs) dst
      = (writeAllCoords cs).map (fun parts => dst ++ cj parts) := by
  have h := multi_loop gj rp rec cs 0 dst hg hrec
  simp only [Int.natCast_zero, Int.zero_add, if_true] at h
  exact h

theorem MultiPoint_AppendJSON_eq (gj : GJ) (rp : Poly) (rec : Obj → String → Option String) (cs : List Obj) (ex : Option Extra) (idx : Bool)
    (dst : String) (h : ExOK gj ex) (hg : GJCoords gj cs)
    (hrec : ∀ c ∈ cs, ∀ d, rec c d = (write c).map (d ++ ·)) :
    MultiPoint_AppendJSON (mopsR gj rp rec) (cs, ex) dst =
      (write (.coll .multiPoint cs ex idx)).map (dst ++ ·) := by
  unfold MultiPoint_AppendJSON
  have h1 : (mopsR gj rp rec).tCollection_children ((mopsR gj rp rec).tMultiPoint_collection (cs, ex)) = cs := rfl
  have h2 : (mopsR gj rp rec).tCollection_extra ((mopsR gj rp rec).tMultiPoint_collection (cs, ex)) = ex := rfl
  simp only [h1, multi_loop0 gj rp rec cs _ hg hrec]
  simp only [h2, write_coll, writeParts, guarded_extra gj rp rec ex _ h, Option.bind_some]
  cases writeAllCoords cs with
  | none => rfl
  | some parts =>
    simp only [Option.map_some, Option.bind_some, Option.some.injEq, objText, CollKind.typeName, collKey, bufLit_eq,
      bufByte_eq]
    str_eq'

theorem MultiLineString_AppendJSON_eq (gj : GJ) (rp : Poly) (rec : Obj → String → Option String) (cs : List Obj) (ex : Option Extra) (idx : Bool)
    (dst : String) (h : ExOK gj ex) (hg : GJCoords gj cs)
    (hrec : ∀ c ∈ cs, ∀ d, rec c d = (write c).map (d ++ ·)) :
    MultiLineString_AppendJSON (mopsR gj rp rec) (cs, ex) dst =
      (write (.coll .multiLineString cs ex idx)).map (dst ++ ·) := by
  unfold MultiLineString_AppendJSON
  have h1 : (mopsR gj rp rec).tCollection_children ((mopsR gj rp rec).tMultiLineString_collection (cs, ex)) = cs := rfl
  have h2 : (mopsR gj rp rec).tCollection_extra ((mopsR gj rp rec).tMultiLineString_collection (cs, ex)) = ex := rfl
  simp only [h1, multi_loop0 gj rp rec cs _ hg hrec]
  simp only [h2, write_coll, writeParts, guarded_extra gj rp rec ex _ h, Option.bind_some]
  cases writeAllCoords cs with
  | none => rfl
  | some parts =>
    simp only [Option.map_some, Option.bind_some, Option.some.injEq, objText, CollKind.typeName, collKey, bufLit_eq,
      bufByte_eq]
    str_eq'

theorem MultiPolygon_AppendJSON_eq (gj : GJ) (rp : Poly) (rec : Obj → String → Option String) (cs : List Obj) (ex : Option Extra) (idx : Bool)
    (dst : String) (h : ExOK gj ex) (hg : GJCoords gj cs)
    (hrec : ∀ c ∈ cs, ∀ d, rec c d = (write c).map (d ++ ·)) :
    MultiPolygon_AppendJSON (mopsR gj rp rec) (cs, ex) dst =
      (write (.coll .multiPolygon cs ex idx)).map (dst ++ ·) := by
  unfold MultiPolygon_AppendJSON
  have h1 : (mopsR gj rp rec).tCollection_children ((mopsR gj rp rec).tMultiPolygon_collection (cs, ex)) = cs := rfl
  have h2 : (mopsR gj rp rec).tCollection_extra ((mopsR gj rp rec).tMultiPolygon_collection (cs, ex)) = ex := rfl
  simp only [h1, multi_loop0 gj rp rec cs _ hg hrec]
  simp only [h2, write_coll, writeParts, guarded_extra gj rp rec ex _ h, Option.bind_some]
  cases writeAllCoords cs with
  | none => rfl
  | some parts =>
    simp only [Option.map_some, Option.bind_some, Option.some.injEq, objText, CollKind.typeName, collKey, bufLit_eq,
      bufByte_eq]
    str_eq'

end Geo.WGlue
