package main

// writers: translates the JSON WRITERS of the root package of <repo> — the helpers of object.go
// whose name begins with `appendJSON` (functions and methods) and every method
// `AppendJSON(dst []byte) []byte` — into a Lean file (namespace Geo.WGen, core Lean only).
//
// The translation is purely syntactic (go/parser + go/ast with a small local type inference) and
// deterministic.  The generated definitions are PARAMETRISED by `ops : Ops …`: one type parameter
// per Go type met in the source ([]byte ↦ Buf, float64 ↦ F, a named struct / interface type ↦ a
// parameter named after it) and one field per distinct operation or callee found in the source
// (append ↦ bufLit / bufByte / bufStr / bufCat, len, slicing, field reads, calls of functions and
// methods that are not themselves translated, strconv / math / gjson / strings functions).
// Every translated function returns an `Option`: `none` = the Go code panics, on a slice index
// out of range (`xs[i]` ↦ sliceAt xs i, an explicit bounds check), a slice expression out of
// range (ops.strSlice / ops.bufSlice return an Option), a nil *T dereference, or a panic of a
// translated callee.  A call through an interface of a method that is itself translated here
// (child.AppendJSON(dst)) ↦ the field rec_<Method> : T → … → Option …, the dynamic dispatch
// supplied by the caller of the generated definition.
//
// Recognised subset:
//   * `x := e`, `x = e`, `x, y = f(…)`, `x op= e`, `x++`, `var x T`, expression statements;
//   * if / else-if / else; a condition is decomposed along `&&`, `||`, `!` as far as it contains a
//     nil test of a variable, `x != nil` ↦ match x with | some x => … | none => …; an `if` neither
//     arm of which returns is JOINED: Option.bind (if …) fun j' => … with j' the tuple of the outer
//     variables the arms assign; otherwise the following statements are copied into the arms;
//   * `for i := lo; i < hi; i++ {…}`, `for i := range xs`, `for _, x := range xs`,
//     `for i, x := range xs` ↦ loopM body list state (state = the outer variables the body
//     assigns); break / continue / return inside a loop are outside the subset;
//   * return (all results explicit).
// Whatever is not recognised is emitted as `opaque <name>_unrecognised : Unit` preceded by the
// reason; a function that calls an unrecognised function is unrecognised itself.

import (
	"bytes"
	"fmt"
	"go/ast"
	"go/parser"
	"go/printer"
	"go/token"
	"os"
	"path/filepath"
	"sort"
	"strconv"
	"strings"
	"unicode/utf8"
)

func init() { translators["writers"] = translateWriters }

// ---------------------------------------------------------------------------------------------
// types of the subset

type wrKind int

const (
	wrBad    wrKind = iota
	wrBuf           // []byte  -> Buf
	wrInt           // int, byte, … -> Int (unbounded)
	wrFloat         // float64 -> F
	wrString        // string  -> String
	wrBool          // bool    -> Bool
	wrChar          // a rune literal used as a byte -> Char
	wrNamed         // named struct / interface type -> a type parameter
	wrList          // []T     -> List T
	wrNil           // the literal nil
	wrTuple         // several results
	wrUnit
)

type wrTy struct {
	k     wrKind
	pkg   string // "" = root package, "geometry", "gjson"
	name  string
	opt   bool // nilable *T, not (yet) known to be non-nil -> Option
	iface bool
	elem  []wrTy // wrList: 1 element; wrTuple: the components
}

func (t wrTy) param() string {
	n := t.name
	switch t.pkg {
	case "":
		return "T" + strings.ToUpper(n[:1]) + n[1:]
	case "geometry":
		return "G" + strings.ToUpper(n[:1]) + n[1:]
	case "gjson":
		return "J" + n
	}
	return "X" + t.pkg + n
}

func (t wrTy) opPrefix() string { p := t.param(); return strings.ToLower(p[:1]) + p[1:] }

func (t wrTy) lean() string {
	switch t.k {
	case wrBuf:
		return "Buf"
	case wrInt:
		return "Int"
	case wrFloat:
		return "F"
	case wrString:
		return "String"
	case wrBool:
		return "Bool"
	case wrChar:
		return "Char"
	case wrUnit:
		return "Unit"
	case wrNamed:
		if t.opt {
			return "Option " + t.param()
		}
		return t.param()
	case wrList:
		return "List " + wrAtomTy(t.elem[0].lean())
	case wrTuple:
		parts := []string{}
		for _, e := range t.elem {
			parts = append(parts, wrAtomTy(e.lean()))
		}
		return strings.Join(parts, " × ")
	}
	return "?"
}

func wrAtomTy(s string) string {
	if strings.Contains(s, " ") {
		return "(" + s + ")"
	}
	return s
}

func (t wrTy) same(u wrTy) bool {
	if t.k != u.k || t.pkg != u.pkg || t.name != u.name || t.opt != u.opt || len(t.elem) != len(u.elem) {
		return false
	}
	for i := range t.elem {
		if !t.elem[i].same(u.elem[i]) {
			return false
		}
	}
	return true
}

func (t wrTy) goName() string {
	switch t.k {
	case wrNamed:
		s := t.name
		if t.pkg != "" {
			s = t.pkg + "." + s
		}
		if t.opt {
			s = "*" + s
		}
		return s
	case wrList:
		return "[]" + t.elem[0].goName()
	}
	return t.lean()
}

// ---------------------------------------------------------------------------------------------
// the parsed packages

type wrPkg struct {
	name    string
	fset    *token.FileSet
	files   map[string]*ast.File // base name -> file
	types   map[string]*ast.TypeSpec
	funcs   map[string]*ast.FuncDecl // "f" or "T.M"
	fileOf  map[*ast.FuncDecl]string
	relPath string // "" or "geometry/"
}

func wrLoad(dir, name, rel string) (*wrPkg, error) {
	p := &wrPkg{name: name, fset: token.NewFileSet(), files: map[string]*ast.File{},
		types: map[string]*ast.TypeSpec{}, funcs: map[string]*ast.FuncDecl{},
		fileOf: map[*ast.FuncDecl]string{}, relPath: rel}
	ents, err := os.ReadDir(dir)
	if err != nil {
		return nil, err
	}
	for _, e := range ents {
		n := e.Name()
		if e.IsDir() || !strings.HasSuffix(n, ".go") || strings.HasSuffix(n, "_test.go") {
			continue
		}
		f, err := parser.ParseFile(p.fset, filepath.Join(dir, n), nil, parser.ParseComments)
		if err != nil {
			return nil, err
		}
		if wrHasBuildTag(f) {
			continue
		}
		p.files[n] = f
		for _, d := range f.Decls {
			switch d := d.(type) {
			case *ast.GenDecl:
				for _, s := range d.Specs {
					if ts, ok := s.(*ast.TypeSpec); ok {
						p.types[ts.Name.Name] = ts
					}
				}
			case *ast.FuncDecl:
				key := d.Name.Name
				if d.Recv != nil && len(d.Recv.List) == 1 {
					key = wrRecvName(d.Recv.List[0].Type) + "." + key
				}
				p.funcs[key] = d
				p.fileOf[d] = n
			}
		}
	}
	return p, nil
}

// files with a //go:build line are left out (verif_export.go of the harness hook)
func wrHasBuildTag(f *ast.File) bool {
	for _, cg := range f.Comments {
		if cg.Pos() > f.Package {
			break
		}
		for _, c := range cg.List {
			if strings.HasPrefix(c.Text, "//go:build") || strings.HasPrefix(c.Text, "// +build") {
				return true
			}
		}
	}
	return false
}

func wrRecvName(e ast.Expr) string {
	switch e := e.(type) {
	case *ast.StarExpr:
		return wrRecvName(e.X)
	case *ast.Ident:
		return e.Name
	}
	return "?"
}

func (p *wrPkg) where(d *ast.FuncDecl) string {
	return fmt.Sprintf("%s%s:%d", p.relPath, p.fileOf[d], p.fset.Position(d.Pos()).Line)
}

func (p *wrPkg) whereNode(n ast.Node) string {
	pos := p.fset.Position(n.Pos())
	return fmt.Sprintf("%s%s:%d", p.relPath, filepath.Base(pos.Filename), pos.Line)
}

// the Go signature of a declaration, on one line
func (p *wrPkg) signature(d *ast.FuncDecl) string {
	cp := *d
	cp.Body = nil
	cp.Doc = nil
	var b bytes.Buffer
	printer.Fprint(&b, p.fset, &cp)
	return strings.Join(strings.Fields(b.String()), " ")
}

// ---------------------------------------------------------------------------------------------
// the translator state

type wrOp struct{ ty, doc string }

type wrFn struct {
	key, lean string
	decl      *ast.FuncDecl
	recv      string // receiver variable ("" for a function)
	recvTy    wrTy
	params    []wrVar
	res       wrTy // result (a tuple when several)
	text      string
	bad       string
	state     int // 0 new, 1 in progress, 2 done
}

type wrVar struct {
	name string
	ty   wrTy
	seq  int
}

type wrEnv map[string]wrVar

func (e wrEnv) with(name string, ty wrTy, seq int) wrEnv {
	n := wrEnv{}
	for k, v := range e {
		n[k] = v
	}
	n[name] = wrVar{name, ty, seq}
	return n
}

type wrT struct {
	root, geom *wrPkg
	fns        map[string]*wrFn
	order      []string // emission order (callees first)
	ops        map[string]wrOp
	tparams    map[string]string // type parameter -> doc
	recMethods map[string]bool   // names of the translated methods (dynamic dispatch -> rec_<M>)
}

// per-function context
type wrCtx struct {
	t       *wrT
	fn      *wrFn
	file    *ast.File
	ops     map[string]wrOp
	tps     map[string]string
	pending []wrBind
	ntmp    int
	nseq    int
}

type wrBind struct{ name, ty, expr string }

type wrErr struct{ msg string }

func (e *wrErr) Error() string { return e.msg }

func (c *wrCtx) errf(n ast.Node, f string, a ...interface{}) error {
	return &wrErr{fmt.Sprintf("%s: ", c.t.root.whereNode(n)) + fmt.Sprintf(f, a...)}
}

func (c *wrCtx) op(name, ty, doc string) (string, error) {
	for _, m := range []map[string]wrOp{c.ops, c.t.ops} {
		if o, ok := m[name]; ok && o.ty != ty {
			return "", &wrErr{fmt.Sprintf("operation %s used at two types: %s and %s", name, o.ty, ty)}
		}
	}
	c.ops[name] = wrOp{ty, doc}
	return "ops." + name, nil
}

func (c *wrCtx) useTy(t wrTy) {
	switch t.k {
	case wrNamed:
		doc := "Go type " + wrTy{k: wrNamed, pkg: t.pkg, name: t.name}.goName()
		if t.iface {
			doc += " (interface, taken to be non-nil)"
		}
		c.tps[t.param()] = doc
	case wrList, wrTuple:
		for _, e := range t.elem {
			c.useTy(e)
		}
	}
}

func (c *wrCtx) tmp(prefix string) string {
	c.ntmp++
	return fmt.Sprintf("%s'%d", prefix, c.ntmp)
}

// resolve a Go type expression written in package p
func (t *wrT) resolve(p *wrPkg, e ast.Expr) wrTy {
	switch e := e.(type) {
	case *ast.ParenExpr:
		return t.resolve(p, e.X)
	case *ast.Ident:
		switch e.Name {
		case "byte", "int", "int8", "int16", "int32", "int64", "uint", "uint8", "uint16", "uint32", "uint64":
			return wrTy{k: wrInt}
		case "float64":
			return wrTy{k: wrFloat}
		case "string":
			return wrTy{k: wrString}
		case "bool":
			return wrTy{k: wrBool}
		}
		ts, ok := p.types[e.Name]
		if !ok {
			return wrTy{}
		}
		switch u := ts.Type.(type) {
		case *ast.StructType:
			return wrTy{k: wrNamed, pkg: p.name, name: e.Name}
		case *ast.InterfaceType:
			return wrTy{k: wrNamed, pkg: p.name, name: e.Name, iface: true}
		default:
			_ = u
			return t.resolve(p, ts.Type) // alias or defined type over another type
		}
	case *ast.SelectorExpr:
		x, ok := e.X.(*ast.Ident)
		if !ok {
			return wrTy{}
		}
		switch x.Name {
		case "geometry":
			if p == t.root {
				return t.resolve(t.geom, e.Sel)
			}
		case "gjson":
			if e.Sel.Name == "Result" {
				return wrTy{k: wrNamed, pkg: "gjson", name: "Result"}
			}
		}
		return wrTy{}
	case *ast.StarExpr:
		u := t.resolve(p, e.X)
		if u.k == wrNamed && !u.iface && !u.opt {
			u.opt = true
			return u
		}
		return wrTy{}
	case *ast.ArrayType:
		if e.Len != nil {
			return wrTy{}
		}
		if id, ok := e.Elt.(*ast.Ident); ok && (id.Name == "byte" || id.Name == "uint8") {
			return wrTy{k: wrBuf}
		}
		u := t.resolve(p, e.Elt)
		if u.k == wrBad || u.k == wrList || u.opt {
			return wrTy{}
		}
		return wrTy{k: wrList, elem: []wrTy{u}}
	}
	return wrTy{}
}

func (t *wrT) pkgOf(ty wrTy) *wrPkg {
	switch ty.pkg {
	case "":
		return t.root
	case "geometry":
		return t.geom
	}
	return nil
}

// the fields of a struct type: name, type expression, embedded?
type wrField struct {
	name     string
	ty       ast.Expr
	embedded bool
}

func (t *wrT) fields(ty wrTy) []wrField {
	p := t.pkgOf(ty)
	if p == nil {
		return nil
	}
	ts, ok := p.types[ty.name]
	if !ok {
		return nil
	}
	st, ok := ts.Type.(*ast.StructType)
	if !ok {
		return nil
	}
	var out []wrField
	for _, f := range st.Fields.List {
		if len(f.Names) == 0 {
			n := ""
			switch x := f.Type.(type) {
			case *ast.Ident:
				n = x.Name
			case *ast.SelectorExpr:
				n = x.Sel.Name
			case *ast.StarExpr:
				n = wrRecvName(x.X)
			}
			out = append(out, wrField{n, f.Type, true})
			continue
		}
		for _, n := range f.Names {
			out = append(out, wrField{n.Name, f.Type, false})
		}
	}
	return out
}

// a Lean identifier for a Go variable
func wrIdent(s string) string {
	switch s {
	case "in", "end", "from", "at", "do", "then", "fun", "let", "have", "show", "with", "match", "if",
		"else", "open", "def", "by", "ops", "some", "none", "where", "deriving", "instance", "class",
		"structure", "namespace", "section", "variable", "universe", "import", "mutual", "theorem":
		return s + "_"
	}
	return s
}

func wrLeanStr(s string) (string, bool) {
	var b strings.Builder
	b.WriteByte('"')
	for len(s) > 0 {
		r, n := utf8.DecodeRuneInString(s)
		if r == utf8.RuneError && n <= 1 {
			return "", false
		}
		s = s[n:]
		b.WriteString(wrLeanRune(r, '"'))
	}
	b.WriteByte('"')
	return b.String(), true
}

func wrLeanRune(r rune, quote rune) string {
	switch {
	case r == quote || r == '\\':
		return "\\" + string(r)
	case r == '\n':
		return "\\n"
	case r == '\t':
		return "\\t"
	case r == '\r':
		return "\\r"
	case r < 0x20 || r == 0x7f:
		return fmt.Sprintf("\\x%02x", r)
	case r >= 0x80:
		return fmt.Sprintf("\\u{%x}", r)
	}
	return string(r)
}

// ---------------------------------------------------------------------------------------------
// expressions

type wrVal struct {
	s    string
	atom bool
	ty   wrTy
	lit  bool // a string literal (s is the Lean literal)
}

func (v wrVal) arg() string {
	if v.atom {
		return v.s
	}
	return "(" + v.s + ")"
}

// an effectful (Option-valued) expression: bound before the statement that uses it
func (c *wrCtx) bind(prefix, expr string, ty wrTy) wrVal {
	n := c.tmp(prefix)
	c.pending = append(c.pending, wrBind{n, ty.lean(), expr})
	return wrVal{s: n, atom: true, ty: ty}
}

// a nilable *T used where a T is needed: nil ↦ none (the nil dereference panics)
func (c *wrCtx) deref(v wrVal) wrVal {
	if v.ty.k == wrNamed && v.ty.opt {
		t := v.ty
		t.opt = false
		return c.bind("p", v.s, t)
	}
	return v
}

func (c *wrCtx) expr(e ast.Expr, env wrEnv) (wrVal, error) {
	switch e := e.(type) {
	case *ast.ParenExpr:
		return c.expr(e.X, env)
	case *ast.Ident:
		if v, ok := env[e.Name]; ok {
			return wrVal{s: wrIdent(e.Name), atom: true, ty: v.ty}, nil
		}
		switch e.Name {
		case "nil":
			return wrVal{s: "none", atom: true, ty: wrTy{k: wrNil}}, nil
		case "true", "false":
			return wrVal{s: e.Name, atom: true, ty: wrTy{k: wrBool}}, nil
		}
		return wrVal{}, c.errf(e, "identifier %s is not a local variable", e.Name)
	case *ast.BasicLit:
		switch e.Kind {
		case token.INT:
			n, err := strconv.ParseInt(e.Value, 0, 64)
			if err != nil {
				return wrVal{}, c.errf(e, "integer literal %s", e.Value)
			}
			return wrVal{s: strconv.FormatInt(n, 10), atom: true, ty: wrTy{k: wrInt}}, nil
		case token.STRING:
			u, err := strconv.Unquote(e.Value)
			if err != nil {
				return wrVal{}, c.errf(e, "string literal %s", e.Value)
			}
			s, ok := wrLeanStr(u)
			if !ok {
				return wrVal{}, c.errf(e, "string literal %s is not valid UTF-8", e.Value)
			}
			return wrVal{s: s, atom: true, ty: wrTy{k: wrString}, lit: true}, nil
		case token.CHAR:
			u, _, _, err := strconv.UnquoteChar(e.Value[1:len(e.Value)-1], '\'')
			if err != nil || u >= 0x80 {
				return wrVal{}, c.errf(e, "rune literal %s outside ASCII", e.Value)
			}
			return wrVal{s: "'" + wrLeanRune(u, '\'') + "'", atom: true, ty: wrTy{k: wrChar}}, nil
		}
		return wrVal{}, c.errf(e, "literal %s", e.Value)
	case *ast.UnaryExpr:
		x, err := c.expr(e.X, env)
		if err != nil {
			return wrVal{}, err
		}
		switch {
		case e.Op == token.NOT && x.ty.k == wrBool:
			return wrVal{s: "!" + x.arg(), ty: x.ty}, nil
		case e.Op == token.SUB && x.ty.k == wrInt:
			return wrVal{s: "-" + x.arg(), ty: x.ty}, nil
		case e.Op == token.AND && x.ty.k == wrNamed && !x.ty.opt && !x.ty.iface:
			return x, nil // &x.f: a non-nil pointer to a struct is the struct
		}
		return wrVal{}, c.errf(e, "unary %s on %s", e.Op, x.ty.goName())
	case *ast.BinaryExpr:
		return c.binary(e, env)
	case *ast.SelectorExpr:
		x, err := c.expr(e.X, env)
		if err != nil {
			return wrVal{}, err
		}
		return c.field(x, e.Sel.Name, e)
	case *ast.IndexExpr:
		x, err := c.expr(e.X, env)
		if err != nil {
			return wrVal{}, err
		}
		i, err := c.expr(e.Index, env)
		if err != nil {
			return wrVal{}, err
		}
		if x.ty.k != wrList || i.ty.k != wrInt {
			return wrVal{}, c.errf(e, "index of %s by %s", x.ty.goName(), i.ty.goName())
		}
		return c.bind("e", "sliceAt "+x.arg()+" "+i.arg(), x.ty.elem[0]), nil
	case *ast.SliceExpr:
		return c.slice(e, env)
	case *ast.CallExpr:
		return c.call(e, env)
	}
	return wrVal{}, c.errf(e, "expression %T", e)
}

func (c *wrCtx) binary(e *ast.BinaryExpr, env wrEnv) (wrVal, error) {
	x, err := c.expr(e.X, env)
	if err != nil {
		return wrVal{}, err
	}
	np := len(c.pending)
	y, err := c.expr(e.Y, env)
	if err != nil {
		return wrVal{}, err
	}
	bl := wrTy{k: wrBool}
	op := e.Op.String()
	if (e.Op == token.EQL || e.Op == token.NEQ) && (x.ty.k == wrNil || y.ty.k == wrNil) {
		if x.ty.k == wrNil {
			x, y = y, x
		}
		if x.ty.k != wrNamed || !x.ty.opt {
			return wrVal{}, c.errf(e, "nil test of %s", x.ty.goName())
		}
		if e.Op == token.EQL {
			return wrVal{s: "Option.isNone " + x.arg(), ty: bl}, nil
		}
		return wrVal{s: "Option.isSome " + x.arg(), ty: bl}, nil
	}
	if !x.ty.same(y.ty) {
		return wrVal{}, c.errf(e, "%s between %s and %s", op, x.ty.goName(), y.ty.goName())
	}
	switch e.Op {
	case token.LAND, token.LOR:
		if x.ty.k == wrBool {
			if len(c.pending) != np {
				return wrVal{}, c.errf(e, "the right operand of %s may panic (short-circuit evaluation is outside the subset)", op)
			}
			return wrVal{s: x.arg() + " " + op + " " + y.arg(), ty: bl}, nil
		}
	case token.ADD, token.SUB, token.MUL:
		if x.ty.k == wrInt {
			return wrVal{s: x.arg() + " " + op + " " + y.arg(), ty: x.ty}, nil
		}
	case token.QUO:
		if x.ty.k == wrInt {
			return wrVal{s: "Int.tdiv " + x.arg() + " " + y.arg(), ty: x.ty}, nil
		}
	case token.REM:
		if x.ty.k == wrInt {
			return wrVal{s: "Int.tmod " + x.arg() + " " + y.arg(), ty: x.ty}, nil
		}
	case token.EQL, token.NEQ:
		switch x.ty.k {
		case wrInt, wrString, wrBool, wrChar:
			return wrVal{s: x.arg() + " " + op + " " + y.arg(), ty: bl}, nil
		}
	case token.LSS, token.GTR, token.LEQ, token.GEQ:
		if x.ty.k == wrInt {
			return wrVal{s: "decide (" + x.arg() + " " + op + " " + y.arg() + ")", ty: bl}, nil
		}
	}
	if x.ty.k == wrFloat {
		names := map[token.Token]string{token.ADD: "f64Add", token.SUB: "f64Sub", token.MUL: "f64Mul", token.QUO: "f64Div",
			token.EQL: "f64Eq", token.NEQ: "f64Ne", token.LSS: "f64Lt", token.GTR: "f64Gt", token.LEQ: "f64Le", token.GEQ: "f64Ge"}
		if n, ok := names[e.Op]; ok {
			rt := "Bool"
			res := bl
			if e.Op == token.ADD || e.Op == token.SUB || e.Op == token.MUL || e.Op == token.QUO {
				rt, res = "F", x.ty
			}
			o, err := c.op(n, "F → F → "+rt, "float64 operator `"+op+"`")
			if err != nil {
				return wrVal{}, err
			}
			return wrVal{s: o + " " + x.arg() + " " + y.arg(), ty: res}, nil
		}
	}
	return wrVal{}, c.errf(e, "%s on %s", op, x.ty.goName())
}

// does struct type ty have field `name`, directly (depth 0) or promoted (depth > 0)?  -1 = no
func (t *wrT) fieldDepth(ty wrTy, name string, fuel int) int {
	if fuel == 0 || ty.k != wrNamed || ty.iface {
		return -1
	}
	fs := t.fields(ty)
	for _, f := range fs {
		if f.name == name {
			return 0
		}
	}
	for _, f := range fs {
		if f.embedded {
			et := t.resolve(t.pkgOf(ty), f.ty)
			et.opt = false
			if d := t.fieldDepth(et, name, fuel-1); d >= 0 {
				return d + 1
			}
		}
	}
	return -1
}

// x.name: a field read (promoted fields go through the embedded field, explicitly)
func (c *wrCtx) field(x wrVal, name string, n ast.Node) (wrVal, error) {
	if x.ty.k != wrNamed || x.ty.iface {
		return wrVal{}, c.errf(n, "field %s of %s", name, x.ty.goName())
	}
	x = c.deref(x)
	p := c.t.pkgOf(x.ty)
	if p == nil {
		if x.ty.pkg == "gjson" && name == "Raw" {
			o, err := c.op("jResult_Raw", "JResult → String", "field Raw of gjson.Result")
			return wrVal{s: o + " " + x.arg(), ty: wrTy{k: wrString}}, err
		}
		return wrVal{}, c.errf(n, "field %s of %s", name, x.ty.goName())
	}
	fs := c.t.fields(x.ty)
	for _, f := range fs {
		if f.name != name {
			continue
		}
		ft := c.t.resolve(p, f.ty)
		if ft.k == wrBad {
			return wrVal{}, c.errf(n, "field %s.%s has a type outside the subset", x.ty.goName(), name)
		}
		c.useTy(x.ty)
		c.useTy(ft)
		ts := p.types[x.ty.name]
		o, err := c.op(x.ty.opPrefix()+"_"+name, x.ty.param()+" → "+ft.lean(),
			fmt.Sprintf("field %s of %s — %s", name, x.ty.goName(), p.whereNode(ts)))
		return wrVal{s: o + " " + x.arg(), ty: ft}, err
	}
	for _, f := range fs {
		if !f.embedded {
			continue
		}
		et := c.t.resolve(p, f.ty)
		et.opt = false
		if c.t.fieldDepth(et, name, 4) >= 0 {
			y, err := c.field(x, f.name, n)
			if err != nil {
				return wrVal{}, err
			}
			return c.field(y, name, n)
		}
	}
	return wrVal{}, c.errf(n, "%s has no field %s", x.ty.goName(), name)
}

// s[lo:hi] on a string or a []byte: an op returning an Option (out of range panics)
func (c *wrCtx) slice(e *ast.SliceExpr, env wrEnv) (wrVal, error) {
	if e.Slice3 {
		return wrVal{}, c.errf(e, "3-index slice")
	}
	x, err := c.expr(e.X, env)
	if err != nil {
		return wrVal{}, err
	}
	var opn, lenop, tn string
	switch x.ty.k {
	case wrString:
		opn, lenop, tn = "strSlice", "strLen", "String"
	case wrBuf:
		opn, lenop, tn = "bufSlice", "bufLen", "Buf"
	default:
		return wrVal{}, c.errf(e, "slice expression on %s", x.ty.goName())
	}
	lo, hi := "0", ""
	if e.Low != nil {
		v, err := c.expr(e.Low, env)
		if err != nil || v.ty.k != wrInt {
			return wrVal{}, c.errf(e, "slice bound")
		}
		lo = v.arg()
	}
	if e.High != nil {
		v, err := c.expr(e.High, env)
		if err != nil || v.ty.k != wrInt {
			return wrVal{}, c.errf(e, "slice bound")
		}
		hi = v.arg()
	} else {
		o, err := c.op(lenop, tn+" → Int", map[string]string{"strLen": "len of a string (bytes)", "bufLen": "len of a []byte (bytes)"}[lenop])
		if err != nil {
			return wrVal{}, err
		}
		hi = "(" + o + " " + x.arg() + ")"
	}
	o, err := c.op(opn, tn+" → Int → Int → Option "+tn,
		"the slice expression s[lo:hi] (byte offsets); none when Go panics (not 0 ≤ lo ≤ hi ≤ len s)")
	if err != nil {
		return wrVal{}, err
	}
	return c.bind("s", o+" "+x.arg()+" "+lo+" "+hi, x.ty), nil
}

// convert an argument to the type of the parameter it is passed to
func (c *wrCtx) conv(v wrVal, to wrTy, n ast.Node) (wrVal, error) {
	if v.ty.same(to) {
		return v, nil
	}
	switch {
	case to.k == wrNamed && to.opt && v.ty.k == wrNil:
		return wrVal{s: "none", atom: true, ty: to}, nil
	case to.k == wrNamed && v.ty.k == wrNamed && to.name == v.ty.name && to.pkg == v.ty.pkg:
		if to.opt {
			return wrVal{s: "some " + v.arg(), ty: to}, nil
		}
		return c.deref(v), nil
	case to.k == wrNamed && to.iface && v.ty.k == wrNamed && !v.ty.iface:
		v = c.deref(v)
		c.useTy(to)
		c.useTy(v.ty)
		o, err := c.op(to.opPrefix()+"_of"+v.ty.param(), v.ty.param()+" → "+to.param(),
			"the implicit conversion of a "+v.ty.goName()+" (or a pointer to one) to the interface "+to.goName())
		return wrVal{s: o + " " + v.arg(), ty: to}, err
	case to.k == wrBuf && v.ty.k == wrNil:
		o, err := c.op("bufNil", "Buf", "the nil []byte")
		return wrVal{s: o, atom: true, ty: to}, err
	case to.k == wrInt && v.ty.k == wrChar:
		return wrVal{s: "Int.ofNat (Char.toNat " + v.arg() + ")", ty: to}, nil
	case to.k == wrFloat && v.ty.k == wrInt:
		o, err := c.op("f64OfInt", "Int → F", "the conversion of an integer constant to float64")
		return wrVal{s: o + " " + v.arg(), ty: to}, err
	}
	return wrVal{}, c.errf(n, "a %s where a %s is expected", v.ty.goName(), to.goName())
}

func (c *wrCtx) args(call *ast.CallExpr, env wrEnv, params []wrTy) (string, error) {
	if len(call.Args) != len(params) || call.Ellipsis.IsValid() {
		return "", c.errf(call, "%d arguments for %d parameters", len(call.Args), len(params))
	}
	s := ""
	for i, a := range call.Args {
		v, err := c.expr(a, env)
		if err != nil {
			return "", err
		}
		v, err = c.conv(v, params[i], a)
		if err != nil {
			return "", err
		}
		s += " " + v.arg()
	}
	return s, nil
}

// parameters and result of a function type written in package p
func (t *wrT) sig(p *wrPkg, ft *ast.FuncType) (names []string, params []wrTy, res wrTy, ok bool) {
	for _, f := range ft.Params.List {
		ty := t.resolve(p, f.Type)
		if ty.k == wrBad {
			return nil, nil, wrTy{}, false
		}
		if len(f.Names) == 0 {
			names, params = append(names, "_"), append(params, ty)
		}
		for _, n := range f.Names {
			names, params = append(names, n.Name), append(params, ty)
		}
	}
	var rs []wrTy
	if ft.Results != nil {
		for _, f := range ft.Results.List {
			ty := t.resolve(p, f.Type)
			if ty.k == wrBad {
				return nil, nil, wrTy{}, false
			}
			k := len(f.Names)
			if k == 0 {
				k = 1
			}
			for i := 0; i < k; i++ {
				rs = append(rs, ty)
			}
		}
	}
	switch len(rs) {
	case 0:
		res = wrTy{k: wrUnit}
	case 1:
		res = rs[0]
	default:
		res = wrTy{k: wrTuple, elem: rs}
	}
	return names, params, res, true
}

func wrFnType(recv string, params []wrTy, res string) string {
	parts := []string{}
	if recv != "" {
		parts = append(parts, recv)
	}
	for _, p := range params {
		parts = append(parts, wrAtomTy(p.lean()))
	}
	parts = append(parts, res)
	return strings.Join(parts, " → ")
}

// functions of other packages: import path, Go name -> op, parameters, result
type wrExt struct {
	op     string
	params []wrTy
	res    wrTy
	doc    string
}

var (
	wrB = wrTy{k: wrBuf}
	wrI = wrTy{k: wrInt}
	wrF = wrTy{k: wrFloat}
	wrS = wrTy{k: wrString}
	wrO = wrTy{k: wrBool}
	wrC = wrTy{k: wrChar}
	wrJ = wrTy{k: wrNamed, pkg: "gjson", name: "Result"}
)

var wrExts = map[string]wrExt{
	"math.IsNaN":                        {"mathIsNaN", []wrTy{wrF}, wrO, "`func IsNaN(f float64) (is bool)` of package math"},
	"math.IsInf":                        {"mathIsInf", []wrTy{wrF, wrI}, wrO, "`func IsInf(f float64, sign int) bool` of package math"},
	"strconv.AppendFloat":               {"strconvAppendFloat", []wrTy{wrB, wrF, wrC, wrI, wrI}, wrB, "`func AppendFloat(dst []byte, f float64, fmt byte, prec, bitSize int) []byte` of package strconv"},
	"strings.Index":                     {"stringsIndex", []wrTy{wrS, wrS}, wrI, "`func Index(s, substr string) int` of package strings"},
	"github.com/tidwall/gjson.Get":      {"gjsonGet", []wrTy{wrS, wrS}, wrJ, "`func Get(json, path string) Result` of package gjson"},
	"github.com/tidwall/gjson.GetBytes": {"gjsonGetBytes", []wrTy{wrB, wrS}, wrJ, "`func GetBytes(json []byte, path string) Result` of package gjson"},
	"github.com/tidwall/gjson#Exists":   {"jResult_Exists", nil, wrO, "`func (t Result) Exists() bool` of package gjson"},
	"github.com/tidwall/gjson#String":   {"jResult_String", nil, wrS, "`func (t Result) String() string` of package gjson"},
}

func (c *wrCtx) importPath(name string) string {
	for _, im := range c.file.Imports {
		p, _ := strconv.Unquote(im.Path.Value)
		n := p[strings.LastIndex(p, "/")+1:]
		if im.Name != nil {
			n = im.Name.Name
		}
		if n == name {
			return p
		}
	}
	return ""
}

func (c *wrCtx) extCall(x wrExt, recv *wrVal, call *ast.CallExpr, env wrEnv) (wrVal, error) {
	as, err := c.args(call, env, x.params)
	if err != nil {
		return wrVal{}, err
	}
	r := ""
	if recv != nil {
		r = recv.ty.lean()
		as = " " + recv.arg() + as
		c.useTy(recv.ty)
	}
	c.useTy(x.res)
	o, err := c.op(x.op, wrFnType(r, x.params, x.res.lean()), x.doc)
	return wrVal{s: o + as, ty: x.res}, err
}

func (c *wrCtx) call(e *ast.CallExpr, env wrEnv) (wrVal, error) {
	switch f := e.Fun.(type) {
	case *ast.Ident:
		if _, shadowed := env[f.Name]; shadowed {
			break
		}
		switch f.Name {
		case "append":
			return c.appendCall(e, env)
		case "len":
			return c.lenCall(e, env)
		case "byte", "int", "int8", "int16", "int32", "int64", "uint", "uint8", "uint16", "uint32", "uint64":
			if len(e.Args) == 1 {
				v, err := c.expr(e.Args[0], env)
				if err != nil {
					return wrVal{}, err
				}
				if v.ty.k == wrInt { // integer conversions are the identity on Int (no wrap-around)
					return v, nil
				}
				return c.conv(v, wrI, e)
			}
		}
		if d, ok := c.t.root.funcs[f.Name]; ok {
			return c.staticCall(f.Name, d, nil, e, env)
		}
	case *ast.SelectorExpr:
		if id, ok := f.X.(*ast.Ident); ok {
			if _, isVar := env[id.Name]; !isVar {
				if p := c.importPath(id.Name); p != "" {
					if x, ok := wrExts[p+"."+f.Sel.Name]; ok {
						return c.extCall(x, nil, e, env)
					}
					return wrVal{}, c.errf(e, "%s.%s is not in the table of external functions", id.Name, f.Sel.Name)
				}
			}
		}
		recv, err := c.expr(f.X, env)
		if err != nil {
			return wrVal{}, err
		}
		return c.methodCall(recv, f.Sel.Name, e, env)
	}
	return wrVal{}, c.errf(e, "call outside the subset")
}

func (c *wrCtx) appendCall(e *ast.CallExpr, env wrEnv) (wrVal, error) {
	if len(e.Args) < 2 {
		return wrVal{}, c.errf(e, "append with %d arguments", len(e.Args))
	}
	d, err := c.expr(e.Args[0], env)
	if err != nil {
		return wrVal{}, err
	}
	if d.ty.k == wrNil { // append(nil, …) on a []byte
		o, err := c.op("bufNil", "Buf", "the nil []byte")
		if err != nil {
			return wrVal{}, err
		}
		d = wrVal{s: o, atom: true, ty: wrB}
	}
	if d.ty.k != wrBuf {
		return wrVal{}, c.errf(e, "append to %s", d.ty.goName())
	}
	for i, a := range e.Args[1:] {
		v, err := c.expr(a, env)
		if err != nil {
			return wrVal{}, err
		}
		var opn, ty, doc string
		spread := e.Ellipsis.IsValid() && i == len(e.Args)-2
		switch {
		case spread && v.lit:
			opn, ty, doc = "bufLit", "Buf → String → Buf", "append(dst, \"literal\"...)"
		case spread && v.ty.k == wrString:
			opn, ty, doc = "bufStr", "Buf → String → Buf", "append(dst, s...) with s a string value"
		case spread && v.ty.k == wrBuf:
			opn, ty, doc = "bufCat", "Buf → Buf → Buf", "append(dst, b...) with b a []byte"
		case !spread && v.ty.k == wrChar:
			opn, ty, doc = "bufByte", "Buf → Char → Buf", "append(dst, 'c')"
		case !spread && v.ty.k == wrInt:
			opn, ty, doc = "bufByteVal", "Buf → Int → Buf", "append(dst, b) with b a byte value"
		default:
			return wrVal{}, c.errf(a, "append of %s", v.ty.goName())
		}
		o, err := c.op(opn, ty, doc)
		if err != nil {
			return wrVal{}, err
		}
		d = wrVal{s: o + " " + d.arg() + " " + v.arg(), ty: wrB}
	}
	return d, nil
}

func (c *wrCtx) lenCall(e *ast.CallExpr, env wrEnv) (wrVal, error) {
	if len(e.Args) != 1 {
		return wrVal{}, c.errf(e, "len")
	}
	v, err := c.expr(e.Args[0], env)
	if err != nil {
		return wrVal{}, err
	}
	switch v.ty.k {
	case wrBuf:
		o, err := c.op("bufLen", "Buf → Int", "len of a []byte (bytes)")
		return wrVal{s: o + " " + v.arg(), ty: wrI}, err
	case wrString:
		o, err := c.op("strLen", "String → Int", "len of a string (bytes)")
		return wrVal{s: o + " " + v.arg(), ty: wrI}, err
	case wrList:
		return wrVal{s: "Int.ofNat (List.length " + v.arg() + ")", ty: wrI}, nil
	}
	return wrVal{}, c.errf(e, "len of %s", v.ty.goName())
}

// a call of a function / method of the root package, statically resolved
func (c *wrCtx) staticCall(key string, d *ast.FuncDecl, recv *wrVal, call *ast.CallExpr, env wrEnv) (wrVal, error) {
	t := c.t
	if fn, ok := t.fns[key]; ok { // a translated writer
		if fn.state == 1 { // recursion: the function itself, as called from its own body
			as, err := c.args(call, env, wrTys(fn.params))
			if err != nil {
				return wrVal{}, err
			}
			r := ""
			if recv != nil {
				rv, err := c.conv(*recv, fn.recvTy, call)
				if err != nil {
					return wrVal{}, err
				}
				r, as = fn.recvTy.lean(), " "+rv.arg()+as
			}
			o, err := c.op("rec_"+fn.lean, wrFnType(wrAtomTy(r), wrTys(fn.params), "Option "+wrAtomTy(fn.res.lean())),
				"RECURSION: the Go function "+key+" itself, as called from its own body — "+t.root.where(d))
			if err != nil {
				return wrVal{}, err
			}
			return c.bind("r", o+as, fn.res), nil
		}
		t.translate(fn)
		if fn.bad != "" {
			return wrVal{}, c.errf(call, "calls %s, which is unrecognised", key)
		}
		s := fn.lean + " ops"
		if recv != nil {
			rv, err := c.conv(*recv, fn.recvTy, call)
			if err != nil {
				return wrVal{}, err
			}
			s += " " + rv.arg()
		}
		as, err := c.args(call, env, wrTys(fn.params))
		if err != nil {
			return wrVal{}, err
		}
		return c.bind("r", s+as, fn.res), nil
	}
	// any other function of the root package: an op, taken to be pure and total
	_, params, res, ok := t.sig(t.root, d.Type)
	if !ok {
		return wrVal{}, c.errf(call, "the signature of %s is outside the subset", key)
	}
	as, err := c.args(call, env, params)
	if err != nil {
		return wrVal{}, err
	}
	name, r := "fn_"+d.Name.Name, ""
	if recv != nil {
		rv := c.deref(*recv)
		name, r, as = rv.ty.opPrefix()+"_"+d.Name.Name, rv.ty.param(), " "+rv.arg()+as
		c.useTy(rv.ty)
	}
	c.useTy(res)
	for _, p := range params {
		c.useTy(p)
	}
	o, err := c.op(name, wrFnType(r, params, res.lean()), "Go: `"+t.root.signature(d)+"` — "+t.root.where(d))
	return wrVal{s: o + as, ty: res}, err
}

func wrTys(vs []wrVar) []wrTy {
	out := []wrTy{}
	for _, v := range vs {
		out = append(out, v.ty)
	}
	return out
}

func (c *wrCtx) methodCall(recv wrVal, m string, call *ast.CallExpr, env wrEnv) (wrVal, error) {
	t := c.t
	if recv.ty.k != wrNamed {
		return wrVal{}, c.errf(call, "method %s of %s", m, recv.ty.goName())
	}
	if recv.ty.pkg == "gjson" {
		if x, ok := wrExts["github.com/tidwall/gjson#"+m]; ok {
			return c.extCall(x, &recv, call, env)
		}
		return wrVal{}, c.errf(call, "gjson.Result.%s is not in the table of external functions", m)
	}
	p := t.pkgOf(recv.ty)
	if p == nil {
		return wrVal{}, c.errf(call, "method %s of %s", m, recv.ty.goName())
	}
	if recv.ty.iface {
		it := p.types[recv.ty.name].Type.(*ast.InterfaceType)
		for _, f := range it.Methods.List {
			ft, ok := f.Type.(*ast.FuncType)
			if !ok || len(f.Names) != 1 || f.Names[0].Name != m {
				continue
			}
			_, params, res, ok := t.sig(p, ft)
			if !ok {
				return wrVal{}, c.errf(call, "the signature of %s.%s is outside the subset", recv.ty.goName(), m)
			}
			as, err := c.args(call, env, params)
			if err != nil {
				return wrVal{}, err
			}
			c.useTy(recv.ty)
			c.useTy(res)
			var b bytes.Buffer
			printer.Fprint(&b, p.fset, ft)
			sigText := m + strings.TrimPrefix(strings.Join(strings.Fields(b.String()), " "), "func")
			if p == t.root && t.recMethods[m] { // dynamic dispatch to a translated method
				o, err := c.op("rec_"+m, wrFnType(recv.ty.param(), params, "Option "+wrAtomTy(res.lean())),
					fmt.Sprintf("DYNAMIC DISPATCH: the method `%s` of the interface %s (%s), implemented by the %s methods translated below; none = it panics",
						sigText, recv.ty.goName(), p.whereNode(f), m))
				if err != nil {
					return wrVal{}, err
				}
				return c.bind("r", o+" "+recv.arg()+as, res), nil
			}
			o, err := c.op(recv.ty.opPrefix()+"_"+m, wrFnType(recv.ty.param(), params, res.lean()),
				fmt.Sprintf("Go: `%s` of the interface %s — %s", sigText, recv.ty.goName(), p.whereNode(f)))
			return wrVal{s: o + " " + recv.arg() + as, ty: res}, err
		}
		return wrVal{}, c.errf(call, "interface %s has no method %s (embedded interfaces are outside the subset)", recv.ty.goName(), m)
	}
	// struct: a declared method, or one promoted from an embedded field
	if d, ok := p.funcs[recv.ty.name+"."+m]; ok {
		if p == t.root {
			return c.staticCall(recv.ty.name+"."+m, d, &recv, call, env)
		}
		_, params, res, ok := t.sig(p, d.Type)
		if !ok {
			return wrVal{}, c.errf(call, "the signature of %s.%s is outside the subset", recv.ty.goName(), m)
		}
		as, err := c.args(call, env, params)
		if err != nil {
			return wrVal{}, err
		}
		rv := c.deref(recv)
		c.useTy(rv.ty)
		c.useTy(res)
		o, err := c.op(rv.ty.opPrefix()+"_"+m, wrFnType(rv.ty.param(), params, res.lean()),
			"Go: `"+p.signature(d)+"` — "+p.where(d))
		return wrVal{s: o + " " + rv.arg() + as, ty: res}, err
	}
	for _, f := range t.fields(recv.ty) {
		if !f.embedded {
			continue
		}
		et := t.resolve(p, f.ty)
		et.opt = false
		if t.hasMethod(et, m, 4) {
			y, err := c.field(recv, f.name, call)
			if err != nil {
				return wrVal{}, err
			}
			return c.methodCall(y, m, call, env)
		}
	}
	return wrVal{}, c.errf(call, "%s has no method %s", recv.ty.goName(), m)
}

func (t *wrT) hasMethod(ty wrTy, m string, fuel int) bool {
	p := t.pkgOf(ty)
	if fuel == 0 || p == nil || ty.k != wrNamed {
		return false
	}
	if ty.iface {
		for _, f := range p.types[ty.name].Type.(*ast.InterfaceType).Methods.List {
			if len(f.Names) == 1 && f.Names[0].Name == m {
				return true
			}
		}
		return false
	}
	if _, ok := p.funcs[ty.name+"."+m]; ok {
		return true
	}
	for _, f := range t.fields(ty) {
		if f.embedded {
			et := t.resolve(p, f.ty)
			et.opt = false
			if t.hasMethod(et, m, fuel-1) {
				return true
			}
		}
	}
	return false
}

// ---------------------------------------------------------------------------------------------
// statements

type wrFin func(env wrEnv) ([]string, error)

func wrInd(lines []string, n int) []string {
	out := make([]string, len(lines))
	for i, l := range lines {
		out[i] = strings.Repeat(" ", n) + l
	}
	return out
}

func (c *wrCtx) flush(out *[]string) {
	for _, b := range c.pending {
		*out = append(*out, "Option.bind ("+b.expr+") fun ("+b.name+" : "+b.ty+") =>")
	}
	c.pending = nil
}

func wrProj(i, n int) string {
	if n == 1 {
		return ""
	}
	if i == n-1 {
		return strings.Repeat(".2", n-1)
	}
	return strings.Repeat(".2", i) + ".1"
}

func wrTupleTy(vs []wrVar) string {
	if len(vs) == 0 {
		return "Unit"
	}
	parts := []string{}
	for _, v := range vs {
		parts = append(parts, wrAtomTy(v.ty.lean()))
	}
	return strings.Join(parts, " × ")
}

func wrTupleVal(vs []wrVar) string {
	if len(vs) == 0 {
		return "()"
	}
	parts := []string{}
	for _, v := range vs {
		parts = append(parts, wrIdent(v.name))
	}
	if len(parts) == 1 {
		return parts[0]
	}
	return "(" + strings.Join(parts, ", ") + ")"
}

// the outer variables a statement list assigns (not those it declares itself), by declaration order
func wrAssigned(list []ast.Stmt, env wrEnv) []wrVar {
	found := map[string]bool{}
	var walk func(list []ast.Stmt, local map[string]bool)
	mark := func(e ast.Expr, local map[string]bool) {
		if id, ok := e.(*ast.Ident); ok && !local[id.Name] {
			if _, ok := env[id.Name]; ok {
				found[id.Name] = true
			}
		}
	}
	walk = func(list []ast.Stmt, outer map[string]bool) {
		local := map[string]bool{}
		for k := range outer {
			local[k] = true
		}
		for _, s := range list {
			switch s := s.(type) {
			case *ast.AssignStmt:
				for _, l := range s.Lhs {
					if s.Tok == token.DEFINE {
						if id, ok := l.(*ast.Ident); ok {
							local[id.Name] = true
						}
					} else {
						mark(l, local)
					}
				}
			case *ast.IncDecStmt:
				mark(s.X, local)
			case *ast.DeclStmt:
				if gd, ok := s.Decl.(*ast.GenDecl); ok {
					for _, sp := range gd.Specs {
						if vs, ok := sp.(*ast.ValueSpec); ok {
							for _, n := range vs.Names {
								local[n.Name] = true
							}
						}
					}
				}
			case *ast.IfStmt:
				walk(s.Body.List, local)
				if s.Else != nil {
					walk([]ast.Stmt{s.Else}, local)
				}
			case *ast.BlockStmt:
				walk(s.List, local)
			case *ast.ForStmt:
				l2 := map[string]bool{}
				for k := range local {
					l2[k] = true
				}
				if as, ok := s.Init.(*ast.AssignStmt); ok && as.Tok == token.DEFINE {
					for _, l := range as.Lhs {
						if id, ok := l.(*ast.Ident); ok {
							l2[id.Name] = true
						}
					}
				}
				walk(s.Body.List, l2)
			case *ast.RangeStmt:
				l2 := map[string]bool{}
				for k := range local {
					l2[k] = true
				}
				for _, e := range []ast.Expr{s.Key, s.Value} {
					if id, ok := e.(*ast.Ident); ok && s.Tok == token.DEFINE {
						l2[id.Name] = true
					}
				}
				walk(s.Body.List, l2)
			}
		}
	}
	walk(list, map[string]bool{})
	var out []wrVar
	for n := range found {
		out = append(out, env[n])
	}
	sort.Slice(out, func(i, j int) bool { return out[i].seq < out[j].seq })
	return out
}

func wrHas(n ast.Node, pred func(ast.Node) bool) bool {
	found := false
	ast.Inspect(n, func(x ast.Node) bool {
		if x == nil || found {
			return false
		}
		if _, ok := x.(*ast.FuncLit); ok {
			return false
		}
		if pred(x) {
			found = true
		}
		return !found
	})
	return found
}

func wrHasReturn(n ast.Node) bool {
	return wrHas(n, func(x ast.Node) bool { _, ok := x.(*ast.ReturnStmt); return ok })
}

func wrHasEscape(n ast.Node) bool {
	return wrHas(n, func(x ast.Node) bool {
		switch x.(type) {
		case *ast.ReturnStmt, *ast.BranchStmt, *ast.LabeledStmt, *ast.DeferStmt, *ast.GoStmt:
			return true
		}
		return false
	})
}

func (c *wrCtx) zero(ty wrTy, n ast.Node) (string, error) {
	switch ty.k {
	case wrInt:
		return "0", nil
	case wrBool:
		return "false", nil
	case wrString:
		return "\"\"", nil
	case wrList:
		return "[]", nil
	case wrBuf:
		return c.op("bufNil", "Buf", "the nil []byte")
	case wrNamed:
		if ty.opt {
			return "none", nil
		}
	}
	return "", c.errf(n, "zero value of %s", ty.goName())
}

func wrHasNilTest(e ast.Expr, env wrEnv) bool {
	return wrHas(e, func(x ast.Node) bool {
		b, ok := x.(*ast.BinaryExpr)
		if !ok || (b.Op != token.EQL && b.Op != token.NEQ) {
			return false
		}
		for _, p := range [][2]ast.Expr{{b.X, b.Y}, {b.Y, b.X}} {
			v, ok1 := p[0].(*ast.Ident)
			n, ok2 := p[1].(*ast.Ident)
			if ok1 && ok2 && n.Name == "nil" {
				if w, ok := env[v.Name]; ok && w.ty.k == wrNamed && w.ty.opt {
					return true
				}
			}
		}
		return false
	})
}

// a condition with its two continuations; the result is one parenthesised term
func (c *wrCtx) cond(e ast.Expr, env wrEnv, th, el wrFin) ([]string, error) {
	if p, ok := e.(*ast.ParenExpr); ok {
		return c.cond(p.X, env, th, el)
	}
	if wrHasNilTest(e, env) {
		switch x := e.(type) {
		case *ast.UnaryExpr:
			if x.Op == token.NOT {
				return c.cond(x.X, env, el, th)
			}
		case *ast.BinaryExpr:
			switch x.Op {
			case token.LAND:
				return c.cond(x.X, env, func(e1 wrEnv) ([]string, error) { return c.cond(x.Y, e1, th, el) }, el)
			case token.LOR:
				return c.cond(x.X, env, th, func(e1 wrEnv) ([]string, error) { return c.cond(x.Y, e1, th, el) })
			case token.EQL, token.NEQ:
				id, ok := x.X.(*ast.Ident)
				if !ok || id.Name == "nil" {
					id, _ = x.Y.(*ast.Ident)
				}
				v := env[id.Name]
				nn := v.ty
				nn.opt = false
				some, none := th, el
				if x.Op == token.EQL {
					some, none = el, th
				}
				a, err := some(env.with(id.Name, nn, v.seq))
				if err != nil {
					return nil, err
				}
				b, err := none(env)
				if err != nil {
					return nil, err
				}
				n := wrIdent(id.Name)
				out := []string{"(match " + n + " with", "  | some " + n + " =>"}
				out = append(out, wrInd(a, 4)...)
				out = append(out, "  | none =>")
				out = append(out, wrInd(b, 4)...)
				out[len(out)-1] += ")"
				return out, nil
			}
		}
	}
	v, err := c.expr(e, env)
	if err != nil {
		return nil, err
	}
	if v.ty.k != wrBool {
		return nil, c.errf(e, "condition of type %s", v.ty.goName())
	}
	var out []string
	c.flush(&out)
	a, err := th(env)
	if err != nil {
		return nil, err
	}
	b, err := el(env)
	if err != nil {
		return nil, err
	}
	out = append(out, "(if "+v.s+" then")
	out = append(out, wrInd(a, 4)...)
	out = append(out, "  else")
	out = append(out, wrInd(b, 4)...)
	out[len(out)-1] += ")"
	if len(out) > 0 && !strings.HasPrefix(out[0], "(if") { // binds in front: one term all the same
		out[0] = "(" + out[0]
		out[len(out)-1] += ")"
	}
	return out, nil
}

func (c *wrCtx) stmts(list []ast.Stmt, env wrEnv, fin wrFin) ([]string, error) {
	var out []string
	for i, s := range list {
		switch s := s.(type) {
		case *ast.EmptyStmt:
		case *ast.AssignStmt:
			e2, err := c.assign(s, env, &out)
			if err != nil {
				return nil, err
			}
			env = e2
		case *ast.IncDecStmt:
			id, ok := s.X.(*ast.Ident)
			v, ok2 := env[wrIdName(id)]
			if !ok || !ok2 || v.ty.k != wrInt {
				return nil, c.errf(s, "++/-- on something that is not an int variable")
			}
			op := " + 1"
			if s.Tok == token.DEC {
				op = " - 1"
			}
			out = append(out, "let "+wrIdent(id.Name)+" : Int := "+wrIdent(id.Name)+op)
		case *ast.DeclStmt:
			e2, err := c.decl(s, env, &out)
			if err != nil {
				return nil, err
			}
			env = e2
		case *ast.ExprStmt:
			v, err := c.expr(s.X, env)
			if err != nil {
				return nil, err
			}
			if n := len(c.pending); n > 0 && c.pending[n-1].name == v.s {
				c.pending[n-1].name = "_"
				c.flush(&out)
			} else {
				c.flush(&out)
				out = append(out, "let _ : "+v.ty.lean()+" := "+v.s)
			}
		case *ast.ReturnStmt:
			ls, err := c.ret(s, env)
			if err != nil {
				return nil, err
			}
			return append(out, ls...), nil
		case *ast.IfStmt:
			if s.Init != nil {
				return nil, c.errf(s, "if with an init statement")
			}
			rest := list[i+1:]
			var elseB []ast.Stmt
			switch e := s.Else.(type) {
			case *ast.BlockStmt:
				elseB = e.List
			case *ast.IfStmt:
				elseB = []ast.Stmt{e}
			}
			if wrHasReturn(s) { // copy the continuation into the arms
				cat := func(a []ast.Stmt) []ast.Stmt { return append(append([]ast.Stmt{}, a...), rest...) }
				ls, err := c.cond(s.Cond, env,
					func(e1 wrEnv) ([]string, error) { return c.stmts(cat(s.Body.List), e1, fin) },
					func(e1 wrEnv) ([]string, error) { return c.stmts(cat(elseB), e1, fin) })
				if err != nil {
					return nil, err
				}
				return append(out, ls...), nil
			}
			vars := wrAssigned([]ast.Stmt{s}, env)
			arm := func(e1 wrEnv) ([]string, error) {
				for _, v := range vars {
					if !e1[v.name].ty.same(v.ty) {
						return nil, c.errf(s, "%s is assigned where it is known to be non-nil", v.name)
					}
				}
				return []string{"some " + wrTupleVal(vars)}, nil
			}
			ls, err := c.cond(s.Cond, env,
				func(e1 wrEnv) ([]string, error) { return c.stmts(s.Body.List, e1, arm) },
				func(e1 wrEnv) ([]string, error) { return c.stmts(elseB, e1, arm) })
			if err != nil {
				return nil, err
			}
			j := c.tmp("j")
			ls[0] = "Option.bind " + ls[0]
			ls[len(ls)-1] += " fun (" + j + " : " + wrTupleTy(vars) + ") =>"
			out = append(out, ls...)
			for k, v := range vars {
				out = append(out, "let "+wrIdent(v.name)+" : "+v.ty.lean()+" := "+j+wrProj(k, len(vars)))
			}
		case *ast.ForStmt, *ast.RangeStmt:
			if err := c.loop(s, env, &out); err != nil {
				return nil, err
			}
		default:
			return nil, c.errf(s, "statement %T is outside the subset", s)
		}
	}
	ls, err := fin(env)
	if err != nil {
		return nil, err
	}
	return append(out, ls...), nil
}

func wrIdName(id *ast.Ident) string {
	if id == nil {
		return ""
	}
	return id.Name
}

func (c *wrCtx) define(env wrEnv, name string, ty wrTy) wrEnv {
	c.nseq++
	return env.with(name, ty, c.nseq)
}

func (c *wrCtx) assign(s *ast.AssignStmt, env wrEnv, out *[]string) (wrEnv, error) {
	if len(s.Rhs) != 1 {
		return nil, c.errf(s, "assignment with %d right-hand sides", len(s.Rhs))
	}
	v, err := c.expr(s.Rhs[0], env)
	if err != nil {
		return nil, err
	}
	if len(s.Lhs) > 1 { // x, y = f(…)
		if v.ty.k != wrTuple || len(v.ty.elem) != len(s.Lhs) || (s.Tok != token.ASSIGN && s.Tok != token.DEFINE) {
			return nil, c.errf(s, "assignment of %s to %d variables", v.ty.goName(), len(s.Lhs))
		}
		c.flush(out)
		for i, l := range s.Lhs {
			id, ok := l.(*ast.Ident)
			if !ok {
				return nil, c.errf(l, "assignment to something that is not a local variable")
			}
			if id.Name == "_" {
				continue
			}
			et := v.ty.elem[i]
			if w, ok := env[id.Name]; ok && s.Tok == token.ASSIGN {
				if !w.ty.same(et) {
					return nil, c.errf(l, "assignment of %s to %s %s", et.goName(), w.ty.goName(), id.Name)
				}
			} else if s.Tok == token.DEFINE {
				env = c.define(env, id.Name, et)
			} else {
				return nil, c.errf(l, "assignment to %s, which is not a local variable", id.Name)
			}
			*out = append(*out, "let "+wrIdent(id.Name)+" : "+et.lean()+" := "+v.s+wrProj(i, len(s.Lhs)))
		}
		return env, nil
	}
	id, ok := s.Lhs[0].(*ast.Ident)
	if !ok {
		return nil, c.errf(s, "assignment to something that is not a local variable")
	}
	w, known := env[id.Name]
	switch s.Tok {
	case token.DEFINE:
		if v.ty.k == wrNil || v.ty.k == wrChar || v.ty.k == wrTuple || v.ty.k == wrUnit {
			return nil, c.errf(s, "%s := a value of type %s", id.Name, v.ty.goName())
		}
		if id.Name != "_" {
			env = c.define(env, id.Name, v.ty)
		}
		w = wrVar{ty: v.ty}
	case token.ASSIGN:
		if id.Name == "_" {
			w = wrVar{ty: v.ty}
			break
		}
		if !known {
			return nil, c.errf(s, "assignment to %s, which is not a local variable", id.Name)
		}
		if v, err = c.conv(v, w.ty, s); err != nil {
			return nil, err
		}
	case token.ADD_ASSIGN, token.SUB_ASSIGN, token.MUL_ASSIGN:
		if !known || w.ty.k != wrInt || v.ty.k != wrInt {
			return nil, c.errf(s, "%s on something that is not an int variable", s.Tok)
		}
		op := map[token.Token]string{token.ADD_ASSIGN: " + ", token.SUB_ASSIGN: " - ", token.MUL_ASSIGN: " * "}[s.Tok]
		v = wrVal{s: wrIdent(id.Name) + op + v.arg(), ty: w.ty}
	default:
		return nil, c.errf(s, "assignment operator %s", s.Tok)
	}
	if n := len(c.pending); n > 0 && c.pending[n-1].name == v.s && id.Name != "_" {
		c.pending[n-1].name = wrIdent(id.Name) // bind straight into the variable
		c.flush(out)
		return env, nil
	}
	c.flush(out)
	*out = append(*out, "let "+wrIdent(id.Name)+" : "+w.ty.lean()+" := "+v.s)
	return env, nil
}

func (c *wrCtx) decl(s *ast.DeclStmt, env wrEnv, out *[]string) (wrEnv, error) {
	gd, ok := s.Decl.(*ast.GenDecl)
	if !ok || gd.Tok != token.VAR {
		return nil, c.errf(s, "declaration outside the subset")
	}
	for _, sp := range gd.Specs {
		vs := sp.(*ast.ValueSpec)
		if len(vs.Values) != 0 && len(vs.Values) != len(vs.Names) {
			return nil, c.errf(s, "var with a multi-valued initialiser")
		}
		for i, n := range vs.Names {
			var ty wrTy
			if vs.Type != nil {
				if ty = c.t.resolve(c.t.root, vs.Type); ty.k == wrBad {
					return nil, c.errf(s, "the type of var %s is outside the subset", n.Name)
				}
			}
			val := ""
			if len(vs.Values) > 0 {
				v, err := c.expr(vs.Values[i], env)
				if err != nil {
					return nil, err
				}
				if vs.Type != nil {
					if v, err = c.conv(v, ty, s); err != nil {
						return nil, err
					}
				} else if ty = v.ty; ty.k == wrNil || ty.k == wrChar || ty.k == wrTuple {
					return nil, c.errf(s, "var %s = a value of type %s", n.Name, ty.goName())
				}
				val = v.s
			} else {
				z, err := c.zero(ty, s)
				if err != nil {
					return nil, err
				}
				val = z
			}
			c.flush(out)
			c.useTy(ty)
			*out = append(*out, "let "+wrIdent(n.Name)+" : "+ty.lean()+" := "+val)
			if n.Name != "_" {
				env = c.define(env, n.Name, ty)
			}
		}
	}
	return env, nil
}

func (c *wrCtx) ret(s *ast.ReturnStmt, env wrEnv) ([]string, error) {
	want := []wrTy{c.fn.res}
	if c.fn.res.k == wrTuple {
		want = c.fn.res.elem
	} else if c.fn.res.k == wrUnit {
		want = nil
	}
	if len(s.Results) != len(want) {
		return nil, c.errf(s, "return with %d results for %d (a bare return of named results is outside the subset)", len(s.Results), len(want))
	}
	parts := []string{}
	single := ""
	for i, r := range s.Results {
		v, err := c.expr(r, env)
		if err != nil {
			return nil, err
		}
		if v, err = c.conv(v, want[i], r); err != nil {
			return nil, err
		}
		parts = append(parts, v.s)
		single = v.arg()
	}
	var out []string
	if n := len(c.pending); len(parts) == 1 && n > 0 && c.pending[n-1].name == parts[0] {
		last := c.pending[n-1] // return f(…): the call is the result
		c.pending = c.pending[:n-1]
		c.flush(&out)
		return append(out, last.expr), nil
	}
	c.flush(&out)
	switch len(parts) {
	case 0:
		return append(out, "some ()"), nil
	case 1:
		return append(out, "some "+single), nil
	}
	return append(out, "some ("+strings.Join(parts, ", ")+")"), nil
}

// counted and range loops: loopM body list state
func (c *wrCtx) loop(s ast.Stmt, env wrEnv, out *[]string) error {
	var body *ast.BlockStmt
	var list string
	var elemTy string
	var heads []string // lets at the head of the body
	benv := env
	var bound ast.Expr
	switch s := s.(type) {
	case *ast.ForStmt:
		body = s.Body
		as, ok1 := s.Init.(*ast.AssignStmt)
		cmp, ok2 := s.Cond.(*ast.BinaryExpr)
		inc, ok3 := s.Post.(*ast.IncDecStmt)
		if !ok1 || !ok2 || !ok3 || as.Tok != token.DEFINE || len(as.Lhs) != 1 || len(as.Rhs) != 1 ||
			cmp.Op != token.LSS || inc.Tok != token.INC {
			return c.errf(s, "for loop that is not `for i := lo; i < hi; i++`")
		}
		i, ok := as.Lhs[0].(*ast.Ident)
		if !ok || wrIdName(wrAsIdent(cmp.X)) != i.Name || wrIdName(wrAsIdent(inc.X)) != i.Name {
			return c.errf(s, "for loop that is not `for i := lo; i < hi; i++`")
		}
		lo, err := c.expr(as.Rhs[0], env)
		if err != nil {
			return err
		}
		hi, err := c.expr(cmp.Y, env)
		if err != nil {
			return err
		}
		if lo.ty.k != wrInt || hi.ty.k != wrInt {
			return c.errf(s, "loop bounds of type %s, %s", lo.ty.goName(), hi.ty.goName())
		}
		bound = cmp.Y
		list, elemTy = "intRange "+lo.arg()+" "+hi.arg(), "Int"
		benv = c.define(benv, i.Name, wrI)
		heads = append(heads, "let "+wrIdent(i.Name)+" : Int := x'")
	case *ast.RangeStmt:
		body = s.Body
		if s.Tok != token.DEFINE && (s.Key != nil || s.Value != nil) {
			return c.errf(s, "range loop assigning to existing variables")
		}
		xs, err := c.expr(s.X, env)
		if err != nil {
			return err
		}
		if xs.ty.k != wrList {
			return c.errf(s, "range over %s", xs.ty.goName())
		}
		et := xs.ty.elem[0]
		key, val := wrIdName(wrAsIdent(s.Key)), wrIdName(wrAsIdent(s.Value))
		if (s.Key != nil && key == "") || (s.Value != nil && val == "") {
			return c.errf(s, "range loop variables")
		}
		if key == "_" {
			key = ""
		}
		if val == "_" {
			val = ""
		}
		switch {
		case val == "":
			list, elemTy = "intRange 0 (Int.ofNat (List.length "+xs.arg()+"))", "Int"
			if key != "" {
				benv = c.define(benv, key, wrI)
				heads = append(heads, "let "+wrIdent(key)+" : Int := x'")
			}
		case key == "":
			list, elemTy = xs.s, et.lean()
			benv = c.define(benv, val, et)
			heads = append(heads, "let "+wrIdent(val)+" : "+et.lean()+" := x'")
		default:
			list, elemTy = "enumInt "+xs.arg(), "Int × "+wrAtomTy(et.lean())
			benv = c.define(c.define(benv, key, wrI), val, et)
			heads = append(heads, "let "+wrIdent(key)+" : Int := x'.1", "let "+wrIdent(val)+" : "+et.lean()+" := x'.2")
		}
	}
	if wrHasEscape(body) {
		return c.errf(s, "break / continue / return / goto inside a loop is outside the subset")
	}
	vars := wrAssigned(body.List, env)
	if bound != nil {
		for _, v := range vars {
			name := v.name
			if wrHas(bound, func(x ast.Node) bool { id, ok := x.(*ast.Ident); return ok && id.Name == name }) {
				return c.errf(s, "the loop bound mentions %s, which the body assigns", name)
			}
		}
	}
	c.flush(out)
	for k, v := range vars {
		heads = append(heads, "let "+wrIdent(v.name)+" : "+v.ty.lean()+" := st'"+wrProj(k, len(vars)))
	}
	bl, err := c.stmts(body.List, benv, func(e1 wrEnv) ([]string, error) {
		for _, v := range vars {
			if !e1[v.name].ty.same(v.ty) {
				return nil, c.errf(s, "%s changes type in the loop body", v.name)
			}
		}
		return []string{"some " + wrTupleVal(vars)}, nil
	})
	if err != nil {
		return err
	}
	l := c.tmp("l")
	st := wrTupleTy(vars)
	*out = append(*out, "Option.bind (loopM (fun (x' : "+elemTy+") (st' : "+st+") =>")
	*out = append(*out, wrInd(append(heads, bl...), 4)...)
	(*out)[len(*out)-1] += ") (" + list + ") " + wrTupleVal(vars) + ") fun (" + l + " : " + st + ") =>"
	for k, v := range vars {
		*out = append(*out, "let "+wrIdent(v.name)+" : "+v.ty.lean()+" := "+l+wrProj(k, len(vars)))
	}
	return nil
}

func wrAsIdent(e ast.Expr) *ast.Ident {
	id, _ := e.(*ast.Ident)
	return id
}

// ---------------------------------------------------------------------------------------------
// functions

// is the variable compared with nil somewhere in the body?
func wrNilTested(body *ast.BlockStmt, name string) bool {
	return wrHas(body, func(x ast.Node) bool {
		b, ok := x.(*ast.BinaryExpr)
		if !ok || (b.Op != token.EQL && b.Op != token.NEQ) {
			return false
		}
		a, n := wrIdName(wrAsIdent(b.X)), wrIdName(wrAsIdent(b.Y))
		return (a == name && n == "nil") || (n == name && a == "nil")
	})
}

func (t *wrT) prepare(fn *wrFn) {
	d := fn.decl
	fail := func(f string, a ...interface{}) { fn.bad = t.root.where(d) + ": " + fmt.Sprintf(f, a...); fn.state = 2 }
	if d.Body == nil {
		fail("no body")
		return
	}
	if d.Type.TypeParams != nil {
		fail("generic function")
		return
	}
	if d.Recv != nil {
		f := d.Recv.List[0]
		fn.recvTy = t.resolve(t.root, f.Type)
		if fn.recvTy.k != wrNamed {
			fail("receiver type outside the subset")
			return
		}
		if len(f.Names) == 1 && f.Names[0].Name != "_" {
			fn.recv = f.Names[0].Name
		}
		// a pointer receiver is taken to be non-nil unless the body tests it against nil
		if fn.recvTy.opt && (fn.recv == "" || !wrNilTested(d.Body, fn.recv)) {
			fn.recvTy.opt = false
		}
	}
	names, params, res, ok := t.sig(t.root, d.Type)
	if !ok {
		fail("a parameter or result type is outside the subset")
		return
	}
	for i := range names {
		fn.params = append(fn.params, wrVar{name: names[i], ty: params[i]})
	}
	fn.res = res
}

func (t *wrT) translate(fn *wrFn) {
	if fn.state != 0 {
		return
	}
	fn.state = 1
	d := fn.decl
	c := &wrCtx{t: t, fn: fn, file: t.root.files[t.root.fileOf[d]], ops: map[string]wrOp{}, tps: map[string]string{}}
	env := wrEnv{}
	binders := ""
	if d.Recv != nil {
		n := fn.recv
		if n == "" {
			n = "_"
		} else {
			env = c.define(env, n, fn.recvTy)
		}
		binders += " (" + wrIdent(n) + " : " + fn.recvTy.lean() + ")"
		c.useTy(fn.recvTy)
	}
	for i, p := range fn.params {
		n := p.name
		if n == "_" {
			n = fmt.Sprintf("_a%d", i)
		} else {
			env = c.define(env, n, p.ty)
		}
		binders += " (" + wrIdent(n) + " : " + p.ty.lean() + ")"
		c.useTy(p.ty)
	}
	c.useTy(fn.res)
	var lines []string
	var err error
	// named results that the body uses are variables with the zero value
	if d.Type.Results != nil {
		for _, f := range d.Type.Results.List {
			for _, n := range f.Names {
				name := n.Name
				if name == "_" || !wrHas(d.Body, func(x ast.Node) bool { id, ok := x.(*ast.Ident); return ok && id.Name == name }) {
					continue
				}
				ty := t.resolve(t.root, f.Type)
				z, e := c.zero(ty, n)
				if e != nil {
					err = e
					break
				}
				lines = append(lines, "let "+wrIdent(name)+" : "+ty.lean()+" := "+z)
				env = c.define(env, name, ty)
			}
		}
	}
	if err == nil {
		var body []string
		body, err = c.stmts(d.Body.List, env, func(wrEnv) ([]string, error) {
			if fn.res.k == wrUnit {
				return []string{"some ()"}, nil
			}
			return nil, c.errf(d, "the end of the body is reached without a return")
		})
		lines = append(lines, body...)
	}
	fn.state = 2
	if err != nil {
		fn.bad = err.Error()
		return
	}
	for k, v := range c.ops {
		t.ops[k] = v
	}
	for k, v := range c.tps {
		t.tparams[k] = v
	}
	var b strings.Builder
	fmt.Fprintf(&b, "/-- Go: `%s` — %s -/\n", t.root.signature(d), t.root.where(d))
	fmt.Fprintf(&b, "def %s (ops : OPS)%s : Option %s :=\n", fn.lean, binders, wrAtomTy(fn.res.lean()))
	for _, l := range wrInd(lines, 2) {
		b.WriteString(l + "\n")
	}
	fn.text = b.String()
	t.order = append(t.order, fn.key)
}

// the writers: functions / methods whose name begins with appendJSON, and every method AppendJSON
func (t *wrT) discover() []string {
	type item struct {
		key, file string
		line      int
		helper    bool
	}
	var items []item
	for key, d := range t.root.funcs {
		n := d.Name.Name
		helper := strings.HasPrefix(n, "appendJSON")
		if !helper && !(n == "AppendJSON" && d.Recv != nil) {
			continue
		}
		items = append(items, item{key, t.root.fileOf[d], t.root.fset.Position(d.Pos()).Line, helper})
	}
	sort.Slice(items, func(i, j int) bool {
		a, b := items[i], items[j]
		if a.helper != b.helper {
			return a.helper
		}
		if a.file != b.file {
			return a.file < b.file
		}
		return a.line < b.line
	})
	var keys []string
	for _, it := range items {
		keys = append(keys, it.key)
	}
	return keys
}

const wrHeader = `/-
  GENERATED FILE — do not edit.  Regenerate with
      cd /verif/translate && go build -o bin/translate . && \
        ./bin/translate writers /repo > /verif/lean/GeoModel/Generated/WriteGen.lean

  Syntactic translation (translate/writers.go) of the JSON writers of the root package: the
  helpers whose name begins with appendJSON and every method AppendJSON(dst []byte) []byte.

  Conventions:
    * every definition takes ` + "`ops : Ops …`" + `: one type parameter per Go type met in the source
      ([]byte ↦ Buf, float64 ↦ F, the named type T of the root package ↦ TT, geometry.T ↦ GT,
      gjson.Result ↦ JResult; interfaces are taken to be non-nil) and one field per distinct
      operation / callee found in the source: append(dst, "lit"...) ↦ bufLit, append(dst, 'c') ↦
      bufByte, append(dst, s...) ↦ bufStr (s a string) / bufCat (s a []byte), len ↦ bufLen / strLen,
      s[lo:hi] ↦ strSlice / bufSlice, field f of T ↦ tT_f (promoted fields go through the embedded
      field), method or function that is not translated here ↦ a field with its Go signature
      (taken to be pure and total), the implicit conversion of a struct to an interface ↦ i_ofT;
    * every definition returns an Option: none = the Go code PANICS.  xs[i] ↦ sliceAt xs i (explicit
      bounds check), s[lo:hi] ↦ an op returning an Option, a nilable *T used where a T is needed ↦
      Option.bind on it, a translated callee's none propagates;
    * *T ↦ Option TT, except a method receiver whose body never compares it with nil (taken to be
      non-nil); ` + "`x != nil`" + ` on a variable ↦ match x with | some x => … | none => …; on another
      expression ↦ Option.isSome; &x.f ↦ x.f;
    * int, byte, … ↦ Int (unbounded, conversions between them are the identity); a rune literal ↦ Char;
      string ↦ String, except that len and slicing are ops (Go counts bytes);
    * a statement list becomes one expression: x := e, x = e, x++ ↦ let (shadowing); an effectful
      e ↦ Option.bind (e) fun x => …; an ` + "`if`" + ` no arm of which returns is joined:
      Option.bind (if c then … some vars else … some vars) fun j' => …, vars the outer variables the
      arms assign; otherwise the statements after it are copied into its arms;
    * for i := lo; i < hi; i++ ↦ loopM over intRange lo hi; for _, x := range xs ↦ loopM over xs;
      for i, x := range xs ↦ loopM over enumInt xs; the state is the tuple of the outer variables
      the body assigns;
    * a call through an interface of a method translated here (child.AppendJSON(dst)) ↦ the field
      rec_<Method> (dynamic dispatch, supplied by the caller); a function calling itself ↦ rec_<name>.
  Anything outside the recognised subset appears below as  opaque <name>_unrecognised : Unit.
-/

set_option linter.unusedVariables false

namespace Geo.WGen

/-- a loop over the list of the values of its variable; none = some pass panics -/
def loopM {ε σ : Type} (body : ε → σ → Option σ) : List ε → σ → Option σ
  | [], s => some s
  | x :: xs, s =>
    match body x s with
    | none => none
    | some s' => loopM body xs s'

/-- the values of i in ` + "`for i := lo; i < hi; i++`" + ` -/
def intRange (lo hi : Int) : List Int := (List.range (hi - lo).toNat).map (fun k => lo + Int.ofNat k)

/-- the (index, element) pairs of ` + "`for i, x := range xs`" + ` -/
def enumInt {α : Type} (xs : List α) : List (Int × α) := (intRange 0 (Int.ofNat xs.length)).zip xs

/-- xs[i]: none = index out of range (Go panics) -/
def sliceAt {α : Type} (xs : List α) (i : Int) : Option α := if i < 0 then none else xs[i.toNat]?

`

func translateWriters(repo string) (string, error) {
	root, err := wrLoad(repo, "", "")
	if err != nil {
		return "", err
	}
	geom, err := wrLoad(filepath.Join(repo, "geometry"), "geometry", "geometry/")
	if err != nil {
		return "", err
	}
	t := &wrT{root: root, geom: geom, fns: map[string]*wrFn{}, ops: map[string]wrOp{},
		tparams: map[string]string{}, recMethods: map[string]bool{}}
	keys := t.discover()
	if len(keys) == 0 {
		return "", fmt.Errorf("no writer found in %s", repo)
	}
	for _, k := range keys {
		d := root.funcs[k]
		fn := &wrFn{key: k, lean: strings.Replace(k, ".", "_", 1), decl: d}
		t.fns[k] = fn
		if d.Recv != nil {
			t.recMethods[d.Name.Name] = true
		}
		t.prepare(fn)
	}
	for _, k := range keys {
		t.translate(t.fns[k])
	}
	var b strings.Builder
	b.WriteString(wrHeader)
	tps := []string{}
	for k := range t.tparams {
		tps = append(tps, k)
	}
	sort.Strings(tps)
	all := append([]string{"Buf", "F"}, tps...)
	tp := " " + strings.Join(all, " ")
	b.WriteString("/-- the operations and callees of the writers, one field per distinct one found in the source.\n")
	b.WriteString("    Buf = []byte, F = float64")
	for _, k := range tps {
		b.WriteString(", " + k + " = " + strings.TrimPrefix(t.tparams[k], "Go type "))
	}
	b.WriteString(" -/\nstructure Ops (" + strings.Join(all, " ") + " : Type) where\n")
	ops := []string{}
	for k := range t.ops {
		ops = append(ops, k)
	}
	sort.Strings(ops)
	for _, k := range ops {
		fmt.Fprintf(&b, "  /-- %s -/\n  %s : %s\n", t.ops[k].doc, k, t.ops[k].ty)
	}
	b.WriteString("\nvariable {" + strings.Join(all, " ") + " : Type}\n\n")
	b.WriteString("/-- `Ops` at the type parameters of this file -/\nlocal notation \"OPS\" => Ops" + tp + "\n\n")
	for _, k := range t.order {
		b.WriteString(t.fns[k].text + "\n")
	}
	for _, k := range keys {
		if fn := t.fns[k]; fn.bad != "" {
			fmt.Fprintf(&b, "-- UNRECOGNISED %s: %s\nopaque %s_unrecognised : Unit\n\n", k, strings.ReplaceAll(fn.bad, "\n", " "), fn.lean)
		}
	}
	b.WriteString("end Geo.WGen\n")
	return b.String(), nil
}
