/-
  GeoProofs.Glue.ParseGluePoly4 — parseJSONPolygonCoords = parsePolyCoords; the linear-ring test and the
  AllowRects test of the generated parseJSONPolygon against the model's ringOK / isRectRing (finite positions).
-/
import GeoProofs.Glue.ParseGluePoly3

set_option linter.unusedSimpArgs false

namespace Geo.PGlue
open Geo Geo.PGen

theorem polyCoords_some (rec : RecT) (keys : Option GKeys) (opts : Option GOpts) (rc : JVal) :
    match parsePolyCoords rc with
    | .ok (rings, ex) =>
      (PGen.parseJSONPolygonCoords (mops rec) keys (some rc) opts).1.map (·.map toPos) = rings ∧
      (PGen.parseJSONPolygonCoords (mops rec) keys (some rc) opts).2.1.map exM = ex ∧
      (PGen.parseJSONPolygonCoords (mops rec) keys (some rc) opts).2.2 = none
    | .error e => e = .coordsInvalid ∧
      (PGen.parseJSONPolygonCoords (mops rec) keys (some rc) opts).2.2 = some .errCoordinatesInvalid := by
  have hf := poly_fold rec rc.elems (forEach (some rc)) (forEach_vals rc) [] none 0 [] {} ⟨rfl, rfl, rfl⟩
  unfold parsePolyCoords
  unfold PGen.parseJSONPolygonCoords
  simp only [m_gjsonResultExists, m_gjsonResultForEach, Option.isSome_some, Bool.not_true, Bool.false_eq_true, if_false]
  cases hl : parsePolyCoordsLoop rc.elems [] {} with
  | error e =>
    rw [hl] at hf
    obtain ⟨he, h1⟩ := hf
    simp [bind, Except.bind, he, h1]
  | ok r =>
    obtain ⟨ps, st⟩ := r
    rw [hl] at hf
    obtain ⟨c', e', d', hs, hrel⟩ := hf
    simp [bind, Except.bind, pure, Except.pure, hs, hrel.acc_eq, hrel.ex_eq]

theorem polyCoords_none (rec : RecT) (gk : GKeys) (opts : Option GOpts) :
    PGen.parseJSONPolygonCoords (mops rec) (some gk) none opts =
      match gk.rCoordinates with
      | none => ([], none, some .errCoordinatesMissing)
      | some rc => if !rc.isArray then ([], none, some .errCoordinatesInvalid)
                   else PGen.parseJSONPolygonCoords (mops rec) (some gk) (some rc) opts := by
  cases h : gk.rCoordinates with
  | none => unfold PGen.parseJSONPolygonCoords; simp [h]
  | some rc =>
    cases hb : rc.isArray with
    | false => unfold PGen.parseJSONPolygonCoords; simp [h, hb]
    | true => simp only [Bool.not_true, Bool.false_eq_true, if_false]; unfold PGen.parseJSONPolygonCoords; simp [h, hb]

#print axioms polyCoords_some

def finFP (p : FP) : Bool := p.1.fin && p.2.fin

theorem toPos_fin (p : FP) : (toPos p).fin = finFP p := rfl

theorem mfEq_fin (a b : MF) (ha : a.fin = true) (hb : b.fin = true) : mfEq a b = (a.val == b.val) := by
  simp [mfEq, MF.isNaN, ha, hb]

theorem mfLt_fin (a b : MF) (ha : a.fin = true) (hb : b.fin = true) : mfLt a b = decide (a.val < b.val) := by
  simp [mfLt, MF.isNaN, ha, hb]

theorem pointEq_fin (a b : FP) (ha : finFP a = true) (hb : finFP b = true) :
    (mfEq a.1 b.1 && mfEq a.2 b.2) = ((toPos a).p == (toPos b).p) := by
  simp only [finFP, Bool.and_eq_true] at ha hb
  rw [mfEq_fin _ _ ha.1 hb.1, mfEq_fin _ _ ha.2 hb.2]
  simp only [toPos, mkPos, MF.ord]
  have e : ((⟨a.1.val, a.2.val⟩ : Pt) == ⟨b.1.val, b.2.val⟩) = decide ((⟨a.1.val, a.2.val⟩ : Pt) = ⟨b.1.val, b.2.val⟩) := rfl
  rw [e]
  simp [Pt.mk.injEq]
  rfl

/-- the generated linear-ring test on one ring -/
def ringBadG (rec : RecT) (p : List FP) : Bool :=
  decide ((Int.ofNat p.length) < (4 : Int)) ||
    !((mops rec).geometryPointEq (arrAt (mops rec).zeroGeometryPoint p 0) (arrAt (mops rec).zeroGeometryPoint p (Int.ofNat p.length - 1)))

theorem ringBad_eq (rec : RecT) (r : List FP) (hfin : ∀ p ∈ r, finFP p = true) :
    ringBadG rec r = !ringOK (r.map toPos) := by
  unfold ringBadG ringOK
  by_cases h4 : r.length < 4
  · have : (Int.ofNat r.length < 4) := by simp; omega
    have h4' : ¬ (4 ≤ r.length) := by omega
    have hd : decide ((r.length : Int) < 4) = true := by simpa using this
    simp [h4', hd]
  · have hn : ¬ (Int.ofNat r.length < 4) := by simp; omega
    have hge : 4 ≤ r.length := by omega
    obtain ⟨a, t, rfl⟩ : ∃ a t, r = a :: t := by cases r with | nil => simp at hge | cons a t => exact ⟨a, t, rfl⟩
    obtain ⟨mid, b, rfl⟩ : ∃ mid b, t = mid ++ [b] := by
      rcases List.eq_nil_or_concat t with h | ⟨m, b, h⟩
      · subst h; simp at hge
      · exact ⟨m, b, by simpa using h⟩
    have hl : Int.ofNat (a :: (mid ++ [b])).length - 1 = ((a :: mid).length : Int) := by simp
    have hlast : arrAt (mops rec).zeroGeometryPoint (a :: (mid ++ [b])) (Int.ofNat (a :: (mid ++ [b])).length - 1) = b := by
      rw [hl]; exact arrAt_last _ (a :: mid) b
    have h0 : arrAt (mops rec).zeroGeometryPoint (a :: (mid ++ [b])) 0 = a := by simp [arrAt]
    have ha := hfin a (by simp)
    have hb := hfin b (by simp)
    rw [hlast, h0, m_geometryPointEq]
    simp only []
    rw [pointEq_fin a b ha hb]
    have hge' : 4 ≤ (List.map toPos (a :: (mid ++ [b]))).length := by simpa using hge
    have hgl : (List.map toPos (a :: (mid ++ [b]))).getLast? = some (toPos b) := by
      have : List.map toPos (a :: (mid ++ [b])) = (toPos a :: List.map toPos mid) ++ [toPos b] := by simp
      rw [this, List.getLast?_append]; simp
    have hhd : (List.map toPos (a :: (mid ++ [b]))).head? = some (toPos a) := by simp
    have hd : decide (Int.ofNat (a :: (mid ++ [b])).length < 4) = false := by simpa using hn
    rw [hgl, hhd, hd]
    simp [hge', toPos_fin, ha, hb]
    intro h; simp at hge; omega

end Geo.PGlue
