/-
  GeoProofs.Glue.RingGlueFold — generic lemmas: the generated control structures (searchFold over
  the recorded visit list, forRange over intRange) against the model's (Ring.search as foldUntil
  over a visit list, List.all / List.any over List.range).
-/
import GeoProofs.Glue.RingGlue
set_option linter.unusedSimpArgs false
set_option linter.unusedTactic false
set_option linter.unreachableTactic false

namespace Geo.RGlue
open Geo

theorem record_fold {β ε : Type} (g : β → ε) (l : List β) (acc : List ε) :
    (foldUntil (fun (acc : List ε) i => (acc ++ [g i], true)) acc l).1 = acc ++ l.map g := by
  induction l generalizing acc with
  | nil => simp [foldUntil]
  | cons x xs ih => simp [foldUntil, ih]

/-- the recorded visit list of an exact search is the visit list -/
theorem visits_of_foldOn {r : Ring} {q : Box} {l : List Nat} (h : r.FoldOn q l) :
    visits r q = l.map (fun i => (r.segmentAt i, (i : Int))) := by
  unfold visits
  rw [h.2]
  have := record_fold (fun i : Nat => (r.segmentAt i, (i : Int))) l []
  simpa using this

theorem searchFold_map {ε σ β : Type} (f : ε → σ → σ × Bool) (g : β → ε) (l : List β) (st : σ) :
    RGen.searchFold f (l.map g) st = (foldUntil (fun st i => f (g i) st) st l).1 := by
  induction l generalizing st with
  | nil => rfl
  | cons x xs ih =>
    simp only [List.map_cons, RGen.searchFold, foldUntil]
    cases h : f (g x) st with
    | mk s' c =>
      cases c with
      | true => simp [ih]
      | false => simp

theorem foldUntil_sim {σ τ β : Type} (Rel : σ → τ → Prop) (f : σ → β → σ × Bool)
    (g : τ → β → τ × Bool)
    (h : ∀ s t x, Rel s t → Rel (f s x).1 (g t x).1 ∧ (f s x).2 = (g t x).2) :
    ∀ (l : List β) (s : σ) (t : τ), Rel s t → Rel (foldUntil f s l).1 (foldUntil g t l).1 := by
  intro l
  induction l with
  | nil => intro s t hst; exact hst
  | cons x xs ih =>
    intro s t hst
    obtain ⟨h1, h2⟩ := h s t x hst
    simp only [foldUntil]
    cases hf : f s x with
    | mk s' c =>
      cases hg : g t x with
      | mk t' d =>
        rw [hf, hg] at h1 h2
        simp only at h1 h2
        subst h2
        cases c with
        | true => simpa using ih s' t' h1
        | false => simpa using h1

/-- **search simulation**: the model's callback search and the generated fold over the recorded
    visit list end in related states when their steps preserve the relation and agree on whether
    to go on -/
theorem search_sim {r : Ring} (hr : Exact r) (q : Box) {σ τ : Type} (Rel : σ → τ → Prop)
    (F : σ → Seg → Nat → σ × Bool) (G : Seg × Int → τ → τ × Bool)
    (h : ∀ s t seg (i : Nat), Rel s t →
      Rel (F s seg i).1 (G (seg, (i : Int)) t).1 ∧ (F s seg i).2 = (G (seg, (i : Int)) t).2)
    (s0 : σ) (t0 : τ) (h0 : Rel s0 t0) :
    Rel (r.search q F s0) (RGen.searchFold G (visits r q) t0) := by
  obtain ⟨l, hl⟩ := hr q
  rw [visits_of_foldOn hl, searchFold_map, hl.2]
  exact foldUntil_sim Rel _ _ (fun s t i hst => h s t (r.segmentAt i) i hst) l s0 t0 h0

/-- equality form: the generated state is a function of the model's -/
theorem search_eq {r : Ring} (hr : Exact r) (q : Box) {σ τ : Type} (φ : σ → τ)
    (F : σ → Seg → Nat → σ × Bool) (G : Seg × Int → τ → τ × Bool)
    (h : ∀ s seg (i : Nat), (G (seg, (i : Int)) (φ s)).1 = φ (F s seg i).1 ∧
      (F s seg i).2 = (G (seg, (i : Int)) (φ s)).2)
    (s0 : σ) : RGen.searchFold G (visits r q) (φ s0) = φ (r.search q F s0) :=
  search_sim hr q (fun s t => t = φ s) F G
    (fun s t seg i hst => by subst hst; exact ⟨(h s seg i).1, (h s seg i).2⟩) s0 (φ s0) rfl

/-! ### counting loops -/

theorem intRange_zero (n : Nat) : RGen.intRange 0 (n : Int) = (List.range n).map Int.ofNat := by
  unfold RGen.intRange
  simp

theorem forRange_all (P : Int → Bool) (l : List Int) :
    RGen.forRange (σ := Unit) (ρ := Bool)
      (fun i _ => if (!P i) = true then RGen.Flow.ret false else RGen.Flow.next ()) l () =
    if l.all P = true then RGen.Exit.done () else RGen.Exit.ret false := by
  induction l with
  | nil => rfl
  | cons x xs ih =>
    simp only [RGen.forRange, List.all_cons]
    by_cases hx : P x = true
    · simp only [hx, Bool.not_true, Bool.false_eq_true, ↓reduceIte, Bool.true_and, Bool.true_or]
      first | done | exact ih | rfl
    · have hx' : P x = false := by simpa using hx
      simp only [hx', Bool.not_false, Bool.false_eq_true, ↓reduceIte, Bool.false_and, Bool.false_or]
      first | done | exact ih | rfl

theorem forRange_any (P : Int → Bool) (l : List Int) :
    RGen.forRange (σ := Unit) (ρ := Bool)
      (fun i _ => if P i = true then RGen.Flow.ret true else RGen.Flow.next ()) l () =
    if l.any P = true then RGen.Exit.ret true else RGen.Exit.done () := by
  induction l with
  | nil => rfl
  | cons x xs ih =>
    simp only [RGen.forRange, List.any_cons]
    by_cases hx : P x = true
    · simp only [hx, Bool.not_true, Bool.false_eq_true, ↓reduceIte, Bool.true_and, Bool.true_or]
      first | done | exact ih | rfl
    · have hx' : P x = false := by simpa using hx
      simp only [hx', Bool.not_false, Bool.false_eq_true, ↓reduceIte, Bool.false_and, Bool.false_or]
      first | done | exact ih | rfl

end Geo.RGlue
