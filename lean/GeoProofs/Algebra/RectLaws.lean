/-
  GeoProofs.Algebra.RectLaws — the rectangle pre-tests and emptiness tests of the ring / line /
  polygon predicates (no hypothesis on the series at all), and what `Line.containsLine` says about
  the FIRST segment of its argument.
-/
import GeoProofs.Algebra.LeafWF

namespace Geo
open GL

/-! ### intersects: rectangle pre-tests -/

theorem ringIntersectsLine_rect (r : Ring) (l : Line) (b : Bool) (h : ringIntersectsLine r l b = true) :
    r.rect.intersects l.rect = true := by
  cases hr : r.rect.intersects l.rect with
  | true => rfl
  | false => simp [ringIntersectsLine, hr] at h

theorem ringIntersectsRing_rect (r o : Ring) (b : Bool) (h : ringIntersectsRing r o b = true) :
    r.rect.intersects o.rect = true := by
  cases hr : r.rect.intersects o.rect with
  | true => rfl
  | false => simp [ringIntersectsRing, hr] at h

theorem Line.intersectsLine_rect (l m : Line) (h : l.intersectsLine m = true) :
    l.rect.intersects m.rect = true := by
  cases hr : l.rect.intersects m.rect with
  | true => rfl
  | false => simp [Line.intersectsLine, hr] at h

theorem Poly.intersectsLine_rect (p : Poly) (l : Line) (h : p.intersectsLine l = true) :
    p.rect.intersects l.rect = true := by
  unfold Poly.intersectsLine at h
  unfold Poly.rect
  cases he : p.ext with
  | none => rw [he] at h; cases h
  | some e =>
    rw [he] at h
    simp only at h ⊢
    by_cases hh : ringIntersectsLine e l true = true
    · exact ringIntersectsLine_rect e l true hh
    · simp [hh] at h

theorem Poly.intersectsPoly_rect (p o : Poly) (h : p.intersectsPoly o = true) :
    o.rect.intersects p.rect = true := by
  unfold Poly.intersectsPoly at h
  unfold Poly.rect
  cases he : p.ext with
  | none => rw [he] at h; cases h
  | some e =>
    cases ho : o.ext with
    | none => rw [he, ho] at h; cases h
    | some oe =>
      rw [he, ho] at h
      simp only at h ⊢
      by_cases hh : ringIntersectsRing oe e true = true
      · exact ringIntersectsRing_rect oe e true hh
      · simp [hh] at h

theorem Box.asPoly_rect (r : Box) : r.asPoly.rect = r := rfl

/-! ### contains: rectangle pre-tests -/

theorem ringContainsRingBody_rect (r o : Ring) (b : Bool) (h : ringContainsRingBody r o b = true) :
    r.rect.containsBox o.rect = true := by
  cases hr : r.rect.containsBox o.rect with
  | true => rfl
  | false => simp [ringContainsRingBody, hr] at h

theorem ringContainsRing_rect (r o : Ring) (b : Bool) (h : ringContainsRing r o b = true) :
    r.rect.containsBox o.rect = true := by
  unfold ringContainsRing at h
  by_cases h1 : (r.empty || o.empty) = true
  · rw [if_pos h1] at h; cases h
  rw [if_neg h1] at h
  by_cases h2 : (decide (o.numPoints ≥ complexRingMinPoints) &&
      ringContainsRingBody r (.bx o.rect) b) = true
  · rw [Bool.and_eq_true] at h2
    exact ringContainsRingBody_rect r (.bx o.rect) b h2.2
  · rw [if_neg h2] at h
    exact ringContainsRingBody_rect r o b h

theorem Poly.containsLine_rect (p : Poly) (l : Line) (h : p.containsLine l = true) :
    p.rect.containsBox l.rect = true := by
  unfold Poly.containsLine at h
  unfold Poly.rect
  cases he : p.ext with
  | none => rw [he] at h; cases h
  | some e =>
    rw [he] at h
    simp only at h ⊢
    by_cases hh : ringContainsLine e l true = true
    · exact ringContainsRing_rect e (.ser l) true hh
    · simp [hh] at h

theorem Poly.containsPoly_rect (p o : Poly) (h : p.containsPoly o = true) :
    p.rect.containsBox o.rect = true := by
  unfold Poly.containsPoly at h
  unfold Poly.rect
  cases he : p.ext with
  | none => rw [he] at h; cases h
  | some e =>
    cases ho : o.ext with
    | none => rw [he, ho] at h; cases h
    | some oe =>
      rw [he, ho] at h
      simp only at h ⊢
      by_cases hh : ringContainsRing e oe true = true
      · exact ringContainsRing_rect e oe true hh
      · simp [hh] at h

/-! ### `Line.containsLine`: the first segment of the argument lies on a segment of the receiver -/

theorem Line.containsLine_first (l m : Line) (h : l.containsLine m = true) :
    l.empty = false ∧ m.empty = false ∧
      ∃ j, j < l.numSegments ∧ (l.segmentAt j).containsSeg (m.segmentAt 0) = true := by
  unfold Line.containsLine Line.containsLineO at h
  by_cases h1 : (l.empty || m.empty) = true
  · rw [if_pos h1] at h; cases h
  rw [if_neg h1] at h
  simp only [Bool.or_eq_true, not_or, Bool.not_eq_true] at h1
  refine ⟨h1.1, h1.2, ?_⟩
  simp only at h
  cases hf : (List.range l.numSegments).find? (fun j => (l.segmentAt j).containsSeg (m.segmentAt 0)) with
  | none => rw [hf] at h; cases h
  | some j =>
    exact ⟨j, List.mem_range.1 (List.mem_of_find?_eq_some hf), by simpa using List.find?_some hf⟩

theorem containsBox_of_corners (r o : Box) (h1 : r.containsPt o.min = true) (h2 : r.containsPt o.max = true) :
    r.containsBox o = true := by
  rw [containsPt_iff] at h1 h2
  rw [containsBox_iff]
  exact ⟨h1.1, h2.2.1, h1.2.2.1, h2.2.2.2⟩

/-- `Line.ContainsPoly` / `ContainsRect`: the argument's rectangle is degenerate and its diagonal
    lies on ONE segment of the receiver -/
theorem Line.containsPoly_diag (l : Line) (p : Poly) (h : l.containsPoly p = true) :
    l.empty = false ∧ p.empty = false ∧
      ∃ j, j < l.numSegments ∧ OnSeg (l.segmentAt j).a (l.segmentAt j).b p.rect.min ∧
        OnSeg (l.segmentAt j).a (l.segmentAt j).b p.rect.max := by
  unfold Line.containsPoly at h
  by_cases h1 : (l.empty || p.empty) = true
  · rw [if_pos h1] at h; cases h
  rw [if_neg h1] at h
  simp only [Bool.or_eq_true, not_or, Bool.not_eq_true] at h1
  refine ⟨h1.1, h1.2, ?_⟩
  simp only at h
  split_ifs at h with h2
  obtain ⟨-, -, j, hj, hc⟩ := Line.containsLine_first _ _ h
  rw [segContainsSeg_iff] at hc
  exact ⟨j, hj, hc⟩

theorem Series.WF.containsPoly_rect {l : Line} (hl : l.WF) (p : Poly) (h : l.containsPoly p = true) :
    l.rect.containsBox p.rect = true := by
  obtain ⟨-, -, j, hj, h1, h2⟩ := Line.containsPoly_diag l p h
  exact containsBox_of_corners _ _ (hl.onSeg_in_rect j hj _ h1) (hl.onSeg_in_rect j hj _ h2)

end Geo
