/-
  GeoProofs.Float.Round — IEEE-754 binary64 values and round-to-nearest-even, as rationals.

  * `F64 x`  : x is a finite binary64 value, x = m·2^e, |m| < 2^53, -1074 ≤ e ≤ 971.
  * `rn x`   : x rounded to 53 significant bits (ties to even), with the subnormal clamp
               (ulp never below 2^-1074).  The exponent range is NOT clamped above: `rn x` is
               the IEEE result exactly when no overflow occurs, `InRange x`
               (|x| < 2^1024 - 2^970).  Every quantity in the geometry kernels on the regime E
               is below 2^60 in magnitude, so the overflow side never matters; the underflow
               side does (the `Nextafter` nudge at 0 produces 2^-1074) and is modelled.
  * signed zeros are not represented: `rn` returns the rational 0.  IEEE comparisons do not
    distinguish -0 from +0; the only operation that does is division BY zero, handled in
    `KernelF.lean` (all zero denominators there are exact differences x - x = +0).
-/
import GeoProofs.Float.Rne
import Mathlib.Data.Int.Log
import Mathlib.Tactic.Positivity
import Mathlib.Tactic.FieldSimp

namespace Geo.F

/-- ⌊log₂ |x|⌋ (0 for x = 0) -/
def ilog (x : ℚ) : ℤ := Int.log 2 |x|

/-- exponent of the unit in the last place for the binade of `x` -/
def expo (x : ℚ) : ℤ := max (ilog x - 52) (-1074)

def ulp (x : ℚ) : ℚ := (2 : ℚ) ^ expo x

/-- round to nearest, ties to even, 53-bit significand, gradual underflow, no overflow -/
def rn (x : ℚ) : ℚ := rne (x / ulp x) * ulp x

/-- finite binary64 values -/
def F64 (x : ℚ) : Prop :=
  ∃ m e : ℤ, |m| < 2 ^ 53 ∧ -1074 ≤ e ∧ e ≤ 971 ∧ x = m * (2 : ℚ) ^ e

/-- no overflow: below the IEEE overflow threshold -/
def InRange (x : ℚ) : Prop := |x| < 2 ^ (1024 : ℤ) - 2 ^ (970 : ℤ)

/-! ### powers of two -/

theorem two_zpow_pos (k : ℤ) : (0 : ℚ) < 2 ^ k := zpow_pos (by norm_num) k

theorem zpow_eq_int_mul {k u : ℤ} (h : u ≤ k) :
    (2 : ℚ) ^ k = (((2 : ℤ) ^ (k - u).toNat : ℤ) : ℚ) * 2 ^ u := by
  push_cast
  rw [← zpow_natCast, Int.toNat_of_nonneg (by omega), ← zpow_add₀ (by norm_num)]
  congr 1; ring

theorem two_zpow_le {a b : ℤ} (h : a ≤ b) : (2 : ℚ) ^ a ≤ 2 ^ b :=
  zpow_le_zpow_right₀ (by norm_num) h

theorem two_zpow_lt {a b : ℤ} (h : a < b) : (2 : ℚ) ^ a < 2 ^ b :=
  zpow_lt_zpow_right₀ (by norm_num) h

/-! ### ilog -/

theorem ilog_neg (x : ℚ) : ilog (-x) = ilog x := by simp [ilog]

theorem zpow_ilog_le {x : ℚ} (h : x ≠ 0) : (2 : ℚ) ^ ilog x ≤ |x| := by
  have := Int.zpow_log_le_self (b := 2) (r := |x|) (by norm_num) (abs_pos.mpr h)
  simpa [ilog] using this

theorem lt_zpow_ilog (x : ℚ) : |x| < (2 : ℚ) ^ (ilog x + 1) := by
  have := Int.lt_zpow_succ_log_self (b := 2) (by norm_num) |x|
  simpa [ilog] using this

theorem ilog_mono {x y : ℚ} (hx : x ≠ 0) (h : |x| ≤ |y|) : ilog x ≤ ilog y :=
  Int.log_mono_right (abs_pos.mpr hx) h

theorem ilog_lt_of_lt {x : ℚ} {k : ℤ} (hx : x ≠ 0) (h : |x| < 2 ^ k) : ilog x < k := by
  have := (Int.lt_zpow_iff_log_lt (b := 2) (by norm_num) (x := k) (abs_pos.mpr hx)).mp
    (by simpa using h)
  simpa [ilog] using this

theorem le_ilog_of_le {x : ℚ} {k : ℤ} (hx : x ≠ 0) (h : 2 ^ k ≤ |x|) : k ≤ ilog x := by
  have := (Int.zpow_le_iff_le_log (b := 2) (by norm_num) (x := k) (abs_pos.mpr hx)).mp
    (by simpa using h)
  simpa [ilog] using this

theorem expo_neg (x : ℚ) : expo (-x) = expo x := by simp [expo, ilog_neg]

theorem ulp_neg (x : ℚ) : ulp (-x) = ulp x := by simp [ulp, expo_neg]

theorem ulp_pos (x : ℚ) : 0 < ulp x := two_zpow_pos _

theorem expo_mono {x y : ℚ} (hx : x ≠ 0) (h : |x| ≤ |y|) : expo x ≤ expo y := by
  have := ilog_mono hx h
  unfold expo; omega

/-! ### basic facts about rn -/

@[simp] theorem rn_zero : rn 0 = 0 := by simp [rn, rne]

theorem rn_neg (x : ℚ) : rn (-x) = -rn x := by
  unfold rn
  rw [ulp_neg, neg_div, rne_neg]
  push_cast; ring

/-- a point of x's own grid above x stays above rn x -/
theorem rn_le_of_le_grid {x c : ℚ} (m : ℤ) (hc : c = m * ulp x) (h : x ≤ c) : rn x ≤ c := by
  have hu := ulp_pos x
  have h1 : x / ulp x ≤ (m : ℚ) := by
    rw [div_le_iff₀ hu]; rw [← hc]; exact h
  have h2 := rne_le h1
  rw [hc]; unfold rn
  exact mul_le_mul_of_nonneg_right (by exact_mod_cast h2) hu.le

theorem le_rn_of_grid_le {x c : ℚ} (m : ℤ) (hc : c = m * ulp x) (h : c ≤ x) : c ≤ rn x := by
  have hu := ulp_pos x
  have h1 : (m : ℚ) ≤ x / ulp x := by
    rw [le_div_iff₀ hu]; rw [← hc]; exact h
  have h2 := le_rne h1
  rw [hc]; unfold rn
  exact mul_le_mul_of_nonneg_right (by exact_mod_cast h2) hu.le

theorem rn_nonneg {x : ℚ} (h : 0 ≤ x) : 0 ≤ rn x :=
  le_rn_of_grid_le 0 (by simp) h

theorem rn_nonpos {x : ℚ} (h : x ≤ 0) : rn x ≤ 0 :=
  rn_le_of_le_grid 0 (by simp) h

theorem abs_rn_sub_le (x : ℚ) : |rn x - x| ≤ ulp x / 2 := by
  have hu := ulp_pos x
  have h := abs_rne_sub_le (x / ulp x)
  have e : rn x - x = ((rne (x / ulp x) : ℚ) - x / ulp x) * ulp x := by
    unfold rn; field_simp
  rw [e, abs_mul, abs_of_pos hu]
  calc _ ≤ 1 / 2 * ulp x := mul_le_mul_of_nonneg_right h hu.le
    _ = ulp x / 2 := by ring

end Geo.F
