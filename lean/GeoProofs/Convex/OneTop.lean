/-
  GeoProofs.Convex.OneTop — a simple closed chain with only left turns and no horizontal edge has
  exactly one local top: the forbidden configuration lemma.

  `LT P n`: `P` is an `n`-periodic vertex sequence of a simple closed chain with turns `≥ 0`
  and no horizontal edge.  `noConfigI`: there are no consecutive strictly monotone arcs
  "down `t..s0`, up `s0..r`, down `r..s`" spanning less than a period with the first top at least
  as high as the second and the second bottom at most as high as the first.  The proof is the
  open-chain Jordan identity applied to the hook `s0..r..s` and the walkers `t..s0`, `s0..r`.
-/
import GeoProofs.Convex.Chain
import GeoProofs.Convex.Ring0
import GeoProofs.Convex.Support

namespace Geo
namespace Cvx
open Jordan

structure LT (P : Nat → Pt) (n : Nat) : Prop extends Simple0 P n where
  turn : ∀ i, 0 ≤ Spec.cross (P i) (P (i+1)) (P (i+2))
  nh : ∀ i, (P i).y ≠ (P (i+1)).y

theorem LT.rot {P : Nat → Pt} {n : Nat} (h : LT P n) : LT (fun i => rot (P i)) n where
  toSimple0 := h.toSimple0.map rotOK
  turn := fun i => by rw [rotOK.cross, one_mul]; exact h.turn i
  nh := fun i hh => by rw [rot_y, rot_y] at hh; exact h.nh i (neg_injective hh)

/-- strictly ascending on the index interval `[a, b)` -/
def Asc (P : Nat → Pt) (a b : Nat) : Prop := ∀ l, a ≤ l → l < b → (P l).y < (P (l+1)).y
/-- strictly descending on the index interval `[a, b)` -/
def Desc (P : Nat → Pt) (a b : Nat) : Prop := ∀ l, a ≤ l → l < b → (P (l+1)).y < (P l).y

theorem Asc.le {P : Nat → Pt} {a b : Nat} (h : Asc P a b) {i : Nat} (hi : a ≤ i) :
    ∀ j, i ≤ j → j ≤ b → (P i).y ≤ (P j).y := by
  intro j hij
  induction j, hij using Nat.le_induction with
  | base => intro _; exact le_rfl
  | succ j hj ih =>
    intro hjb
    exact le_trans (ih (by omega)) (h j (by omega) (by omega)).le

theorem Asc.lt {P : Nat → Pt} {a b : Nat} (h : Asc P a b) {i j : Nat} (hi : a ≤ i) (hij : i < j)
    (hj : j ≤ b) : (P i).y < (P j).y :=
  lt_of_lt_of_le (h i hi (by omega)) (h.le (by omega) j (by omega) hj)

theorem Desc.le {P : Nat → Pt} {a b : Nat} (h : Desc P a b) {i : Nat} (hi : a ≤ i) :
    ∀ j, i ≤ j → j ≤ b → (P j).y ≤ (P i).y := by
  intro j hij
  induction j, hij using Nat.le_induction with
  | base => intro _; exact le_rfl
  | succ j hj ih =>
    intro hjb
    exact le_trans (h j (by omega) (by omega)).le (ih (by omega))

theorem Desc.lt {P : Nat → Pt} {a b : Nat} (h : Desc P a b) {i j : Nat} (hi : a ≤ i) (hij : i < j)
    (hj : j ≤ b) : (P j).y < (P i).y :=
  lt_of_le_of_lt (h.le (by omega) j (by omega) hj) (h i hi (by omega))

/-! ### small geometric helpers -/

theorem exists_near_bot (m d c : Rat) (hd : m < d) (hc : m < c) :
    ∃ τ : Rat, 0 < τ ∧ τ ≤ 1 ∧ m + τ * (d - m) < c := by
  by_cases h : d < c
  · exact ⟨1, by norm_num, le_rfl, by linarith⟩
  · have hdm : 0 < d - m := by linarith
    refine ⟨(c - m) / (2 * (d - m)), by positivity, ?_, ?_⟩
    · rw [div_le_one (by positivity)]; linarith
    · have : (c - m) / (2 * (d - m)) * (d - m) = (c - m) / 2 := by field_simp
      rw [this]; linarith
  
theorem exists_near_top (M a c : Rat) (ha : a < M) (hc : c < M) :
    ∃ τ : Rat, 0 < τ ∧ τ ≤ 1 ∧ c < M + τ * (a - M) := by
  obtain ⟨τ, h0, h1, h2⟩ := exists_near_bot (-M) (-a) (-c) (by linarith) (by linarith)
  exact ⟨τ, h0, h1, by nlinarith⟩

theorem onSeg_pointAt (a b : Pt) (τ : Rat) (h0 : 0 ≤ τ) (h1 : τ ≤ 1) :
    OnSeg a b (Spec.pointAt a b τ) :=
  (K.onSeg_iff_param a b _).2 ⟨τ, h0, h1, rfl, rfl⟩

theorem cross_pointAt (a b c : Pt) (τ : Rat) :
    Spec.cross a c (Spec.pointAt a b τ) = τ * Spec.cross a c b := by
  simp only [K.cross_def, Spec.pointAt]; ring

theorem pointAt_y (a b : Pt) (τ : Rat) : (Spec.pointAt a b τ).y = a.y + τ * (b.y - a.y) := rfl

/-- three collinear points with the middle one a strict vertical extremum fold back -/
theorem foldback {a b c : Pt} (h : Spec.cross a b c = 0)
    (hv : (b.y < a.y ∧ b.y < c.y) ∨ (a.y < b.y ∧ c.y < b.y)) : OnSeg a b c ∨ OnSeg b c a := by
  rw [K.cross_def] at h
  by_cases hca : (b.y < a.y ∧ c.y ≤ a.y) ∨ (a.y < b.y ∧ a.y ≤ c.y)
  · left
    have hne : b.y - a.y ≠ 0 := by rcases hca with h' | h' <;> intro h0 <;> linarith [h'.1]
    refine (K.onSeg_iff_param a b c).2 ⟨(c.y - a.y) / (b.y - a.y), ?_, ?_, ?_, ?_⟩
    · rcases hca with h' | h'
      · exact div_nonneg_of_nonpos (by linarith [h'.2]) (by linarith [h'.1])
      · exact div_nonneg (by linarith [h'.2]) (by linarith [h'.1])
    · rcases hca with h' | h'
      · rw [div_le_one_of_neg (by linarith [h'.1])]; rcases hv with hv | hv <;> linarith [hv.1, hv.2, h'.1]
      · rw [div_le_one (by linarith [h'.1])]; rcases hv with hv | hv <;> linarith [hv.1, hv.2, h'.1]
    · field_simp; linarith
    · field_simp; ring
  · right
    have hlt : (b.y < a.y ∧ a.y < c.y) ∨ (a.y < b.y ∧ c.y < a.y) := by
      rcases hv with hv | hv
      · left; refine ⟨hv.1, ?_⟩; by_contra hc; exact hca (Or.inl ⟨hv.1, not_lt.1 hc⟩)
      · right; refine ⟨hv.1, ?_⟩; by_contra hc; exact hca (Or.inr ⟨hv.1, not_lt.1 hc⟩)
    have hne : c.y - b.y ≠ 0 := by rcases hv with h' | h' <;> intro h0 <;> linarith [h'.2]
    refine (K.onSeg_iff_param b c a).2 ⟨(a.y - b.y) / (c.y - b.y), ?_, ?_, ?_, ?_⟩
    · rcases hlt with h' | h'
      · exact div_nonneg (by linarith [h'.1]) (by linarith [h'.1, h'.2])
      · exact div_nonneg_of_nonpos (by linarith [h'.1]) (by linarith [h'.1, h'.2])
    · rcases hlt with h' | h'
      · rw [div_le_one (by linarith [h'.1, h'.2])]; linarith [h'.2]
      · rw [div_le_one_of_neg (by linarith [h'.1, h'.2])]; linarith [h'.2]
    · field_simp; linarith
    · field_simp; ring

theorem LT.turn_pos {P : Nat → Pt} {n : Nat} (h : LT P n) (i : Nat)
    (hv : ((P (i+1)).y < (P i).y ∧ (P (i+1)).y < (P (i+2)).y) ∨
      ((P i).y < (P (i+1)).y ∧ (P (i+2)).y < (P (i+1)).y)) :
    0 < Spec.cross (P i) (P (i+1)) (P (i+2)) := by
  refine lt_of_le_of_ne (h.turn i) (fun h0 => ?_)
  rcases foldback h0.symm hv with h1 | h1
  · exact h.adj1 i h1
  · exact h.adj2 i h1

theorem segsMeet_comm (a b c d : Pt) : SegsMeet a b c d ↔ SegsMeet c d a b :=
  ⟨fun ⟨p, h1, h2⟩ => ⟨p, h2, h1⟩, fun ⟨p, h1, h2⟩ => ⟨p, h2, h1⟩⟩

theorem not_meet_sub {a b c d x y : Pt} (h : ¬ SegsMeet a b c d) (hx : OnSeg c d x)
    (hy : OnSeg c d y) : ¬ SegsMeet a b x y := by
  rintro ⟨z, hz1, hz2⟩
  exact h ⟨z, hz1, K.onSeg_convex hx hy hz2⟩

/-- two edges at index distance between 2 and n-2 are disjoint -/
theorem LT.avoid {P : Nat → Pt} {n : Nat} (h : LT P n) (i j : Nat) (hij : i + 2 ≤ j)
    (hj : j + 2 ≤ i + n) : ¬ SegsMeet (P i) (P (i+1)) (P j) (P (j+1)) := by
  have := h.far i (j - i) (by omega) (by omega)
  rwa [show i + (j - i) = j from by omega] at this

theorem LT.avoid' {P : Nat → Pt} {n : Nat} (h : LT P n) (i j : Nat) (hij : i + 2 ≤ j)
    (hj : j + 2 ≤ i + n) : ¬ SegsMeet (P j) (P (j+1)) (P i) (P (i+1)) :=
  fun hm => h.avoid i j hij hj ((segsMeet_comm _ _ _ _).1 hm)

/-- consecutive edges with a strict turn share only their common vertex -/
theorem adj_only_vertex {a b c z : Pt} (hpos : 0 < Spec.cross a b c) (h1 : OnSeg a b z)
    (h2 : OnSeg b c z) : z = b := by
  obtain ⟨τ, -, -, hx, hy⟩ := (K.onSeg_iff_param b c z).1 h2
  have e := cross_param a b b c z τ hx hy
  have e0 : Spec.cross a b b = 0 := by rw [K.cross_def]; ring
  rw [h1.1, e0, mul_zero, zero_add] at e
  have hτ : τ = 0 := by
    rcases mul_eq_zero.1 e.symm with h | h
    · exact h
    · linarith
  exact (K.pt_eq_iff z b).2 ⟨by rw [hx, hτ]; ring, by rw [hy, hτ]; ring⟩

/-- a sub-segment of the incoming edge that stays strictly on one vertical side of the vertex
    does not meet the outgoing edge -/
theorem adj_sub_avoid {a b c x y : Pt} (hpos : 0 < Spec.cross a b c) (hx : OnSeg a b x)
    (hy : OnSeg a b y)
    (hv : (b.y < x.y ∧ b.y < y.y) ∨ (x.y < b.y ∧ y.y < b.y)) : ¬ SegsMeet b c x y := by
  rintro ⟨z, hz1, hz2⟩
  have hzb := adj_only_vertex hpos (K.onSeg_convex hx hy hz2) hz1
  obtain ⟨-, -, -, h3, h4⟩ := hz2
  rw [hzb] at h3 h4
  rcases hv with hv | hv
  · have := lt_min hv.1 hv.2; linarith
  · have := max_lt hv.1 hv.2; linarith

/-! ### the forbidden configuration: down `t..s0`, up `s0..r`, down `r..s` -/

theorem cross_cyc (a b c : Pt) : Spec.cross b c a = Spec.cross a b c := by
  simp only [K.cross_def]; ring

theorem crosses_true_up {a b x : Pt} (h1 : a.y ≤ x.y) (h2 : x.y < b.y) (h3 : 0 < Spec.cross a b x) :
    Spec.crosses a b x = true := by
  unfold Spec.crosses
  have hab : a.y < b.y := lt_of_le_of_lt h1 h2
  simp [h1, not_le.2 h2, hab, h3]

theorem crosses_false_down {a b x : Pt} (h1 : b.y ≤ x.y) (h2 : x.y < a.y) (h3 : Spec.cross b a x < 0) :
    Spec.crosses a b x = false := by
  unfold Spec.crosses
  have hab : ¬ a.y < b.y := not_lt.2 (le_trans h1 h2.le)
  simp [h1, not_le.2 h2, hab, not_lt.2 h3.le]

set_option linter.unusedSectionVars false

section ConfigI
variable {P : Nat → Pt} {n t u w s : Nat} (h : LT P n)
  (h1 : t ≤ u) (h2 : u + 1 ≤ w) (h3 : w + 1 < s) (h4 : s + 1 ≤ t + n)
  (hD' : Desc P t (u+1)) (hA : Asc P (u+1) (w+1)) (hD : Desc P (w+1) s)
  (hT : (P (w+1)).y ≤ (P t).y) (hB : (P s).y ≤ (P (u+1)).y)
include h h1 h2 h3 h4 hD' hA hD hT hB

/-- every vertex of the hook `u+1..w+1..s` is at or below the top `w+1` -/
theorem hook_le_top (l : Nat) (hl : u + 1 ≤ l) (hls : l ≤ s) : (P l).y ≤ (P (w+1)).y := by
  by_cases hlr : l ≤ w + 1
  · exact hA.le hl (w+1) hlr le_rfl
  · exact hD.le le_rfl l (by omega) hls

/-- L1: the first top `t` is above the whole hook -/
theorem hook_at_top : cpar P (u+1) (s - (u+1)) (P t) = false := by
  refine cpar_false_of_le P (u+1) (P t) (s - (u+1)) (fun l hl => ?_)
  exact le_trans (hook_le_top h h1 h2 h3 h4 hD' hA hD hT hB (u + 1 + l) (by omega) (by omega)) hT

theorem turn_bot : 0 < Spec.cross (P u) (P (u+1)) (P (u+2)) :=
  h.turn_pos u (Or.inl ⟨hD' u h1 (by omega), hA (u+1) le_rfl (by omega)⟩)

theorem turn_top : 0 < Spec.cross (P w) (P (w+1)) (P (w+2)) :=
  h.turn_pos w (Or.inr ⟨hA w (by omega) (by omega), hD (w+1) le_rfl (by omega)⟩)

/-- L4: a point of the last edge of the first descent, just above the bottom `u+1`, is to the
    left of the ascent -/
theorem asc_near_bot (τ : Rat) (hτ0 : 0 < τ) (hτ1 : τ ≤ 1)
    (hq : (Spec.pointAt (P (u+1)) (P u) τ).y < (P (u+2)).y) :
    cpar P (u+1) (w - u) (Spec.pointAt (P (u+1)) (P u) τ) = true := by
  have hdu : (P (u+1)).y < (P u).y := hD' u h1 (by omega)
  have hlow : (P (u+1)).y ≤ (Spec.pointAt (P (u+1)) (P u) τ).y := by
    rw [pointAt_y]; have := mul_pos hτ0 (sub_pos.2 hdu); linarith
  rw [show w - u = (w - u - 1) + 1 from by omega, cpar_succ_left]
  rw [cpar_false_of_gt P (u+1+1) _ (w - u - 1) (fun l hl => ?_)]
  · rw [Bool.xor_false]
    refine crosses_true_up hlow hq ?_
    rw [cross_pointAt, cross_cyc]
    exact mul_pos hτ0 (turn_bot h h1 h2 h3 h4 hD' hA hD hT hB)
  · refine lt_of_lt_of_le hq ?_
    exact hA.le (by omega) (u+1+1+l) (by omega) (by omega)

/-- L5: a point of the last edge of the ascent, just below the top `w+1`, is to the right of
    the second descent -/
theorem desc_near_top (τ : Rat) (hτ0 : 0 < τ) (hτ1 : τ ≤ 1)
    (hq : (P (w+2)).y < (Spec.pointAt (P (w+1)) (P w) τ).y) :
    cpar P (w+1) (s - (w+1)) (Spec.pointAt (P (w+1)) (P w) τ) = false := by
  have hdu : (P w).y < (P (w+1)).y := hA w (by omega) (by omega)
  have hhigh : (Spec.pointAt (P (w+1)) (P w) τ).y < (P (w+1)).y := by
    rw [pointAt_y]; have := mul_pos hτ0 (sub_pos.2 hdu); linarith
  rw [show s - (w+1) = (s - (w+1) - 1) + 1 from by omega, cpar_succ_left]
  rw [cpar_false_of_le P (w+1+1) _ (s - (w+1) - 1) (fun l hl => ?_)]
  · rw [Bool.xor_false]
    refine crosses_false_down hq.le hhigh ?_
    rw [K.cross_swap, cross_pointAt, cross_cyc]
    have := mul_pos hτ0 (turn_top h h1 h2 h3 h4 hD' hA hD hT hB)
    linarith
  · refine le_trans ?_ hq.le
    exact hD.le (by omega) (w+1+1+l) (by omega) (by omega)

/-- L3a: from the point near the bottom to the bottom, the second descent is not crossed -/
theorem walk3a (τ : Rat) (hτ0 : 0 < τ) (hτ1 : τ ≤ 1)
    (hq : (Spec.pointAt (P (u+1)) (P u) τ).y < (P (u+2)).y) :
    cpar P (w+1) (s - (w+1)) (Spec.pointAt (P (u+1)) (P u) τ) =
      cpar P (w+1) (s - (w+1)) (P (u+1)) := by
  have hdu : (P (u+1)).y < (P u).y := hD' u h1 (by omega)
  have hlow : (P (u+1)).y ≤ (Spec.pointAt (P (u+1)) (P u) τ).y := by
    rw [pointAt_y]; have := mul_pos hτ0 (sub_pos.2 hdu); linarith
  have hon : OnSeg (P u) (P (u+1)) (Spec.pointAt (P (u+1)) (P u) τ) :=
    (K.onSeg_symm _ _ _).1 (onSeg_pointAt _ _ τ hτ0.le hτ1)
  have htop : (P (u+2)).y ≤ (P (w+1)).y := hA.le (by omega) (w+1) (by omega) le_rfl
  refine cpar_eq_of_avoid P (w+1) (s - (w+1)) _ _ (fun l hl => ?_) (Or.inr ⟨?_, ?_⟩) (Or.inl ⟨?_, ?_⟩)
  · rw [segsMeet_eq_false_iff]
    exact not_meet_sub (h.avoid' u (w+1+l) (by omega) (by omega)) hon (K.onSeg_right _ _)
  · linarith
  · exact hA.lt le_rfl (by omega) le_rfl
  · rw [show w + 1 + (s - (w+1)) = s from by omega]; linarith
  · rw [show w + 1 + (s - (w+1)) = s from by omega]; exact hB

/-- L3b: along the ascent up to its last vertex but one, the second descent is not crossed -/
theorem walk3b : cpar P (w+1) (s - (w+1)) (P (u+1)) = cpar P (w+1) (s - (w+1)) (P w) := by
  have e := cpar_eq_of_walk P (w+1) (s - (w+1)) (fun j => P (u+1+j)) (w - (u+1)) (fun j hj => ?_)
  · simp only [Nat.add_zero] at e
    rw [e, show u + 1 + (w - (u+1)) = w from by omega]
  · refine ⟨fun l hl => ?_, Or.inr ⟨?_, ?_⟩, Or.inl ⟨?_, ?_⟩⟩
    · rw [segsMeet_eq_false_iff]
      exact h.avoid' (u+1+j) (w+1+l) (by omega) (by omega)
    · exact hA.lt (by omega) (by omega) le_rfl
    · exact hA.lt (by omega) (by omega) le_rfl
    · rw [show w + 1 + (s - (w+1)) = s from by omega]
      exact le_trans hB (hA.le le_rfl _ (by omega) (by omega))
    · rw [show w + 1 + (s - (w+1)) = s from by omega]
      exact le_trans hB (hA.le le_rfl _ (by omega) (by omega))

/-- L3c: from the last vertex but one of the ascent to the point near the top -/
theorem walk3c (τ : Rat) (hτ0 : 0 < τ) (hτ1 : τ ≤ 1)
    (hq : (P (w+2)).y < (Spec.pointAt (P (w+1)) (P w) τ).y) :
    cpar P (w+1) (s - (w+1)) (P w) =
      cpar P (w+1) (s - (w+1)) (Spec.pointAt (P (w+1)) (P w) τ) := by
  have hdu : (P w).y < (P (w+1)).y := hA w (by omega) (by omega)
  have hhigh : (Spec.pointAt (P (w+1)) (P w) τ).y < (P (w+1)).y := by
    rw [pointAt_y]; have := mul_pos hτ0 (sub_pos.2 hdu); linarith
  have hon : OnSeg (P w) (P (w+1)) (Spec.pointAt (P (w+1)) (P w) τ) :=
    (K.onSeg_symm _ _ _).1 (onSeg_pointAt _ _ τ hτ0.le hτ1)
  have hs2 : (P s).y ≤ (P (w+2)).y := hD.le (by omega) s (by omega) le_rfl
  refine cpar_eq_of_avoid P (w+1) (s - (w+1)) _ _ (fun l hl => ?_) (Or.inr ⟨hdu, hhigh⟩)
    (Or.inl ⟨?_, ?_⟩)
  · rw [segsMeet_eq_false_iff]
    rcases Nat.eq_zero_or_pos l with hl0 | hl0
    · subst hl0
      exact adj_sub_avoid (turn_top h h1 h2 h3 h4 hD' hA hD hT hB) (K.onSeg_left _ _) hon
        (Or.inr ⟨hdu, hhigh⟩)
    · exact not_meet_sub (h.avoid' w (w+1+l) (by omega) (by omega)) (K.onSeg_left _ _) hon
  · rw [show w + 1 + (s - (w+1)) = s from by omega]
    exact le_trans hB (hA.le le_rfl _ (by omega) (by omega))
  · rw [show w + 1 + (s - (w+1)) = s from by omega]; linarith

/-- L2a: from the point near the bottom back to the last vertex of the first descent, the hook
    is not crossed -/
theorem walk2a (τ : Rat) (hτ0 : 0 < τ) (hτ1 : τ ≤ 1) :
    cpar P (u+1) (s - (u+1)) (Spec.pointAt (P (u+1)) (P u) τ) =
      cpar P (u+1) (s - (u+1)) (P u) := by
  have hdu : (P (u+1)).y < (P u).y := hD' u h1 (by omega)
  have hlow : (P (u+1)).y < (Spec.pointAt (P (u+1)) (P u) τ).y := by
    rw [pointAt_y]; have := mul_pos hτ0 (sub_pos.2 hdu); linarith
  have hon : OnSeg (P u) (P (u+1)) (Spec.pointAt (P (u+1)) (P u) τ) :=
    (K.onSeg_symm _ _ _).1 (onSeg_pointAt _ _ τ hτ0.le hτ1)
  refine cpar_eq_of_avoid P (u+1) (s - (u+1)) _ _ (fun l hl => ?_) (Or.inl ⟨hlow.le, hdu.le⟩)
    (Or.inl ⟨?_, ?_⟩)
  · rw [segsMeet_eq_false_iff]
    rcases Nat.eq_zero_or_pos l with hl0 | hl0
    · subst hl0
      exact adj_sub_avoid (turn_bot h h1 h2 h3 h4 hD' hA hD hT hB) hon (K.onSeg_left _ _)
        (Or.inl ⟨hlow, hdu⟩)
    · exact not_meet_sub (h.avoid' u (u+1+l) (by omega) (by omega)) hon (K.onSeg_left _ _)
  · rw [show u + 1 + (s - (u+1)) = s from by omega]; linarith
  · rw [show u + 1 + (s - (u+1)) = s from by omega]; linarith

/-- L2b: back along the first descent up to the first top, the hook is not crossed -/
theorem walk2b : cpar P (u+1) (s - (u+1)) (P u) = cpar P (u+1) (s - (u+1)) (P t) := by
  have e := cpar_eq_of_walk P (u+1) (s - (u+1)) (fun j => P (u - j)) (u - t) (fun j hj => ?_)
  · simp only [Nat.sub_zero] at e
    rw [e, show u - (u - t) = t from by omega]
  · have hbot : ∀ i, t ≤ i → i ≤ u → (P (u+1)).y ≤ (P i).y := fun i hi hiu =>
      hD'.le hi (u+1) (by omega) le_rfl
    refine ⟨fun l hl => ?_, Or.inl ⟨hbot _ (by omega) (by omega), hbot _ (by omega) (by omega)⟩,
      Or.inl ⟨?_, ?_⟩⟩
    · rw [segsMeet_eq_false_iff]
      have := h.avoid' (u - (j+1)) (u+1+l) (by omega) (by omega)
      rw [show u - (j+1) + 1 = u - j from by omega] at this
      exact fun hm => this ((segsMeet_swap_right _ _ _ _).1 hm)
    · rw [show u + 1 + (s - (u+1)) = s from by omega]
      exact le_trans hB (hbot _ (by omega) (by omega))
    · rw [show u + 1 + (s - (u+1)) = s from by omega]
      exact le_trans hB (hbot _ (by omega) (by omega))

/-- THE FORBIDDEN CONFIGURATION -/
theorem noConfigI : False := by
  have hdu : (P (u+1)).y < (P u).y := hD' u h1 (by omega)
  have hau : (P (u+1)).y < (P (u+2)).y := hA (u+1) le_rfl (by omega)
  have haw : (P w).y < (P (w+1)).y := hA w (by omega) (by omega)
  have hdw : (P (w+2)).y < (P (w+1)).y := hD (w+1) le_rfl (by omega)
  obtain ⟨τ, a0, a1, a2⟩ := exists_near_bot _ _ _ hdu hau
  obtain ⟨σ, b0, b1, b2⟩ := exists_near_top _ _ _ haw hdw
  have hq : (Spec.pointAt (P (u+1)) (P u) τ).y < (P (u+2)).y := by rw [pointAt_y]; exact a2
  have hq' : (P (w+2)).y < (Spec.pointAt (P (w+1)) (P w) σ).y := by rw [pointAt_y]; exact b2
  have e1 : cpar P (u+1) (s - (u+1)) (Spec.pointAt (P (u+1)) (P u) τ) = false := by
    rw [walk2a h h1 h2 h3 h4 hD' hA hD hT hB τ a0 a1, walk2b h h1 h2 h3 h4 hD' hA hD hT hB,
      hook_at_top h h1 h2 h3 h4 hD' hA hD hT hB]
  have e2 := cpar_add P (u+1) (Spec.pointAt (P (u+1)) (P u) τ) (w - u) (s - (w+1))
  rw [show w - u + (s - (w+1)) = s - (u+1) from by omega, show u + 1 + (w - u) = w + 1 from by omega,
    e1, asc_near_bot h h1 h2 h3 h4 hD' hA hD hT hB τ a0 a1 hq,
    walk3a h h1 h2 h3 h4 hD' hA hD hT hB τ a0 a1 hq, walk3b h h1 h2 h3 h4 hD' hA hD hT hB,
    walk3c h h1 h2 h3 h4 hD' hA hD hT hB σ b0 b1 hq',
    desc_near_top h h1 h2 h3 h4 hD' hA hD hT hB σ b0 b1 hq'] at e2
  cases e2

end ConfigI

/-- the half-turned configuration: up `t..u+1`, down `u+1..w+1`, up `w+1..s` -/
theorem noConfigII {P : Nat → Pt} {n t u w s : Nat} (h : LT P n)
    (h1 : t ≤ u) (h2 : u + 1 ≤ w) (h3 : w + 1 < s) (h4 : s + 1 ≤ t + n)
    (hA' : Asc P t (u+1)) (hD : Desc P (u+1) (w+1)) (hA : Asc P (w+1) s)
    (hT : (P t).y ≤ (P (w+1)).y) (hB : (P (u+1)).y ≤ (P s).y) : False := by
  refine noConfigI (P := fun i => rot (P i)) h.rot h1 h2 h3 h4 ?_ ?_ ?_ ?_ ?_
  · intro l hl hl'; simp only [rot_y]; have := hA' l hl hl'; linarith
  · intro l hl hl'; simp only [rot_y]; have := hD l hl hl'; linarith
  · intro l hl hl'; simp only [rot_y]; have := hA l hl hl'; linarith
  · simp only [rot_y]; linarith
  · simp only [rot_y]; linarith

end Cvx
end Geo
