/-
  GeoProofs.OptPred.Parse — every series inside a parsed object is `mkSeries` of its vertex list
  with the parser's index options (`parse_built`).
-/
import GeoProofs.OptPred.Dyadic

namespace Geo

section
variable {o : POpts} {P : Series → Prop}
  (hmk : ∀ pts closed, P (mkSeries pts closed o.indexKind o.indexGeometry))
include hmk

theorem mkPoly_allSer (rings : List (List Pos)) : (mkPoly o rings).AllSer P := by
  unfold mkPoly
  cases rings with
  | nil =>
    constructor
    · intro e he; cases he
    · intro r hr; cases hr
  | cons e hs =>
    constructor
    · intro r hr; cases hr; exact hmk _ _
    · intro r hr
      obtain ⟨h, _, rfl⟩ := List.mem_map.1 hr
      exact hmk _ _

theorem polyObj_allSer (rings : List (List Pos)) (ex : Option Extra) : (polyObj o rings ex).AllSer P := by
  rcases polyObj_cases o rings ex with h | ⟨p0, p1, p2, p3, p4, _, _, _, _, h⟩
  · rw [h]; exact mkPoly_allSer hmk rings
  · rw [h]; trivial

omit hmk in
theorem pointCase_allSer {k : Keys} {x : Obj} (h : pointCase o k = .ok x) : x.AllSer P := by
  unfold pointCase at h
  split at h
  · cases h
  · split at h
    · cases h
    · split at h
      · cases h
      · simp only at h
        split at h <;> split at h <;> first | (cases h; trivial) | cases h

theorem lineCase_allSer {k : Keys} {x : Obj} (h : lineCase o k = .ok x) : x.AllSer P := by
  unfold lineCase at h
  split at h
  · cases h
  · split at h
    · cases h
    · split at h
      · cases h
      · simp only at h
        split at h
        · cases h
        · cases h; exact hmk _ _

theorem polyCase_allSer {k : Keys} {x : Obj} (h : polyCase o k = .ok x) : x.AllSer P := by
  unfold polyCase at h
  split at h
  · cases h
  · split at h
    · cases h
    · split at h
      · cases h
      · simp only at h
        split at h
        · cases h
        · cases h; exact polyObj_allSer hmk _ _

theorem lineChild_allSer {v : JVal} {x : Obj} (h : lineChild o v = .ok x) : x.AllSer P := by
  rw [lineChild_eq] at h
  split at h
  · cases h
  · split at h
    · cases h
    · cases h; exact hmk _ _

theorem polyChild_allSer {v : JVal} {x : Obj} (h : polyChild o v = .ok x) : x.AllSer P := by
  rw [polyChild_eq] at h
  split at h
  · cases h
  · split at h
    · cases h
    · cases h; exact mkPoly_allSer hmk _

end

theorem mkColl_allSer {o : POpts} {P : Series → Prop} {kind : CollKind} {cs : List Obj} {ex : Option Extra}
    (h : ∀ c ∈ cs, c.AllSer P) : (mkColl o kind cs ex).AllSer P :=
  (Obj.allLeafL_iff cs).2 h

end Geo

namespace Geo

theorem forall2_right_allSer {α : Type} {P : Series → Prop} {f : α → Except PErr Obj}
    (hf : ∀ v x, f v = .ok x → x.AllSer P) {l : List α} {cs : List Obj}
    (h : Forall2 (fun v y => f v = .ok y) l cs) : ∀ c ∈ cs, c.AllSer P :=
  h.right (fun v y _ hy => hf v y hy)

section
variable {o : POpts} {P : Series → Prop}
  (hmk : ∀ pts closed, P (mkSeries pts closed o.indexKind o.indexGeometry))
include hmk

omit hmk in
theorem multiPointCase_allSer {k : Keys} {x : Obj} (h : multiPointCase o k = .ok x) : x.AllSer P := by
  unfold multiPointCase at h
  split at h
  · cases h
  · split at h
    · cases h
    · simp only at h
      split at h
      · cases h
      · cases h
        refine mkColl_allSer (fun c hc => ?_)
        obtain ⟨_, _, rfl⟩ := List.mem_map.1 hc
        trivial

theorem multiLineCase_allSer {k : Keys} {x : Obj} (h : multiLineCase o k = .ok x) : x.AllSer P := by
  unfold multiLineCase at h
  split at h
  · cases h
  · split at h
    · cases h
    · rename_i cs hcs
      simp only at h
      split at h
      · cases h
      · cases h
        exact mkColl_allSer (forall2_right_allSer (fun v x hx => lineChild_allSer hmk hx)
          (mapM_except_ok _ _ _ hcs))

theorem multiPolyCase_allSer {k : Keys} {x : Obj} (h : multiPolyCase o k = .ok x) : x.AllSer P := by
  unfold multiPolyCase at h
  split at h
  · cases h
  · split at h
    · cases h
    · rename_i cs hcs
      simp only at h
      split at h
      · cases h
      · cases h
        exact mkColl_allSer (forall2_right_allSer (fun v x hx => polyChild_allSer hmk hx)
          (mapM_except_ok _ _ _ hcs))

omit hmk in
theorem featureObj_allSer {k : Keys} {b x : Obj} (hb : b.AllSer P) (h : featureObj o k b = .ok x) :
    x.AllSer P := by
  unfold featureObj at h
  split at h
  · split at h
    · split at h
      · cases h
      · split at h
        · cases h; trivial
        · split at h
          · cases h; trivial
          · cases h
    · cases h; exact hb
  · cases h; exact hb

/-- every series inside a parsed object is `mkSeries … o.indexKind o.indexGeometry` -/
theorem parse_allSer : ∀ (n : Nat) (v : JVal) (x : Obj), parse o n v = .ok x → x.AllSer P
  | 0, v, x, h => by rw [parse_zero] at h; cases h
  | n+1, v, x, h => by
    obtain ⟨_, ms, _, rfl⟩ := parse_ok_isObj h
    obtain ⟨r, ty, _, h⟩ := parse_obj_ok h
    · revert h
      refine parseTyped_elim (motive := fun _ r => r = .ok x → x.AllSer P) _ _ _ _ _
        pointCase_allSer (lineCase_allSer hmk) (polyCase_allSer hmk) multiPointCase_allSer
        (multiLineCase_allSer hmk) (multiPolyCase_allSer hmk) ?_ ?_ ?_ (fun _ h => by cases h)
      · intro h
        obtain ⟨items, cs, _, hcs, rfl⟩ := geomCollCase_ok h
        exact mkColl_allSer (forall2_right_allSer (fun v x hx => parse_allSer n v x hx)
          (parseList_ok o n _ _ hcs))
      · intro h
        obtain ⟨items, cs, _, hcs, rfl⟩ := featCollCase_ok h
        exact mkColl_allSer (forall2_right_allSer (fun v x hx => parse_allSer n v x hx)
          (parseList_ok o n _ _ hcs))
      · intro h
        obtain ⟨g, base, _, hb, hx⟩ := featureCase_ok h
        exact featureObj_allSer (parse_allSer n g base hb) hx
end

theorem parse_built {o : POpts} {n : Nat} {v : JVal} {x : Obj} (h : parse o n v = .ok x) : x.Built :=
  parse_allSer (P := Series.Built) (fun _ _ => ⟨_, _, rfl⟩) n v x h

end Geo
