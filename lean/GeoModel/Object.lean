/-
  GeoModel.Object — model of the GeoJSON object layer (object.go, point.go, simplepoint.go,
  linestring.go, polygon.go, rect.go, feature.go, collection.go, multi*.go, *collection.go):
  the object kinds (Circle is modelled separately over floats), double dispatch through
  Spatial, collections, and the derived attributes Rect/Center/Valid/Empty/NumPoints.

  Each position carries, next to its exact value, the canonical output text of every ordinate
  (what `strconv.AppendFloat(f,'f',-1,64)` prints, supplied by the harness: the number codec
  is a trusted contract, see DESIGN §5 C06).
-/
import GeoModel.Geom
namespace Geo

/-- one position: exact x,y plus the canonical texts of x, y ("null" when non-finite) -/
structure Pos where
  p : Pt
  fin : Bool
  xs : String
  ys : String
deriving Repr, Inhabited, DecidableEq

/-- `extra`: z/m values (as canonical texts, `dims` per position) and foreign members -/
structure Extra where
  dims : Nat
  values : List String
  members : String        -- minified JSON object text, "" when there are none
  hasProps : Bool         -- gjson.Get(members, "properties").Exists()
deriving Repr, Inhabited, DecidableEq

inductive CollKind where
  | multiPoint | multiLineString | multiPolygon | geometryCollection | featureCollection
deriving Repr, Inhabited, DecidableEq

inductive Obj where
  | point (pos : Pos) (ex : Option Extra)
  | spoint (pos : Pos)
  | lineString (l : Line) (poss : List Pos) (ex : Option Extra)
  | polygon (poly : Poly) (rings : List (List Pos)) (ex : Option Extra)
  | rectO (b : Box) (lo hi : Pos)
  | coll (kind : CollKind) (children : List Obj) (ex : Option Extra) (indexed : Bool)
  | feature (base : Obj) (ex : Option Extra)
  /-- Tile38 Circle: centre and radius texts only; its geometry (a float polygon approximation)
      is modelled separately (GeoModel.Geo), every planar method below is a placeholder. -/
  | circle (center : Pos) (radius : String)
deriving Repr, Inhabited

namespace Obj

mutual
def empty : Obj → Bool
  | .point _ _ => false
  | .spoint _ => false
  | .lineString l _ _ => l.empty
  | .polygon p _ _ => p.empty
  | .rectO _ _ _ => false
  | .coll _ cs _ _ => allEmpty cs
  | .feature b _ => b.empty
  | .circle _ _ => false
def allEmpty : List Obj → Bool
  | [] => true
  | c :: cs => c.empty && allEmpty cs
end

def unionBox (a b : Box) : Box :=
  ⟨⟨if b.min.x < a.min.x then b.min.x else a.min.x, if b.min.y < a.min.y then b.min.y else a.min.y⟩,
   ⟨if b.max.x > a.max.x then b.max.x else a.max.x, if b.max.y > a.max.y then b.max.y else a.max.y⟩⟩

def zeroBox : Box := ⟨⟨0,0⟩,⟨0,0⟩⟩

mutual
def rect : Obj → Box
  | .point pos _ => pos.p.box
  | .spoint pos => pos.p.box
  | .lineString l _ _ => l.rect
  | .polygon p _ _ => p.rect
  | .rectO b _ _ => b
  | .coll _ cs _ _ => (collRect cs (cs.length == 1) none).getD zeroBox
  | .feature b _ => b.rect
  | .circle c _ => c.p.box
/-- parseInitRectIndex: fold over the non-empty children -/
def collRect : List Obj → Bool → Option Box → Option Box
  | [], _, acc => acc
  | c :: cs, single, acc =>
    if c.empty then collRect cs single acc
    else match acc with
      | none => collRect cs single (some c.rect)
      | some a => collRect cs single (some (if single then c.rect else unionBox a c.rect))
end

def center : Obj → Pt
  | .point pos _ => pos.p
  | .spoint pos => pos.p
  | o => o.rect.center

def boxValid (b : Box) : Bool := b.min.valid && b.max.valid

mutual
def valid : Obj → Bool
  | .point pos _ => pos.fin && pos.p.valid
  | .spoint pos => pos.fin && pos.p.valid
  | .lineString l poss _ => poss.all (·.fin) && l.valid
  | .polygon p rings _ => rings.all (·.all (·.fin)) && p.valid
  | .rectO b lo hi => lo.fin && hi.fin && boxValid b
  | .coll k cs ex idx =>
    match k with
    | .multiLineString => allValid cs
    | .multiPolygon => allValid cs
    | _ => boxValid (Obj.coll k cs ex idx).rect
  | .feature b _ => b.valid
  | .circle c _ => c.fin
def allValid : List Obj → Bool
  | [] => true
  | c :: cs => c.valid && allValid cs
end

mutual
def numPoints : Obj → Nat
  | .point _ _ => 1
  | .spoint _ => 1
  | .lineString l _ _ => l.numPoints
  | .polygon p _ _ => match p.ext with
    | none => 0
    | some e => e.numPoints + (p.holes.map Ring.numPoints).sum
  | .rectO _ _ _ => 2
  | .coll _ cs _ _ => sumPoints cs
  | .feature b _ => b.numPoints
  | .circle _ _ => 1
def sumPoints : List Obj → Nat
  | [] => 0
  | c :: cs => c.numPoints + sumPoints cs
end

mutual
/-- `ForEach`: the leaf parts in document order (a Feature is a leaf of its own) -/
def leaves : Obj → List Obj
  | .coll _ cs _ _ => leavesL cs
  | o => [o]
def leavesL : List Obj → List Obj
  | [] => []
  | c :: cs => c.leaves ++ leavesL cs
end

/-- `collection.Search`: the non-empty children whose rectangle meets `q`, in child order
    (the child R-tree of tidwall/rtree is modelled by its contract: same set; every use below
    is insensitive to the order) -/
def searchChildren (cs : List Obj) (q : Box) : List Obj :=
  cs.filter (fun c => !c.empty && c.rect.intersects q)

/-- count-until-first-failure of the `Within*` methods -/
def withinCount (found : List Obj) (pred : Obj → Bool) : Nat :=
  match found with
  | [] => 0
  | c :: cs => if pred c then 1 + withinCount cs pred else 0

mutual
def withinRect : Obj → Box → Bool
  | .point pos _, r => r.containsPt pos.p
  | .spoint pos, r => r.containsPt pos.p
  | .lineString l _ _, r => r.containsLine l
  | .polygon p _ _, r => r.containsPoly p
  | .rectO b _ _, r => r.containsBox b
  | .coll k cs ex idx, r =>
    if (Obj.coll k cs ex idx).empty then false
    else withinRectL cs r r == cs.length
  | .feature b _, r => b.withinRect r
  | .circle _ _, _ => false
/-- number of leading children (among those found by Search) that are within -/
def withinRectL : List Obj → Box → Box → Nat
  | [], _, _ => 0
  | c :: cs, q, r =>
    if !c.empty && c.rect.intersects q then
      (if c.withinRect r then 1 + withinRectL cs q r else 0)
    else withinRectL cs q r
end

mutual
def withinPoint : Obj → Pt → Bool
  | .point pos _, q => decide (q = pos.p)
  | .spoint pos, q => decide (q = pos.p)
  | .lineString l _ _, q => q.containsLine l
  | .polygon p _ _, q => q.containsPoly p
  | .rectO b _ _, q => q.containsRect b
  | .coll k cs ex idx, q =>
    if (Obj.coll k cs ex idx).empty then false
    else withinPointL cs q == cs.length
  | .feature b _, q => b.withinPoint q
  | .circle _ _, _ => false
def withinPointL : List Obj → Pt → Nat
  | [], _ => 0
  | c :: cs, q =>
    if !c.empty && c.rect.intersects q.box then
      (if c.withinPoint q then 1 + withinPointL cs q else 0)
    else withinPointL cs q
end

mutual
def withinLine : Obj → Line → Bool
  | .point pos _, l => l.containsPoint pos.p
  | .spoint pos, l => l.containsPoint pos.p
  | .lineString m _ _, l => l.containsLine m
  | .polygon p _ _, l => l.containsPoly p
  | .rectO b _ _, l => l.containsRect b
  | .coll k cs ex idx, l =>
    if (Obj.coll k cs ex idx).empty then false
    else withinLineL cs l == cs.length
  | .feature b _, l => b.withinLine l
  | .circle _ _, _ => false
def withinLineL : List Obj → Line → Nat
  | [], _ => 0
  | c :: cs, l =>
    if !c.empty && c.rect.intersects l.rect then
      (if c.withinLine l then 1 + withinLineL cs l else 0)
    else withinLineL cs l
end

mutual
def withinPoly : Obj → Poly → Bool
  | .point pos _, p => p.containsPoint pos.p
  | .spoint pos, p => p.containsPoint pos.p
  | .lineString m _ _, p => p.containsLine m
  | .polygon q _ _, p => p.containsPoly q
  | .rectO b _ _, p => p.containsRect b
  | .coll k cs ex idx, p =>
    if (Obj.coll k cs ex idx).empty then false
    else withinPolyL cs p == cs.length
  | .feature b _, p => b.withinPoly p
  | .circle _ _, _ => false
def withinPolyL : List Obj → Poly → Nat
  | [], _ => 0
  | c :: cs, p =>
    if !c.empty && c.rect.intersects p.rect then
      (if c.withinPoly p then 1 + withinPolyL cs p else 0)
    else withinPolyL cs p
end

mutual
def intersectsRect : Obj → Box → Bool
  | .point pos _, r => r.containsPt pos.p
  | .spoint pos, r => r.containsPt pos.p
  | .lineString l _ _, r => l.intersectsRect r
  | .polygon p _ _, r => p.intersectsRect r
  | .rectO b _ _, r => b.intersects r
  | .coll _ cs _ _, r => intersectsRectL cs r
  | .feature b _, r => b.intersectsRect r
  | .circle _ _, _ => false
def intersectsRectL : List Obj → Box → Bool
  | [], _ => false
  | c :: cs, r => (!c.empty && c.rect.intersects r && c.intersectsRect r) || intersectsRectL cs r
end

mutual
def intersectsPoint : Obj → Pt → Bool
  | .point pos _, q => decide (pos.p = q)
  | .spoint pos, q => decide (pos.p = q)
  | .lineString l _ _, q => l.containsPoint q
  | .polygon p _ _, q => p.containsPoint q
  | .rectO b _ _, q => b.containsPt q
  | .coll _ cs _ _, q => intersectsPointL cs q
  | .feature b _, q => b.intersectsPoint q
  | .circle _ _, _ => false
def intersectsPointL : List Obj → Pt → Bool
  | [], _ => false
  | c :: cs, q => (!c.empty && c.rect.intersects q.box && c.intersectsPoint q) || intersectsPointL cs q
end

mutual
def intersectsLine : Obj → Line → Bool
  | .point pos _, l => pos.p.intersectsLine l
  | .spoint pos, l => pos.p.intersectsLine l
  | .lineString m _ _, l => m.intersectsLine l
  | .polygon p _ _, l => p.intersectsLine l
  | .rectO b _ _, l => b.intersectsLine l
  | .coll _ cs _ _, l => intersectsLineL cs l
  | .feature b _, l => b.intersectsLine l
  | .circle _ _, _ => false
def intersectsLineL : List Obj → Line → Bool
  | [], _ => false
  | c :: cs, l => (!c.empty && c.rect.intersects l.rect && c.intersectsLine l) || intersectsLineL cs l
end

mutual
def intersectsPoly : Obj → Poly → Bool
  | .point pos _, p => pos.p.intersectsPoly p
  | .spoint pos, p => pos.p.intersectsPoly p
  | .lineString m _ _, p => m.intersectsPoly p
  | .polygon q _ _, p => q.intersectsPoly p
  | .rectO b _ _, p => b.intersectsPoly p
  | .coll _ cs _ _, p => intersectsPolyL cs p
  | .feature b _, p => b.intersectsPoly p
  | .circle _ _, _ => false
def intersectsPolyL : List Obj → Poly → Bool
  | [], _ => false
  | c :: cs, p => (!c.empty && c.rect.intersects p.rect && c.intersectsPoly p) || intersectsPolyL cs p
end

mutual
/-- `a.Contains(b)` -/
def contains : Obj → Obj → Bool
  | .point pos _, b => b.withinPoint pos.p
  | .spoint pos, b => b.withinPoint pos.p
  | .lineString l _ _, b => b.withinLine l
  | .polygon p _ _, b => b.withinPoly p
  | .rectO r _ _, b => b.withinRect r
  | .feature base _, b => base.contains b
  | .circle _ _, _ => false
  | .coll k cs ex idx, b =>
    if (Obj.coll k cs ex idx).empty then false
    else
      let parts := b.leaves.filter (fun g => !g.empty)
      !parts.isEmpty && containsAll cs parts
/-- every part is contained by some child found by Search(part.Rect()) -/
def containsAll : List Obj → List Obj → Bool
  | _, [] => true
  | cs, g :: gs => containsSome cs g && containsAll cs gs
def containsSome : List Obj → Obj → Bool
  | [], _ => false
  | c :: cs, g => (!c.empty && c.rect.intersects g.rect && c.contains g) || containsSome cs g
end

def within (a b : Obj) : Bool := b.contains a

mutual
/-- `a.Intersects(b)` (Circle arguments are outside this model) -/
def intersects : Obj → Obj → Bool
  | .point pos _, b => b.intersectsPoint pos.p
  | .spoint pos, b => b.intersectsPoint pos.p
  | .lineString l _ _, b => b.intersectsLine l
  | .polygon p _ _, b => b.intersectsPoly p
  | .rectO r _ _, b => b.intersectsRect r
  | .feature base _, b => base.intersects b
  | .circle _ _, _ => false
  | .coll _ cs _ _, b => intersectsParts cs (b.leaves.filter (fun g => !g.empty))
def intersectsParts : List Obj → List Obj → Bool
  | _, [] => false
  | cs, g :: gs => intersectsSome cs g || intersectsParts cs gs
def intersectsSome : List Obj → Obj → Bool
  | [], _ => false
  | c :: cs, g => (!c.empty && c.rect.intersects g.rect && c.intersects g) || intersectsSome cs g
end

end Obj
end Geo
