/-
  gfndriver: the spherical formulas REGENERATED from geo/geo.go and circle.go
  (GeoModel/Generated/GeoFormulas.lean) evaluated at `Float`.  A separate executable (see KMain.lean
  for why): an unrecognised rewrite of those formulas must not take the planar model's driver down.
  Answers the op gfn, prints `skip` otherwise.
-/
import GeoModel.GeoDriver
open Geo

def gfnHexVal (c : Char) : Nat :=
  if '0' ≤ c && c ≤ '9' then c.toNat - '0'.toNat
  else if 'a' ≤ c && c ≤ 'f' then c.toNat - 'a'.toNat + 10
  else if 'A' ≤ c && c ≤ 'F' then c.toNat - 'A'.toNat + 10
  else 0

def gfnLine (line : String) : String :=
  let toks := (line.trimAscii.toString.splitOn " ").filter (· ≠ "")
  let toks := match toks with
    | "same" :: _ :: rest => rest
    | t => t
  match toks with
  | "gfn" :: name :: args =>
    let parseBits (h : String) : Float := Float.ofBits (UInt64.ofNat (h.toList.foldl (fun acc c => acc * 16 + gfnHexVal c) 0))
    let toHex (f : Float) : String :=
      let n := f.toBits.toNat
      String.ofList ((List.range 16).reverse.map (fun i => "0123456789abcdef".toList.getD ((n / 16 ^ i) % 16) '0'))
    match geoEval name (args.map parseBits) with
    | some rs => " ".intercalate (rs.map toHex) ++ s!" | - | gf:{name}"
    | none => "bad-op"
  | _ => "skip"

partial def gloop (hin : IO.FS.Stream) (hout : IO.FS.Stream) : IO Unit := do
  let line ← hin.getLine
  if line.isEmpty then return ()
  hout.putStrLn (gfnLine line)
  gloop hin hout

def main : IO Unit := do
  let hin ← IO.getStdin
  let hout ← IO.getStdout
  gloop hin hout
  hout.flush
