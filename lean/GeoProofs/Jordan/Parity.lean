/-
  GeoProofs.Jordan.Parity — the DISCRETE JORDAN LEMMA for closed polygonal chains, with
  crossing parity (`Spec.parity`) as the notion of inside.  No simplicity of the chain is
  assumed anywhere: these are statements about parity, true for every closed chain.

  J  (`parity_const_of_avoids`): crossing parity is constant along a segment that avoids
     the chain.
  J' (`parity_flips_of_one_proper_crossing`): it flips across exactly one proper crossing.
  Both come from `parity_add_eq_crossings`: summing the per-edge identity of
  `GeoProofs.Jordan.EdgeIdentity` over the cyclic edge list counts every vertex twice.
-/
import GeoProofs.Jordan.EdgeIdentity
import GeoProofs.MemberLemmas

namespace Geo
namespace Jordan

/-- every closed edge list is a cyclic list (short point lists have no edge) -/
theorem edges_cyc_all (pts : List Pt) :
    ∃ (n : Nat) (P : Nat → Pt),
      Spec.edges pts true = (List.range n).map (fun i => (P i, P ((i + 1) % n))) := by
  by_cases h : 3 ≤ pts.length
  · exact ⟨SeriesL.nptsL pts, fun i => pts[i]!, SeriesL.edges_cyc pts h⟩
  · refine ⟨0, fun _ => default, ?_⟩
    unfold Spec.edges
    simp [show pts.length < 3 by omega]

theorem sum_mod2_congr (l : List Nat) (f g : Nat → Nat) (h : ∀ i ∈ l, f i % 2 = g i % 2) :
    (l.map f).sum % 2 = (l.map g).sum % 2 := by
  induction l with
  | nil => rfl
  | cons x xs ih =>
    have h1 := h x (by simp)
    have h2 := ih (fun i hi => h i (by simp [hi]))
    simp only [List.map_cons, List.sum_cons]
    omega

theorem proper_imp_meet (a b p q : Pt) (h : proper a b p q = true) :
    Spec.segsMeet a b p q = true := by
  unfold proper at h
  unfold Spec.segsMeet
  simp only [h, Bool.true_or]

theorem segsMeet_false {a b c d : Pt} (h : Spec.segsMeet a b c d = false) :
    Spec.onSeg a b c = false ∧ Spec.onSeg a b d = false ∧
    Spec.onSeg c d a = false ∧ Spec.onSeg c d b = false := by
  unfold Spec.segsMeet at h
  simp only [Bool.or_eq_false_iff] at h
  exact ⟨h.1.1.1.2, h.1.1.2, h.1.2, h.2⟩

theorem edge_b2n (a b p q : Pt)
    (h : Spec.segsMeet a b p q = false ∨ proper a b p q = true) :
    (b2n (Spec.crosses a b p) + b2n (Spec.crosses a b q)
      + (b2n (sweep p q a) + b2n (sweep p q b))) % 2 = b2n (proper a b p q) % 2 := by
  rcases h with h | h
  · have hp : proper a b p q = false := by
      cases hc : proper a b p q with
      | false => rfl
      | true => rw [proper_imp_meet a b p q hc] at h; cases h
    have := edge_identity a b p q h
    rw [hp]
    revert this
    cases Spec.crosses a b p <;> cases Spec.crosses a b q <;> cases sweep p q a <;>
      cases sweep p q b <;> decide
  · have := edge_flip a b p q h
    rw [h]
    revert this
    cases Spec.crosses a b p <;> cases Spec.crosses a b q <;> cases sweep p q a <;>
      cases sweep p q b <;> decide

/-- the counting form of the Jordan lemma on a cyclic vertex list -/
theorem cyc_count (P : Nat → Pt) (n : Nat) (p q : Pt)
    (h : ∀ i, i < n → Spec.segsMeet (P i) (P ((i + 1) % n)) p q = false ∨
      proper (P i) (P ((i + 1) % n)) p q = true) :
    (((List.range n).filter (fun i => Spec.crosses (P i) (P ((i + 1) % n)) p)).length +
     ((List.range n).filter (fun i => Spec.crosses (P i) (P ((i + 1) % n)) q)).length) % 2 =
     ((List.range n).filter (fun i => proper (P i) (P ((i + 1) % n)) p q)).length % 2 := by
  rw [filter_length_eq_sum, filter_length_eq_sum, filter_length_eq_sum]
  have h1 := sum_mod2_congr (List.range n)
    (fun i => b2n (Spec.crosses (P i) (P ((i + 1) % n)) p) + b2n (Spec.crosses (P i) (P ((i + 1) % n)) q)
      + (b2n (sweep p q (P i)) + b2n (sweep p q (P ((i + 1) % n)))))
    (fun i => b2n (proper (P i) (P ((i + 1) % n)) p q))
    (fun i hi => edge_b2n _ _ _ _ (h i (List.mem_range.1 hi)))
  rw [List.sum_map_add, List.sum_map_add, List.sum_map_add] at h1
  have h2 := sum_range_shift_nat (fun i => b2n (sweep p q (P i))) n
  omega

theorem parity_map (P : Nat → Pt) (n : Nat) (p : Pt) :
    Spec.parity ((List.range n).map (fun i => (P i, P ((i + 1) % n)))) p =
      ((List.range n).filter (fun i => Spec.crosses (P i) (P ((i + 1) % n)) p)).length % 2 := by
  unfold Spec.parity
  rw [List.filter_map, List.length_map]
  rfl

end Jordan

open Jordan

/-- general form: if every edge of the closed chain either avoids the closed segment `pq` or is
    crossed properly by it, the crossing parities at `p` and `q` differ by the number of
    proper crossings (mod 2). -/
theorem parity_add_eq_crossings (pts : List Pt) (p q : Pt)
    (h : ∀ e ∈ Spec.edges pts true, Spec.segsMeet e.1 e.2 p q = false ∨ proper e.1 e.2 p q = true) :
    (Spec.parity (Spec.edges pts true) p + Spec.parity (Spec.edges pts true) q) % 2 =
      ((Spec.edges pts true).filter (fun e => proper e.1 e.2 p q)).length % 2 := by
  obtain ⟨n, P, hE⟩ := edges_cyc_all pts
  generalize Spec.edges pts true = es at h hE ⊢
  subst hE
  rw [parity_map, parity_map, List.filter_map, List.length_map]
  have := cyc_count P n p q (fun i hi => h (P i, P ((i + 1) % n)) (List.mem_map.2 ⟨i, List.mem_range.2 hi, rfl⟩))
  simp only [Function.comp_def]
  omega

/-- J: crossing parity is constant along a segment that avoids the chain -/
theorem parity_const_of_avoids (pts : List Pt) (p q : Pt)
    (h : ∀ e ∈ Spec.edges pts true, Spec.segsMeet e.1 e.2 p q = false) :
    Spec.parity (Spec.edges pts true) p = Spec.parity (Spec.edges pts true) q := by
  have h1 := parity_add_eq_crossings pts p q (fun e he => Or.inl (h e he))
  have h2 : (Spec.edges pts true).filter (fun e => proper e.1 e.2 p q) = [] := by
    rw [List.filter_eq_nil_iff]
    intro e he hp
    have := h e he
    rw [proper_imp_meet _ _ _ _ hp] at this
    cases this
  rw [h2] at h1
  unfold Spec.parity at h1 ⊢
  simp only [List.length_nil] at h1
  omega

namespace Jordan

theorem filter_length_one {α : Type} (P : α → Bool) :
    ∀ (l : List α) (k : Nat) (e : α), l[k]? = some e → P e = true →
      (∀ j f, j ≠ k → l[j]? = some f → P f = false) → (l.filter P).length = 1 := by
  intro l
  induction l with
  | nil => intro k e h; simp at h
  | cons x xs ih =>
    intro k e hk hP hoth
    cases k with
    | zero =>
      simp only [List.getElem?_cons_zero, Option.some.injEq] at hk
      subst hk
      have hnil : xs.filter P = [] := by
        rw [List.filter_eq_nil_iff]
        intro f hf
        obtain ⟨j, hj⟩ := List.getElem?_of_mem hf
        have := hoth (j + 1) f (by omega) (by simpa using hj)
        simp [this]
      rw [List.filter_cons, if_pos hP, hnil]
      rfl
    | succ k =>
      have hx : P x = false := hoth 0 x (by omega) (by simp)
      rw [List.filter_cons, if_neg (by simp [hx])]
      refine ih k e (by simpa using hk) hP (fun j f hj hf => hoth (j + 1) f (by omega) (by simpa using hf))

theorem onBoundary_false_of_avoids {es : List (Pt × Pt)} {p q : Pt}
    (h : ∀ e ∈ es, Spec.segsMeet e.1 e.2 p q = false) :
    Spec.onBoundary es p = false ∧ Spec.onBoundary es q = false := by
  unfold Spec.onBoundary
  rw [List.any_eq_false, List.any_eq_false]
  exact ⟨fun e he => by rw [(segsMeet_false (h e he)).1]; exact Bool.false_ne_true,
    fun e he => by rw [(segsMeet_false (h e he)).2.1]; exact Bool.false_ne_true⟩

theorem segsMeet_eq_false_iff (a b c d : Pt) : Spec.segsMeet a b c d = false ↔ ¬ SegsMeet a b c d := by
  rw [← spec_segsMeet_iff, Bool.not_eq_true]

end Jordan

/-- J', index form: `k` is the position of the properly crossed edge -/
theorem parity_flips_of_one_proper_crossing_idx (pts : List Pt) (p q : Pt) (e : Pt × Pt) (k : Nat)
    (hk : (Spec.edges pts true)[k]? = some e)
    (hprop : Spec.cross e.1 e.2 p * Spec.cross e.1 e.2 q < 0 ∧
      Spec.cross p q e.1 * Spec.cross p q e.2 < 0)
    (hothers : ∀ (j : Nat) (f : Pt × Pt), j ≠ k → (Spec.edges pts true)[j]? = some f →
      Spec.segsMeet f.1 f.2 p q = false) :
    Spec.parity (Spec.edges pts true) p ≠ Spec.parity (Spec.edges pts true) q := by
  have hpe : proper e.1 e.2 p q = true := (proper_iff _ _ _ _).2 hprop
  have hall : ∀ f ∈ Spec.edges pts true,
      Spec.segsMeet f.1 f.2 p q = false ∨ proper f.1 f.2 p q = true := by
    intro f hf
    obtain ⟨j, hj⟩ := List.getElem?_of_mem hf
    by_cases hjk : j = k
    · subst hjk
      rw [hk] at hj
      cases hj
      exact Or.inr hpe
    · exact Or.inl (hothers j f hjk hj)
  have h1 := parity_add_eq_crossings pts p q hall
  have h2 := filter_length_one (fun f : Pt × Pt => proper f.1 f.2 p q) (Spec.edges pts true) k e hk hpe
    (fun j f hj hf => by
      have := hothers j f hj hf
      cases hc : proper f.1 f.2 p q with
      | false => rfl
      | true => rw [proper_imp_meet _ _ _ _ hc] at this; cases this)
  rw [h2] at h1
  intro heq
  rw [heq] at h1
  omega

/-- J': crossing parity flips across exactly one proper crossing.  "Every other edge
    occurrence avoids `pq`" is stated with positions in the edge list, since an edge value may
    occur twice. -/
theorem parity_flips_of_one_proper_crossing (pts : List Pt) (p q : Pt) (e : Pt × Pt)
    (he : e ∈ Spec.edges pts true)
    (hprop : Spec.cross e.1 e.2 p * Spec.cross e.1 e.2 q < 0 ∧
      Spec.cross p q e.1 * Spec.cross p q e.2 < 0)
    (hothers : ∀ k, (Spec.edges pts true)[k]? = some e → ∀ (j : Nat) (f : Pt × Pt), j ≠ k →
      (Spec.edges pts true)[j]? = some f → Spec.segsMeet f.1 f.2 p q = false) :
    Spec.parity (Spec.edges pts true) p ≠ Spec.parity (Spec.edges pts true) q := by
  obtain ⟨k, hk⟩ := List.getElem?_of_mem he
  exact parity_flips_of_one_proper_crossing_idx pts p q e k hk hprop (hothers k hk)

/-- along a segment that avoids the chain, membership is constant (and neither end is on the
    boundary) -/
theorem inRing_const_of_avoids (pts : List Pt) (p q : Pt)
    (h : ∀ e ∈ Spec.edges pts true, Spec.segsMeet e.1 e.2 p q = false) :
    Spec.inRing (Spec.edges pts true) p = Spec.inRing (Spec.edges pts true) q ∧
    Spec.strictIn (Spec.edges pts true) p = Spec.strictIn (Spec.edges pts true) q := by
  obtain ⟨hp, hq⟩ := onBoundary_false_of_avoids h
  unfold Spec.inRing Spec.strictIn
  rw [hp, hq, parity_const_of_avoids pts p q h]
  exact ⟨rfl, rfl⟩

/-- sub-segments of an avoiding segment avoid too -/
theorem avoids_sub {es : List (Pt × Pt)} {p q x y : Pt}
    (h : ∀ e ∈ es, Spec.segsMeet e.1 e.2 p q = false) (hx : OnSeg p q x) (hy : OnSeg p q y) :
    ∀ e ∈ es, Spec.segsMeet e.1 e.2 x y = false := by
  intro e he
  rw [segsMeet_eq_false_iff]
  rintro ⟨z, hz1, hz2⟩
  have := h e he
  rw [segsMeet_eq_false_iff] at this
  exact this ⟨z, hz1, K.onSeg_convex hx hy hz2⟩

/-- a segment that avoids the chain and starts outside stays outside -/
theorem segment_outside_of_avoids (pts : List Pt) (p q : Pt)
    (h : ∀ e ∈ Spec.edges pts true, Spec.segsMeet e.1 e.2 p q = false)
    (hp : Spec.inRing (Spec.edges pts true) p = false) :
    ∀ x, OnSeg p q x → Spec.inRing (Spec.edges pts true) x = false := by
  intro x hx
  rw [← (inRing_const_of_avoids pts p x (avoids_sub h (K.onSeg_left p q) hx)).1]
  exact hp

/-- a segment that avoids the chain and starts inside stays strictly inside -/
theorem segment_inside_of_avoids (pts : List Pt) (p q : Pt)
    (h : ∀ e ∈ Spec.edges pts true, Spec.segsMeet e.1 e.2 p q = false)
    (hp : Spec.inRing (Spec.edges pts true) p = true) :
    ∀ x, OnSeg p q x → Spec.strictIn (Spec.edges pts true) x = true := by
  intro x hx
  have hav := avoids_sub h (K.onSeg_left p q) hx
  rw [← (inRing_const_of_avoids pts p x hav).2]
  have hb := (onBoundary_false_of_avoids hav).1
  unfold Spec.inRing at hp
  unfold Spec.strictIn
  rw [hb] at hp ⊢
  simpa using hp

/-- exact characterisation of "the closed region meets the closed segment" -/
theorem region_meets_segment_iff (pts : List Pt) (p q : Pt) :
    (∃ x, OnSeg p q x ∧ Spec.inRing (Spec.edges pts true) x = true) ↔
    (Spec.inRing (Spec.edges pts true) p = true ∨ Spec.inRing (Spec.edges pts true) q = true ∨
      ∃ e ∈ Spec.edges pts true, Spec.segsMeet e.1 e.2 p q = true) := by
  constructor
  · rintro ⟨x, hx, hin⟩
    by_contra hcon
    rw [not_or, not_or] at hcon
    obtain ⟨h1, -, h3⟩ := hcon
    have hav : ∀ e ∈ Spec.edges pts true, Spec.segsMeet e.1 e.2 p q = false := by
      intro e he
      cases hc : Spec.segsMeet e.1 e.2 p q with
      | false => rfl
      | true => exact absurd ⟨e, he, hc⟩ h3
    have := segment_outside_of_avoids pts p q hav (by simpa using h1) x hx
    rw [this] at hin
    cases hin
  · rintro (h | h | ⟨e, he, h⟩)
    · exact ⟨p, K.onSeg_left p q, h⟩
    · exact ⟨q, K.onSeg_right p q, h⟩
    · obtain ⟨x, hx1, hx2⟩ := (spec_segsMeet_iff _ _ _ _).1 h
      refine ⟨x, hx2, ?_⟩
      have hb : Spec.onBoundary (Spec.edges pts true) x = true := by
        unfold Spec.onBoundary
        rw [List.any_eq_true]
        exact ⟨e, he, (spec_onSeg_iff _ _ _).2 hx1⟩
      unfold Spec.inRing
      rw [hb]; rfl

/-! ### leftward ray -/

/-- the LEFTWARD horizontal ray from `p` crosses `ab`, same half-open rule in `y` as
    `Spec.crosses` (an endpoint level with `p` counts as below it) -/
def crossesL (a b p : Pt) : Bool :=
  (decide (a.y ≤ p.y) != decide (b.y ≤ p.y)) &&
  (if a.y < b.y then decide (Spec.cross a b p < 0) else decide (Spec.cross b a p < 0))

/-- crossing parity of the leftward ray -/
def parityL (es : List (Pt × Pt)) (p : Pt) : Nat :=
  (es.filter (fun e => crossesL e.1 e.2 p)).length % 2

namespace Jordan

/-- off the edge, exactly one of the two rays crosses an edge that straddles the level -/
theorem cross_lr (a b p : Pt) (h : Spec.onSeg a b p = false) :
    b2n (Spec.crosses a b p) + b2n (crossesL a b p)
      = b2n (decide (a.y ≤ p.y) != decide (b.y ≤ p.y)) := by
  have hoff : ¬ OnSeg a b p := by
    intro hc
    rw [(spec_onSeg_iff a b p).2 hc] at h
    cases h
  unfold Spec.crosses crossesL
  by_cases hs : (decide (a.y ≤ p.y) != decide (b.y ≤ p.y)) = true
  · rw [hs, Bool.true_and, Bool.true_and]
    have hs' : ¬ ((a.y ≤ p.y) ↔ (b.y ≤ p.y)) := by
      rw [bne_iff_ne, Ne, decide_eq_decide] at hs
      exact hs
    by_cases hab : a.y < b.y
    · rw [if_pos hab, if_pos hab]
      have hne : Spec.cross a b p ≠ 0 := by
        intro hc
        apply hoff
        have h1 : a.y ≤ p.y := by
          by_contra hcon
          exact hs' (iff_of_false hcon (fun hb => hcon (le_trans hab.le hb)))
        have h2 : ¬ b.y ≤ p.y := fun hb => hs' (iff_of_true h1 hb)
        exact K.onSeg_of_cross_yrange hab.ne hc (by rw [min_eq_left hab.le]; exact h1)
          (by rw [max_eq_right hab.le]; exact (not_le.1 h2).le)
      rcases lt_or_gt_of_ne hne with hc | hc
      · simp [b2n, hc, not_lt.2 hc.le]
      · simp [b2n, hc, not_lt.2 hc.le]
    · rw [if_neg hab, if_neg hab]
      have hba : b.y ≤ a.y := not_lt.1 hab
      have hne : Spec.cross b a p ≠ 0 := by
        intro hc
        apply hoff
        have h1 : b.y ≤ p.y := by
          by_contra hcon
          exact hs' (iff_of_false (fun ha => hcon (le_trans hba ha)) hcon)
        have h2 : ¬ a.y ≤ p.y := fun ha => hs' (iff_of_true ha h1)
        have hlt : b.y < a.y := lt_of_le_of_lt h1 (not_le.1 h2)
        exact (K.onSeg_symm _ _ _).1 (K.onSeg_of_cross_yrange hlt.ne hc
          (by rw [min_eq_left hba]; exact h1) (by rw [max_eq_right hba]; exact (not_le.1 h2).le))
      rcases lt_or_gt_of_ne hne with hc | hc
      · simp [b2n, hc, not_lt.2 hc.le]
      · simp [b2n, hc, not_lt.2 hc.le]
  · have hs' : (decide (a.y ≤ p.y) != decide (b.y ≤ p.y)) = false := by simpa using hs
    rw [hs']
    simp [b2n]

end Jordan

open Jordan

/-- off the boundary of a closed chain, the leftward and the rightward ray see the same
    crossing parity (the chain straddles the level of `p` an even number of times) -/
theorem parity_left_eq_right (pts : List Pt) (p : Pt)
    (hp : Spec.onBoundary (Spec.edges pts true) p = false) :
    parityL (Spec.edges pts true) p = Spec.parity (Spec.edges pts true) p := by
  obtain ⟨n, P, hE⟩ := edges_cyc_all pts
  generalize Spec.edges pts true = es at hp hE ⊢
  subst hE
  unfold Spec.onBoundary at hp
  rw [List.any_eq_false] at hp
  have hoff : ∀ i, i < n → Spec.onSeg (P i) (P ((i + 1) % n)) p = false := by
    intro i hi
    have := hp (P i, P ((i + 1) % n)) (List.mem_map.2 ⟨i, List.mem_range.2 hi, rfl⟩)
    simpa using this
  unfold parityL Spec.parity
  rw [List.filter_map, List.length_map, List.filter_map, List.length_map]
  simp only [Function.comp_def]
  rw [filter_length_eq_sum, filter_length_eq_sum]
  have h1 : ((List.range n).map (fun i => b2n (Spec.crosses (P i) (P ((i + 1) % n)) p)
      + b2n (crossesL (P i) (P ((i + 1) % n)) p))).sum =
      ((List.range n).map (fun i => b2n (decide ((P i).y ≤ p.y) != decide ((P ((i + 1) % n)).y ≤ p.y)))).sum := by
    congr 1
    apply List.map_congr_left
    intro i hi
    exact cross_lr _ _ _ (hoff i (List.mem_range.1 hi))
  rw [List.sum_map_add] at h1
  have h2 := cyc_straddle_even (fun i => decide ((P i).y ≤ p.y)) n
  rw [filter_length_eq_sum] at h2
  omega

namespace Jordan

/-! ### non-vacuity: the hypotheses are inhabited by non-trivial values -/

/-- a square -/
def exSq : List Pt := [⟨0, 0⟩, ⟨2, 0⟩, ⟨2, 2⟩, ⟨0, 2⟩]

/-- a self-intersecting closed chain (bow-tie): J and J' do not need simplicity -/
def exBow : List Pt := [⟨0, 0⟩, ⟨4, 4⟩, ⟨4, 0⟩, ⟨0, 4⟩]

/-- hypothesis of J holds for a segment inside the square; both ends have parity 1 -/
theorem ex_avoids_inside :
    (∀ e ∈ Spec.edges exSq true, Spec.segsMeet e.1 e.2 ⟨1, 1⟩ ⟨1, 3 / 2⟩ = false) ∧
    Spec.parity (Spec.edges exSq true) ⟨1, 1⟩ = 1 ∧
    Spec.parity (Spec.edges exSq true) ⟨1, 3 / 2⟩ = 1 := by decide +kernel

theorem exSq_edges : Spec.edges exSq true =
    [(⟨0, 0⟩, ⟨2, 0⟩), (⟨2, 0⟩, ⟨2, 2⟩), (⟨2, 2⟩, ⟨0, 2⟩), (⟨0, 2⟩, ⟨0, 0⟩)] := by decide +kernel

/-- hypotheses of J' hold for a segment leaving the square through its right side
    (edge number 1); the parities are 1 and 0 -/
theorem ex_one_crossing :
    (Spec.edges exSq true)[1]? = some (⟨2, 0⟩, ⟨2, 2⟩) ∧
    (Spec.cross ⟨2, 0⟩ ⟨2, 2⟩ ⟨1, 1⟩ * Spec.cross ⟨2, 0⟩ ⟨2, 2⟩ ⟨3, 1⟩ < 0 ∧
      Spec.cross ⟨1, 1⟩ ⟨3, 1⟩ ⟨2, 0⟩ * Spec.cross ⟨1, 1⟩ ⟨3, 1⟩ ⟨2, 2⟩ < 0) ∧
    (∀ (j : Nat) (f : Pt × Pt), j ≠ 1 → (Spec.edges exSq true)[j]? = some f →
      Spec.segsMeet f.1 f.2 ⟨1, 1⟩ ⟨3, 1⟩ = false) ∧
    Spec.parity (Spec.edges exSq true) ⟨1, 1⟩ = 1 ∧
    Spec.parity (Spec.edges exSq true) ⟨3, 1⟩ = 0 := by
  refine ⟨by decide +kernel, by decide +kernel, ?_, by decide +kernel, by decide +kernel⟩
  rw [exSq_edges]
  intro j f hne hf
  match j, hne, hf with
  | 0, _, hf => cases hf; decide +kernel
  | 1, hne, _ => exact absurd rfl hne
  | 2, _, hf => cases hf; decide +kernel
  | 3, _, hf => cases hf; decide +kernel
  | (k + 4), _, hf => simp at hf

/-- J' applied to this data -/
example : Spec.parity (Spec.edges exSq true) ⟨1, 1⟩ ≠ Spec.parity (Spec.edges exSq true) ⟨3, 1⟩ :=
  parity_flips_of_one_proper_crossing_idx exSq ⟨1, 1⟩ ⟨3, 1⟩ (⟨2, 0⟩, ⟨2, 2⟩) 1
    ex_one_crossing.1 ex_one_crossing.2.1 ex_one_crossing.2.2.1

/-- the bow-tie: a segment inside one lobe avoids the chain (parity 1 at both ends), a segment
    between the two lobes' outsides through the self-crossing point does meet it -/
theorem ex_bow :
    (∀ e ∈ Spec.edges exBow true, Spec.segsMeet e.1 e.2 ⟨1, 2⟩ ⟨1 / 2, 2⟩ = false) ∧
    Spec.parity (Spec.edges exBow true) ⟨1, 2⟩ = 1 ∧
    Spec.parity (Spec.edges exBow true) ⟨1 / 2, 2⟩ = 1 ∧
    Spec.parity (Spec.edges exBow true) ⟨2, 1⟩ = 0 := by decide +kernel

end Jordan

#print axioms parity_add_eq_crossings
#print axioms parity_const_of_avoids
#print axioms parity_flips_of_one_proper_crossing_idx
#print axioms parity_flips_of_one_proper_crossing
#print axioms inRing_const_of_avoids
#print axioms segment_outside_of_avoids
#print axioms segment_inside_of_avoids
#print axioms region_meets_segment_iff
#print axioms parity_left_eq_right
#print axioms Jordan.ex_avoids_inside
#print axioms Jordan.ex_one_crossing
#print axioms Jordan.ex_bow

end Geo
