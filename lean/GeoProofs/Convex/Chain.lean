/-
  GeoProofs.Convex.Chain — the open-chain form of the discrete Jordan identity.

  For an indexed polyline `P a, P (a+1), …, P (a+k)` and a point `x`, `cpar P a k x` is the parity
  (as a `Bool`) of the number of its edges crossed by the rightward ray from `x`.  If the closed
  segment `pq` meets none of the `k` edges then
      cpar p ^^ cpar q = sweep p q (P a) ^^ sweep p q (P (a+k)),
  the telescoped `edge_identity`.  This is the intermediate-value tool of the convexity proof.
-/
import GeoProofs.Jordan.Parity

namespace Geo
namespace Cvx
open Jordan

/-- parity of the number of edges `P (a+l) → P (a+l+1)`, `l < k`, crossed by the ray from `x` -/
def cpar (P : Nat → Pt) (a : Nat) : Nat → Pt → Bool
  | 0, _ => false
  | k+1, x => cpar P a k x ^^ Spec.crosses (P (a+k)) (P (a+k+1)) x

theorem chain_identity (P : Nat → Pt) (a : Nat) (p q : Pt) :
    ∀ k, (∀ l, l < k → Spec.segsMeet (P (a+l)) (P (a+l+1)) p q = false) →
      (cpar P a k p ^^ cpar P a k q) = (sweep p q (P a) ^^ sweep p q (P (a+k)))
  | 0, _ => by simp [cpar]
  | k+1, h => by
    have ih := chain_identity P a p q k (fun l hl => h l (Nat.lt_succ_of_lt hl))
    have e := edge_identity (P (a+k)) (P (a+k+1)) p q (h k (Nat.lt_succ_self k))
    simp only [cpar]
    rw [show a + (k+1) = a + k + 1 from rfl]
    revert ih e
    generalize cpar P a k p = c1
    generalize cpar P a k q = c2
    generalize Spec.crosses (P (a+k)) (P (a+k+1)) p = x1
    generalize Spec.crosses (P (a+k)) (P (a+k+1)) q = x2
    generalize sweep p q (P a) = s0
    generalize sweep p q (P (a+k)) = s1
    generalize sweep p q (P (a+k+1)) = s2
    cases c1 <;> cases c2 <;> cases x1 <;> cases x2 <;> cases s0 <;> cases s1 <;> cases s2 <;> simp

theorem crosses_false_of_le {a b x : Pt} (ha : a.y ≤ x.y) (hb : b.y ≤ x.y) :
    Spec.crosses a b x = false := by
  unfold Spec.crosses; simp [ha, hb]

theorem crosses_false_of_gt {a b x : Pt} (ha : x.y < a.y) (hb : x.y < b.y) :
    Spec.crosses a b x = false := by
  unfold Spec.crosses; simp [not_le.2 ha, not_le.2 hb]

theorem sweep_false_of_le {p q v : Pt} (hp : v.y ≤ p.y) (hq : v.y ≤ q.y) : sweep p q v = false := by
  unfold sweep; simp [hp, hq]

theorem sweep_false_of_gt {p q v : Pt} (hp : p.y < v.y) (hq : q.y < v.y) : sweep p q v = false := by
  unfold sweep; simp [not_le.2 hp, not_le.2 hq]

/-- no edge straddles the level of `x`: all vertices at or below -/
theorem cpar_false_of_le (P : Nat → Pt) (a : Nat) (x : Pt) :
    ∀ k, (∀ l, l ≤ k → (P (a+l)).y ≤ x.y) → cpar P a k x = false
  | 0, _ => rfl
  | k+1, h => by
    simp only [cpar]
    rw [cpar_false_of_le P a x k (fun l hl => h l (Nat.le_succ_of_le hl)),
      crosses_false_of_le (h k (Nat.le_succ k)) (show (P (a+k+1)).y ≤ x.y from h (k+1) le_rfl)]
    rfl

/-- no edge straddles the level of `x`: all vertices strictly above -/
theorem cpar_false_of_gt (P : Nat → Pt) (a : Nat) (x : Pt) :
    ∀ k, (∀ l, l ≤ k → x.y < (P (a+l)).y) → cpar P a k x = false
  | 0, _ => rfl
  | k+1, h => by
    simp only [cpar]
    rw [cpar_false_of_gt P a x k (fun l hl => h l (Nat.le_succ_of_le hl)),
      crosses_false_of_gt (h k (Nat.le_succ k)) (show x.y < (P (a+k+1)).y from h (k+1) le_rfl)]
    rfl

/-- peel off the first edge -/
theorem cpar_succ_left (P : Nat → Pt) (a : Nat) (x : Pt) :
    ∀ k, cpar P a (k+1) x = (Spec.crosses (P a) (P (a+1)) x ^^ cpar P (a+1) k x)
  | 0 => by simp [cpar]
  | k+1 => by
    rw [cpar, cpar_succ_left P a x k, cpar]
    rw [show a + 1 + k = a + (k+1) from by omega, Bool.xor_assoc]

/-- split a chain at an interior vertex -/
theorem cpar_add (P : Nat → Pt) (a : Nat) (x : Pt) (j : Nat) :
    ∀ k, cpar P a (j+k) x = (cpar P a j x ^^ cpar P (a+j) k x)
  | 0 => by simp [cpar]
  | k+1 => by
    rw [show j + (k+1) = (j+k)+1 from rfl, cpar, cpar_add P a x j k, cpar]
    rw [show a + (j+k) = a + j + k from by omega]
    cases cpar P a j x <;> cases cpar P (a+j) k x <;> simp

/-- along a segment that avoids the chain and whose levels are not separated by the level of
    either end of the chain, the crossing parity is constant -/
theorem cpar_eq_of_avoid (P : Nat → Pt) (a k : Nat) (p q : Pt)
    (hav : ∀ l, l < k → Spec.segsMeet (P (a+l)) (P (a+l+1)) p q = false)
    (h0 : ((P a).y ≤ p.y ∧ (P a).y ≤ q.y) ∨ (p.y < (P a).y ∧ q.y < (P a).y))
    (h1 : ((P (a+k)).y ≤ p.y ∧ (P (a+k)).y ≤ q.y) ∨ (p.y < (P (a+k)).y ∧ q.y < (P (a+k)).y)) :
    cpar P a k p = cpar P a k q := by
  have e := chain_identity P a p q k hav
  have s0 : sweep p q (P a) = false := by
    rcases h0 with h | h
    · exact sweep_false_of_le h.1 h.2
    · exact sweep_false_of_gt h.1 h.2
  have s1 : sweep p q (P (a+k)) = false := by
    rcases h1 with h | h
    · exact sweep_false_of_le h.1 h.2
    · exact sweep_false_of_gt h.1 h.2
  rw [s0, s1] at e
  revert e
  cases cpar P a k p <;> cases cpar P a k q <;> simp

/-- the same along a polyline `W 0, …, W e` -/
theorem cpar_eq_of_walk (P : Nat → Pt) (a k : Nat) (W : Nat → Pt) :
    ∀ e, (∀ j, j < e → (∀ l, l < k → Spec.segsMeet (P (a+l)) (P (a+l+1)) (W j) (W (j+1)) = false) ∧
      (((P a).y ≤ (W j).y ∧ (P a).y ≤ (W (j+1)).y) ∨ ((W j).y < (P a).y ∧ (W (j+1)).y < (P a).y)) ∧
      (((P (a+k)).y ≤ (W j).y ∧ (P (a+k)).y ≤ (W (j+1)).y) ∨
        ((W j).y < (P (a+k)).y ∧ (W (j+1)).y < (P (a+k)).y))) →
      cpar P a k (W 0) = cpar P a k (W e)
  | 0, _ => rfl
  | e+1, h => by
    rw [cpar_eq_of_walk P a k W e (fun j hj => h j (Nat.lt_succ_of_lt hj))]
    obtain ⟨h1, h2, h3⟩ := h e (Nat.lt_succ_self e)
    exact cpar_eq_of_avoid P a k _ _ h1 h2 h3

end Cvx
end Geo
