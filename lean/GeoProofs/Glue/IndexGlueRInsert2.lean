/-
  GeoProofs.Glue.IndexGlueRInsert2 — the generated `rRect_insert` (geometry/rtree.go:177) computes
  the model's `rInsertNode` on the abstraction of a well-formed node (`rinsert_eq`).
-/
import GeoProofs.Glue.IndexGlueRInsert

set_option linter.unusedVariables false
set_option linter.unusedSectionVars false
set_option linter.unusedSimpArgs false

namespace Geo.IGlue.RIns
open Geo Geo.IGen Geo.IGlue.RSplit
open scoped Geo.KNum

variable {F S SR D : Type} [KNum F] [Carrier F] [Compat F] (ops : Ops F S SR D)

/-! ## the leaf step -/

theorem insert_leaf_step (f : Nat) (cnt : Int) (rects : List (IGen.RRect F)) (a b c d : F)
    (item : IGen.RRect F) (h0 : 0 ≤ cnt) (hc : cnt.toNat < rects.length) :
    rRect_insert ops (f + 1) (RRect.mk (Dyn.rNode (IGen.RNode.mk cnt rects)) a b c d) item (Int.ofNat 0)
      = some (RRect.mk (Dyn.rNode (IGen.RNode.mk (cnt + 1) (rects.set cnt.toNat item))) a b c d,
          !(GBox.contains (⟨a, b, c, d⟩ : GBox F) (rbox item))) := by
  rw [rRect_insert]
  have hz : (Int.ofNat 0 == (0 : Int)) = true := rfl
  simp only [bind, asRNode_rNode, Option.bind_some, count_mk, rects_mk, hz, if_true,
    listSet_nat rects cnt item h0 hc, Geo.IGlue.contains_eq]
  rfl

/-! ## the inner step -/

theorem ofNat_succ_beq0 (h : Nat) : (Int.ofNat (h + 1) == (0 : Int)) = false := by
  have : Int.ofNat (h + 1) ≠ 0 := by
    show ((h + 1 : Nat) : Int) ≠ 0
    omega
  simpa using this

theorem ofNat_succ_sub1 (h : Nat) : Int.ofNat (h + 1) - 1 = Int.ofNat h := by
  show ((h + 1 : Nat) : Int) - 1 = (h : Int)
  omega

theorem listAt_idx (rects : List (IGen.RRect F)) (idx : Nat) (h : idx < rects.length) :
    listAt rects (Int.ofNat idx) = some rects[idx] := Geo.IGlue.listAt_ofNat rects idx h

theorem listSet_idx (rects : List (IGen.RRect F)) (idx : Nat) (x : IGen.RRect F) (h : idx < rects.length) :
    listSet rects (Int.ofNat idx) x = some (rects.set idx x) := by
  simp [listSet, h]

/-- the child's rect after the insertion below it -/
def grownChild (nw item : IGen.RRect F) (g1 : Bool) : IGen.RRect F :=
  if g1 then rRect_expand ops nw item else nw

theorem grownChild_data (nw item : IGen.RRect F) (g1 : Bool) : (grownChild ops nw item g1).data = nw.data := by
  unfold grownChild
  cases g1
  · rfl
  · exact (Geo.IGlue.expand_eq ops nw item).2

theorem grownChild_rbox (nw item : IGen.RRect F) (g1 : Bool) :
    rbox (grownChild ops nw item g1) = if g1 then (rbox nw).expand (rbox item) else rbox nw := by
  unfold grownChild
  cases g1
  · rfl
  · exact (Geo.IGlue.expand_eq ops nw item).1

theorem insert_inner_nosplit (f h : Nat) (cnt : Int) (rects : List (IGen.RRect F)) (a b c d : F)
    (item : IGen.RRect F) (idx : Nat) (nw : IGen.RRect F) (g1 : Bool) (cnd : IGen.RNode F)
    (hlen : idx < rects.length)
    (hchoose : rRect_chooseLeastEnlargement ops (RRect.mk (Dyn.rNode (IGen.RNode.mk cnt rects)) a b c d) item
      = some (Int.ofNat idx))
    (hrec : rRect_insert ops f rects[idx] item (Int.ofNat h) = some (nw, g1))
    (hnd : nw.data = .rNode cnd) (hne : cnd.count ≠ 17) :
    rRect_insert ops (f + 1) (RRect.mk (Dyn.rNode (IGen.RNode.mk cnt rects)) a b c d) item (Int.ofNat (h + 1))
      = some (RRect.mk (Dyn.rNode (IGen.RNode.mk cnt (rects.set idx (grownChild ops nw item g1)))) a b c d,
          if g1 then !(GBox.contains (⟨a, b, c, d⟩ : GBox F) (rbox item)) else false) := by
  rw [rRect_insert]
  have hlen' : ∀ x, idx < (rects.set idx x).length := by intro x; rw [List.length_set]; exact hlen
  have hne' : (cnd.count == IGen.rMaxEntries + 1) = false := by
    simp only [IGen.rMaxEntries]
    simpa using hne
  simp only [bind, asRNode_rNode, Option.bind_some, count_mk, rects_mk, ofNat_succ_beq0, if_false,
    Bool.false_eq_true, hchoose, listAt_idx rects idx hlen, ofNat_succ_sub1, hrec,
    listSet_idx rects idx _ hlen]
  cases g1 with
  | false =>
    simp only [if_false, Bool.false_eq_true, Option.bind_some, asRNode_rNode, rects_mk,
      listAt_idx _ idx (hlen' _), List.getElem_set_self, hnd, hne', grownChild]
  | true =>
    simp only [if_true, Option.bind_some, asRNode_rNode, rects_mk, listAt_idx _ idx (hlen' _),
      List.getElem_set_self, listSet_idx _ idx _ (hlen' _), List.set_set, count_mk]
    have hd := (Geo.IGlue.expand_eq ops nw item).2
    simp only [listAt_idx _ idx (hlen' _), List.getElem_set_self, hd, hnd, asRNode_rNode, Option.bind_some,
      hne', if_false, Bool.false_eq_true, Geo.IGlue.contains_eq, grownChild, if_true]
    rfl

theorem insert_inner_split (f h : Nat) (cnt : Int) (rects : List (IGen.RRect F)) (a b c d : F)
    (item : IGen.RRect F) (idx : Nat) (nw : IGen.RRect F) (g1 : Bool) (cnd : IGen.RNode F)
    (hlen : idx < rects.length)
    (hchoose : rRect_chooseLeastEnlargement ops (RRect.mk (Dyn.rNode (IGen.RNode.mk cnt rects)) a b c d) item
      = some (Int.ofNat idx))
    (hrec : rRect_insert ops f rects[idx] item (Int.ofNat h) = some (nw, g1))
    (hnd : nw.data = .rNode cnd) (heq : cnd.count = 17)
    (hc0 : 0 ≤ cnt) (hidx : idx < cnt.toNat) (hcnt : cnt.toNat < rects.length) (L R : IGen.RRect F)
    (hsplit : rRect_splitLargestAxisEdgeSnap ops f (grownChild ops nw item g1) rects[cnt.toNat] = some (L, R)) :
    rRect_insert ops (f + 1) (RRect.mk (Dyn.rNode (IGen.RNode.mk cnt rects)) a b c d) item (Int.ofNat (h + 1))
      = some (RRect.mk (Dyn.rNode (IGen.RNode.mk (cnt + 1) ((rects.set idx L).set cnt.toNat R))) a b c d,
          if g1 then !(GBox.contains (⟨a, b, c, d⟩ : GBox F) (rbox item)) else false) := by
  rw [rRect_insert]
  have hlen' : ∀ x, idx < (rects.set idx x).length := by intro x; rw [List.length_set]; exact hlen
  have hcnt' : ∀ x, cnt.toNat < (rects.set idx x).length := by intro x; rw [List.length_set]; exact hcnt
  have hcnt'' : ∀ x y, cnt.toNat < ((rects.set idx x).set idx y).length := by
    intro x y; rw [List.length_set, List.length_set]; exact hcnt
  have heq' : (cnd.count == IGen.rMaxEntries + 1) = true := by
    simp only [IGen.rMaxEntries, heq]; rfl
  have hne : idx ≠ cnt.toNat := by omega
  simp only [bind, asRNode_rNode, Option.bind_some, count_mk, rects_mk, ofNat_succ_beq0, if_false,
    Bool.false_eq_true, hchoose, listAt_idx rects idx hlen, ofNat_succ_sub1, hrec,
    listSet_idx rects idx _ hlen]
  cases g1 with
  | false =>
    simp only [grownChild, if_false, Bool.false_eq_true] at hsplit
    simp only [if_false, Bool.false_eq_true, Option.bind_some, asRNode_rNode, rects_mk, count_mk,
      listAt_idx _ idx (hlen' _), List.getElem_set_self, hnd, heq', if_true,
      listAt_nat _ cnt hc0 (hcnt' _), List.getElem_set_ne hne, hsplit,
      listSet_idx _ idx _ (hlen' _), List.set_set, listSet_nat _ cnt _ hc0 (hcnt' _)]
  | true =>
    simp only [grownChild, if_true] at hsplit
    simp only [if_true, Option.bind_some, asRNode_rNode, rects_mk, listAt_idx _ idx (hlen' _),
      List.getElem_set_self, listSet_idx _ idx _ (hlen' _), List.set_set, count_mk]
    have hd := (Geo.IGlue.expand_eq ops nw item).2
    simp only [listAt_idx _ idx (hlen' _), List.getElem_set_self, hd, hnd, asRNode_rNode, Option.bind_some,
      heq', if_true, Geo.IGlue.contains_eq, listAt_nat _ cnt hc0 (hcnt' _), List.getElem_set_ne hne, hsplit,
      listSet_idx _ idx _ (hlen' _), List.set_set, listSet_nat _ cnt _ hc0 (hcnt' _)]
    rfl

/-! ## the model's inner step, at an index, in the two cases -/

theorem take_cons_drop {α : Type} (l : List α) (i : Nat) (x : α) (h : i < l.length) :
    l.take i ++ [x] ++ l.drop (i + 1) = l.set i x := by
  rw [List.set_eq_take_append_cons_drop, if_pos h]
  simp

theorem rInsertChild_nosplit (box : GBox F) (item : GBox F × Nat) (es : List (GBox F × Geo.RNode F))
    (idx : Nat) (hi : idx < es.length) (cn' : Geo.RNode F) (g1 : Bool)
    (hm : (cn', g1) = rInsertNode es[idx].1 item es[idx].2) (hc : cn'.count ≠ 17) :
    rInsertChild box item idx es =
      (es.set idx (if g1 then es[idx].1.expand item.1 else es[idx].1, cn'),
        if g1 then !(box.contains item.1) else false) := by
  rw [rInsertChild_at box item es idx hi, childRepl, childGrown, ← hm]
  have : (cn'.count == rMaxEntries + 1) = false := by
    simp only [rMaxEntries]; simpa using hc
  simp only [this, Bool.false_eq_true, if_false, List.append_nil]
  rw [take_cons_drop es idx _ hi]

theorem rInsertChild_split (box : GBox F) (item : GBox F × Nat) (es : List (GBox F × Geo.RNode F))
    (idx : Nat) (hi : idx < es.length) (cn' : Geo.RNode F) (g1 : Bool)
    (hm : (cn', g1) = rInsertNode es[idx].1 item es[idx].2) (hc : cn'.count = 17) :
    rInsertChild box item idx es =
      (es.set idx (splitPair (if g1 then es[idx].1.expand item.1 else es[idx].1) cn').1
          ++ [(splitPair (if g1 then es[idx].1.expand item.1 else es[idx].1) cn').2],
        if g1 then !(box.contains item.1) else false) := by
  rw [rInsertChild_at box item es idx hi, childRepl, childGrown, ← hm]
  have : (cn'.count == rMaxEntries + 1) = true := by
    simp only [rMaxEntries, hc]; rfl
  simp only [this, if_true]
  rw [take_cons_drop es idx _ hi]

/-- a node whose used slots are among those of a well-formed node is well-formed -/
theorem RWFI_of_sub (h : Nat) (x y : IGen.RRect F) (nd nd' : IGen.RNode F) (hx : RWFI h x)
    (hd : x.data = .rNode nd) (hd' : y.data = .rNode nd') (hs : SlotsOK nd')
    (hsub : ∀ e ∈ usedSlots nd', e ∈ usedSlots nd) : RWFI h y := by
  cases h with
  | zero =>
    obtain ⟨n0, h1, h2, h3⟩ := hx
    rw [hd] at h1
    cases h1
    exact ⟨nd', hd', hs, fun e he => h3 e (hsub e he)⟩
  | succ h =>
    obtain ⟨n0, h1, h2, h3⟩ := hx
    rw [hd] at h1
    cases h1
    exact ⟨nd', hd', hs, fun e he => h3 e (hsub e he)⟩

/-! ## insertion: the leaf level -/

section Core
variable [CompatEq F] [LawfulCarrier F] [SignExactSub F]

/-- the statement proved by induction on the height -/
def InsertOK (boxOf : Nat → GBox F) (item : IGen.RRect F) (v : Int) (h fuel : Nat) (r : IGen.RRect F) : Prop :=
  ∃ r' g, rRect_insert ops fuel r item (Int.ofNat h) = some (r', g) ∧ RWFI h r' ∧ rbox r' = rbox r ∧
    ((absT h r').2, g) = rInsertNode (rbox r) (boxOf v.toNat, v.toNat) (absT h r).2

theorem rinsert_leaf (boxOf : Nat → GBox F) (item : IGen.RRect F) (v : Int) (hv : item.data = .int v)
    (hv0 : 0 ≤ v) (hbox : rbox item = boxOf v.toNat) (fuel : Nat) (r : IGen.RRect F) (hf : 1 ≤ fuel)
    (hw : RWFI 0 r) (hsm : RSmall (absT 0 r).2) : InsertOK ops boxOf item v 0 fuel r := by
  obtain ⟨nd, hd, hs, hl⟩ := hw
  obtain ⟨rd, a, b, c, d⟩ := r
  simp only [data_mk] at hd
  subst hd
  obtain ⟨cnt, rects⟩ := nd
  have hlenU := usedSlots_length _ hs
  obtain ⟨hlen, hc0, hc17⟩ := hs
  simp only [count_mk, rects_mk] at hlen hc0 hc17 hlenU
  have h16 : cnt.toNat ≤ 16 := by
    have := RSmall_count _ hsm
    simp only [absT, data_mk, nodeOf, Geo.RNode.count, List.length_map, hlenU] at this
    exact this
  obtain ⟨f, rfl⟩ : ∃ f, fuel = f + 1 := ⟨fuel - 1, by omega⟩
  have hc : cnt.toNat < rects.length := by omega
  refine ⟨_, _, insert_leaf_step ops f cnt rects a b c d item hc0 hc, ?_, rfl, ?_⟩
  · refine ⟨_, rfl, ⟨?_, ?_, ?_⟩, ?_⟩
    · simp only [rects_mk, List.length_set]; exact hlen
    · simp only [count_mk]; omega
    · simp only [count_mk]; omega
    · intro e he
      rw [used_append cnt rects item hc0 hc] at he
      rcases List.mem_append.1 he with he | he
      · exact hl e he
      · simp only [List.mem_singleton] at he
        subst he
        exact ⟨v, hv, hv0⟩
  · have hleaf : leafT item = (boxOf v.toNat, v.toNat) := by
      simp only [leafT, hv, hbox]
    simp only [absT, data_mk, nodeOf, used_append cnt rects item hc0 hc, List.map_append, List.map_cons,
      List.map_nil, rInsertNode, hleaf, rbox, min0_mk, min1_mk, max0_mk, max1_mk]
    rw [← hbox]
    rfl

/-! ## the split of an overfull, well-formed node whose abstraction is tight and covered -/

theorem used_ne_nil (nd : IGen.RNode F) (hs : SlotsOK nd) (h : usedSlots nd ≠ []) : 1 ≤ nd.count := by
  have hl := usedSlots_length nd hs
  have : (usedSlots nd).length ≠ 0 := by
    intro h0; exact h (List.length_eq_zero_iff.1 h0)
  omega

theorem split_child (boxOf : Nat → GBox F) (h f : Nat) (X right : IGen.RRect F) (hf : 18 ≤ f)
    (hw : RWFI h X) (hinv : RInv boxOf (rbox X) (absT h X).2) (hrt : RT (rbox X) (absT h X).2)
    (hc : (absT h X).2.count = 17) :
    ∃ L R, rRect_splitLargestAxisEdgeSnap ops f X right = some (L, R) ∧ RWFI h L ∧ RWFI h R ∧
      splitPair (rbox X) (absT h X).2 = (absT h L, absT h R) := by
  obtain ⟨nd, hd, hs⟩ := RWFI_node h X hw
  have hEB := entryBoxes_absT h X
  rw [hd] at hEB
  simp only [nodeOf] at hEB
  have hcount : nd.count.toNat = 17 := by
    rw [count_entryBoxes, hEB, List.length_map, usedSlots_length _ hs] at hc
    exact hc
  obtain ⟨l', r', ln, rn, e1, e2, e3, e4, e5, e6, e7, e8, e9, _, _⟩ :=
    split_eq_gen ops f X right nd hd hs (by omega)
  have hcov := RInv_cover boxOf _ _ hinv
  rw [hEB] at hcov
  have htight := RT_tight _ _ hrt
  rw [hEB] at htight
  obtain ⟨n1, n2⟩ := splitEntries_nonempty rbox (rbox X) (usedSlots nd)
    (by rw [usedSlots_length _ hs]; omega) (fun e he => hcov _ (List.mem_map.2 ⟨e, he, rfl⟩)) htight
  have hsubL : ∀ e ∈ usedSlots ln, e ∈ usedSlots nd := by
    intro e he
    apply splitEntries_mem_left rbox (rbox X) (usedSlots nd)
    rw [← e6]; exact he
  have hsubR : ∀ e ∈ usedSlots rn, e ∈ usedSlots nd := by
    intro e he
    apply splitEntries_mem_right rbox (rbox X) (usedSlots nd)
    rw [← e6]; exact he
  rw [← e6] at n1 n2
  have hl1 := used_ne_nil ln e4 n1
  have hr1 := used_ne_nil rn e5 n2
  exact ⟨l', r', e1, RWFI_of_sub h X l' nd ln hw hd e2 e4 hsubL, RWFI_of_sub h X r' nd rn hw hd e3 e5 hsubR,
    splitPair_absT h X l' r' nd ln rn hd e2 e3 e6 (e8 hl1 _) (e9 hr1 _)⟩

/-! ## insertion: an inner level -/

theorem rinsert_inner (boxOf : Nat → GBox F) (item : IGen.RRect F) (v : Int) (hv : item.data = .int v)
    (hv0 : 0 ≤ v) (hbox : rbox item = boxOf v.toNat) (h f : Nat) (r : IGen.RRect F) (hf : 18 ≤ f)
    (ih : ∀ c : IGen.RRect F, RWFI h c → RInv boxOf (rbox c) (absT h c).2 → RT (rbox c) (absT h c).2 →
      RSmall (absT h c).2 → InsertOK ops boxOf item v h f c)
    (hw : RWFI (h + 1) r) (hinv : RInv boxOf (rbox r) (absT (h + 1) r).2)
    (hrt : RT (rbox r) (absT (h + 1) r).2) (hsm : RSmall (absT (h + 1) r).2) :
    InsertOK ops boxOf item v (h + 1) (f + 1) r := by
  obtain ⟨nd, hd, hs, hl⟩ := hw
  obtain ⟨rd, a, b, c, d⟩ := r
  simp only [data_mk] at hd
  subst hd
  obtain ⟨cnt, rects⟩ := nd
  have hlenU := usedSlots_length _ hs
  have hs' := hs
  obtain ⟨hlen, hc0, hc17⟩ := hs'
  simp only [count_mk, rects_mk] at hlen hc0 hc17 hlenU
  simp only [absT, data_mk, nodeOf] at hinv hrt hsm
  rw [RInv_inner] at hinv
  rw [RT_inner] at hrt
  rw [RSmall_inner] at hsm
  have hmapfst : ((usedSlots (IGen.RNode.mk cnt rects)).map (absT h)).map (fun p => p.1)
      = (usedSlots (IGen.RNode.mk cnt rects)).map rbox := by
    rw [List.map_map]; exact List.map_congr_left (fun x _ => absT_fst h x)
  have hne : (usedSlots (IGen.RNode.mk cnt rects)).map rbox ≠ [] := by
    rw [← hmapfst]; exact hrt.1.ne_nil
  have hcnt1 : 1 ≤ cnt := used_ne_nil _ hs (by intro h0; exact hne (by rw [h0]; rfl))
  have h16 : cnt.toNat ≤ 16 := by
    have := hsm.1
    simpa only [List.length_map, hlenU, rMaxEntries] using this
  have hidxlt := chooseLeast_lt ((usedSlots (IGen.RNode.mk cnt rects)).map rbox) (rbox item) hne
  have hchoose := Geo.IGlue.chooseLeast_eq ops (RRect.mk (Dyn.rNode (IGen.RNode.mk cnt rects)) a b c d)
    item (IGen.RNode.mk cnt rects) rfl hs hcnt1
  have hM := rInsertNode_inner (rbox (RRect.mk (Dyn.rNode (IGen.RNode.mk cnt rects)) a b c d))
    (boxOf v.toNat, v.toNat) ((usedSlots (IGen.RNode.mk cnt rects)).map (absT h))
  simp only [hmapfst, ← hbox] at hM
  generalize hidx : chooseLeast ((usedSlots (IGen.RNode.mk cnt rects)).map rbox) (rbox item) = idx
    at hidxlt hchoose hM
  rw [List.length_map, hlenU] at hidxlt
  obtain ⟨hiU, hiR, hget⟩ := used_getElem cnt rects idx hidxlt (by omega)
  have hmem : rects[idx] ∈ usedSlots (IGen.RNode.mk cnt rects) := by
    rw [← hget]; exact List.getElem_mem hiU
  have hmemA : absT h rects[idx] ∈ (usedSlots (IGen.RNode.mk cnt rects)).map (absT h) :=
    List.mem_map.2 ⟨_, hmem, rfl⟩
  have hiE : idx < ((usedSlots (IGen.RNode.mk cnt rects)).map (absT h)).length := by
    rw [List.length_map]; exact hiU
  have hes : ((usedSlots (IGen.RNode.mk cnt rects)).map (absT h))[idx] = absT h rects[idx] := by
    rw [List.getElem_map, hget]
  -- the recursive call on the chosen child
  have hci := (hinv _ hmemA).2
  have hct := hrt.2 _ hmemA
  rw [absT_fst] at hci hct
  obtain ⟨nw, g1, hrec, hwf, hb, hmod⟩ := ih rects[idx] (hl _ hmem) hci hct (hsm.2 _ hmemA)
  -- the model's facts about the grown child
  have hX2 : (absT h (grownChild ops nw item g1)).2 = (absT h nw).2 :=
    absT_snd_data h nw _ (grownChild_data ops nw item g1)
  have hXb : rbox (grownChild ops nw item g1)
      = if g1 then (rbox rects[idx]).expand (boxOf v.toNat) else rbox rects[idx] := by
    rw [grownChild_rbox, hb, hbox]
  have hXw : RWFI h (grownChild ops nw item g1) := RWFI_data h nw _ (grownChild_data ops nw item g1) hwf
  have hgi := (rInsertNode_inv boxOf v.toNat (absT h rects[idx]).2 (rbox rects[idx]) h hci
    (absT_hasHeight h _)).1
  have hgt := rInsertNode_tight boxOf v.toNat (absT h rects[idx]).2 (rbox rects[idx]) h hci
    (absT_hasHeight h _) hct
  rw [← hmod] at hgi hgt
  simp only at hgi hgt
  rw [← hXb, ← hX2] at hgi hgt
  have hm' : ((absT h nw).2, g1) = rInsertNode ((usedSlots (IGen.RNode.mk cnt rects)).map (absT h))[idx].1
      (boxOf v.toNat, v.toNat) ((usedSlots (IGen.RNode.mk cnt rects)).map (absT h))[idx].2 := by
    rw [hes, absT_fst]; exact hmod
  obtain ⟨cnd, hnd, hsl⟩ := RWFI_node h nw hwf
  have hcntM : (absT h nw).2.count = cnd.count.toNat := by
    rw [count_entryBoxes, entryBoxes_absT, hnd]
    simp only [nodeOf, List.length_map, usedSlots_length _ hsl]
  have hboxr : rbox (RRect.mk (Dyn.rNode (IGen.RNode.mk cnt rects)) a b c d) = (⟨a, b, c, d⟩ : GBox F) := rfl
  have hgrow : ∀ x : GBox F × Geo.RNode F,
      (if g1 = true then ((usedSlots (IGen.RNode.mk cnt rects)).map (absT h))[idx].1.expand
          (boxOf v.toNat, v.toNat).1 else ((usedSlots (IGen.RNode.mk cnt rects)).map (absT h))[idx].1)
        = rbox (grownChild ops nw item g1) := by
    intro _; rw [hXb, hes, absT_fst]
  by_cases hc17' : cnd.count = 17
  · -- the child overflows: split
    have hcM : (absT h nw).2.count = 17 := by rw [hcntM, hc17']; rfl
    have hXc : (absT h (grownChild ops nw item g1)).2.count = 17 := by rw [hX2]; exact hcM
    obtain ⟨L, R, hsplit, hLw, hRw, hsp⟩ := split_child ops boxOf h f (grownChild ops nw item g1)
      rects[cnt.toNat] hf hXw hgi hgt hXc
    have hstep := insert_inner_split ops f h cnt rects a b c d item idx nw g1 cnd hiR hchoose hrec hnd
      hc17' hc0 hidxlt (by omega) L R hsplit
    have hmodel := rInsertChild_split (⟨a, b, c, d⟩ : GBox F) (boxOf v.toNat, v.toNat) _ idx hiE
      (absT h nw).2 g1 hm' hcM
    rw [hgrow (boxOf v.toNat, .leaf []), ← hX2, hsp] at hmodel
    have hlenS : cnt.toNat < (rects.set idx L).length := by rw [List.length_set]; omega
    refine ⟨_, _, hstep, ?_, rfl, ?_⟩
    · refine ⟨_, rfl, ⟨?_, ?_, ?_⟩, ?_⟩
      · simp only [rects_mk, List.length_set]; exact hlen
      · simp only [count_mk]; omega
      · simp only [count_mk]; omega
      · intro e he
        rw [used_append cnt (rects.set idx L) R hc0 hlenS, used_set] at he
        rcases List.mem_append.1 he with he | he
        · rcases mem_set_of _ _ _ _ he with rfl | he
          · exact hLw
          · exact hl e he
        · simp only [List.mem_singleton] at he
          subst he; exact hRw
    · rw [← hbox] at hmodel
      rw [← hbox]
      simp only [absT, data_mk, nodeOf]
      rw [hM, hboxr, hmodel]
      simp only [used_append cnt (rects.set idx L) R hc0 hlenS, used_set,
        List.map_append, List.map_set, List.map_cons, List.map_nil]
  · -- no overflow
    have hcM : (absT h nw).2.count ≠ 17 := by rw [hcntM]; have := hsl.2.1; omega
    have hstep := insert_inner_nosplit ops f h cnt rects a b c d item idx nw g1 cnd hiR hchoose hrec hnd
      hc17'
    have hmodel := rInsertChild_nosplit (⟨a, b, c, d⟩ : GBox F) (boxOf v.toNat, v.toNat) _ idx hiE
      (absT h nw).2 g1 hm' hcM
    rw [hgrow (boxOf v.toNat, .leaf []), ← hX2, ← absT_eq] at hmodel
    refine ⟨_, _, hstep, ?_, rfl, ?_⟩
    · refine ⟨_, rfl, ⟨?_, ?_, ?_⟩, ?_⟩
      · simp only [rects_mk, List.length_set]; exact hlen
      · simp only [count_mk]; omega
      · simp only [count_mk]; omega
      · intro e he
        rw [used_set] at he
        rcases mem_set_of _ _ _ _ he with rfl | he
        · exact hXw
        · exact hl e he
    · rw [← hbox] at hmodel
      rw [← hbox]
      simp only [absT, data_mk, nodeOf]
      rw [hM, hboxr, hmodel]
      simp only [used_set, List.map_set]

/-! ## insertion at every height -/

theorem rinsert_core (boxOf : Nat → GBox F) (item : IGen.RRect F) (v : Int) (hv : item.data = .int v)
    (hv0 : 0 ≤ v) (hbox : rbox item = boxOf v.toNat) :
    ∀ (h fuel : Nat) (r : IGen.RRect F), h + 19 ≤ fuel → RWFI h r →
      RInv boxOf (rbox r) (absT h r).2 → RT (rbox r) (absT h r).2 → RSmall (absT h r).2 →
      InsertOK ops boxOf item v h fuel r := by
  intro h
  induction h with
  | zero =>
    intro fuel r hf hw _ _ hsm
    exact rinsert_leaf ops boxOf item v hv hv0 hbox fuel r (by omega) hw hsm
  | succ h ih =>
    intro fuel r hf hw hi ht hs
    obtain ⟨f, rfl⟩ : ∃ f, fuel = f + 1 := ⟨fuel - 1, by omega⟩
    exact rinsert_inner ops boxOf item v hv hv0 hbox h f r (by omega)
      (fun c k1 k2 k3 k4 => ih f c (by omega) k1 k2 k3 k4) hw hi ht hs

end Core

end Geo.IGlue.RIns

namespace Geo.IGlue
open Geo Geo.IGen Geo.IGlue.RIns
open scoped Geo.KNum

variable {F S SR D : Type} [KNum F] [Carrier F] [Compat F] [CompatEq F] [LawfulCarrier F] [SignExactSub F]
  (ops : Ops F S SR D)

/-- **The generated `(*rRect).insert` is the model's `rInsertNode`.**  `r` is a well-formed generated
    node of height `h` whose abstraction `(nb, nd)` satisfies the model invariants: covered
    (`RInv boxOf`, leaf boxes are `boxOf item`), tight (`RT`), at most 16 entries per node (`RSmall`);
    the inserted item is `(boxOf v, v)`.  The call does not panic, does not run out of fuel, keeps
    the receiver well-formed and its rect unchanged (the caller expands it), and the updated node
    and the `grown` flag are the model's. -/
theorem rinsert_eq (boxOf : Nat → GBox F) (h fuel : Nat) (hf : h + 41 ≤ fuel) (r : IGen.RRect F)
    (hw : RWFI h r) (nb : GBox F) (nd : Geo.RNode F) (habs : absNode h r = some (nb, nd))
    (hinv : RInv boxOf nb nd) (hrt : RT nb nd) (hsm : RSmall nd)
    (item : IGen.RRect F) (v : Int) (hv : item.data = .int v) (hv0 : 0 ≤ v)
    (hbox : rbox item = boxOf v.toNat) :
    ∃ r' g nd', IGen.rRect_insert ops fuel r item (Int.ofNat h) = some (r', g) ∧ RWFI h r' ∧
      rbox r' = rbox r ∧ absNode h r' = some (rbox r, nd') ∧
      (nd', g) = Geo.rInsertNode (rbox r) (rbox item, v.toNat) nd := by
  rw [absNode_eq_absT h r hw, absT_eq] at habs
  cases habs
  obtain ⟨r', g, h1, h2, h3, h4⟩ := rinsert_core ops boxOf item v hv hv0 hbox h fuel r (by omega) hw hinv hrt hsm
  refine ⟨r', g, (absT h r').2, h1, h2, h3, ?_, ?_⟩
  · rw [absNode_eq_absT h r' h2, absT_eq, h3]
  · rw [hbox]; exact h4

#print axioms Geo.IGlue.rinsert_eq

end Geo.IGlue
