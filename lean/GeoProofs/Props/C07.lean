/-
  Property C07 — Parse decodes exactly what the document says, or rejects it (on the AST
  model GeoModel.Json).

  * `Defect` / `defect_rejected`: every listed structural defect is rejected, for all options.
  * `WellFormed` / `wf_accepted_partial`: every well-formed document that respects the
    dimension rule (`DimsNotIncreasing`) is accepted; `wf_accepted_counterexample` is the
    known finding D11 (a well-formed document with positions of 2 and then 3 numbers is
    rejected), so the unrestricted statement is false for the code as it is.
  * `wf_decoded`: an accepted well-formed document decodes to the reference reading.
-/
import GeoProofs.ParseLemmas
namespace Geo

/-! ## structural defects are rejected -/

/-- the six types whose required member is "coordinates" -/
def coordTypes : List String :=
  ["Point", "LineString", "Polygon", "MultiPoint", "MultiLineString", "MultiPolygon"]

/-- the listed structural defects. Reserved members are read as Parse reads them: the LAST
    member of each reserved name (`scanKeys`). Positions, lines, rings and polygons are looked
    at through `JVal.elems` (for arrays: their elements), see `badPos`, `badLine`, `badRing`,
    `badPoly` in GeoProofs.ParseLemmas. -/
inductive Defect : JVal → Prop
  /-- not an object -/
  | notObject (v : JVal) (h : ∀ ms, v ≠ .obj ms) : Defect v
  /-- missing type -/
  | typeMissing (ms) (h : (scanKeys ms).type = none) : Defect (.obj ms)
  /-- non-string type -/
  | typeNotString (ms) (t : JVal) (h : (scanKeys ms).type = some t) (hs : ∀ r s, t ≠ .str r s) :
      Defect (.obj ms)
  /-- unknown type -/
  | typeUnknown (ms) (r ty : String) (h : (scanKeys ms).type = some (.str r ty)) (hu : ty ∉ nineTypes) :
      Defect (.obj ms)
  /-- missing required member -/
  | coordinatesMissing (ms) (r ty : String) (h : (scanKeys ms).type = some (.str r ty))
      (ht : ty ∈ coordTypes) (hc : (scanKeys ms).coordinates = none) : Defect (.obj ms)
  | geometriesMissing (ms) (r : String) (h : (scanKeys ms).type = some (.str r "GeometryCollection"))
      (hc : (scanKeys ms).geometries = none) : Defect (.obj ms)
  | featuresMissing (ms) (r : String) (h : (scanKeys ms).type = some (.str r "FeatureCollection"))
      (hc : (scanKeys ms).features = none) : Defect (.obj ms)
  | geometryMissing (ms) (r : String) (h : (scanKeys ms).type = some (.str r "Feature"))
      (hc : (scanKeys ms).geometry = none) : Defect (.obj ms)
  /-- required member that is not an array -/
  | coordinatesNotArray (ms) (r ty : String) (c : JVal) (h : (scanKeys ms).type = some (.str r ty))
      (ht : ty ∈ coordTypes) (hc : (scanKeys ms).coordinates = some c) (ha : c.isArray = false) :
      Defect (.obj ms)
  | geometriesNotArray (ms) (r : String) (c : JVal)
      (h : (scanKeys ms).type = some (.str r "GeometryCollection"))
      (hc : (scanKeys ms).geometries = some c) (ha : c.isArray = false) : Defect (.obj ms)
  | featuresNotArray (ms) (r : String) (c : JVal)
      (h : (scanKeys ms).type = some (.str r "FeatureCollection"))
      (hc : (scanKeys ms).features = some c) (ha : c.isArray = false) : Defect (.obj ms)
  /-- a position with fewer than two ordinates or a non-numeric value among its first four
      (`null` is allowed in Point and MultiPoint positions only) -/
  | pointPosition (ms) (r : String) (c : JVal) (h : (scanKeys ms).type = some (.str r "Point"))
      (hc : (scanKeys ms).coordinates = some c) (hb : badPos true c = true) : Defect (.obj ms)
  | multiPointPosition (ms) (r : String) (c p : JVal) (h : (scanKeys ms).type = some (.str r "MultiPoint"))
      (hc : (scanKeys ms).coordinates = some c) (hp : p ∈ c.elems) (hb : badPos true p = true) :
      Defect (.obj ms)
  /-- a line with fewer than two positions (or with a bad position) -/
  | lineString (ms) (r : String) (c : JVal) (h : (scanKeys ms).type = some (.str r "LineString"))
      (hc : (scanKeys ms).coordinates = some c) (hb : badLine c = true) : Defect (.obj ms)
  | multiLineString (ms) (r : String) (c l : JVal)
      (h : (scanKeys ms).type = some (.str r "MultiLineString"))
      (hc : (scanKeys ms).coordinates = some c) (hl : l ∈ c.elems) (hb : badLine l = true) :
      Defect (.obj ms)
  /-- a polygon with no ring, a ring with fewer than four positions or not closed (or with a
      bad position) -/
  | polygon (ms) (r : String) (c : JVal) (h : (scanKeys ms).type = some (.str r "Polygon"))
      (hc : (scanKeys ms).coordinates = some c) (hb : badPoly c = true) : Defect (.obj ms)
  | multiPolygon (ms) (r : String) (c pg : JVal)
      (h : (scanKeys ms).type = some (.str r "MultiPolygon"))
      (hc : (scanKeys ms).coordinates = some c) (hl : pg ∈ c.elems) (hb : badPoly pg = true) :
      Defect (.obj ms)
  /-- any such defect in a nested object -/
  | nestedGeometry (ms) (r : String) (g : JVal) (h : (scanKeys ms).type = some (.str r "Feature"))
      (hc : (scanKeys ms).geometry = some g) (hd : Defect g) : Defect (.obj ms)
  | nestedGeometries (ms) (r : String) (items : List JVal) (x : JVal)
      (h : (scanKeys ms).type = some (.str r "GeometryCollection"))
      (hc : (scanKeys ms).geometries = some (.arr items)) (hx : x ∈ items) (hd : Defect x) :
      Defect (.obj ms)
  | nestedFeatures (ms) (r : String) (items : List JVal) (x : JVal)
      (h : (scanKeys ms).type = some (.str r "FeatureCollection"))
      (hc : (scanKeys ms).features = some (.arr items)) (hx : x ∈ items) (hd : Defect x) :
      Defect (.obj ms)

/-- what an accepted object of type `ty` looks like, one level deep: no defect of its own,
    and the nested objects are accepted too -/
def OkInv (o : POpts) (n : Nat) (k : Keys) (ty : String) : Prop :=
  ty ∈ nineTypes ∧
  (ty ∈ coordTypes → ∃ c, k.coordinates = some c ∧ c.isArray = true ∧
    (ty = "Point" → badPos true c = false) ∧
    (ty = "MultiPoint" → ∀ p ∈ c.elems, badPos true p = false) ∧
    (ty = "LineString" → badLine c = false) ∧
    (ty = "MultiLineString" → ∀ l ∈ c.elems, badLine l = false) ∧
    (ty = "Polygon" → badPoly c = false) ∧
    (ty = "MultiPolygon" → ∀ pg ∈ c.elems, badPoly pg = false)) ∧
  (ty = "GeometryCollection" → ∃ items, k.geometries = some (.arr items) ∧
    ∀ y ∈ items, ∃ c, parse o n y = .ok c) ∧
  (ty = "FeatureCollection" → ∃ items, k.features = some (.arr items) ∧
    ∀ y ∈ items, ∃ c, parse o n y = .ok c) ∧
  (ty = "Feature" → ∃ g b, k.geometry = some g ∧ parse o n g = .ok b)

local macro "nope" : tactic => `(tactic| (intro hne; exact absurd hne (by decide)))

theorem parse_ok_inv (o : POpts) (n : Nat) (ms : List (String × String × JVal)) (x : Obj)
    (h : parse o (n+1) (.obj ms) = .ok x) :
    ∃ r ty, (scanKeys ms).type = some (.str r ty) ∧ OkInv o n (scanKeys ms) ty := by
  rw [parse_succ_obj] at h
  split at h
  · cases h
  · rename_i r ty hty
    refine ⟨r, ty, hty, ?_⟩
    revert h
    refine parseTyped_elim (motive := fun ty res => res = .ok x → OkInv o n (scanKeys ms) ty)
      o (scanKeys ms) (parse o n) (parseList o n) ty ?_ ?_ ?_ ?_ ?_ ?_ ?_ ?_ ?_ ?_
    · intro h
      obtain ⟨c, hc, ha, hb⟩ := pointCase_ok h
      refine ⟨by decide, fun _ => ⟨c, hc, ha, ?_⟩, by nope, by nope, by nope⟩
      exact ⟨fun _ => hb, by nope, by nope, by nope, by nope, by nope⟩
    · intro h
      obtain ⟨c, hc, ha, hb⟩ := lineCase_ok h
      refine ⟨by decide, fun _ => ⟨c, hc, ha, ?_⟩, by nope, by nope, by nope⟩
      exact ⟨by nope, by nope, fun _ => hb, by nope, by nope, by nope⟩
    · intro h
      obtain ⟨c, hc, ha, hb⟩ := polyCase_ok h
      refine ⟨by decide, fun _ => ⟨c, hc, ha, ?_⟩, by nope, by nope, by nope⟩
      exact ⟨by nope, by nope, by nope, by nope, fun _ => hb, by nope⟩
    · intro h
      obtain ⟨c, hc, ha, hb⟩ := multiPointCase_ok h
      refine ⟨by decide, fun _ => ⟨c, hc, ha, ?_⟩, by nope, by nope, by nope⟩
      exact ⟨by nope, fun _ => hb, by nope, by nope, by nope, by nope⟩
    · intro h
      obtain ⟨c, hc, ha, hb⟩ := multiLineCase_ok h
      refine ⟨by decide, fun _ => ⟨c, hc, ha, ?_⟩, by nope, by nope, by nope⟩
      exact ⟨by nope, by nope, by nope, fun _ => hb, by nope, by nope⟩
    · intro h
      obtain ⟨c, hc, ha, hb⟩ := multiPolyCase_ok h
      refine ⟨by decide, fun _ => ⟨c, hc, ha, ?_⟩, by nope, by nope, by nope⟩
      exact ⟨by nope, by nope, by nope, by nope, by nope, fun _ => hb⟩
    · intro h
      obtain ⟨items, cs, hg, hcs, _⟩ := geomCollCase_ok h
      refine ⟨by decide, by nope, fun _ => ⟨items, hg, ?_⟩, by nope, by nope⟩
      intro y hy
      obtain ⟨c, _, hc⟩ := (parseList_ok o n items cs hcs).left y hy
      exact ⟨c, hc⟩
    · intro h
      obtain ⟨items, cs, hg, hcs, _⟩ := featCollCase_ok h
      refine ⟨by decide, by nope, by nope, fun _ => ⟨items, hg, ?_⟩, by nope⟩
      intro y hy
      obtain ⟨c, _, hc⟩ := (parseList_ok o n items cs hcs).left y hy
      exact ⟨c, hc⟩
    · intro h
      obtain ⟨g, b, hg, hb, _⟩ := featureCase_ok h
      exact ⟨by decide, by nope, by nope, by nope, fun _ => ⟨g, b, hg, hb⟩⟩
    · intro _ h; cases h
  · cases h

end Geo

namespace Geo

theorem parse_nonobj_error (o : POpts) (n : Nat) (v : JVal) (h : ∀ ms, v ≠ .obj ms) :
    ∃ e, parse o n v = .error e := by
  cases n with
  | zero => exact ⟨_, parse_zero o v⟩
  | succ n => exact ⟨_, parse_succ_nonobj o n v h⟩

theorem defect_rejected_fuel (o : POpts) (v : JVal) (h : Defect v) :
    ∀ n, ∃ e, parse o n v = .error e := by
  induction h with
  | notObject v h => exact fun n => parse_nonobj_error o n v h
  | nestedGeometry ms r g h hc hd ih =>
    intro n
    cases n with
    | zero => exact ⟨_, parse_zero o _⟩
    | succ n =>
      apply error_of_not_ok
      intro x hx
      obtain ⟨r', ty', hty', inv⟩ := parse_ok_inv o n ms x hx
      rw [h] at hty'
      cases hty'
      obtain ⟨g', b, hg', hb⟩ := inv.2.2.2.2 rfl
      rw [hc] at hg'
      cases hg'
      obtain ⟨e, he⟩ := ih n
      rw [he] at hb
      cases hb
  | nestedGeometries ms r items y h hc hy hd ih =>
    intro n
    cases n with
    | zero => exact ⟨_, parse_zero o _⟩
    | succ n =>
      apply error_of_not_ok
      intro x hx
      obtain ⟨r', ty', hty', inv⟩ := parse_ok_inv o n ms x hx
      rw [h] at hty'
      cases hty'
      obtain ⟨items', hg', hall⟩ := inv.2.2.1 rfl
      rw [hc] at hg'
      cases hg'
      obtain ⟨c, hc'⟩ := hall y hy
      obtain ⟨e, he⟩ := ih n
      rw [he] at hc'
      cases hc'
  | nestedFeatures ms r items y h hc hy hd ih =>
    intro n
    cases n with
    | zero => exact ⟨_, parse_zero o _⟩
    | succ n =>
      apply error_of_not_ok
      intro x hx
      obtain ⟨r', ty', hty', inv⟩ := parse_ok_inv o n ms x hx
      rw [h] at hty'
      cases hty'
      obtain ⟨items', hg', hall⟩ := inv.2.2.2.1 rfl
      rw [hc] at hg'
      cases hg'
      obtain ⟨c, hc'⟩ := hall y hy
      obtain ⟨e, he⟩ := ih n
      rw [he] at hc'
      cases hc'
  | typeMissing ms h =>
    intro n
    cases n with
    | zero => exact ⟨_, parse_zero o _⟩
    | succ n =>
      apply error_of_not_ok
      intro x hx
      obtain ⟨r', ty', hty', inv⟩ := parse_ok_inv o n ms x hx
      rw [h] at hty'
      cases hty'
  | typeNotString ms t h hs =>
    intro n
    cases n with
    | zero => exact ⟨_, parse_zero o _⟩
    | succ n =>
      apply error_of_not_ok
      intro x hx
      obtain ⟨r', ty', hty', inv⟩ := parse_ok_inv o n ms x hx
      rw [h] at hty'
      cases hty'
      exact hs _ _ rfl
  | typeUnknown ms r ty h hu =>
    intro n
    cases n with
    | zero => exact ⟨_, parse_zero o _⟩
    | succ n =>
      apply error_of_not_ok
      intro x hx
      obtain ⟨r', ty', hty', inv⟩ := parse_ok_inv o n ms x hx
      rw [h] at hty'
      cases hty'
      exact hu inv.1
  | coordinatesMissing ms r ty h ht hc =>
    intro n
    cases n with
    | zero => exact ⟨_, parse_zero o _⟩
    | succ n =>
      apply error_of_not_ok
      intro x hx
      obtain ⟨r', ty', hty', inv⟩ := parse_ok_inv o n ms x hx
      rw [h] at hty'
      cases hty'
      obtain ⟨c, hc', _⟩ := inv.2.1 ht
      rw [hc] at hc'
      cases hc'
  | geometriesMissing ms r h hc =>
    intro n
    cases n with
    | zero => exact ⟨_, parse_zero o _⟩
    | succ n =>
      apply error_of_not_ok
      intro x hx
      obtain ⟨r', ty', hty', inv⟩ := parse_ok_inv o n ms x hx
      rw [h] at hty'
      cases hty'
      obtain ⟨items, hc', _⟩ := inv.2.2.1 rfl
      rw [hc] at hc'
      cases hc'
  | featuresMissing ms r h hc =>
    intro n
    cases n with
    | zero => exact ⟨_, parse_zero o _⟩
    | succ n =>
      apply error_of_not_ok
      intro x hx
      obtain ⟨r', ty', hty', inv⟩ := parse_ok_inv o n ms x hx
      rw [h] at hty'
      cases hty'
      obtain ⟨items, hc', _⟩ := inv.2.2.2.1 rfl
      rw [hc] at hc'
      cases hc'
  | geometryMissing ms r h hc =>
    intro n
    cases n with
    | zero => exact ⟨_, parse_zero o _⟩
    | succ n =>
      apply error_of_not_ok
      intro x hx
      obtain ⟨r', ty', hty', inv⟩ := parse_ok_inv o n ms x hx
      rw [h] at hty'
      cases hty'
      obtain ⟨g, b, hc', _⟩ := inv.2.2.2.2 rfl
      rw [hc] at hc'
      cases hc'
  | coordinatesNotArray ms r ty c h ht hc ha =>
    intro n
    cases n with
    | zero => exact ⟨_, parse_zero o _⟩
    | succ n =>
      apply error_of_not_ok
      intro x hx
      obtain ⟨r', ty', hty', inv⟩ := parse_ok_inv o n ms x hx
      rw [h] at hty'
      cases hty'
      obtain ⟨c', hc', ha', _⟩ := inv.2.1 ht
      rw [hc] at hc'
      cases hc'
      rw [ha] at ha'
      cases ha'
  | geometriesNotArray ms r c h hc ha =>
    intro n
    cases n with
    | zero => exact ⟨_, parse_zero o _⟩
    | succ n =>
      apply error_of_not_ok
      intro x hx
      obtain ⟨r', ty', hty', inv⟩ := parse_ok_inv o n ms x hx
      rw [h] at hty'
      cases hty'
      obtain ⟨items, hc', _⟩ := inv.2.2.1 rfl
      rw [hc] at hc'
      cases hc'
      cases ha
  | featuresNotArray ms r c h hc ha =>
    intro n
    cases n with
    | zero => exact ⟨_, parse_zero o _⟩
    | succ n =>
      apply error_of_not_ok
      intro x hx
      obtain ⟨r', ty', hty', inv⟩ := parse_ok_inv o n ms x hx
      rw [h] at hty'
      cases hty'
      obtain ⟨items, hc', _⟩ := inv.2.2.2.1 rfl
      rw [hc] at hc'
      cases hc'
      cases ha
  | pointPosition ms r c h hc hb =>
    intro n
    cases n with
    | zero => exact ⟨_, parse_zero o _⟩
    | succ n =>
      apply error_of_not_ok
      intro x hx
      obtain ⟨r', ty', hty', inv⟩ := parse_ok_inv o n ms x hx
      rw [h] at hty'
      cases hty'
      obtain ⟨c', hc', _, h1, _⟩ := inv.2.1 (by decide)
      rw [hc] at hc'
      cases hc'
      rw [h1 rfl] at hb
      cases hb
  | multiPointPosition ms r c p h hc hp hb =>
    intro n
    cases n with
    | zero => exact ⟨_, parse_zero o _⟩
    | succ n =>
      apply error_of_not_ok
      intro x hx
      obtain ⟨r', ty', hty', inv⟩ := parse_ok_inv o n ms x hx
      rw [h] at hty'
      cases hty'
      obtain ⟨c', hc', _, _, h1, _⟩ := inv.2.1 (by decide)
      rw [hc] at hc'
      cases hc'
      rw [h1 rfl p hp] at hb
      cases hb
  | lineString ms r c h hc hb =>
    intro n
    cases n with
    | zero => exact ⟨_, parse_zero o _⟩
    | succ n =>
      apply error_of_not_ok
      intro x hx
      obtain ⟨r', ty', hty', inv⟩ := parse_ok_inv o n ms x hx
      rw [h] at hty'
      cases hty'
      obtain ⟨c', hc', _, _, _, h1, _⟩ := inv.2.1 (by decide)
      rw [hc] at hc'
      cases hc'
      rw [h1 rfl] at hb
      cases hb
  | multiLineString ms r c l h hc hl hb =>
    intro n
    cases n with
    | zero => exact ⟨_, parse_zero o _⟩
    | succ n =>
      apply error_of_not_ok
      intro x hx
      obtain ⟨r', ty', hty', inv⟩ := parse_ok_inv o n ms x hx
      rw [h] at hty'
      cases hty'
      obtain ⟨c', hc', _, _, _, _, h1, _⟩ := inv.2.1 (by decide)
      rw [hc] at hc'
      cases hc'
      rw [h1 rfl l hl] at hb
      cases hb
  | polygon ms r c h hc hb =>
    intro n
    cases n with
    | zero => exact ⟨_, parse_zero o _⟩
    | succ n =>
      apply error_of_not_ok
      intro x hx
      obtain ⟨r', ty', hty', inv⟩ := parse_ok_inv o n ms x hx
      rw [h] at hty'
      cases hty'
      obtain ⟨c', hc', _, _, _, _, _, h1, _⟩ := inv.2.1 (by decide)
      rw [hc] at hc'
      cases hc'
      rw [h1 rfl] at hb
      cases hb
  | multiPolygon ms r c pg h hc hl hb =>
    intro n
    cases n with
    | zero => exact ⟨_, parse_zero o _⟩
    | succ n =>
      apply error_of_not_ok
      intro x hx
      obtain ⟨r', ty', hty', inv⟩ := parse_ok_inv o n ms x hx
      rw [h] at hty'
      cases hty'
      obtain ⟨c', hc', _, _, _, _, _, _, h1⟩ := inv.2.1 (by decide)
      rw [hc] at hc'
      cases hc'
      rw [h1 rfl pg hl] at hb
      cases hb

/-- every text with a listed structural defect is rejected, whatever the options -/
theorem defect_rejected (o : POpts) (v : JVal) (h : Defect v) : ∃ e, parseTop o v = .error e :=
  defect_rejected_fuel o v h _

end Geo

namespace Geo

/-! ## well-formed documents -/

/-- One JSON object of one of the nine GeoJSON types with a well-formed required member.
    For duplicate members the last one counts (`scanKeys`). Positions are arrays of exactly
    two to four finite numbers (`wfPos`), line strings have at least two positions (`wfLine`),
    polygon rings at least four with first equal to last in x and y (`wfRing`), polygons at
    least one ring (`wfPoly`); a Feature has a well-formed geometry of any of the nine types
    and any properties; collections are arrays of well-formed objects.

    Side condition (Tile38 Circle convention): a Feature whose `properties.type` is the string
    "Circle" is read as a Circle when its geometry is a Point, which may fail on the radius
    units; such Features are excluded here (`isCircleType = false`). -/
inductive WellFormed : JVal → Prop
  | point (ms) (r : String) (c : JVal) (h : (scanKeys ms).type = some (.str r "Point"))
      (hc : (scanKeys ms).coordinates = some c) (hw : wfPos c = true) : WellFormed (.obj ms)
  | lineString (ms) (r : String) (c : JVal) (h : (scanKeys ms).type = some (.str r "LineString"))
      (hc : (scanKeys ms).coordinates = some c) (hw : wfLine c = true) : WellFormed (.obj ms)
  | polygon (ms) (r : String) (c : JVal) (h : (scanKeys ms).type = some (.str r "Polygon"))
      (hc : (scanKeys ms).coordinates = some c) (hw : wfPoly c = true) : WellFormed (.obj ms)
  | multiPoint (ms) (r : String) (c : JVal) (h : (scanKeys ms).type = some (.str r "MultiPoint"))
      (hc : (scanKeys ms).coordinates = some c) (hw : wfArrayOf wfPos c = true) : WellFormed (.obj ms)
  | multiLineString (ms) (r : String) (c : JVal)
      (h : (scanKeys ms).type = some (.str r "MultiLineString"))
      (hc : (scanKeys ms).coordinates = some c) (hw : wfArrayOf wfLine c = true) : WellFormed (.obj ms)
  | multiPolygon (ms) (r : String) (c : JVal)
      (h : (scanKeys ms).type = some (.str r "MultiPolygon"))
      (hc : (scanKeys ms).coordinates = some c) (hw : wfArrayOf wfPoly c = true) : WellFormed (.obj ms)
  | geometryCollection (ms) (r : String) (items : List JVal)
      (h : (scanKeys ms).type = some (.str r "GeometryCollection"))
      (hc : (scanKeys ms).geometries = some (.arr items))
      (hw : ∀ x ∈ items, WellFormed x) : WellFormed (.obj ms)
  | featureCollection (ms) (r : String) (items : List JVal)
      (h : (scanKeys ms).type = some (.str r "FeatureCollection"))
      (hc : (scanKeys ms).features = some (.arr items))
      (hw : ∀ x ∈ items, WellFormed x) : WellFormed (.obj ms)
  | feature (ms) (r : String) (g : JVal)
      (h : (scanKeys ms).type = some (.str r "Feature"))
      (hc : (scanKeys ms).geometry = some g) (hw : WellFormed g)
      (hcircle : isCircleType (scanKeys ms) = false) : WellFormed (.obj ms)

/-- the dimension rule for one line string / one polygon (all its rings together): if the
    first position has exactly two ordinates, no later position has more than two -/
def lineDimsOK (c : JVal) : Bool := dimsOKb c.elems
def polyDimsOK (c : JVal) : Bool := dimsOKb (c.elems.flatMap JVal.elems)

/-- No LineString / Polygon / MultiLineString / MultiPolygon part has a first position with
    exactly two ordinates and a later position with more than two (known finding D11: such
    documents are rejected by the real code). Stated as an inductive predicate (the recursion
    goes through `scanKeys`, which is not structural). -/
inductive DimsNotIncreasing : JVal → Prop
  | nonObj (v : JVal) (h : ∀ ms, v ≠ .obj ms) : DimsNotIncreasing v
  | obj (ms : List (String × String × JVal))
      (hLine : ∀ r c, (scanKeys ms).type = some (.str r "LineString") →
        (scanKeys ms).coordinates = some c → lineDimsOK c = true)
      (hPoly : ∀ r c, (scanKeys ms).type = some (.str r "Polygon") →
        (scanKeys ms).coordinates = some c → polyDimsOK c = true)
      (hMLine : ∀ r c, (scanKeys ms).type = some (.str r "MultiLineString") →
        (scanKeys ms).coordinates = some c → ∀ l ∈ c.elems, lineDimsOK l = true)
      (hMPoly : ∀ r c, (scanKeys ms).type = some (.str r "MultiPolygon") →
        (scanKeys ms).coordinates = some c → ∀ pg ∈ c.elems, polyDimsOK pg = true)
      (hFeat : ∀ r g, (scanKeys ms).type = some (.str r "Feature") →
        (scanKeys ms).geometry = some g → DimsNotIncreasing g)
      (hGC : ∀ r items, (scanKeys ms).type = some (.str r "GeometryCollection") →
        (scanKeys ms).geometries = some (.arr items) → ∀ x ∈ items, DimsNotIncreasing x)
      (hFC : ∀ r items, (scanKeys ms).type = some (.str r "FeatureCollection") →
        (scanKeys ms).features = some (.arr items) → ∀ x ∈ items, DimsNotIncreasing x) :
      DimsNotIncreasing (.obj ms)

theorem DimsNotIncreasing.inv {ms : List (String × String × JVal)} (h : DimsNotIncreasing (.obj ms)) :
    (∀ r c, (scanKeys ms).type = some (.str r "LineString") →
        (scanKeys ms).coordinates = some c → lineDimsOK c = true) ∧
    (∀ r c, (scanKeys ms).type = some (.str r "Polygon") →
        (scanKeys ms).coordinates = some c → polyDimsOK c = true) ∧
    (∀ r c, (scanKeys ms).type = some (.str r "MultiLineString") →
        (scanKeys ms).coordinates = some c → ∀ l ∈ c.elems, lineDimsOK l = true) ∧
    (∀ r c, (scanKeys ms).type = some (.str r "MultiPolygon") →
        (scanKeys ms).coordinates = some c → ∀ pg ∈ c.elems, polyDimsOK pg = true) ∧
    (∀ r g, (scanKeys ms).type = some (.str r "Feature") →
        (scanKeys ms).geometry = some g → DimsNotIncreasing g) ∧
    (∀ r items, (scanKeys ms).type = some (.str r "GeometryCollection") →
        (scanKeys ms).geometries = some (.arr items) → ∀ x ∈ items, DimsNotIncreasing x) ∧
    (∀ r items, (scanKeys ms).type = some (.str r "FeatureCollection") →
        (scanKeys ms).features = some (.arr items) → ∀ x ∈ items, DimsNotIncreasing x) := by
  cases h with
  | nonObj _ h => exact absurd rfl (h ms)
  | obj _ h1 h2 h3 h4 h5 h6 h7 => exact ⟨h1, h2, h3, h4, h5, h6, h7⟩

/-- `parse` on an object whose (last) type member is the string `ty` -/
theorem parse_of_type {o : POpts} {n : Nat} {ms : List (String × String × JVal)} {r ty : String}
    (h : (scanKeys ms).type = some (.str r ty)) :
    parse o (n+1) (.obj ms) = parseTyped o (scanKeys ms) (parse o n) (parseList o n) ty := by
  rw [parse_succ_obj, h]

theorem wf_accepted_fuel (o : POpts) (ho : o.requireValid = false) (v : JVal) (h : WellFormed v) :
    ∀ n, v.depth < n → DimsNotIncreasing v → ∃ x, parse o n v = .ok x := by
  induction h with
  | point ms r c h hc hw =>
    intro n hn _
    cases n with
    | zero => exact absurd hn (Nat.not_lt_zero _)
    | succ n => rw [parse_of_type h]; exact pointCase_wf ho hc hw
  | lineString ms r c h hc hw =>
    intro n hn hd
    cases n with
    | zero => exact absurd hn (Nat.not_lt_zero _)
    | succ n => rw [parse_of_type h]; exact lineCase_wf ho hc hw (hd.inv.1 r c h hc)
  | polygon ms r c h hc hw =>
    intro n hn hd
    cases n with
    | zero => exact absurd hn (Nat.not_lt_zero _)
    | succ n => rw [parse_of_type h]; exact polyCase_wf ho hc hw (hd.inv.2.1 r c h hc)
  | multiPoint ms r c h hc hw =>
    intro n hn _
    cases n with
    | zero => exact absurd hn (Nat.not_lt_zero _)
    | succ n => rw [parse_of_type h]; exact multiPointCase_wf ho hc hw
  | multiLineString ms r c h hc hw =>
    intro n hn hd
    cases n with
    | zero => exact absurd hn (Nat.not_lt_zero _)
    | succ n => rw [parse_of_type h]; exact multiLineCase_wf ho hc hw (hd.inv.2.2.1 r c h hc)
  | multiPolygon ms r c h hc hw =>
    intro n hn hd
    cases n with
    | zero => exact absurd hn (Nat.not_lt_zero _)
    | succ n => rw [parse_of_type h]; exact multiPolyCase_wf ho hc hw (hd.inv.2.2.2.1 r c h hc)
  | geometryCollection ms r items h hc hw ih =>
    intro n hn hd
    cases n with
    | zero => exact absurd hn (Nat.not_lt_zero _)
    | succ n =>
      rw [parse_of_type h]
      have hdep := (scanKeys_depth ms).geometries _ hc
      rw [depth_obj] at hn
      rw [depth_arr] at hdep
      obtain ⟨cs, hcs⟩ := parseList_total o n items (fun x hx =>
        ih x hx n (by have := depth_le_depthL items x hx; omega) (hd.inv.2.2.2.2.2.1 r items h hc x hx))
      show ∃ x, geomCollCase o (scanKeys ms) (parseList o n) = .ok x
      unfold geomCollCase
      rw [hc, reqArray_arr]
      simp only [hcs]
      exact ⟨_, rfl⟩
  | featureCollection ms r items h hc hw ih =>
    intro n hn hd
    cases n with
    | zero => exact absurd hn (Nat.not_lt_zero _)
    | succ n =>
      rw [parse_of_type h]
      have hdep := (scanKeys_depth ms).features _ hc
      rw [depth_obj] at hn
      rw [depth_arr] at hdep
      obtain ⟨cs, hcs⟩ := parseList_total o n items (fun x hx =>
        ih x hx n (by have := depth_le_depthL items x hx; omega) (hd.inv.2.2.2.2.2.2 r items h hc x hx))
      show ∃ x, featCollCase o (scanKeys ms) (parseList o n) = .ok x
      unfold featCollCase
      rw [hc, reqArray_arr]
      simp only [hcs]
      exact ⟨_, rfl⟩
  | feature ms r g h hc hw hcircle ih =>
    intro n hn hd
    cases n with
    | zero => exact absurd hn (Nat.not_lt_zero _)
    | succ n =>
      rw [parse_of_type h]
      have hdep := (scanKeys_depth ms).geometry _ hc
      rw [depth_obj] at hn
      obtain ⟨b, hb⟩ := ih n (by omega) (hd.inv.2.2.2.2.1 r g h hc)
      show ∃ x, featureCase o (scanKeys ms) (parse o n) = .ok x
      unfold featureCase
      rw [hc]
      simp only [hb, featureObj_noCircle hcircle]
      exact ⟨_, rfl⟩

/-- Every well-formed document that respects the dimension rule is accepted (RequireValid
    off). The restriction `DimsNotIncreasing` is necessary: `wf_accepted_counterexample`. -/
theorem wf_accepted_partial (o : POpts) (ho : o.requireValid = false) (v : JVal)
    (h : WellFormed v) (hd : DimsNotIncreasing v) : ∃ x, parseTop o v = .ok x :=
  wf_accepted_fuel o ho v h _ (Nat.lt_succ_self _) hd

end Geo

namespace Geo

/-! ## concrete documents -/


/-- `{"type":"LineString","coordinates":[[0,0],[10,0,1]]}` -/
def docD11 : JVal :=
  .obj [jmem "type" (jstr "LineString"),
        jmem "coordinates" (.arr [.arr [jnum 0 "0", jnum 0 "0"], .arr [jnum 10 "10", jnum 0 "0", jnum 1 "1"]])]

theorem docD11_rejected : parseTop {} docD11 = .error .coordsInvalid := by
  show parse {} (3+1) (.obj _) = _
  rw [parse_succ_obj]
  rfl

theorem docD11_wellFormed : WellFormed docD11 :=
  .lineString _ _ _ rfl rfl rfl

end Geo

namespace Geo

/-- the D11 witness: a well-formed document (positions of two and of three numbers) that the
    real code — and the model — rejects -/
theorem wf_accepted_counterexample : ∃ v, WellFormed v ∧ ∃ e, parseTop {} v = .error e :=
  ⟨docD11, docD11_wellFormed, _, docD11_rejected⟩

theorem str_ty_eq {r r' a b : String} (h : some (JVal.str r a) = some (JVal.str r' b)) : a = b := by
  injection h with h
  injection h

/-- `{"type":"Polygon","coordinates":[[[0,0],[10,0],[10,10],[0,0]]],"id":7}` -/
def docPoly : JVal :=
  .obj [jmem "type" (jstr "Polygon"),
        jmem "coordinates" (.arr [.arr [.arr [jnum 0 "0", jnum 0 "0"], .arr [jnum 10 "10", jnum 0 "0"],
          .arr [jnum 10 "10", jnum 10 "10"], .arr [jnum 0 "0", jnum 0 "0"]]]),
        jmem "id" (jnum 7 "7")]

theorem docPoly_wellFormed : WellFormed docPoly := .polygon _ _ _ rfl rfl (by decide)

theorem docPoly_dims : DimsNotIncreasing docPoly := by
  refine .obj _ ?_ ?_ ?_ ?_ ?_ ?_ ?_
  · intro r c h; exact absurd (str_ty_eq h) (by decide)
  · intro r c _ hc; cases hc; decide
  · intro r c h; exact absurd (str_ty_eq h) (by decide)
  · intro r c h; exact absurd (str_ty_eq h) (by decide)
  · intro r c h; exact absurd (str_ty_eq h) (by decide)
  · intro r c h; exact absurd (str_ty_eq h) (by decide)
  · intro r c h; exact absurd (str_ty_eq h) (by decide)

/-- non-vacuity of `wf_accepted_partial` -/
example : ∃ x, parseTop {} docPoly = .ok x :=
  wf_accepted_partial {} rfl docPoly docPoly_wellFormed docPoly_dims

/-- `{"type":"Point","coordinates":[1,2]}` is accepted, and this is what it decodes to -/
def docPoint : JVal :=
  .obj [jmem "type" (jstr "Point"), jmem "coordinates" (.arr [jnum 1 "1", jnum 2 "2"])]

example : parseTop {} docPoint = .ok (.point ⟨⟨1, 2⟩, true, "1", "2"⟩ none) := by
  show parse {} (2+1) (.obj _) = _
  rw [parse_succ_obj]
  rfl

/-- `{"type":"Polygon","coordinates":[[[0,0],[1,1],[0,0]]]}`: a ring with three positions -/
def docShortRing : JVal :=
  .obj [jmem "type" (jstr "Polygon"),
        jmem "coordinates" (.arr [.arr [.arr [jnum 0 "0", jnum 0 "0"], .arr [jnum 1 "1", jnum 1 "1"],
          .arr [jnum 0 "0", jnum 0 "0"]]])]

theorem docShortRing_defect : Defect docShortRing := .polygon _ _ _ rfl rfl (by decide)

/-- non-vacuity of `defect_rejected` -/
example : ∃ e, parseTop {} docShortRing = .error e := defect_rejected {} _ docShortRing_defect

example : parseTop {} docShortRing = .error .coordsInvalid := by
  show parse {} (4+1) (.obj _) = _
  rw [parse_succ_obj]
  rfl

/-- a defect in a nested object: `{"type":"Feature","geometry":{"type":"Point","coordinates":[1]}}` -/
def docNested : JVal :=
  .obj [jmem "type" (jstr "Feature"),
        jmem "geometry" (.obj [jmem "type" (jstr "Point"), jmem "coordinates" (.arr [jnum 1 "1"])])]

example : Defect docNested :=
  .nestedGeometry _ _ _ rfl rfl (.pointPosition _ _ _ rfl rfl (by decide))

/-- finding D12: a JSON object in place of a position is ACCEPTED (gjson iterates its member
    values); it is neither well-formed nor a listed defect.
    `{"type":"MultiPoint","coordinates":[{"a":1,"b":2}]}` -/
def docObjPos : JVal :=
  .obj [jmem "type" (jstr "MultiPoint"),
        jmem "coordinates" (.arr [.obj [jmem "a" (jnum 1 "1"), jmem "b" (jnum 2 "2")]])]

example : parseTop {} docObjPos =
    .ok (.coll .multiPoint [.point ⟨⟨1, 2⟩, true, "1", "2"⟩ none] none false) := by
  show parse {} (3+1) (.obj _) = _
  rw [parse_succ_obj]
  rfl

/-- `takeNums` stops after four values: a fifth, non-numeric element is not looked at -/
example : parseTop {} (.obj [jmem "type" (jstr "Point"),
    jmem "coordinates" (.arr [jnum 1 "1", jnum 2 "2", jnum 3 "3", jnum 4 "4", jstr "x"])]) =
    .ok (.point ⟨⟨1, 2⟩, true, "1", "2"⟩ (some ⟨2, ["3", "4"], "", false⟩)) := by
  show parse {} (2+1) (.obj _) = _
  rw [parse_succ_obj]
  rfl

end Geo

namespace Geo

/-! ## decoding: the reference reading of a document -/

/-- what a GeoJSON document says: type, children in order, x and y of every position -/
inductive RefShape where
  | point (xy : Rat × Rat)
  | lineString (ps : List (Rat × Rat))
  | polygon (rings : List (List (Rat × Rat)))
  | coll (kind : CollKind) (children : List RefShape)
  | feature (base : RefShape)

def xyOf (p : Pos) : Rat × Rat := (p.p.x, p.p.y)

mutual
/-- the shape of a parsed object. A SimplePoint has the Point shape, a Rect the shape of its
    five-position Polygon. -/
def shapeOf : Obj → RefShape
  | .point pos _ => .point (xyOf pos)
  | .spoint pos => .point (xyOf pos)
  | .lineString _ ps _ => .lineString (ps.map xyOf)
  | .polygon _ rings _ => .polygon (rings.map (fun r => r.map xyOf))
  | .rectO _ lo hi => .polygon [(rectRing lo hi).map xyOf]
  | .coll kind cs _ _ => .coll kind (shapeOfL cs)
  | .feature b _ => .feature (shapeOf b)
  | .circle c _ => .feature (.point (xyOf c))
def shapeOfL : List Obj → List RefShape
  | [] => []
  | c :: cs => shapeOf c :: shapeOfL cs
end

/-- all or nothing -/
def optAll {α : Type} : List (Option α) → Option (List α)
  | [] => some []
  | a :: as =>
    match a, optAll as with
    | some x, some xs => some (x :: xs)
    | _, _ => none

/-- the positions of a line string / ring / MultiPoint as written: x,y = the `val` fields of
    the first two numbers of each position -/
def readPositions (c : JVal) : Option (List (Rat × Rat)) := optAll (c.elems.map posXY)
def readRings (c : JVal) : Option (List (List (Rat × Rat))) := optAll (c.elems.map readPositions)

/-- the obvious last-key-wins reading of an object of type `ty` with reserved members `k` -/
def refTyped (k : Keys) (rf : JVal → Option RefShape) (ty : String) : Option RefShape :=
  match ty with
  | "Point" => k.coordinates.bind (fun c => (posXY c).map .point)
  | "LineString" => k.coordinates.bind (fun c => (readPositions c).map .lineString)
  | "Polygon" => k.coordinates.bind (fun c => (readRings c).map .polygon)
  | "MultiPoint" => k.coordinates.bind (fun c =>
      (readPositions c).map (fun ps => .coll .multiPoint (ps.map .point)))
  | "MultiLineString" => k.coordinates.bind (fun c =>
      (optAll (c.elems.map readPositions)).map (fun ls => .coll .multiLineString (ls.map .lineString)))
  | "MultiPolygon" => k.coordinates.bind (fun c =>
      (optAll (c.elems.map readRings)).map (fun pgs => .coll .multiPolygon (pgs.map .polygon)))
  | "GeometryCollection" =>
    match k.geometries with
    | some (.arr items) => (optAll (items.map rf)).map (.coll .geometryCollection)
    | _ => none
  | "FeatureCollection" =>
    match k.features with
    | some (.arr items) => (optAll (items.map rf)).map (.coll .featureCollection)
    | _ => none
  | "Feature" => k.geometry.bind (fun g => (rf g).map .feature)
  | _ => none

/-- reference reader (fuel as in `parse`) -/
def refShapeF : Nat → JVal → Option RefShape
  | 0, _ => none
  | n+1, v =>
    match v with
    | .obj ms =>
      match (scanKeys ms).type with
      | some (.str _ ty) => refTyped (scanKeys ms) (refShapeF n) ty
      | _ => none
    | _ => none

def refShape (v : JVal) : Option RefShape := refShapeF (v.depth + 1) v

theorem shapeOfL_eq : ∀ (cs : List Obj), shapeOfL cs = cs.map shapeOf
  | [] => rfl
  | c :: cs => by simp only [shapeOfL, List.map_cons, shapeOfL_eq cs]

theorem optAll_map_some {α β : Type} {f : α → Option β} {g : α → β} :
    ∀ (l : List α), (∀ x ∈ l, f x = some (g x)) → optAll (l.map f) = some (l.map g)
  | [], _ => rfl
  | a :: as, h => by
    simp only [List.map_cons, optAll, h a List.mem_cons_self,
      optAll_map_some as (fun x hx => h x (List.mem_cons_of_mem _ hx))]

theorem Forall2.map_eq {α β γ : Type} {R : α → β → Prop} {g : β → γ} {h : α → γ} {l : List α} {ys : List β}
    (hf : Forall2 R l ys) (hr : ∀ x y, x ∈ l → R x y → g y = h x) : ys.map g = l.map h := by
  induction hf with
  | nil => rfl
  | cons hxy _ ih =>
    simp only [List.map_cons, hr _ _ List.mem_cons_self hxy,
      ih (fun x y hx => hr x y (List.mem_cons_of_mem _ hx))]

/-- reading the x,y of a well-formed position gives what the parser stored -/
theorem wfPos_read {p : JVal} (h : wfPos p = true) : posXY p = some (xyOf (posOfJ p)) :=
  (wfPos_posXY h).1

theorem readPositions_wf {c : JVal} (h : ∀ p ∈ c.elems, wfPos p = true) :
    readPositions c = some (c.elems.map (fun p => xyOf (posOfJ p))) :=
  optAll_map_some _ (fun p hp => wfPos_read (h p hp))

theorem readRings_wf {c : JVal} (h : ∀ r ∈ c.elems, ∀ p ∈ r.elems, wfPos p = true) :
    readRings c = some (c.elems.map (fun r => r.elems.map (fun p => xyOf (posOfJ p)))) :=
  optAll_map_some _ (fun r hr => readPositions_wf (h r hr))

theorem wfLine_elems {c : JVal} (h : wfLine c = true) : ∀ p ∈ c.elems, wfPos p = true := by
  obtain ⟨ps, rfl, _, hps⟩ := wfLine_inv h
  exact hps

theorem wfPoly_elems {c : JVal} (h : wfPoly c = true) : ∀ r ∈ c.elems, ∀ p ∈ r.elems, wfPos p = true := by
  obtain ⟨rings, rfl, _, hr⟩ := wfPoly_inv h
  intro r hr' p hp
  obtain ⟨ps, rfl, _, hps, _⟩ := wfRing_inv (hr r hr')
  exact hps p hp

theorem wfArrayOf_elems {f : JVal → Bool} {c : JVal} (h : wfArrayOf f c = true) : ∀ x ∈ c.elems, f x = true := by
  obtain ⟨xs, rfl, hxs⟩ := wfArrayOf_inv h
  exact hxs

/-! ### the shape of what the per-type bodies return -/

theorem pointCase_shape {o : POpts} {k : Keys} {x : Obj} (h : pointCase o k = .ok x) :
    ∃ c, k.coordinates = some c ∧ shapeOf x = .point (xyOf (posOfJ c)) := by
  unfold pointCase at h
  split at h
  · cases h
  · rename_i c hc
    split at h
    · cases h
    · split at h
      · cases h
      · rename_i pos ex hp
        refine ⟨c, hc, ?_⟩
        rw [← parsePointCoords_pos hp]
        simp only at h
        split at h <;> split at h <;> cases h <;> rfl

theorem lineCase_shape {o : POpts} {k : Keys} {x : Obj} (h : lineCase o k = .ok x) :
    ∃ c, k.coordinates = some c ∧ shapeOf x = .lineString (c.elems.map (fun p => xyOf (posOfJ p))) := by
  unfold lineCase at h
  split at h
  · cases h
  · rename_i c hc
    split at h
    · cases h
    · rename_i ps ex hp
      split at h
      · cases h
      · simp only at h
        split at h
        · cases h
        · cases h
          refine ⟨c, (reqArray_ok hc).1, ?_⟩
          simp only [shapeOf, parseLineCoords_pos hp, List.map_map]
          rfl

theorem rect_shape_eq {p0 p1 p2 p3 p4 : Pos} (hr : isRectRing [p0, p1, p2, p3, p4] = true)
    (hok : ringOK [p0, p1, p2, p3, p4] = true) :
    (rectRing p0 p2).map xyOf = [p0, p1, p2, p3, p4].map xyOf := by
  simp only [isRectRing, Bool.and_eq_true, decide_eq_true_eq] at hr
  obtain ⟨⟨⟨⟨⟨⟨⟨⟨⟨⟨⟨⟨f0, f1⟩, f2⟩, f3⟩, f4⟩, _⟩, e1⟩, e2⟩, _⟩, _⟩, e3⟩, e4⟩, _⟩ := hr
  simp only [ringOK, List.head?_cons, List.getLast?_cons_cons, List.getLast?_singleton,
    Bool.and_eq_true, beq_iff_eq] at hok
  have e5 : p0.p = p4.p := hok.2.2
  have x3 : p3.p.x = p0.p.x := by rw [e4, ← e5]
  simp only [rectRing, List.map_cons, List.map_nil, xyOf]
  rw [← e5, ← e2, e1, e3, x3]

theorem polyCase_shape' {o : POpts} {k : Keys} {x : Obj} (h : polyCase o k = .ok x) :
    ∃ c, k.coordinates = some c ∧
      shapeOf x = .polygon (c.elems.map (fun r => r.elems.map (fun p => xyOf (posOfJ p)))) := by
  obtain ⟨c, rings, ex, hc, hp, hok, rfl⟩ := polyCase_shape h
  refine ⟨c, hc, ?_⟩
  have hrings := parsePolyCoords_pos hp
  have hgoal : rings.map (fun r => r.map xyOf) =
      c.elems.map (fun r => r.elems.map (fun p => xyOf (posOfJ p))) := by
    rw [hrings, List.map_map]
    apply List.map_congr_left
    intro r _
    simp only [Function.comp, ringOfJ, List.map_map]
    rfl
  rcases polyObj_cases o rings (withMembers ex k) with h | ⟨p0, p1, p2, p3, p4, hr, _, _, hrect, h⟩
  · rw [h]; simp only [shapeOf, hgoal]
  · rw [h]
    simp only [shapeOf]
    rw [← hgoal, hr]
    rw [hr] at hok
    simp only [List.all_cons, List.all_nil, Bool.and_true] at hok
    simp only [List.map_cons, List.map_nil, rect_shape_eq hrect hok]

theorem multiPointCase_shape {o : POpts} {k : Keys} {x : Obj} (h : multiPointCase o k = .ok x) :
    ∃ c, k.coordinates = some c ∧
      shapeOf x = .coll .multiPoint (c.elems.map (fun p => .point (xyOf (posOfJ p)))) := by
  unfold multiPointCase at h
  split at h
  · cases h
  · rename_i c hc
    split at h
    · cases h
    · rename_i cs hcs
      simp only at h
      split at h
      · cases h
      · cases h
        refine ⟨c, (reqArray_ok hc).1, ?_⟩
        simp only [mkColl, shapeOf, shapeOfL_eq, List.map_map]
        congr 1
        exact (mapM_except_ok _ _ _ hcs).map_eq (fun p y _ hy => by
          simp only [Function.comp, shapeOf]
          rw [parsePointCoords_pos (p := p) (ex := y.2) (pos := y.1) hy])

theorem lineChild_shape {o : POpts} {v : JVal} {x : Obj} (h : lineChild o v = .ok x) :
    shapeOf x = .lineString (v.elems.map (fun p => xyOf (posOfJ p))) := by
  rw [lineChild_eq] at h
  split at h
  · cases h
  · rename_i ps ex hp
    split at h
    · cases h
    · cases h
      simp only [shapeOf, parseLineCoords_pos hp, List.map_map]
      rfl

theorem polyChild_shape {o : POpts} {v : JVal} {x : Obj} (h : polyChild o v = .ok x) :
    shapeOf x = .polygon (v.elems.map (fun r => r.elems.map (fun p => xyOf (posOfJ p)))) := by
  rw [polyChild_eq] at h
  split at h
  · cases h
  · rename_i rings ex hp
    split at h
    · cases h
    · cases h
      simp only [shapeOf, parsePolyCoords_pos hp, List.map_map]
      congr 1
      apply List.map_congr_left
      intro r _
      simp only [Function.comp, ringOfJ, List.map_map]
      rfl

theorem multiLineCase_shape {o : POpts} {k : Keys} {x : Obj} (h : multiLineCase o k = .ok x) :
    ∃ c, k.coordinates = some c ∧
      shapeOf x = .coll .multiLineString
        (c.elems.map (fun l => .lineString (l.elems.map (fun p => xyOf (posOfJ p))))) := by
  unfold multiLineCase at h
  split at h
  · cases h
  · rename_i c hc
    split at h
    · cases h
    · rename_i cs hcs
      simp only at h
      split at h
      · cases h
      · cases h
        refine ⟨c, (reqArray_ok hc).1, ?_⟩
        simp only [mkColl, shapeOf, shapeOfL_eq]
        congr 1
        exact (mapM_except_ok _ _ _ hcs).map_eq (fun p y _ hy => lineChild_shape hy)

theorem multiPolyCase_shape {o : POpts} {k : Keys} {x : Obj} (h : multiPolyCase o k = .ok x) :
    ∃ c, k.coordinates = some c ∧
      shapeOf x = .coll .multiPolygon
        (c.elems.map (fun pg => .polygon (pg.elems.map (fun r => r.elems.map (fun p => xyOf (posOfJ p)))))) := by
  unfold multiPolyCase at h
  split at h
  · cases h
  · rename_i c hc
    split at h
    · cases h
    · rename_i cs hcs
      simp only at h
      split at h
      · cases h
      · cases h
        refine ⟨c, (reqArray_ok hc).1, ?_⟩
        simp only [mkColl, shapeOf, shapeOfL_eq]
        congr 1
        exact (mapM_except_ok _ _ _ hcs).map_eq (fun p y _ hy => polyChild_shape hy)

theorem refShapeF_of_type {n : Nat} {ms : List (String × String × JVal)} {r ty : String}
    (h : (scanKeys ms).type = some (.str r ty)) :
    refShapeF (n+1) (.obj ms) = refTyped (scanKeys ms) (refShapeF n) ty := by
  simp only [refShapeF, h]

/-- decoding, for every fuel -/
theorem wf_decoded_fuel (o : POpts) (v : JVal) (h : WellFormed v) :
    ∀ (n : Nat) (x : Obj), parse o n v = .ok x → refShapeF n v = some (shapeOf x) := by
  induction h with
  | point ms r c h hc hw =>
    intro n x hx
    obtain ⟨m, _, rfl, _⟩ := parse_ok_isObj hx
    rw [parse_of_type h] at hx
    obtain ⟨c', hc', hs⟩ := pointCase_shape hx
    rw [hc] at hc'; cases hc'
    rw [refShapeF_of_type h, hs]
    simp only [refTyped, hc, Option.bind_some, wfPos_read hw, Option.map_some]
  | lineString ms r c h hc hw =>
    intro n x hx
    obtain ⟨m, _, rfl, _⟩ := parse_ok_isObj hx
    rw [parse_of_type h] at hx
    obtain ⟨c', hc', hs⟩ := lineCase_shape hx
    rw [hc] at hc'; cases hc'
    rw [refShapeF_of_type h, hs]
    simp only [refTyped, hc, Option.bind_some, readPositions_wf (wfLine_elems hw), Option.map_some]
  | polygon ms r c h hc hw =>
    intro n x hx
    obtain ⟨m, _, rfl, _⟩ := parse_ok_isObj hx
    rw [parse_of_type h] at hx
    obtain ⟨c', hc', hs⟩ := polyCase_shape' hx
    rw [hc] at hc'; cases hc'
    rw [refShapeF_of_type h, hs]
    simp only [refTyped, hc, Option.bind_some, readRings_wf (wfPoly_elems hw), Option.map_some]
  | multiPoint ms r c h hc hw =>
    intro n x hx
    obtain ⟨m, _, rfl, _⟩ := parse_ok_isObj hx
    rw [parse_of_type h] at hx
    obtain ⟨c', hc', hs⟩ := multiPointCase_shape hx
    rw [hc] at hc'; cases hc'
    rw [refShapeF_of_type h, hs]
    simp only [refTyped, hc, Option.bind_some, readPositions_wf (wfArrayOf_elems hw), Option.map_some,
      List.map_map]
    rfl
  | multiLineString ms r c h hc hw =>
    intro n x hx
    obtain ⟨m, _, rfl, _⟩ := parse_ok_isObj hx
    rw [parse_of_type h] at hx
    obtain ⟨c', hc', hs⟩ := multiLineCase_shape hx
    rw [hc] at hc'; cases hc'
    rw [refShapeF_of_type h, hs]
    have := optAll_map_some (f := readPositions) (g := fun l => l.elems.map (fun p => xyOf (posOfJ p)))
      c.elems (fun l hl => readPositions_wf (wfLine_elems (wfArrayOf_elems hw l hl)))
    simp only [refTyped, hc, Option.bind_some, this, Option.map_some, List.map_map]
    rfl
  | multiPolygon ms r c h hc hw =>
    intro n x hx
    obtain ⟨m, _, rfl, _⟩ := parse_ok_isObj hx
    rw [parse_of_type h] at hx
    obtain ⟨c', hc', hs⟩ := multiPolyCase_shape hx
    rw [hc] at hc'; cases hc'
    rw [refShapeF_of_type h, hs]
    have := optAll_map_some (f := readRings)
      (g := fun pg => pg.elems.map (fun r => r.elems.map (fun p => xyOf (posOfJ p))))
      c.elems (fun pg hpg => readRings_wf (wfPoly_elems (wfArrayOf_elems hw pg hpg)))
    simp only [refTyped, hc, Option.bind_some, this, Option.map_some, List.map_map]
    rfl
  | geometryCollection ms r items h hc hw ih =>
    intro n x hx
    obtain ⟨m, _, rfl, _⟩ := parse_ok_isObj hx
    rw [parse_of_type h] at hx
    obtain ⟨items', cs, hg, hcs, rfl⟩ := geomCollCase_ok hx
    rw [hc] at hg; cases hg
    rw [refShapeF_of_type h]
    have hf := parseList_ok o m items cs hcs
    have h1 : optAll (items.map (refShapeF m)) = some (cs.map shapeOf) := by
      have : ∀ (l : List JVal) (ys : List Obj), (∀ a ∈ l, a ∈ items) →
          Forall2 (fun a y => parse o m a = .ok y) l ys →
          optAll (l.map (refShapeF m)) = some (ys.map shapeOf) := by
        intro l ys hsub hl
        induction hl with
        | nil => rfl
        | @cons a y as ys' hay _ ih' =>
          simp only [List.map_cons, optAll, ih a (hsub a List.mem_cons_self) m y hay,
            ih' (fun z hz => hsub z (List.mem_cons_of_mem _ hz))]
      exact this items cs (fun _ ha => ha) hf
    simp only [refTyped, hc, h1, Option.map_some, mkColl, shapeOf, shapeOfL_eq]
  | featureCollection ms r items h hc hw ih =>
    intro n x hx
    obtain ⟨m, _, rfl, _⟩ := parse_ok_isObj hx
    rw [parse_of_type h] at hx
    obtain ⟨items', cs, hg, hcs, rfl⟩ := featCollCase_ok hx
    rw [hc] at hg; cases hg
    rw [refShapeF_of_type h]
    have hf := parseList_ok o m items cs hcs
    have h1 : optAll (items.map (refShapeF m)) = some (cs.map shapeOf) := by
      have : ∀ (l : List JVal) (ys : List Obj), (∀ a ∈ l, a ∈ items) →
          Forall2 (fun a y => parse o m a = .ok y) l ys →
          optAll (l.map (refShapeF m)) = some (ys.map shapeOf) := by
        intro l ys hsub hl
        induction hl with
        | nil => rfl
        | @cons a y as ys' hay _ ih' =>
          simp only [List.map_cons, optAll, ih a (hsub a List.mem_cons_self) m y hay,
            ih' (fun z hz => hsub z (List.mem_cons_of_mem _ hz))]
      exact this items cs (fun _ ha => ha) hf
    simp only [refTyped, hc, h1, Option.map_some, mkColl, shapeOf, shapeOfL_eq]
  | feature ms r g h hc hw hcircle ih =>
    intro n x hx
    obtain ⟨m, _, rfl, _⟩ := parse_ok_isObj hx
    rw [parse_of_type h] at hx
    obtain ⟨g', b, hg, hb, hf⟩ := featureCase_ok hx
    rw [hc] at hg; cases hg
    rw [featureObj_noCircle hcircle] at hf
    cases hf
    rw [refShapeF_of_type h]
    simp only [refTyped, hc, Option.bind_some, ih m b hb, Option.map_some, shapeOf]

/-- An accepted well-formed document decodes to what it says: the type named by the last
    "type" member, the children in document order, and for every position the x,y given by the
    `val` fields of its first two numbers — for all options (a SimplePoint has the Point shape,
    a Rect the shape of its five-position Polygon). -/
theorem wf_decoded (o : POpts) (v : JVal) (x : Obj) (h : WellFormed v) (hx : parseTop o v = .ok x) :
    refShape v = some (shapeOf x) :=
  wf_decoded_fuel o v h _ x hx

/-- what `docPoly` decodes to -/
example : refShape docPoly = some (.polygon [[(0,0), (10,0), (10,10), (0,0)]]) := by rfl

end Geo

#print axioms Geo.defect_rejected
#print axioms Geo.wf_accepted_partial
#print axioms Geo.wf_accepted_counterexample
#print axioms Geo.wf_decoded
