/-
  GeoProofs.Algebra.ContInt — ring level: Contains ⇒ Intersects, by direct computation.

  `ringContainsRing r o b = true` (WITHOUT the ≥ 16-point rectangle shortcut, finding D19) makes
  the first vertex of `o` pass `ringContainsPoint r · b`, which is the second test of
  `ringIntersectsSegment r (first segment of o) b`; the rectangle pre-tests follow from the
  rectangle pre-test of `ringContainsRingBody` when `o`'s rectangle is well-formed.
-/
import GeoProofs.Algebra.LeafOK

namespace Geo
open GL

def Box.WFb (r : Box) : Prop := r.min.x ≤ r.max.x ∧ r.min.y ≤ r.max.y

theorem containsBox_intersects {r o : Box} (ho : o.WFb) (h : r.containsBox o = true) :
    r.intersects o = true := by
  rw [containsBox_iff] at h
  rw [intersects_iff]
  obtain ⟨h1, h2, h3, h4⟩ := h
  obtain ⟨w1, w2⟩ := ho
  exact ⟨by linarith, by linarith, by linarith, by linarith⟩

theorem containsBox_area {r o : Box} (ho : o.WFb) (h : r.containsBox o = true) :
    ¬ o.area > r.area := by
  rw [containsBox_iff] at h
  obtain ⟨h1, h2, h3, h4⟩ := h
  obtain ⟨w1, w2⟩ := ho
  unfold Box.area
  have a1 : 0 ≤ o.max.x - o.min.x := by linarith
  have a2 : 0 ≤ o.max.y - o.min.y := by linarith
  have b1 : o.max.x - o.min.x ≤ r.max.x - r.min.x := by linarith
  have b2 : o.max.y - o.min.y ≤ r.max.y - r.min.y := by linarith
  have := mul_le_mul b1 b2 a2 (by linarith)
  linarith

theorem ringContainsSegment_hit_a (r : Ring) (seg : Seg) (b : Bool)
    (h : ringContainsSegment r seg b = true) : (ringContainsPoint r seg.a b).hit = true := by
  unfold ringContainsSegment ringContainsSegmentS at h
  by_cases h1 : (!r.rect.containsPt seg.a || !r.rect.containsPt seg.b) = true
  · rw [if_pos h1] at h; cases h
  rw [if_neg h1] at h
  simp only at h
  by_cases h2 : (!(ringContainsPoint r seg.a b).hit) = true
  · rw [if_pos h2] at h; cases h
  · simpa using h2

theorem ring_first (o : Ring) :
    (o.empty = false → 0 < o.numSegments ∧ 0 < o.numPoints) ∧ (o.segmentAt 0).a = o.pointAt 0 := by
  cases o with
  | bx b => exact ⟨fun _ => ⟨show 0 < 4 by omega, show 0 < 5 by omega⟩, rfl⟩
  | ser s =>
    refine ⟨fun he => ?_, rfl⟩
    have he' : s.empty = false := he
    constructor
    · rcases Nat.eq_zero_or_pos (Ring.ser s).numSegments with h0 | h0
      · rw [(numSegments_eq_zero_iff s).1 h0] at he'; cases he'
      · exact h0
    · show 0 < s.pts.size
      unfold Series.empty at he'
      simp only [Bool.or_eq_false_iff, decide_eq_false_iff_not, not_lt] at he'
      omega

theorem body_first_hit (r o : Ring) (b : Bool) (he : o.empty = false)
    (h : ringContainsRingBody r o b = true) : (ringContainsPoint r (o.pointAt 0) b).hit = true := by
  obtain ⟨hpos, hfirst⟩ := ring_first o
  obtain ⟨hs, hp⟩ := hpos he
  unfold ringContainsRingBody at h
  by_cases h1 : (!r.rect.containsBox o.rect) = true
  · rw [if_pos h1] at h; cases h
  rw [if_neg h1] at h
  by_cases hc : r.convex = true
  · rw [if_pos hc, List.all_eq_true] at h
    exact h 0 (List.mem_range.2 hp)
  · rw [if_neg hc, List.all_eq_true] at h
    rw [← hfirst]
    exact ringContainsSegment_hit_a r _ b (h 0 (List.mem_range.2 hs))

/-- the shortcut does not apply -/
theorem ringContainsRing_small {r o : Ring} {b : Bool} (hsmall : o.numPoints < complexRingMinPoints)
    (h : ringContainsRing r o b = true) :
    r.empty = false ∧ o.empty = false ∧ ringContainsRingBody r o b = true := by
  unfold ringContainsRing at h
  by_cases h1 : (r.empty || o.empty) = true
  · rw [if_pos h1] at h; cases h
  rw [if_neg h1] at h
  simp only [Bool.or_eq_true, not_or, Bool.not_eq_true] at h1
  have : (decide (o.numPoints ≥ complexRingMinPoints) && ringContainsRingBody r (.bx o.rect) b) = false := by
    rw [Bool.and_eq_false_iff]; left
    simp only [decide_eq_false_iff_not, ge_iff_le, not_le]; exact hsmall
  rw [this] at h
  exact ⟨h1.1, h1.2, by simpa using h⟩

theorem ringContains_imp_intersects (r o : Ring) (b : Bool)
    (hsmall : o.numPoints < complexRingMinPoints) (hwf : o.rect.WFb)
    (h : ringContainsRing r o b = true) : ringIntersectsRing r o b = true := by
  obtain ⟨hre, hoe, hbody⟩ := ringContainsRing_small hsmall h
  have hrect := ringContainsRingBody_rect r o b hbody
  have hhit := body_first_hit r o b hoe hbody
  obtain ⟨hpos, hfirst⟩ := ring_first o
  obtain ⟨hs, -⟩ := hpos hoe
  unfold ringIntersectsRing
  rw [if_neg (by simp [hre, hoe]), if_neg (by simp [containsBox_intersects hwf hrect])]
  simp only [containsBox_area hwf hrect, if_false]
  rw [List.any_eq_true]
  refine ⟨0, List.mem_range.2 hs, ?_⟩
  unfold ringIntersectsSegment ringIntersectsSegmentS
  have hin : r.rect.containsPt (o.segmentAt 0).a = true := by
    rw [hfirst]; exact ringContainsPoint_hit_rect r _ b hhit
  rw [if_neg (by
    simp only [Bool.not_eq_true', Bool.not_eq_false]
    exact intersects_of_common _ _ _ (onSeg_in_segBox _ _ (K.onSeg_left _ _)) hin)]
  rw [hfirst, if_pos hhit]

theorem ringContainsLine_imp_intersects (r : Ring) (l : Line) (b : Bool)
    (hsmall : l.numPoints < complexRingMinPoints) (hwf : l.rect.WFb)
    (h : ringContainsLine r l b = true) : ringIntersectsLine r l b = true := by
  obtain ⟨hre, hoe, hbody⟩ := ringContainsRing_small (o := .ser l) hsmall h
  have hrect := ringContainsRingBody_rect r (.ser l) b hbody
  have hhit := body_first_hit r (.ser l) b hoe hbody
  obtain ⟨-, hp⟩ := (ring_first (.ser l)).1 hoe
  have hoe' : l.empty = false := hoe
  unfold ringIntersectsLine
  rw [if_neg (by simp [hre, hoe']), if_neg (by
    simp only [Bool.not_eq_true', Bool.not_eq_false]; exact containsBox_intersects hwf hrect)]
  rw [if_pos]
  rw [List.any_eq_true]
  exact ⟨0, List.mem_range.2 hp, hhit⟩

end Geo
