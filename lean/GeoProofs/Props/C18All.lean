/-
  C18, everything: Props/C18.lean (the flags and the rectangle of the exact model meet their
  specification for every vertex sequence) and Props/FloatBridgeSeries.lean (`processPoints`
  REGENERATED from geometry/series.go on every run, evaluated in the exact binary64 model, equals the
  exact model: rectangle always, convex flag on E, clockwise flag under the size hypothesis that
  the counterexample rings ringR1/ringR2 show to be necessary).
-/
import GeoProofs.Props.C18
import GeoProofs.Props.FloatBridgeSeries
