/-
  GeoProofs.IndexFloat.CodecNat — the magnitude part of the IEEE-754 binary64 bit pattern, on
  naturals: a finite double has magnitude `n · 2^-1074` with `n = M · 2^j`, `M < 2^53`,
  `j ≤ 2045` (`Rep n`).  `magBits n` is the 63-bit pattern (11-bit biased exponent, 52-bit
  fraction; subnormals have biased exponent 0), `magOf` reads it back.
-/
import Mathlib.Data.Nat.Log
import Mathlib.Tactic.Ring
import Mathlib.Tactic.Linarith
import Mathlib.Tactic.NormNum

namespace Geo.DF

/-- magnitudes of finite doubles, in units of 2^-1074 -/
def Rep (n : Nat) : Prop := ∃ M j : Nat, M < 2 ^ 53 ∧ j ≤ 2045 ∧ n = M * 2 ^ j

/-- biased exponent · 2^52 + fraction (for `n < 2^52`, a subnormal: `n` itself) -/
def magBits (n : Nat) : Nat :=
  if n < 2 ^ 52 then n else (n.log2 - 51) * 2 ^ 52 + (n / 2 ^ (n.log2 - 52) - 2 ^ 52)

/-- magnitude (units of 2^-1074) of a 63-bit pattern `r` -/
def magOf (r : Nat) : Nat :=
  if r / 2 ^ 52 = 0 then r % 2 ^ 52 else (r % 2 ^ 52 + 2 ^ 52) * 2 ^ (r / 2 ^ 52 - 1)

theorem Rep.zero : Rep 0 := ⟨0, 0, by norm_num, by norm_num, by norm_num⟩

/-- the facts about a normal magnitude: quotient in [2^52, 2^53), exact, exponent ≤ 2045 -/
theorem Rep.normal {n : Nat} (h : Rep n) (hn : 2 ^ 52 ≤ n) :
    2 ^ 52 ≤ n / 2 ^ (n.log2 - 52) ∧ n / 2 ^ (n.log2 - 52) < 2 ^ 53 ∧
    n / 2 ^ (n.log2 - 52) * 2 ^ (n.log2 - 52) = n ∧ n.log2 - 52 ≤ 2045 ∧ 52 ≤ n.log2 := by
  obtain ⟨M, j, hM, hj, rfl⟩ := h
  set n := M * 2 ^ j with hn_def
  have hn0 : n ≠ 0 := by
    have : 0 < 2 ^ 52 := by norm_num
    omega
  have hlo : 2 ^ n.log2 ≤ n := Nat.log2_self_le hn0
  have hhi : n < 2 ^ (n.log2 + 1) := Nat.lt_log2_self
  have h52 : 52 ≤ n.log2 := by
    by_contra hc
    have : n.log2 + 1 ≤ 52 := by omega
    have := Nat.pow_le_pow_right (by norm_num : 0 < 2) this
    omega
  -- n < 2^(53+j)
  have hnlt : n < 2 ^ (53 + j) := by
    rw [pow_add]; exact Nat.mul_lt_mul_of_lt_of_le hM (le_refl _) (by positivity)
  have hlog : n.log2 < 53 + j := by
    by_contra hc
    have := Nat.pow_le_pow_right (by norm_num : 0 < 2) (not_lt.mp hc)
    omega
  have hE : n.log2 - 52 ≤ j := by omega
  have hdvd : 2 ^ (n.log2 - 52) ∣ n := by
    exact Dvd.dvd.mul_left (pow_dvd_pow 2 hE) M
  have hpos : 0 < 2 ^ (n.log2 - 52) := by positivity
  have hmul : n / 2 ^ (n.log2 - 52) * 2 ^ (n.log2 - 52) = n := Nat.div_mul_cancel hdvd
  have hsplit : 2 ^ n.log2 = 2 ^ 52 * 2 ^ (n.log2 - 52) := by
    rw [← pow_add]; congr 1; omega
  have hsplit' : 2 ^ (n.log2 + 1) = 2 ^ 53 * 2 ^ (n.log2 - 52) := by
    rw [← pow_add]; congr 1; omega
  refine ⟨?_, ?_, hmul, by omega, h52⟩
  · rw [Nat.le_div_iff_mul_le hpos, ← hsplit]; exact hlo
  · rw [Nat.div_lt_iff_lt_mul hpos, ← hsplit']; exact hhi

theorem magBits_lt {n : Nat} (h : Rep n) : magBits n < 2047 * 2 ^ 52 := by
  unfold magBits
  split
  · omega
  · next hn =>
    obtain ⟨h1, h2, _, h4, h5⟩ := h.normal (not_lt.mp hn)
    have : n.log2 - 51 ≤ 2046 := by omega
    have := Nat.mul_le_mul_right (2 ^ 52) this
    omega

theorem magOf_magBits {n : Nat} (h : Rep n) : magOf (magBits n) = n := by
  unfold magBits
  split
  · next hn =>
    unfold magOf
    rw [Nat.div_eq_of_lt hn, if_pos rfl, Nat.mod_eq_of_lt hn]
  · next hn =>
    obtain ⟨h1, h2, h3, h4, h5⟩ := h.normal (not_lt.mp hn)
    set q := n / 2 ^ (n.log2 - 52) with hq
    have hf : q - 2 ^ 52 < 2 ^ 52 := by omega
    have hdiv : ((n.log2 - 51) * 2 ^ 52 + (q - 2 ^ 52)) / 2 ^ 52 = n.log2 - 51 := by
      rw [Nat.add_comm, Nat.add_mul_div_right _ _ (by norm_num : 0 < 2 ^ 52),
        Nat.div_eq_of_lt hf, Nat.zero_add]
    have hmod : ((n.log2 - 51) * 2 ^ 52 + (q - 2 ^ 52)) % 2 ^ 52 = q - 2 ^ 52 := by
      rw [Nat.add_comm, Nat.add_mul_mod_self_right, Nat.mod_eq_of_lt hf]
    unfold magOf
    rw [hdiv, hmod, if_neg (by omega)]
    rw [show q - 2 ^ 52 + 2 ^ 52 = q by omega, show n.log2 - 51 - 1 = n.log2 - 52 by omega]
    exact h3

end Geo.DF
