/-
  Property C10: a collection (MultiPoint, MultiLineString, MultiPolygon, GeometryCollection,
  FeatureCollection) answers every question as the composition of its children's answers,
  and the child index (`indexed`) is only an accelerator.

  All statements are about GeoModel.Object as written; the leaf predicates are left opaque.
-/
import GeoProofs.ObjLemmas

namespace Geo
open Obj

variable {k : CollKind} {cs : List Obj} {ex : Option Extra} {idx : Bool}

/-! ### derived attributes -/

theorem coll_empty_iff : (Obj.coll k cs ex idx).empty = cs.all (fun c => c.empty) := by
  simp [Obj.empty, allEmpty_eq]

theorem coll_numPoints_sum : (Obj.coll k cs ex idx).numPoints = (cs.map Obj.numPoints).sum := by
  simp [Obj.numPoints, sumPoints_eq]

/-- The rectangle is the left fold of `unionBox` over the rectangles of the non-empty
    children (`zeroBox` if there is none); in particular with exactly one non-empty child it
    is that child's rectangle.  (`foldRects [] = zeroBox`, `foldRects (r :: rs) = rs.foldl unionBox r`.) -/
theorem coll_rect_union :
    (Obj.coll k cs ex idx).rect
        = foldRects ((cs.filter (fun c => !c.empty)).map Obj.rect) ∧
    (cs.filter (fun c => !c.empty) = [] → (Obj.coll k cs ex idx).rect = zeroBox) ∧
    (∀ c, cs.filter (fun c => !c.empty) = [c] → (Obj.coll k cs ex idx).rect = c.rect) ∧
    (∀ c rest, cs.filter (fun c => !c.empty) = c :: rest →
        (Obj.coll k cs ex idx).rect = (rest.map Obj.rect).foldl unionBox c.rect) := by
  have h : (Obj.coll k cs ex idx).rect = foldRects ((cs.filter (fun c => !c.empty)).map Obj.rect) := by
    rw [Obj.rect, collRect_getD, nonEmptyKids]
  refine ⟨h, ?_, ?_, ?_⟩
  · intro h0; rw [h, h0]; rfl
  · intro c h1; rw [h, h1]; rfl
  · intro c rest h1; rw [h, h1]; rfl

/-- `ForEach` visits the children's leaves in document order -/
theorem coll_leaves : (Obj.coll k cs ex idx).leaves = (cs.map Obj.leaves).flatten := by
  rw [Obj.leaves, leavesL_eq]

/-! ### Search -/

theorem searchChildren_spec (cs : List Obj) (q : Box) :
    searchChildren cs q = cs.filter (fun c => !c.empty && c.rect.intersects q) := rfl

/-- exactly the non-empty children whose rectangle meets the query -/
theorem mem_searchChildren (cs : List Obj) (q : Box) (c : Obj) :
    c ∈ searchChildren cs q ↔ c ∈ cs ∧ c.empty = false ∧ c.rect.intersects q = true := by
  simp [searchChildren]

/-- in child order, each child at most once (and, with `searchChildren_length`, exactly once) -/
theorem searchChildren_sublist (cs : List Obj) (q : Box) : (searchChildren cs q).Sublist cs :=
  List.filter_sublist

theorem searchChildren_length (cs : List Obj) (q : Box) :
    (searchChildren cs q).length = cs.countP (fun c => !c.empty && c.rect.intersects q) := by
  rw [searchChildren, List.countP_eq_length_filter]

theorem searchChildren_nodup (cs : List Obj) (q : Box) (h : cs.Nodup) : (searchChildren cs q).Nodup :=
  h.sublist (searchChildren_sublist cs q)

/-- The model's loops ARE `Search` followed by a scan of what it found: a part is contained by /
    intersects some child found by `Search(part.Rect())`; `WithinRect` counts the children found by
    `Search(rect)` up to the first failure and compares with the number of ALL children. -/
theorem coll_methods_via_search (g : Obj) (r : Box) :
    containsSome cs g = (searchChildren cs g.rect).any (fun c => c.contains g) ∧
    intersectsSome cs g = (searchChildren cs g.rect).any (fun c => c.intersects g) ∧
    (Obj.coll k cs ex idx).intersectsRect r = (searchChildren cs r).any (fun c => c.intersectsRect r) ∧
    (Obj.coll k cs ex idx).withinRect r =
      (if (Obj.coll k cs ex idx).empty then false
       else withinCount (searchChildren cs r) (fun c => c.withinRect r) == cs.length) := by
  refine ⟨containsSome_eq_any cs g, intersectsSome_eq_any cs g, ?_, ?_⟩
  · rw [Obj.intersectsRect, intersectsRectL_eq_any]
  · rw [Obj.withinRect, withinRectL_eq]

/-! ### binary predicates with the collection as receiver -/

theorem coll_intersects_iff (x : Obj) : (Obj.coll k cs ex idx).intersects x = true ↔
    ∃ c ∈ cs, c.empty = false ∧ ∃ g ∈ x.leaves, g.empty = false ∧
      c.rect.intersects g.rect = true ∧ c.intersects g = true :=
  collR_intersects_iff x

theorem coll_contains_iff (x : Obj) : (Obj.coll k cs ex idx).contains x = true ↔
    (Obj.coll k cs ex idx).empty = false ∧ (∃ g ∈ x.leaves, g.empty = false) ∧
    ∀ g ∈ x.leaves, g.empty = false →
      ∃ c ∈ cs, c.empty = false ∧ c.rect.intersects g.rect = true ∧ c.contains g = true :=
  collR_contains_iff x

/-! ### the eight Spatial methods -/

theorem coll_withinRect_iff (r : Box) : (Obj.coll k cs ex idx).withinRect r = true ↔
    (Obj.coll k cs ex idx).empty = false ∧
    ∀ c ∈ cs, c.empty = false ∧ c.rect.intersects r = true ∧ c.withinRect r = true :=
  collR_withinRect_iff r

theorem coll_withinPoint_iff (q : Pt) : (Obj.coll k cs ex idx).withinPoint q = true ↔
    (Obj.coll k cs ex idx).empty = false ∧
    ∀ c ∈ cs, c.empty = false ∧ c.rect.intersects q.box = true ∧ c.withinPoint q = true :=
  collR_withinPoint_iff q

theorem coll_withinLine_iff (l : Line) : (Obj.coll k cs ex idx).withinLine l = true ↔
    (Obj.coll k cs ex idx).empty = false ∧
    ∀ c ∈ cs, c.empty = false ∧ c.rect.intersects l.rect = true ∧ c.withinLine l = true :=
  collR_withinLine_iff l

theorem coll_withinPoly_iff (p : Poly) : (Obj.coll k cs ex idx).withinPoly p = true ↔
    (Obj.coll k cs ex idx).empty = false ∧
    ∀ c ∈ cs, c.empty = false ∧ c.rect.intersects p.rect = true ∧ c.withinPoly p = true :=
  collR_withinPoly_iff p

theorem coll_intersectsRect_iff (r : Box) : (Obj.coll k cs ex idx).intersectsRect r = true ↔
    ∃ c ∈ cs, c.empty = false ∧ c.rect.intersects r = true ∧ c.intersectsRect r = true :=
  collR_intersectsRect_iff r

theorem coll_intersectsPoint_iff (q : Pt) : (Obj.coll k cs ex idx).intersectsPoint q = true ↔
    ∃ c ∈ cs, c.empty = false ∧ c.rect.intersects q.box = true ∧ c.intersectsPoint q = true :=
  collR_intersectsPoint_iff q

theorem coll_intersectsLine_iff (l : Line) : (Obj.coll k cs ex idx).intersectsLine l = true ↔
    ∃ c ∈ cs, c.empty = false ∧ c.rect.intersects l.rect = true ∧ c.intersectsLine l = true :=
  collR_intersectsLine_iff l

theorem coll_intersectsPoly_iff (p : Poly) : (Obj.coll k cs ex idx).intersectsPoly p = true ↔
    ∃ c ∈ cs, c.empty = false ∧ c.rect.intersects p.rect = true ∧ c.intersectsPoly p = true :=
  collR_intersectsPoly_iff p

/-! ### the child index is only an accelerator -/

/-- as a receiver and for the derived attributes -/
theorem indexed_irrelevant_receiver (idx idx' : Bool) (x : Obj) :
    (Obj.coll k cs ex idx).empty = (Obj.coll k cs ex idx').empty ∧
    (Obj.coll k cs ex idx).rect = (Obj.coll k cs ex idx').rect ∧
    (Obj.coll k cs ex idx).center = (Obj.coll k cs ex idx').center ∧
    (Obj.coll k cs ex idx).valid = (Obj.coll k cs ex idx').valid ∧
    (Obj.coll k cs ex idx).numPoints = (Obj.coll k cs ex idx').numPoints ∧
    (Obj.coll k cs ex idx).leaves = (Obj.coll k cs ex idx').leaves ∧
    (Obj.coll k cs ex idx).contains x = (Obj.coll k cs ex idx').contains x ∧
    (Obj.coll k cs ex idx).intersects x = (Obj.coll k cs ex idx').intersects x ∧
    (∀ r, (Obj.coll k cs ex idx).withinRect r = (Obj.coll k cs ex idx').withinRect r) ∧
    (∀ q, (Obj.coll k cs ex idx).withinPoint q = (Obj.coll k cs ex idx').withinPoint q) ∧
    (∀ l, (Obj.coll k cs ex idx).withinLine l = (Obj.coll k cs ex idx').withinLine l) ∧
    (∀ p, (Obj.coll k cs ex idx).withinPoly p = (Obj.coll k cs ex idx').withinPoly p) ∧
    (∀ r, (Obj.coll k cs ex idx).intersectsRect r = (Obj.coll k cs ex idx').intersectsRect r) ∧
    (∀ q, (Obj.coll k cs ex idx).intersectsPoint q = (Obj.coll k cs ex idx').intersectsPoint q) ∧
    (∀ l, (Obj.coll k cs ex idx).intersectsLine l = (Obj.coll k cs ex idx').intersectsLine l) ∧
    (∀ p, (Obj.coll k cs ex idx).intersectsPoly p = (Obj.coll k cs ex idx').intersectsPoly p) := by
  have he : (Obj.coll k cs ex idx).empty = (Obj.coll k cs ex idx').empty := by simp [Obj.empty]
  have hr : (Obj.coll k cs ex idx).rect = (Obj.coll k cs ex idx').rect := by simp [Obj.rect]
  refine ⟨he, hr, ?_, ?_, ?_, ?_, ?_, ?_, ?_, ?_, ?_, ?_, ?_, ?_, ?_, ?_⟩
  · simp [Obj.center, hr]
  · cases k <;> simp [Obj.valid, hr]
  · simp [Obj.numPoints]
  · simp [Obj.leaves]
  · rw [Obj.contains, Obj.contains, he]
  · rw [Obj.intersects, Obj.intersects]
  · intro r; rw [Obj.withinRect, Obj.withinRect, he]
  · intro q; rw [Obj.withinPoint, Obj.withinPoint, he]
  · intro l; rw [Obj.withinLine, Obj.withinLine, he]
  · intro p; rw [Obj.withinPoly, Obj.withinPoly, he]
  · intro r; rw [Obj.intersectsRect, Obj.intersectsRect]
  · intro q; rw [Obj.intersectsPoint, Obj.intersectsPoint]
  · intro l; rw [Obj.intersectsLine, Obj.intersectsLine]
  · intro p; rw [Obj.intersectsPoly, Obj.intersectsPoly]

/-- as an argument (`x.contains c`, i.e. `c.within x`, and `x.intersects c`), for every `x` -/
theorem indexed_irrelevant_argument (idx idx' : Bool) : ∀ x : Obj,
    x.contains (Obj.coll k cs ex idx) = x.contains (Obj.coll k cs ex idx') ∧
    x.intersects (Obj.coll k cs ex idx) = x.intersects (Obj.coll k cs ex idx') := by
  have R := fun x => @indexed_irrelevant_receiver k cs ex idx idx' x
  have hl : (Obj.coll k cs ex idx).leaves = (Obj.coll k cs ex idx').leaves := (R default).2.2.2.2.2.1
  intro x
  induction x using Obj.ind with
  | hpoint pos e =>
    exact ⟨by rw [Obj.contains, Obj.contains]; exact (R default).2.2.2.2.2.2.2.2.2.1 _,
      by rw [Obj.intersects, Obj.intersects]; exact (R default).2.2.2.2.2.2.2.2.2.2.2.2.2.1 _⟩
  | hspoint pos =>
    exact ⟨by rw [Obj.contains, Obj.contains]; exact (R default).2.2.2.2.2.2.2.2.2.1 _,
      by rw [Obj.intersects, Obj.intersects]; exact (R default).2.2.2.2.2.2.2.2.2.2.2.2.2.1 _⟩
  | hline l poss e =>
    exact ⟨by rw [Obj.contains, Obj.contains]; exact (R default).2.2.2.2.2.2.2.2.2.2.1 _,
      by rw [Obj.intersects, Obj.intersects]; exact (R default).2.2.2.2.2.2.2.2.2.2.2.2.2.2.1 _⟩
  | hpoly p rings e =>
    exact ⟨by rw [Obj.contains, Obj.contains]; exact (R default).2.2.2.2.2.2.2.2.2.2.2.1 _,
      by rw [Obj.intersects, Obj.intersects]; exact (R default).2.2.2.2.2.2.2.2.2.2.2.2.2.2.2 _⟩
  | hrect b lo hi =>
    exact ⟨by rw [Obj.contains, Obj.contains]; exact (R default).2.2.2.2.2.2.2.2.1 _,
      by rw [Obj.intersects, Obj.intersects]; exact (R default).2.2.2.2.2.2.2.2.2.2.2.2.1 _⟩
  | hcircle c r => exact ⟨by rw [Obj.contains, Obj.contains], by rw [Obj.intersects, Obj.intersects]⟩
  | hfeat b e ih => exact ⟨by rw [Obj.contains, Obj.contains]; exact ih.1,
      by rw [Obj.intersects, Obj.intersects]; exact ih.2⟩
  | hcoll k' ds e i ih =>
    exact ⟨by rw [Obj.contains, Obj.contains, hl], by rw [Obj.intersects, Obj.intersects, hl]⟩

/-- every observable of a collection is independent of the `indexed` flag -/
theorem indexed_irrelevant (idx idx' : Bool) (x : Obj) :
    (Obj.coll k cs ex idx).empty = (Obj.coll k cs ex idx').empty ∧
    (Obj.coll k cs ex idx).rect = (Obj.coll k cs ex idx').rect ∧
    (Obj.coll k cs ex idx).center = (Obj.coll k cs ex idx').center ∧
    (Obj.coll k cs ex idx).valid = (Obj.coll k cs ex idx').valid ∧
    (Obj.coll k cs ex idx).numPoints = (Obj.coll k cs ex idx').numPoints ∧
    (Obj.coll k cs ex idx).leaves = (Obj.coll k cs ex idx').leaves ∧
    (Obj.coll k cs ex idx).contains x = (Obj.coll k cs ex idx').contains x ∧
    (Obj.coll k cs ex idx).intersects x = (Obj.coll k cs ex idx').intersects x ∧
    (Obj.coll k cs ex idx).within x = (Obj.coll k cs ex idx').within x ∧
    x.contains (Obj.coll k cs ex idx) = x.contains (Obj.coll k cs ex idx') ∧
    x.intersects (Obj.coll k cs ex idx) = x.intersects (Obj.coll k cs ex idx') ∧
    x.within (Obj.coll k cs ex idx) = x.within (Obj.coll k cs ex idx') ∧
    (∀ r, (Obj.coll k cs ex idx).withinRect r = (Obj.coll k cs ex idx').withinRect r) ∧
    (∀ q, (Obj.coll k cs ex idx).withinPoint q = (Obj.coll k cs ex idx').withinPoint q) ∧
    (∀ l, (Obj.coll k cs ex idx).withinLine l = (Obj.coll k cs ex idx').withinLine l) ∧
    (∀ p, (Obj.coll k cs ex idx).withinPoly p = (Obj.coll k cs ex idx').withinPoly p) ∧
    (∀ r, (Obj.coll k cs ex idx).intersectsRect r = (Obj.coll k cs ex idx').intersectsRect r) ∧
    (∀ q, (Obj.coll k cs ex idx).intersectsPoint q = (Obj.coll k cs ex idx').intersectsPoint q) ∧
    (∀ l, (Obj.coll k cs ex idx).intersectsLine l = (Obj.coll k cs ex idx').intersectsLine l) ∧
    (∀ p, (Obj.coll k cs ex idx).intersectsPoly p = (Obj.coll k cs ex idx').intersectsPoly p) := by
  obtain ⟨h1, h2, h3, h4, h5, h6, h7, h8, h9⟩ := @indexed_irrelevant_receiver k cs ex idx idx' x
  obtain ⟨a1, a2⟩ := @indexed_irrelevant_argument k cs ex idx idx' x
  exact ⟨h1, h2, h3, h4, h5, h6, h7, h8, a1, a1, a2, h7, h9⟩

/-! ### non-vacuity: a two-child collection -/

section examples
private def P1 : Obj := .spoint ⟨⟨1, 1⟩, true, "1", "1"⟩
private def P2 : Obj := .point ⟨⟨2, 3⟩, true, "2", "3"⟩ none
private def R1 : Obj := .rectO ⟨⟨0, 0⟩, ⟨5, 5⟩⟩ ⟨⟨0, 0⟩, true, "0", "0"⟩ ⟨⟨5, 5⟩, true, "5", "5"⟩
private def MP : Obj := .coll .multiPoint [P1, P2] none false
private def GC : Obj := .coll .geometryCollection [R1, MP] none true

example : MP.rect = ⟨⟨1, 1⟩, ⟨2, 3⟩⟩ := by decide
example : MP.withinRect ⟨⟨0, 0⟩, ⟨5, 5⟩⟩ = true := by decide
example : R1.contains MP = true := by simp only [R1, MP, P1, P2]; obj_eval
example : GC.contains MP = true := by simp only [GC, R1, MP, P1, P2]; obj_eval
example : MP.intersects GC = true := by simp only [GC, R1, MP, P1, P2]; obj_eval
example : GC.leaves = [R1, P1, P2] := rfl
example : searchChildren [P1, P2] ⟨⟨0, 0⟩, ⟨1, 1⟩⟩ = [P1] := by simp only [P1, P2]; obj_eval
end examples

end Geo

#print axioms Geo.coll_empty_iff
#print axioms Geo.coll_numPoints_sum
#print axioms Geo.coll_rect_union
#print axioms Geo.coll_leaves
#print axioms Geo.searchChildren_spec
#print axioms Geo.mem_searchChildren
#print axioms Geo.searchChildren_sublist
#print axioms Geo.searchChildren_length
#print axioms Geo.searchChildren_nodup
#print axioms Geo.coll_methods_via_search
#print axioms Geo.coll_intersects_iff
#print axioms Geo.coll_contains_iff
#print axioms Geo.coll_withinRect_iff
#print axioms Geo.coll_withinPoint_iff
#print axioms Geo.coll_withinLine_iff
#print axioms Geo.coll_withinPoly_iff
#print axioms Geo.coll_intersectsRect_iff
#print axioms Geo.coll_intersectsPoint_iff
#print axioms Geo.coll_intersectsLine_iff
#print axioms Geo.coll_intersectsPoly_iff
#print axioms Geo.indexed_irrelevant_receiver
#print axioms Geo.indexed_irrelevant_argument
#print axioms Geo.indexed_irrelevant
