/-
  GeoModel.Write — model of the AppendJSON writers at text level.
  `none` = the Go code would panic (slice index out of range in appendJSONPoint).
-/
import GeoModel.Json
namespace Geo

/-- appendJSONPoint -/
def writePos (pos : Pos) (ex : Option Extra) (idx : Nat) : Option String :=
  match ex with
  | none => some ("[" ++ pos.xs ++ "," ++ pos.ys ++ "]")
  | some e => do
    let extras ← (List.range e.dims).mapM (fun i => e.values[idx * e.dims + i]?)
    pure ("[" ++ pos.xs ++ "," ++ pos.ys ++ String.join (extras.map (fun v => "," ++ v)) ++ "]")

/-- (ex *extra).appendJSONExtra -/
def writeExtra (ex : Option Extra) (propertiesRequired : Bool) : String :=
  match ex with
  | some e =>
    if e.members != "" then
      "," ++ ((e.members.drop 1).dropEnd 1).toString ++
        (if propertiesRequired && !e.hasProps then ",\"properties\":{}" else "")
    else if propertiesRequired then ",\"properties\":{}" else ""
  | none => if propertiesRequired then ",\"properties\":{}" else ""

/-- appendJSONSeries: returns the text and the next position index -/
def writeSeries (poss : List Pos) (ex : Option Extra) (pidx : Nat) : Option (String × Nat) := do
  let rec go : List Pos → Nat → Option (List String)
    | [], _ => some []
    | p :: ps, i => do
      let t ← writePos p ex i
      let rest ← go ps (i + 1)
      pure (t :: rest)
  let parts ← go poss pidx
  pure ("[" ++ ",".intercalate parts ++ "]", pidx + poss.length)

def writeRings (rings : List (List Pos)) (ex : Option Extra) : Option String := do
  let rec go : List (List Pos) → Nat → Option (List String)
    | [], _ => some []
    | r :: rs, pidx => do
      let (t, pidx') ← writeSeries r ex pidx
      let rest ← go rs pidx'
      pure (t :: rest)
  let parts ← go rings 0
  pure ("[" ++ ",".intercalate parts ++ "]")

def CollKind.typeName : CollKind → String
  | .multiPoint => "MultiPoint"
  | .multiLineString => "MultiLineString"
  | .multiPolygon => "MultiPolygon"
  | .geometryCollection => "GeometryCollection"
  | .featureCollection => "FeatureCollection"

def rectRing (lo hi : Pos) : List Pos :=
  let mk (x y : Pos) : Pos := ⟨⟨x.p.x, y.p.y⟩, x.fin && y.fin, x.xs, y.ys⟩
  [mk lo lo, mk hi lo, mk hi hi, mk lo hi, mk lo lo]

mutual
/-- the "coordinates" value of a Multi* child (`gjson.Get(child.JSON, "coordinates")`) -/
def writeCoords : Obj → Option String
  | .point pos ex => writePos pos ex 0
  | .spoint pos => writePos pos none 0
  | .lineString _ poss ex => (writeSeries poss ex 0).map (·.1)
  | .polygon poly rings ex => if poly.empty then some "[]" else writeRings rings ex
  | .rectO _ lo hi => writeRings [rectRing lo hi] none
  | _ => none
/-- AppendJSON(nil) -/
def write : Obj → Option String
  | .point pos ex => do
    let c ← writePos pos ex 0
    pure ("{\"type\":\"Point\",\"coordinates\":" ++ c ++ writeExtra ex false ++ "}")
  | .spoint pos => do
    let c ← writePos pos none 0
    pure ("{\"type\":\"Point\",\"coordinates\":" ++ c ++ "}")
  | .lineString _ poss ex => do
    let (c, _) ← writeSeries poss ex 0
    pure ("{\"type\":\"LineString\",\"coordinates\":" ++ c ++ writeExtra ex false ++ "}")
  | .polygon poly rings ex => do
    let c ← if poly.empty then some "[]" else writeRings rings ex
    pure ("{\"type\":\"Polygon\",\"coordinates\":" ++ c ++ writeExtra ex false ++ "}")
  | .rectO _ lo hi => do
    let c ← writeRings [rectRing lo hi] none
    pure ("{\"type\":\"Polygon\",\"coordinates\":" ++ c ++ "}")
  | .coll kind cs ex _ => do
    let parts ← (match kind with
      | .geometryCollection => writeAll cs
      | .featureCollection => writeAll cs
      | _ => writeAllCoords cs)
    let key := match kind with
      | .geometryCollection => "geometries"
      | .featureCollection => "features"
      | _ => "coordinates"
    pure ("{\"type\":\"" ++ kind.typeName ++ "\",\"" ++ key ++ "\":[" ++ ",".intercalate parts ++ "]" ++ writeExtra ex false ++ "}")
  | .feature base ex => do
    let b ← write base
    pure ("{\"type\":\"Feature\",\"geometry\":" ++ b ++ writeExtra ex true ++ "}")
  | .circle c radius =>
    some ("{\"type\":\"Feature\",\"geometry\":{\"type\":\"Point\",\"coordinates\":[" ++ c.xs ++ "," ++ c.ys ++
      "]},\"properties\":{\"type\":\"Circle\",\"radius\":" ++ radius ++ ",\"radius_units\":\"m\"}}")
def writeAll : List Obj → Option (List String)
  | [] => some []
  | c :: cs => do
    let t ← write c
    let rest ← writeAll cs
    pure (t :: rest)
def writeAllCoords : List Obj → Option (List String)
  | [] => some []
  | c :: cs => do
    let t ← writeCoords c
    let rest ← writeAllCoords cs
    pure (t :: rest)
end

end Geo
