/-
  GeoProofs.Glue.ParseGluePoly3 — the ring iteration and the polygon iteration; generated
  parseJSONPolygonCoords = the model's parsePolyCoords.
-/
import GeoProofs.Glue.ParseGluePoly2

set_option linter.unusedSimpArgs false

namespace Geo.PGlue
open Geo Geo.PGen

theorem ring_fold (rec : RecT) (rings : List (List FP)) : ∀ (vs : List JVal) (xs : List RPair), xs.map (·.2) = vs.map some →
    ∀ (cur : List FP) (ex : Option GExtra) (dims : Int) (acc : List Pos) (st : DimSt), RelR cur ex dims acc st →
    match parseRingLoop rings.length vs acc st with
    | .ok (acc', st') => ∃ c' e' d',
        searchFold (PGen.parseJSONPolygonCoords_lit3 (mops rec) (rings.length : Int)) xs (none, rings ++ [cur], ex, dims) =
          (none, rings ++ [c'], e', d') ∧ RelR c' e' d' acc' st'
    | .error e => e = .coordsInvalid ∧
        (searchFold (PGen.parseJSONPolygonCoords_lit3 (mops rec) (rings.length : Int)) xs (none, rings ++ [cur], ex, dims)).1 =
          some .errCoordinatesInvalid := by
  intro vs
  induction vs with
  | nil =>
    intro xs h cur ex dims acc st hrel
    simp at h; subst h
    simp only [parseRingLoop, searchFold]
    exact ⟨_, _, _, rfl, hrel⟩
  | cons v vs ih =>
    intro xs h cur ex dims acc st hrel
    cases xs with
    | nil => simp at h
    | cons x xs =>
      simp only [List.map_cons, List.cons.injEq] at h
      obtain ⟨hx, hxs⟩ := h
      obtain ⟨k, x2⟩ := x
      simp only at hx; subst hx
      have hs := ring_step rec k v rings cur ex dims acc st hrel
      rw [ringLoop_cons]
      cases hm : mRingStep rings.length v acc st with
      | error e =>
        rw [hm] at hs
        obtain ⟨he, h2, h1⟩ := hs
        simp only
        refine ⟨he, ?_⟩
        rw [searchFold]
        generalize PGen.parseJSONPolygonCoords_lit3 (mops rec) (rings.length : Int) (k, some v) (none, rings ++ [cur], ex, dims) = R at h1 h2
        obtain ⟨s', b⟩ := R
        simp only at h2 h1; subst h2
        simpa using h1
      | ok r =>
        obtain ⟨a', s'⟩ := r
        rw [hm] at hs
        obtain ⟨c', e', d', hstep, hrel'⟩ := hs
        simp only
        rw [searchFold_cons_true _ _ _ _ _ hstep]
        exact ih xs hxs c' e' d' a' s' hrel'

structure RelP (rings : List (List FP)) (ex : Option GExtra) (dims : Int) (acc : List (List Pos)) (st : DimSt) : Prop where
  acc_eq : acc = rings.map (·.map toPos)
  ex_eq : st.ex = ex.map exM
  dims_eq : dims = (st.dims : Int)

theorem poly_fold (rec : RecT) : ∀ (vs : List JVal) (xs : List RPair), xs.map (·.2) = vs.map some →
    ∀ (rings : List (List FP)) (ex : Option GExtra) (dims : Int) (acc : List (List Pos)) (st : DimSt), RelP rings ex dims acc st →
    match parsePolyCoordsLoop vs acc st with
    | .ok (acc', st') => ∃ c' e' d',
        searchFold (PGen.parseJSONPolygonCoords_lit4 (mops rec)) xs (none, rings, ex, dims) = (none, c', e', d') ∧
        RelP c' e' d' acc' st'
    | .error e => e = .coordsInvalid ∧
        (searchFold (PGen.parseJSONPolygonCoords_lit4 (mops rec)) xs (none, rings, ex, dims)).1 = some .errCoordinatesInvalid := by
  intro vs
  induction vs with
  | nil =>
    intro xs h rings ex dims acc st hrel
    simp at h; subst h
    simp only [parsePolyCoordsLoop, searchFold]
    exact ⟨_, _, _, rfl, hrel⟩
  | cons v vs ih =>
    intro xs h rings ex dims acc st hrel
    cases xs with
    | nil => simp at h
    | cons x xs =>
      simp only [List.map_cons, List.cons.injEq] at h
      obtain ⟨hx, hxs⟩ := h
      obtain ⟨k, x2⟩ := x
      simp only at hx; subst hx
      obtain ⟨hacc, hex, hdims⟩ := hrel
      have hlenA : acc.length = rings.length := by rw [hacc]; simp
      rw [parsePolyCoordsLoop]
      have hii : Int.ofNat (rings ++ [([] : List FP)]).length - 1 = (rings.length : Int) := by simp
      cases hv : v.isArray
      · simp only [Bool.not_false, if_true, bind, Except.bind, throw, throwThe, MonadExceptOf.throw]
        refine ⟨trivial, ?_⟩
        rw [searchFold]
        unfold PGen.parseJSONPolygonCoords_lit4
        simp [hv]
      · have hf := ring_fold rec rings v.elems (forEach (some v)) (forEach_vals v) [] ex dims [] st ⟨rfl, hex, hdims⟩
        simp only [Bool.not_true, Bool.false_eq_true, if_false, bind, Except.bind, hlenA]
        have hstep : PGen.parseJSONPolygonCoords_lit4 (mops rec) (k, some v) (none, rings, ex, dims) =
            (let r := searchFold (PGen.parseJSONPolygonCoords_lit3 (mops rec) (rings.length : Int)) (forEach (some v)) (none, rings ++ [[]], ex, dims)
             (r, r.1.isNone)) := by
          unfold PGen.parseJSONPolygonCoords_lit4
          simp only [m_gjsonResultIsArray, m_gjsonResultForEach, hv, Bool.not_true, Bool.false_eq_true, if_false, hii]
        cases hl : parseRingLoop rings.length v.elems [] st with
        | error e =>
          rw [hl] at hf
          obtain ⟨he, h1⟩ := hf
          simp only
          refine ⟨he, ?_⟩
          rw [searchFold, hstep]
          simp [h1]
        | ok r =>
          obtain ⟨ring, st'⟩ := r
          rw [hl] at hf
          obtain ⟨c', e', d', hs, hrel'⟩ := hf
          simp only
          have hst : PGen.parseJSONPolygonCoords_lit4 (mops rec) (k, some v) (none, rings, ex, dims) = ((none, rings ++ [c'], e', d'), true) := by
            rw [hstep, hs]; rfl
          rw [searchFold_cons_true _ _ _ _ _ hst]
          exact ih xs hxs (rings ++ [c']) e' d' (acc ++ [ring]) st'
            ⟨by rw [hacc, hrel'.acc_eq]; simp, hrel'.ex_eq, hrel'.dims_eq⟩

#print axioms poly_fold

end Geo.PGlue
