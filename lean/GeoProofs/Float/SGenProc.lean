/-
  GeoProofs.Float.SGenProc — `Geo.SGen.processPoints`, GENERATED from geometry/series.go
  (`translate series`), evaluated at the exact binary64 model `KNum FQ`, against the hand model
  `Geo.processPoints` (GeoModel/Series.lean).

  The loop state of the generated code is the tuple (a, b, c, concave, cwc, dir, oob', rect).
  Each component after an iteration depends only on the same component before it (and on the
  points), so the bridge is proved component by component:
    * oob'    — never raised (any `KNum`, any input): Go's index expressions are in range;
    * rect    — comparisons only: equal to the hand model for ALL finite inputs;
    * concave, dir — the cross product is exact on the regime E (`cross_exact`-type argument);
    * cwc     — a running sum: exact as long as every exact partial sum stays below 2^45
                (= 2^53 units of 1/256).
-/
import GeoProofs.Float.KGenSeg
import GeoModel.Generated.SeriesGen
import GeoModel.Series
set_option linter.unusedSimpArgs false
set_option linter.unusedVariables false
namespace Geo.F.SG
open Geo Geo.F

/-! ### the helpers of the generated file -/

theorem loop_succ {σ : Type} (n : Nat) (body : Nat → σ → σ) (s : σ) :
    SGen.loop (n + 1) body s = body n (SGen.loop n body s) := by
  simp [SGen.loop, List.range_succ, List.foldl_append]

theorem loop_zero {σ : Type} (body : Nat → σ → σ) (s : σ) : SGen.loop 0 body s = s := rfl

theorem inb_eq {β : Type} (s : Array β) {i : Int} {j : Nat} (h : i = (j : Int)) (hj : j < s.size) :
    SGen.inb s i = true := by
  subst h; simp [SGen.inb, hj]

theorem idx_eq {α : Type} [KNum α] (s : Array (KPoint α)) {i : Int} {j : Nat} (h : i = (j : Int))
    (hj : j < s.size) : SGen.idx s i = s[j] := by
  have := inb_eq s h hj
  subst h
  simp [SGen.idx, this, Array.getD, hj]

theorem idx_up (pts : Array Pt) {i : Int} {j : Nat} (h : i = (j : Int)) (hj : j < pts.size) :
    SGen.idx (pts.map up) i = up pts[j]! := by
  rw [idx_eq _ h (by simpa using hj)]
  simp [hj]

theorem inb_up (pts : Array Pt) {i : Int} {j : Nat} (h : i = (j : Int)) (hj : j < pts.size) :
    SGen.inb (pts.map up) i = true := inb_eq _ h (by simpa using hj)

theorem fst_ite {β γ : Type} (c : Prop) [Decidable c] (x y : β × γ) :
    (if c then x else y).1 = if c then x.1 else y.1 := by split_ifs <;> rfl

theorem snd_ite {β γ : Type} (c : Prop) [Decidable c] (x y : β × γ) :
    (if c then x else y).2 = if c then x.2 else y.2 := by split_ifs <;> rfl

/-- projections of the loop state -/
abbrev St (α : Type) := KPoint α × KPoint α × KPoint α × Bool × α × Int × Bool × KRect α

/-! ### oob': no index expression of processPoints is ever out of range -/

theorem loop1_oob {α : Type} [KNum α] (P : Array (KPoint α)) (n k : Nat) (hn : 2 ≤ n)
    (hP : n ≤ P.size) (hk : k < n) (s : St α) :
    (SGen.processPoints_loop1 (n : Int) P k s).2.2.2.2.2.2.1 = s.2.2.2.2.2.2.1 := by
  have i0 := inb_eq P (i := Int.ofNat k) (j := k) rfl (by omega)
  have j0 := inb_eq P (i := (0 : Int)) (j := 0) rfl (by omega)
  have j1 := inb_eq P (i := (1 : Int)) (j := 1) rfl (by omega)
  unfold SGen.processPoints_loop1
  by_cases h1 : (Int.ofNat k : Int) = (n : Int) - 1
  · have d1 : decide ((Int.ofNat k : Int) = (n : Int) - 1) = true := decide_eq_true h1
    simp only [d1, i0, j0, j1, fst_ite, snd_ite, ite_self, if_true, Bool.not_true, Bool.or_false]
  · have d1 : decide ((Int.ofNat k : Int) = (n : Int) - 1) = false := decide_eq_false h1
    by_cases h2 : (Int.ofNat k : Int) = (n : Int) - 2
    · have d2 : decide ((Int.ofNat k : Int) = (n : Int) - 2) = true := decide_eq_true h2
      have h2' : (k : Int) = (n : Int) - 2 := h2
      have i1 := inb_eq P (i := Int.ofNat k + (1 : Int)) (j := k + 1) (by simp) (by omega)
      simp only [d1, d2, i0, i1, j0, j1, fst_ite, snd_ite, ite_self, if_true, if_false,
        Bool.not_true, Bool.or_false, Bool.false_eq_true]
    · have d2 : decide ((Int.ofNat k : Int) = (n : Int) - 2) = false := decide_eq_false h2
      have hk2 : k + 2 < n := by
        have : (k : Int) ≠ (n : Int) - 1 := h1
        have : (k : Int) ≠ (n : Int) - 2 := h2
        omega
      have i1 := inb_eq P (i := Int.ofNat k + (1 : Int)) (j := k + 1) (by simp) (by omega)
      have i2 := inb_eq P (i := Int.ofNat k + (2 : Int)) (j := k + 2) (by simp) (by omega)
      simp only [d1, d2, i0, i1, i2, j0, j1, fst_ite, snd_ite, ite_self, if_true, if_false,
        Bool.not_true, Bool.or_false, Bool.false_eq_true]

theorem loop_oob {α : Type} [KNum α] (P : Array (KPoint α)) (n : Nat) (hn : 2 ≤ n)
    (hP : n ≤ P.size) (s : St α) (m : Nat) (hm : m ≤ n) :
    (SGen.loop m (SGen.processPoints_loop1 (n : Int) P) s).2.2.2.2.2.2.1 = s.2.2.2.2.2.2.1 := by
  induction m with
  | zero => rfl
  | succ m ih => rw [loop_succ, loop1_oob P n m hn hP (by omega), ih (by omega)]

/-! ### normal form of the generated function -/

/-- the guard of the early return -/
def early {α : Type} (P : Array (KPoint α)) (closed : Bool) : Bool :=
  closed && decide ((P.size : Int) < (3 : Int)) || decide ((P.size : Int) < (2 : Int))

/-- the number of vertices the loop visits -/
def npts {α : Type} [KNum α] (P : Array (KPoint α)) (closed : Bool) : Nat :=
  if closed && KPoint.eq (SGen.idx P ((P.size : Int) - (1 : Int))) (SGen.idx P (0 : Int)) then
    P.size - 1 else P.size

def zpt (α : Type) [KNum α] : KPoint α := { x := (KNum.ofNat 0 : α), y := (KNum.ofNat 0 : α) }

/-- the loop state on entry -/
def init (α : Type) [KNum α] : St α :=
  (zpt α, zpt α, zpt α, false, (KNum.ofNat 0 : α), (0 : Int), false, { min := zpt α, max := zpt α })

theorem early_false {α : Type} {P : Array (KPoint α)} {closed : Bool} (h : early P closed = false) :
    2 ≤ P.size ∧ (closed = true → 3 ≤ P.size) := by
  unfold early at h
  simp only [Bool.or_eq_false_iff, Bool.and_eq_false_iff, decide_eq_false_iff_not, not_lt] at h
  constructor
  · omega
  · intro hc; rcases h.1 with h1 | h1
    · simp [hc] at h1
    · omega

theorem npts_bounds {α : Type} [KNum α] {P : Array (KPoint α)} {closed : Bool}
    (h : early P closed = false) : 2 ≤ npts P closed ∧ npts P closed ≤ P.size := by
  obtain ⟨h2, h3⟩ := early_false h
  unfold npts
  split_ifs with c
  · simp only [Bool.and_eq_true] at c
    have := h3 c.1
    omega
  · omega

theorem aux_early {α : Type} [KNum α] {P : Array (KPoint α)} {closed : Bool}
    (h : early P closed = true) :
    SGen.processPointsAux P closed = (false, (false, { min := zpt α, max := zpt α }, false)) := by
  unfold early at h
  unfold SGen.processPointsAux
  simp only [h, if_true, zpt]

theorem aux_loop {α : Type} [KNum α] {P : Array (KPoint α)} {closed : Bool}
    (h : early P closed = false) :
    SGen.processPointsAux P closed =
      let l := SGen.loop (npts P closed) (SGen.processPoints_loop1 (npts P closed : Int) P) (init α)
      (l.2.2.2.2.2.2.1, (!l.2.2.2.1, l.2.2.2.2.2.2.2, KNum.gt l.2.2.2.2.1 (KNum.ofNat 0 : α))) := by
  obtain ⟨h2, h3⟩ := early_false h
  have j0 := inb_eq P (i := (0 : Int)) (j := 0) rfl (by omega)
  have jl := inb_eq P (i := (P.size : Int) - (1 : Int)) (j := P.size - 1) (by omega) (by omega)
  unfold early at h
  unfold SGen.processPointsAux npts init zpt
  simp only [h, j0, jl, Bool.false_eq_true, if_false, Bool.not_true, Bool.or_false, Bool.and_false]
  split_ifs with c
  · have e : (P.size : Int) - (1 : Int) = ((P.size - 1 : Nat) : Int) := by omega
    simp only [e, Int.toNat_natCast]
  · simp only [Int.toNat_natCast]

theorem noPanic {α : Type} [KNum α] (P : Array (KPoint α)) (closed : Bool) :
    SGen.processPointsPanics P closed = false := by
  unfold SGen.processPointsPanics
  cases h : early P closed
  · obtain ⟨hn, hP⟩ := npts_bounds h
    rw [aux_loop h]
    exact loop_oob P _ hn hP _ _ (le_refl _)
  · rw [aux_early h]

/-! ### rect: comparisons only — all finite inputs -/

def upB (r : Box) : KRect FQ := ⟨up r.min, up r.max⟩

theorem st_rect_ite (c : Prop) [Decidable c] (x y : ProcSt) :
    (if c then x else y).rect = if c then x.rect else y.rect := by split_ifs <;> rfl
theorem st_dir_ite (c : Prop) [Decidable c] (x y : ProcSt) :
    (if c then x else y).dir = if c then x.dir else y.dir := by split_ifs <;> rfl
theorem st_concave_ite (c : Prop) [Decidable c] (x y : ProcSt) :
    (if c then x else y).concave = if c then x.concave else y.concave := by split_ifs <;> rfl
theorem st_cwc_ite (c : Prop) [Decidable c] (x y : ProcSt) :
    (if c then x else y).cwc = if c then x.cwc else y.cwc := by split_ifs <;> rfl

theorem ofNat_eq_zero_iff (k : Nat) : (Int.ofNat k = (0 : Int)) ↔ k = 0 := by
  constructor
  · intro h; have : (k : Int) = 0 := h; omega
  · rintro rfl; rfl

theorem loop1_rect (pts : Array Pt) (n k : Nat) (hn : 2 ≤ n) (hP : n ≤ pts.size) (hk : k < n)
    (s : St FQ) (st : ProcSt) (hs : s.2.2.2.2.2.2.2 = upB st.rect) :
    (SGen.processPoints_loop1 (n : Int) (pts.map up) k s).2.2.2.2.2.2.2
      = upB (procStep pts n st k).rect := by
  have e0 := idx_up pts (i := Int.ofNat k) (j := k) rfl (by omega)
  unfold SGen.processPoints_loop1 procStep
  simp only [hs, e0, fst_ite, snd_ite, ite_self, st_rect_ite, ofNat_eq_zero_iff, decide_eq_true_eq,
    beq_iff_eq]
  by_cases h0 : k = 0
  · simp only [h0, if_true, upB]
  · simp only [h0, if_false, upB, up, klt_fin, kgt_fin, decide_eq_true_eq]
    by_cases c1 : pts[k]!.x < st.rect.min.x <;> by_cases c2 : pts[k]!.x > st.rect.max.x <;>
      by_cases c3 : pts[k]!.y < st.rect.min.y <;> by_cases c4 : pts[k]!.y > st.rect.max.y <;>
      simp only [c1, c2, c3, c4, if_true, if_false, klt_fin, kgt_fin, decide_eq_true_eq]

/-! ### arithmetic on the regime E -/

theorem kadd_fin {x y : ℚ} (h : |x + y| ≤ 2 ^ (1023 : ℤ)) :
    KNum.add (FQ.fin x) (FQ.fin y) = .fin (fadd x y) := ofRat_small h

theorem InE.add {x y : ℚ} (hx : InE x) (hy : InE y) : D1 (x + y) :=
  (Dy.add hx hy).mono (by norm_num)

theorem kadd_E {x y : ℚ} (hx : InE x) (hy : InE y) :
    KNum.add (FQ.fin x) (FQ.fin y) = .fin (x + y) := by
  have h := (InE.add hx hy).abs_le
  have h3 : (2 : ℚ) ^ (21 : ℤ) ≤ 2 ^ (1023 : ℤ) := two_zpow_le (by norm_num)
  rw [kadd_fin (le_trans (by simpa using h) h3)]
  exact congrArg _ (rn_of_F64 (InE.add hx hy).F64)

/-- the cross product of processPoints, as the generated code computes it -/
theorem kcross {A B C : Pt} (hA : PtE A) (hB : PtE B) (hC : PtE C) :
    KNum.sub (KNum.mul (KNum.sub (up B).x (up A).x) (KNum.sub (up C).y (up B).y))
        (KNum.mul (KNum.sub (up B).y (up A).y) (KNum.sub (up C).x (up B).x))
      = .fin ((B.x - A.x) * (C.y - B.y) - (B.y - A.y) * (C.x - B.x)) := by
  have D1 := hB.1.sub hA.1
  have D2 := hC.2.sub hB.2
  have D3 := hB.2.sub hA.2
  have D4 := hC.1.sub hB.1
  simp only [up, ksub_E hB.1 hA.1, ksub_E hC.2 hB.2, ksub_E hB.2 hA.2, ksub_E hC.1 hB.1,
    kmul_D1 D1 D2, kmul_D1 D3 D4, ksub_D2 (D1.mul D2) (D3.mul D4)]

/-- one term of the clockwise sum, as the generated code computes it -/
theorem kterm {A B : Pt} (hA : PtE A) (hB : PtE B) :
    KNum.mul (KNum.sub (up B).x (up A).x) (KNum.add (up B).y (up A).y)
      = .fin ((B.x - A.x) * (B.y + A.y)) := by
  simp only [up, ksub_E hB.1 hA.1, kadd_E hB.2 hA.2, kmul_D1 (hB.1.sub hA.1) (InE.add hB.2 hA.2)]

theorem term_D2 {A B : Pt} (hA : PtE A) (hB : PtE B) : D2 ((B.x - A.x) * (B.y + A.y)) :=
  (hB.1.sub hA.1).mul (InE.add hB.2 hA.2)

/-! ### concave, dir: exact on E -/

theorem loop1_dc (pts : Array Pt) (n k : Nat) (hn : 2 ≤ n) (hP : n ≤ pts.size) (hk : k < n)
    (hE : ∀ j, j < n → PtE pts[j]!) (s : St FQ) (st : ProcSt)
    (h1 : s.2.2.2.1 = st.concave) (h2 : s.2.2.2.2.2.1 = st.dir) :
    (SGen.processPoints_loop1 (n : Int) (pts.map up) k s).2.2.2.1 = (procStep pts n st k).concave
    ∧ (SGen.processPoints_loop1 (n : Int) (pts.map up) k s).2.2.2.2.2.1
        = (procStep pts n st k).dir := by
  have e0 := idx_up pts (i := Int.ofNat k) (j := k) rfl (by omega)
  have f0 := idx_up pts (i := (0 : Int)) (j := 0) rfl (by omega)
  have f1 := idx_up pts (i := (1 : Int)) (j := 1) rfl (by omega)
  unfold SGen.processPoints_loop1 procStep
  by_cases c1 : k = n - 1
  · have d1 : decide ((Int.ofNat k : Int) = (n : Int) - 1) = true :=
      decide_eq_true (by show (k : Int) = _; omega)
    have b1 : (k == n - 1) = true := by simp [c1]
    simp only [d1, b1, e0, f0, f1, h1, h2, fst_ite, snd_ite, ite_self, if_true,
      kcross (hE k hk) (hE 0 (by omega)) (hE 1 (by omega)), kofNat_zero, klt_fin, kgt_fin]
    simp only [st_concave_ite, st_dir_ite, decide_eq_true_eq, beq_iff_eq]
    refine ⟨?_, ?_⟩ <;> split_ifs <;> simp_all
  · have d1 : decide ((Int.ofNat k : Int) = (n : Int) - 1) = false :=
      decide_eq_false (by show ¬ (k : Int) = _; omega)
    have b1 : (k == n - 1) = false := by simp [c1]
    have e1 := idx_up pts (i := Int.ofNat k + (1 : Int)) (j := k + 1) (by simp) (by omega)
    by_cases c2 : k = n - 2
    · have d2 : decide ((Int.ofNat k : Int) = (n : Int) - 2) = true :=
        decide_eq_true (by show (k : Int) = _; omega)
      have b2 : (k == n - 2) = true := by simp [c2]
      simp only [d1, d2, b1, b2, e0, e1, f0, f1, h1, h2, fst_ite, snd_ite, ite_self, if_true, if_false,
        Bool.false_eq_true,
        kcross (hE k hk) (hE (k + 1) (by omega)) (hE 0 (by omega)), kofNat_zero, klt_fin, kgt_fin]
      simp only [st_concave_ite, st_dir_ite, decide_eq_true_eq, beq_iff_eq]
      refine ⟨?_, ?_⟩ <;> split_ifs <;> simp_all
    · have d2 : decide ((Int.ofNat k : Int) = (n : Int) - 2) = false :=
        decide_eq_false (by show ¬ (k : Int) = _; omega)
      have b2 : (k == n - 2) = false := by simp [c2]
      have e2 := idx_up pts (i := Int.ofNat k + (2 : Int)) (j := k + 2) (by simp) (by omega)
      simp only [d1, d2, b1, b2, e0, e1, e2, f0, f1, h1, h2, fst_ite, snd_ite, ite_self, if_true,
        if_false, Bool.false_eq_true,
        kcross (hE k hk) (hE (k + 1) (by omega)) (hE (k + 2) (by omega)), kofNat_zero, klt_fin, kgt_fin]
      simp only [st_concave_ite, st_dir_ite, decide_eq_true_eq, beq_iff_eq]
      refine ⟨?_, ?_⟩ <;> split_ifs <;> simp_all
/-! ### cwc: a running sum of exact terms -/

/-- the successor vertex on the ring of `n` effective vertices -/
def nxt (n k : Nat) : Nat := if k = n - 1 then 0 else k + 1

/-- the exact term the iteration `k` adds to `cwc` -/
def cterm (pts : Array Pt) (n k : Nat) : ℚ :=
  (pts[nxt n k]!.x - pts[k]!.x) * (pts[nxt n k]!.y + pts[k]!.y)

theorem procStep_cwc (pts : Array Pt) (n k : Nat) (st : ProcSt) :
    (procStep pts n st k).cwc = st.cwc + cterm pts n k := by
  unfold procStep cterm nxt
  by_cases c1 : k = n - 1
  · have b1 : (k == n - 1) = true := by simp [c1]
    simp only [b1, if_true, st_cwc_ite, ite_self, if_pos c1]
  · have b1 : (k == n - 1) = false := by simp [c1]
    simp only [b1, Bool.false_eq_true, if_false, st_cwc_ite, ite_self, if_neg c1]
    split_ifs <;> rfl

theorem loop1_cwc (pts : Array Pt) (n k : Nat) (hn : 2 ≤ n) (hP : n ≤ pts.size) (hk : k < n)
    (hE : ∀ j, j < n → PtE pts[j]!) (s : St FQ) :
    (SGen.processPoints_loop1 (n : Int) (pts.map up) k s).2.2.2.2.1
      = KNum.add s.2.2.2.2.1 (.fin (cterm pts n k)) := by
  have e0 := idx_up pts (i := Int.ofNat k) (j := k) rfl (by omega)
  have f0 := idx_up pts (i := (0 : Int)) (j := 0) rfl (by omega)
  unfold SGen.processPoints_loop1 cterm nxt
  by_cases c1 : k = n - 1
  · have d1 : decide ((Int.ofNat k : Int) = (n : Int) - 1) = true :=
      decide_eq_true (by show (k : Int) = _; omega)
    simp only [d1, e0, f0, fst_ite, snd_ite, ite_self, if_true, if_pos c1,
      kterm (hE k hk) (hE 0 (by omega))]
  · have d1 : decide ((Int.ofNat k : Int) = (n : Int) - 1) = false :=
      decide_eq_false (by show ¬ (k : Int) = _; omega)
    have e1 := idx_up pts (i := Int.ofNat k + (1 : Int)) (j := k + 1) (by simp) (by omega)
    simp only [d1, e0, e1, f0, fst_ite, snd_ite, ite_self, if_false, if_neg c1, Bool.false_eq_true,
      kterm (hE k hk) (hE (k + 1) (by omega))]

/-! ### the folds -/

def st0 : ProcSt := ⟨⟨⟨0, 0⟩, ⟨0, 0⟩⟩, 0, false, 0⟩

/-- the hand model after `m` iterations -/
def hand (pts : Array Pt) (n m : Nat) : ProcSt := (List.range m).foldl (procStep pts n) st0

theorem hand_succ (pts : Array Pt) (n m : Nat) :
    hand pts n (m + 1) = procStep pts n (hand pts n m) m := by
  simp [hand, List.range_succ, List.foldl_append]

/-- the generated code after `m` iterations -/
def gen (pts : Array Pt) (n m : Nat) : St FQ :=
  SGen.loop m (SGen.processPoints_loop1 (n : Int) (pts.map up)) (init FQ)

theorem gen_succ (pts : Array Pt) (n m : Nat) :
    gen pts n (m + 1) = SGen.processPoints_loop1 (n : Int) (pts.map up) m (gen pts n m) :=
  loop_succ _ _ _

theorem gen_rect (pts : Array Pt) (n : Nat) (hn : 2 ≤ n) (hP : n ≤ pts.size) (m : Nat)
    (hm : m ≤ n) : (gen pts n m).2.2.2.2.2.2.2 = upB (hand pts n m).rect := by
  induction m with
  | zero => simp [gen, hand, loop_zero, init, zpt, st0, upB, up, kofNat_zero]
  | succ m ih =>
    rw [gen_succ, hand_succ]
    exact loop1_rect pts n m hn hP (by omega) _ _ (ih (by omega))

theorem gen_dc (pts : Array Pt) (n : Nat) (hn : 2 ≤ n) (hP : n ≤ pts.size)
    (hE : ∀ j, j < n → PtE pts[j]!) (m : Nat) (hm : m ≤ n) :
    (gen pts n m).2.2.2.1 = (hand pts n m).concave
    ∧ (gen pts n m).2.2.2.2.2.1 = (hand pts n m).dir := by
  induction m with
  | zero => simp [gen, hand, loop_zero, init, st0]
  | succ m ih =>
    rw [gen_succ, hand_succ]
    obtain ⟨i1, i2⟩ := ih (by omega)
    exact loop1_dc pts n m hn hP (by omega) hE _ _ i1 i2

/-- the exact partial sums of the clockwise accumulator -/
def csum (pts : Array Pt) (n m : Nat) : ℚ := ((List.range m).map (cterm pts n)).sum

theorem csum_succ (pts : Array Pt) (n m : Nat) :
    csum pts n (m + 1) = csum pts n m + cterm pts n m := by
  simp [csum, List.range_succ, List.map_append, List.sum_append]

theorem hand_cwc (pts : Array Pt) (n m : Nat) : (hand pts n m).cwc = csum pts n m := by
  induction m with
  | zero => simp [hand, st0, csum]
  | succ m ih => rw [hand_succ, procStep_cwc, ih, csum_succ]

theorem nxt_lt {n k : Nat} (hn : 2 ≤ n) (hk : k < n) : nxt n k < n := by
  unfold nxt; split_ifs <;> omega

theorem cterm_D2 (pts : Array Pt) (n k : Nat) (hn : 2 ≤ n) (hk : k < n)
    (hE : ∀ j, j < n → PtE pts[j]!) : D2 (cterm pts n k) :=
  term_D2 (hE k hk) (hE _ (nxt_lt hn hk))

theorem csum_grid (pts : Array Pt) (n : Nat) (hn : 2 ≤ n) (hE : ∀ j, j < n → PtE pts[j]!)
    (m : Nat) (hm : m ≤ n) : ∃ k : ℤ, csum pts n m = k / 2 ^ 8 := by
  induction m with
  | zero => exact ⟨0, by simp [csum]⟩
  | succ m ih =>
    obtain ⟨a, ha⟩ := ih (by omega)
    obtain ⟨b, _, hb⟩ := cterm_D2 pts n m hn (by omega) hE
    exact ⟨a + b, by rw [csum_succ, ha, hb]; push_cast; ring⟩

/-- an addition whose exact result is a multiple of 2^-8 below 2^45 is exact -/
theorem kadd_exact {x y : ℚ} (hd : ∃ k : ℤ, x + y = k / 2 ^ 8) (hb : |x + y| < 2 ^ 45) :
    KNum.add (FQ.fin x) (FQ.fin y) = .fin (x + y) := by
  obtain ⟨k, hk⟩ := hd
  have hk' : |(k : ℚ)| < 2 ^ 53 := by
    rw [hk, abs_div, abs_of_pos (by positivity : (0 : ℚ) < 2 ^ 8), div_lt_iff₀ (by positivity)] at hb
    linarith
  have hk'' : |k| < 2 ^ 53 := by exact_mod_cast hk'
  have hD : Dy 8 (2 ^ 53 - 1) (x + y) := ⟨k, by omega, hk⟩
  have h3 : (2 : ℚ) ^ (45 : ℤ) ≤ 2 ^ (1023 : ℤ) := two_zpow_le (by norm_num)
  rw [kadd_fin (le_trans (le_of_lt (by simpa using hb)) h3)]
  exact congrArg _ (rn_of_F64 (Dy.F64 hD (by norm_num) (by norm_num)))

theorem gen_cwc (pts : Array Pt) (n : Nat) (hn : 2 ≤ n) (hP : n ≤ pts.size)
    (hE : ∀ j, j < n → PtE pts[j]!) (m : Nat) (hm : m ≤ n)
    (hS : ∀ m', m' ≤ m → |csum pts n m'| < 2 ^ 45) :
    (gen pts n m).2.2.2.2.1 = .fin (csum pts n m) := by
  induction m with
  | zero => simp [gen, loop_zero, init, csum, kofNat_zero]
  | succ m ih =>
    rw [gen_succ, loop1_cwc pts n m hn hP (by omega) hE, ih (by omega) (fun m' h => hS m' (by omega)),
      csum_succ]
    apply kadd_exact
    · rw [← csum_succ]; exact csum_grid pts n hn hE (m + 1) hm
    · rw [← csum_succ]; exact hS (m + 1) (le_refl _)

/-! ### the two functions in normal form -/

/-- the number of vertices the loop of the hand model visits -/
def nverts (pts : Array Pt) (closed : Bool) : Nat :=
  if closed && pts[pts.size - 1]! == pts[0]! then pts.size - 1 else pts.size

def earlyH (pts : Array Pt) (closed : Bool) : Bool :=
  (closed && decide (pts.size < 3)) || decide (pts.size < 2)

theorem kpoint_eq_up (p q : Pt) : KPoint.eq (up p) (up q) = (p == q) := by
  show _ = decide (p = q)
  simp only [KPoint.eq, up, keq_fin, Pt.ext_iff', Bool.decide_and]

theorem early_up (pts : Array Pt) (closed : Bool) : early (pts.map up) closed = earlyH pts closed := by
  unfold early earlyH
  have e3 : ((pts.size : Int) < 3) ↔ pts.size < 3 := by omega
  have e2 : ((pts.size : Int) < 2) ↔ pts.size < 2 := by omega
  simp only [Array.size_map, e2, e3]

theorem npts_up (pts : Array Pt) (closed : Bool) (h : earlyH pts closed = false) :
    npts (pts.map up) closed = nverts pts closed := by
  have h' : early (pts.map up) closed = false := by rw [early_up]; exact h
  obtain ⟨h2, _⟩ := early_false h'
  rw [Array.size_map] at h2
  have f0 := idx_up pts (i := (0 : Int)) (j := 0) rfl (by omega)
  have fl := idx_up pts (i := (pts.size : Int) - (1 : Int)) (j := pts.size - 1) (by omega) (by omega)
  unfold npts nverts
  simp only [Array.size_map, f0, fl, kpoint_eq_up]

theorem hand_early (pts : Array Pt) (closed : Bool) (h : earlyH pts closed = true) :
    processPoints pts closed = ⟨false, ⟨⟨0, 0⟩, ⟨0, 0⟩⟩, false⟩ := by
  unfold earlyH at h
  unfold processPoints
  simp only [h, if_true]

theorem hand_loop (pts : Array Pt) (closed : Bool) (h : earlyH pts closed = false) :
    processPoints pts closed =
      ⟨!(hand pts (nverts pts closed) (nverts pts closed)).concave,
        (hand pts (nverts pts closed) (nverts pts closed)).rect,
        decide ((hand pts (nverts pts closed) (nverts pts closed)).cwc > 0)⟩ := by
  unfold earlyH at h
  unfold processPoints
  simp only [h, Bool.false_eq_true, if_false]
  rfl

theorem gen_loop (pts : Array Pt) (closed : Bool) (h : earlyH pts closed = false) :
    SGen.processPointsAux (pts.map up) closed =
      ((gen pts (nverts pts closed) (nverts pts closed)).2.2.2.2.2.2.1,
        (!(gen pts (nverts pts closed) (nverts pts closed)).2.2.2.1,
          (gen pts (nverts pts closed) (nverts pts closed)).2.2.2.2.2.2.2,
          KNum.gt (gen pts (nverts pts closed) (nverts pts closed)).2.2.2.2.1 (KNum.ofNat 0 : FQ))) := by
  have h' : early (pts.map up) closed = false := by rw [early_up]; exact h
  rw [aux_loop h', npts_up pts closed h]
  rfl

theorem nverts_bounds (pts : Array Pt) (closed : Bool) (h : earlyH pts closed = false) :
    2 ≤ nverts pts closed ∧ nverts pts closed ≤ pts.size := by
  have h' : early (pts.map up) closed = false := by rw [early_up]; exact h
  have := npts_bounds h'
  rwa [npts_up pts closed h, Array.size_map] at this

/-! ### an explicit sufficient condition for the size hypothesis -/

theorem dy_abs_le {s : ℕ} {B : ℤ} {x : ℚ} (h : Dy s B x) : |x| ≤ (B : ℚ) / 2 ^ s := by
  obtain ⟨k, hk, rfl⟩ := h
  have : |(k : ℚ)| ≤ (B : ℚ) := by exact_mod_cast hk
  rw [abs_div, abs_of_pos (by positivity : (0 : ℚ) < 2 ^ s)]
  exact div_le_div_of_nonneg_right this (by positivity)

theorem csum_dy (pts : Array Pt) (n : Nat) (hn : 2 ≤ n) (B : ℤ)
    (hD : ∀ j, j < n → Dy 4 B pts[j]!.x ∧ Dy 4 B pts[j]!.y) (m : Nat) (hm : m ≤ n) :
    Dy 8 ((m : ℤ) * ((B + B) * (B + B))) (csum pts n m) := by
  induction m with
  | zero => exact ⟨0, by simp, by simp [csum]⟩
  | succ m ih =>
    have hk : m < n := by omega
    have hx := nxt_lt hn hk
    have ht : Dy 8 ((B + B) * (B + B)) (cterm pts n m) :=
      Dy.mul (s := 4) (s' := 4) (Dy.sub (hD _ hx).1 (hD m hk).1) (Dy.add (hD _ hx).2 (hD m hk).2)
    rw [csum_succ]
    exact (Dy.add (ih (by omega)) ht).mono (le_of_eq (by push_cast; ring))

theorem csum_bound (pts : Array Pt) (n : Nat) (hn : 2 ≤ n) (hP : n ≤ pts.size) (B : ℤ)
    (hD : ∀ j, j < pts.size → Dy 4 B pts[j]!.x ∧ Dy 4 B pts[j]!.y)
    (hN : 4 * (pts.size : ℤ) * B ^ 2 < 2 ^ 53) (m : Nat) (hm : m ≤ n) :
    |csum pts n m| < 2 ^ 45 := by
  have h := dy_abs_le (csum_dy pts n hn B (fun j hj => hD j (by omega)) m hm)
  have h1 : (m : ℤ) * ((B + B) * (B + B)) ≤ 4 * (pts.size : ℤ) * B ^ 2 := by
    have : (m : ℤ) ≤ (pts.size : ℤ) := by exact_mod_cast (le_trans hm hP)
    nlinarith [sq_nonneg B]
  have h2 : (((m : ℤ) * ((B + B) * (B + B)) : ℤ) : ℚ) < 2 ^ 53 := by
    exact_mod_cast lt_of_le_of_lt h1 hN
  refine lt_of_le_of_lt h ?_
  rw [div_lt_iff₀ (by positivity)]
  calc _ < (2 : ℚ) ^ 53 := h2
    _ = 2 ^ 45 * 2 ^ 8 := by norm_num

end Geo.F.SG
