/-
  GeoProofs.CoversSpec.Sides — K4: the two sides of an edge have different crossing parity
-/
import GeoProofs.CoversSpec.Slide
import Mathlib.Tactic.Linarith
import Mathlib.Tactic.Ring
import Mathlib.Tactic.FieldSimp
import Mathlib.Tactic.LinearCombination
import Mathlib.Tactic.Positivity

namespace Geo
namespace CS
open Jordan Cvx

variable {es : List (Pt × Pt)} {P : Nat → Pt} {n : Nat}

/-- the point `z + δ·rot90(b - a)` -/
def off (a b z : Pt) (δ : Rat) : Pt := ⟨z.x - δ * (b.y - a.y), z.y + δ * (b.x - a.x)⟩

def len2 (a b : Pt) : Rat := (b.x - a.x) * (b.x - a.x) + (b.y - a.y) * (b.y - a.y)

theorem len2_pos {a b : Pt} (h : a ≠ b) : 0 < len2 a b := by
  unfold len2
  by_contra hc
  have h1 := mul_self_nonneg (b.x - a.x)
  have h2 := mul_self_nonneg (b.y - a.y)
  have e1 : (b.x - a.x) * (b.x - a.x) = 0 := by linarith
  have e2 : (b.y - a.y) * (b.y - a.y) = 0 := by linarith
  exact h ((K.pt_eq_iff _ _).2 ⟨by have := mul_self_eq_zero.1 e1; linarith,
    by have := mul_self_eq_zero.1 e2; linarith⟩)

theorem cross_off (a b z : Pt) (δ : Rat) :
    Spec.cross a b (off a b z δ) = Spec.cross a b z + δ * len2 a b := by
  simp only [K.cross_def, off, len2]; ring

theorem near_off (a b z : Pt) {ε : Rat} (hε : 0 < ε) :
    ∃ δ : Rat, 0 < δ ∧ Near ε (off a b z δ) z ∧ Near ε (off a b z (-δ)) z := by
  have hM : 0 < |b.y - a.y| + |b.x - a.x| + 1 := by positivity
  refine ⟨ε / (|b.y - a.y| + |b.x - a.x| + 1), div_pos hε hM, ?_, ?_⟩
  all_goals
    unfold Near off
    simp only
    have k1 : ε / (|b.y - a.y| + |b.x - a.x| + 1) * |b.y - a.y| ≤ ε := by
      rw [div_mul_eq_mul_div, div_le_iff₀ hM]
      nlinarith [abs_nonneg (b.y - a.y), abs_nonneg (b.x - a.x)]
    have k2 : ε / (|b.y - a.y| + |b.x - a.x| + 1) * |b.x - a.x| ≤ ε := by
      rw [div_mul_eq_mul_div, div_le_iff₀ hM]
      nlinarith [abs_nonneg (b.y - a.y), abs_nonneg (b.x - a.x)]
    have hd : 0 ≤ ε / (|b.y - a.y| + |b.x - a.x| + 1) := (div_pos hε hM).le
    constructor
    · have : ∀ t : Rat, |z.x - t * (b.y - a.y) - z.x| = |t| * |b.y - a.y| := by
        intro t; rw [show z.x - t * (b.y - a.y) - z.x = -(t * (b.y - a.y)) by ring, abs_neg, abs_mul]
      rw [this]
      first
        | rw [abs_of_nonneg hd]; exact k1
        | rw [abs_neg, abs_of_nonneg hd]; exact k1
    · have : ∀ t : Rat, |z.y + t * (b.x - a.x) - z.y| = |t| * |b.x - a.x| := by
        intro t; rw [← abs_mul]; congr 1; ring
      rw [this]
      first
        | rw [abs_of_nonneg hd]; exact k2
        | rw [abs_neg, abs_of_nonneg hd]; exact k2

/-- a point of a clean box around the open edge point `z`, off the line of the edge, sees `z` -/
theorem RingD.sees_of_near (R : RingD es P n) (i : Nat) {z r : Pt} {ε : Rat}
    (hz : OpenOn (P i) (P (i+1)) z)
    (htube : ∀ y x, OnSeg z z y → Near ε x y → ∀ f ∈ others es (P i, P (i+1)), ¬ OnSeg f.1 f.2 x)
    (hε : 0 < ε) (hr : Near ε r z) (hc : Spec.cross (P i) (P (i+1)) r ≠ 0) : Sees es r z := by
  intro e he x hx hex
  rcases mem_others_or es (P i, P (i+1)) e he with rfl | h
  · obtain ⟨σ, s0, s1, rfl⟩ := (onSeg_iff_lerp _ _ _).1 hx
    have := hex.1
    simp only at this
    rw [cross_lerp, hz.1.1] at this
    have hσ : 1 - σ = 0 := by
      rcases mul_eq_zero.1 (by linarith : (1 - σ) * Spec.cross (P i) (P (i+1)) r = 0) with h | h
      · exact h
      · exact absurd h hc
    have : σ = 1 := by linarith
    rw [this, lerp_one]
  · exfalso
    obtain ⟨y, hy, hny⟩ := near_seg_convex (a := z) (b := z) (K.onSeg_left _ _) (K.onSeg_left _ _)
      hr (near_self ε hε.le z) hx
    exact htube y x hy hny e h hex

end CS
end Geo

namespace Geo
namespace CS
open Jordan Cvx

variable {es : List (Pt × Pt)} {P : Nat → Pt} {n : Nat}

theorem cross_seg_off (a b z : Pt) (δ : Rat) (c : Pt) :
    Spec.cross (off a b z (-δ)) (off a b z δ) c =
      2 * δ * ((b.x - a.x) * (z.x - c.x) + (b.y - a.y) * (z.y - c.y)) := by
  simp only [K.cross_def, off]; ring

/-- K4: next to an open point of edge `i` there are two points on opposite sides, both seeing
    it, with different crossing parity -/
theorem RingD.two_sides_near (R : RingD es P n) (L : List Pt) (hL : es = Spec.edges L true) (i : Nat)
    (ε0 : Rat) (hε0 : 0 < ε0) :
    ∃ rp rm, OpenOn (P i) (P (i+1)) (lerp (P i) (P (i+1)) (1/2)) ∧
      Near ε0 rp (lerp (P i) (P (i+1)) (1/2)) ∧ Near ε0 rm (lerp (P i) (P (i+1)) (1/2)) ∧
      Sees es rp (lerp (P i) (P (i+1)) (1/2)) ∧ Sees es rm (lerp (P i) (P (i+1)) (1/2)) ∧
      0 < Spec.cross (P i) (P (i+1)) rp ∧ Spec.cross (P i) (P (i+1)) rm < 0 ∧
      Spec.parity es rp ≠ Spec.parity es rm := by
  have hab := R.ne_succ i
  have hD := len2_pos hab
  have hz : OpenOn (P i) (P (i+1)) (lerp (P i) (P (i+1)) (1/2)) :=
    openOn_of_lerp hab (by norm_num) (by norm_num)
  obtain ⟨ε', hε', htube'⟩ := tube _ _ (others es (P i, P (i+1))) (R.others_miss i hz hz)
  have hε : 0 < min ε' ε0 := lt_min hε' hε0
  have htube : ∀ y x, OnSeg (lerp (P i) (P (i+1)) (1/2)) (lerp (P i) (P (i+1)) (1/2)) y →
      Near (min ε' ε0) x y → ∀ f ∈ others es (P i, P (i+1)), ¬ OnSeg f.1 f.2 x :=
    fun y x hy hn => htube' y x hy (hn.mono (min_le_left _ _))
  obtain ⟨δ, hδ, np, nm⟩ := near_off (P i) (P (i+1)) (lerp (P i) (P (i+1)) (1/2)) hε
  have cp := cross_off (P i) (P (i+1)) (lerp (P i) (P (i+1)) (1/2)) δ
  have cm := cross_off (P i) (P (i+1)) (lerp (P i) (P (i+1)) (1/2)) (-δ)
  rw [hz.1.1] at cp cm
  have hp : 0 < Spec.cross (P i) (P (i+1)) (off (P i) (P (i+1)) (lerp (P i) (P (i+1)) (1/2)) δ) := by
    rw [cp]; have := mul_pos hδ hD; linarith
  have hm : Spec.cross (P i) (P (i+1)) (off (P i) (P (i+1)) (lerp (P i) (P (i+1)) (1/2)) (-δ)) < 0 := by
    rw [cm]; have := mul_pos hδ hD; linarith
  refine ⟨_, _, hz, np.mono (min_le_right _ _), nm.mono (min_le_right _ _),
    R.sees_of_near i hz htube hε np hp.ne', R.sees_of_near i hz htube hε nm hm.ne, hp, hm, ?_⟩
  rw [hL]
  apply Ne.symm
  apply parity_flips_of_one_proper_crossing L _ _ (P i, P (i+1)) (hL ▸ R.edge_mem i)
  · refine ⟨by nlinarith, ?_⟩
    rw [cross_seg_off, cross_seg_off]
    simp only [lerp]
    have e1 : (((P (i+1)).x - (P i).x) * ((P i).x + 1 / 2 * ((P (i+1)).x - (P i).x) - (P i).x) +
        ((P (i+1)).y - (P i).y) * ((P i).y + 1 / 2 * ((P (i+1)).y - (P i).y) - (P i).y)) =
        1/2 * (((P (i+1)).x - (P i).x) * ((P (i+1)).x - (P i).x) +
          ((P (i+1)).y - (P i).y) * ((P (i+1)).y - (P i).y)) := by ring
    have e2 : (((P (i+1)).x - (P i).x) * ((P i).x + 1 / 2 * ((P (i+1)).x - (P i).x) - (P (i+1)).x) +
        ((P (i+1)).y - (P i).y) * ((P i).y + 1 / 2 * ((P (i+1)).y - (P i).y) - (P (i+1)).y)) =
        -(1/2) * (((P (i+1)).x - (P i).x) * ((P (i+1)).x - (P i).x) +
          ((P (i+1)).y - (P i).y) * ((P (i+1)).y - (P i).y)) := by ring
    rw [e1, e2]
    have h2 := mul_pos hδ hD
    simp only [len2] at h2
    nlinarith
  · intro k hk j f hjk hj
    rw [segsMeet_eq_false_iff]
    rintro ⟨x, hx1, hx2⟩
    rw [← hL] at hk hj
    have hfe : f ≠ (P i, P (i+1)) := fun h => hjk (R.pos_unique hj hk h)
    have hf : f ∈ others es (P i, P (i+1)) :=
      List.mem_filter.2 ⟨List.mem_of_getElem? hj, by simpa using hfe⟩
    obtain ⟨y, hy, hny⟩ := near_seg_convex (a := lerp (P i) (P (i+1)) (1/2))
      (b := lerp (P i) (P (i+1)) (1/2)) (K.onSeg_left _ _) (K.onSeg_left _ _) nm np hx2
    exact htube y x hy hny f hf hx1

/-- K4: next to an open point of edge `i` there are two points on opposite sides, both seeing
    it, with different crossing parity -/
theorem RingD.two_sides (R : RingD es P n) (L : List Pt) (hL : es = Spec.edges L true) (i : Nat) :
    ∃ z rp rm, OpenOn (P i) (P (i+1)) z ∧ Sees es rp z ∧ Sees es rm z ∧
      0 < Spec.cross (P i) (P (i+1)) rp ∧ Spec.cross (P i) (P (i+1)) rm < 0 ∧
      Spec.parity es rp ≠ Spec.parity es rm := by
  obtain ⟨rp, rm, h1, -, -, h⟩ := R.two_sides_near L hL i 1 one_pos
  exact ⟨_, rp, rm, h1, h⟩

end CS
end Geo
