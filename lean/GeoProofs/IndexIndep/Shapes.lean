/-
  GeoProofs.IndexIndep.Shapes — ring × ring, ring × line, polygons, lines under a change of
  index (`Ring.Sim`, `Line.Sim`, `Poly.Sim`).
-/
import GeoProofs.IndexIndep.Segment

namespace Geo

/-- the edge indexes reported on this ring never change an answer: the ring is convex (they are
    not looked at), or every point lies on one edge only / is an end of all edges it lies on -/
def Ring.IdxSafe (r : Ring) : Prop := r.convex = true ∨ ∀ p, r.IdxUnique p

theorem Ring.Sim.idxSafe {r r' : Ring} (h : r.Sim r') (hs : r.IdxSafe) : r'.IdxSafe := by
  rcases hs with hs | hs
  · exact Or.inl (h.convex ▸ hs)
  · refine Or.inr (fun p => ?_)
    have := hs p
    unfold Ring.IdxUnique at this ⊢
    rw [← h.numSegments, ← h.segmentAt]
    exact this

/-! ### ring × ring, ring × line -/

theorem Ring.Sim.containsRingBody {r r' o o' : Ring} (h : r.Sim r') (ho : o.Data o')
    (allow : Bool) (hc : allow = false ∨ r.IdxSafe) :
    ringContainsRingBody r o allow = ringContainsRingBody r' o' allow := by
  unfold ringContainsRingBody
  rw [← h.rect, ← ho.rect, ← h.convex, ← ho.numPoints, ← ho.numSegments, ← ho.pointAt, ← ho.segmentAt]
  have hseg : ∀ i, ringContainsSegment r (o.segmentAt i) allow =
      ringContainsSegment r' (o.segmentAt i) allow := fun i =>
    h.containsSegment _ _ (by
      rcases hc with hc | hc | hc
      · exact Or.inl hc
      · exact Or.inr (Or.inl hc)
      · exact Or.inr (Or.inr ⟨hc _, hc _⟩))
  simp only [h.hit, hseg]

theorem Ring.Sim.containsRing {r r' o o' : Ring} (h : r.Sim r') (ho : o.Data o')
    (allow : Bool) (hc : allow = false ∨ r.IdxSafe) :
    ringContainsRing r o allow = ringContainsRing r' o' allow := by
  unfold ringContainsRing
  rw [← h.empty, ← ho.empty, ← ho.numPoints, ← ho.rect,
    h.containsRingBody (Ring.Data.refl (.bx o.rect)) allow hc, h.containsRingBody ho allow hc]

theorem Ring.Sim.intersectsRing {r r' o o' : Ring} (h : r.Sim r') (ho : o.Sim o') (allow : Bool) :
    ringIntersectsRing r o allow = ringIntersectsRing r' o' allow := by
  unfold ringIntersectsRing
  rw [← h.empty, ← ho.empty, ← h.rect, ← ho.rect]
  by_cases hc : o.rect.area > r.rect.area
  · simp only [hc, if_true, ← h.numSegments, ← h.segmentAt, ho.intersectsSegment]
  · simp only [hc, if_false, ← ho.numSegments, ← ho.segmentAt, h.intersectsSegment]

theorem Ring.Sim.containsLine {r r' : Ring} {l l' : Line} (h : r.Sim r') (hl : l.Same l')
    (allow : Bool) (hc : allow = false ∨ r.IdxSafe) :
    ringContainsLine r l allow = ringContainsLine r' l' allow :=
  h.containsRing hl.data allow hc

theorem Ring.Sim.intersectsLine {r r' : Ring} {l l' : Line} (h : r.Sim r') (hl : l.Same l')
    (allow : Bool) : ringIntersectsLine r l allow = ringIntersectsLine r' l' allow := by
  unfold ringIntersectsLine
  rw [← h.empty, ← hl.empty, ← h.rect, ← hl.2.2.2.2, ← hl.numPoints, ← hl.numSegments,
    ← hl.segmentAt, ← hl.1]
  simp only [h.hit, h.intersectsSegment]

/-! ### lists related element-wise -/

theorem any_forall₂ {α β : Type} {R : α → β → Prop} {l : List α} {l' : List β}
    (h : List.Forall₂ R l l') (f : α → Bool) (g : β → Bool) (hfg : ∀ a b, R a b → f a = g b) :
    l.any f = l'.any g := by
  induction h with
  | nil => rfl
  | cons hab _ ih => rw [List.any_cons, List.any_cons, hfg _ _ hab, ih]

theorem all_forall₂ {α β : Type} {R : α → β → Prop} {l : List α} {l' : List β}
    (h : List.Forall₂ R l l') (f : α → Bool) (g : β → Bool) (hfg : ∀ a b, R a b → f a = g b) :
    l.all f = l'.all g := by
  induction h with
  | nil => rfl
  | cons hab _ ih => rw [List.all_cons, List.all_cons, hfg _ _ hab, ih]

theorem forall₂_mem_left {α β : Type} {R : α → β → Prop} {P : α → Prop} {l : List α} {l' : List β}
    (h : List.Forall₂ R l l') (hp : ∀ a ∈ l, P a) : List.Forall₂ (fun a b => R a b ∧ P a) l l' := by
  induction h with
  | nil => exact .nil
  | cons hab _ ih =>
    exact .cons ⟨hab, hp _ (by simp)⟩ (ih (fun a ha => hp a (by simp [ha])))

/-! ### polygons -/

/-- the exteriors are similar (or both absent), the holes are pairwise similar -/
structure Poly.Sim (p p' : Poly) : Prop where
  ext : match p.ext, p'.ext with
        | none, none => True
        | some e, some e' => e.Sim e'
        | _, _ => False
  holes : List.Forall₂ Ring.Sim p.holes p'.holes

/-- the exterior ring (used as a container in the inclusive reading) is index safe -/
def Poly.ExtSafe (p : Poly) : Prop := ∀ e, p.ext = some e → e.IdxSafe
/-- the holes (used as containers in the inclusive reading by `containsPoly`) are index safe -/
def Poly.HolesSafe (p : Poly) : Prop := ∀ h ∈ p.holes, h.IdxSafe

theorem Poly.Sim.empty {p p' : Poly} (h : p.Sim p') : p.empty = p'.empty := by
  obtain ⟨he, _⟩ := h
  unfold Poly.empty
  cases hp : p.ext <;> cases hp' : p'.ext <;> rw [hp, hp'] at he <;> simp only at he ⊢
  exact he.empty

theorem Poly.Sim.rect {p p' : Poly} (h : p.Sim p') : p.rect = p'.rect := by
  obtain ⟨he, _⟩ := h
  unfold Poly.rect
  cases hp : p.ext <;> cases hp' : p'.ext <;> rw [hp, hp'] at he <;> simp only at he ⊢
  exact he.rect

theorem Poly.Sim.containsPoint {p p' : Poly} (h : p.Sim p') (q : Pt) :
    p.containsPoint q = p'.containsPoint q := by
  obtain ⟨he, hh⟩ := h
  unfold Poly.containsPoint
  cases hp : p.ext <;> cases hp' : p'.ext <;> rw [hp, hp'] at he <;> simp only at he ⊢
  rw [he.hit, any_forall₂ hh _ _ (fun a b hab => hab.hit q false)]

theorem Poly.Sim.containsLine {p p' : Poly} {l l' : Line} (h : p.Sim p') (hl : l.Same l')
    (hs : p.ExtSafe) : p.containsLine l = p'.containsLine l' := by
  obtain ⟨he, hh⟩ := h
  unfold Poly.containsLine
  cases hp : p.ext <;> cases hp' : p'.ext <;> rw [hp, hp'] at he <;> simp only at he ⊢
  rw [he.containsLine hl true (Or.inr (hs _ hp)),
    any_forall₂ hh _ _ (fun a b hab => hab.intersectsLine hl false)]

theorem Poly.Sim.intersectsLine {p p' : Poly} {l l' : Line} (h : p.Sim p') (hl : l.Same l') :
    p.intersectsLine l = p'.intersectsLine l' := by
  obtain ⟨he, hh⟩ := h
  unfold Poly.intersectsLine
  cases hp : p.ext <;> cases hp' : p'.ext <;> rw [hp, hp'] at he <;> simp only at he ⊢
  rw [he.intersectsLine hl true,
    any_forall₂ hh _ _ (fun a b hab => hab.containsLine hl false (Or.inl rfl))]

theorem Poly.Sim.containsPoly {p p' o o' : Poly} (h : p.Sim p') (ho : o.Sim o')
    (hs : p.ExtSafe) (hos : o.HolesSafe) : p.containsPoly o = p'.containsPoly o' := by
  obtain ⟨he, hh⟩ := h
  obtain ⟨hoe, hoh⟩ := ho
  unfold Poly.containsPoly
  cases hp : p.ext <;> cases hp' : p'.ext <;> rw [hp, hp'] at he <;> simp only at he ⊢
  cases hq : o.ext <;> cases hq' : o'.ext <;> rw [hq, hq'] at hoe <;> simp only at hoe ⊢
  rename_i e e' f f'
  rw [he.containsRing hoe.toData true (Or.inr (hs _ hp))]
  congr 1
  refine all_forall₂ hh _ _ (fun a b hab => ?_)
  rw [hab.intersectsRing hoe false]
  congr 1
  refine any_forall₂ (forall₂_mem_left hoh hos) _ _ (fun c d hcd => ?_)
  exact hcd.1.containsRing hab.toData true (Or.inr hcd.2)

theorem Poly.Sim.intersectsPoly {p p' o o' : Poly} (h : p.Sim p') (ho : o.Sim o') :
    p.intersectsPoly o = p'.intersectsPoly o' := by
  obtain ⟨he, hh⟩ := h
  obtain ⟨hoe, hoh⟩ := ho
  unfold Poly.intersectsPoly
  cases hp : p.ext <;> cases hp' : p'.ext <;> rw [hp, hp'] at he <;> simp only at he ⊢
  cases hq : o.ext <;> cases hq' : o'.ext <;> rw [hq, hq'] at hoe <;> simp only at hoe ⊢
  rename_i e e' f f'
  rw [hoe.intersectsRing he true,
    any_forall₂ hh _ _ (fun a b hab => hab.containsRing hoe.toData false (Or.inl rfl)),
    any_forall₂ hoh _ _ (fun a b hab => hab.containsRing he.toData false (Or.inl rfl))]

theorem Poly.Sim.asPoly (r : Box) : r.asPoly.Sim r.asPoly :=
  ⟨Ring.Sim.bx r, .nil⟩

theorem asPoly_holesSafe (r : Box) : r.asPoly.HolesSafe := fun h hh => by cases hh

theorem Poly.Sim.containsRect {p p' : Poly} (h : p.Sim p') (r : Box) (hs : p.ExtSafe) :
    p.containsRect r = p'.containsRect r :=
  h.containsPoly (Poly.Sim.asPoly r) hs (asPoly_holesSafe r)

theorem Poly.Sim.intersectsRect {p p' : Poly} (h : p.Sim p') (r : Box) :
    p.intersectsRect r = p'.intersectsRect r :=
  h.intersectsPoly (Poly.Sim.asPoly r)

/-! ### lines -/

/-- the same vertex list, both searches exact -/
structure Line.Sim (l l' : Line) : Prop where
  same : l.Same l'
  exact : l.SearchExact
  exact' : l'.SearchExact

theorem Line.Sim.ring {l l' : Line} (h : Line.Sim l l') : (Ring.ser l).Sim (.ser l') :=
  h.same.sim h.exact h.exact'

theorem Line.Sim.containsPoint {l l' : Line} (h : Line.Sim l l') (p : Pt) :
    Line.containsPoint l p = Line.containsPoint l' p := by
  rw [line_containsPoint_any l h.exact, line_containsPoint_any l' h.exact', h.same.numSegments,
    h.same.segmentAt]

theorem walkStep_congr {l l' o o' : Line} (h : l.Same l') (ho : o.Same o') :
    walkStep l o = walkStep l' o' := by
  funext n st
  unfold walkStep
  rw [h.segmentAt, ho.segmentAt]

theorem walk_congr {l l' o o' : Line} (h : l.Same l') (ho : o.Same o') (n m fuel : Nat) (st : WalkSt) :
    walk l o n m fuel st = walk l' o' n m fuel st := by
  induction fuel generalizing st with
  | zero => rfl
  | succ k ih =>
    unfold walk
    rw [walkStep_congr h ho]
    split
    · split
      · rfl
      · exact ih _
    · rfl

/-- `Line.containsLine` never searches: it only depends on the vertex lists -/
theorem Line.containsLineO_congr {l l' o o' : Line} (h : l.Same l') (ho : o.Same o') :
    Line.containsLineO l o = Line.containsLineO l' o' := by
  unfold Line.containsLineO
  rw [h.empty, ho.empty, h.numSegments, ho.numSegments, h.segmentAt, ho.segmentAt]
  simp only [walk_congr h ho]

theorem Line.containsLine_congr {l l' o o' : Line} (h : l.Same l') (ho : o.Same o') :
    Line.containsLine l o = Line.containsLine l' o' := by
  unfold Line.containsLine
  rw [Line.containsLineO_congr h ho]

theorem Line.Sim.intersectsLine {l l' o o' : Line} (h : Line.Sim l l') (ho : Line.Sim o o') :
    Line.intersectsLine l o = Line.intersectsLine l' o' := by
  unfold Line.intersectsLine
  rw [← h.same.empty, ← ho.same.empty, ← h.same.2.2.2.2, ← ho.same.2.2.2.2, ← h.same.numPoints,
    ← ho.same.numPoints]
  by_cases hc : l.numPoints > o.numPoints
  · simp only [hc, if_true, ← ho.same.numSegments, ← ho.same.segmentAt, h.ring.searchAny]
  · simp only [hc, if_false, ← h.same.numSegments, ← h.same.segmentAt, ho.ring.searchAny]

theorem Line.containsPoly_congr {l l' : Line} {p p' : Poly} (h : l.Same l') (hp : p.Sim p') :
    Line.containsPoly l p = Line.containsPoly l' p' := by
  unfold Line.containsPoly
  rw [← h.empty, ← hp.empty, ← hp.rect]
  simp only [Line.containsLine_congr h (Series.Same.refl _)]

theorem Line.containsRect_congr {l l' : Line} (h : l.Same l') (r : Box) :
    Line.containsRect l r = Line.containsRect l' r :=
  Line.containsPoly_congr h (Poly.Sim.asPoly r)

theorem Box.intersectsLine_congr {l l' : Line} (h : l.Same l') (r : Box) :
    r.intersectsLine l = r.intersectsLine l' :=
  (Ring.Sim.bx r).intersectsLine h true

theorem Box.containsLine_congr {l l' : Line} (h : l.Same l') (r : Box) :
    r.containsLine l = r.containsLine l' := by
  unfold Box.containsLine
  rw [h.empty, h.2.2.2.2]

theorem Box.containsPoly_congr {p p' : Poly} (h : p.Sim p') (r : Box) :
    r.containsPoly p = r.containsPoly p' := by
  unfold Box.containsPoly
  rw [h.empty, h.rect]

theorem Pt.containsLine_congr {l l' : Line} (h : l.Same l') (q : Pt) :
    q.containsLine l = q.containsLine l' := by
  unfold Pt.containsLine
  rw [h.empty, h.2.2.2.2]

theorem Pt.containsPoly_congr {p p' : Poly} (h : p.Sim p') (q : Pt) :
    q.containsPoly p = q.containsPoly p' := by
  unfold Pt.containsPoly
  rw [h.empty, h.rect]

end Geo
