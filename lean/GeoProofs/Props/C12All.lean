/-
  C12, everything: Props/C12Jordan.lean (translation / positive scaling of every predicate, the
  kernel under reflections) and Props/C12Sym.lean (crossing parity, membership, meets and
  Geom.intersects under reflections, transposition and quarter turns).
-/
import GeoProofs.Props.C12Jordan
import GeoProofs.Props.C12Sym
