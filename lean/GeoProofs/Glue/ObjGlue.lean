/-
  GeoProofs.Glue.ObjGlue — the methods of the LEAF and WRAPPER object kinds (point.go,
  simplepoint.go, linestring.go, polygon.go, rect.go, feature.go, circle.go, multi*.go,
  *collection.go) REGENERATED from the current Go source (GeoModel/Generated/ObjMethGen.lean,
  `translate objmeth`), instantiated with the hand model GeoModel/Object.lean:
    Object := Obj, Spatial := Obj (`Spatial()` of every kind but Circle returns the receiver),
    geometry.Point / Rect / Line / Poly / Series := Pt / Box / Line / Poly / Ring, float64 := Rat,
    *Point := `MPoint` = the arguments of `Obj.point`, *SimplePoint := Pos, *LineString := `MLine`,
    *Polygon := `MPoly`, *Rect := `MRect`, *Feature := `MFeature`, *Circle := `MCircle` = the
    arguments of `Obj.circle`; *collection, the five wrapper types and the interface Collection :=
    `CGlue.MColl` (the arguments of `Obj.coll` plus the child R-tree).
  The geometry-level callees (`gRectContainsPoint`, `gPolyIntersectsLine`, …) are instantiated with
  the geometry-level model (GeoModel/Geom.lean: `Box.containsPt`, `Poly.intersectsLine`, …): that
  these ARE the Go functions of package geometry is the business of the kernel / glue / ring /
  linewalk / series bridges, not of this file.
  The dynamic dispatch through the interfaces is a parameter `d : CGlue.Disp` (`Disp.model` := the
  model's own functions), as in Glue/CollGlue.lean.
  UNINTERPRETED (`Unint`): everything geodesic — the haversine, the geo distances, the polygon
  approximation of a circle, the extra fields of *Circle (meters, haversine, object, steps) that
  `Obj.circle` does not carry.  The hand model has NO planar Circle (Object.lean: "every planar
  method is a placeholder"), so the Circle methods are only bridged where the model says something.
-/
import GeoModel.Generated.ObjMethGen
import GeoProofs.Glue.CollGlue

namespace Geo.OGlue
open Geo Geo.OGen Geo.CGlue Geo.Obj

structure MPoint where
  pos : Pos
  ex : Option Extra

structure MLine where
  l : Line
  poss : List Pos
  ex : Option Extra

structure MPoly where
  poly : Poly
  rings : List (List Pos)
  ex : Option Extra

structure MRect where
  b : Box
  lo : Pos
  hi : Pos

structure MFeature where
  base : Obj
  ex : Option Extra

structure MCircle where
  center : Pos
  radius : String

def MPoint.obj (g : MPoint) : Obj := .point g.pos g.ex
def MLine.obj (g : MLine) : Obj := .lineString g.l g.poss g.ex
def MPoly.obj (g : MPoly) : Obj := .polygon g.poly g.rings g.ex
def MRect.obj (g : MRect) : Obj := .rectO g.b g.lo g.hi
def MFeature.obj (g : MFeature) : Obj := .feature g.base g.ex
def MCircle.obj (g : MCircle) : Obj := .circle g.center g.radius

/-- what the planar model does not interpret -/
structure Unint where
  dist : Pt → Pt → Rat
  sdistPoint : Obj → Pt → Rat
  sdistRect : Obj → Box → Rat
  sdistLine : Obj → Line → Rat
  sdistPoly : Obj → Poly → Rat
  odist : Obj → Obj → Rat
  haversine : Rat → Rat → Rat → Rat → Rat
  makeCircle : Pt → Rat → Int → Obj
  cMeters : MCircle → Rat
  cHaversine : MCircle → Rat
  cObject : MCircle → Option Obj
  cSteps : MCircle → Int
  /-- the recursive calls of Circle.Contains / Circle.Intersects on the children of a collection -/
  recContains : MCircle → Obj → Bool
  recIntersects : MCircle → Obj → Bool

/-- the dynamic type tests -/
def asPoint : Obj → Option MPoint
  | .point pos ex => some ⟨pos, ex⟩
  | _ => none
def asSimplePoint : Obj → Option Pos
  | .spoint pos => some pos
  | _ => none
def asCircle : Obj → Option MCircle
  | .circle c r => some ⟨c, r⟩
  | _ => none
def asFeature : Obj → Option MFeature
  | .feature b ex => some ⟨b, ex⟩
  | _ => none
/-- `x.(Collection)`: the five wrapper kinds; the R-tree is not looked at by Children() -/
def asColl : Obj → Option MColl
  | .coll k cs ex idx => some ⟨k, cs, ex, idx, fun q => searchChildren cs q⟩
  | _ => none

def isCircle : Obj → Bool
  | .circle _ _ => true
  | _ => false

/-- the hand model's operations -/
def mopsO (d : Disp) (u : Unint) :
    Ops Rat Line Pt Poly Box Ring MCircle MColl MColl Extra MFeature MColl MColl MLine MColl MColl MColl
      Obj MPoint MPoly MRect Pos Obj where
  circle_center := fun c => c.center.p
  circle_haversine := u.cHaversine
  circle_meters := u.cMeters
  circle_object := u.cObject
  circle_steps := u.cSteps
  collectionIChildren := MColl.children
  collection_children := MColl.children
  collection_extra := MColl.ex
  extra_members := Extra.members
  fAdd := fun a b => a + b
  fLe := fun a b => decide (a ≤ b)
  featureCollection_collection := id
  feature_base := MFeature.base
  feature_extra := MFeature.ex
  fn_geoDistancePoints := u.dist
  fn_geo_Haversine := u.haversine
  fn_makeCircleObject := u.makeCircle
  gLineContainsLine := Line.containsLine
  gLineContainsPoint := Line.containsPoint
  gLineContainsPoly := Line.containsPoly
  gLineContainsRect := Line.containsRect
  gLineEmpty := fun l => l.empty
  gLineIntersectsLine := Line.intersectsLine
  gLineIntersectsPoint := Line.containsPoint
  gLineIntersectsPoly := Line.intersectsPoly
  gLineIntersectsRect := Line.intersectsRect
  gLineNumPoints := fun l => Int.ofNat l.numPoints
  gLineRect := fun l => l.rect
  gLineValid := fun l => l.valid
  gPointContainsLine := Pt.containsLine
  gPointContainsPoint := fun q p => decide (q = p)
  gPointContainsPoly := Pt.containsPoly
  gPointContainsRect := Pt.containsRect
  gPointEmpty := fun _ => false
  gPointIntersectsLine := Pt.intersectsLine
  gPointIntersectsPoint := fun p q => decide (p = q)
  gPointIntersectsPoly := Pt.intersectsPoly
  gPointIntersectsRect := Pt.intersectsRect
  gPointRect := Pt.box
  gPointValid := Pt.valid
  gPoint_X := Pt.x
  gPoint_Y := Pt.y
  gPolyContainsLine := Poly.containsLine
  gPolyContainsPoint := Poly.containsPoint
  gPolyContainsPoly := Poly.containsPoly
  gPolyContainsRect := Poly.containsRect
  gPolyEmpty := Poly.empty
  gPolyIntersectsLine := Poly.intersectsLine
  gPolyIntersectsPoint := Poly.containsPoint
  gPolyIntersectsPoly := Poly.intersectsPoly
  gPolyIntersectsRect := Poly.intersectsRect
  gPolyRect := Poly.rect
  gPolyValid := Poly.valid
  gPoly_Exterior := Poly.ext
  gPoly_Holes := Poly.holes
  gRectCenter := Box.center
  gRectContainsLine := Box.containsLine
  gRectContainsPoint := Box.containsPt
  gRectContainsPoly := Box.containsPoly
  gRectContainsRect := Box.containsBox
  gRectEmpty := fun _ => false
  gRectIntersectsLine := Box.intersectsLine
  gRectIntersectsPoint := Box.containsPt
  gRectIntersectsPoly := Box.intersectsPoly
  gRectIntersectsRect := Box.intersects
  gRectValid := boxValid
  gSeriesNumPoints := fun r => Int.ofNat r.numPoints
  geometryCollection_collection := id
  lineString_base := MLine.l
  lineString_extra := MLine.ex
  multiLineString_collection := id
  multiPoint_collection := id
  multiPolygon_collection := id
  objAsCircle := asCircle
  objAsCollectionI := asColl
  objAsFeature := asFeature
  objAsPoint := asPoint
  objAsSimplePoint := asSimplePoint
  objContains := d.contains
  objDistance := u.odist
  objEmpty := Obj.empty
  objIntersects := d.intersects
  objNumPoints := fun o => Int.ofNat (d.numPoints o)
  objOfCircle := MCircle.obj
  objOfFeature := MFeature.obj
  objOfLineString := MLine.obj
  objOfPoint := MPoint.obj
  objOfPolygon := MPoly.obj
  objOfRect := MRect.obj
  objOfSimplePoint := Obj.spoint
  objRect := Obj.rect
  objSpatial := id
  objValid := Obj.valid
  point_base := fun g => g.pos.p
  point_extra := MPoint.ex
  polygon_base := MPoly.poly
  polygon_extra := MPoly.ex
  rec_circleContains := u.recContains
  rec_circleIntersects := u.recIntersects
  rect_base := MRect.b
  simplePoint_Point := Pos.p
  spatialDistanceLine := u.sdistLine
  spatialDistancePoint := u.sdistPoint
  spatialDistancePoly := u.sdistPoly
  spatialDistanceRect := u.sdistRect
  spatialIntersectsLine := d.intersectsLine
  spatialIntersectsPoint := d.intersectsPoint
  spatialIntersectsPoly := d.intersectsPoly
  spatialIntersectsRect := d.intersectsRect
  spatialOfFeature := MFeature.obj
  spatialOfLineString := MLine.obj
  spatialOfPoint := MPoint.obj
  spatialOfPolygon := MPoly.obj
  spatialOfRect := MRect.obj
  spatialOfSimplePoint := Obj.spoint
  spatialWithinLine := d.withinLine
  spatialWithinPoint := d.withinPoint
  spatialWithinPoly := d.withinPoly
  spatialWithinRect := d.withinRect

/-- `iterate` over a single element is one call of the iterator -/
theorem iterate_single {ε σ : Type} (f : ε → σ → σ × Bool) (x : ε) (s : σ) :
    CGen.iterate f [x] s = f x s := by
  rw [CGlue.iterate_cons, CGlue.iterate_nil]
  cases h : (f x s) with
  | mk a b => cases b <;> simp

/-- an accumulating range loop (Polygon.NumPoints) -/
theorem forRange_sumInt {ε : Type} (body : ε → Int → Flow Int Empty) (f : ε → Nat)
    (hb : ∀ x s, body x s = Flow.next (s + Int.ofNat (f x))) :
    ∀ (l : List ε) (n : Int), forRange body l n = Exit.done (n + Int.ofNat (l.map f).sum) := by
  intro l
  induction l with
  | nil => intro n; simp [forRange]
  | cons x xs ih =>
    intro n
    rw [forRange, hb]
    simp only [ih, List.map_cons, List.sum_cons, Int.ofNat_eq_natCast]
    congr 1; push_cast; omega

/-- a range loop that clears a flag (MultiLineString.Valid, MultiPolygon.Valid) -/
theorem forRange_flag {ε : Type} (body : ε → Bool → Flow Bool Empty) (p : ε → Bool)
    (hb : ∀ x s, body x s = if !p x then Flow.next false else Flow.next s) :
    ∀ (l : List ε) (b : Bool), forRange body l b = Exit.done (b && l.all p) := by
  intro l
  induction l with
  | nil => intro b; simp [forRange]
  | cons x xs ih =>
    intro b
    rw [forRange, hb]
    simp only [ih, List.all_cons]
    cases p x <;> cases b <;> simp

/-- a range loop that returns false at the first element failing `p` (Circle.Contains) -/
theorem forRange_allRet {ε : Type} (body : ε → Unit → Flow Unit Bool) (p : ε → Bool)
    (hb : ∀ x s, body x s = if !p x then Flow.ret false else Flow.next ()) :
    ∀ (l : List ε), forRange body l () = if l.all p then Exit.done () else Exit.ret false := by
  intro l
  induction l with
  | nil => simp [forRange]
  | cons x xs ih =>
    rw [forRange, hb]
    cases h : p x <;> simp [ih, h]

/-- a range loop that returns true at the first element satisfying `p` (Circle.Intersects) -/
theorem forRange_anyRet {ε : Type} (body : ε → Unit → Flow Unit Bool) (p : ε → Bool)
    (hb : ∀ x s, body x s = if p x then Flow.ret true else Flow.next ()) :
    ∀ (l : List ε), forRange body l () = if l.any p then Exit.ret true else Exit.done () := by
  intro l
  induction l with
  | nil => simp [forRange]
  | cons x xs ih =>
    rw [forRange, hb]
    cases h : p x <;> simp [ih, h]

theorem allValid_eq_all : ∀ cs : List Obj, allValid cs = cs.all Obj.valid
  | [] => by simp [allValid]
  | c :: cs => by simp [allValid, allValid_eq_all cs]

end Geo.OGlue

#print axioms Geo.OGlue.iterate_single
#print axioms Geo.OGlue.forRange_sumInt
#print axioms Geo.OGlue.forRange_flag
#print axioms Geo.OGlue.forRange_allRet
#print axioms Geo.OGlue.forRange_anyRet
#print axioms Geo.OGlue.allValid_eq_all
