/-
  GeoProofs.ContainsConvex.SegInside — the specification's cut-and-sample test `Spec.segInside`
  on a member predicate that is convex along the segment: it is "both end points are members".
-/
import GeoProofs.ContainsConvex.Ring

namespace Geo
namespace CC
open GL Jordan Contains

theorem mem_insertSorted (x y : Rat) (l : List Rat) :
    y ∈ Spec.insertSorted x l ↔ y = x ∨ y ∈ l := by
  induction l with
  | nil => simp [Spec.insertSorted]
  | cons z zs ih =>
    unfold Spec.insertSorted
    split_ifs with h1 h2
    · simp
    · subst h2; simp
    · simp only [List.mem_cons, ih]
      tauto

/-- the sample parameters: `0`, `1` and numbers of `[0, 1]` -/
def TsOK (ts : List Rat) : Prop := 0 ∈ ts ∧ 1 ∈ ts ∧ ∀ t ∈ ts, 0 ≤ t ∧ t ≤ 1

theorem TsOK.insert {ts : List Rat} (h : TsOK ts) (t : Rat) (h0 : 0 ≤ t) (h1 : t ≤ 1) :
    TsOK (Spec.insertSorted t ts) := by
  refine ⟨(mem_insertSorted _ _ _).2 (Or.inr h.1), (mem_insertSorted _ _ _).2 (Or.inr h.2.1), ?_⟩
  intro u hu
  rcases (mem_insertSorted _ _ _).1 hu with rfl | hu
  · exact ⟨h0, h1⟩
  · exact h.2.2 u hu

theorem TsOK.foldl {ts : List Rat} (h : TsOK ts) (cs : List Rat) (hcs : ∀ t ∈ cs, 0 ≤ t ∧ t ≤ 1) :
    TsOK (cs.foldl (fun acc t => Spec.insertSorted t acc) ts) := by
  induction cs generalizing ts with
  | nil => exact h
  | cons c cs ih =>
    simp only [List.foldl_cons]
    exact ih (h.insert c (hcs c (by simp)).1 (hcs c (by simp)).2)
      (fun t ht => hcs t (by simp [ht]))

theorem paramOn_bounds {a b p : Pt} (hab : a ≠ b) (h : OnSeg a b p) :
    0 ≤ Spec.paramOn a b p ∧ Spec.paramOn a b p ≤ 1 := by
  obtain ⟨t, t0, t1, hx, hy⟩ := (K.onSeg_iff_param a b p).1 h
  unfold Spec.paramOn
  split_ifs with hxx
  · have hne : b.x - a.x ≠ 0 := fun h0 => hxx (by linarith)
    have : (p.x - a.x) / (b.x - a.x) = t := by rw [hx]; field_simp; ring
    rw [this]; exact ⟨t0, t1⟩
  · have hxx' : a.x = b.x := by simpa using hxx
    have hne : b.y - a.y ≠ 0 := fun h0 => hab ((K.pt_eq_iff a b).2 ⟨hxx', by linarith⟩)
    have : (p.y - a.y) / (b.y - a.y) = t := by rw [hy]; field_simp; ring
    rw [this]; exact ⟨t0, t1⟩

theorem cutParams_bounds {a b : Pt} (hab : a ≠ b) (c d : Pt) :
    ∀ t ∈ Spec.cutParams a b c d, 0 ≤ t ∧ t ≤ 1 := by
  have hends : ∀ t ∈ (if Spec.onSeg a b c then [Spec.paramOn a b c] else []) ++
      (if Spec.onSeg a b d then [Spec.paramOn a b d] else []), 0 ≤ t ∧ t ≤ 1 := by
    intro t ht
    rw [List.mem_append] at ht
    rcases ht with ht | ht
    · split_ifs at ht with hc
      · rw [List.mem_singleton] at ht; subst ht
        exact paramOn_bounds hab ((spec_onSeg_iff _ _ _).1 hc)
      · cases ht
    · split_ifs at ht with hc
      · rw [List.mem_singleton] at ht; subst ht
        exact paramOn_bounds hab ((spec_onSeg_iff _ _ _).1 hc)
      · cases ht
  intro t ht
  unfold Spec.cutParams at ht
  simp only at ht
  split at ht
  · exact hends t ht
  · split at ht
    · rename_i h2
      rw [List.mem_cons] at ht
      rcases ht with rfl | ht
      · simp only [Bool.and_eq_true, decide_eq_true_eq] at h2
        exact ⟨h2.1.1.1, h2.1.1.2⟩
      · exact hends t ht
    · exact hends t ht

theorem ts_ok {a b : Pt} (hab : a ≠ b) (aedges : List (Pt × Pt)) (ts : List Rat) (h : TsOK ts) :
    TsOK (aedges.foldl (fun acc f => (Spec.cutParams a b f.1 f.2).foldl
      (fun acc t => Spec.insertSorted t acc) acc) ts) := by
  induction aedges generalizing ts with
  | nil => exact h
  | cons f fs ih =>
    simp only [List.foldl_cons]
    exact ih _ (h.foldl _ (cutParams_bounds hab f.1 f.2))

/-- **`segInside` on a predicate that is convex along the segment** -/
theorem segInside_of_convex (member : Pt → Bool) (aedges : List (Pt × Pt)) (a b : Pt)
    (hconv : member a = true → member b = true → ∀ x, OnSeg a b x → member x = true) :
    Spec.segInside member aedges a b = (member a && member b) := by
  unfold Spec.segInside
  split_ifs with hab
  · subst hab; simp
  · simp only
    have hts := ts_ok hab aedges [0, 1] ⟨by simp, by simp, fun t ht => by
      simp only [List.mem_cons, List.not_mem_nil, or_false] at ht
      rcases ht with rfl | rfl <;> norm_num⟩
    generalize aedges.foldl (fun acc f => (Spec.cutParams a b f.1 f.2).foldl
      (fun acc t => Spec.insertSorted t acc) acc) [0, 1] = ts at hts
    rw [Bool.eq_iff_iff, List.all_eq_true, Bool.and_eq_true]
    constructor
    · intro h
      have h0 := h 0 (List.mem_append_left _ hts.1)
      have h1 := h 1 (List.mem_append_left _ hts.2.1)
      rw [pointAt_zero] at h0
      rw [pointAt_one] at h1
      exact ⟨h0, h1⟩
    · rintro ⟨ha, hb⟩ t ht
      have hb01 : 0 ≤ t ∧ t ≤ 1 := by
        rw [List.mem_append] at ht
        rcases ht with ht | ht
        · exact hts.2.2 t ht
        · rw [List.mem_map] at ht
          obtain ⟨⟨u, v⟩, huv, rfl⟩ := ht
          obtain ⟨hu, hv⟩ := List.of_mem_zip huv
          have hu' := hts.2.2 u hu
          have hv' := hts.2.2 v (List.mem_of_mem_tail hv)
          simp only
          constructor
          · linarith [hu'.1, hv'.1]
          · linarith [hu'.2, hv'.2]
      exact hconv ha hb _ (pointAt_onSeg a b t hb01.1 hb01.2)

end CC
end Geo
