/-
  GeoProofs.ContainsConvex.Symmetry — `Geom.contains` with a convex receiver is invariant under
  the orientation-reversing lattice symmetries (reflections, transposition).
-/
import GeoProofs.ContainsConvex.Poly2
import GeoProofs.Symmetry.Meets

namespace Geo
namespace CC
open GL Jordan Contains Sym

/-- the specification on a convex receiver: both ends of every edge of the argument are members -/
theorem covers_convex_ends (ext : List Pt) (hs : Spec.simpleRing ext = true)
    (hcv : (processPoints ext.toArray true).convex = true) (B : Spec.Shape) :
    Spec.covers (.poly ext []) B = true ↔
      (B.nonEmpty = true ∧ ∀ e ∈ B.edges, (Spec.Shape.poly ext []).member e.1 = true ∧
        (Spec.Shape.poly ext []).member e.2 = true) := by
  have h3 : decide (ext.length ≥ 3) = true := by simpa using ext_len ext hs
  have hall := polyA_all ext hs hcv B.edges
  simp only [polyA_member]
  cases B with
  | point p =>
    have hc : Spec.covers (.poly ext []) (.point p) =
        (decide (ext.length ≥ 3) && true && (Spec.Shape.poly ext []).member p) := rfl
    rw [hc, h3, polyA_member]
    simp [Spec.Shape.nonEmpty, Spec.Shape.edges]
  | rect lo hi =>
    have hc : Spec.covers (.poly ext []) (.rect lo hi) =
        (decide (ext.length ≥ 3) && (Spec.Shape.rect lo hi).edges.all (fun e =>
          Spec.segInside (Spec.Shape.poly ext []).member (Spec.Shape.poly ext []).edges e.1 e.2)) := by
      unfold Spec.covers
      have h1 : Spec.isRegion (.poly ext []) = true := rfl
      simp only [h1, Spec.Shape.nonEmpty, Spec.Shape.holes, List.all_nil, Bool.and_true,
        Bool.not_true, Bool.and_false, Bool.false_eq_true, if_false]
      cases Spec.isRegion (.rect lo hi) <;> simp
    rw [hc, h3, Bool.true_and, hall]
    simp [Spec.Shape.nonEmpty]
  | line l =>
    have hc : Spec.covers (.poly ext []) (.line l) =
        (decide (ext.length ≥ 3) && decide (l.length ≥ 2) && (Spec.Shape.line l).edges.all (fun e =>
          Spec.segInside (Spec.Shape.poly ext []).member (Spec.Shape.poly ext []).edges e.1 e.2)) := by
      simp only [Spec.covers, Spec.isRegion, Spec.Shape.holes, Spec.Shape.nonEmpty,
        Bool.not_true, Bool.and_false, Bool.false_eq_true, if_false, List.all_nil, Bool.and_true]
    rw [hc, h3, Bool.true_and, Bool.and_eq_true, hall]
    simp [Spec.Shape.nonEmpty]
  | poly oext oholes =>
    have hc : Spec.covers (.poly ext []) (.poly oext oholes) =
        (decide (ext.length ≥ 3) && decide (oext.length ≥ 3) &&
          (Spec.Shape.poly oext oholes).edges.all (fun e =>
            Spec.segInside (Spec.Shape.poly ext []).member (Spec.Shape.poly ext []).edges e.1 e.2)) := by
      simp only [Spec.covers, Spec.isRegion, Spec.Shape.holes, Spec.Shape.nonEmpty,
        Bool.not_true, Bool.and_false, Bool.false_eq_true, if_false, List.all_nil, ite_self,
        Bool.and_true]
    rw [hc, h3, Bool.true_and, Bool.and_eq_true, hall]
    simp [Spec.Shape.nonEmpty]

section
variable {T : Pt → Pt} (hT : ShapeSym T)
include hT

theorem convexFlag_map' (ext : List Pt) :
    (processPoints (ext.map T).toArray true).convex = (processPoints ext.toArray true).convex :=
  convexFlag_map hT ext

/-- the specification is invariant (convex receiver, argument with a well-formed rectangle) -/
theorem covers_convex_map (ext : List Pt) (hs : Spec.simpleRing ext = true)
    (hcv : (processPoints ext.toArray true).convex = true) (B : Spec.Shape)
    (himg : ShapeImg T B (B.mapPts T)) :
    Spec.covers (.poly (ext.map T) []) (B.mapPts T) = Spec.covers (.poly ext []) B := by
  have hs' : Spec.simpleRing (ext.map T) = true := by rw [simpleRing_map hT]; exact hs
  have hcv' : (processPoints (ext.map T).toArray true).convex = true := by
    rw [convexFlag_map' hT]; exact hcv
  have hmem : ∀ x, (Spec.Shape.poly (ext.map T) []).member (T x) = (Spec.Shape.poly ext []).member x :=
    fun x => member_map hT (.poly ext []) trivial x
  rw [Bool.eq_iff_iff, covers_convex_ends _ hs' hcv', covers_convex_ends _ hs hcv, himg.ne]
  refine and_congr_right (fun _ => ?_)
  constructor
  · intro h f hf
    rcases himg.edge_from f hf with he | he
    · have := h _ he
      simp only [hmem] at this
      exact this
    · have := h _ he
      simp only [hmem] at this
      exact ⟨this.2, this.1⟩
  · intro h e he
    obtain ⟨f, hf, rfl | rfl⟩ := himg.edge_to e he
    · simp only [hmem]; exact h f hf
    · simp only [hmem]; exact ⟨(h f hf).2, (h f hf).1⟩

/-- **`contains` with a convex receiver is invariant under `T`** -/
theorem geom_contains_map_convex (ext : List Pt) (B : Spec.Shape)
    (hA : (Spec.Shape.poly ext []).valid = true)
    (hcv : (processPoints ext.toArray true).convex = true) (hB : B.valid = true)
    (himg : ShapeImg T B (B.mapPts T)) :
    (build ((Spec.Shape.poly ext []).mapPts T)).contains (build (B.mapPts T)) =
      (build (.poly ext [])).contains (build B) := by
  have hs : Spec.simpleRing ext = true := by
    simp only [Spec.Shape.valid, Bool.and_eq_true] at hA
    exact hA.1.1.1
  have hs' : Spec.simpleRing (ext.map T) = true := by rw [simpleRing_map hT]; exact hs
  have hcv' : (processPoints (ext.map T).toArray true).convex = true := by
    rw [convexFlag_map' hT]; exact hcv
  have hB' := valid_map hT B hB
  show (build (.poly (ext.map T) [])).contains (build (B.mapPts T)) = _
  have e1 : (build (.poly (ext.map T) [])).contains (build (B.mapPts T)) =
      Spec.covers (.poly (ext.map T) []) (B.mapPts T) := by
    cases hBm : B.mapPts T with
    | point p => exact convex_contains_point _ hs' p
    | rect lo hi => exact convex_contains_rect _ hs' hcv' lo hi
    | line l => exact convex_contains_line _ hs' hcv' l
    | poly oext oholes => exact convex_contains_poly _ hs' hcv' oext oholes (by rw [← hBm]; exact hB')
  have e2 : (build (.poly ext [])).contains (build B) = Spec.covers (.poly ext []) B := by
    cases B with
    | point p => exact convex_contains_point _ hs p
    | rect lo hi => exact convex_contains_rect _ hs hcv lo hi
    | line l => exact convex_contains_line _ hs hcv l
    | poly oext oholes => exact convex_contains_poly _ hs hcv oext oholes hB
  rw [e1, e2, covers_convex_map hT ext hs hcv B himg]

end

theorem geom_contains_reflX_convex (ext : List Pt) (B : Spec.Shape)
    (hA : (Spec.Shape.poly ext []).valid = true)
    (hcv : (processPoints ext.toArray true).convex = true) (hB : B.valid = true) :
    (build ((Spec.Shape.poly ext []).mapPts Pt.reflX)).contains (build (B.mapPts Pt.reflX)) =
      (build (.poly ext [])).contains (build B) :=
  geom_contains_map_convex shapeSym_reflX ext B hA hcv hB
    (img_mapPts shapeSym_reflX img_rect_reflX B (rectOK_of_valid hB))

theorem geom_contains_reflY_convex (ext : List Pt) (B : Spec.Shape)
    (hA : (Spec.Shape.poly ext []).valid = true)
    (hcv : (processPoints ext.toArray true).convex = true) (hB : B.valid = true) :
    (build ((Spec.Shape.poly ext []).mapPts Pt.reflY)).contains (build (B.mapPts Pt.reflY)) =
      (build (.poly ext [])).contains (build B) :=
  geom_contains_map_convex shapeSym_reflY ext B hA hcv hB
    (img_mapPts shapeSym_reflY img_rect_reflY B (rectOK_of_valid hB))

theorem geom_contains_transpose_convex (ext : List Pt) (B : Spec.Shape)
    (hA : (Spec.Shape.poly ext []).valid = true)
    (hcv : (processPoints ext.toArray true).convex = true) (hB : B.valid = true) :
    (build ((Spec.Shape.poly ext []).mapPts Pt.transpose)).contains
        (build (B.mapPts Pt.transpose)) =
      (build (.poly ext [])).contains (build B) :=
  geom_contains_map_convex shapeSym_transpose ext B hA hcv hB
    (img_mapPts shapeSym_transpose img_rect_transpose B (rectOK_of_valid hB))

end CC
end Geo
