/-
  GeoProofs.ContainsConvex.Index — the two notions of simplicity: `Spec.simpleRing` (the
  executable validity check) implies `RingSimple` (edges meet only in shared end points), hence
  `Geom.contains` of VALID shapes does not depend on the index configuration.
-/
import GeoProofs.ContainsConvex.Simple
import GeoProofs.Props.C04Indep

namespace Geo
namespace CC
open GL Cvx

theorem ringSimple_of_simpleRing (pts : Array Pt) (hs : Spec.simpleRing pts.toList = true) :
    RingSimple pts := by
  obtain ⟨-, -, hE, hS⟩ := ring_data pts.toList hs
  have hE2 := edges_eq_map pts true
  rw [hE] at hE2
  have hlen : SeriesL.nptsL pts.toList = numSegmentsOf pts true := by
    have := congrArg List.length hE2
    simpa using this
  have hget : ∀ i, i < numSegmentsOf pts true →
      (segmentAtOf pts i).a = cyc pts.toList i ∧ (segmentAtOf pts i).b = cyc pts.toList (i+1) := by
    intro i hi
    have := congrArg (fun l => l[i]?) hE2
    simp only [List.getElem?_map, List.getElem?_range hi,
      List.getElem?_range (show i < SeriesL.nptsL pts.toList by omega), Option.map_some,
      Option.some.injEq, Prod.mk.injEq] at this
    exact ⟨this.1.symm, this.2.symm⟩
  intro p i j hi hj h1 h2
  by_cases hij : i = j
  · exact Or.inl hij
  · right
    obtain ⟨ia, ib⟩ := hget i hi
    obtain ⟨ja, jb⟩ := hget j hj
    have o1 : OnSeg (cyc pts.toList i) (cyc pts.toList (i+1)) p := by
      rw [← ia, ← ib]; exact (raycast_on_iff _ _ _).1 h1
    have o2 : OnSeg (cyc pts.toList j) (cyc pts.toList (j+1)) p := by
      rw [← ja, ← jb]; exact (raycast_on_iff _ _ _).1 h2
    obtain ⟨r1, r2⟩ := simple0_meet hS (by omega) (by omega) hij o1 o2
    rw [ia, ib, ja, jb]
    exact ⟨r1.imp Eq.symm Eq.symm, r2.imp Eq.symm Eq.symm⟩

/-- the specification shape of a geometry configuration -/
def shapeOf : GCfg → Spec.Shape
  | .point p => .point p
  | .rect r => .rect r.min r.max
  | .line c => .line c.pts.toList
  | .poly e hs => .poly e.pts.toList (hs.map (fun h => h.pts.toList))

theorem extSafe_of_valid (g : GCfg) (hv : (shapeOf g).valid = true) : g.ExtSafe := by
  cases g with
  | poly e hs =>
    simp only [shapeOf, Spec.Shape.valid, Bool.and_eq_true] at hv
    exact Or.inr (ringSimple_of_simpleRing e.pts hv.1.1.1)
  | _ => trivial

theorem holesSafe_of_valid (g : GCfg) (hv : (shapeOf g).valid = true) : g.HolesSafe := by
  cases g with
  | poly e hs =>
    simp only [shapeOf, Spec.Shape.valid, Bool.and_eq_true, List.all_eq_true] at hv
    intro h hh
    exact Or.inr (ringSimple_of_simpleRing h.pts
      (hv.1.1.2 _ (List.mem_map.2 ⟨h, hh, rfl⟩)))
  | _ => trivial

end CC
end Geo
