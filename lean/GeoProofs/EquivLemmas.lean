/-
  GeoProofs.EquivLemmas — helper lemmas for property C12 (invariance under re-encoding and
  lattice symmetries).

  The point maps `Pt.translate`, `Pt.scale`, `Pt.reflX`, `Pt.reflY`, `Pt.transpose` and the
  positive affine map `Pt.aff k d` (p ↦ k·p + d, 0 < k), of which translation (k = 1) and
  positive scaling (d = 0) are instances.  Everything is proved once for `Pt.aff`.

  PROVED here (namespace `Geo.EQ`):
  * every stage of `raycast`, hence `raycast` itself (the whole `RayRes`, decision site
    included), `segIntersectsS` (whole `BoolSite`), `Seg.collinearPt`, `Seg.containsSeg`,
    `Seg.box`, `Box.containsPt/containsBox/intersects`, `Box.area` (scaled by k²) commute with
    `Pt.aff k d`;
  * `OnSeg` and `SegsMeet` are invariant under `Pt.aff`, `reflX`, `reflY`, `transpose`;
  * `processPoints` commutes with `Pt.aff` (flags unchanged, rectangle mapped);
  * the un-indexed `Ring.search` is the early-exit fold over the brute-force filter, and the
    ring-level predicates of GeoModel.Geom commute with `Pt.aff` for un-indexed rings
    (relation `RingSim`).
  NOT proved: anything about `raycast.inn` under reflections / transposition (false in
  general: the ray direction changes), start-vertex rotation of rings.
-/
import GeoProofs.GeomLemmas
import Mathlib.Tactic.Linarith
import Mathlib.Tactic.Ring
import Mathlib.Tactic.FieldSimp
import Mathlib.Tactic.SplitIfs
import Mathlib.Tactic.Positivity
import Mathlib.Algebra.Order.Field.Rat

namespace Geo

def Pt.translate (p : Pt) (d : Pt) : Pt := ⟨p.x + d.x, p.y + d.y⟩
def Pt.scale (p : Pt) (k : Rat) : Pt := ⟨k * p.x, k * p.y⟩
def Pt.reflX (p : Pt) : Pt := ⟨-p.x, p.y⟩
def Pt.reflY (p : Pt) : Pt := ⟨p.x, -p.y⟩
def Pt.transpose (p : Pt) : Pt := ⟨p.y, p.x⟩
def Pt.aff (k : Rat) (d : Pt) (p : Pt) : Pt := ⟨k * p.x + d.x, k * p.y + d.y⟩

namespace EQ

theorem translate_eq_aff (p d : Pt) : p.translate d = Pt.aff 1 d p := by
  simp [Pt.translate, Pt.aff]
theorem scale_eq_aff (p : Pt) (k : Rat) : p.scale k = Pt.aff k ⟨0, 0⟩ p := by
  simp [Pt.scale, Pt.aff]

@[simp] theorem aff_x (k : Rat) (d p : Pt) : (Pt.aff k d p).x = k * p.x + d.x := rfl
@[simp] theorem aff_y (k : Rat) (d p : Pt) : (Pt.aff k d p).y = k * p.y + d.y := rfl

section
variable {k : Rat} (hk : 0 < k)
include hk

theorem aff_lt (x y c : Rat) : k * x + c < k * y + c ↔ x < y := by
  constructor <;> intro h <;> nlinarith
theorem aff_le (x y c : Rat) : k * x + c ≤ k * y + c ↔ x ≤ y := by
  constructor <;> intro h <;> nlinarith
theorem aff_eq (x y c : Rat) : k * x + c = k * y + c ↔ x = y := by
  constructor
  · intro h
    have : k * (x - y) = 0 := by linarith
    rcases mul_eq_zero.1 this with h | h
    · exact absurd h hk.ne'
    · linarith
  · intro h; rw [h]
omit hk in
theorem aff_sub (x y c : Rat) : k * x + c - (k * y + c) = k * (x - y) := by ring

theorem aff_inj (d p q : Pt) : Pt.aff k d p = Pt.aff k d q ↔ p = q := by
  rw [K.pt_eq_iff, K.pt_eq_iff]
  simp only [aff_x, aff_y, aff_eq hk]

theorem smul_lt (x y : Rat) : k * x < k * y ↔ x < y := by
  constructor <;> intro h <;> nlinarith
theorem smul_le (x y : Rat) : k * x ≤ k * y ↔ x ≤ y := by
  constructor <;> intro h <;> nlinarith
theorem smul_pos_iff (x : Rat) : 0 < k * x ↔ 0 < x := by
  constructor <;> intro h <;> nlinarith
theorem smul_le_zero (x : Rat) : k * x ≤ 0 ↔ x ≤ 0 := by
  constructor <;> intro h <;> nlinarith
theorem smul_eq_zero (x : Rat) : k * x = 0 ↔ x = 0 := by
  rw [mul_eq_zero]; exact ⟨fun h => h.resolve_left hk.ne', Or.inr⟩

theorem fdiv_scale (n m : Rat) : fdiv (k * n) (k * m) = fdiv n m := by
  unfold fdiv
  simp only [smul_eq_zero hk, smul_pos_iff hk]
  rw [mul_div_mul_left _ _ hk.ne']

theorem rcRange_aff (d a b p : Pt) :
    rcRange (Pt.aff k d a) (Pt.aff k d b) (Pt.aff k d p) = rcRange a b p := by
  simp only [rcRange, aff_y, aff_lt hk, gt_iff_lt]

theorem rcHoriz_aff (d a b p : Pt) :
    rcHoriz (Pt.aff k d a) (Pt.aff k d b) (Pt.aff k d p) = rcHoriz a b p := by
  simp only [rcHoriz, aff_x, aff_y, aff_lt hk, aff_le hk, aff_eq hk, aff_inj hk, ge_iff_le]

theorem rcVert_aff (d a b p : Pt) :
    rcVert (Pt.aff k d a) (Pt.aff k d b) (Pt.aff k d p) = rcVert a b p := by
  simp only [rcVert, aff_x, aff_y, aff_lt hk, aff_le hk, aff_eq hk, ge_iff_le]

theorem rcSlopeEq_aff (d a b p : Pt) :
    rcSlopeEq (Pt.aff k d a) (Pt.aff k d b) (Pt.aff k d p) = rcSlopeEq a b p := by
  simp only [rcSlopeEq, aff_x, aff_y, aff_sub, fdiv_scale hk]

theorem rcCast_aff (d a b p : Pt) :
    rcCast (Pt.aff k d a) (Pt.aff k d b) (Pt.aff k d p) = rcCast a b p := by
  simp only [rcCast, aff_x, aff_y, aff_lt hk, aff_le hk, aff_eq hk, aff_sub, fdiv_scale hk,
    ge_iff_le, gt_iff_lt]

theorem raycast_aff (d a b p : Pt) :
    raycast (Pt.aff k d a) (Pt.aff k d b) (Pt.aff k d p) = raycast a b p := by
  unfold raycast
  rw [rcRange_aff hk, rcHoriz_aff hk, rcVert_aff hk, rcSlopeEq_aff hk, rcCast_aff hk]

theorem axisReject_aff (a b c e d : Rat) :
    axisReject (k * a + d) (k * b + d) (k * c + d) (k * e + d) = axisReject a b c e := by
  simp only [axisReject, aff_lt hk, gt_iff_lt]

omit hk in
theorem cross2_aff (u v w z : Rat) :
    k * u * (k * v) - k * w * (k * z) = (k * k) * (u * v - w * z) := by ring

theorem segIntersectsS_aff (d : Pt) (s o : Seg) :
    segIntersectsS ⟨Pt.aff k d s.a, Pt.aff k d s.b⟩ ⟨Pt.aff k d o.a, Pt.aff k d o.b⟩
      = segIntersectsS s o := by
  have hkk : 0 < k * k := mul_pos hk hk
  simp only [segIntersectsS, Seg.raycast, aff_x, aff_y, axisReject_aff hk, aff_inj hk, cross2_aff,
    smul_eq_zero hkk, raycast_aff hk, aff_sub, smul_le_zero hk, mul_div_mul_left _ _ hkk.ne',
    ge_iff_le]

theorem collinearPt_aff (d : Pt) (s : Seg) (p : Pt) :
    Seg.collinearPt ⟨Pt.aff k d s.a, Pt.aff k d s.b⟩ (Pt.aff k d p) = s.collinearPt p := by
  have hkk : 0 < k * k := mul_pos hk hk
  simp only [Seg.collinearPt, aff_x, aff_y, aff_sub, cross2_aff, smul_eq_zero hkk]

theorem containsSeg_aff (d : Pt) (s o : Seg) :
    Seg.containsSeg ⟨Pt.aff k d s.a, Pt.aff k d s.b⟩ ⟨Pt.aff k d o.a, Pt.aff k d o.b⟩
      = s.containsSeg o := by
  simp only [Seg.containsSeg, Seg.raycast, raycast_aff hk]

/-! ### `OnSeg`, `SegsMeet` under the positive affine map -/

theorem onSeg_aff (d a b p : Pt) :
    OnSeg (Pt.aff k d a) (Pt.aff k d b) (Pt.aff k d p) ↔ OnSeg a b p := by
  rw [← raycast_on_iff, ← raycast_on_iff, raycast_aff hk]

theorem segsMeet_aff (d a b c e : Pt) :
    SegsMeet (Pt.aff k d a) (Pt.aff k d b) (Pt.aff k d c) (Pt.aff k d e) ↔ SegsMeet a b c e := by
  have h := segIntersectsS_aff hk d ⟨a, b⟩ ⟨c, e⟩
  have h1 := segIntersects_iff ⟨Pt.aff k d a, Pt.aff k d b⟩ ⟨Pt.aff k d c, Pt.aff k d e⟩
  have h2 := segIntersects_iff ⟨a, b⟩ ⟨c, e⟩
  unfold Seg.intersects at h1 h2
  simp only at h h1 h2
  rw [← h1, ← h2, h]

/-! ### boxes -/

theorem segBox_aff (d : Pt) (s : Seg) :
    Seg.box ⟨Pt.aff k d s.a, Pt.aff k d s.b⟩ = ⟨Pt.aff k d s.box.min, Pt.aff k d s.box.max⟩ := by
  unfold Seg.box Pt.aff
  simp only [gt_iff_lt, aff_lt hk]
  split_ifs <;> rfl

theorem containsPt_aff (d : Pt) (r : Box) (p : Pt) :
    Box.containsPt ⟨Pt.aff k d r.min, Pt.aff k d r.max⟩ (Pt.aff k d p) = r.containsPt p := by
  simp only [Box.containsPt, aff_x, aff_y, ge_iff_le, aff_le hk]

theorem containsBox_aff (d : Pt) (r o : Box) :
    Box.containsBox ⟨Pt.aff k d r.min, Pt.aff k d r.max⟩ ⟨Pt.aff k d o.min, Pt.aff k d o.max⟩
      = r.containsBox o := by
  simp only [Box.containsBox, aff_x, aff_y, gt_iff_lt, aff_lt hk]

theorem intersects_aff (d : Pt) (r o : Box) :
    Box.intersects ⟨Pt.aff k d r.min, Pt.aff k d r.max⟩ ⟨Pt.aff k d o.min, Pt.aff k d o.max⟩
      = r.intersects o := by
  simp only [Box.intersects, aff_x, aff_y, gt_iff_lt, aff_lt hk]

omit hk in
theorem area_aff (d : Pt) (r : Box) :
    Box.area ⟨Pt.aff k d r.min, Pt.aff k d r.max⟩ = (k * k) * r.area := by
  simp only [Box.area, aff_x, aff_y]; ring

theorem area_gt_aff (d : Pt) (r o : Box) :
    (Box.area ⟨Pt.aff k d o.min, Pt.aff k d o.max⟩ > Box.area ⟨Pt.aff k d r.min, Pt.aff k d r.max⟩)
      ↔ (o.area > r.area) := by
  rw [area_aff, area_aff, gt_iff_lt, gt_iff_lt, smul_lt (mul_pos hk hk)]

end

/-! ### reflections and transposition: `OnSeg`, `SegsMeet` -/

@[simp] theorem reflX_reflX (p : Pt) : p.reflX.reflX = p := by simp [Pt.reflX]
@[simp] theorem reflY_reflY (p : Pt) : p.reflY.reflY = p := by simp [Pt.reflY]
@[simp] theorem transpose_transpose (p : Pt) : p.transpose.transpose = p := by simp [Pt.transpose]

theorem onSeg_reflX (a b p : Pt) : OnSeg a.reflX b.reflX p.reflX ↔ OnSeg a b p := by
  rw [onSeg_iff_param, onSeg_iff_param]
  simp only [Pt.reflX]
  constructor <;> rintro ⟨t, h0, h1, hx, hy⟩ <;> exact ⟨t, h0, h1, by linarith, by linarith⟩

theorem onSeg_reflY (a b p : Pt) : OnSeg a.reflY b.reflY p.reflY ↔ OnSeg a b p := by
  rw [onSeg_iff_param, onSeg_iff_param]
  simp only [Pt.reflY]
  constructor <;> rintro ⟨t, h0, h1, hx, hy⟩ <;> exact ⟨t, h0, h1, by linarith, by linarith⟩

theorem onSeg_transpose (a b p : Pt) : OnSeg a.transpose b.transpose p.transpose ↔ OnSeg a b p := by
  rw [onSeg_iff_param, onSeg_iff_param]
  simp only [Pt.transpose]
  constructor <;> rintro ⟨t, h0, h1, hx, hy⟩ <;> exact ⟨t, h0, h1, hy, hx⟩

theorem segsMeet_of_invol (T : Pt → Pt) (hT : ∀ p, T (T p) = p)
    (hon : ∀ a b p, OnSeg (T a) (T b) (T p) ↔ OnSeg a b p) (a b c d : Pt) :
    SegsMeet (T a) (T b) (T c) (T d) ↔ SegsMeet a b c d := by
  constructor
  · rintro ⟨p, h1, h2⟩
    refine ⟨T p, ?_, ?_⟩
    · rw [← hon, hT]; exact h1
    · rw [← hon, hT]; exact h2
  · rintro ⟨p, h1, h2⟩
    exact ⟨T p, (hon _ _ _).2 h1, (hon _ _ _).2 h2⟩

theorem segsMeet_reflX (a b c d : Pt) :
    SegsMeet a.reflX b.reflX c.reflX d.reflX ↔ SegsMeet a b c d :=
  segsMeet_of_invol Pt.reflX reflX_reflX onSeg_reflX a b c d
theorem segsMeet_reflY (a b c d : Pt) :
    SegsMeet a.reflY b.reflY c.reflY d.reflY ↔ SegsMeet a b c d :=
  segsMeet_of_invol Pt.reflY reflY_reflY onSeg_reflY a b c d
theorem segsMeet_transpose (a b c d : Pt) :
    SegsMeet a.transpose b.transpose c.transpose d.transpose ↔ SegsMeet a b c d :=
  segsMeet_of_invol Pt.transpose transpose_transpose onSeg_transpose a b c d

/-! ### `processPoints` -/

open SeriesL GL

def Box.aff (k : Rat) (d : Pt) (b : Box) : Box := ⟨Pt.aff k d b.min, Pt.aff k d b.max⟩

section
variable {k : Rat} (hk : 0 < k)
include hk

theorem min_aff (x y c : Rat) : min (k * x + c) (k * y + c) = k * min x y + c := by
  rcases le_total x y with h | h
  · rw [min_eq_left h, min_eq_left ((aff_le hk _ _ _).2 h)]
  · rw [min_eq_right h, min_eq_right ((aff_le hk _ _ _).2 h)]
theorem max_aff (x y c : Rat) : max (k * x + c) (k * y + c) = k * max x y + c := by
  rcases le_total x y with h | h
  · rw [max_eq_right h, max_eq_right ((aff_le hk _ _ _).2 h)]
  · rw [max_eq_left h, max_eq_left ((aff_le hk _ _ _).2 h)]

theorem bboxSpec_aff (d : Pt) (l : List Pt) :
    Driver.bboxSpec (l.map (Pt.aff k d)) = (Driver.bboxSpec l).map (Box.aff k d) := by
  cases l with
  | nil => rfl
  | cons p rest =>
    simp only [List.map_cons, Driver.bboxSpec, Option.map_some]
    congr 1
    have : ∀ (l : List Pt) (b : Box),
        (l.map (Pt.aff k d)).foldl (fun (b : Box) q =>
          (⟨⟨min b.min.x q.x, min b.min.y q.y⟩, ⟨max b.max.x q.x, max b.max.y q.y⟩⟩ : Box)) (Box.aff k d b)
        = Box.aff k d (l.foldl (fun (b : Box) q =>
          (⟨⟨min b.min.x q.x, min b.min.y q.y⟩, ⟨max b.max.x q.x, max b.max.y q.y⟩⟩ : Box)) b) := by
      intro l
      induction l with
      | nil => intro b; rfl
      | cons q l ih =>
        intro b
        simp only [List.map_cons, List.foldl_cons]
        rw [← ih]
        congr 1
        simp only [Box.aff, min_aff hk, max_aff hk, Pt.aff]
    exact this rest ⟨p, p⟩

theorem aff_beq (d p q : Pt) : (Pt.aff k d p == Pt.aff k d q) = (p == q) := by
  rw [Bool.eq_iff_iff, beq_iff_eq, beq_iff_eq, aff_inj hk]

omit hk in
theorem getElem!_map_aff (d : Pt) (pts : Array Pt) (j : Nat) (hj : j < pts.size) :
    (pts.map (Pt.aff k d))[j]! = Pt.aff k d pts[j]! := by
  rw [getElem!_pos _ j (by simpa using hj), getElem!_pos _ j hj, Array.getElem_map]

theorem convStep_scale (dc : Int × Bool) (z : Rat) : convStep dc (k * k * z) = convStep dc z := by
  have hkk : 0 < k * k := mul_pos hk hk
  have h1 : k * k * z < 0 ↔ z < 0 := by
    constructor <;> intro h <;> nlinarith
  unfold convStep
  simp only [h1, gt_iff_lt, smul_pos_iff hkk]

omit hk in
theorem turn_aff (d a b c : Pt) :
    turn (Pt.aff k d a) (Pt.aff k d b) (Pt.aff k d c) = k * k * turn a b c := by
  unfold turn; simp only [aff_x, aff_y]; ring

omit hk in
theorem shoe_aff (d a b : Pt) :
    shoe (Pt.aff k d a) (Pt.aff k d b) = k * k * shoe a b + 2 * d.y * k * (b.x - a.x) := by
  unfold shoe; simp only [aff_x, aff_y]; ring

omit hk in
theorem sum_map_sub' {α : Type} (f g : α → Rat) (l : List α) :
    (l.map (fun i => f i - g i)).sum = (l.map f).sum - (l.map g).sum := by
  induction l with
  | nil => simp
  | cons x l ih => simp only [List.map_cons, List.sum_cons, ih]; ring

omit hk in
theorem sum_map_mul_left' {α : Type} (c : Rat) (f : α → Rat) (l : List α) :
    (l.map (fun i => c * f i)).sum = c * (l.map f).sum := by
  induction l with
  | nil => simp
  | cons x l ih => simp only [List.map_cons, List.sum_cons, ih]; ring

omit hk in
theorem cyc_diff_zero (f : Nat → Rat) (n : Nat) :
    ((List.range n).map (fun i => f ((i + 1) % n) - f i)).sum = 0 := by
  have h := sum_range_shift f n 1
  rw [sum_map_sub']
  linarith

theorem processPoints_aff (d : Pt) (pts : Array Pt) (closed : Bool)
    (hne : ¬ ((closed && pts.size < 3) || pts.size < 2)) :
    processPoints (pts.map (Pt.aff k d)) closed =
      ⟨(processPoints pts closed).convex, Box.aff k d (processPoints pts closed).rect,
        (processPoints pts closed).clockwise⟩ := by
  have hne' : ¬ ((closed && (pts.map (Pt.aff k d)).size < 3) || (pts.map (Pt.aff k d)).size < 2) := by
    simpa using hne
  have hrect : (processPoints (pts.map (Pt.aff k d)) closed).rect
      = Box.aff k d (processPoints pts closed).rect := by
    have h1 := rect_tight _ closed hne'
    have h2 := rect_tight pts closed hne
    rw [Array.toList_map, bboxSpec_aff hk, ← h2] at h1
    simpa using h1
  have hsz : 2 ≤ pts.size ∧ (closed = true → 3 ≤ pts.size) := by
    cases closed <;> simp at hne <;> simp <;> omega
  -- the number of effective vertices is the same
  have hnp : (if closed && (pts.map (Pt.aff k d))[(pts.map (Pt.aff k d)).size - 1]! == (pts.map (Pt.aff k d))[0]!
        then (pts.map (Pt.aff k d)).size - 1 else (pts.map (Pt.aff k d)).size)
      = (if closed && pts[pts.size - 1]! == pts[0]! then pts.size - 1 else pts.size) := by
    simp only [Array.size_map]
    rw [getElem!_map_aff d pts _ (by omega), getElem!_map_aff d pts 0 (by omega), aff_beq hk]
  generalize hn : (if closed && pts[pts.size - 1]! == pts[0]! then pts.size - 1 else pts.size) = n at hnp
  have hn2 : 2 ≤ n ∧ n ≤ pts.size := by
    rw [← hn]; split_ifs with hc
    · simp only [Bool.and_eq_true] at hc
      have := hsz.2 hc.1; omega
    · omega
  have hP : ∀ j, j < n → (fun j => (pts.map (Pt.aff k d))[j]!) j = Pt.aff k d ((fun j => pts[j]!) j) :=
    fun j hj => getElem!_map_aff d pts j (by omega)
  have hmod : ∀ j, j % n < n := fun j => Nat.mod_lt _ (by omega)
  have hconv : (processPoints (pts.map (Pt.aff k d)) closed).convex = (processPoints pts closed).convex
      ∧ (processPoints (pts.map (Pt.aff k d)) closed).clockwise = (processPoints pts closed).clockwise := by
    unfold processPoints
    rw [if_neg hne, if_neg hne']
    simp only [hnp, hn]
    rw [foldl_procStep _ n hn2.1 _ (fun i hi => List.mem_range.1 hi),
      foldl_procStep _ n hn2.1 _ (fun i hi => List.mem_range.1 hi)]
    simp only
    constructor
    · congr 2
      apply List.foldl_ext
      intro dc i hi
      have hi := List.mem_range.1 hi
      unfold turnAt
      rw [hP i hi, hP _ (hmod _), hP _ (hmod _), turn_aff, convStep_scale hk]
    · rw [foldl_add_eq_sum, foldl_add_eq_sum, zero_add, zero_add]
      have e : (List.range n).map (shoeAt (fun j => (pts.map (Pt.aff k d))[j]!) n)
          = (List.range n).map (fun i => k * k * shoeAt (fun j => pts[j]!) n i +
              2 * d.y * k * ((fun j => (pts[j]!).x) ((i + 1) % n) - (fun j => (pts[j]!).x) i)) := by
        apply List.map_congr_left
        intro i hi
        have hi := List.mem_range.1 hi
        unfold shoeAt
        rw [hP i hi, hP _ (hmod _), shoe_aff]
      rw [e, List.sum_map_add, sum_map_mul_left', sum_map_mul_left',
        cyc_diff_zero (fun j => (pts[j]!).x) n]
      have hkk : 0 < k * k := mul_pos hk hk
      simp only [mul_zero, add_zero, gt_iff_lt, smul_pos_iff hkk]
  rcases hpp : processPoints (pts.map (Pt.aff k d)) closed with ⟨c, r, w⟩
  rw [hpp] at hconv hrect
  simp only at hconv hrect
  rw [hconv.1, hconv.2, hrect]

omit hk in
theorem processPoints_aff_empty (d : Pt) (pts : Array Pt) (closed : Bool)
    (he : ((closed && pts.size < 3) || pts.size < 2) = true) :
    processPoints (pts.map (Pt.aff k d)) closed = processPoints pts closed := by
  unfold processPoints
  rw [if_pos he, if_pos (by simpa using he)]

end

/-! ### spec-level flags under injective point maps that negate / scale the cross products -/

theorem edges_map (T : Pt → Pt) (hT : Function.Injective T) (l : List Pt) (closed : Bool) :
    Spec.edges (l.map T) closed = (Spec.edges l closed).map (Prod.map T T) := by
  unfold Spec.edges
  have hz : (l.map T).zip (l.map T).tail = (l.zip l.tail).map (Prod.map T T) := by
    rw [← List.map_tail, List.zip_map]
  simp only [hz, List.length_map, List.head?_map, List.getLast?_map]
  cases closed
  · simp
  · simp only [if_true]
    split_ifs with h
    · rfl
    · cases h1 : l.head? <;> cases h2 : l.getLast? <;> simp [hT.eq_iff]
      split_ifs <;> simp

theorem dropClosing_map (T : Pt → Pt) (hT : Function.Injective T) (l : List Pt) :
    Driver.dropClosing (l.map T) = (Driver.dropClosing l).map T := by
  unfold Driver.dropClosing
  simp only [List.head?_map, List.getLast?_map, List.length_map]
  cases h1 : l.head? <;> cases h2 : l.getLast? <;> simp [hT.eq_iff]
  split_ifs <;> simp [List.map_dropLast]

/-- a point map multiplying every turn (cross product of consecutive edge vectors) by `c` -/
theorem turnsOf_map (T : Pt → Pt) (hT : Function.Injective T) (c : Rat)
    (hc : ∀ a b e : Pt, turn (T a) (T b) (T e) = c * turn a b e) (l : List Pt) :
    Driver.turnsOf (l.map T) = (Driver.turnsOf l).map (fun z => c * z) := by
  unfold Driver.turnsOf
  simp only [dropClosing_map T hT, List.size_toArray, List.length_map, List.map_map]
  apply List.map_congr_left
  intro i hi
  have hi := List.mem_range.1 hi
  have hn : 0 < (Driver.dropClosing l).length := by omega
  have hm : ∀ j, j % (Driver.dropClosing l).length < (Driver.dropClosing l).length :=
    fun j => Nat.mod_lt _ hn
  have hg : ∀ j, j < (Driver.dropClosing l).length →
      ((Driver.dropClosing l).map T).toArray[j]! = T (Driver.dropClosing l).toArray[j]! := by
    intro j hj
    simp [hj]
  simp only [Function.comp]
  rw [hg i hi, hg _ (hm _), hg _ (hm _)]
  exact hc _ _ _

theorem area2_map (T : Pt → Pt) (hT : Function.Injective T) (c : Rat)
    (hc : ∀ a b : Pt, (T a).x * (T b).y - (T b).x * (T a).y = c * (a.x * b.y - b.x * a.y))
    (l : List Pt) :
    Spec.area2 (l.map T) = c * Spec.area2 l := by
  unfold Spec.area2
  rw [edges_map T hT, List.foldl_map, foldl_add_eq_sum, foldl_add_eq_sum, zero_add, zero_add,
    ← sum_map_mul_left']
  congr 1
  apply List.map_congr_left
  intro e _
  simp only [Prod.map]
  rw [hc]


theorem reflX_inj : Function.Injective Pt.reflX := fun p q h => by
  have := congrArg Pt.reflX h; simpa using this
theorem reflY_inj : Function.Injective Pt.reflY := fun p q h => by
  have := congrArg Pt.reflY h; simpa using this
theorem transpose_inj : Function.Injective Pt.transpose := fun p q h => by
  have := congrArg Pt.transpose h; simpa using this

/-- a map that negates every turn leaves the convexity specification unchanged -/
theorem convexSpec_of_neg (T : Pt → Pt) (hT : Function.Injective T)
    (hc : ∀ a b e : Pt, turn (T a) (T b) (T e) = (-1) * turn a b e) (l : List Pt) :
    Driver.convexSpec (l.map T) = Driver.convexSpec l := by
  unfold Driver.convexSpec
  simp only [turnsOf_map T hT (-1) hc, List.any_map, Function.comp_def, neg_mul, one_mul,
    gt_iff_lt, Left.neg_pos_iff, Left.neg_neg_iff]
  rw [Bool.and_comm]

/-- a map that negates the signed area turns "clockwise" into "counter-clockwise" -/
theorem clockwiseSpec_of_neg (T : Pt → Pt) (hT : Function.Injective T)
    (hc : ∀ a b : Pt, (T a).x * (T b).y - (T b).x * (T a).y = (-1) * (a.x * b.y - b.x * a.y))
    (l : List Pt) :
    Driver.clockwiseSpec (l.map T) = decide (Spec.area2 l > 0) := by
  rw [clockwiseSpec_iff_area, area2_map T hT (-1) hc]
  simp only [neg_mul, one_mul, Left.neg_neg_iff, gt_iff_lt]

/-! ### un-indexed rings related by the affine map -/

def Seg.aff (k : Rat) (d : Pt) (s : Seg) : Seg := ⟨Pt.aff k d s.a, Pt.aff k d s.b⟩

theorem foldUntil_congr {σ β : Type} (F G : σ → β → σ × Bool) (l : List β)
    (h : ∀ i ∈ l, ∀ st, F st i = G st i) (st : σ) : foldUntil F st l = foldUntil G st l := by
  induction l generalizing st with
  | nil => rfl
  | cons i l ih =>
    simp only [foldUntil, h i (by simp) st]
    rcases G st i with ⟨s', c⟩
    cases c
    · rfl
    · exact ih (fun j hj => h j (by simp [hj])) _

theorem foldUntil_inv {σ β : Type} (P : σ → Prop) (F : σ → β → σ × Bool) (l : List β)
    (h : ∀ i ∈ l, ∀ st, P st → P (F st i).1) (st : σ) (h0 : P st) : P (foldUntil F st l).1 := by
  induction l generalizing st with
  | nil => exact h0
  | cons i l ih =>
    simp only [foldUntil]
    have h1 := h i (by simp) st h0
    rcases hF : F st i with ⟨s', c⟩
    rw [hF] at h1
    cases c
    · exact h1
    · exact ih (fun j hj => h j (by simp [hj])) _ h1

/-- `r'` is the image of the un-indexed ring `r` under `p ↦ k·p + d` -/
structure RingSim (k : Rat) (d : Pt) (r r' : Ring) : Prop where
  un : Unindexed r
  un' : Unindexed r'
  empty : r'.empty = r.empty
  nseg : r'.numSegments = r.numSegments
  npts : r'.numPoints = r.numPoints
  seg : ∀ i, i < r.numSegments → r'.segmentAt i = Seg.aff k d (r.segmentAt i)
  pt : ∀ i, i < r.numPoints → r'.pointAt i = Pt.aff k d (r.pointAt i)
  convex : r'.convex = r.convex
  clockwise : r'.clockwise = r.clockwise
  rect : r.empty = false → r'.rect = Box.aff k d r.rect
  nseg0 : r.empty = true → r.numSegments = 0
  inside : ∀ p, r.rect.containsPt p = true → ∀ i, i < r.numSegments →
    r.rect.containsPt (r.segmentAt i).a = true ∧ r.rect.containsPt (r.segmentAt i).b = true

/-- when the segment's ends are in the ring rectangle, the strip test only looks at y -/
theorem strip_intersects (r : Ring) (p : Pt) (s : Seg) (ha : r.rect.containsPt s.a = true)
    (hb : r.rect.containsPt s.b = true) :
    s.box.intersects (stripBox r p) = (decide (s.box.min.y ≤ p.y) && decide (p.y ≤ s.box.max.y)) := by
  rw [containsPt_iff] at ha hb
  obtain ⟨a1, a2, -, -⟩ := ha
  obtain ⟨b1, b2, -, -⟩ := hb
  rw [Bool.eq_iff_iff, intersects_iff, Bool.and_eq_true, decide_eq_true_eq, decide_eq_true_eq,
    segBox_tight]
  simp only [stripBox]
  constructor
  · rintro ⟨h1, h2, -, -⟩; exact ⟨h1, h2⟩
  · rintro ⟨h1, h2⟩
    refine ⟨h1, h2, ?_, ?_⟩
    · have : min s.a.x s.b.x ≤ r.rect.max.x := le_trans (min_le_left _ _) a2
      have := le_max_left r.rect.max.x p.x
      linarith
    · have : r.rect.min.x ≤ max s.a.x s.b.x := le_trans a1 (le_max_left _ _)
      have := min_le_left r.rect.min.x p.x
      linarith

section
variable {k : Rat} (hk : 0 < k)
include hk

theorem segBox_aff' (d : Pt) (s : Seg) : (Seg.aff k d s).box = Box.aff k d s.box :=
  segBox_aff hk d s

theorem ringContainsPoint_sim {d : Pt} {r r' : Ring} (h : RingSim k d r r') (p : Pt) (b : Bool) :
    ringContainsPoint r' (Pt.aff k d p) b = ringContainsPoint r p b := by
  cases he : r.empty with
  | true =>
    -- no segment on either side: the fold returns its initial state
    have hn := h.nseg0 he
    have hn' : r'.numSegments = 0 := by rw [h.nseg, hn]
    unfold ringContainsPoint
    rw [ring_search_eq r h.un, ring_search_eq r' h.un']
    simp only [visit, hn, hn', List.range_zero, List.filter_nil, foldUntil]
    split_ifs <;> rfl
  | false =>
    have hr := h.rect he
    unfold ringContainsPoint
    rw [hr]
    have hc : (Box.aff k d r.rect).containsPt (Pt.aff k d p) = r.rect.containsPt p :=
      containsPt_aff hk d r.rect p
    rw [hc]
    by_cases hin : r.rect.containsPt p = true
    · simp only [hin, Bool.not_true, Bool.false_eq_true, if_false]
      rw [ring_search_eq r h.un, ring_search_eq r' h.un']
      have hv : visit r'.numSegments r'.segmentAt (stripBox r' (Pt.aff k d p))
          = visit r.numSegments r.segmentAt (stripBox r p) := by
        unfold visit
        rw [h.nseg]
        apply List.filter_congr
        intro i hi
        have hi := List.mem_range.1 hi
        obtain ⟨ia, ib⟩ := h.inside p hin i hi
        rw [strip_intersects r p _ ia ib, h.seg i hi, strip_intersects r' (Pt.aff k d p)]
        · rw [segBox_aff' hk]
          simp only [Box.aff, aff_y, aff_le hk]
        · rw [hr]; exact (containsPt_aff hk d r.rect _).trans ia
        · rw [hr]; exact (containsPt_aff hk d r.rect _).trans ib
      rw [hv]
      rw [foldUntil_congr _ (fun (st : Bool × Option Nat) i =>
        (fun (st : Bool × Option Nat) (seg : Seg) (index : Nat) =>
          let res := seg.raycast p
          if res.on then ((b, some index), false)
          else if res.inn then ((!st.1, st.2), true)
          else (st, true)) st (r.segmentAt i) i)]
      intro i hi st
      have hi := (mem_visit.1 hi).1
      simp only [h.seg i hi, Seg.raycast, Seg.aff, raycast_aff hk]
      rfl
    · simp only [hin, Bool.not_false, if_true]


theorem numSegmentsOf_aff (d : Pt) (pts : Array Pt) (closed : Bool) :
    numSegmentsOf (pts.map (Pt.aff k d)) closed = numSegmentsOf pts closed := by
  unfold numSegmentsOf
  simp only [Array.size_map]
  split_ifs with h1 h2 h3 h4 h5 h6 <;> try rfl
  all_goals
    first
      | omega
      | (exfalso
         rw [getElem!_map_aff d pts _ (by omega), getElem!_map_aff d pts 0 (by omega), aff_beq hk] at *
         simp_all)

omit hk in
theorem segmentAtOf_aff (d : Pt) (pts : Array Pt) (closed : Bool) (i : Nat)
    (hi : i < numSegmentsOf pts closed) :
    segmentAtOf (pts.map (Pt.aff k d)) i = Seg.aff k d (segmentAtOf pts i) := by
  have hle := numSegmentsOf_le pts closed
  unfold segmentAtOf Seg.aff
  simp only [Array.size_map]
  rw [getElem!_map_aff d pts i (by omega)]
  split_ifs with h
  · rw [getElem!_map_aff d pts 0 (by omega)]
  · have : i ≠ pts.size - 1 := by simpa using h
    rw [getElem!_map_aff d pts (i+1) (by omega)]

theorem ringSim_mk (d : Pt) (pts : Array Pt) (closed : Bool) :
    RingSim k d (.ser (mkSeries pts closed .none 0))
      (.ser (mkSeries (pts.map (Pt.aff k d)) closed .none 0)) := by
  have hpl := mkSeries_plain pts closed 0
  have hpl' := mkSeries_plain (pts.map (Pt.aff k d)) closed 0
  have hflags : (processPoints (pts.map (Pt.aff k d)) closed).convex = (processPoints pts closed).convex ∧
      (processPoints (pts.map (Pt.aff k d)) closed).clockwise = (processPoints pts closed).clockwise := by
    by_cases he : ((closed && pts.size < 3) || pts.size < 2) = true
    · rw [processPoints_aff_empty d pts closed he]; exact ⟨rfl, rfl⟩
    · rw [processPoints_aff hk d pts closed he]; exact ⟨rfl, rfl⟩
  refine
    { un := hpl.1, un' := hpl'.1, empty := ?_, nseg := ?_, npts := ?_, seg := ?_, pt := ?_,
      convex := hflags.1, clockwise := hflags.2, rect := ?_, nseg0 := ?_, inside := ?_ }
  · show Series.empty _ = Series.empty _
    simp [Series.empty, mkSeries]
  · exact numSegmentsOf_aff hk d pts closed
  · show (pts.map _).size = pts.size
    simp
  · intro i hi
    exact segmentAtOf_aff d pts closed i hi
  · intro i hi
    exact getElem!_map_aff d pts i hi
  · intro he
    show (processPoints (pts.map (Pt.aff k d)) closed).rect = Box.aff k d (processPoints pts closed).rect
    rw [processPoints_aff hk d pts closed (by
      have : (mkSeries pts closed .none 0).empty = false := he
      unfold Series.empty mkSeries at this
      simpa using this)]
  · intro he
    exact (numSegments_eq_zero_iff _).2 he
  · intro p _ i hi
    exact segEnds_in_rect _ hpl i hi

omit hk in
theorem ringSim_bx (d : Pt) (b : Box) : RingSim k d (.bx b) (.bx (Box.aff k d b)) := by
  refine
    { un := trivial, un' := trivial, empty := rfl, nseg := rfl, npts := rfl, seg := ?_, pt := ?_,
      convex := rfl, clockwise := rfl, rect := fun _ => rfl, nseg0 := ?_, inside := ?_ }
  · intro i hi
    have hi : i < 4 := hi
    rcases i with _ | _ | _ | _ | i
    · rfl
    · rfl
    · rfl
    · rfl
    · omega
  · intro i hi
    have hi : i < 5 := hi
    rcases i with _ | _ | _ | _ | _ | i
    · rfl
    · rfl
    · rfl
    · rfl
    · rfl
    · omega
  · intro he; cases he
  · intro p hp i hi
    have hi : i < 4 := hi
    simp only [Ring.rect, Ring.segmentAt] at hp ⊢
    rw [containsPt_iff] at hp
    obtain ⟨a1, a2, a3, a4⟩ := hp
    have hx : b.min.x ≤ b.max.x := le_trans a1 a2
    have hy : b.min.y ≤ b.max.y := le_trans a3 a4
    rcases i with _ | _ | _ | _ | i
    all_goals first | omega | (simp only [Box.segmentAt, containsPt_iff, le_refl, and_self, hx, hy])

end

/-! ### ring × segment -/

theorem rcp_nosegs (r : Ring) (hun : Unindexed r) (hn : r.numSegments = 0) (p : Pt) (b : Bool) :
    ringContainsPoint r p b = ⟨false, none⟩ := by
  unfold ringContainsPoint
  rw [ring_search_eq r hun]
  simp only [visit, hn, List.range_zero, List.filter_nil, foldUntil]
  split_ifs <;> rfl

theorem rcp_idx_lt (r : Ring) (hun : Unindexed r) (p : Pt) (b : Bool) (i : Nat)
    (h : (ringContainsPoint r p b).idx = some i) : i < r.numSegments := by
  unfold ringContainsPoint at h
  by_cases hc : (!r.rect.containsPt p) = true
  · rw [if_pos hc] at h; cases h
  · rw [if_neg hc, ring_search_eq r hun] at h
    simp only at h
    revert h i
    apply foldUntil_inv (fun (st : Bool × Option Nat) => ∀ i, st.2 = some i → i < r.numSegments)
    · intro j hj st hst i
      have hj := (mem_visit.1 hj).1
      split_ifs
      · intro e; simp only [Option.some.injEq] at e; omega
      · exact hst i
      · exact hst i
    · intro i e; cases e

section
variable {k : Rat} (hk : 0 < k)
include hk

theorem searchAny_sim {d : Pt} {r r' : Ring} (h : RingSim k d r r') (q : Box)
    (pred pred' : Seg → Nat → Bool)
    (hp : ∀ i, i < r.numSegments → pred' (Seg.aff k d (r.segmentAt i)) i = pred (r.segmentAt i) i) :
    r'.searchAny (Box.aff k d q) pred' = r.searchAny q pred := by
  rw [ring_searchAny_eq r h.un, ring_searchAny_eq r' h.un']
  have hv : visit r'.numSegments r'.segmentAt (Box.aff k d q) = visit r.numSegments r.segmentAt q := by
    unfold visit
    rw [h.nseg]
    apply List.filter_congr
    intro i hi
    have hi := List.mem_range.1 hi
    rw [h.seg i hi, segBox_aff' hk]
    exact intersects_aff hk d _ _
  rw [hv]
  rw [Bool.eq_iff_iff, List.any_eq_true, List.any_eq_true]
  constructor
  · rintro ⟨i, hi, hx⟩
    have hi' := (mem_visit.1 hi).1
    rw [h.seg i hi', hp i hi'] at hx
    exact ⟨i, hi, hx⟩
  · rintro ⟨i, hi, hx⟩
    have hi' := (mem_visit.1 hi).1
    refine ⟨i, hi, ?_⟩
    rw [h.seg i hi', hp i hi']
    exact hx

omit hk in
theorem cwc4_aff (d : Pt) (s1 s2 : Seg) :
    ((([(Seg.aff k d s1).a, (Seg.aff k d s1).b, (Seg.aff k d s2).a, (Seg.aff k d s2).b, (Seg.aff k d s1).a].zip
      [(Seg.aff k d s1).a, (Seg.aff k d s1).b, (Seg.aff k d s2).a, (Seg.aff k d s2).b, (Seg.aff k d s1).a].tail).foldl
        (fun acc (ab : Pt × Pt) => acc + (ab.2.x - ab.1.x) * (ab.2.y + ab.1.y)) (0 : Rat)))
    = k * k * ((([s1.a, s1.b, s2.a, s2.b, s1.a].zip [s1.a, s1.b, s2.a, s2.b, s1.a].tail).foldl
        (fun acc (ab : Pt × Pt) => acc + (ab.2.x - ab.1.x) * (ab.2.y + ab.1.y)) (0 : Rat))) := by
  simp only [List.tail_cons, List.zip_cons_cons, List.zip_nil_right, List.foldl_cons, List.foldl_nil,
    Seg.aff, aff_x, aff_y]
  ring

/-- the part of `ringContainsSegmentS` after the two membership tests (copied from the model;
    `ringContainsSegmentS_eq` checks the copy by `rfl`) -/
def rcsTail (ring : Ring) (seg : Seg) (allowOnEdge : Bool) (idxA idxB : Option Nat) : BoolSite :=
  if allowOnEdge then
    match idxA, idxB with
    | some ia, some ib =>
      if ib = ia then ⟨true, 6⟩
      else
        let rSegA := ring.segmentAt ia
        let rSegB := ring.segmentAt ib
        if rSegA.a = seg.a || rSegA.b = seg.a || rSegB.a = seg.a || rSegB.b = seg.a ||
           rSegA.a = seg.b || rSegA.b = seg.b || rSegB.a = seg.b || rSegB.b = seg.b then ⟨true, 7⟩
        else
          let (rSegA, rSegB) := if ib < ia then (rSegB, rSegA) else (rSegA, rSegB)
          let pts := [rSegA.a, rSegA.b, rSegB.a, rSegB.b, rSegA.a]
          let cwc := (pts.zip pts.tail).foldl (fun acc (ab : Pt × Pt) =>
            acc + (ab.2.x - ab.1.x) * (ab.2.y + ab.1.y)) (0 : Rat)
          let clockwise := decide (cwc > 0)
          if clockwise != ring.clockwise then ⟨false, 8⟩
          else
            let inter := ring.searchAny seg.box (fun seg2 _ =>
              seg.intersects seg2 && !(seg2.raycast seg.a).on && !(seg2.raycast seg.b).on)
            ⟨!inter, 9⟩
    | some _, none =>
      let inter := ring.searchAny seg.box (fun seg2 _ =>
        seg.intersects seg2 && !(seg2.raycast seg.a).on)
      ⟨!inter, 10⟩
    | none, some _ =>
      let inter := ring.searchAny seg.box (fun seg2 _ =>
        seg.intersects seg2 && !(seg2.raycast seg.b).on)
      ⟨!inter, 11⟩
    | none, none =>
      let inter := ring.searchAny seg.box (fun seg2 _ =>
        seg.intersects seg2 && !(seg.raycast seg2.a).on && !(seg.raycast seg2.b).on)
      ⟨!inter, 12⟩
  else
    let inter := ring.searchAny seg.box (fun seg2 _ => seg.intersects seg2)
    ⟨!inter, 13⟩

omit hk in
theorem ringContainsSegmentS_eq (ring : Ring) (seg : Seg) (allowOnEdge : Bool) :
    ringContainsSegmentS ring seg allowOnEdge =
      if !ring.rect.containsPt seg.a || !ring.rect.containsPt seg.b then ⟨false, 1⟩
      else
        if !(ringContainsPoint ring seg.a allowOnEdge).hit then ⟨false, 2⟩
        else if seg.b = seg.a then ⟨true, 3⟩
        else
          if !(ringContainsPoint ring seg.b allowOnEdge).hit then ⟨false, 4⟩
          else if ring.convex then ⟨true, 5⟩
          else rcsTail ring seg allowOnEdge (ringContainsPoint ring seg.a allowOnEdge).idx
            (ringContainsPoint ring seg.b allowOnEdge).idx := rfl

theorem intersects_seg_aff (d : Pt) (s o : Seg) :
    (Seg.aff k d s).intersects (Seg.aff k d o) = s.intersects o := by
  unfold Seg.intersects Seg.aff; rw [segIntersectsS_aff hk]

theorem raycast_seg_aff (d : Pt) (s : Seg) (p : Pt) :
    (Seg.aff k d s).raycast (Pt.aff k d p) = s.raycast p := by
  unfold Seg.raycast Seg.aff; exact raycast_aff hk d _ _ _

theorem rcsTail_sim {d : Pt} {r r' : Ring} (h : RingSim k d r r') (seg : Seg) (b : Bool)
    (idxA idxB : Option Nat) (hA : ∀ i, idxA = some i → i < r.numSegments)
    (hB : ∀ i, idxB = some i → i < r.numSegments) :
    rcsTail r' (Seg.aff k d seg) b idxA idxB = rcsTail r seg b idxA idxB := by
  have hsa : ∀ (pred pred' : Seg → Nat → Bool),
      (∀ i, i < r.numSegments → pred' (Seg.aff k d (r.segmentAt i)) i = pred (r.segmentAt i) i) →
      r'.searchAny (Seg.aff k d seg).box pred' = r.searchAny seg.box pred := by
    intro pred pred' hp
    rw [segBox_aff' hk]
    exact searchAny_sim hk h _ _ _ hp
  have e13 := hsa (fun seg2 _ => seg.intersects seg2)
    (fun seg2 _ => (Seg.aff k d seg).intersects seg2) (fun i _ => intersects_seg_aff hk d seg _)
  have e12 := hsa (fun seg2 _ => seg.intersects seg2 && !(seg.raycast seg2.a).on && !(seg.raycast seg2.b).on)
    (fun seg2 _ => (Seg.aff k d seg).intersects seg2 && !((Seg.aff k d seg).raycast seg2.a).on &&
      !((Seg.aff k d seg).raycast seg2.b).on) (fun i _ => by
        simp only [intersects_seg_aff hk]
        rw [show (Seg.aff k d (r.segmentAt i)).a = Pt.aff k d (r.segmentAt i).a from rfl,
          show (Seg.aff k d (r.segmentAt i)).b = Pt.aff k d (r.segmentAt i).b from rfl,
          raycast_seg_aff hk, raycast_seg_aff hk])
  have e11 := hsa (fun seg2 _ => seg.intersects seg2 && !(seg2.raycast seg.b).on)
    (fun seg2 _ => (Seg.aff k d seg).intersects seg2 && !(seg2.raycast (Seg.aff k d seg).b).on)
    (fun i _ => by
        simp only [intersects_seg_aff hk]
        rw [show (Seg.aff k d seg).b = Pt.aff k d seg.b from rfl, raycast_seg_aff hk])
  have e10 := hsa (fun seg2 _ => seg.intersects seg2 && !(seg2.raycast seg.a).on)
    (fun seg2 _ => (Seg.aff k d seg).intersects seg2 && !(seg2.raycast (Seg.aff k d seg).a).on)
    (fun i _ => by
        simp only [intersects_seg_aff hk]
        rw [show (Seg.aff k d seg).a = Pt.aff k d seg.a from rfl, raycast_seg_aff hk])
  have e9 := hsa (fun seg2 _ => seg.intersects seg2 && !(seg2.raycast seg.a).on && !(seg2.raycast seg.b).on)
    (fun seg2 _ => (Seg.aff k d seg).intersects seg2 && !(seg2.raycast (Seg.aff k d seg).a).on &&
      !(seg2.raycast (Seg.aff k d seg).b).on)
    (fun i _ => by
        simp only [intersects_seg_aff hk]
        rw [show (Seg.aff k d seg).a = Pt.aff k d seg.a from rfl,
          show (Seg.aff k d seg).b = Pt.aff k d seg.b from rfl, raycast_seg_aff hk, raycast_seg_aff hk])
  unfold rcsTail
  cases b
  · simp only [Bool.false_eq_true, if_false, e13]
  · simp only [if_true]
    rcases idxA with _ | ia <;> rcases idxB with _ | ib
    · simp only [e12]
    · simp only [e11]
    · simp only [e10]
    · have ha := hA ia rfl
      have hb := hB ib rfl
      simp only [h.seg ia ha, h.seg ib hb, e9]
      have hsw : (if ib < ia then (Seg.aff k d (r.segmentAt ib), Seg.aff k d (r.segmentAt ia))
            else (Seg.aff k d (r.segmentAt ia), Seg.aff k d (r.segmentAt ib)))
          = (Seg.aff k d (if ib < ia then (r.segmentAt ib, r.segmentAt ia) else (r.segmentAt ia, r.segmentAt ib)).1,
             Seg.aff k d (if ib < ia then (r.segmentAt ib, r.segmentAt ia) else (r.segmentAt ia, r.segmentAt ib)).2) := by
        split_ifs <;> rfl
      rw [hsw]
      simp only [cwc4_aff]
      have hkk : 0 < k * k := mul_pos hk hk
      simp only [gt_iff_lt, smul_pos_iff hkk, h.clockwise]
      simp only [Seg.aff, aff_inj hk]

theorem ringContainsSegmentS_sim {d : Pt} {r r' : Ring} (h : RingSim k d r r') (he : r.empty = false)
    (seg : Seg) (b : Bool) :
    ringContainsSegmentS r' (Seg.aff k d seg) b = ringContainsSegmentS r seg b := by
  have hr := h.rect he
  rw [ringContainsSegmentS_eq, ringContainsSegmentS_eq, rcsTail_sim hk h seg b _ _
    (fun i hi => by
      rw [show (Seg.aff k d seg).a = Pt.aff k d seg.a from rfl, ringContainsPoint_sim hk h] at hi
      exact rcp_idx_lt r h.un _ _ i hi)
    (fun i hi => by
      rw [show (Seg.aff k d seg).b = Pt.aff k d seg.b from rfl, ringContainsPoint_sim hk h] at hi
      exact rcp_idx_lt r h.un _ _ i hi)]
  simp only [Seg.aff, hr, Box.aff, containsPt_aff hk, ringContainsPoint_sim hk h, aff_inj hk, h.convex]

/-- without the non-emptiness hypothesis only the verdict is equal (an empty ring answers
    `false` at site 1 or 2 depending on whether the zero rectangle contains the endpoints) -/
theorem ringContainsSegment_sim {d : Pt} {r r' : Ring} (h : RingSim k d r r') (seg : Seg) (b : Bool) :
    ringContainsSegment r' (Seg.aff k d seg) b = ringContainsSegment r seg b := by
  unfold ringContainsSegment
  cases he : r.empty with
  | false => rw [ringContainsSegmentS_sim hk h he]
  | true =>
    have hn := h.nseg0 he
    have hn' : r'.numSegments = 0 := by rw [h.nseg, hn]
    rw [ringContainsSegmentS_eq, ringContainsSegmentS_eq]
    simp only [rcp_nosegs r h.un hn, rcp_nosegs r' h.un' hn', Bool.not_false, if_true]
    split_ifs <;> rfl

theorem search_sim {d : Pt} {r r' : Ring} (h : RingSim k d r r') (q : Box) {σ : Type}
    (f f' : σ → Seg → Nat → σ × Bool)
    (hf : ∀ i, i < r.numSegments → ∀ st, f' st (Seg.aff k d (r.segmentAt i)) i = f st (r.segmentAt i) i)
    (st : σ) : r'.search (Box.aff k d q) f' st = r.search q f st := by
  rw [ring_search_eq r h.un, ring_search_eq r' h.un']
  have hv : visit r'.numSegments r'.segmentAt (Box.aff k d q) = visit r.numSegments r.segmentAt q := by
    unfold visit
    rw [h.nseg]
    apply List.filter_congr
    intro i hi
    have hi := List.mem_range.1 hi
    rw [h.seg i hi, segBox_aff' hk]
    exact intersects_aff hk d _ _
  rw [hv, foldUntil_congr _ (fun st i => f st (r.segmentAt i) i)]
  intro i hi st
  have hi := (mem_visit.1 hi).1
  rw [h.seg i hi, hf i hi]

theorem collinearPt_seg_aff (d : Pt) (s : Seg) (p : Pt) :
    (Seg.aff k d s).collinearPt (Pt.aff k d p) = s.collinearPt p := collinearPt_aff hk d s p

/-- the counting callback of `ringIntersectsSegmentS` (copied from the model;
    `ringIntersectsSegmentS_eq` checks the copy by `rfl`) -/
def riStep (seg : Seg) (allowOnEdge : Bool) (st : RISt) (seg2 : Seg) (_ : Nat) : RISt × Bool :=
  if seg.intersects seg2 then
    if !allowOnEdge then
      if !(seg.collinearPt seg2.a && seg.collinearPt seg2.b) then
        if !st.segAOn && (seg.a = seg2.a || seg.a = seg2.b) then
          ({ st with segAOn := true }, true)
        else if !st.segBOn && (seg.b = seg2.a || seg.b = seg2.b) then
          ({ st with segBOn := true }, true)
        else
          let st' := { st with count := st.count + 1 }
          (st', st'.count < 2)
      else (st, st.count < 2)
    else
      let st' := { st with count := st.count + 1 }
      (st', st'.count < 2)
  else (st, st.count < 2)

omit hk in
theorem ringIntersectsSegmentS_eq (ring : Ring) (seg : Seg) (allowOnEdge : Bool) :
    ringIntersectsSegmentS ring seg allowOnEdge =
      if !seg.box.intersects ring.rect then ⟨false, 1⟩
      else if (ringContainsPoint ring seg.a allowOnEdge).hit then ⟨true, 2⟩
      else if (ringContainsPoint ring seg.b allowOnEdge).hit then ⟨true, 3⟩
      else
        let st := ring.search seg.box (riStep seg allowOnEdge) ⟨0, false, false⟩
        ⟨st.count ≥ 2, if st.count ≥ 2 then 4 else 5⟩ := rfl

theorem riStep_aff (d : Pt) (seg : Seg) (b : Bool) (st : RISt) (seg2 : Seg) (i : Nat) :
    riStep (Seg.aff k d seg) b st (Seg.aff k d seg2) i = riStep seg b st seg2 i := by
  unfold riStep
  simp only [intersects_seg_aff hk]
  rw [show (Seg.aff k d seg2).a = Pt.aff k d seg2.a from rfl,
    show (Seg.aff k d seg2).b = Pt.aff k d seg2.b from rfl,
    show (Seg.aff k d seg).a = Pt.aff k d seg.a from rfl,
    show (Seg.aff k d seg).b = Pt.aff k d seg.b from rfl]
  simp only [collinearPt_seg_aff hk, aff_inj hk]

theorem ringIntersectsSegmentS_sim {d : Pt} {r r' : Ring} (h : RingSim k d r r') (he : r.empty = false)
    (seg : Seg) (b : Bool) :
    ringIntersectsSegmentS r' (Seg.aff k d seg) b = ringIntersectsSegmentS r seg b := by
  have hr := h.rect he
  rw [ringIntersectsSegmentS_eq, ringIntersectsSegmentS_eq, segBox_aff' hk, hr]
  rw [show (Box.aff k d seg.box).intersects (Box.aff k d r.rect) = seg.box.intersects r.rect from
    intersects_aff hk d _ _]
  rw [show (Seg.aff k d seg).a = Pt.aff k d seg.a from rfl,
    show (Seg.aff k d seg).b = Pt.aff k d seg.b from rfl,
    ringContainsPoint_sim hk h, ringContainsPoint_sim hk h]
  rw [search_sim hk h seg.box (riStep seg b) (riStep (Seg.aff k d seg) b)
    (fun i _ st => riStep_aff hk d seg b st _ i)]

omit hk in
theorem ris_nosegs (r : Ring) (hun : Unindexed r) (hn : r.numSegments = 0) (seg : Seg) (b : Bool) :
    ringIntersectsSegment r seg b = false := by
  unfold ringIntersectsSegment
  rw [ringIntersectsSegmentS_eq, ring_search_eq r hun]
  simp only [rcp_nosegs r hun hn, visit, hn, List.range_zero, List.filter_nil, foldUntil]
  split_ifs <;> first | rfl | contradiction

theorem ringIntersectsSegment_sim {d : Pt} {r r' : Ring} (h : RingSim k d r r') (seg : Seg) (b : Bool) :
    ringIntersectsSegment r' (Seg.aff k d seg) b = ringIntersectsSegment r seg b := by
  cases he : r.empty with
  | false => unfold ringIntersectsSegment; rw [ringIntersectsSegmentS_sim hk h he]
  | true =>
    have hn := h.nseg0 he
    have hn' : r'.numSegments = 0 := by rw [h.nseg, hn]
    rw [ris_nosegs r h.un hn, ris_nosegs r' h.un' hn']

end

/-! ### ring × ring, ring × line -/

section
variable {k : Rat} (hk : 0 < k)
include hk

omit hk in
theorem all_range_congr (n : Nat) (f g : Nat → Bool) (h : ∀ i, i < n → f i = g i) :
    (List.range n).all f = (List.range n).all g := by
  rw [Bool.eq_iff_iff, List.all_eq_true, List.all_eq_true]
  constructor <;> intro hx i hi
  · rw [← h i (List.mem_range.1 hi)]; exact hx i hi
  · rw [h i (List.mem_range.1 hi)]; exact hx i hi

omit hk in
theorem any_range_congr (n : Nat) (f g : Nat → Bool) (h : ∀ i, i < n → f i = g i) :
    (List.range n).any f = (List.range n).any g := by
  rw [Bool.eq_iff_iff, List.any_eq_true, List.any_eq_true]
  constructor <;> rintro ⟨i, hi, hx⟩
  · exact ⟨i, hi, by rw [← h i (List.mem_range.1 hi)]; exact hx⟩
  · exact ⟨i, hi, by rw [h i (List.mem_range.1 hi)]; exact hx⟩

theorem ringContainsRingBody_sim {d : Pt} {r r' o o' : Ring} (h : RingSim k d r r')
    (ho : RingSim k d o o') (he : r.empty = false) (heo : o.empty = false) (b : Bool) :
    ringContainsRingBody r' o' b = ringContainsRingBody r o b := by
  unfold ringContainsRingBody
  rw [h.rect he, ho.rect heo, show (Box.aff k d r.rect).containsBox (Box.aff k d o.rect)
    = r.rect.containsBox o.rect from containsBox_aff hk d _ _, h.convex, ho.npts, ho.nseg]
  rw [all_range_congr o.numPoints _ (fun i => (ringContainsPoint r (o.pointAt i) b).hit)
      (fun i hi => by rw [ho.pt i hi, ringContainsPoint_sim hk h]),
    all_range_congr o.numSegments _ (fun i => ringContainsSegment r (o.segmentAt i) b)
      (fun i hi => by rw [ho.seg i hi, ringContainsSegment_sim hk h])]

theorem ringContainsRing_sim {d : Pt} {r r' o o' : Ring} (h : RingSim k d r r')
    (ho : RingSim k d o o') (b : Bool) :
    ringContainsRing r' o' b = ringContainsRing r o b := by
  unfold ringContainsRing
  rw [h.empty, ho.empty, ho.npts]
  cases he : r.empty with
  | true => simp only [Bool.true_or, if_true]
  | false =>
    cases heo : o.empty with
    | true => simp only [Bool.or_true, if_true]
    | false =>
      rw [ringContainsRingBody_sim hk h ho he heo, ho.rect heo,
        ringContainsRingBody_sim hk h (ringSim_bx d o.rect) he rfl]

theorem ringIntersectsRing_sim {d : Pt} {r r' o o' : Ring} (h : RingSim k d r r')
    (ho : RingSim k d o o') (b : Bool) :
    ringIntersectsRing r' o' b = ringIntersectsRing r o b := by
  unfold ringIntersectsRing
  rw [h.empty, ho.empty]
  cases he : r.empty with
  | true => simp only [Bool.true_or, if_true]
  | false =>
    cases heo : o.empty with
    | true => simp only [Bool.or_true, if_true]
    | false =>
      rw [h.rect he, ho.rect heo, show (Box.aff k d r.rect).intersects (Box.aff k d o.rect)
        = r.rect.intersects o.rect from intersects_aff hk d _ _]
      have ha : ((Box.aff k d o.rect).area > (Box.aff k d r.rect).area) ↔ (o.rect.area > r.rect.area) :=
        area_gt_aff hk d _ _
      by_cases hg : o.rect.area > r.rect.area
      · simp only [ha, hg, if_true, Bool.or_self, Bool.false_eq_true, if_false]
        rw [h.nseg, any_range_congr r.numSegments _ (fun i => ringIntersectsSegment o (r.segmentAt i) b)
          (fun i hi => by rw [h.seg i hi, ringIntersectsSegment_sim hk ho])]
      · simp only [ha, hg, if_false, Bool.or_self, Bool.false_eq_true]
        rw [ho.nseg, any_range_congr o.numSegments _ (fun i => ringIntersectsSegment r (o.segmentAt i) b)
          (fun i hi => by rw [ho.seg i hi, ringIntersectsSegment_sim hk h])]

/-- two series related as rings -/
abbrev SerSim (k : Rat) (d : Pt) (s s' : Series) : Prop := RingSim k d (.ser s) (.ser s')

theorem ringContainsLine_sim {d : Pt} {r r' : Ring} {l l' : Line} (h : RingSim k d r r')
    (hl : SerSim k d l l') (b : Bool) : ringContainsLine r' l' b = ringContainsLine r l b :=
  ringContainsRing_sim hk h hl b

theorem ringIntersectsLine_sim {d : Pt} {r r' : Ring} {l l' : Line} (h : RingSim k d r r')
    (hl : SerSim k d l l') (b : Bool) : ringIntersectsLine r' l' b = ringIntersectsLine r l b := by
  unfold ringIntersectsLine
  have hle : l'.empty = l.empty := hl.empty
  have hnp : l'.numPoints = l.numPoints := hl.npts
  have hns : l'.numSegments = l.numSegments := hl.nseg
  rw [h.empty, hle]
  cases he : r.empty with
  | true => simp only [Bool.true_or, if_true]
  | false =>
    cases heo : l.empty with
    | true => simp only [Bool.or_true, if_true]
    | false =>
      have hlr : l'.rect = Box.aff k d l.rect := hl.rect heo
      rw [h.rect he, hlr, show (Box.aff k d r.rect).intersects (Box.aff k d l.rect)
        = r.rect.intersects l.rect from intersects_aff hk d _ _, hnp, hns]
      rw [any_range_congr l.numPoints _ (fun i => (ringContainsPoint r l.pts[i]! b).hit)
          (fun i hi => by
            have : l'.pts[i]! = Pt.aff k d l.pts[i]! := hl.pt i hi
            rw [this, ringContainsPoint_sim hk h]),
        any_range_congr l.numSegments _ (fun i => ringIntersectsSegment r (l.segmentAt i) b)
          (fun i hi => by
            have : l'.segmentAt i = Seg.aff k d (l.segmentAt i) := hl.seg i hi
            rw [this, ringIntersectsSegment_sim hk h])]

end

/-! ### lines -/

theorem find?_congr' {α : Type} (p q : α → Bool) (l : List α) (h : ∀ x ∈ l, p x = q x) :
    l.find? p = l.find? q := by
  induction l with
  | nil => rfl
  | cons x l ih =>
    simp only [List.find?_cons, h x (by simp)]
    rw [ih (fun y hy => h y (by simp [hy]))]

theorem line_containsPoint_eq (l : Line) (p : Pt) :
    l.containsPoint p = (Ring.ser l).search p.box (fun (st : Bool) seg _ =>
      if (seg.raycast p).on then (true, false) else (st, true)) false := rfl

section
variable {k : Rat} (hk : 0 < k)
include hk

theorem line_containsPoint_sim {d : Pt} {l l' : Line} (hl : SerSim k d l l') (p : Pt) :
    l'.containsPoint (Pt.aff k d p) = l.containsPoint p := by
  rw [line_containsPoint_eq, line_containsPoint_eq]
  rw [show (Pt.aff k d p).box = Box.aff k d p.box from rfl]
  apply search_sim hk hl
  intro i _ st
  rw [raycast_seg_aff hk]

theorem containsSeg_seg_aff (d : Pt) (s o : Seg) :
    (Seg.aff k d s).containsSeg (Seg.aff k d o) = s.containsSeg o := containsSeg_aff hk d s o

theorem walkStep_sim {d : Pt} {l l' o o' : Line} (hl : SerSim k d l l') (ho : SerSim k d o o')
    (n : Nat) (st : WalkSt) (hs : st.segIdx < l.numSegments) (hi : st.i < o.numSegments) :
    walkStep l' o' n st = walkStep l o n st := by
  have e1 : l'.segmentAt st.segIdx = Seg.aff k d (l.segmentAt st.segIdx) := hl.seg _ hs
  have e2 : o'.segmentAt st.i = Seg.aff k d (o.segmentAt st.i) := ho.seg _ hi
  unfold walkStep
  simp only [e1, e2, containsSeg_seg_aff hk]
  simp only [Seg.aff, aff_inj hk]

theorem walk_sim {d : Pt} {l l' o o' : Line} (hl : SerSim k d l l') (ho : SerSim k d o o') :
    ∀ (fuel : Nat) (st : WalkSt), st.segIdx < l.numSegments →
      walk l' o' l.numSegments o.numSegments fuel st = walk l o l.numSegments o.numSegments fuel st := by
  intro fuel
  induction fuel with
  | zero => intro st _; rfl
  | succ fuel ih =>
    intro st hs
    rw [walk, walk]
    by_cases hi : st.i < o.numSegments
    · rw [if_pos hi, if_pos hi, walkStep_sim hk hl ho _ st hs hi]
      rcases walkStep_spec l o l.numSegments st hs with ⟨b, hb⟩ | ⟨hnone, hcase⟩
      · rcases hw : walkStep l o l.numSegments st with ⟨st', r⟩
        rw [hw] at hb
        simp only at hb
        subst hb
        rfl
      · rcases hw : walkStep l o l.numSegments st with ⟨st', r⟩
        rw [hw] at hnone hcase
        simp only at hnone hcase
        subst hnone
        simp only
        apply ih
        rcases hcase with ⟨-, -, e3⟩ | ⟨-, e2, -⟩
        · rw [e3]; exact hs
        · exact e2
    · rw [if_neg hi, if_neg hi]

theorem line_containsLineO_sim {d : Pt} {l l' o o' : Line} (hl : SerSim k d l l')
    (ho : SerSim k d o o') : l'.containsLineO o' = l.containsLineO o := by
  have hle : l'.empty = l.empty := hl.empty
  have hoe : o'.empty = o.empty := ho.empty
  have hln : l'.numSegments = l.numSegments := hl.nseg
  have hon : o'.numSegments = o.numSegments := ho.nseg
  unfold Line.containsLineO
  rw [hle, hoe, hln, hon]
  cases he : l.empty with
  | true => simp only [Bool.true_or, if_true]
  | false =>
    cases heo : o.empty with
    | true => simp only [Bool.or_true, if_true]
    | false =>
      simp only [Bool.or_self, Bool.false_eq_true, if_false]
      have h0 : 0 < o.numSegments := by
        rcases Nat.eq_zero_or_pos o.numSegments with h | h
        · rw [(numSegments_eq_zero_iff o).1 h] at heo; cases heo
        · exact h
      have e0 : o'.segmentAt 0 = Seg.aff k d (o.segmentAt 0) := ho.seg 0 h0
      rw [find?_congr' _ (fun j => (l.segmentAt j).containsSeg (o.segmentAt 0)) _ (fun j hj => by
        have hj := List.mem_range.1 hj
        have e1 : l'.segmentAt j = Seg.aff k d (l.segmentAt j) := hl.seg j hj
        rw [e1, e0, containsSeg_seg_aff hk])]
      cases hf : (List.range l.numSegments).find? (fun j => (l.segmentAt j).containsSeg (o.segmentAt 0)) with
      | none => rfl
      | some segIdx =>
        have hmem := List.mem_range.1 (List.mem_of_find?_eq_some hf)
        exact walk_sim hk hl ho _ ⟨segIdx, 1, 0⟩ hmem

theorem line_containsLine_sim {d : Pt} {l l' o o' : Line} (hl : SerSim k d l l')
    (ho : SerSim k d o o') : l'.containsLine o' = l.containsLine o := by
  unfold Line.containsLine; rw [line_containsLineO_sim hk hl ho]

theorem line_intersectsLine_sim {d : Pt} {l l' o o' : Line} (hl : SerSim k d l l')
    (ho : SerSim k d o o') : l'.intersectsLine o' = l.intersectsLine o := by
  have hle : l'.empty = l.empty := hl.empty
  have hoe : o'.empty = o.empty := ho.empty
  have hln : l'.numSegments = l.numSegments := hl.nseg
  have hon : o'.numSegments = o.numSegments := ho.nseg
  have hlp : l'.numPoints = l.numPoints := hl.npts
  have hop : o'.numPoints = o.numPoints := ho.npts
  unfold Line.intersectsLine
  rw [hle, hoe, hlp, hop]
  cases he : l.empty with
  | true => simp only [Bool.true_or, if_true]
  | false =>
    cases heo : o.empty with
    | true => simp only [Bool.or_true, if_true]
    | false =>
      have hlr : l'.rect = Box.aff k d l.rect := hl.rect he
      have hor : o'.rect = Box.aff k d o.rect := ho.rect heo
      rw [hlr, hor, show (Box.aff k d l.rect).intersects (Box.aff k d o.rect)
        = l.rect.intersects o.rect from intersects_aff hk d _ _]
      by_cases hg : l.numPoints > o.numPoints
      · simp only [hg, if_true, Bool.or_self, Bool.false_eq_true, if_false]
        rw [hon, any_range_congr o.numSegments _ (fun i =>
          (Ring.ser l).searchAny (o.segmentAt i).box (fun segB _ => (o.segmentAt i).intersects segB))
          (fun i hi => by
            have e1 : o'.segmentAt i = Seg.aff k d (o.segmentAt i) := ho.seg i hi
            simp only [e1, segBox_aff' hk]
            exact searchAny_sim hk hl _ _ _ (fun j _ => intersects_seg_aff hk d _ _))]
      · simp only [hg, if_false, Bool.or_self, Bool.false_eq_true]
        rw [hln, any_range_congr l.numSegments _ (fun i =>
          (Ring.ser o).searchAny (l.segmentAt i).box (fun segB _ => (l.segmentAt i).intersects segB))
          (fun i hi => by
            have e1 : l'.segmentAt i = Seg.aff k d (l.segmentAt i) := hl.seg i hi
            simp only [e1, segBox_aff' hk]
            exact searchAny_sim hk ho _ _ _ (fun j _ => intersects_seg_aff hk d _ _))]

end

/-! ### polygons -/

/-- a polygon and its image: exteriors related (or both `nil`), holes related pairwise -/
structure PolySim (k : Rat) (d : Pt) (p p' : Poly) : Prop where
  ext : match p.ext, p'.ext with
    | none, none => True
    | some e, some e' => RingSim k d e e'
    | _, _ => False
  holes : List.Forall₂ (RingSim k d) p.holes p'.holes

theorem any_forall₂ {α β : Type} {R : α → β → Prop} (f : α → Bool) (g : β → Bool)
    (h : ∀ a b, R a b → g b = f a) {l : List α} {l' : List β} (hl : List.Forall₂ R l l') :
    l'.any g = l.any f := by
  induction hl with
  | nil => rfl
  | cons hab _ ih => simp only [List.any_cons, h _ _ hab, ih]

theorem all_forall₂ {α β : Type} {R : α → β → Prop} (f : α → Bool) (g : β → Bool)
    (h : ∀ a b, R a b → g b = f a) {l : List α} {l' : List β} (hl : List.Forall₂ R l l') :
    l'.all g = l.all f := by
  induction hl with
  | nil => rfl
  | cons hab _ ih => simp only [List.all_cons, h _ _ hab, ih]

section
variable {k : Rat} (hk : 0 < k)
include hk

omit hk in
theorem polySim_cases {d : Pt} {p p' : Poly} (h : PolySim k d p p') :
    (p.ext = none ∧ p'.ext = none) ∨ ∃ e e', p.ext = some e ∧ p'.ext = some e' ∧ RingSim k d e e' := by
  have := h.ext
  rcases h1 : p.ext with _ | e <;> rcases h2 : p'.ext with _ | e' <;> rw [h1, h2] at this
  · exact Or.inl ⟨rfl, rfl⟩
  · exact this.elim
  · exact this.elim
  · exact Or.inr ⟨e, e', rfl, rfl, this⟩

omit hk in
theorem poly_empty_sim {d : Pt} {p p' : Poly} (h : PolySim k d p p') : p'.empty = p.empty := by
  rcases polySim_cases h with ⟨h1, h2⟩ | ⟨e, e', h1, h2, hs⟩
  · simp only [Poly.empty, h1, h2]
  · simp only [Poly.empty, h1, h2, hs.empty]

omit hk in
theorem poly_rect_sim {d : Pt} {p p' : Poly} (h : PolySim k d p p') (he : p.empty = false) :
    p'.rect = Box.aff k d p.rect := by
  rcases polySim_cases h with ⟨h1, h2⟩ | ⟨e, e', h1, h2, hs⟩
  · simp [Poly.empty, h1] at he
  · simp only [Poly.empty, h1] at he
    simp only [Poly.rect, h1, h2, hs.rect he]

theorem poly_containsPoint_sim {d : Pt} {p p' : Poly} (h : PolySim k d p p') (q : Pt) :
    p'.containsPoint (Pt.aff k d q) = p.containsPoint q := by
  rcases polySim_cases h with ⟨h1, h2⟩ | ⟨e, e', h1, h2, hs⟩
  · simp only [Poly.containsPoint, h1, h2]
  · simp only [Poly.containsPoint, h1, h2, ringContainsPoint_sim hk hs]
    rw [any_forall₂ (fun hh => (ringContainsPoint hh q false).hit) _
      (fun a b hab => by rw [ringContainsPoint_sim hk hab]) h.holes]

theorem poly_containsLine_sim {d : Pt} {p p' : Poly} {l l' : Line} (h : PolySim k d p p')
    (hl : SerSim k d l l') : p'.containsLine l' = p.containsLine l := by
  rcases polySim_cases h with ⟨h1, h2⟩ | ⟨e, e', h1, h2, hs⟩
  · simp only [Poly.containsLine, h1, h2]
  · simp only [Poly.containsLine, h1, h2, ringContainsLine_sim hk hs hl]
    rw [any_forall₂ (fun hh => ringIntersectsLine hh l false) _
      (fun a b hab => by rw [ringIntersectsLine_sim hk hab hl]) h.holes]

theorem poly_intersectsLine_sim {d : Pt} {p p' : Poly} {l l' : Line} (h : PolySim k d p p')
    (hl : SerSim k d l l') : p'.intersectsLine l' = p.intersectsLine l := by
  rcases polySim_cases h with ⟨h1, h2⟩ | ⟨e, e', h1, h2, hs⟩
  · simp only [Poly.intersectsLine, h1, h2]
  · simp only [Poly.intersectsLine, h1, h2, ringIntersectsLine_sim hk hs hl]
    rw [any_forall₂ (fun hh => ringContainsLine hh l false) _
      (fun a b hab => by rw [ringContainsLine_sim hk hab hl]) h.holes]

theorem poly_containsPoly_sim {d : Pt} {p p' o o' : Poly} (h : PolySim k d p p')
    (ho : PolySim k d o o') : p'.containsPoly o' = p.containsPoly o := by
  rcases polySim_cases h with ⟨h1, h2⟩ | ⟨e, e', h1, h2, hs⟩
  · simp only [Poly.containsPoly, h1, h2]
  · rcases polySim_cases ho with ⟨g1, g2⟩ | ⟨f, f', g1, g2, gs⟩
    · simp only [Poly.containsPoly, h1, h2, g1, g2]
    · simp only [Poly.containsPoly, h1, h2, g1, g2, ringContainsRing_sim hk hs gs]
      rw [all_forall₂ (fun polyHole =>
          if ringIntersectsRing polyHole f false then
            o.holes.any (fun otherHole => ringContainsRing otherHole polyHole true)
          else true) _
        (fun a b hab => by
          rw [ringIntersectsRing_sim hk hab gs,
            any_forall₂ (fun otherHole => ringContainsRing otherHole a true) _
              (fun a2 b2 hab2 => by rw [ringContainsRing_sim hk hab2 hab]) ho.holes]) h.holes]

theorem poly_intersectsPoly_sim {d : Pt} {p p' o o' : Poly} (h : PolySim k d p p')
    (ho : PolySim k d o o') : p'.intersectsPoly o' = p.intersectsPoly o := by
  rcases polySim_cases h with ⟨h1, h2⟩ | ⟨e, e', h1, h2, hs⟩
  · simp only [Poly.intersectsPoly, h1, h2]
  · rcases polySim_cases ho with ⟨g1, g2⟩ | ⟨f, f', g1, g2, gs⟩
    · simp only [Poly.intersectsPoly, h1, h2, g1, g2]
    · simp only [Poly.intersectsPoly, h1, h2, g1, g2, ringIntersectsRing_sim hk gs hs]
      rw [any_forall₂ (fun hh => ringContainsRing hh f false) _
          (fun a b hab => by rw [ringContainsRing_sim hk hab gs]) h.holes,
        any_forall₂ (fun hh => ringContainsRing hh e false) _
          (fun a b hab => by rw [ringContainsRing_sim hk hab hs]) ho.holes]

omit hk in
theorem polySim_asPoly (d : Pt) (r : Box) : PolySim k d r.asPoly (Box.aff k d r).asPoly :=
  ⟨ringSim_bx d r, List.Forall₂.nil⟩

end

/-! ### the four kinds -/

/-- the two-point line `Line.containsPoly` builds from the polygon's rectangle -/
def rectLine (b : Box) : Line := ⟨#[b.min, b.max], false, false, false, b, none⟩

theorem line_containsPoly_eq (line : Line) (poly : Poly) :
    line.containsPoly poly =
      if line.empty || poly.empty then false
      else if poly.rect.min.x ≠ poly.rect.max.x && poly.rect.min.y ≠ poly.rect.max.y then false
      else line.containsLine (rectLine poly.rect) := rfl

theorem rectLine_sim (k : Rat) (d : Pt) (b : Box) : SerSim k d (rectLine b) (rectLine (Box.aff k d b)) := by
  refine
    { un := rfl, un' := rfl, empty := rfl, nseg := rfl, npts := rfl, seg := ?_, pt := ?_,
      convex := rfl, clockwise := rfl, rect := fun _ => rfl, nseg0 := ?_, inside := ?_ }
  · intro i hi
    have hi : i < 1 := hi
    obtain rfl : i = 0 := by omega
    rfl
  · intro i hi
    have hi : i < 2 := hi
    rcases i with _ | _ | i
    · rfl
    · rfl
    · omega
  · intro he; cases he
  · intro p hp i hi
    have hi : i < 1 := hi
    obtain rfl : i = 0 := by omega
    have hp : b.containsPt p = true := hp
    rw [containsPt_iff] at hp
    obtain ⟨a1, a2, a3, a4⟩ := hp
    have hx : b.min.x ≤ b.max.x := le_trans a1 a2
    have hy : b.min.y ≤ b.max.y := le_trans a3 a4
    show b.containsPt b.min = true ∧ b.containsPt b.max = true
    simp only [containsPt_iff, le_refl, hx, hy, and_self]

section
variable {k : Rat} (hk : 0 < k)
include hk

theorem line_containsPoly_sim {d : Pt} {l l' : Line} {p p' : Poly} (hl : SerSim k d l l')
    (hp : PolySim k d p p') : l'.containsPoly p' = l.containsPoly p := by
  have hle : l'.empty = l.empty := hl.empty
  rw [line_containsPoly_eq, line_containsPoly_eq, hle, poly_empty_sim hp]
  cases he : l.empty with
  | true => simp only [Bool.true_or, if_true]
  | false =>
    cases hpe : p.empty with
    | true => simp only [Bool.or_true, if_true]
    | false =>
      rw [poly_rect_sim hp hpe, line_containsLine_sim hk hl (rectLine_sim k d p.rect)]
      simp only [Box.aff, aff_x, aff_y, ne_eq, aff_eq hk]

theorem box_aff_inj (d : Pt) (a b : Box) : Box.aff k d a = Box.aff k d b ↔ a = b := by
  constructor
  · intro h
    have h1 := congrArg Box.min h
    have h2 := congrArg Box.max h
    simp only [Box.aff, aff_inj hk] at h1 h2
    cases a; cases b; simp only at h1 h2; rw [h1, h2]
  · intro h; rw [h]

/-- two geometries related by `p ↦ k·p + d` (all series un-indexed) -/
inductive GeomSim (k : Rat) (d : Pt) : Geom → Geom → Prop
  | point (p : Pt) : GeomSim k d (.point p) (.point (Pt.aff k d p))
  | rect (r : Box) : GeomSim k d (.rect r) (.rect (Box.aff k d r))
  | line (l l' : Line) : SerSim k d l l' → GeomSim k d (.line l) (.line l')
  | poly (p p' : Poly) : PolySim k d p p' → GeomSim k d (.poly p) (.poly p')

theorem pt_containsLine_sim {d : Pt} {l l' : Line} (hl : SerSim k d l l') (p : Pt) :
    (Pt.aff k d p).containsLine l' = p.containsLine l := by
  have hle : l'.empty = l.empty := hl.empty
  unfold Pt.containsLine
  rw [hle]
  cases he : l.empty with
  | true => simp only [Bool.not_true, Bool.false_and]
  | false =>
    have hlr : l'.rect = Box.aff k d l.rect := hl.rect he
    simp only [hlr, show (Pt.aff k d p).box = Box.aff k d p.box from rfl, box_aff_inj hk]

theorem pt_containsPoly_sim {d : Pt} {o o' : Poly} (ho : PolySim k d o o') (p : Pt) :
    (Pt.aff k d p).containsPoly o' = p.containsPoly o := by
  unfold Pt.containsPoly
  rw [poly_empty_sim ho]
  cases he : o.empty with
  | true => simp only [Bool.not_true, Bool.false_and]
  | false =>
    simp only [poly_rect_sim ho he, show (Pt.aff k d p).box = Box.aff k d p.box from rfl, box_aff_inj hk]

theorem box_containsLine_sim {d : Pt} {l l' : Line} (hl : SerSim k d l l') (r : Box) :
    (Box.aff k d r).containsLine l' = r.containsLine l := by
  have hle : l'.empty = l.empty := hl.empty
  unfold Box.containsLine
  rw [hle]
  cases he : l.empty with
  | true => simp only [Bool.not_true, Bool.false_and]
  | false =>
    have hlr : l'.rect = Box.aff k d l.rect := hl.rect he
    rw [hlr, show (Box.aff k d r).containsBox (Box.aff k d l.rect) = r.containsBox l.rect from
      containsBox_aff hk d _ _]

theorem box_containsPoly_sim {d : Pt} {o o' : Poly} (ho : PolySim k d o o') (r : Box) :
    (Box.aff k d r).containsPoly o' = r.containsPoly o := by
  unfold Box.containsPoly
  rw [poly_empty_sim ho]
  cases he : o.empty with
  | true => simp only [Bool.not_true, Bool.false_and]
  | false =>
    rw [poly_rect_sim ho he, show (Box.aff k d r).containsBox (Box.aff k d o.rect) = r.containsBox o.rect from
      containsBox_aff hk d _ _]

theorem geom_contains_sim {d : Pt} {a a' b b' : Geom} (ha : GeomSim k d a a') (hb : GeomSim k d b b') :
    a'.contains b' = a.contains b := by
  cases ha with
  | point p =>
    cases hb with
    | point q => simp only [Geom.contains, aff_inj hk]
    | rect r =>
      simp only [Geom.contains, Pt.containsRect, show (Pt.aff k d p).box = Box.aff k d p.box from rfl,
        box_aff_inj hk]
    | line l l' hl => exact pt_containsLine_sim hk hl p
    | poly o o' ho => exact pt_containsPoly_sim hk ho p
  | rect r =>
    cases hb with
    | point q => exact containsPt_aff hk d r q
    | rect r2 => exact containsBox_aff hk d r r2
    | line l l' hl => exact box_containsLine_sim hk hl r
    | poly o o' ho => exact box_containsPoly_sim hk ho r
  | line l l' hl =>
    cases hb with
    | point q => exact line_containsPoint_sim hk hl q
    | rect r2 => exact line_containsPoly_sim hk hl (polySim_asPoly d r2)
    | line m m' hm => exact line_containsLine_sim hk hl hm
    | poly o o' ho => exact line_containsPoly_sim hk hl ho
  | poly p p' hp =>
    cases hb with
    | point q => exact poly_containsPoint_sim hk hp q
    | rect r2 => exact poly_containsPoly_sim hk hp (polySim_asPoly d r2)
    | line m m' hm => exact poly_containsLine_sim hk hp hm
    | poly o o' ho => exact poly_containsPoly_sim hk hp ho

theorem geom_intersects_sim {d : Pt} {a a' b b' : Geom} (ha : GeomSim k d a a') (hb : GeomSim k d b b') :
    a'.intersects b' = a.intersects b := by
  cases ha with
  | point p =>
    cases hb with
    | point q => simp only [Geom.intersects, aff_inj hk]
    | rect r => exact containsPt_aff hk d r p
    | line l l' hl => exact line_containsPoint_sim hk hl p
    | poly o o' ho => exact poly_containsPoint_sim hk ho p
  | rect r =>
    cases hb with
    | point q => exact containsPt_aff hk d r q
    | rect r2 => exact intersects_aff hk d r r2
    | line l l' hl => exact ringIntersectsLine_sim hk (ringSim_bx d r) hl true
    | poly o o' ho => exact poly_intersectsPoly_sim hk ho (polySim_asPoly d r)
  | line l l' hl =>
    cases hb with
    | point q => exact line_containsPoint_sim hk hl q
    | rect r2 => exact ringIntersectsLine_sim hk (ringSim_bx d r2) hl true
    | line m m' hm => exact line_intersectsLine_sim hk hl hm
    | poly o o' ho => exact poly_intersectsLine_sim hk ho hl
  | poly p p' hp =>
    cases hb with
    | point q => exact poly_containsPoint_sim hk hp q
    | rect r2 => exact poly_intersectsPoly_sim hk hp (polySim_asPoly d r2)
    | line m m' hm => exact poly_intersectsLine_sim hk hp hm
    | poly o o' ho => exact poly_intersectsPoly_sim hk hp ho

end

end EQ
/-! ### rebuilding a geometry from mapped points (no index) -/

def Series.mapPts (T : Pt → Pt) (s : Series) : Series := mkSeries (s.pts.map T) s.closed .none 0
def Ring.mapPts (T : Pt → Pt) : Ring → Ring
  | .ser s => .ser (s.mapPts T)
  | .bx b => .bx ⟨T b.min, T b.max⟩
def Poly.mapPts (T : Pt → Pt) (p : Poly) : Poly := ⟨p.ext.map (Ring.mapPts T), p.holes.map (Ring.mapPts T)⟩
def Geom.mapPts (T : Pt → Pt) : Geom → Geom
  | .point p => .point (T p)
  | .rect r => .rect ⟨T r.min, T r.max⟩
  | .line l => .line (l.mapPts T)
  | .poly p => .poly (p.mapPts T)

/-- the series is what `mkSeries` builds from its points without index -/
def Series.Built (s : Series) : Prop := s = mkSeries s.pts s.closed .none 0
def Ring.Built : Ring → Prop
  | .ser s => s.Built
  | .bx _ => True
def Poly.Built (p : Poly) : Prop := (∀ e, p.ext = some e → e.Built) ∧ ∀ h ∈ p.holes, h.Built
def Geom.Built : Geom → Prop
  | .line l => l.Built
  | .poly p => p.Built
  | _ => True

theorem mkSeries_built (pts : Array Pt) (closed : Bool) : (mkSeries pts closed .none 0).Built := rfl

namespace EQ
section
variable {k : Rat} (hk : 0 < k)
include hk

theorem serSim_mapPts (d : Pt) (s : Series) (hs : s.Built) : SerSim k d s (s.mapPts (Pt.aff k d)) := by
  have := ringSim_mk hk d s.pts s.closed
  rw [← hs] at this
  exact this

theorem ringSim_mapPts (d : Pt) (r : Ring) (hr : r.Built) : RingSim k d r (r.mapPts (Pt.aff k d)) := by
  cases r with
  | ser s => exact serSim_mapPts hk d s hr
  | bx b => exact ringSim_bx d b

theorem polySim_mapPts (d : Pt) (p : Poly) (hp : p.Built) : PolySim k d p (p.mapPts (Pt.aff k d)) := by
  refine ⟨?_, ?_⟩
  · rcases he : p.ext with _ | e
    · simp only [Poly.mapPts, he, Option.map_none]
    · simp only [Poly.mapPts, he, Option.map_some]
      exact ringSim_mapPts hk d e (hp.1 e he)
  · simp only [Poly.mapPts]
    have : ∀ l : List Ring, (∀ h ∈ l, h.Built) →
        List.Forall₂ (RingSim k d) l (l.map (Ring.mapPts (Pt.aff k d))) := by
      intro l
      induction l with
      | nil => intro _; exact List.Forall₂.nil
      | cons x l ih =>
        intro hl
        exact List.Forall₂.cons (ringSim_mapPts hk d x (hl x (by simp)))
          (ih (fun h hh => hl h (by simp [hh])))
    exact this p.holes hp.2

theorem geomSim_mapPts (d : Pt) (a : Geom) (ha : a.Built) : GeomSim k d a (a.mapPts (Pt.aff k d)) := by
  cases a with
  | point p => exact GeomSim.point p
  | rect r => exact GeomSim.rect r
  | line l => exact GeomSim.line l _ (serSim_mapPts hk d l ha)
  | poly p => exact GeomSim.poly p _ (polySim_mapPts hk d p ha)

end
end EQ

end Geo
