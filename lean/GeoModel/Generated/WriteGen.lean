/-
  GENERATED FILE — do not edit.  Regenerate with
      cd /verif/translate && go build -o bin/translate . && \
        ./bin/translate writers /repo > /verif/lean/GeoModel/Generated/WriteGen.lean

  Syntactic translation (translate/writers.go) of the JSON writers of the root package: the
  helpers whose name begins with appendJSON and every method AppendJSON(dst []byte) []byte.

  Conventions:
    * every definition takes `ops : Ops …`: one type parameter per Go type met in the source
      ([]byte ↦ Buf, float64 ↦ F, the named type T of the root package ↦ TT, geometry.T ↦ GT,
      gjson.Result ↦ JResult; interfaces are taken to be non-nil) and one field per distinct
      operation / callee found in the source: append(dst, "lit"...) ↦ bufLit, append(dst, 'c') ↦
      bufByte, append(dst, s...) ↦ bufStr (s a string) / bufCat (s a []byte), len ↦ bufLen / strLen,
      s[lo:hi] ↦ strSlice / bufSlice, field f of T ↦ tT_f (promoted fields go through the embedded
      field), method or function that is not translated here ↦ a field with its Go signature
      (taken to be pure and total), the implicit conversion of a struct to an interface ↦ i_ofT;
    * every definition returns an Option: none = the Go code PANICS.  xs[i] ↦ sliceAt xs i (explicit
      bounds check), s[lo:hi] ↦ an op returning an Option, a nilable *T used where a T is needed ↦
      Option.bind on it, a translated callee's none propagates;
    * *T ↦ Option TT, except a method receiver whose body never compares it with nil (taken to be
      non-nil); `x != nil` on a variable ↦ match x with | some x => … | none => …; on another
      expression ↦ Option.isSome; &x.f ↦ x.f;
    * int, byte, … ↦ Int (unbounded, conversions between them are the identity); a rune literal ↦ Char;
      string ↦ String, except that len and slicing are ops (Go counts bytes);
    * a statement list becomes one expression: x := e, x = e, x++ ↦ let (shadowing); an effectful
      e ↦ Option.bind (e) fun x => …; an `if` no arm of which returns is joined:
      Option.bind (if c then … some vars else … some vars) fun j' => …, vars the outer variables the
      arms assign; otherwise the statements after it are copied into its arms;
    * for i := lo; i < hi; i++ ↦ loopM over intRange lo hi; for _, x := range xs ↦ loopM over xs;
      for i, x := range xs ↦ loopM over enumInt xs; the state is the tuple of the outer variables
      the body assigns;
    * a call through an interface of a method translated here (child.AppendJSON(dst)) ↦ the field
      rec_<Method> (dynamic dispatch, supplied by the caller); a function calling itself ↦ rec_<name>.
  Anything outside the recognised subset appears below as  opaque <name>_unrecognised : Unit.
-/

set_option linter.unusedVariables false

namespace Geo.WGen

/-- a loop over the list of the values of its variable; none = some pass panics -/
def loopM {ε σ : Type} (body : ε → σ → Option σ) : List ε → σ → Option σ
  | [], s => some s
  | x :: xs, s =>
    match body x s with
    | none => none
    | some s' => loopM body xs s'

/-- the values of i in `for i := lo; i < hi; i++` -/
def intRange (lo hi : Int) : List Int := (List.range (hi - lo).toNat).map (fun k => lo + Int.ofNat k)

/-- the (index, element) pairs of `for i, x := range xs` -/
def enumInt {α : Type} (xs : List α) : List (Int × α) := (intRange 0 (Int.ofNat xs.length)).zip xs

/-- xs[i]: none = index out of range (Go panics) -/
def sliceAt {α : Type} (xs : List α) (i : Int) : Option α := if i < 0 then none else xs[i.toNat]?

/-- the operations and callees of the writers, one field per distinct one found in the source.
    Buf = []byte, F = float64, GLine = geometry.Line, GPoint = geometry.Point, GPoly = geometry.Poly, GSeries = geometry.Series (interface, taken to be non-nil), JResult = gjson.Result, TCircle = Circle, TCollection = collection, TExtra = extra, TFeature = Feature, TFeatureCollection = FeatureCollection, TGeometryCollection = GeometryCollection, TLineString = LineString, TMultiLineString = MultiLineString, TMultiPoint = MultiPoint, TMultiPolygon = MultiPolygon, TObject = Object (interface, taken to be non-nil), TPoint = Point, TPolygon = Polygon, TRect = Rect, TSimplePoint = SimplePoint -/
structure Ops (Buf F GLine GPoint GPoly GSeries JResult TCircle TCollection TExtra TFeature TFeatureCollection TGeometryCollection TLineString TMultiLineString TMultiPoint TMultiPolygon TObject TPoint TPolygon TRect TSimplePoint : Type) where
  /-- append(dst, 'c') -/
  bufByte : Buf → Char → Buf
  /-- append(dst, "literal"...) -/
  bufLit : Buf → String → Buf
  /-- the nil []byte -/
  bufNil : Buf
  /-- append(dst, s...) with s a string value -/
  bufStr : Buf → String → Buf
  /-- field X of geometry.Point — geometry/point.go:7 -/
  gPoint_X : GPoint → F
  /-- field Y of geometry.Point — geometry/point.go:7 -/
  gPoint_Y : GPoint → F
  /-- Go: `func (poly *Poly) Empty() bool` — geometry/poly.go:31 -/
  gPoly_Empty : GPoly → Bool
  /-- field Exterior of geometry.Poly — geometry/poly.go:7 -/
  gPoly_Exterior : GPoly → GSeries
  /-- field Holes of geometry.Poly — geometry/poly.go:7 -/
  gPoly_Holes : GPoly → List GSeries
  /-- Go: `NumPoints() int` of the interface geometry.Series — geometry/series.go:52 -/
  gSeries_NumPoints : GSeries → Int
  /-- Go: `PointAt(index int) Point` of the interface geometry.Series — geometry/series.go:54 -/
  gSeries_PointAt : GSeries → Int → GPoint
  /-- the implicit conversion of a geometry.Line (or a pointer to one) to the interface geometry.Series -/
  gSeries_ofGLine : GLine → GSeries
  /-- `func Get(json, path string) Result` of package gjson -/
  gjsonGet : String → String → JResult
  /-- `func GetBytes(json []byte, path string) Result` of package gjson -/
  gjsonGetBytes : Buf → String → JResult
  /-- `func (t Result) Exists() bool` of package gjson -/
  jResult_Exists : JResult → Bool
  /-- `func (t Result) String() string` of package gjson -/
  jResult_String : JResult → String
  /-- `func IsInf(f float64, sign int) bool` of package math -/
  mathIsInf : F → Int → Bool
  /-- `func IsNaN(f float64) (is bool)` of package math -/
  mathIsNaN : F → Bool
  /-- DYNAMIC DISPATCH: the method `AppendJSON(dst []byte) []byte` of the interface Object (object.go:39), implemented by the AppendJSON methods translated below; none = it panics -/
  rec_AppendJSON : TObject → Buf → Option Buf
  /-- len of a string (bytes) -/
  strLen : String → Int
  /-- the slice expression s[lo:hi] (byte offsets); none when Go panics (not 0 ≤ lo ≤ hi ≤ len s) -/
  strSlice : String → Int → Int → Option String
  /-- `func AppendFloat(dst []byte, f float64, fmt byte, prec, bitSize int) []byte` of package strconv -/
  strconvAppendFloat : Buf → F → Char → Int → Int → Buf
  /-- `func Index(s, substr string) int` of package strings -/
  stringsIndex : String → String → Int
  /-- field center of Circle — circle.go:10 -/
  tCircle_center : TCircle → GPoint
  /-- field meters of Circle — circle.go:10 -/
  tCircle_meters : TCircle → F
  /-- field children of collection — collection.go:8 -/
  tCollection_children : TCollection → List TObject
  /-- field extra of collection — collection.go:8 -/
  tCollection_extra : TCollection → Option TExtra
  /-- field dims of extra — object.go:69 -/
  tExtra_dims : TExtra → Int
  /-- field members of extra — object.go:69 -/
  tExtra_members : TExtra → String
  /-- field values of extra — object.go:69 -/
  tExtra_values : TExtra → List F
  /-- field collection of FeatureCollection — featurecollection.go:9 -/
  tFeatureCollection_collection : TFeatureCollection → TCollection
  /-- field base of Feature — feature.go:12 -/
  tFeature_base : TFeature → TObject
  /-- field extra of Feature — feature.go:12 -/
  tFeature_extra : TFeature → Option TExtra
  /-- field collection of GeometryCollection — geometrycollection.go:9 -/
  tGeometryCollection_collection : TGeometryCollection → TCollection
  /-- field base of LineString — linestring.go:8 -/
  tLineString_base : TLineString → GLine
  /-- field extra of LineString — linestring.go:8 -/
  tLineString_extra : TLineString → Option TExtra
  /-- field collection of MultiLineString — multilinestring.go:8 -/
  tMultiLineString_collection : TMultiLineString → TCollection
  /-- field collection of MultiPoint — multipoint.go:8 -/
  tMultiPoint_collection : TMultiPoint → TCollection
  /-- field collection of MultiPolygon — multipolygon.go:8 -/
  tMultiPolygon_collection : TMultiPolygon → TCollection
  /-- field base of Point — point.go:10 -/
  tPoint_base : TPoint → GPoint
  /-- field extra of Point — point.go:10 -/
  tPoint_extra : TPoint → Option TExtra
  /-- field base of Polygon — polygon.go:8 -/
  tPolygon_base : TPolygon → GPoly
  /-- field extra of Polygon — polygon.go:8 -/
  tPolygon_extra : TPolygon → Option TExtra
  /-- Go: `func (g *Rect) Polygon() Object` — rect.go:40 -/
  tRect_Polygon : TRect → TObject
  /-- field Point of SimplePoint — simplepoint.go:5 -/
  tSimplePoint_Point : TSimplePoint → GPoint

variable {Buf F GLine GPoint GPoly GSeries JResult TCircle TCollection TExtra TFeature TFeatureCollection TGeometryCollection TLineString TMultiLineString TMultiPoint TMultiPolygon TObject TPoint TPolygon TRect TSimplePoint : Type}

/-- `Ops` at the type parameters of this file -/
local notation "OPS" => Ops Buf F GLine GPoint GPoly GSeries JResult TCircle TCollection TExtra TFeature TFeatureCollection TGeometryCollection TLineString TMultiLineString TMultiPoint TMultiPolygon TObject TPoint TPolygon TRect TSimplePoint

/-- Go: `func appendJSONFloat(dst []byte, f float64) []byte` — object.go:245 -/
def appendJSONFloat (ops : OPS) (dst : Buf) (f : F) : Option Buf :=
  (if (ops.mathIsNaN f) || (ops.mathIsInf f 0) then
      some (ops.bufLit dst "null")
    else
      some (ops.strconvAppendFloat dst f 'f' (-1) 64))

/-- Go: `func appendJSONPoint(dst []byte, point geometry.Point, ex *extra, idx int) []byte` — object.go:252 -/
def appendJSONPoint (ops : OPS) (dst : Buf) (point : GPoint) (ex : Option TExtra) (idx : Int) : Option Buf :=
  let dst : Buf := ops.bufByte dst '['
  Option.bind (appendJSONFloat ops dst (ops.gPoint_X point)) fun (dst : Buf) =>
  let dst : Buf := ops.bufByte dst ','
  Option.bind (appendJSONFloat ops dst (ops.gPoint_Y point)) fun (dst : Buf) =>
  Option.bind (match ex with
    | some ex =>
      let dims : Int := ops.tExtra_dims ex
      Option.bind (loopM (fun (x' : Int) (st' : Buf) =>
          let i : Int := x'
          let dst : Buf := st'
          let dst : Buf := ops.bufByte dst ','
          Option.bind (sliceAt (ops.tExtra_values ex) ((idx * dims) + i)) fun (e'3 : F) =>
          Option.bind (appendJSONFloat ops dst e'3) fun (dst : Buf) =>
          some dst) (intRange 0 dims) dst) fun (l'5 : Buf) =>
      let dst : Buf := l'5
      some dst
    | none =>
      some dst) fun (j'6 : Buf) =>
  let dst : Buf := j'6
  let dst : Buf := ops.bufByte dst ']'
  some dst

/-- Go: `func (ex *extra) appendJSONExtra(dst []byte, propertiesRequired bool) []byte` — object.go:268 -/
def extra_appendJSONExtra (ops : OPS) (ex : Option TExtra) (dst : Buf) (propertiesRequired : Bool) : Option Buf :=
  Option.bind (match ex with
    | some ex =>
      (if (ops.tExtra_members ex) != "" then
          let dst : Buf := ops.bufByte dst ','
          Option.bind (ops.strSlice (ops.tExtra_members ex) 1 ((ops.strLen (ops.tExtra_members ex)) - 1)) fun (s'1 : String) =>
          let dst : Buf := ops.bufStr dst s'1
          Option.bind (if propertiesRequired then
              Option.bind (if !(ops.jResult_Exists (ops.gjsonGet (ops.tExtra_members ex) "properties")) then
                  let dst : Buf := ops.bufLit dst ",\"properties\":{}"
                  some dst
                else
                  some dst) fun (j'2 : Buf) =>
              let dst : Buf := j'2
              some dst
            else
              some dst) fun (j'3 : Buf) =>
          let dst : Buf := j'3
          some dst
        else
          Option.bind (if propertiesRequired then
              let dst : Buf := ops.bufLit dst ",\"properties\":{}"
              some dst
            else
              some dst) fun (j'4 : Buf) =>
          let dst : Buf := j'4
          some dst)
    | none =>
      Option.bind (if propertiesRequired then
          let dst : Buf := ops.bufLit dst ",\"properties\":{}"
          some dst
        else
          some dst) fun (j'5 : Buf) =>
      let dst : Buf := j'5
      some dst) fun (j'6 : Buf) =>
  let dst : Buf := j'6
  some dst

/-- Go: `func appendJSONSeries( dst []byte, series geometry.Series, ex *extra, pidx int, ) (ndst []byte, npidx int)` — object.go:284 -/
def appendJSONSeries (ops : OPS) (dst : Buf) (series : GSeries) (ex : Option TExtra) (pidx : Int) : Option (Buf × Int) :=
  let dst : Buf := ops.bufByte dst '['
  let nPoints : Int := ops.gSeries_NumPoints series
  Option.bind (loopM (fun (x' : Int) (st' : Buf × Int) =>
      let i : Int := x'
      let dst : Buf := st'.1
      let pidx : Int := st'.2
      Option.bind (if decide (i > 0) then
          let dst : Buf := ops.bufByte dst ','
          some dst
        else
          some dst) fun (j'1 : Buf) =>
      let dst : Buf := j'1
      Option.bind (appendJSONPoint ops dst (ops.gSeries_PointAt series i) ex pidx) fun (dst : Buf) =>
      let pidx : Int := pidx + 1
      some (dst, pidx)) (intRange 0 nPoints) (dst, pidx)) fun (l'3 : Buf × Int) =>
  let dst : Buf := l'3.1
  let pidx : Int := l'3.2
  let dst : Buf := ops.bufByte dst ']'
  some (dst, pidx)

/-- Go: `func (g *Circle) AppendJSON(dst []byte) []byte` — circle.go:34 -/
def Circle_AppendJSON (ops : OPS) (g : TCircle) (dst : Buf) : Option Buf :=
  let dst : Buf := ops.bufLit dst "{\"type\":\"Feature\",\"geometry\":"
  let dst : Buf := ops.bufLit dst "{\"type\":\"Point\",\"coordinates\":["
  Option.bind (appendJSONFloat ops dst (ops.gPoint_X (ops.tCircle_center g))) fun (dst : Buf) =>
  let dst : Buf := ops.bufByte dst ','
  Option.bind (appendJSONFloat ops dst (ops.gPoint_Y (ops.tCircle_center g))) fun (dst : Buf) =>
  let dst : Buf := ops.bufLit dst "]},\"properties\":{\"type\":\"Circle\",\"radius\":"
  Option.bind (appendJSONFloat ops dst (ops.tCircle_meters g)) fun (dst : Buf) =>
  let dst : Buf := ops.bufLit dst ",\"radius_units\":\"m\"}}"
  some dst

/-- Go: `func (g *collection) AppendJSON(dst []byte) []byte` — collection.go:76 -/
def collection_AppendJSON (ops : OPS) (g : TCollection) (dst : Buf) : Option Buf :=
  some (ops.bufLit dst "null")

/-- Go: `func (g *Feature) AppendJSON(dst []byte) []byte` — feature.go:71 -/
def Feature_AppendJSON (ops : OPS) (g : TFeature) (dst : Buf) : Option Buf :=
  let dst : Buf := ops.bufLit dst "{\"type\":\"Feature\",\"geometry\":"
  Option.bind (ops.rec_AppendJSON (ops.tFeature_base g) dst) fun (dst : Buf) =>
  Option.bind (extra_appendJSONExtra ops (ops.tFeature_extra g) dst true) fun (dst : Buf) =>
  let dst : Buf := ops.bufByte dst '}'
  some dst

/-- Go: `func (g *FeatureCollection) AppendJSON(dst []byte) []byte` — featurecollection.go:19 -/
def FeatureCollection_AppendJSON (ops : OPS) (g : TFeatureCollection) (dst : Buf) : Option Buf :=
  let dst : Buf := ops.bufLit dst "{\"type\":\"FeatureCollection\",\"features\":["
  Option.bind (loopM (fun (x' : Int) (st' : Buf) =>
      let i : Int := x'
      let dst : Buf := st'
      Option.bind (if decide (i > 0) then
          let dst : Buf := ops.bufByte dst ','
          some dst
        else
          some dst) fun (j'1 : Buf) =>
      let dst : Buf := j'1
      Option.bind (sliceAt (ops.tCollection_children (ops.tFeatureCollection_collection g)) i) fun (e'2 : TObject) =>
      Option.bind (ops.rec_AppendJSON e'2 dst) fun (dst : Buf) =>
      some dst) (intRange 0 (Int.ofNat (List.length (ops.tCollection_children (ops.tFeatureCollection_collection g))))) dst) fun (l'4 : Buf) =>
  let dst : Buf := l'4
  let dst : Buf := ops.bufByte dst ']'
  Option.bind (if Option.isSome (ops.tCollection_extra (ops.tFeatureCollection_collection g)) then
      Option.bind (extra_appendJSONExtra ops (ops.tCollection_extra (ops.tFeatureCollection_collection g)) dst false) fun (dst : Buf) =>
      some dst
    else
      some dst) fun (j'6 : Buf) =>
  let dst : Buf := j'6
  let dst : Buf := ops.bufByte dst '}'
  let _ : Int := ops.stringsIndex "" " "
  some dst

/-- Go: `func (g *GeometryCollection) AppendJSON(dst []byte) []byte` — geometrycollection.go:19 -/
def GeometryCollection_AppendJSON (ops : OPS) (g : TGeometryCollection) (dst : Buf) : Option Buf :=
  let dst : Buf := ops.bufLit dst "{\"type\":\"GeometryCollection\",\"geometries\":["
  Option.bind (loopM (fun (x' : Int) (st' : Buf) =>
      let i : Int := x'
      let dst : Buf := st'
      Option.bind (if decide (i > 0) then
          let dst : Buf := ops.bufByte dst ','
          some dst
        else
          some dst) fun (j'1 : Buf) =>
      let dst : Buf := j'1
      Option.bind (sliceAt (ops.tCollection_children (ops.tGeometryCollection_collection g)) i) fun (e'2 : TObject) =>
      Option.bind (ops.rec_AppendJSON e'2 dst) fun (dst : Buf) =>
      some dst) (intRange 0 (Int.ofNat (List.length (ops.tCollection_children (ops.tGeometryCollection_collection g))))) dst) fun (l'4 : Buf) =>
  let dst : Buf := l'4
  let dst : Buf := ops.bufByte dst ']'
  Option.bind (if Option.isSome (ops.tCollection_extra (ops.tGeometryCollection_collection g)) then
      Option.bind (extra_appendJSONExtra ops (ops.tCollection_extra (ops.tGeometryCollection_collection g)) dst false) fun (dst : Buf) =>
      some dst
    else
      some dst) fun (j'6 : Buf) =>
  let dst : Buf := j'6
  let dst : Buf := ops.bufByte dst '}'
  let _ : Int := ops.stringsIndex "" " "
  some dst

/-- Go: `func (g *LineString) AppendJSON(dst []byte) []byte` — linestring.go:37 -/
def LineString_AppendJSON (ops : OPS) (g : TLineString) (dst : Buf) : Option Buf :=
  let dst : Buf := ops.bufLit dst "{\"type\":\"LineString\",\"coordinates\":"
  Option.bind (appendJSONSeries ops dst (ops.gSeries_ofGLine (ops.tLineString_base g)) (ops.tLineString_extra g) 0) fun (r'1 : Buf × Int) =>
  let dst : Buf := r'1.1
  Option.bind (if Option.isSome (ops.tLineString_extra g) then
      Option.bind (extra_appendJSONExtra ops (ops.tLineString_extra g) dst false) fun (dst : Buf) =>
      some dst
    else
      some dst) fun (j'3 : Buf) =>
  let dst : Buf := j'3
  let dst : Buf := ops.bufByte dst '}'
  some dst

/-- Go: `func (g *MultiLineString) AppendJSON(dst []byte) []byte` — multilinestring.go:19 -/
def MultiLineString_AppendJSON (ops : OPS) (g : TMultiLineString) (dst : Buf) : Option Buf :=
  let dst : Buf := ops.bufLit dst "{\"type\":\"MultiLineString\",\"coordinates\":["
  Option.bind (loopM (fun (x' : Int × TObject) (st' : Buf) =>
      let i : Int := x'.1
      let g : TObject := x'.2
      let dst : Buf := st'
      Option.bind (if decide (i > 0) then
          let dst : Buf := ops.bufByte dst ','
          some dst
        else
          some dst) fun (j'1 : Buf) =>
      let dst : Buf := j'1
      Option.bind (ops.rec_AppendJSON g ops.bufNil) fun (r'2 : Buf) =>
      let dst : Buf := ops.bufStr dst (ops.jResult_String (ops.gjsonGetBytes r'2 "coordinates"))
      some dst) (enumInt (ops.tCollection_children (ops.tMultiLineString_collection g))) dst) fun (l'3 : Buf) =>
  let dst : Buf := l'3
  let dst : Buf := ops.bufByte dst ']'
  Option.bind (if Option.isSome (ops.tCollection_extra (ops.tMultiLineString_collection g)) then
      Option.bind (extra_appendJSONExtra ops (ops.tCollection_extra (ops.tMultiLineString_collection g)) dst false) fun (dst : Buf) =>
      some dst
    else
      some dst) fun (j'5 : Buf) =>
  let dst : Buf := j'5
  let dst : Buf := ops.bufByte dst '}'
  some dst

/-- Go: `func (g *MultiPoint) AppendJSON(dst []byte) []byte` — multipoint.go:19 -/
def MultiPoint_AppendJSON (ops : OPS) (g : TMultiPoint) (dst : Buf) : Option Buf :=
  let dst : Buf := ops.bufLit dst "{\"type\":\"MultiPoint\",\"coordinates\":["
  Option.bind (loopM (fun (x' : Int × TObject) (st' : Buf) =>
      let i : Int := x'.1
      let g : TObject := x'.2
      let dst : Buf := st'
      Option.bind (if decide (i > 0) then
          let dst : Buf := ops.bufByte dst ','
          some dst
        else
          some dst) fun (j'1 : Buf) =>
      let dst : Buf := j'1
      Option.bind (ops.rec_AppendJSON g ops.bufNil) fun (r'2 : Buf) =>
      let dst : Buf := ops.bufStr dst (ops.jResult_String (ops.gjsonGetBytes r'2 "coordinates"))
      some dst) (enumInt (ops.tCollection_children (ops.tMultiPoint_collection g))) dst) fun (l'3 : Buf) =>
  let dst : Buf := l'3
  let dst : Buf := ops.bufByte dst ']'
  Option.bind (if Option.isSome (ops.tCollection_extra (ops.tMultiPoint_collection g)) then
      Option.bind (extra_appendJSONExtra ops (ops.tCollection_extra (ops.tMultiPoint_collection g)) dst false) fun (dst : Buf) =>
      some dst
    else
      some dst) fun (j'5 : Buf) =>
  let dst : Buf := j'5
  let dst : Buf := ops.bufByte dst '}'
  some dst

/-- Go: `func (g *MultiPolygon) AppendJSON(dst []byte) []byte` — multipolygon.go:19 -/
def MultiPolygon_AppendJSON (ops : OPS) (g : TMultiPolygon) (dst : Buf) : Option Buf :=
  let dst : Buf := ops.bufLit dst "{\"type\":\"MultiPolygon\",\"coordinates\":["
  Option.bind (loopM (fun (x' : Int × TObject) (st' : Buf) =>
      let i : Int := x'.1
      let g : TObject := x'.2
      let dst : Buf := st'
      Option.bind (if decide (i > 0) then
          let dst : Buf := ops.bufByte dst ','
          some dst
        else
          some dst) fun (j'1 : Buf) =>
      let dst : Buf := j'1
      Option.bind (ops.rec_AppendJSON g ops.bufNil) fun (r'2 : Buf) =>
      let dst : Buf := ops.bufStr dst (ops.jResult_String (ops.gjsonGetBytes r'2 "coordinates"))
      some dst) (enumInt (ops.tCollection_children (ops.tMultiPolygon_collection g))) dst) fun (l'3 : Buf) =>
  let dst : Buf := l'3
  let dst : Buf := ops.bufByte dst ']'
  Option.bind (if Option.isSome (ops.tCollection_extra (ops.tMultiPolygon_collection g)) then
      Option.bind (extra_appendJSONExtra ops (ops.tCollection_extra (ops.tMultiPolygon_collection g)) dst false) fun (dst : Buf) =>
      some dst
    else
      some dst) fun (j'5 : Buf) =>
  let dst : Buf := j'5
  let dst : Buf := ops.bufByte dst '}'
  some dst

/-- Go: `func (g *Point) AppendJSON(dst []byte) []byte` — point.go:54 -/
def Point_AppendJSON (ops : OPS) (g : TPoint) (dst : Buf) : Option Buf :=
  let dst : Buf := ops.bufLit dst "{\"type\":\"Point\",\"coordinates\":"
  Option.bind (appendJSONPoint ops dst (ops.tPoint_base g) (ops.tPoint_extra g) 0) fun (dst : Buf) =>
  Option.bind (extra_appendJSONExtra ops (ops.tPoint_extra g) dst false) fun (dst : Buf) =>
  let dst : Buf := ops.bufByte dst '}'
  some dst

/-- Go: `func (g *Polygon) AppendJSON(dst []byte) []byte` — polygon.go:41 -/
def Polygon_AppendJSON (ops : OPS) (g : TPolygon) (dst : Buf) : Option Buf :=
  let dst : Buf := ops.bufLit dst "{\"type\":\"Polygon\",\"coordinates\":["
  Option.bind (if !(ops.gPoly_Empty (ops.tPolygon_base g)) then
      let pidx : Int := 0
      Option.bind (appendJSONSeries ops dst (ops.gPoly_Exterior (ops.tPolygon_base g)) (ops.tPolygon_extra g) pidx) fun (r'1 : Buf × Int) =>
      let dst : Buf := r'1.1
      let pidx : Int := r'1.2
      Option.bind (loopM (fun (x' : GSeries) (st' : Buf × Int) =>
          let hole : GSeries := x'
          let dst : Buf := st'.1
          let pidx : Int := st'.2
          let dst : Buf := ops.bufByte dst ','
          Option.bind (appendJSONSeries ops dst hole (ops.tPolygon_extra g) pidx) fun (r'2 : Buf × Int) =>
          let dst : Buf := r'2.1
          let pidx : Int := r'2.2
          some (dst, pidx)) (ops.gPoly_Holes (ops.tPolygon_base g)) (dst, pidx)) fun (l'3 : Buf × Int) =>
      let dst : Buf := l'3.1
      let pidx : Int := l'3.2
      some dst
    else
      some dst) fun (j'4 : Buf) =>
  let dst : Buf := j'4
  let dst : Buf := ops.bufByte dst ']'
  Option.bind (if Option.isSome (ops.tPolygon_extra g) then
      Option.bind (extra_appendJSONExtra ops (ops.tPolygon_extra g) dst false) fun (dst : Buf) =>
      some dst
    else
      some dst) fun (j'6 : Buf) =>
  let dst : Buf := j'6
  let dst : Buf := ops.bufByte dst '}'
  some dst

/-- Go: `func (g *Rect) AppendJSON(dst []byte) []byte` — rect.go:46 -/
def Rect_AppendJSON (ops : OPS) (g : TRect) (dst : Buf) : Option Buf :=
  ops.rec_AppendJSON (ops.tRect_Polygon g) dst

/-- Go: `func (g *SimplePoint) AppendJSON(dst []byte) []byte` — simplepoint.go:42 -/
def SimplePoint_AppendJSON (ops : OPS) (g : TSimplePoint) (dst : Buf) : Option Buf :=
  let dst : Buf := ops.bufLit dst "{\"type\":\"Point\",\"coordinates\":"
  Option.bind (appendJSONPoint ops dst (ops.tSimplePoint_Point g) none 0) fun (dst : Buf) =>
  let dst : Buf := ops.bufByte dst '}'
  some dst

end Geo.WGen
