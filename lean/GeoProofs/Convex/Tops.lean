/-
  GeoProofs.Convex.Tops — a simple closed chain with left turns and no horizontal edge is
  monotone: one ascending run and one descending run per period.  The combinatorics around
  `noConfigI` / `noConfigII`: take the lowest local top, its neighbouring bottoms and tops.
-/
import GeoProofs.Convex.OneTop

namespace Geo
namespace Cvx

/-- edge `l` goes up -/
def Up (P : Nat → Pt) (l : Nat) : Prop := (P l).y < (P (l+1)).y

instance (P : Nat → Pt) : DecidablePred (Up P) := fun l => by unfold Up; infer_instance

theorem Simple0.per_mul {P : Nat → Pt} {n : Nat} (h : Simple0 P n) (i : Nat) :
    ∀ k, P (i + k * n) = P i
  | 0 => by simp
  | k+1 => by rw [show i + (k+1) * n = (i + k * n) + n from by ring, h.per, h.per_mul i k]

theorem Simple0.per_mod {P : Nat → Pt} {n : Nat} (h : Simple0 P n) (i : Nat) : P i = P (i % n) := by
  conv_lhs => rw [← Nat.mod_add_div i n, mul_comm]
  exact h.per_mul _ _

theorem mod_ne_of_lt {n a b : Nat} (hab : a < b) (hb : b < a + n) : b % n ≠ a % n := by
  intro e
  have h0 := Nat.sub_mod_eq_zero_of_mod_eq e
  rw [Nat.mod_eq_of_lt (by omega)] at h0
  omega

theorem first_after (Q : Nat → Prop) [DecidablePred Q] (r : Nat) (hex : ∃ j, r < j ∧ Q j) :
    ∃ j, r < j ∧ Q j ∧ ∀ l, r < l → l < j → ¬ Q l := by
  classical
  refine ⟨Nat.find hex, (Nat.find_spec hex).1, (Nat.find_spec hex).2, fun l h1 h2 hq => ?_⟩
  exact Nat.find_min hex h2 ⟨h1, hq⟩

theorem last_before (Q : Nat → Prop) [DecidablePred Q] :
    ∀ r, (∃ j, j < r ∧ Q j) → ∃ j, j < r ∧ Q j ∧ ∀ l, j < l → l < r → ¬ Q l
  | 0, ⟨j, hj, _⟩ => absurd hj (Nat.not_lt_zero j)
  | r+1, ⟨j, hj, hq⟩ => by
    by_cases hr : Q r
    · exact ⟨r, Nat.lt_succ_self r, hr, fun l h1 h2 => by omega⟩
    · have hjr : j < r := by
        rcases Nat.lt_succ_iff_lt_or_eq.1 hj with h | h
        · exact h
        · subst h; exact absurd hq hr
      obtain ⟨j', h1, h2, h3⟩ := last_before Q r ⟨j, hjr, hq⟩
      refine ⟨j', by omega, h2, fun l hl1 hl2 => ?_⟩
      rcases Nat.lt_succ_iff_lt_or_eq.1 hl2 with hl | hl
      · exact h3 l hl1 hl
      · subst hl; exact hr

section
variable {P : Nat → Pt} {n : Nat} (h : LT P n)
include h

theorem up_per (l : Nat) : Up P (l + n) ↔ Up P l := by
  unfold Up; rw [show l + n + 1 = (l + 1) + n from by omega, h.per, h.per]

theorem not_up_iff (l : Nat) : ¬ Up P l ↔ (P (l+1)).y < (P l).y := by
  unfold Up
  constructor
  · intro hh; exact lt_of_le_of_ne (not_lt.1 hh) (Ne.symm (h.nh l))
  · intro hh; exact not_lt.2 hh.le

theorem exists_down (a : Nat) : ∃ l, a ≤ l ∧ l < a + n ∧ ¬ Up P l := by
  by_contra hc
  push_neg at hc
  have hA : Asc P a (a+n) := fun l h1 h2 => hc l h1 h2
  have := hA.lt le_rfl (show a < a + n from by have := h.n3; omega) le_rfl
  rw [h.per] at this
  exact lt_irrefl _ this

theorem exists_up (a : Nat) : ∃ l, a ≤ l ∧ l < a + n ∧ Up P l := by
  by_contra hc
  push_neg at hc
  have hD : Desc P a (a+n) := fun l h1 h2 => (not_up_iff h l).1 (hc l h1 h2)
  have := hD.lt le_rfl (show a < a + n from by have := h.n3; omega) le_rfl
  rw [h.per] at this
  exact lt_irrefl _ this

/-- the vertex `l+1` is a local top -/
def TopAt (P : Nat → Pt) (l : Nat) : Prop := Up P l ∧ ¬ Up P (l+1)

instance (P : Nat → Pt) : DecidablePred (TopAt P) := fun l => by unfold TopAt; infer_instance

theorem topAt_per (l : Nat) : TopAt P (l + n) ↔ TopAt P l := by
  unfold TopAt
  rw [show l + n + 1 = (l + 1) + n from by omega, up_per h, up_per h]

theorem topAt_mul (l k : Nat) : TopAt P (l + k * n) ↔ TopAt P l := by
  induction k with
  | zero => simp
  | succ k ih => rw [show l + (k+1) * n = (l + k * n) + n from by ring, topAt_per h, ih]

theorem topAt_mod (l : Nat) : TopAt P l ↔ TopAt P (l % n) := by
  conv_lhs => rw [← Nat.mod_add_div l n, mul_comm]
  exact topAt_mul h _ _

theorem top_height_mod (l : Nat) : (P (l + 1)).y = (P (l % n + 1)).y := by
  rw [h.per_mod (l+1), h.per_mod (l % n + 1), Nat.add_mod l 1 n, Nat.add_mod (l % n) 1 n,
    Nat.mod_mod]

/-- a lowest local top, in the first period -/
theorem exists_lowest_top (l1 : Nat) (h1 : TopAt P l1) :
    ∃ m, m < n ∧ TopAt P m ∧ ∀ l, TopAt P l → (P (m+1)).y ≤ (P (l+1)).y := by
  have hn : 0 < n := by have := h.n3; omega
  have hne : (List.range n).filter (fun l => decide (TopAt P l)) ≠ [] := by
    intro he
    have : l1 % n ∈ (List.range n).filter (fun l => decide (TopAt P l)) := by
      rw [List.mem_filter, List.mem_range]
      exact ⟨Nat.mod_lt _ hn, by simpa using (topAt_mod h l1).1 h1⟩
    rw [he] at this; cases this
  obtain ⟨m, hm, hmin⟩ := IX.exists_min_list (fun l => (P (l+1)).y) _ hne
  rw [List.mem_filter, List.mem_range] at hm
  refine ⟨m, hm.1, by simpa using hm.2, fun l hl => ?_⟩
  rw [top_height_mod h l]
  refine hmin (l % n) ?_
  rw [List.mem_filter, List.mem_range]
  exact ⟨Nat.mod_lt _ hn, by simpa using (topAt_mod h l).1 hl⟩

/-- core: a lowest top at edge `c` (vertex `c+1`) and another top strictly inside the period
    before it are contradictory -/
theorem two_tops_core (c : Nat) (hc : TopAt P c)
    (hlow : ∀ l, TopAt P l → (P (c+1)).y ≤ (P (l+1)).y) (hcn : n ≤ c)
    (ev : Nat) (hev : TopAt P ev) (hev1 : c < ev + n) (hev2 : ev < c) : False := by
  -- last down edge before `c`
  obtain ⟨j0, hj0, hd0, hw0⟩ := last_before (fun j => ¬ Up P j) c (by
    obtain ⟨l, a1, a2, a3⟩ := exists_down h (c - n)
    exact ⟨l, by omega, a3⟩)
  have hev0 : ev + 1 ≤ j0 := by
    by_contra hcon
    have hne : ev + 1 ≠ c := fun e => hev.2 (e ▸ hc.1)
    exact hw0 (ev+1) (by omega) (by omega) hev.2
  -- last up edge before `j0`
  obtain ⟨j1, hj1, hu1, hw1⟩ := last_before (fun j => Up P j) j0 ⟨ev, by omega, hev.1⟩
  have hev1' : ev ≤ j1 := by
    by_contra hcon
    exact hw1 ev (by omega) (by omega) hev.1
  -- first up edge after `c`
  obtain ⟨j2, hj2, hu2, hw2⟩ := first_after (fun j => Up P j) c (by
    obtain ⟨l, a1, a2, a3⟩ := exists_up h (c + 1)
    exact ⟨l, by omega, a3⟩)
  have hj2' : c + 1 < j2 := by
    have hne : j2 ≠ c + 1 := fun e => hc.2 (e ▸ hu2)
    omega
  -- first down edge after `j2`
  obtain ⟨j3, hj3, hd3, hw3⟩ := first_after (fun j => ¬ Up P j) j2 (by
    obtain ⟨l, a1, a2, a3⟩ := exists_down h (j2 + 1)
    exact ⟨l, by omega, a3⟩)
  have up_of : ∀ l, ¬ ¬ Up P l → Up P l := fun l hl => not_not.1 hl
  -- the neighbouring tops
  have htop1 : TopAt P j1 := by
    refine ⟨hu1, ?_⟩
    by_cases e : j1 + 1 = j0
    · rw [e]; exact hd0
    · exact hw1 (j1+1) (by omega) (by omega)
  have htop3 : TopAt P (j3 - 1) := by
    refine ⟨?_, by rw [show j3 - 1 + 1 = j3 from by omega]; exact hd3⟩
    by_cases e : j3 - 1 = j2
    · rw [e]; exact hu2
    · exact up_of _ (hw3 (j3 - 1) (by omega) (by omega))
  -- the period bound
  have hb2 : j2 ≤ j1 + n := by
    by_contra hcon
    exact hw2 (j1 + n) (by omega) (by omega) ((up_per h j1).2 hu1)
  have hb3 : j3 ≤ j1 + n + 1 := by
    by_contra hcon
    have hdn : ¬ Up P (j1 + 1 + n) := fun hh => htop1.2 ((up_per h (j1+1)).1 hh)
    by_cases e : j1 + 1 + n = j2
    · exact hdn (e ▸ hu2)
    · exact hw3 (j1 + 1 + n) (by omega) (by omega) hdn
  -- the monotone runs
  have hDt : Desc P (j1+1) (j0+1) := fun l a1 a2 => by
    rw [← not_up_iff h]
    by_cases e : l = j0
    · rw [e]; exact hd0
    · exact hw1 l (by omega) (by omega)
  have hAs : Asc P (j0+1) (c+1) := fun l a1 a2 => by
    by_cases e : l = c
    · rw [e]; exact hc.1
    · exact up_of _ (hw0 l (by omega) (by omega))
  have hDc : Desc P (c+1) j2 := fun l a1 a2 => by
    rw [← not_up_iff h]
    by_cases e : l = c + 1
    · rw [e]; exact hc.2
    · exact hw2 l (by omega) a2
  have hAr : Asc P j2 j3 := fun l a1 a2 => by
    by_cases e : l = j2
    · rw [e]; exact hu2
    · exact up_of _ (hw3 l (by omega) a2)
  have hT1 : (P (c+1)).y ≤ (P (j1+1)).y := hlow j1 htop1
  have hT3 : (P (c+1)).y ≤ (P j3).y := by
    have := hlow (j3 - 1) htop3
    rwa [show j3 - 1 + 1 = j3 from by omega] at this
  rcases le_total (P j2).y (P (j0+1)).y with hB | hB
  · exact noConfigI h (t := j1+1) (u := j0) (w := c) (s := j2) (by omega) (by omega) hj2'
      (by omega) hDt hAs hDc hT1 hB
  · obtain ⟨w, rfl⟩ : ∃ w, j2 = w + 1 := ⟨j2 - 1, by omega⟩
    exact noConfigII h (t := j0+1) (u := c) (w := w) (s := j3) (by omega) (by omega) hj3
      (by omega) hAs hDc hAr hB hT3

/-- two distinct local tops within a period are contradictory -/
theorem two_tops_false (l1 l2 : Nat) (h1 : TopAt P l1) (h2 : TopAt P l2) (h12 : l1 < l2)
    (h21 : l2 < l1 + n) : False := by
  have hn : 0 < n := by have := h.n3; omega
  obtain ⟨m, hm, hmt, hlow⟩ := exists_lowest_top h l1 h1
  have hc : TopAt P (m + 2 * n) := (topAt_mul h m 2).2 hmt
  have hh : (P (m + 2 * n + 1)).y = (P (m + 1)).y := by
    rw [show m + 2 * n + 1 = (m + 1) + 2 * n from by ring, h.per_mul]
  obtain ⟨e, he, hem, het⟩ : ∃ e, e < n ∧ e ≠ m ∧ TopAt P e := by
    by_cases c1 : l1 % n = m
    · refine ⟨l2 % n, Nat.mod_lt _ hn, ?_, (topAt_mod h l2).1 h2⟩
      rw [← c1]; exact mod_ne_of_lt h12 h21
    · exact ⟨l1 % n, Nat.mod_lt _ hn, c1, (topAt_mod h l1).1 h1⟩
  rcases Nat.lt_or_gt_of_ne hem with hlt | hgt
  · exact two_tops_core h (m + 2 * n) hc (fun l hl => by rw [hh]; exact hlow l hl) (by omega)
      (e + 2 * n) ((topAt_mul h e 2).2 het) (by omega) (by omega)
  · exact two_tops_core h (m + 2 * n) hc (fun l hl => by rw [hh]; exact hlow l hl) (by omega)
      (e + n) ((topAt_per h e).2 het) (by omega) (by omega)

/-- MONOTONICITY: one ascending run and one descending run per period -/
theorem monotone_period : ∃ b r, b < r ∧ r < b + n ∧ Asc P b r ∧ Desc P r (b + n) := by
  have up_of : ∀ l, ¬ ¬ Up P l → Up P l := fun l hl => not_not.1 hl
  obtain ⟨d, -, -, hd⟩ := exists_down h 0
  obtain ⟨b, hb, hub, hwb⟩ := first_after (fun j => Up P j) d (by
    obtain ⟨l, a1, a2, a3⟩ := exists_up h (d + 1); exact ⟨l, by omega, a3⟩)
  have hdb : ¬ Up P (b + n - 1) := by
    have e : b + n - 1 = (b - 1) + n := by omega
    rw [e, up_per h]
    by_cases e' : b - 1 = d
    · rw [e']; exact hd
    · exact hwb (b-1) (by omega) (by omega)
  obtain ⟨r, hr, hdr, hwr⟩ := first_after (fun j => ¬ Up P j) b (by
    obtain ⟨l, a1, a2, a3⟩ := exists_down h (b + 1); exact ⟨l, by omega, a3⟩)
  have hrn : r < b + n := by
    obtain ⟨l, a1, a2, a3⟩ := exists_down h b
    have : l ≠ b := fun e => a3 (e ▸ hub)
    by_contra hcon
    exact hwr l (by omega) (by omega) a3
  obtain ⟨b', hb', hub', hwb'⟩ := first_after (fun j => Up P j) r
    ⟨b + n, hrn, (up_per h b).2 hub⟩
  have hAs : Asc P b r := fun l a1 a2 => by
    by_cases e : l = b
    · rw [e]; exact hub
    · exact up_of _ (hwr l (by omega) a2)
  have hb'n : b' ≤ b + n := by
    by_contra hcon
    exact hwb' (b + n) hrn (by omega) ((up_per h b).2 hub)
  have hDs : Desc P r b' := fun l a1 a2 => by
    rw [← not_up_iff h]
    by_cases e : l = r
    · rw [e]; exact hdr
    · exact hwb' l (by omega) a2
  by_cases hbb : b' = b + n
  · exact ⟨b, r, hr, hrn, hAs, hbb ▸ hDs⟩
  · exfalso
    obtain ⟨r', hr', hdr', hwr'⟩ := first_after (fun j => ¬ Up P j) b'
      ⟨r + n, by omega, fun hh => hdr ((up_per h r).1 hh)⟩
    have hr'n : r' < r + n := by
      by_contra hcon
      have hne : b' ≠ b + n - 1 := fun e => hdb (e ▸ hub')
      exact hwr' (b + n - 1) (by omega) (by omega) hdb
    have t1 : TopAt P (r - 1) := by
      refine ⟨?_, by rw [show r - 1 + 1 = r from by omega]; exact hdr⟩
      exact hAs (r-1) (by omega) (by omega)
    have t2 : TopAt P (r' - 1) := by
      refine ⟨?_, by rw [show r' - 1 + 1 = r' from by omega]; exact hdr'⟩
      by_cases e : r' - 1 = b'
      · rw [e]; exact hub'
      · exact up_of _ (hwr' (r'-1) (by omega) (by omega))
    exact two_tops_false h (r-1) (r'-1) t1 t2 (by omega) (by omega)

end

end Cvx
end Geo
