/-
  GeoProofs.Float.Quot — correctly rounded quotients of small integers keep their order.

  For integers p q r s, q s ≠ 0, all magnitudes < 2^26:  two distinct quotients differ by
  |ps - qr| / |qs| ≥ 1/|qs|, whereas two reals rounding to the same double z differ by at most
  2^-53 (|p/q| + |r/s|) = 2^-53 (|p||s| + |r||q|) / |qs| < 2^-53 · 2 · 2^52 / |qs| = 1/|qs|.
  So distinct quotients round to distinct doubles, and by monotonicity in the same order.
-/
import GeoProofs.Float.Exact

namespace Geo.F

theorem abs_quot_ge {p q : ℤ} (hp : p ≠ 0) (hq : q ≠ 0) (hq' : |q| < 2 ^ 26) :
    (2 : ℚ) ^ (-1022 : ℤ) ≤ |(p : ℚ) / q| := by
  have h1 : (1 : ℚ) ≤ |(p : ℚ)| := by exact_mod_cast Int.one_le_abs hp
  have h2 : |(q : ℚ)| < 2 ^ 26 := by exact_mod_cast hq'
  have h3 : (0 : ℚ) < |(q : ℚ)| := abs_pos.mpr (by exact_mod_cast hq)
  rw [abs_div, le_div_iff₀ h3]
  have : (2 : ℚ) ^ (-1022 : ℤ) ≤ 2 ^ (-26 : ℤ) := two_zpow_le (by norm_num)
  have h4 : (2 : ℚ) ^ (-26 : ℤ) * 2 ^ 26 = 1 := by norm_num
  nlinarith [two_zpow_pos (-1022)]

/-- strict order of quotients survives rounding -/
theorem rn_quot_lt {p q r s : ℤ} (hq : q ≠ 0) (hs : s ≠ 0)
    (bp : |p| < 2 ^ 26) (bq : |q| < 2 ^ 26) (br : |r| < 2 ^ 26) (bs : |s| < 2 ^ 26)
    (h : (p : ℚ) / q < r / s) : rn ((p : ℚ) / q) < rn ((r : ℚ) / s) := by
  apply lt_of_le_of_ne (rn_mono h.le)
  intro heq
  have hq0 : (q : ℚ) ≠ 0 := by exact_mod_cast hq
  have hs0 : (s : ℚ) ≠ 0 := by exact_mod_cast hs
  -- relative errors
  have ex : |rn ((p : ℚ) / q) - p / q| ≤ |(p : ℚ) / q| * 2 ^ (-53 : ℤ) := by
    apply rn_rel_error
    by_cases hp : p = 0
    · left; simp [hp]
    · right; exact abs_quot_ge hp hq bq
  have ey : |rn ((r : ℚ) / s) - r / s| ≤ |(r : ℚ) / s| * 2 ^ (-53 : ℤ) := by
    apply rn_rel_error
    by_cases hr : r = 0
    · left; simp [hr]
    · right; exact abs_quot_ge hr hs bs
  rw [heq] at ex
  -- the gap
  have hgap : (r : ℚ) / s - p / q ≤ (|(p : ℚ) / q| + |(r : ℚ) / s|) * 2 ^ (-53 : ℤ) := by
    have h1 := abs_le.mp ex
    have h2 := abs_le.mp ey
    linarith
  have hQS : (0 : ℚ) < |(q : ℚ)| * |(s : ℚ)| := mul_pos (abs_pos.mpr hq0) (abs_pos.mpr hs0)
  -- the numerator of the gap is a non-zero integer
  have hne : r * q - p * s ≠ 0 := by
    intro h0
    have : (r : ℚ) * q - p * s = 0 := by exact_mod_cast h0
    have : (p : ℚ) / q = r / s := by
      rw [div_eq_div_iff hq0 hs0]; linarith
    linarith
  have hint : (1 : ℚ) ≤ |(r : ℚ) * q - p * s| := by
    exact_mod_cast Int.one_le_abs hne
  have hdiff : ((r : ℚ) / s - p / q) * (|(q : ℚ)| * |(s : ℚ)|) = |(r : ℚ) * q - p * s| := by
    have hpos : 0 < (r : ℚ) / s - p / q := by linarith
    have e : (r : ℚ) / s - p / q = (r * q - p * s) / (q * s) := by field_simp
    rw [← abs_of_pos hpos, e, abs_div, abs_mul]
    field_simp
  have hsum : (|(p : ℚ) / q| + |(r : ℚ) / s|) * (|(q : ℚ)| * |(s : ℚ)|)
      = |(p : ℚ)| * |(s : ℚ)| + |(r : ℚ)| * |(q : ℚ)| := by
    rw [abs_div, abs_div]
    have := abs_pos.mpr hq0; have := abs_pos.mpr hs0
    field_simp
  have B : ∀ n : ℤ, |n| < 2 ^ 26 → |(n : ℚ)| ≤ 2 ^ 26 - 1 := by
    intro n hn
    have : |n| ≤ 2 ^ 26 - 1 := by omega
    exact_mod_cast this
  have hP := B p bp; have hQ := B q bq; have hR := B r br; have hS := B s bs
  have hps : |(p : ℚ)| * |(s : ℚ)| ≤ (2 ^ 26 - 1) * (2 ^ 26 - 1) :=
    mul_le_mul hP hS (abs_nonneg _) (by norm_num)
  have hrq : |(r : ℚ)| * |(q : ℚ)| ≤ (2 ^ 26 - 1) * (2 ^ 26 - 1) :=
    mul_le_mul hR hQ (abs_nonneg _) (by norm_num)
  have key := mul_le_mul_of_nonneg_right hgap hQS.le
  rw [hdiff, mul_right_comm, hsum] at key
  have h53 : (2 : ℚ) ^ (-53 : ℤ) = 1 / 2 ^ 53 := by norm_num
  rw [h53] at key
  have : (|(p : ℚ)| * |(s : ℚ)| + |(r : ℚ)| * |(q : ℚ)|) * (1 / 2 ^ 53) < 1 := by
    have : |(p : ℚ)| * |(s : ℚ)| + |(r : ℚ)| * |(q : ℚ)| < 2 ^ 53 := by
      have : ((2 : ℚ) ^ 26 - 1) * (2 ^ 26 - 1) + (2 ^ 26 - 1) * (2 ^ 26 - 1) < 2 ^ 53 := by
        norm_num
      linarith
    rw [mul_one_div, div_lt_one (by norm_num)]; exact this
  linarith

section
variable {p q r s : ℤ} (hq : q ≠ 0) (hs : s ≠ 0)
    (bp : |p| < 2 ^ 26) (bq : |q| < 2 ^ 26) (br : |r| < 2 ^ 26) (bs : |s| < 2 ^ 26)
include hq hs bp bq br bs

theorem rn_quot_lt_iff : rn ((p : ℚ) / q) < rn ((r : ℚ) / s) ↔ (p : ℚ) / q < r / s := by
  constructor
  · intro h; by_contra hn
    exact absurd (rn_mono (not_lt.mp hn)) (not_le.mpr h)
  · exact rn_quot_lt hq hs bp bq br bs

theorem rn_quot_le_iff : rn ((p : ℚ) / q) ≤ rn ((r : ℚ) / s) ↔ (p : ℚ) / q ≤ r / s := by
  rw [← not_lt, ← not_lt, rn_quot_lt_iff hs hq br bs bp bq]

theorem rn_quot_eq_iff : rn ((p : ℚ) / q) = rn ((r : ℚ) / s) ↔ (p : ℚ) / q = r / s := by
  rw [le_antisymm_iff, le_antisymm_iff, rn_quot_le_iff hq hs bp bq br bs,
    rn_quot_le_iff hs hq br bs bp bq]
end

/-! ### the same for quotients of coordinate differences on E -/

theorem D1.quot {a b : ℚ} (ha : D1 a) (hb : D1 b) (hb0 : b ≠ 0) :
    ∃ p q : ℤ, q ≠ 0 ∧ |p| < 2 ^ 26 ∧ |q| < 2 ^ 26 ∧ a / b = (p : ℚ) / q := by
  obtain ⟨p, hp, rfl⟩ := ha; obtain ⟨q, hq, rfl⟩ := hb
  refine ⟨p, q, ?_, by omega, by omega, ?_⟩
  · rintro rfl; simp at hb0
  · field_simp

section
variable {a b c d : ℚ} (ha : D1 a) (hb : D1 b) (hc : D1 c) (hd : D1 d) (hb0 : b ≠ 0) (hd0 : d ≠ 0)
include ha hb hc hd hb0 hd0

/-- `==` on two float quotients of coordinate differences decides as over ℚ -/
theorem fdiv_eq_iff : fdiv a b = fdiv c d ↔ a / b = c / d := by
  obtain ⟨p, q, hq, bp, bq, e1⟩ := ha.quot hb hb0
  obtain ⟨r, s, hs, br, bs, e2⟩ := hc.quot hd hd0
  unfold fdiv; rw [e1, e2]; exact rn_quot_eq_iff hq hs bp bq br bs

/-- `<=` / `>=` on two float quotients of coordinate differences decides as over ℚ -/
theorem fdiv_le_iff : fdiv a b ≤ fdiv c d ↔ a / b ≤ c / d := by
  obtain ⟨p, q, hq, bp, bq, e1⟩ := ha.quot hb hb0
  obtain ⟨r, s, hs, br, bs, e2⟩ := hc.quot hd hd0
  unfold fdiv; rw [e1, e2]; exact rn_quot_le_iff hq hs bp bq br bs
end

end Geo.F
