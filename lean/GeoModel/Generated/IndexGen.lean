/-
  GENERATED FILE — do not edit.  Regenerate with
      cd /verif/translate && go build -o bin/translate . && \
        ./bin/translate index /repo > /verif/lean/GeoModel/Generated/IndexGen.lean

  Syntactic translation (translate/index.go) of the segment index of package geometry:
  geometry/qtree.go (quadtree) and geometry/rtree.go (R-tree) — every function of the two files.

  Conventions:
    * float64 ↦ an abstract F with [Geo.KNum F] (GeoModel/KNum.lean): + - * / ↦ +ₖ -ₖ *ₖ /ₖ, comparisons
      ↦ <ₖ ≤ₖ >ₖ ≥ₖ ==ₖ !=ₖ (a > b is b < a, as Go derives it), a literal n ↦ KNum.ofNat n;
      int ↦ Int (unbounded); uint32 / uint16 / uint64 / byte ↦ Nat; conversions: int → unsigned ↦
      intToU bits (two's-complement truncation), unsigned → narrower unsigned ↦ % 2^bits,
      unsigned → int ↦ Int.ofNat, widening ↦ identity; constants of the two files ↦ Int definitions;
    * Point, Rect and the structs of the two files ↦ generated structures (field list and order from the
      struct declarations); a fixed array [N]T with N ≤ 4 ↦ N fields / N variables (x[i] with a constant
      or unrolled i ↦ the i-th; with a computed i ↦ arrSelN / arrSetN, none = index out of range), a
      longer array or a slice ↦ List (x[i] ↦ listAt, x[i] = v ↦ listSet, none = out of range);
    * a struct that refers to itself through pointers (qNode: quads [4]*qNode) ↦ an inductive type that
      stands for the POINTER: constructor nil, constructor mk with the fields; new(T) ↦ mk of the zero
      values; p == nil ↦ T.isNil p; a method with a pointer receiver whose body uses the receiver starts
      with  match n with | .mk fields… => body | .nil => none  (a nil receiver is a Go panic at its first
      field access) and works on the field variables n_field; the receiver as a whole ↦ T.mk n_field…;
    * a method that stores through its receiver returns the new receiver (first component of the result);
      a call  path.m(args)  of such a method reads the path, calls, and stores the result back to the
      path (the nodes of the trees are uniquely owned: no two paths alias);
    * []byte ↦ an abstract D; every operation on it is a field of  ops : Ops F S SR D  (bytes are Nat):
      reads b[i], b[lo:], binary.LittleEndian.UintNN(b) are partial (Option, none = Go panic), append ↦
      bytesAppend, PutUintNN(b[lo:], v) ↦ putUintNN b lo v returning the new b (none = Go panic);
      every other callee not translated here (methods of *baseSeries ↦ SR, Segment ↦ S, Rect, the math
      functions) is a field of ops as well, with its Go signature; callees are taken to be pure;
    * a function returns Option exactly when its body contains a step that can panic (none = Go panic),
      calls such a function, contains a loop, or needs fuel; steps are bound in evaluation order with
      do-notation (plain Option.bind: no mutable variables, no for, no early return are used);
    * a statement list becomes one expression; assignments shadow; an if / switch (↦ if-else chain in
      source order) that is last in its block, or at most one arm of which falls through, is translated
      in continuation style (the following statements are copied into the arms); any other if is
      joined:  let (assigned variables) := if … then … else …  (← when an arm can panic); when an arm
      returns, the arms yield Exit.done (assigned variables) / Exit.ret (returned value);
    * for i := lo; i < hi; i++ (hi not depending on what the body assigns) ↦ loopM / loopF (intRange lo hi)
      state body, for _, x := range xs ↦ the same over xs; state = the outer variables the body assigns;
      loopF when the body contains return / break: end of body / continue ↦ Flow.next, break ↦ Flow.brk,
      return e ↦ Flow.ret e;  a loop with constant bounds (at most 4 iterations) whose body indexes a
      fixed array with the loop variable is UNROLLED (the variable becomes the literal);
    * recursion: structural when every recursive call is on a constant-indexed child of the receiver
      (compress, search: after unrolling, the call is on a pattern variable of the match); otherwise an
      explicit  fuel : Nat  (insert: at most 2 per level, depth ≤ qMaxDepth; the compressed searches,
      which read child addresses from the bytes: depth ≤ len(data)), none when exhausted; a function
      that calls a fuelled function passes its fuel on;
    * the callback  iter func(seg Segment, item int) bool  ↦  iter : σ → S → Int → σ × Bool  and a state
      st' : σ threaded through the body; a function with a callback returns (final state, result).
    * interface{} ↦ Dyn F: nil or one constructor per dynamic type the source asserts (x.(*rNode),
      x.(int)); x.(T) ↦ Dyn.asT x (Option, none = Go panic); a value stored where an interface{} is
      expected is wrapped in its constructor; the structs that hold interface{} values (rRect, rNode)
      are inductive types generated in one mutual block with Dyn, with projection functions; a pointer
      to such a plain struct (*rRect, *rNode) is passed as the value;
    * PATHS: x := &path, x := path.(*T) and x := y (y the receiver or such an x) make x a NAME FOR THE
      PATH (root variable, fields, list indices evaluated once at the declaration, type assertions):
      every read through x re-reads the path, every store through x (x.f = v, x.m() for a mutator m)
      rebuilds the root variable; a local p := new(T) that is stored into a structure (s.data = p)
      denotes that place from then on.  Struct values are copied; Go's copies of an rRect share the node
      their data points to, which is sound here because at most one copy is used afterwards (the source
      overwrites or abandons the other) — this ownership discipline is NOT checked by the translator;
    * a pointer parameter the body stores through (fit's target, splitLargestAxisEdgeSnap's right) is an
      in-out parameter: passed as the value, its final value returned after the receiver; the caller's
      &path argument is read before and stored back after the call;
    * a for loop whose body assigns the loop variable, or whose bound depends on what the body
      assigns, ↦ loopW fuel state cond body (cond, body and post each pass; the function gets a fuel
      parameter, none when exhausted);
    * s == nil on a []float64 ↦ ops.floatsIsNil s (the elements do not determine it); a [N]byte array ↦ D
      (ops.bytesZero N), b[:] of it ↦ itself; x.a[:] of a fixed array ↦ the list of its elements;
      panic(…) ↦ none; make([]T, n) ↦ List.replicate n.toNat zero (a negative n, a Go panic, gives []);
      the second callback type func(min, max []float64, value interface{}) bool ↦
      iter : σ → List F → List F → Dyn F → σ × Bool.
  Anything outside the recognised subset appears below as  opaque <name>_unrecognised : Unit  with the
  reason; a function that calls an unrecognised function is unrecognised itself.
-/
import GeoModel.KNum

set_option linter.unusedVariables false

namespace Geo.IGen
open scoped Geo.KNum

/-- how one pass through a loop body ends -/
inductive Flow (σ ρ : Type) where
  | next (s : σ) : Flow σ ρ
  | brk (s : σ) : Flow σ ρ
  | ret (r : ρ) : Flow σ ρ

/-- how a loop (or an if with a returning arm) ends: normally with the final state, or by return r -/
inductive Exit (σ ρ : Type) where
  | done (s : σ) : Exit σ ρ
  | ret (r : ρ) : Exit σ ρ

/-- a loop without return / break: structural recursion over the list of iterations; none = a Go panic -/
def loopM {ε σ : Type} : List ε → σ → (ε → σ → Option σ) → Option σ
  | [], s, _ => some s
  | x :: xs, s, body =>
    match body x s with
    | none => none
    | some s' => loopM xs s' body

/-- a loop with return / break -/
def loopF {ε σ ρ : Type} : List ε → σ → (ε → σ → Option (Flow σ ρ)) → Option (Exit σ ρ)
  | [], s, _ => some (Exit.done s)
  | x :: xs, s, body =>
    match body x s with
    | none => none
    | some (Flow.next s') => loopF xs s' body
    | some (Flow.brk s') => some (Exit.done s')
    | some (Flow.ret r) => some (Exit.ret r)

/-- a general loop (its body assigns the loop variable or what the bound depends on): cond, body,
    post each pass; fuel bounds the number of passes, none when exhausted -/
def loopW {σ ρ : Type} : Nat → σ → (σ → Option Bool) → (σ → Option (Flow σ ρ)) → Option (Exit σ ρ)
  | 0, _, _, _ => none
  | fuel+1, s, cond, body =>
    match cond s with
    | none => none
    | some false => some (Exit.done s)
    | some true =>
      match body s with
      | none => none
      | some (Flow.next s') => loopW fuel s' cond body
      | some (Flow.brk s') => some (Exit.done s')
      | some (Flow.ret r) => some (Exit.ret r)

/-- the values lo, lo+1, …, hi-1 of a counted loop -/
def intRange (lo hi : Int) : List Int := (List.range (hi - lo).toNat).map (fun k => lo + Int.ofNat k)

/-- xs[i] on a slice / long array; none = index out of range (a Go panic) -/
def listAt {α : Type} (xs : List α) (i : Int) : Option α :=
  if i < 0 then none else xs[i.toNat]?

/-- xs[i] = v; none = index out of range (a Go panic) -/
def listSet {α : Type} (xs : List α) (i : Int) (v : α) : Option (List α) :=
  if i < 0 then none else if i.toNat < xs.length then some (xs.set i.toNat v) else none

/-- a[i] on an array of 2 kept as 2 variables; none = index out of range (a Go panic) -/
def arrSel2 {α : Type} (a0 a1 : α) (i : Int) : Option α :=
  if i == 0 then some a0 else if i == 1 then some a1 else none

/-- a[i] = v on an array of 2 kept as 2 variables -/
def arrSet2 {α : Type} (a0 a1 : α) (i : Int) (v : α) : Option (α × α) :=
  if i == 0 then some (v, a1) else if i == 1 then some (a0, v) else none

/-- a[i] on an array of 4 kept as 4 variables; none = index out of range (a Go panic) -/
def arrSel4 {α : Type} (a0 a1 a2 a3 : α) (i : Int) : Option α :=
  if i == 0 then some a0 else if i == 1 then some a1 else if i == 2 then some a2 else if i == 3 then some a3 else none

/-- a[i] = v on an array of 4 kept as 4 variables -/
def arrSet4 {α : Type} (a0 a1 a2 a3 : α) (i : Int) (v : α) : Option (α × α × α × α) :=
  if i == 0 then some (v, a1, a2, a3) else if i == 1 then some (a0, v, a2, a3)
  else if i == 2 then some (a0, a1, v, a3) else if i == 3 then some (a0, a1, a2, v) else none

/-- the conversion of an int to an unsigned type of the given width (two's complement truncation) -/
def intToU (bits : Nat) (x : Int) : Nat := (x % ((2 : Int) ^ bits)).toNat

/-- Go: `const qMaxItems` — geometry/qtree.go:7 -/
def qMaxItems : Int := 32

/-- Go: `const qMaxDepth` — geometry/qtree.go:8 -/
def qMaxDepth : Int := 16

/-- Go: `const rDims` — geometry/rtree.go:8 -/
def rDims : Int := 2

/-- Go: `const rMaxEntries` — geometry/rtree.go:9 -/
def rMaxEntries : Int := 16

/-- Go: `type Point struct` — geometry/point.go:7 -/
structure Point (F : Type) where
  /-- Go: field `X` — geometry/point.go:8 -/
  x : F
  /-- Go: field `Y` — geometry/point.go:8 -/
  y : F

/-- Go: `type Rect struct` — geometry/rect.go:7 -/
structure Rect (F : Type) where
  /-- Go: field `Min` — geometry/rect.go:8 -/
  min : Point F
  /-- Go: field `Max` — geometry/rect.go:8 -/
  max : Point F

/-- Go: `type qNode struct` — geometry/qtree.go:10; the Lean type stands for `*qNode`: nil or a node -/
inductive QNode where
  | nil : QNode
  | mk (split : Bool) (items : List Nat) (quads0 quads1 quads2 quads3 : QNode) : QNode

/-- Go: `p == nil` on a `*qNode` -/
def QNode.isNil : QNode → Bool
  | .nil => true
  | _ => false

mutual
/-- Go: an `interface{}` value: nil, or one of the dynamic types the source asserts (`x.(T)`) -/
inductive Dyn (F : Type) where
  | nil : Dyn F
  | rNode (v : RNode F) : Dyn F
  | int (v : Int) : Dyn F
/-- Go: `type rRect struct` — geometry/rtree.go:11 (an inductive type: it holds interface{} values) -/
inductive RRect (F : Type) where
  | mk (data : Dyn F) (min0 : F) (min1 : F) (max0 : F) (max1 : F) : RRect F
/-- Go: `type rNode struct` — geometry/rtree.go:16 (an inductive type: it holds interface{} values) -/
inductive RNode (F : Type) where
  | mk (count : Int) (rects : List (RRect F)) : RNode F
end

/-- Go: `x == nil` on an interface{} value -/
def Dyn.isNil {F : Type} : Dyn F → Bool
  | .nil => true
  | _ => false

/-- Go: the type assertion `x.(*rNode)`; none = another dynamic type or nil (a Go panic) -/
def Dyn.asRNode {F : Type} : Dyn F → Option (RNode F)
  | .rNode v => some v
  | _ => none

/-- Go: the type assertion `x.(int)`; none = another dynamic type or nil (a Go panic) -/
def Dyn.asInt {F : Type} : Dyn F → Option Int
  | .int v => some v
  | _ => none

/-- Go: field `data` of `rRect` — geometry/rtree.go:12 -/
def RRect.data {F : Type} : RRect F → Dyn F
  | .mk x _ _ _ _ => x

/-- Go: field `min0` of `rRect` — geometry/rtree.go:13 -/
def RRect.min0 {F : Type} : RRect F → F
  | .mk _ x _ _ _ => x

/-- Go: field `min1` of `rRect` — geometry/rtree.go:13 -/
def RRect.min1 {F : Type} : RRect F → F
  | .mk _ _ x _ _ => x

/-- Go: field `max0` of `rRect` — geometry/rtree.go:13 -/
def RRect.max0 {F : Type} : RRect F → F
  | .mk _ _ _ x _ => x

/-- Go: field `max1` of `rRect` — geometry/rtree.go:13 -/
def RRect.max1 {F : Type} : RRect F → F
  | .mk _ _ _ _ x => x

/-- Go: field `count` of `rNode` — geometry/rtree.go:17 -/
def RNode.count {F : Type} : RNode F → Int
  | .mk x _ => x

/-- Go: field `rects` of `rNode` — geometry/rtree.go:18 -/
def RNode.rects {F : Type} : RNode F → List (RRect F)
  | .mk _ x => x

/-- Go: `type rTree struct` — geometry/rtree.go:21 -/
structure RTree (F : Type) where
  /-- Go: field `height` — geometry/rtree.go:22 -/
  height : Int
  /-- Go: field `root` — geometry/rtree.go:23 -/
  root : RRect F
  /-- Go: field `count` — geometry/rtree.go:24 -/
  count : Int
  /-- Go: field `reinsert` — geometry/rtree.go:25 -/
  reinsert : List (RRect F)

/-- the callees of the translated functions, one field per distinct external callee / byte-slice
    operation found in the source; S = Segment, SR = *baseSeries, D = []byte (bytes are Nat) -/
structure Ops (F S SR D : Type) where
  /-- Go: `append(b, x…)` on a []byte -/
  bytesAppend : D → List Nat → D
  /-- Go: `append(b, c...)` on []byte -/
  bytesAppendSlice : D → D → D
  /-- Go: `b[i]` on a []byte; none = index out of range (a Go panic) -/
  bytesAt : D → Int → Option Nat
  /-- Go: `b[lo:]` on a []byte; none = bound out of range (a Go panic) -/
  bytesFrom : D → Int → Option D
  /-- Go: `len(b)` of a []byte -/
  bytesLen : D → Int
  /-- Go: the zero value of a `[N]byte` array (N zero bytes) -/
  bytesZero : Nat → D
  /-- Go: `math.Float64bits(f)` -/
  float64bits : F → Nat
  /-- Go: `math.Float64frombits(u)` -/
  float64frombits : Nat → F
  /-- Go: `s == nil` on a []float64 (a nil slice and an empty slice have the same elements: the caller decides) -/
  floatsIsNil : List F → Bool
  /-- Go: `binary.LittleEndian.Uint16(b)`; none = fewer than 2 bytes (a Go panic) -/
  leUint16 : D → Option Nat
  /-- Go: `binary.LittleEndian.Uint32(b)`; none = fewer than 4 bytes (a Go panic) -/
  leUint32 : D → Option Nat
  /-- Go: `binary.LittleEndian.Uint64(b)`; none = fewer than 8 bytes (a Go panic) -/
  leUint64 : D → Option Nat
  /-- Go: `binary.LittleEndian.PutUint16(b[lo:], v)`: the op returns the new b; none = fewer than 2 bytes follow lo (a Go panic) -/
  putUint16 : D → Int → Nat → Option D
  /-- Go: `binary.LittleEndian.PutUint32(b[lo:], v)`: the op returns the new b; none = fewer than 4 bytes follow lo (a Go panic) -/
  putUint32 : D → Int → Nat → Option D
  /-- Go: `binary.LittleEndian.PutUint64(b[lo:], v)`: the op returns the new b; none = fewer than 8 bytes follow lo (a Go panic) -/
  putUint64 : D → Int → Nat → Option D
  /-- Go: `func (rect Rect) IntersectsRect(other Rect) bool` — geometry/rect.go:135 -/
  rectIntersectsRect : Rect F → (Rect F) → Bool
  /-- Go: `func (seg Segment) Rect() Rect` — geometry/segment.go:25 -/
  segRect : S → (Rect F)
  /-- Go: `func (series *baseSeries) SegmentAt(index int) Segment` — geometry/series.go:212 -/
  seriesSegmentAt : SR → Int → S

/-- Go: `func (n *qNode) chooseQuad(bounds, rect Rect) int` — geometry/qtree.go:59; the receiver is not used by the body and is dropped -/
def qNode_chooseQuad {F S SR D : Type} [KNum F] (ops : Ops F S SR D) (bounds : Rect F) (rect : Rect F) : Int :=
  let mid := ({ x := ((bounds.min.x +ₖ bounds.max.x) /ₖ (KNum.ofNat 2 : F)), y := ((bounds.min.y +ₖ bounds.max.y) /ₖ (KNum.ofNat 2 : F)) } : Point F)
  if (rect.max.x <ₖ mid.x) then
    if (rect.max.y <ₖ mid.y) then
      2
    else
      if (rect.min.y <ₖ mid.y) then
        (-1)
      else
        0
  else
    if (rect.min.x <ₖ mid.x) then
      (-1)
    else
      if (rect.max.y <ₖ mid.y) then
        3
      else
        if (rect.min.y <ₖ mid.y) then
          (-1)
        else
          1

/-- Go: `func quadBounds(bounds Rect, q int) (qbounds Rect)` — geometry/qtree.go:85 -/
def quadBounds {F S SR D : Type} [KNum F] (ops : Ops F S SR D) (bounds : Rect F) (q : Int) : (Rect F) :=
  let qbounds : Rect F := (Rect.mk (Point.mk (KNum.ofNat 0 : F) (KNum.ofNat 0 : F) : Point F) (Point.mk (KNum.ofNat 0 : F) (KNum.ofNat 0 : F) : Point F) : Rect F)
  let qbounds := (
      if (q == 0) then
        let qbounds := { qbounds with min := { qbounds.min with x := bounds.min.x } }
        let qbounds := { qbounds with min := { qbounds.min with y := ((bounds.min.y +ₖ bounds.max.y) /ₖ (KNum.ofNat 2 : F)) } }
        let qbounds := { qbounds with max := { qbounds.max with x := ((bounds.min.x +ₖ bounds.max.x) /ₖ (KNum.ofNat 2 : F)) } }
        let qbounds := { qbounds with max := { qbounds.max with y := bounds.max.y } }
        qbounds
      else
        let qbounds := (
            if (q == 1) then
              let qbounds := { qbounds with min := { qbounds.min with x := ((bounds.min.x +ₖ bounds.max.x) /ₖ (KNum.ofNat 2 : F)) } }
              let qbounds := { qbounds with min := { qbounds.min with y := ((bounds.min.y +ₖ bounds.max.y) /ₖ (KNum.ofNat 2 : F)) } }
              let qbounds := { qbounds with max := { qbounds.max with x := bounds.max.x } }
              let qbounds := { qbounds with max := { qbounds.max with y := bounds.max.y } }
              qbounds
            else
              let qbounds := (
                  if (q == 2) then
                    let qbounds := { qbounds with min := { qbounds.min with x := bounds.min.x } }
                    let qbounds := { qbounds with min := { qbounds.min with y := bounds.min.y } }
                    let qbounds := { qbounds with max := { qbounds.max with x := ((bounds.min.x +ₖ bounds.max.x) /ₖ (KNum.ofNat 2 : F)) } }
                    let qbounds := { qbounds with max := { qbounds.max with y := ((bounds.min.y +ₖ bounds.max.y) /ₖ (KNum.ofNat 2 : F)) } }
                    qbounds
                  else
                    let qbounds := (
                        if (q == 3) then
                          let qbounds := { qbounds with min := { qbounds.min with x := ((bounds.min.x +ₖ bounds.max.x) /ₖ (KNum.ofNat 2 : F)) } }
                          let qbounds := { qbounds with min := { qbounds.min with y := bounds.min.y } }
                          let qbounds := { qbounds with max := { qbounds.max with x := bounds.max.x } }
                          let qbounds := { qbounds with max := { qbounds.max with y := ((bounds.min.y +ₖ bounds.max.y) /ₖ (KNum.ofNat 2 : F)) } }
                          qbounds
                        else
                          qbounds
                      )
                    qbounds
                )
              qbounds
          )
        qbounds
    )
  qbounds

/-- Go: `func (n *qNode) insert(series *baseSeries, bounds, rect Rect, item, depth int)` — geometry/qtree.go:16; stores through its pointer receiver: returns the updated receiver; the recursion is not structural: explicit fuel, none when exhausted; none = a Go panic -/
def qNode_insert {F S SR D : Type} [KNum F] (ops : Ops F S SR D) (fuel : Nat) (n : QNode) (series : SR) (bounds : Rect F) (rect : Rect F) (item : Int) (depth : Int) : Option QNode :=
  do
    match fuel with
    | 0 =>
        none
    | fuel+1 =>
        do
          match n with
          | .mk n_split n_items n_quads0 n_quads1 n_quads2 n_quads3 =>
              do
                if (depth == qMaxDepth) then
                  do
                    let n_items := (n_items ++ [intToU 32 item])
                    some (QNode.mk n_split n_items n_quads0 n_quads1 n_quads2 n_quads3)
                else
                  do
                    if n_split then
                      do
                        let q := qNode_chooseQuad ops bounds rect
                        if (q == (-1)) then
                          do
                            let n_items := (n_items ++ [intToU 32 item])
                            some (QNode.mk n_split n_items n_quads0 n_quads1 n_quads2 n_quads3)
                        else
                          do
                            let qbounds := quadBounds ops bounds q
                            let el1 ← arrSel4 n_quads0 n_quads1 n_quads2 n_quads3 q
                            let (n_quads0, n_quads1, n_quads2, n_quads3) ← (
                                do
                                  if (QNode.isNil el1) then
                                    do
                                      let (n_quads0, n_quads1, n_quads2, n_quads3) ← arrSet4 n_quads0 n_quads1 n_quads2 n_quads3 q (QNode.mk false [] QNode.nil QNode.nil QNode.nil QNode.nil)
                                      some (n_quads0, n_quads1, n_quads2, n_quads3)
                                  else
                                    some (n_quads0, n_quads1, n_quads2, n_quads3)
                              )
                            let el2 ← arrSel4 n_quads0 n_quads1 n_quads2 n_quads3 q
                            let nw3 ← qNode_insert ops fuel el2 series qbounds rect item (depth + 1)
                            let (n_quads0, n_quads1, n_quads2, n_quads3) ← arrSet4 n_quads0 n_quads1 n_quads2 n_quads3 q nw3
                            some (QNode.mk n_split n_items n_quads0 n_quads1 n_quads2 n_quads3)
                    else
                      do
                        if ((Int.ofNat n_items.length) == qMaxItems) then
                          do
                            let nitems : List Nat := []
                            let (nitems, n_quads0, n_quads1, n_quads2, n_quads3) ← loopM (intRange 0 (Int.ofNat n_items.length)) (nitems, n_quads0, n_quads1, n_quads2, n_quads3) (fun i (nitems, n_quads0, n_quads1, n_quads2, n_quads3) => (
                                do
                                  let el4 ← listAt n_items i
                                  let iitem := el4
                                  let irect := ops.segRect (ops.seriesSegmentAt series (Int.ofNat iitem))
                                  let q := qNode_chooseQuad ops bounds irect
                                  if (q == (-1)) then
                                    do
                                      let nitems := (nitems ++ [iitem])
                                      some (nitems, n_quads0, n_quads1, n_quads2, n_quads3)
                                  else
                                    do
                                      let qbounds := quadBounds ops bounds q
                                      let el5 ← arrSel4 n_quads0 n_quads1 n_quads2 n_quads3 q
                                      let (n_quads0, n_quads1, n_quads2, n_quads3) ← (
                                          do
                                            if (QNode.isNil el5) then
                                              do
                                                let (n_quads0, n_quads1, n_quads2, n_quads3) ← arrSet4 n_quads0 n_quads1 n_quads2 n_quads3 q (QNode.mk false [] QNode.nil QNode.nil QNode.nil QNode.nil)
                                                some (n_quads0, n_quads1, n_quads2, n_quads3)
                                            else
                                              some (n_quads0, n_quads1, n_quads2, n_quads3)
                                        )
                                      let el6 ← arrSel4 n_quads0 n_quads1 n_quads2 n_quads3 q
                                      let nw7 ← qNode_insert ops fuel el6 series qbounds irect (Int.ofNat iitem) (depth + 1)
                                      let (n_quads0, n_quads1, n_quads2, n_quads3) ← arrSet4 n_quads0 n_quads1 n_quads2 n_quads3 q nw7
                                      some (nitems, n_quads0, n_quads1, n_quads2, n_quads3)
                              ))
                            let n_items := nitems
                            let n_split := true
                            let nw8 ← qNode_insert ops fuel (QNode.mk n_split n_items n_quads0 n_quads1 n_quads2 n_quads3) series bounds rect item depth
                            match nw8 with
                            | .mk n_split n_items n_quads0 n_quads1 n_quads2 n_quads3 =>
                                some (QNode.mk n_split n_items n_quads0 n_quads1 n_quads2 n_quads3)
                            | _ =>
                                none
                        else
                          do
                            let n_items := (n_items ++ [intToU 32 item])
                            some (QNode.mk n_split n_items n_quads0 n_quads1 n_quads2 n_quads3)
          | .nil =>
              none

/-- Go: `func (n *qNode) search( series *baseSeries, bounds, rect Rect, iter func(seg Segment, item int) bool, ) bool` — geometry/qtree.go:111; the callback threads a state σ; none = a Go panic -/
def qNode_search {F S SR D : Type} [KNum F] {σ : Type} (ops : Ops F S SR D) (n : QNode) (series : SR) (bounds : Rect F) (rect : Rect F) (iter : σ → S → Int → σ × Bool) (st' : σ) : Option (σ × Bool) :=
  do
    match n with
    | .mk n_split n_items n_quads0 n_quads1 n_quads2 n_quads3 =>
        do
          let ex2 ← loopF n_items st' (fun item st' => (
              do
                let seg := ops.seriesSegmentAt series (Int.ofNat item)
                let irect := ops.segRect seg
                if ops.rectIntersectsRect irect rect then
                  do
                    let (st', c1) := iter st' seg (Int.ofNat item)
                    if !c1 then
                      some (Flow.ret (st', false))
                    else
                      some (Flow.next st')
                else
                  some (Flow.next st')
            ))
          match ex2 with
          | Exit.ret r3 =>
              some r3
          | Exit.done st' =>
              do
                let ex16 ← (
                    do
                      if n_split then
                        do
                          let ex5 ← (
                              do
                                if !(QNode.isNil n_quads0) then
                                  do
                                    let qbounds := quadBounds ops bounds 0
                                    if ops.rectIntersectsRect qbounds rect then
                                      do
                                        let (st', r4) ← qNode_search ops n_quads0 series qbounds rect iter st'
                                        if !r4 then
                                          some (Exit.ret (st', false))
                                        else
                                          some (Exit.done st')
                                    else
                                      some (Exit.done st')
                                else
                                  some (Exit.done st')
                            )
                          match ex5 with
                          | Exit.ret r6 =>
                              some (Exit.ret r6)
                          | Exit.done st' =>
                              do
                                let ex8 ← (
                                    do
                                      if !(QNode.isNil n_quads1) then
                                        do
                                          let qbounds := quadBounds ops bounds 1
                                          if ops.rectIntersectsRect qbounds rect then
                                            do
                                              let (st', r7) ← qNode_search ops n_quads1 series qbounds rect iter st'
                                              if !r7 then
                                                some (Exit.ret (st', false))
                                              else
                                                some (Exit.done st')
                                          else
                                            some (Exit.done st')
                                      else
                                        some (Exit.done st')
                                  )
                                match ex8 with
                                | Exit.ret r9 =>
                                    some (Exit.ret r9)
                                | Exit.done st' =>
                                    do
                                      let ex11 ← (
                                          do
                                            if !(QNode.isNil n_quads2) then
                                              do
                                                let qbounds := quadBounds ops bounds 2
                                                if ops.rectIntersectsRect qbounds rect then
                                                  do
                                                    let (st', r10) ← qNode_search ops n_quads2 series qbounds rect iter st'
                                                    if !r10 then
                                                      some (Exit.ret (st', false))
                                                    else
                                                      some (Exit.done st')
                                                else
                                                  some (Exit.done st')
                                            else
                                              some (Exit.done st')
                                        )
                                      match ex11 with
                                      | Exit.ret r12 =>
                                          some (Exit.ret r12)
                                      | Exit.done st' =>
                                          do
                                            let ex14 ← (
                                                do
                                                  if !(QNode.isNil n_quads3) then
                                                    do
                                                      let qbounds := quadBounds ops bounds 3
                                                      if ops.rectIntersectsRect qbounds rect then
                                                        do
                                                          let (st', r13) ← qNode_search ops n_quads3 series qbounds rect iter st'
                                                          if !r13 then
                                                            some (Exit.ret (st', false))
                                                          else
                                                            some (Exit.done st')
                                                      else
                                                        some (Exit.done st')
                                                  else
                                                    some (Exit.done st')
                                              )
                                            match ex14 with
                                            | Exit.ret r15 =>
                                                some (Exit.ret r15)
                                            | Exit.done st' =>
                                                some (Exit.done st')
                      else
                        some (Exit.done st')
                  )
                match ex16 with
                | Exit.ret r17 =>
                    some r17
                | Exit.done st' =>
                    some (st', true)
    | .nil =>
        none

/-- Go: `func numBytes(n uint32) byte` — geometry/qtree.go:139 -/
def numBytes {F S SR D : Type} [KNum F] (ops : Ops F S SR D) (n : Nat) : Nat :=
  if decide (n ≤ 255) then
    1
  else
    if decide (n ≤ 65535) then
      2
    else
      4

/-- Go: `func appendNum(dst []byte, num uint32, ibytes byte) []byte` — geometry/qtree.go:149; none = a Go panic -/
def appendNum {F S SR D : Type} [KNum F] (ops : Ops F S SR D) (dst : D) (num : Nat) (ibytes : Nat) : Option D :=
  do
    let dst ← (
        do
          if (ibytes == 1) then
            do
              let dst := ops.bytesAppend dst [num % 256]
              some dst
          else
            do
              let dst ← (
                  do
                    if (ibytes == 2) then
                      do
                        let dst := ops.bytesAppend dst [0, 0]
                        let dst ← ops.putUint16 dst ((ops.bytesLen dst) - 2) (num % 65536)
                        some dst
                    else
                      do
                        let dst := ops.bytesAppend dst [0, 0, 0, 0]
                        let dst ← ops.putUint32 dst ((ops.bytesLen dst) - 4) num
                        some dst
                )
              some dst
      )
    some dst

/-- Go: `func readNum(data []byte, ibytes byte) uint32` — geometry/qtree.go:163; none = a Go panic -/
def readNum {F S SR D : Type} [KNum F] (ops : Ops F S SR D) (data : D) (ibytes : Nat) : Option Nat :=
  do
    if (ibytes == 1) then
      do
        let by1 ← ops.bytesAt data 0
        some by1
    else
      do
        if (ibytes == 2) then
          do
            let u2 ← ops.leUint16 data
            some u2
        else
          do
            let u3 ← ops.leUint32 data
            some u3

/-- Go: `func (n *qNode) compress(dst []byte, bounds Rect) []byte` — geometry/qtree.go:173; none = a Go panic -/
def qNode_compress {F S SR D : Type} [KNum F] (ops : Ops F S SR D) (n : QNode) (dst : D) (bounds : Rect F) : Option D :=
  do
    match n with
    | .mk n_split n_items n_quads0 n_quads1 n_quads2 n_quads3 =>
        do
          let ibytes := numBytes ops (intToU 32 (Int.ofNat n_items.length))
          let ibytes ← loopM (intRange 0 (Int.ofNat n_items.length)) ibytes (fun i ibytes => (
              do
                let el1 ← listAt n_items i
                let ibytes2 := numBytes ops el1
                if decide (ibytes2 > ibytes) then
                  do
                    let ibytes := ibytes2
                    some ibytes
                else
                  some ibytes
            ))
          let dst := ops.bytesAppend dst [ibytes]
          let r2 ← appendNum ops dst (intToU 32 (Int.ofNat n_items.length)) ibytes
          let dst := r2
          let dst ← loopM (intRange 0 (Int.ofNat n_items.length)) dst (fun i dst => (
              do
                let el3 ← listAt n_items i
                let r4 ← appendNum ops dst el3 ibytes
                let dst := r4
                some dst
            ))
          if !n_split then
            do
              let dst := ops.bytesAppend dst [0]
              some dst
          else
            do
              let dst := ops.bytesAppend dst [1]
              let mark0 : Int := 0
              let mark1 : Int := 0
              let mark2 : Int := 0
              let mark3 : Int := 0
              let (dst, mark0, mark1, mark2, mark3) := (
                  if (QNode.isNil n_quads0) then
                    let dst := ops.bytesAppend dst [0]
                    (dst, mark0, mark1, mark2, mark3)
                  else
                    let dst := ops.bytesAppend dst [1]
                    let mark0 := ops.bytesLen dst
                    let dst := ops.bytesAppend dst [0, 0, 0, 0]
                    (dst, mark0, mark1, mark2, mark3)
                )
              let (dst, mark0, mark1, mark2, mark3) := (
                  if (QNode.isNil n_quads1) then
                    let dst := ops.bytesAppend dst [0]
                    (dst, mark0, mark1, mark2, mark3)
                  else
                    let dst := ops.bytesAppend dst [1]
                    let mark1 := ops.bytesLen dst
                    let dst := ops.bytesAppend dst [0, 0, 0, 0]
                    (dst, mark0, mark1, mark2, mark3)
                )
              let (dst, mark0, mark1, mark2, mark3) := (
                  if (QNode.isNil n_quads2) then
                    let dst := ops.bytesAppend dst [0]
                    (dst, mark0, mark1, mark2, mark3)
                  else
                    let dst := ops.bytesAppend dst [1]
                    let mark2 := ops.bytesLen dst
                    let dst := ops.bytesAppend dst [0, 0, 0, 0]
                    (dst, mark0, mark1, mark2, mark3)
                )
              let (dst, mark0, mark1, mark2, mark3) := (
                  if (QNode.isNil n_quads3) then
                    let dst := ops.bytesAppend dst [0]
                    (dst, mark0, mark1, mark2, mark3)
                  else
                    let dst := ops.bytesAppend dst [1]
                    let mark3 := ops.bytesLen dst
                    let dst := ops.bytesAppend dst [0, 0, 0, 0]
                    (dst, mark0, mark1, mark2, mark3)
                )
              let dst ← (
                  do
                    if !(QNode.isNil n_quads0) then
                      do
                        let dst ← ops.putUint32 dst mark0 (intToU 32 (ops.bytesLen dst))
                        let r5 ← qNode_compress ops n_quads0 dst (quadBounds ops bounds 0)
                        let dst := r5
                        some dst
                    else
                      some dst
                )
              let dst ← (
                  do
                    if !(QNode.isNil n_quads1) then
                      do
                        let dst ← ops.putUint32 dst mark1 (intToU 32 (ops.bytesLen dst))
                        let r6 ← qNode_compress ops n_quads1 dst (quadBounds ops bounds 1)
                        let dst := r6
                        some dst
                    else
                      some dst
                )
              let dst ← (
                  do
                    if !(QNode.isNil n_quads2) then
                      do
                        let dst ← ops.putUint32 dst mark2 (intToU 32 (ops.bytesLen dst))
                        let r7 ← qNode_compress ops n_quads2 dst (quadBounds ops bounds 2)
                        let dst := r7
                        some dst
                    else
                      some dst
                )
              let dst ← (
                  do
                    if !(QNode.isNil n_quads3) then
                      do
                        let dst ← ops.putUint32 dst mark3 (intToU 32 (ops.bytesLen dst))
                        let r8 ← qNode_compress ops n_quads3 dst (quadBounds ops bounds 3)
                        let dst := r8
                        some dst
                    else
                      some dst
                )
              some dst
    | .nil =>
        none

/-- Go: `func qCompressSearch( data []byte, addr int, series *baseSeries, bounds, rect Rect, iter func(seg Segment, item int) bool, ) bool` — geometry/qtree.go:215; the callback threads a state σ; the recursion is not structural: explicit fuel, none when exhausted; none = a Go panic -/
def qCompressSearch {F S SR D : Type} [KNum F] {σ : Type} (ops : Ops F S SR D) (fuel : Nat) (data : D) (addr : Int) (series : SR) (bounds : Rect F) (rect : Rect F) (iter : σ → S → Int → σ × Bool) (st' : σ) : Option (σ × Bool) :=
  do
    match fuel with
    | 0 =>
        none
    | fuel+1 =>
        do
          let by1 ← ops.bytesAt data addr
          let ibytes := by1
          let addr := (addr + 1)
          let sl2 ← ops.bytesFrom data addr
          let r3 ← readNum ops sl2 ibytes
          let nItems := Int.ofNat r3
          let addr := (addr + (Int.ofNat ibytes))
          let ex7 ← loopF (intRange 0 nItems) (addr, st') (fun i (addr, st') => (
              do
                let sl4 ← ops.bytesFrom data addr
                let r5 ← readNum ops sl4 ibytes
                let item := Int.ofNat r5
                let addr := (addr + (Int.ofNat ibytes))
                let seg := ops.seriesSegmentAt series item
                let irect := ops.segRect seg
                if ops.rectIntersectsRect irect rect then
                  do
                    let (st', c6) := iter st' seg item
                    if !c6 then
                      some (Flow.ret (st', false))
                    else
                      some (Flow.next (addr, st'))
                else
                  some (Flow.next (addr, st'))
            ))
          match ex7 with
          | Exit.ret r8 =>
              some r8
          | Exit.done (addr, st') =>
              do
                let by9 ← ops.bytesAt data addr
                let split := (by9 == 1)
                let addr := (addr + 1)
                let ex16 ← (
                    do
                      if split then
                        do
                          let ex14 ← loopF (intRange 0 4) (addr, st') (fun q (addr, st') => (
                              do
                                let by10 ← ops.bytesAt data addr
                                let use := (by10 == 1)
                                let addr := (addr + 1)
                                if !use then
                                  some (Flow.next (addr, st'))
                                else
                                  do
                                    let sl11 ← ops.bytesFrom data addr
                                    let u12 ← ops.leUint32 sl11
                                    let naddr := Int.ofNat u12
                                    let addr := (addr + 4)
                                    let qbounds := quadBounds ops bounds q
                                    if ops.rectIntersectsRect qbounds rect then
                                      do
                                        let (st', r13) ← qCompressSearch ops fuel data naddr series qbounds rect iter st'
                                        if !r13 then
                                          some (Flow.ret (st', false))
                                        else
                                          some (Flow.next (addr, st'))
                                    else
                                      some (Flow.next (addr, st'))
                            ))
                          match ex14 with
                          | Exit.ret r15 =>
                              some (Exit.ret r15)
                          | Exit.done (addr, st') =>
                              some (Exit.done (addr, st'))
                      else
                        some (Exit.done (addr, st'))
                  )
                match ex16 with
                | Exit.ret r17 =>
                    some r17
                | Exit.done (addr, st') =>
                    some (st', true)

/-- Go: `func (r *rRect) expand(b *rRect)` — geometry/rtree.go:28; stores through its pointer receiver: returns the updated receiver -/
def rRect_expand {F S SR D : Type} [KNum F] (ops : Ops F S SR D) (r : RRect F) (b : RRect F) : (RRect F) :=
  match r with
  | .mk r_data r_min0 r_min1 r_max0 r_max1 =>
      let (r_min0, r_min1) := (
          if (b.min0 <ₖ r_min0) then
            let r_min0 := b.min0
            (r_min0, r_min1)
          else
            (r_min0, r_min1)
        )
      let (r_max0, r_max1) := (
          if (b.max0 >ₖ r_max0) then
            let r_max0 := b.max0
            (r_max0, r_max1)
          else
            (r_max0, r_max1)
        )
      let (r_min0, r_min1) := (
          if (b.min1 <ₖ r_min1) then
            let r_min1 := b.min1
            (r_min0, r_min1)
          else
            (r_min0, r_min1)
        )
      let (r_max0, r_max1) := (
          if (b.max1 >ₖ r_max1) then
            let r_max1 := b.max1
            (r_max0, r_max1)
          else
            (r_max0, r_max1)
        )
      (RRect.mk r_data r_min0 r_min1 r_max0 r_max1)

/-- Go: `func (r *rRect) recalc()` — geometry/rtree.go:106; stores through its pointer receiver: returns the updated receiver; none = a Go panic -/
def rRect_recalc {F S SR D : Type} [KNum F] (ops : Ops F S SR D) (r : RRect F) : Option ((RRect F)) :=
  do
    match r with
    | .mk r_data r_min0 r_min1 r_max0 r_max1 =>
        do
          let dn1 ← Dyn.asRNode r_data
          let dn2 ← Dyn.asRNode r_data
          let el3 ← listAt dn2.rects 0
          let v4 := el3.min0
          let v5 := el3.min1
          let r_min0 := v4
          let r_min1 := v5
          let dn6 ← Dyn.asRNode r_data
          let el7 ← listAt dn6.rects 0
          let v8 := el7.max0
          let v9 := el7.max1
          let r_max0 := v8
          let r_max1 := v9
          let dn10 ← Dyn.asRNode r_data
          let (r_data, r_min0, r_min1, r_max0, r_max1) ← loopM (intRange 1 dn10.count) (r_data, r_min0, r_min1, r_max0, r_max1) (fun i (r_data, r_min0, r_min1, r_max0, r_max1) => (
              do
                let dn11 ← Dyn.asRNode r_data
                let el12 ← listAt dn11.rects i
                let nw13 := rRect_expand ops (RRect.mk r_data r_min0 r_min1 r_max0 r_max1) el12
                let ⟨r_data, r_min0, r_min1, r_max0, r_max1⟩ := nw13
                some (r_data, r_min0, r_min1, r_max0, r_max1)
            ))
          some (RRect.mk r_data r_min0 r_min1 r_max0 r_max1)

/-- Go: `func (r *rRect) largestAxis() (axis int, size float64)` — geometry/rtree.go:125 -/
def rRect_largestAxis {F S SR D : Type} [KNum F] (ops : Ops F S SR D) (r : RRect F) : Int × F :=
  match r with
  | .mk r_data r_min0 r_min1 r_max0 r_max1 =>
      let axis : Int := 0
      let size : F := (KNum.ofNat 0 : F)
      let v1 : Int := 0
      let v2 : F := (KNum.ofNat 0 : F)
      let j := v1
      let jsz := v2
      let sz := (r_max0 -ₖ r_min0)
      let (j, jsz) := (
          if ((0 == 0) || (sz >ₖ jsz)) then
            let v3 : Int := 0
            let v4 : F := sz
            let j := v3
            let jsz := v4
            (j, jsz)
          else
            (j, jsz)
        )
      let sz := (r_max1 -ₖ r_min1)
      let (j, jsz) := (
          if ((1 == 0) || (sz >ₖ jsz)) then
            let v5 : Int := 1
            let v6 : F := sz
            let j := v5
            let jsz := v6
            (j, jsz)
          else
            (j, jsz)
        )
      (j, jsz)

/-- Go: `func (r *rRect) splitLargestAxisEdgeSnap(right *rRect)` — geometry/rtree.go:136; stores through its pointer receiver: returns the updated receiver; stores through the pointer parameter right: returns its new value; passes the fuel on; none = a Go panic -/
def rRect_splitLargestAxisEdgeSnap {F S SR D : Type} [KNum F] (ops : Ops F S SR D) (fuel : Nat) (r : RRect F) (right : RRect F) : Option ((RRect F) × (RRect F)) :=
  do
    match r with
    | .mk r_data r_min0 r_min1 r_max0 r_max1 =>
        do
          let (r1, r2) := rRect_largestAxis ops (RRect.mk r_data r_min0 r_min1 r_max0 r_max1)
          let axis := r1
          let dn3 ← Dyn.asRNode r_data
          let rightNode := (RNode.mk 0 (List.replicate 17 (RRect.mk Dyn.nil (KNum.ofNat 0 : F) (KNum.ofNat 0 : F) (KNum.ofNat 0 : F) (KNum.ofNat 0 : F) : RRect F)) : RNode F)
          let right := (RRect.mk (Dyn.rNode rightNode) right.min0 right.min1 right.max0 right.max1)
          let equals : List (RRect F) := []
          let i : Int := 0
          let cond37 := fun (right, equals, r_data, i) => (
              do
                let dn5 ← Dyn.asRNode r_data
                some (decide (i < dn5.count))
            )
          let ex35 ← loopW fuel (right, equals, r_data, i) cond37 (fun (right, equals, r_data, i) => (
              do
                let dn6 ← Dyn.asRNode r_data
                let el7 ← listAt dn6.rects i
                let el8 ← arrSel2 el7.min0 el7.min1 axis
                let el9 ← arrSel2 r_min0 r_min1 axis
                let minDist := (el8 -ₖ el9)
                let el10 ← arrSel2 r_max0 r_max1 axis
                let dn11 ← Dyn.asRNode r_data
                let el12 ← listAt dn11.rects i
                let el13 ← arrSel2 el12.max0 el12.max1 axis
                let maxDist := (el10 -ₖ el13)
                let (right, equals, r_data, i) ← (
                    do
                      if (minDist <ₖ maxDist) then
                        some (right, equals, r_data, i)
                      else
                        do
                          let (right, equals) ← (
                              do
                                if (minDist >ₖ maxDist) then
                                  do
                                    let dn14 ← Dyn.asRNode r_data
                                    let el15 ← listAt dn14.rects i
                                    let dn16 ← Dyn.asRNode right.data
                                    let dn17 ← Dyn.asRNode right.data
                                    let ls18 ← listSet dn17.rects dn16.count el15
                                    let right := (RRect.mk (Dyn.rNode (RNode.mk dn17.count ls18)) right.min0 right.min1 right.max0 right.max1)
                                    let dn19 ← Dyn.asRNode right.data
                                    let dn20 ← Dyn.asRNode right.data
                                    let right := (RRect.mk (Dyn.rNode (RNode.mk (dn19.count + 1) dn20.rects)) right.min0 right.min1 right.max0 right.max1)
                                    some (right, equals)
                                else
                                  do
                                    let dn21 ← Dyn.asRNode r_data
                                    let el22 ← listAt dn21.rects i
                                    let equals := (equals ++ [el22])
                                    some (right, equals)
                            )
                          let dn23 ← Dyn.asRNode r_data
                          let dn24 ← Dyn.asRNode r_data
                          let el25 ← listAt dn23.rects (dn24.count - 1)
                          let dn26 ← Dyn.asRNode r_data
                          let ls27 ← listSet dn26.rects i el25
                          let r_data := (Dyn.rNode (RNode.mk dn26.count ls27))
                          let dn28 ← Dyn.asRNode r_data
                          let ix29 := (dn28.count - 1)
                          let dn30 ← Dyn.asRNode r_data
                          let el31 ← listAt dn30.rects ix29
                          let ls32 ← listSet dn30.rects ix29 (RRect.mk Dyn.nil el31.min0 el31.min1 el31.max0 el31.max1)
                          let r_data := (Dyn.rNode (RNode.mk dn30.count ls32))
                          let dn33 ← Dyn.asRNode r_data
                          let dn34 ← Dyn.asRNode r_data
                          let r_data := (Dyn.rNode (RNode.mk (dn33.count - 1) dn34.rects))
                          let i := (i - 1)
                          some (right, equals, r_data, i)
                  )
                let i := (i + 1)
                some (Flow.next (right, equals, r_data, i))
            ))
          match ex35 with
          | Exit.ret r36 =>
              some r36
          | Exit.done (right, equals, r_data, i) =>
              do
                let (r_data, right) ← loopM equals (r_data, right) (fun b (r_data, right) => (
                    do
                      let dn38 ← Dyn.asRNode r_data
                      let dn39 ← Dyn.asRNode right.data
                      if decide (dn38.count < dn39.count) then
                        do
                          let dn40 ← Dyn.asRNode r_data
                          let dn41 ← Dyn.asRNode r_data
                          let ls42 ← listSet dn41.rects dn40.count b
                          let r_data := (Dyn.rNode (RNode.mk dn41.count ls42))
                          let dn43 ← Dyn.asRNode r_data
                          let dn44 ← Dyn.asRNode r_data
                          let r_data := (Dyn.rNode (RNode.mk (dn43.count + 1) dn44.rects))
                          some (r_data, right)
                      else
                        do
                          let dn45 ← Dyn.asRNode right.data
                          let dn46 ← Dyn.asRNode right.data
                          let ls47 ← listSet dn46.rects dn45.count b
                          let right := (RRect.mk (Dyn.rNode (RNode.mk dn46.count ls47)) right.min0 right.min1 right.max0 right.max1)
                          let dn48 ← Dyn.asRNode right.data
                          let dn49 ← Dyn.asRNode right.data
                          let right := (RRect.mk (Dyn.rNode (RNode.mk (dn48.count + 1) dn49.rects)) right.min0 right.min1 right.max0 right.max1)
                          some (r_data, right)
                  ))
                let nw50 ← rRect_recalc ops (RRect.mk r_data r_min0 r_min1 r_max0 r_max1)
                let ⟨r_data, r_min0, r_min1, r_max0, r_max1⟩ := nw50
                let nw51 ← rRect_recalc ops right
                let right := nw51
                some ((RRect.mk r_data r_min0 r_min1 r_max0 r_max1), right)

/-- Go: `func (r *rRect) chooseLeastEnlargement(b *rRect) int` — geometry/rtree.go:66; none = a Go panic -/
def rRect_chooseLeastEnlargement {F S SR D : Type} [KNum F] (ops : Ops F S SR D) (r : RRect F) (b : RRect F) : Option Int :=
  do
    match r with
    | .mk r_data r_min0 r_min1 r_max0 r_max1 =>
        do
          let v1 : Int := (-1)
          let v2 : F := (KNum.ofNat 0 : F)
          let v3 : F := (KNum.ofNat 0 : F)
          let j := v1
          let jenlargement := v2
          let jarea := v3
          let dn4 ← Dyn.asRNode r_data
          let dn5 ← Dyn.asRNode r_data
          let (j, jenlargement, jarea) ← loopM (intRange 0 dn5.count) (j, jenlargement, jarea) (fun i (j, jenlargement, jarea) => (
              do
                let dn6 ← Dyn.asRNode r_data
                let el7 ← listAt dn6.rects i
                let dn8 ← Dyn.asRNode r_data
                let el9 ← listAt dn8.rects i
                let area := (el7.max0 -ₖ el9.min0)
                let dn10 ← Dyn.asRNode r_data
                let el11 ← listAt dn10.rects i
                let dn12 ← Dyn.asRNode r_data
                let el13 ← listAt dn12.rects i
                let area := (area *ₖ (el11.max1 -ₖ el13.min1))
                let enlargement : F := (KNum.ofNat 0 : F)
                let enlargedArea := (KNum.ofNat 1 : F)
                let enlargedArea ← loopM (intRange 0 2) enlargedArea (fun j_1 enlargedArea => (
                    do
                      let el16 ← arrSel2 b.max0 b.max1 j_1
                      let dn17 ← Dyn.asRNode r_data
                      let el18 ← listAt dn17.rects i
                      let el19 ← arrSel2 el18.max0 el18.max1 j_1
                      if (el16 >ₖ el19) then
                        do
                          let el20 ← arrSel2 b.min0 b.min1 j_1
                          let dn21 ← Dyn.asRNode r_data
                          let el22 ← listAt dn21.rects i
                          let el23 ← arrSel2 el22.min0 el22.min1 j_1
                          if (el20 <ₖ el23) then
                            do
                              let el24 ← arrSel2 b.max0 b.max1 j_1
                              let el25 ← arrSel2 b.min0 b.min1 j_1
                              let enlargedArea := (enlargedArea *ₖ (el24 -ₖ el25))
                              some enlargedArea
                          else
                            do
                              let el26 ← arrSel2 b.max0 b.max1 j_1
                              let dn27 ← Dyn.asRNode r_data
                              let el28 ← listAt dn27.rects i
                              let el29 ← arrSel2 el28.min0 el28.min1 j_1
                              let enlargedArea := (enlargedArea *ₖ (el26 -ₖ el29))
                              some enlargedArea
                      else
                        do
                          let el30 ← arrSel2 b.min0 b.min1 j_1
                          let dn31 ← Dyn.asRNode r_data
                          let el32 ← listAt dn31.rects i
                          let el33 ← arrSel2 el32.min0 el32.min1 j_1
                          if (el30 <ₖ el33) then
                            do
                              let dn34 ← Dyn.asRNode r_data
                              let el35 ← listAt dn34.rects i
                              let el36 ← arrSel2 el35.max0 el35.max1 j_1
                              let el37 ← arrSel2 b.min0 b.min1 j_1
                              let enlargedArea := (enlargedArea *ₖ (el36 -ₖ el37))
                              some enlargedArea
                          else
                            do
                              let dn38 ← Dyn.asRNode r_data
                              let el39 ← listAt dn38.rects i
                              let el40 ← arrSel2 el39.max0 el39.max1 j_1
                              let dn41 ← Dyn.asRNode r_data
                              let el42 ← listAt dn41.rects i
                              let el43 ← arrSel2 el42.min0 el42.min1 j_1
                              let enlargedArea := (enlargedArea *ₖ (el40 -ₖ el43))
                              some enlargedArea
                  ))
                let enlargement := (enlargedArea -ₖ area)
                if ((j == (-1)) || (enlargement <ₖ jenlargement)) then
                  do
                    let v44 : Int := i
                    let v45 : F := enlargement
                    let v46 : F := area
                    let j := v44
                    let jenlargement := v45
                    let jarea := v46
                    some (j, jenlargement, jarea)
                else
                  do
                    if (enlargement ==ₖ jenlargement) then
                      do
                        if (area <ₖ jarea) then
                          do
                            let v47 : Int := i
                            let v48 : F := enlargement
                            let v49 : F := area
                            let j := v47
                            let jenlargement := v48
                            let jarea := v49
                            some (j, jenlargement, jarea)
                        else
                          some (j, jenlargement, jarea)
                    else
                      some (j, jenlargement, jarea)
            ))
          some j

/-- Go: `func (r *rRect) contains(b *rRect) bool` — geometry/rtree.go:116 -/
def rRect_contains {F S SR D : Type} [KNum F] (ops : Ops F S SR D) (r : RRect F) (b : RRect F) : Bool :=
  match r with
  | .mk r_data r_min0 r_min1 r_max0 r_max1 =>
      if ((b.min0 <ₖ r_min0) || (b.max0 >ₖ r_max0)) then
        false
      else
        if ((b.min1 <ₖ r_min1) || (b.max1 >ₖ r_max1)) then
          false
        else
          true

/-- Go: `func (r *rRect) insert(item *rRect, height int) (grown bool)` — geometry/rtree.go:177; stores through its pointer receiver: returns the updated receiver; the recursion is not structural: explicit fuel, none when exhausted; none = a Go panic -/
def rRect_insert {F S SR D : Type} [KNum F] (ops : Ops F S SR D) (fuel : Nat) (r : RRect F) (item : RRect F) (height : Int) : Option ((RRect F) × Bool) :=
  do
    match fuel with
    | 0 =>
        none
    | fuel+1 =>
        do
          match r with
          | .mk r_data r_min0 r_min1 r_max0 r_max1 =>
              do
                let grown : Bool := false
                let dn1 ← Dyn.asRNode r_data
                if (height == 0) then
                  do
                    let dn2 ← Dyn.asRNode r_data
                    let dn3 ← Dyn.asRNode r_data
                    let ls4 ← listSet dn3.rects dn2.count item
                    let r_data := (Dyn.rNode (RNode.mk dn3.count ls4))
                    let dn5 ← Dyn.asRNode r_data
                    let dn6 ← Dyn.asRNode r_data
                    let r_data := (Dyn.rNode (RNode.mk (dn5.count + 1) dn6.rects))
                    let grown := !(rRect_contains ops (RRect.mk r_data r_min0 r_min1 r_max0 r_max1) item)
                    some ((RRect.mk r_data r_min0 r_min1 r_max0 r_max1), grown)
                else
                  do
                    let r7 ← rRect_chooseLeastEnlargement ops (RRect.mk r_data r_min0 r_min1 r_max0 r_max1) item
                    let index := r7
                    let dn8 ← Dyn.asRNode r_data
                    let el9 ← listAt dn8.rects index
                    let (nw10, r11) ← rRect_insert ops fuel el9 item (height - 1)
                    let dn12 ← Dyn.asRNode r_data
                    let ls13 ← listSet dn12.rects index nw10
                    let r_data := (Dyn.rNode (RNode.mk dn12.count ls13))
                    let grown := r11
                    let (r_data, grown) ← (
                        do
                          if grown then
                            do
                              let dn14 ← Dyn.asRNode r_data
                              let el15 ← listAt dn14.rects index
                              let nw16 := rRect_expand ops el15 item
                              let dn17 ← Dyn.asRNode r_data
                              let ls18 ← listSet dn17.rects index nw16
                              let r_data := (Dyn.rNode (RNode.mk dn17.count ls18))
                              let grown := !(rRect_contains ops (RRect.mk r_data r_min0 r_min1 r_max0 r_max1) item)
                              some (r_data, grown)
                          else
                            some (r_data, grown)
                      )
                    let dn19 ← Dyn.asRNode r_data
                    let el20 ← listAt dn19.rects index
                    let dn21 ← Dyn.asRNode el20.data
                    let r_data ← (
                        do
                          if (dn21.count == (rMaxEntries + 1)) then
                            do
                              let dn22 ← Dyn.asRNode r_data
                              let el23 ← listAt dn22.rects index
                              let dn24 ← Dyn.asRNode r_data
                              let dn25 ← Dyn.asRNode r_data
                              let el26 ← listAt dn25.rects dn24.count
                              let (nw27, out28) ← rRect_splitLargestAxisEdgeSnap ops fuel el23 el26
                              let dn29 ← Dyn.asRNode r_data
                              let ls30 ← listSet dn29.rects index nw27
                              let r_data := (Dyn.rNode (RNode.mk dn29.count ls30))
                              let dn31 ← Dyn.asRNode r_data
                              let ls32 ← listSet dn31.rects dn24.count out28
                              let r_data := (Dyn.rNode (RNode.mk dn31.count ls32))
                              let dn33 ← Dyn.asRNode r_data
                              let dn34 ← Dyn.asRNode r_data
                              let r_data := (Dyn.rNode (RNode.mk (dn33.count + 1) dn34.rects))
                              some r_data
                          else
                            some r_data
                      )
                    some ((RRect.mk r_data r_min0 r_min1 r_max0 r_max1), grown)

/-- Go: `func fit(min, max []float64, value interface{}, target *rRect)` — geometry/rtree.go:201; stores through the pointer parameter target: returns its new value; none = a Go panic -/
def fit {F S SR D : Type} [KNum F] (ops : Ops F S SR D) (min : List F) (max : List F) (value : Dyn F) (target : RRect F) : Option ((RRect F)) :=
  do
    let max := (
        if (ops.floatsIsNil max) then
          let max := min
          max
        else
          max
      )
    if ((Int.ofNat min.length) != (Int.ofNat max.length)) then
      none
    else
      do
        if ((Int.ofNat min.length) != rDims) then
          none
        else
          do
            let el1 ← listAt min 0
            let target := (RRect.mk target.data el1 target.min1 target.max0 target.max1)
            let el2 ← listAt max 0
            let target := (RRect.mk target.data target.min0 target.min1 el2 target.max1)
            let el3 ← listAt min 1
            let target := (RRect.mk target.data target.min0 el3 target.max0 target.max1)
            let el4 ← listAt max 1
            let target := (RRect.mk target.data target.min0 target.min1 target.max0 el4)
            let target := (RRect.mk value target.min0 target.min1 target.max0 target.max1)
            some target

/-- Go: `func (tr *rTree) insert(item *rRect)` — geometry/rtree.go:46; stores through its pointer receiver: returns the updated receiver; passes the fuel on; none = a Go panic -/
def rTree_insert {F S SR D : Type} [KNum F] (ops : Ops F S SR D) (fuel : Nat) (tr : RTree F) (item : RRect F) : Option ((RTree F)) :=
  do
    match tr with
    | .mk tr_height tr_root tr_count tr_reinsert =>
        do
          let tr_root ← (
              do
                if (Dyn.isNil tr_root.data) then
                  do
                    let out1 ← fit ops ([item.min0, item.min1]) ([item.max0, item.max1]) (Dyn.rNode (RNode.mk 0 (List.replicate 17 (RRect.mk Dyn.nil (KNum.ofNat 0 : F) (KNum.ofNat 0 : F) (KNum.ofNat 0 : F) (KNum.ofNat 0 : F) : RRect F)) : RNode F)) tr_root
                    let tr_root := out1
                    some tr_root
                else
                  some tr_root
            )
          let (nw2, r3) ← rRect_insert ops fuel tr_root item tr_height
          let tr_root := nw2
          let grown := r3
          let tr_root := (
              if grown then
                let nw4 := rRect_expand ops tr_root item
                let tr_root := nw4
                tr_root
              else
                tr_root
            )
          let dn5 ← Dyn.asRNode tr_root.data
          let (tr_root, tr_height) ← (
              do
                if (dn5.count == (rMaxEntries + 1)) then
                  do
                    let newRoot := (RNode.mk 0 (List.replicate 17 (RRect.mk Dyn.nil (KNum.ofNat 0 : F) (KNum.ofNat 0 : F) (KNum.ofNat 0 : F) (KNum.ofNat 0 : F) : RRect F)) : RNode F)
                    let el6 ← listAt newRoot.rects 1
                    let (nw7, out8) ← rRect_splitLargestAxisEdgeSnap ops fuel tr_root el6
                    let tr_root := nw7
                    let ls9 ← listSet newRoot.rects 1 out8
                    let newRoot := (RNode.mk newRoot.count ls9)
                    let ls10 ← listSet newRoot.rects 0 tr_root
                    let newRoot := (RNode.mk newRoot.count ls10)
                    let newRoot := (RNode.mk 2 newRoot.rects)
                    let tr_root := (RRect.mk (Dyn.rNode newRoot) tr_root.min0 tr_root.min1 tr_root.max0 tr_root.max1)
                    let nw11 ← rRect_recalc ops tr_root
                    let tr_root := nw11
                    let tr_height := (tr_height + 1)
                    some (tr_root, tr_height)
                else
                  some (tr_root, tr_height)
            )
          let tr_count := (tr_count + 1)
          some (RTree.mk tr_height tr_root tr_count tr_reinsert)

/-- Go: `func (tr *rTree) Insert(min, max []float64, value interface{})` — geometry/rtree.go:40; stores through its pointer receiver: returns the updated receiver; passes the fuel on; none = a Go panic -/
def rTree_Insert {F S SR D : Type} [KNum F] (ops : Ops F S SR D) (fuel : Nat) (tr : RTree F) (min : List F) (max : List F) (value : Dyn F) : Option ((RTree F)) :=
  do
    match tr with
    | .mk tr_height tr_root tr_count tr_reinsert =>
        do
          let item : RRect F := (RRect.mk Dyn.nil (KNum.ofNat 0 : F) (KNum.ofNat 0 : F) (KNum.ofNat 0 : F) (KNum.ofNat 0 : F) : RRect F)
          let out1 ← fit ops min max value item
          let item := out1
          let nw2 ← rTree_insert ops fuel (RTree.mk tr_height tr_root tr_count tr_reinsert) item
          let ⟨tr_height, tr_root, tr_count, tr_reinsert⟩ := nw2
          some (RTree.mk tr_height tr_root tr_count tr_reinsert)

/-- Go: `func (r *rRect) intersects(b *rRect) bool` — geometry/rtree.go:218 -/
def rRect_intersects {F S SR D : Type} [KNum F] (ops : Ops F S SR D) (r : RRect F) (b : RRect F) : Bool :=
  match r with
  | .mk r_data r_min0 r_min1 r_max0 r_max1 =>
      if ((b.min0 >ₖ r_max0) || (b.max0 <ₖ r_min0)) then
        false
      else
        if ((b.min1 >ₖ r_max1) || (b.max1 <ₖ r_min1)) then
          false
        else
          true

/-- Go: `func (r *rRect) search( target *rRect, height int, iter func(min, max []float64, value interface{}) bool, ) bool` — geometry/rtree.go:227; the callback threads a state σ; the recursion is not structural: explicit fuel, none when exhausted; none = a Go panic -/
def rRect_search {F S SR D : Type} [KNum F] {σ : Type} (ops : Ops F S SR D) (fuel : Nat) (r : RRect F) (target : RRect F) (height : Int) (iter : σ → (List F) → (List F) → (Dyn F) → σ × Bool) (st' : σ) : Option (σ × Bool) :=
  do
    match fuel with
    | 0 =>
        none
    | fuel+1 =>
        do
          match r with
          | .mk r_data r_min0 r_min1 r_max0 r_max1 =>
              do
                let dn1 ← Dyn.asRNode r_data
                let ex22 ← (
                    do
                      if (height == 0) then
                        do
                          let dn2 ← Dyn.asRNode r_data
                          let ex12 ← loopF (intRange 0 dn2.count) (r_data, st') (fun i (r_data, st') => (
                              do
                                let dn3 ← Dyn.asRNode r_data
                                let el4 ← listAt dn3.rects i
                                if rRect_intersects ops target el4 then
                                  do
                                    let dn5 ← Dyn.asRNode r_data
                                    let el6 ← listAt dn5.rects i
                                    let dn7 ← Dyn.asRNode r_data
                                    let el8 ← listAt dn7.rects i
                                    let dn9 ← Dyn.asRNode r_data
                                    let el10 ← listAt dn9.rects i
                                    let (st', c11) := iter st' ([el6.min0, el6.min1]) ([el8.max0, el8.max1]) el10.data
                                    if !c11 then
                                      some (Flow.ret (st', false))
                                    else
                                      some (Flow.next (r_data, st'))
                                else
                                  some (Flow.next (r_data, st'))
                            ))
                          match ex12 with
                          | Exit.ret r13 =>
                              some (Exit.ret r13)
                          | Exit.done (r_data, st') =>
                              some (Exit.done (r_data, st'))
                      else
                        do
                          let dn14 ← Dyn.asRNode r_data
                          let ex20 ← loopF (intRange 0 dn14.count) (r_data, st') (fun i (r_data, st') => (
                              do
                                let dn15 ← Dyn.asRNode r_data
                                let el16 ← listAt dn15.rects i
                                if rRect_intersects ops target el16 then
                                  do
                                    let dn17 ← Dyn.asRNode r_data
                                    let el18 ← listAt dn17.rects i
                                    let (st', r19) ← rRect_search ops fuel el18 target (height - 1) iter st'
                                    if !r19 then
                                      some (Flow.ret (st', false))
                                    else
                                      some (Flow.next (r_data, st'))
                                else
                                  some (Flow.next (r_data, st'))
                            ))
                          match ex20 with
                          | Exit.ret r21 =>
                              some (Exit.ret r21)
                          | Exit.done (r_data, st') =>
                              some (Exit.done (r_data, st'))
                  )
                match ex22 with
                | Exit.ret r23 =>
                    some r23
                | Exit.done (r_data, st') =>
                    some (st', true)

/-- Go: `func (tr *rTree) search( target *rRect, iter func(min, max []float64, value interface{}) bool, )` — geometry/rtree.go:253; the callback threads a state σ; passes the fuel on; none = a Go panic -/
def rTree_search {F S SR D : Type} [KNum F] {σ : Type} (ops : Ops F S SR D) (fuel : Nat) (tr : RTree F) (target : RRect F) (iter : σ → (List F) → (List F) → (Dyn F) → σ × Bool) (st' : σ) : Option σ :=
  do
    match tr with
    | .mk tr_height tr_root tr_count tr_reinsert =>
        do
          if (Dyn.isNil tr_root.data) then
            some st'
          else
            do
              if rRect_intersects ops target tr_root then
                do
                  let (st', r1) ← rRect_search ops fuel tr_root target tr_height iter st'
                  some st'
              else
                some st'

/-- Go: `func (tr *rTree) Search( min, max []float64, iter func(min, max []float64, value interface{}) bool, )` — geometry/rtree.go:265; the callback threads a state σ; passes the fuel on; none = a Go panic -/
def rTree_Search {F S SR D : Type} [KNum F] {σ : Type} (ops : Ops F S SR D) (fuel : Nat) (tr : RTree F) (min : List F) (max : List F) (iter : σ → (List F) → (List F) → (Dyn F) → σ × Bool) (st' : σ) : Option σ :=
  do
    match tr with
    | .mk tr_height tr_root tr_count tr_reinsert =>
        do
          let target : RRect F := (RRect.mk Dyn.nil (KNum.ofNat 0 : F) (KNum.ofNat 0 : F) (KNum.ofNat 0 : F) (KNum.ofNat 0 : F) : RRect F)
          let out1 ← fit ops min max Dyn.nil target
          let target := out1
          let st' ← rTree_search ops fuel (RTree.mk tr_height tr_root tr_count tr_reinsert) target iter st'
          some st'

/-- Go: `func appendFloat(dst []byte, num float64) []byte` — geometry/rtree.go:274; none = a Go panic -/
def appendFloat {F S SR D : Type} [KNum F] (ops : Ops F S SR D) (dst : D) (num : F) : Option D :=
  do
    let buf : D := (ops.bytesZero 8)
    let buf ← ops.putUint64 buf 0 (ops.float64bits num)
    some (ops.bytesAppendSlice dst buf)

/-- Go: `func (r *rRect) compress(dst []byte, height int) []byte` — geometry/rtree.go:288; the recursion is not structural: explicit fuel, none when exhausted; none = a Go panic -/
def rRect_compress {F S SR D : Type} [KNum F] (ops : Ops F S SR D) (fuel : Nat) (r : RRect F) (dst : D) (height : Int) : Option D :=
  do
    match fuel with
    | 0 =>
        none
    | fuel+1 =>
        do
          match r with
          | .mk r_data r_min0 r_min1 r_max0 r_max1 =>
              do
                let dn1 ← Dyn.asRNode r_data
                let r2 ← appendFloat ops dst r_min0
                let dst := r2
                let r3 ← appendFloat ops dst r_min1
                let dst := r3
                let r4 ← appendFloat ops dst r_max0
                let dst := r4
                let r5 ← appendFloat ops dst r_max1
                let dst := r5
                let dn6 ← Dyn.asRNode r_data
                let dst := ops.bytesAppend dst [intToU 8 dn6.count]
                if (height == 0) then
                  do
                    let ibytes : Nat := 1
                    let dn7 ← Dyn.asRNode r_data
                    let ibytes ← loopM (intRange 0 dn7.count) ibytes (fun i ibytes => (
                        do
                          let dn8 ← Dyn.asRNode r_data
                          let el9 ← listAt dn8.rects i
                          let dn10 ← Dyn.asInt el9.data
                          let ibytes2 := numBytes ops (intToU 32 dn10)
                          if decide (ibytes2 > ibytes) then
                            do
                              let ibytes := ibytes2
                              some ibytes
                          else
                            some ibytes
                      ))
                    let dst := ops.bytesAppend dst [ibytes]
                    let dn11 ← Dyn.asRNode r_data
                    let dst ← loopM (intRange 0 dn11.count) dst (fun i dst => (
                        do
                          let dn12 ← Dyn.asRNode r_data
                          let el13 ← listAt dn12.rects i
                          let dn14 ← Dyn.asInt el13.data
                          let r15 ← appendNum ops dst (intToU 32 dn14) ibytes
                          let dst := r15
                          some dst
                      ))
                    some dst
                else
                  do
                    let dn16 ← Dyn.asRNode r_data
                    let mark := (List.replicate dn16.count.toNat 0)
                    let dn17 ← Dyn.asRNode r_data
                    let (mark, dst) ← loopM (intRange 0 dn17.count) (mark, dst) (fun i (mark, dst) => (
                        do
                          let mark ← listSet mark i (ops.bytesLen dst)
                          let dst := ops.bytesAppend dst [0, 0, 0, 0]
                          some (mark, dst)
                      ))
                    let dn18 ← Dyn.asRNode r_data
                    let dst ← loopM (intRange 0 dn18.count) dst (fun i dst => (
                        do
                          let el19 ← listAt mark i
                          let dst ← ops.putUint32 dst el19 (intToU 32 (ops.bytesLen dst))
                          let dn20 ← Dyn.asRNode r_data
                          let el21 ← listAt dn20.rects i
                          let r22 ← rRect_compress ops fuel el21 dst (height - 1)
                          let dst := r22
                          some dst
                      ))
                    some dst

/-- Go: `func (tr *rTree) compress(dst []byte) []byte` — geometry/rtree.go:280; passes the fuel on; none = a Go panic -/
def rTree_compress {F S SR D : Type} [KNum F] (ops : Ops F S SR D) (fuel : Nat) (tr : RTree F) (dst : D) : Option D :=
  do
    match tr with
    | .mk tr_height tr_root tr_count tr_reinsert =>
        do
          if (Dyn.isNil tr_root.data) then
            some dst
          else
            do
              let dst := ops.bytesAppend dst [intToU 8 tr_height]
              let r1 ← rRect_compress ops fuel tr_root dst tr_height
              some r1

/-- Go: `func rnCompressSearch( data []byte, addr int, series *baseSeries, rect Rect, height int, iter func(seg Segment, item int) bool, ) bool` — geometry/rtree.go:336; the callback threads a state σ; the recursion is not structural: explicit fuel, none when exhausted; none = a Go panic -/
def rnCompressSearch {F S SR D : Type} [KNum F] {σ : Type} (ops : Ops F S SR D) (fuel : Nat) (data : D) (addr : Int) (series : SR) (rect : Rect F) (height : Int) (iter : σ → S → Int → σ × Bool) (st' : σ) : Option (σ × Bool) :=
  do
    match fuel with
    | 0 =>
        none
    | fuel+1 =>
        do
          let nrect : Rect F := (Rect.mk (Point.mk (KNum.ofNat 0 : F) (KNum.ofNat 0 : F) : Point F) (Point.mk (KNum.ofNat 0 : F) (KNum.ofNat 0 : F) : Point F) : Rect F)
          let sl1 ← ops.bytesFrom data addr
          let u2 ← ops.leUint64 sl1
          let nrect := { nrect with min := { nrect.min with x := ops.float64frombits u2 } }
          let addr := (addr + 8)
          let sl3 ← ops.bytesFrom data addr
          let u4 ← ops.leUint64 sl3
          let nrect := { nrect with min := { nrect.min with y := ops.float64frombits u4 } }
          let addr := (addr + 8)
          let sl5 ← ops.bytesFrom data addr
          let u6 ← ops.leUint64 sl5
          let nrect := { nrect with max := { nrect.max with x := ops.float64frombits u6 } }
          let addr := (addr + 8)
          let sl7 ← ops.bytesFrom data addr
          let u8 ← ops.leUint64 sl7
          let nrect := { nrect with max := { nrect.max with y := ops.float64frombits u8 } }
          let addr := (addr + 8)
          if !(ops.rectIntersectsRect rect nrect) then
            some (st', true)
          else
            do
              let by9 ← ops.bytesAt data addr
              let count := Int.ofNat by9
              let addr := (addr + 1)
              if (height == 0) then
                do
                  let by10 ← ops.bytesAt data addr
                  let ibytes := by10
                  let addr := (addr + 1)
                  let ex14 ← loopF (intRange 0 count) (addr, st') (fun i (addr, st') => (
                      do
                        let sl11 ← ops.bytesFrom data addr
                        let r12 ← readNum ops sl11 ibytes
                        let item := Int.ofNat r12
                        let addr := (addr + (Int.ofNat ibytes))
                        let seg := ops.seriesSegmentAt series item
                        let irect := ops.segRect seg
                        if ops.rectIntersectsRect irect rect then
                          do
                            let (st', c13) := iter st' seg item
                            if !c13 then
                              some (Flow.ret (st', false))
                            else
                              some (Flow.next (addr, st'))
                        else
                          some (Flow.next (addr, st'))
                    ))
                  match ex14 with
                  | Exit.ret r15 =>
                      some r15
                  | Exit.done (addr, st') =>
                      some (st', true)
              else
                do
                  let ex19 ← loopF (intRange 0 count) (addr, st') (fun i (addr, st') => (
                      do
                        let sl16 ← ops.bytesFrom data addr
                        let u17 ← ops.leUint32 sl16
                        let naddr := Int.ofNat u17
                        let addr := (addr + 4)
                        let (st', r18) ← rnCompressSearch ops fuel data naddr series rect (height - 1) iter st'
                        if !r18 then
                          some (Flow.ret (st', false))
                        else
                          some (Flow.next (addr, st'))
                    ))
                  match ex19 with
                  | Exit.ret r20 =>
                      some r20
                  | Exit.done (addr, st') =>
                      some (st', true)

/-- Go: `func rCompressSearch( data []byte, addr int, series *baseSeries, rect Rect, iter func(seg Segment, item int) bool, ) bool` — geometry/rtree.go:321; the callback threads a state σ; passes the fuel on; none = a Go panic -/
def rCompressSearch {F S SR D : Type} [KNum F] {σ : Type} (ops : Ops F S SR D) (fuel : Nat) (data : D) (addr : Int) (series : SR) (rect : Rect F) (iter : σ → S → Int → σ × Bool) (st' : σ) : Option (σ × Bool) :=
  do
    if (addr == (ops.bytesLen data)) then
      some (st', true)
    else
      do
        let by1 ← ops.bytesAt data addr
        let height := Int.ofNat by1
        let addr := (addr + 1)
        let (st', r2) ← rnCompressSearch ops fuel data addr series rect height iter st'
        some (st', r2)

end Geo.IGen
