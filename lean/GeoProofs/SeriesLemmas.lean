/-
  GeoProofs.SeriesLemmas — helper lemmas for property C18 (and the series part of C11):
  the `processPoints` loop of GeoModel.Series restated component-wise (rectangle, turn
  signs, shoelace accumulator) over cyclic indexing, and the mathematics on lists.
-/
import GeoModel.Series
import GeoModel.Driver
import Mathlib.Tactic.Linarith
import Mathlib.Tactic.Ring
import Mathlib.Tactic.SplitIfs
import Mathlib.Data.List.Rotate
import Mathlib.Algebra.Order.Field.Rat
import Mathlib.Algebra.BigOperators.Group.List.Basic

namespace Geo
namespace SeriesL

/-! ### components of one loop iteration -/

/-- the rectangle update of `procStep` -/
def rectStep (p : Pt) (i : Nat) (r : Box) : Box :=
  if i == 0 then ⟨p, p⟩
  else
    let minx := if p.x < r.min.x then p.x else r.min.x
    let maxx := if p.x < r.min.x then r.max.x else if p.x > r.max.x then p.x else r.max.x
    let miny := if p.y < r.min.y then p.y else r.min.y
    let maxy := if p.y < r.min.y then r.max.y else if p.y > r.max.y then p.y else r.max.y
    ⟨⟨minx, miny⟩, ⟨maxx, maxy⟩⟩

/-- the (dir, concave) update of `procStep` on turn value `z` -/
def convStep (dc : Int × Bool) (z : Rat) : Int × Bool :=
  if dc.2 then dc
  else if dc.1 == 0 then
    if z < 0 then (-1, false) else if z > 0 then (1, false) else (0, false)
  else if z < 0 then
    if dc.1 == 1 then (dc.1, true) else (dc.1, false)
  else if z > 0 then
    if dc.1 == -1 then (dc.1, true) else (dc.1, false)
  else (dc.1, false)

/-- z-component of the cross product of consecutive edge vectors ab, bc -/
def turn (a b c : Pt) : Rat := (b.x - a.x) * (c.y - b.y) - (b.y - a.y) * (c.x - b.x)

/-- the shoelace term the loop accumulates -/
def shoe (a b : Pt) : Rat := (b.x - a.x) * (b.y + a.y)

/-- turn at cyclic position `i` of the `n`-cycle `P` -/
def turnAt (P : Nat → Pt) (n i : Nat) : Rat := turn (P i) (P ((i + 1) % n)) (P ((i + 2) % n))

def shoeAt (P : Nat → Pt) (n i : Nat) : Rat := shoe (P i) (P ((i + 1) % n))

theorem cyc_pair (pts : Array Pt) (n i : Nat) (hn : 2 ≤ n) (hi : i < n) :
    (if i == n - 1 then (pts[0]!, pts[1]!)
      else if i == n - 2 then (pts[i+1]!, pts[0]!)
      else (pts[i+1]!, pts[i+2]!)) = (pts[(i + 1) % n]!, pts[(i + 2) % n]!) := by
  by_cases h1 : i = n - 1
  · have hn' : n = i + 1 := by omega
    subst hn'
    have : (i + 2) % (i + 1) = 1 := by
      rw [show i + 2 = 1 + (i + 1) by omega, Nat.add_mod_right, Nat.mod_eq_of_lt (by omega)]
    simp [this]
  · by_cases h2 : i = n - 2
    · have hn' : n = i + 2 := by omega
      subst hn'
      have h3 : (i + 1) % (i + 2) = i + 1 := Nat.mod_eq_of_lt (by omega)
      simp [h3]
    · have h3 : (i + 1) % n = i + 1 := Nat.mod_eq_of_lt (by omega)
      have h4 : (i + 2) % n = i + 2 := Nat.mod_eq_of_lt (by omega)
      simp [h1, h2, h3, h4]

theorem procStep_eq (pts : Array Pt) (n : Nat) (st : ProcSt) (i : Nat) (hn : 2 ≤ n) (hi : i < n) :
    procStep pts n st i =
      ⟨rectStep pts[i]! i st.rect,
       (convStep (st.dir, st.concave) (turnAt (fun j => pts[j]!) n i)).1,
       (convStep (st.dir, st.concave) (turnAt (fun j => pts[j]!) n i)).2,
       st.cwc + shoeAt (fun j => pts[j]!) n i⟩ := by
  unfold procStep
  rw [cyc_pair pts n i hn hi]
  by_cases hc : st.concave = true
  · simp [hc, convStep, rectStep, shoeAt, shoe]
  · simp only [hc, convStep, rectStep, shoeAt, shoe, turnAt, turn]
    simp

theorem foldl_procStep (pts : Array Pt) (n : Nat) (hn : 2 ≤ n) :
    ∀ (l : List Nat), (∀ i ∈ l, i < n) → ∀ st : ProcSt,
    l.foldl (procStep pts n) st =
      ⟨l.foldl (fun r i => rectStep pts[i]! i r) st.rect,
       (l.foldl (fun dc i => convStep dc (turnAt (fun j => pts[j]!) n i)) (st.dir, st.concave)).1,
       (l.foldl (fun dc i => convStep dc (turnAt (fun j => pts[j]!) n i)) (st.dir, st.concave)).2,
       l.foldl (fun s i => s + shoeAt (fun j => pts[j]!) n i) st.cwc⟩ := by
  intro l
  induction l with
  | nil => intro _ st; rfl
  | cons i l ih =>
    intro hl st
    rw [List.foldl_cons, procStep_eq pts n st i hn (hl i (by simp)),
      ih (fun j hj => hl j (by simp [hj]))]
    rfl

/-! ### the rectangle -/

/-- the specification's box update (`Driver.bboxSpec`) -/
def bstep (b : Box) (q : Pt) : Box :=
  ⟨⟨min b.min.x q.x, min b.min.y q.y⟩, ⟨max b.max.x q.x, max b.max.y q.y⟩⟩

theorem bboxSpec_cons (p : Pt) (rest : List Pt) :
    Driver.bboxSpec (p :: rest) = some (rest.foldl bstep ⟨p, p⟩) := rfl

def Box.ok (b : Box) : Prop := b.min.x ≤ b.max.x ∧ b.min.y ≤ b.max.y

theorem bstep_ok (b : Box) (q : Pt) (h : Box.ok b) : Box.ok (bstep b q) :=
  ⟨le_trans (min_le_left _ _) (le_trans h.1 (le_max_left _ _)),
   le_trans (min_le_left _ _) (le_trans h.2 (le_max_left _ _))⟩

theorem bfold_ok : ∀ (l : List Pt) (b : Box), Box.ok b → Box.ok (l.foldl bstep b)
  | [], _, h => h
  | q :: l, b, h => bfold_ok l (bstep b q) (bstep_ok b q h)

theorem rectStep_succ (p : Pt) (i : Nat) (r : Box) (hi : i ≠ 0) (h : Box.ok r) :
    rectStep p i r = bstep r p := by
  obtain ⟨hx, hy⟩ := h
  have e1 : (if p.x < r.min.x then p.x else r.min.x) = min r.min.x p.x := by
    rw [min_def]; split_ifs <;> linarith
  have e2 : (if p.y < r.min.y then p.y else r.min.y) = min r.min.y p.y := by
    rw [min_def]; split_ifs <;> linarith
  have e3 : (if p.x < r.min.x then r.max.x else if p.x > r.max.x then p.x else r.max.x)
      = max r.max.x p.x := by
    rw [max_def]; split_ifs <;> linarith
  have e4 : (if p.y < r.min.y then r.max.y else if p.y > r.max.y then p.y else r.max.y)
      = max r.max.y p.y := by
    rw [max_def]; split_ifs <;> linarith
  simp only [rectStep, bstep, e1, e2, e3, e4]
  simp [hi]

/-- the loop's rectangle after the first `k+1` vertices is the specification's fold -/
theorem rect_fold (p : Pt) (rest : List Pt) (r0 : Box) :
    ∀ k, k ≤ rest.length →
      (List.range (k + 1)).foldl (fun r i => rectStep (p :: rest)[i]! i r) r0
        = (rest.take k).foldl bstep ⟨p, p⟩ := by
  intro k
  induction k with
  | zero => intro _; simp [rectStep]
  | succ k ih =>
    intro hk
    have hk' : k < rest.length := hk
    rw [List.range_succ, List.foldl_append, ih (by omega)]
    have ht : rest.take (k + 1) = rest.take k ++ [rest[k]] := by
      rw [List.take_add_one]; simp [hk']
    have hg : (p :: rest)[k + 1]! = rest[k] := by simp [hk']
    rw [ht, List.foldl_append]
    simp only [List.foldl_cons, List.foldl_nil, hg]
    exact rectStep_succ _ _ _ (by omega) (bfold_ok _ _ ⟨le_refl _, le_refl _⟩)

/-- what the specification's fold computes -/
theorem bfold_spec : ∀ (l : List Pt) (b : Box),
    ((l.foldl bstep b).min.x ≤ b.min.x ∧ b.max.x ≤ (l.foldl bstep b).max.x ∧
     (l.foldl bstep b).min.y ≤ b.min.y ∧ b.max.y ≤ (l.foldl bstep b).max.y) ∧
    (∀ q ∈ l, (l.foldl bstep b).min.x ≤ q.x ∧ q.x ≤ (l.foldl bstep b).max.x ∧
              (l.foldl bstep b).min.y ≤ q.y ∧ q.y ≤ (l.foldl bstep b).max.y) ∧
    ((l.foldl bstep b).min.x = b.min.x ∨ ∃ q ∈ l, q.x = (l.foldl bstep b).min.x) ∧
    ((l.foldl bstep b).max.x = b.max.x ∨ ∃ q ∈ l, q.x = (l.foldl bstep b).max.x) ∧
    ((l.foldl bstep b).min.y = b.min.y ∨ ∃ q ∈ l, q.y = (l.foldl bstep b).min.y) ∧
    ((l.foldl bstep b).max.y = b.max.y ∨ ∃ q ∈ l, q.y = (l.foldl bstep b).max.y) := by
  intro l
  induction l with
  | nil => intro b; simp
  | cons q l ih =>
    intro b
    obtain ⟨⟨h1, h2, h3, h4⟩, hall, a1, a2, a3, a4⟩ := ih (bstep b q)
    simp only [List.foldl_cons]
    have e1 : (bstep b q).min.x = min b.min.x q.x := rfl
    have e2 : (bstep b q).max.x = max b.max.x q.x := rfl
    have e3 : (bstep b q).min.y = min b.min.y q.y := rfl
    have e4 : (bstep b q).max.y = max b.max.y q.y := rfl
    rw [e1] at h1 a1
    rw [e2] at h2 a2
    rw [e3] at h3 a3
    rw [e4] at h4 a4
    refine ⟨⟨le_trans h1 (min_le_left _ _), le_trans (le_max_left _ _) h2,
        le_trans h3 (min_le_left _ _), le_trans (le_max_left _ _) h4⟩, ?_, ?_, ?_, ?_, ?_⟩
    · intro q' hq'
      rcases List.mem_cons.1 hq' with rfl | hq'
      · exact ⟨le_trans h1 (min_le_right _ _), le_trans (le_max_right _ _) h2,
          le_trans h3 (min_le_right _ _), le_trans (le_max_right _ _) h4⟩
      · exact hall q' hq'
    · rcases a1 with a | ⟨q', hq', e⟩
      · rcases min_choice b.min.x q.x with c | c
        · left; rw [a, c]
        · right; exact ⟨q, by simp, by rw [a, c]⟩
      · right; exact ⟨q', by simp [hq'], e⟩
    · rcases a2 with a | ⟨q', hq', e⟩
      · rcases max_choice b.max.x q.x with c | c
        · left; rw [a, c]
        · right; exact ⟨q, by simp, by rw [a, c]⟩
      · right; exact ⟨q', by simp [hq'], e⟩
    · rcases a3 with a | ⟨q', hq', e⟩
      · rcases min_choice b.min.y q.y with c | c
        · left; rw [a, c]
        · right; exact ⟨q, by simp, by rw [a, c]⟩
      · right; exact ⟨q', by simp [hq'], e⟩
    · rcases a4 with a | ⟨q', hq', e⟩
      · rcases max_choice b.max.y q.y with c | c
        · left; rw [a, c]
        · right; exact ⟨q, by simp, by rw [a, c]⟩
      · right; exact ⟨q', by simp [hq'], e⟩

/-- adding a point already inside does not change the box -/
theorem bstep_inside (b : Box) (q : Pt) (h1 : b.min.x ≤ q.x) (h2 : q.x ≤ b.max.x)
    (h3 : b.min.y ≤ q.y) (h4 : q.y ≤ b.max.y) : bstep b q = b := by
  cases b with
  | mk mn mx =>
    cases mn; cases mx
    simp only [bstep] at *
    simp [min_eq_left h1, min_eq_left h3, max_eq_left h2, max_eq_left h4]

/-- rectangle of the fold for the two possible values of `npoints` -/
theorem rect_of_fold (p : Pt) (rest : List Pt) (n : Nat) (hn : 2 ≤ n) (st : ProcSt)
    (hcase : n = rest.length + 1 ∨ (n = rest.length ∧ (p :: rest)[rest.length]! = p)) :
    some ((List.range n).foldl (procStep (p :: rest).toArray n) st).rect
      = Driver.bboxSpec (p :: rest) := by
  rw [foldl_procStep _ n hn _ (fun i hi => List.mem_range.1 hi)]
  simp only [List.getElem!_toArray, bboxSpec_cons]
  obtain ⟨k, rfl⟩ : ∃ k, n = k + 1 := ⟨n - 1, by omega⟩
  rcases hcase with h | ⟨h, hp⟩
  · have hk : k = rest.length := by omega
    subst hk
    rw [rect_fold p rest _ _ (le_refl _), List.take_length]
  · rw [rect_fold p rest _ k (by omega)]
    have hk : k < rest.length := by omega
    have hp' : rest[k] = p := by
      rw [← h] at hp
      simpa [hk] using hp
    have e : rest = rest.take k ++ [p] := by
      have := @List.take_add_one _ rest k
      rw [List.take_of_length_le (by omega)] at this
      conv_lhs => rw [this]
      simp [hk, hp']
    conv_rhs => rw [e]
    rw [List.foldl_append]
    simp only [List.foldl_cons, List.foldl_nil]
    obtain ⟨⟨h1, h2, h3, h4⟩, _⟩ := bfold_spec (rest.take k) ⟨p, p⟩
    rw [bstep_inside _ _ h1 h2 h3 h4]

/-! ### edges: the NumSegments / SegmentAt rule, cyclic form -/

theorem zip_tail_getElem? (L : List Pt) (i : Nat) (h : i + 1 < L.length) :
    (L.zip L.tail)[i]? = some (L[i]!, L[i+1]!) := by
  rw [List.getElem?_zip_eq_some]
  have h0 : i < L.length := by omega
  simp [h, h0]

theorem head?_eq_getElem! (L : List Pt) (h : 0 < L.length) : L.head? = some L[0]! := by
  cases L with
  | nil => simp at h
  | cons a l => simp

theorem getLast?_eq_getElem! (L : List Pt) (h : 0 < L.length) :
    L.getLast? = some L[L.length - 1]! := by
  rw [List.getLast?_eq_getElem?]
  have : L.length - 1 < L.length := by omega
  simp [this]

/-- number of effective vertices of a closed series -/
def nptsL (L : List Pt) : Nat := if L[L.length - 1]! = L[0]! then L.length - 1 else L.length

theorem edges_closed (L : List Pt) (h : 3 ≤ L.length) :
    Spec.edges L true =
      if L[L.length - 1]! = L[0]! then L.zip L.tail
      else L.zip L.tail ++ [(L[L.length - 1]!, L[0]!)] := by
  unfold Spec.edges
  have h' : ¬ L.length < 3 := by omega
  simp only [if_true, if_neg h', head?_eq_getElem! L (by omega), getLast?_eq_getElem! L (by omega)]

theorem edges_cyc (L : List Pt) (h : 3 ≤ L.length) :
    Spec.edges L true
      = (List.range (nptsL L)).map (fun i => (L[i]!, L[(i + 1) % nptsL L]!)) := by
  rw [edges_closed L h]
  apply List.ext_getElem?
  intro i
  unfold nptsL
  split_ifs with hc
  · by_cases hi : i < L.length - 1
    · rw [zip_tail_getElem? L i (by omega)]
      simp only [List.getElem?_map, List.getElem?_range hi, Option.map_some]
      by_cases hi' : i + 1 < L.length - 1
      · rw [Nat.mod_eq_of_lt hi']
      · have : i + 1 = L.length - 1 := by omega
        rw [this, Nat.mod_self, hc]
    · rw [List.getElem?_eq_none (by simp; omega), List.getElem?_eq_none (by simp; omega)]
  · by_cases hi : i < L.length - 1
    · rw [List.getElem?_append_left (by simp; omega), zip_tail_getElem? L i (by omega)]
      simp only [List.getElem?_map, List.getElem?_range (show i < L.length by omega), Option.map_some]
      rw [Nat.mod_eq_of_lt (by omega)]
    · by_cases hi' : i = L.length - 1
      · rw [List.getElem?_append_right (by simp; omega)]
        simp only [List.getElem?_map, List.getElem?_range (show i < L.length by omega), Option.map_some]
        have : i + 1 = L.length := by omega
        rw [this, Nat.mod_self]
        simp [hi']
      · rw [List.getElem?_eq_none (by simp; omega), List.getElem?_eq_none (by simp; omega)]

/-! ### shoelace accumulator and signed area -/

theorem foldl_add_eq_sum {α : Type} (f : α → Rat) : ∀ (l : List α) (a : Rat),
    l.foldl (fun s i => s + f i) a = a + (l.map f).sum
  | [], a => by simp
  | x :: l, a => by simp [foldl_add_eq_sum f l, add_assoc]

theorem map_range_rotate {α : Type} (f : Nat → α) (n k : Nat) :
    (List.range n).map (fun i => f ((i + k) % n)) = ((List.range n).map f).rotate k := by
  apply List.ext_getElem
  · simp
  · intro i h1 h2
    simp [List.getElem_rotate]

theorem sum_range_shift (f : Nat → Rat) (n k : Nat) :
    ((List.range n).map (fun i => f ((i + k) % n))).sum = ((List.range n).map f).sum := by
  rw [map_range_rotate]
  exact (List.rotate_perm _ _).sum_eq

def crossE (a b : Pt) : Rat := a.x * b.y - b.x * a.y
def crossAt (P : Nat → Pt) (n i : Nat) : Rat := crossE (P i) (P ((i + 1) % n))

theorem shoe_cross (P : Nat → Pt) (n i : Nat) :
    shoeAt P n i + crossAt P n i + (P i).x * (P i).y
      = (P ((i + 1) % n)).x * (P ((i + 1) % n)).y := by
  unfold shoeAt crossAt shoe crossE; ring

/-- the shoelace accumulator of the loop is minus twice the signed area -/
theorem cyc_sum_zero (P : Nat → Pt) (n : Nat) :
    ((List.range n).map (shoeAt P n)).sum + ((List.range n).map (crossAt P n)).sum = 0 := by
  have h := sum_range_shift (fun j => (P j).x * (P j).y) n 1
  simp only [← shoe_cross] at h
  rw [List.sum_map_add, List.sum_map_add] at h
  linarith

theorem area2_cyc (L : List Pt) (h : 3 ≤ L.length) :
    Spec.area2 L = ((List.range (nptsL L)).map (crossAt (fun j => L[j]!) (nptsL L))).sum := by
  unfold Spec.area2
  rw [edges_cyc L h, List.foldl_map, foldl_add_eq_sum, zero_add]
  rfl

theorem npoints_eq (L : List Pt) :
    (if (true && L.toArray[L.toArray.size - 1]! == L.toArray[0]!) = true then L.toArray.size - 1
      else L.toArray.size) = nptsL L := by
  simp [nptsL]

theorem nptsL_ge (L : List Pt) (h : 3 ≤ L.length) : 2 ≤ nptsL L := by
  unfold nptsL; split_ifs <;> omega

theorem processPoints_clockwise (L : List Pt) (h : 3 ≤ L.length) :
    (processPoints L.toArray true).clockwise
      = decide (0 < ((List.range (nptsL L)).map (shoeAt (fun j => L[j]!) (nptsL L))).sum) := by
  unfold processPoints
  rw [if_neg (by simp; omega)]
  simp only [npoints_eq]
  rw [foldl_procStep _ _ (nptsL_ge L h) _ (fun i hi => List.mem_range.1 hi)]
  simp only [List.getElem!_toArray, foldl_add_eq_sum, zero_add, gt_iff_lt]

theorem processPoints_convex (L : List Pt) (h : 3 ≤ L.length) :
    (processPoints L.toArray true).convex
      = !(((List.range (nptsL L)).map (turnAt (fun j => L[j]!) (nptsL L))).foldl convStep
            (0, false)).2 := by
  unfold processPoints
  rw [if_neg (by simp; omega)]
  simp only [npoints_eq]
  rw [foldl_procStep _ _ (nptsL_ge L h) _ (fun i hi => List.mem_range.1 hi)]
  simp only [List.getElem!_toArray, List.foldl_map]


/-! ### convexity fold -/

theorem convStep_true (d : Int) (z : Rat) : convStep (d, true) z = (d, true) := by simp [convStep]

theorem convFold_true : ∀ (ts : List Rat) (d : Int), (ts.foldl convStep (d, true)).2 = true
  | [], _ => rfl
  | z :: ts, d => by rw [List.foldl_cons, convStep_true]; exact convFold_true ts d

/-- invariant of the convexity part of the loop -/
theorem convFold : ∀ (ts : List Rat) (d : Int) (c : Bool), (d = 0 ∨ d = 1 ∨ d = -1) →
    (ts.foldl convStep (d, c)).2 =
      (c || (if d = 0 then ts.any (· > 0) && ts.any (· < 0)
             else if d = 1 then ts.any (· < 0) else ts.any (· > 0))) := by
  intro ts
  induction ts with
  | nil => intro d c _; simp
  | cons z ts ih =>
    intro d c hd
    cases c
    · rw [List.foldl_cons]
      rcases hd with rfl | rfl | rfl <;> rcases lt_trichotomy z 0 with hz | hz | hz
      · have h2 : ¬ (z > 0) := by linarith
        simp [convStep, hz, h2, ih]
      · subst hz; simp [convStep, ih]
      · have h2 : ¬ (z < 0) := by linarith
        simp [convStep, hz, h2, ih]
      · have h2 : ¬ (z > 0) := by linarith
        simp [convStep, hz, convFold_true]
      · subst hz; simp [convStep, ih]
      · have h2 : ¬ (z < 0) := by linarith
        simp [convStep, hz, h2, ih]
      · have h2 : ¬ (z > 0) := by linarith
        simp [convStep, hz, h2, ih]
      · subst hz; simp [convStep, ih]
      · have h2 : ¬ (z < 0) := by linarith
        simp [convStep, hz, h2, convFold_true]
    · rw [convFold_true]; simp


/-! ### turns of the specification, cyclic form -/

theorem dropClosing_eq (L : List Pt) (h : 2 ≤ L.length) :
    Driver.dropClosing L = L.take (nptsL L) := by
  unfold Driver.dropClosing nptsL
  simp only [head?_eq_getElem! L (by omega), getLast?_eq_getElem! L (by omega)]
  have h2 : decide (L.length ≥ 2) = true := by simpa using h
  simp only [h2, Bool.true_and, decide_eq_true_eq]
  split_ifs
  · exact List.dropLast_eq_take
  · simp

theorem nptsL_le (L : List Pt) : nptsL L ≤ L.length := by
  unfold nptsL; split_ifs <;> omega

theorem nptsL_pos (L : List Pt) (h : 2 ≤ L.length) : 0 < nptsL L := by
  unfold nptsL; split_ifs <;> omega

theorem turnsOf_cyc (L : List Pt) (h : 2 ≤ L.length) :
    Driver.turnsOf L = (List.range (nptsL L)).map (turnAt (fun j => L[j]!) (nptsL L)) := by
  unfold Driver.turnsOf
  rw [dropClosing_eq L h]
  have hn := nptsL_le L
  have hp := nptsL_pos L h
  have hsz : (List.take (nptsL L) L).toArray.size = nptsL L := by simp [hn]
  simp only [hsz]
  apply List.map_congr_left
  intro i hi
  have hi := List.mem_range.1 hi
  have h1 : (i + 1) % nptsL L < nptsL L := Nat.mod_lt _ hp
  have h2 : (i + 2) % nptsL L < nptsL L := Nat.mod_lt _ hp
  have g : ∀ j, j < nptsL L → (List.take (nptsL L) L).toArray[j]! = L[j]! := by
    intro j hj
    simp [hj]
  simp only [g i hi, g _ h1, g _ h2, turnAt, turn]

theorem convexSpec_cyc (L : List Pt) (h : 2 ≤ L.length) :
    Driver.convexSpec L =
      !(((List.range (nptsL L)).map (turnAt (fun j => L[j]!) (nptsL L))).any (· > 0) &&
        ((List.range (nptsL L)).map (turnAt (fun j => L[j]!) (nptsL L))).any (· < 0)) := by
  unfold Driver.convexSpec
  rw [turnsOf_cyc L h]


/-! ### open vertex cycles: closing vertex and rotation -/

/-- turns of the open vertex cycle `v` (no closing vertex), cyclic indexing -/
def cycTurns (v : List Pt) : List Rat :=
  (List.range v.length).map (turnAt (fun j => v[j]!) v.length)

/-- shoelace cross terms of the open vertex cycle `v` -/
def cycCross (v : List Pt) : List Rat :=
  (List.range v.length).map (crossAt (fun j => v[j]!) v.length)

theorem turnAt_congr (P Q : Nat → Pt) (n i : Nat) (hn : 0 < n) (hi : i < n)
    (h : ∀ j, j < n → P j = Q j) : turnAt P n i = turnAt Q n i := by
  unfold turnAt
  rw [h i hi, h _ (Nat.mod_lt _ hn), h _ (Nat.mod_lt _ hn)]

theorem crossAt_congr (P Q : Nat → Pt) (n i : Nat) (hn : 0 < n) (hi : i < n)
    (h : ∀ j, j < n → P j = Q j) : crossAt P n i = crossAt Q n i := by
  unfold crossAt
  rw [h i hi, h _ (Nat.mod_lt _ hn)]

theorem nptsL_closed (v : List Pt) (hv : v ≠ []) : nptsL (v ++ [v.head!]) = v.length := by
  cases v with
  | nil => exact absurd rfl hv
  | cons a t => simp [nptsL]

theorem getElem!_closed (v : List Pt) (x : Pt) (j : Nat) (hj : j < v.length) :
    (v ++ [x])[j]! = v[j]! := by
  simp [List.getElem?_append_left hj]

theorem nptsL_open (v : List Pt) (h : 0 < v.length) (hne : v.getLast? ≠ v.head?) :
    nptsL v = v.length := by
  rw [head?_eq_getElem! v h, getLast?_eq_getElem! v h] at hne
  unfold nptsL
  rw [if_neg (fun e => hne (by rw [e]))]

theorem turnsOf_closed (v : List Pt) (hv : v ≠ []) :
    Driver.turnsOf (v ++ [v.head!]) = cycTurns v := by
  have hl : 0 < v.length := List.length_pos_iff.2 hv
  rw [turnsOf_cyc _ (by simp; omega), nptsL_closed v hv]
  apply List.map_congr_left
  intro i hi
  exact turnAt_congr _ _ _ _ hl (List.mem_range.1 hi) (fun j hj => getElem!_closed v _ j hj)

theorem turnsOf_open (v : List Pt) (h : 2 ≤ v.length) (hne : v.getLast? ≠ v.head?) :
    Driver.turnsOf v = cycTurns v := by
  rw [turnsOf_cyc _ h, nptsL_open v (by omega) hne]; rfl

theorem area2_closed (v : List Pt) (h : 2 ≤ v.length) :
    Spec.area2 (v ++ [v.head!]) = (cycCross v).sum := by
  have hv : v ≠ [] := by intro e; simp [e] at h
  rw [area2_cyc _ (by simp; omega), nptsL_closed v hv]
  congr 1
  apply List.map_congr_left
  intro i hi
  exact crossAt_congr _ _ _ _ (by omega) (List.mem_range.1 hi) (fun j hj => getElem!_closed v _ j hj)

theorem area2_open (v : List Pt) (h : 3 ≤ v.length) (hne : v.getLast? ≠ v.head?) :
    Spec.area2 v = (cycCross v).sum := by
  rw [area2_cyc _ h, nptsL_open v (by omega) hne]; rfl

theorem getElem!_rotate (v : List Pt) (k j : Nat) (hj : j < v.length) :
    (v.rotate k)[j]! = v[(j + k) % v.length]! := by
  have h1 : j < (v.rotate k).length := by simpa using hj
  have h2 : (j + k) % v.length < v.length := Nat.mod_lt _ (by omega)
  rw [getElem!_pos (v.rotate k) j h1, getElem!_pos v _ h2, List.getElem_rotate]

theorem mod_shift (n i k c : Nat) : ((i + c) % n + k) % n = ((i + k) % n + c) % n := by
  rw [Nat.mod_add_mod, Nat.mod_add_mod]; congr 1; omega

theorem cycTurns_rotate (v : List Pt) (k : Nat) :
    cycTurns (v.rotate k) = (cycTurns v).rotate k := by
  unfold cycTurns
  rw [← map_range_rotate, List.length_rotate]
  apply List.map_congr_left
  intro i hi
  have hi := List.mem_range.1 hi
  have hn : 0 < v.length := by omega
  unfold turnAt
  simp only [getElem!_rotate v k _ hi, getElem!_rotate v k _ (Nat.mod_lt _ hn), mod_shift]

theorem cycCross_rotate (v : List Pt) (k : Nat) :
    cycCross (v.rotate k) = (cycCross v).rotate k := by
  unfold cycCross
  rw [← map_range_rotate, List.length_rotate]
  apply List.map_congr_left
  intro i hi
  have hi := List.mem_range.1 hi
  have hn : 0 < v.length := by omega
  unfold crossAt
  simp only [getElem!_rotate v k _ hi, getElem!_rotate v k _ (Nat.mod_lt _ hn), mod_shift]


end SeriesL
end Geo
