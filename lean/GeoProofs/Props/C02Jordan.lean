/-
  C02 with the discrete Jordan lemma: the theorems of Props/C02.lean together with
  GeoProofs/Jordan/Parity.lean (crossing parity is constant along a segment that avoids a
  closed chain, flips across one proper crossing; exact characterisation of "the closed
  region meets a segment").
-/
import GeoProofs.Props.C02
import GeoProofs.Jordan.Parity
