/-
  GeoModel.Num — exact numbers for the planar model.

  Coordinates are `Rat`.  The Go code divides floats in two places (Raycast slope tests,
  IntersectsSegment's reciprocal); IEEE division by zero yields NaN / ±Inf, which Lean's
  `x / 0 = 0` would silently totalise, so quotients go through the explicit shim `FQ`.
-/
namespace Geo

/-- Result of an IEEE-754 division `n / d` of two finite doubles, abstracted:
    NaN, ±Inf, or the exact quotient (the float bridge of DESIGN §3 argues that on the
    regime E the *comparisons* made on such quotients agree with the exact ones). -/
inductive FQ where
  | nan
  | pinf
  | ninf
  | fin (q : Rat)
deriving DecidableEq, Repr

/-- IEEE division of finite `n` by finite `d` (zero denominators here are always `+0`,
    being differences `x - x`). -/
def fdiv (n d : Rat) : FQ :=
  if d = 0 then
    if n = 0 then .nan else if 0 < n then .pinf else .ninf
  else .fin (n / d)

/-- IEEE `==` on quotients: NaN equals nothing. -/
def FQ.feq : FQ → FQ → Bool
  | .fin a, .fin b => decide (a = b)
  | .pinf, .pinf => true
  | .ninf, .ninf => true
  | _, _ => false

/-- IEEE `>=` on quotients: false if either side is NaN. -/
def FQ.fge : FQ → FQ → Bool
  | .nan, _ => false
  | _, .nan => false
  | .pinf, _ => true
  | _, .ninf => true
  | .ninf, _ => false
  | _, .pinf => false
  | .fin a, .fin b => decide (b ≤ a)

end Geo
