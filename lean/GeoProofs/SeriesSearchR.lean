/-
  GeoProofs.SeriesSearchR — the R-tree case of C04 for the concrete `Series` (carrier `Rat`,
  coordinates encoded as IEEE-754 binary64 by `encF64`/`decF64`), without any hypothesis on the
  byte-level search: `series_search_exact_rtree_dyadic`.

  Ingredients: `rtree_search_exact_patched` (Index/RBytesGood.lean: exactness of the search on
  the bytes as stored, with the float round trip needed on the occurring coordinates only),
  `SignExactSub Rat` (below), and the float codec round trip on `Dyadic53` rationals
  (Index/F64Codec.lean).  Then every C01 statement holds for R-tree-indexed rings as well.
-/
import GeoProofs.SeriesSearch
import GeoProofs.Index.RBytesGood
import GeoProofs.Index.F64Codec
import GeoProofs.Props.C01

namespace Geo

/-! ### exact rational subtraction has an exact sign -/

instance : SignExactSub Rat where
  sub_neg a b := by
    show decide (a - b < 0) = decide (a < b)
    rw [decide_eq_decide]
    exact sub_neg
  sub_pos a b := by
    show decide (0 < a - b) = decide (b < a)
    rw [decide_eq_decide]
    exact sub_pos

/-! ### segment boxes only contain vertex coordinates -/

theorem segBox_good (G : Rat → Prop) (pts : Array Pt) (closed : Bool)
    (hd : ∀ p ∈ pts.toList, G p.x ∧ G p.y) (i : Nat) (hi : i < numSegmentsOf pts closed) :
    ((segmentAtOf pts i).box.g).Good G := by
  obtain ⟨ha, hb⟩ := segmentAt_mem pts closed i hi
  obtain ⟨a1, a2⟩ := hd _ ha
  obtain ⟨b1, b2⟩ := hd _ hb
  unfold GBox.Good Box.g Seg.box
  simp only
  refine ⟨?_, ?_, ?_, ?_⟩ <;> split <;> assumption

/-- R-tree-indexed series, for any set `G` of coordinates on which the float codec round-trips
    and which contains all vertex coordinates. -/
theorem series_search_exact_rtree_of_codec (G : Rat → Prop)
    (henc : ∀ x, G x → decF64 (encF64 x) = x)
    (pts : Array Pt) (closed : Bool) (minPoints : Nat)
    (hd : ∀ p ∈ pts.toList, G p.x ∧ G p.y)
    (hn : pts.size < 2 ^ 32) (hsz : (rBytesOf pts closed).size < 2 ^ 32) :
    (mkSeries pts closed .rtree minPoints).SearchExact := by
  refine series_search_exact_rtree pts closed minPoints hsz (fun q => ?_)
  have hns : numSegmentsOf pts closed < 2 ^ 32 := by
    have := numSegmentsOf_le pts closed; omega
  exact rtree_search_exact_patched G encF64 decF64 (fun i => (segmentAtOf pts i).box.g) q
    (numSegmentsOf pts closed) hns henc (fun x => by simp [encF64])
    (fun i hi => segBox_good G pts closed hd i hi) hsz

/-- **C04, R-tree case, concrete series.**  If every vertex coordinate is a normal binary64
    number or zero (`Dyadic53`: exactly the rationals on which the float codec is exact), the
    R-tree-indexed series (any threshold; below it no index is built) searches exactly: for every
    query the callback sees each segment whose box meets the query exactly once, early stop is
    honoured, no decoding panic.  Size hypotheses: the format stores item numbers and child
    addresses in 32 bits. -/
theorem series_search_exact_rtree_dyadic (pts : Array Pt) (closed : Bool) (minPoints : Nat)
    (hd : ∀ p ∈ pts.toList, Dyadic53 p.x ∧ Dyadic53 p.y)
    (hn : pts.size < 2 ^ 32) (hsz : (rBytesOf pts closed).size < 2 ^ 32) :
    (mkSeries pts closed .rtree minPoints).SearchExact :=
  series_search_exact_rtree_of_codec Dyadic53 decF64_encF64 pts closed minPoints hd hn hsz

/-- all three index kinds, no hypothesis on the searches left -/
theorem series_search_exact_dyadic (pts : Array Pt) (closed : Bool) (kind : IndexKind)
    (minPoints : Nat) (hn : pts.size < 2 ^ 32)
    (hq : kind = .quadtree → (qBytesOf pts closed).size < 2 ^ 32)
    (hr : kind = .rtree → (rBytesOf pts closed).size < 2 ^ 32 ∧
      ∀ p ∈ pts.toList, Dyadic53 p.x ∧ Dyadic53 p.y) :
    (mkSeries pts closed kind minPoints).SearchExact :=
  series_search_exact pts closed kind minPoints hn hq
    (fun h => series_search_exact_rtree_dyadic pts closed minPoints (hr h).2 hn (hr h).1)

/-! ### C01 for R-tree-indexed rings and lines -/

theorem ringContainsPoint_hit_iff_rtree (pts : Array Pt) (minPoints : Nat)
    (hd : ∀ p ∈ pts.toList, Dyadic53 p.x ∧ Dyadic53 p.y)
    (hn : pts.size < 2 ^ 32) (hsz : (rBytesOf pts true).size < 2 ^ 32) (p : Pt) (allowOnEdge : Bool) :
    (ringContainsPoint (.ser (mkSeries pts true .rtree minPoints)) p allowOnEdge).hit =
      (if Spec.onBoundary (Spec.edges pts.toList true) p then allowOnEdge
       else (Spec.parity (Spec.edges pts.toList true) p == 1)) :=
  ringContainsPoint_hit_iff pts .rtree minPoints
    (series_search_exact_rtree_dyadic pts true minPoints hd hn hsz) p allowOnEdge

theorem ringContainsPoint_inclusive_rtree (pts : Array Pt) (minPoints : Nat)
    (hd : ∀ p ∈ pts.toList, Dyadic53 p.x ∧ Dyadic53 p.y)
    (hn : pts.size < 2 ^ 32) (hsz : (rBytesOf pts true).size < 2 ^ 32) (p : Pt) :
    (ringContainsPoint (.ser (mkSeries pts true .rtree minPoints)) p true).hit =
      Spec.inRing (Spec.edges pts.toList true) p :=
  ringContainsPoint_inclusive pts .rtree minPoints
    (series_search_exact_rtree_dyadic pts true minPoints hd hn hsz) p

theorem ringContainsPoint_exclusive_rtree (pts : Array Pt) (minPoints : Nat)
    (hd : ∀ p ∈ pts.toList, Dyadic53 p.x ∧ Dyadic53 p.y)
    (hn : pts.size < 2 ^ 32) (hsz : (rBytesOf pts true).size < 2 ^ 32) (p : Pt) :
    (ringContainsPoint (.ser (mkSeries pts true .rtree minPoints)) p false).hit =
      Spec.strictIn (Spec.edges pts.toList true) p :=
  ringContainsPoint_exclusive pts .rtree minPoints
    (series_search_exact_rtree_dyadic pts true minPoints hd hn hsz) p

/-- R-tree-indexed and un-indexed rings answer alike -/
theorem ringContainsPoint_rtree_eq_none (pts : Array Pt) (m1 m2 : Nat)
    (hd : ∀ p ∈ pts.toList, Dyadic53 p.x ∧ Dyadic53 p.y)
    (hn : pts.size < 2 ^ 32) (hsz : (rBytesOf pts true).size < 2 ^ 32) (p : Pt) (allowOnEdge : Bool) :
    (ringContainsPoint (.ser (mkSeries pts true .rtree m1)) p allowOnEdge).hit =
      (ringContainsPoint (.ser (mkSeries pts true .none m2)) p allowOnEdge).hit :=
  (ringContainsPoint_index_indep pts .rtree .none m1 m2
    (series_search_exact_rtree_dyadic pts true m1 hd hn hsz) (series_search_exact_kind_none pts true m2)
    p allowOnEdge).1

/-- R-tree-indexed and quadtree-indexed rings answer alike -/
theorem ringContainsPoint_rtree_eq_quadtree (pts : Array Pt) (m1 m2 : Nat)
    (hd : ∀ p ∈ pts.toList, Dyadic53 p.x ∧ Dyadic53 p.y)
    (hn : pts.size < 2 ^ 32) (hsz : (rBytesOf pts true).size < 2 ^ 32)
    (hszq : (qBytesOf pts true).size < 2 ^ 32) (p : Pt) (allowOnEdge : Bool) :
    (ringContainsPoint (.ser (mkSeries pts true .rtree m1)) p allowOnEdge).hit =
      (ringContainsPoint (.ser (mkSeries pts true .quadtree m2)) p allowOnEdge).hit :=
  (ringContainsPoint_index_indep pts .rtree .quadtree m1 m2
    (series_search_exact_rtree_dyadic pts true m1 hd hn hsz)
    (series_search_exact_quadtree pts true m2 hn hszq) p allowOnEdge).1

theorem lineContainsPoint_iff_rtree (pts : Array Pt) (minPoints : Nat)
    (hd : ∀ p ∈ pts.toList, Dyadic53 p.x ∧ Dyadic53 p.y)
    (hn : pts.size < 2 ^ 32) (hsz : (rBytesOf pts false).size < 2 ^ 32) (p : Pt) :
    Line.containsPoint (mkSeries pts false .rtree minPoints) p =
      Spec.onBoundary (Spec.edges pts.toList false) p :=
  lineContainsPoint_iff pts .rtree minPoints
    (series_search_exact_rtree_dyadic pts false minPoints hd hn hsz) p

/-- a polygon whose exterior and holes are R-tree-indexed rings -/
theorem polyContainsPoint_iff_rtree (ext : Array Pt) (em : Nat) (holes : List (Array Pt × Nat))
    (hde : ∀ p ∈ ext.toList, Dyadic53 p.x ∧ Dyadic53 p.y)
    (hne : ext.size < 2 ^ 32) (hsze : (rBytesOf ext true).size < 2 ^ 32)
    (hholes : ∀ h ∈ holes, (∀ p ∈ h.1.toList, Dyadic53 p.x ∧ Dyadic53 p.y) ∧ h.1.size < 2 ^ 32 ∧
      (rBytesOf h.1 true).size < 2 ^ 32) (p : Pt) :
    Poly.containsPoint
        ⟨some (.ser (mkSeries ext true .rtree em)),
         holes.map (fun h => Ring.ser (mkSeries h.1 true .rtree h.2))⟩ p =
      Spec.Shape.member (.poly ext.toList (holes.map (fun h => h.1.toList))) p := by
  have := polyContainsPoint_iff ext .rtree em (holes.map (fun h => (h.1, IndexKind.rtree, h.2)))
    (series_search_exact_rtree_dyadic ext true em hde hne hsze)
    (by
      intro h hh
      obtain ⟨h', hh', rfl⟩ := List.mem_map.1 hh
      obtain ⟨a, b, c⟩ := hholes h' hh'
      exact series_search_exact_rtree_dyadic h'.1 true h'.2 a b c) p
  simpa [List.map_map, Function.comp_def] using this

/-! ### non-vacuity: the 40-vertex zig-zag ring of SeriesSearch.lean, really R-tree-indexed -/

theorem exRing40_dyadic : ∀ p ∈ exRing40.toList, Dyadic53 p.x ∧ Dyadic53 p.y := by
  have h : ∀ p ∈ exRing40.toList, (∃ k : Int, p.x = k ∧ k.natAbs < 2 ^ 53) ∧
      (∃ k : Int, p.y = k ∧ k.natAbs < 2 ^ 53) := by
    have hb : (exRing40.toList.all (fun p => decide (p.x.den = 1 ∧ p.x.num.natAbs < 2 ^ 53 ∧
        p.y.den = 1 ∧ p.y.num.natAbs < 2 ^ 53))) = true := by decide +kernel
    intro p hp
    have := List.all_eq_true.1 hb p hp
    simp only [decide_eq_true_eq] at this
    obtain ⟨h1, h2, h3, h4⟩ := this
    exact ⟨⟨p.x.num, (Rat.den_eq_one_iff _).1 h1 |>.symm, h2⟩,
      ⟨p.y.num, (Rat.den_eq_one_iff _).1 h3 |>.symm, h4⟩⟩
  intro p hp
  obtain ⟨⟨k1, e1, b1⟩, ⟨k2, e2, b2⟩⟩ := h p hp
  rw [e1, e2]
  exact ⟨Dyadic53.of_int k1 b1, Dyadic53.of_int k2 b2⟩

example : (mkSeries exRing40 true .rtree 16).SearchExact :=
  series_search_exact_rtree_dyadic exRing40 true 16 exRing40_dyadic (by decide +kernel)
    (by decide +kernel)

example : (mkSeries exRing40 true .rtree 16).index.isSome = true := by decide +kernel

example (p : Pt) (allow : Bool) :
    (ringContainsPoint (.ser (mkSeries exRing40 true .rtree 16)) p allow).hit =
      (if Spec.onBoundary (Spec.edges exRing40.toList true) p then allow
       else (Spec.parity (Spec.edges exRing40.toList true) p == 1)) :=
  ringContainsPoint_hit_iff_rtree exRing40 16 exRing40_dyadic (by decide +kernel)
    (by decide +kernel) p allow

end Geo

#print axioms Geo.series_search_exact_rtree_of_codec
#print axioms Geo.series_search_exact_rtree_dyadic
#print axioms Geo.series_search_exact_dyadic
#print axioms Geo.ringContainsPoint_hit_iff_rtree
#print axioms Geo.ringContainsPoint_inclusive_rtree
#print axioms Geo.ringContainsPoint_exclusive_rtree
#print axioms Geo.ringContainsPoint_rtree_eq_none
#print axioms Geo.ringContainsPoint_rtree_eq_quadtree
#print axioms Geo.lineContainsPoint_iff_rtree
#print axioms Geo.polyContainsPoint_iff_rtree
