package main

// xcircleindex <seed>: a FeatureCollection / GeometryCollection holding a Circle feature among other
// children, parsed under several child-index thresholds; Intersects / Contains / Within against probe
// points and small rectangles, and Search, must not depend on the threshold (C08, C10). Circles are
// outside the planar model, so this is an implementation-only oracle.

import (
	"fmt"
	"strings"

	"github.com/tidwall/geojson"
	"github.com/tidwall/geojson/geo"
	"github.com/tidwall/geojson/geometry"
)

func xcircleindex(toks []string) string {
	if len(toks) < 2 {
		return "bad-op"
	}
	var seed uint64
	fmt.Sscan(toks[1], &seed)
	r := &rng{s: seed*6364136223846793005 + 1442695040888963407}
	clat, clon := float64(r.rangeI(-600, 600))/10, float64(r.rangeI(-1700, 1700))/10
	meters := float64(r.pick([]int{500, 20000, 100000, 300000}))
	n := r.pick([]int{0, 1, 3, 63, 70})
	var feats []string
	circle := fmt.Sprintf(`{"type":"Feature","geometry":{"type":"Point","coordinates":[%v,%v]},"properties":{"type":"Circle","radius":%v,"radius_units":"m"}}`, clon, clat, meters)
	pos := r.intn(n + 1)
	for i := 0; i < n; i++ {
		if i == pos {
			feats = append(feats, circle)
		}
		plat, plon := geo.DestinationPoint(clat, clon, meters*float64(r.rangeI(15, 40))/10, float64(r.intn(360)))
		feats = append(feats, fmt.Sprintf(`{"type":"Feature","geometry":{"type":"Point","coordinates":[%v,%v]},"properties":{}}`, plon, plat))
	}
	if pos >= n {
		feats = append(feats, circle)
	}
	text := `{"type":"FeatureCollection","features":[` + strings.Join(feats, ",") + `]}`
	var variants []geojson.Object
	for _, ic := range []int{0, 1, 2, n, n + 1, n + 2, 64} {
		o, err := geojson.Parse(text, &geojson.ParseOptions{IndexChildren: ic, IndexGeometry: 64, IndexGeometryKind: geometry.QuadTree})
		if err != nil {
			return "FAIL parse: " + err.Error()
		}
		variants = append(variants, o)
	}
	for k := 0; k < 12; k++ {
		plat, plon := geo.DestinationPoint(clat, clon, meters*float64(r.rangeI(1, 12))/10, float64(r.intn(3600))/10)
		p := geometry.Point{X: plon, Y: plat}
		pt := geojson.NewPoint(p)
		d := 0.0001 * float64(r.rangeI(1, 50))
		rect := geometry.Rect{Min: geometry.Point{X: p.X - d, Y: p.Y - d}, Max: geometry.Point{X: p.X + d, Y: p.Y + d}}
		ro := geojson.NewRect(rect)
		sig := func(o geojson.Object) string {
			cnt := 0
			if c, ok := o.(geojson.Collection); ok {
				c.Search(rect, func(geojson.Object) bool { cnt++; return true })
			}
			return b2s(o.Intersects(pt)) + b2s(o.Contains(pt)) + b2s(pt.Within(o)) + b2s(pt.Intersects(o)) + b2s(o.Intersects(ro)) + b2s(ro.Intersects(o)) + fmt.Sprint(cnt)
		}
		want := sig(variants[0])
		for vi, v := range variants[1:] {
			if got := sig(v); got != want {
				return fmt.Sprintf("FAIL child-index threshold changes answers (variant %d: %s vs %s) probe %v circle %v,%v r=%v children=%d", vi+1, got, want, p, clat, clon, meters, n+1)
			}
		}
	}
	return "ok"
}
