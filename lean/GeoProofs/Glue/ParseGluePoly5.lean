/-
  GeoProofs.Glue.ParseGluePoly5 — generated parseJSONPolygon = the "Polygon" arm of the model's parse
  (finite positions).
-/
import GeoProofs.Glue.ParseGluePoly4

set_option linter.unusedSimpArgs false

namespace Geo.PGlue
open Geo Geo.PGen

theorem polyBody1_eq (rec : RecT) (p : List FP) (u : Unit) :
    PGen.parseJSONPolygon_body1 (mops rec) p u =
      if ringBadG rec p then Flow.ret (default, some .errCoordinatesInvalid) else Flow.next () := rfl

theorem ringsCheck (rec : RecT) : ∀ (rings : List (List FP)), (∀ r ∈ rings, ∀ p ∈ r, finFP p = true) →
    forRange (PGen.parseJSONPolygon_body1 (mops rec)) rings () =
      if (rings.map (·.map toPos)).all ringOK then Exit.done () else Exit.ret (default, some .errCoordinatesInvalid) := by
  intro rings
  induction rings with
  | nil => intro _; simp [forRange]
  | cons r rs ih =>
    intro hfin
    rw [forRange, polyBody1_eq, ringBad_eq rec r (hfin r (by simp))]
    cases hr : ringOK (r.map toPos)
    · simp [hr]
    · simp only [Bool.not_true, Bool.false_eq_true, if_false]
      rw [ih (fun r' h' => hfin r' (by simp [h']))]
      simp [hr]

/-- the eight coordinate comparisons of the AllowRects test, as generated -/
theorem rectTest_eq (p0 p1 p2 p3 p4 : FP) (h0 : finFP p0 = true) (h1 : finFP p1 = true) (h2 : finFP p2 = true)
    (h3 : finFP p3 = true) (h4 : finFP p4 = true) :
    (mfLt p0.1 p1.1 && mfEq p0.2 p1.2 && mfEq p1.1 p2.1 && mfLt p1.2 p2.2 && mfLt p3.1 p2.1 && mfEq p2.2 p3.2 &&
      mfEq p3.1 p4.1 && mfLt p4.2 p3.2) = isRectRing [toPos p0, toPos p1, toPos p2, toPos p3, toPos p4] := by
  simp only [finFP, Bool.and_eq_true] at h0 h1 h2 h3 h4
  simp only [isRectRing, toPos, mkPos, MF.ord, mfLt_fin, mfEq_fin, h0.1, h0.2, h1.1, h1.2, h2.1, h2.2, h3.1, h3.2, h4.1, h4.2,
    Bool.and_self, Bool.true_and, GT.gt]
  rfl

/-- the "Polygon" arm of the model's parse -/
def mPolygon (o : POpts) (k : Keys) : Except PErr Obj :=
  match reqArray k.coordinates .coordsMissing .coordsInvalid with
  | .error e => .error e
  | .ok rc =>
    match parsePolyCoords rc with
    | .error e => .error e
    | .ok (rings, ex) =>
      if rings.isEmpty || !(rings.all ringOK) then .error .coordsInvalid
      else
        let ex := withMembers ex k
        let ob : Obj :=
          match rings with
          | [e] =>
            if ex.isNone && o.allowRects && isRectRing e then
              match e with
              | [p0, _, p2, _, _] => .rectO ⟨p0.p, p2.p⟩ p0 p2
              | _ => .polygon (mkPoly o rings) rings ex
            else .polygon (mkPoly o rings) rings ex
          | _ => .polygon (mkPoly o rings) rings ex
        if o.requireValid && !ob.valid then .error .coordsInvalid else .ok ob

theorem polygon_eq (rec : RecT) (gk : GKeys) (o : POpts) (k : Keys) (hk : KeysRel gk k)
    (hfin : ∀ rc rings ex, k.coordinates = some rc → parsePolyCoords rc = .ok (rings, ex) → ∀ r ∈ rings, ∀ p ∈ r, p.fin = true) :
    Agree (PGen.parseJSONPolygon (mops rec) (some gk) (some (optsG o))) (mPolygon o k) := by
  unfold PGen.parseJSONPolygon mPolygon reqArray
  simp only [m_zeroGjsonResult, m_nilObject, m_objectValid, m_objectOfPolygon, m_objectOfRect, m_zeroParseOptions, deref_some,
    polyCoords_none, hk.coords, toGeometryOpts_eq, m_geometryNewPoly, m_zeroGeometryPoly, m_newRect, m_mkGeometryRect,
    m_f64Lt, m_f64Gt, m_f64Eq, m_geometryPointX, m_geometryPointY, m_zeroGeometryPoint, m_zeroRect]
  cases hc : k.coordinates with
  | none => simp [Agree, errG]
  | some rc =>
    cases hb : rc.isArray with
    | false => simp [Agree, errG, hb]
    | true =>
      simp only [hb, Bool.not_true, Bool.false_eq_true, if_false, if_true]
      have h := polyCoords_some rec (some gk) (some (optsG o)) rc
      generalize PGen.parseJSONPolygonCoords (mops rec) (some gk) (some rc) (some (optsG o)) = G at h ⊢
      cases hp : parsePolyCoords rc with
      | error e =>
        rw [hp] at h; obtain ⟨he, hg⟩ := h
        simp [Agree, errG, hg, he]
      | ok pe =>
        obtain ⟨rings, ex⟩ := pe
        rw [hp] at h; obtain ⟨h1, h2, h3⟩ := h
        have hf := hfin rc rings ex hc hp
        have hb := bbox_eq rec G.2.1 gk (some (optsG o)) k hk
        generalize PGen.parseBBoxAndExtras (mops rec) G.2.1 (some gk) (some (optsG o)) = B at hb ⊢
        obtain ⟨hb1, hb2⟩ := hb
        rw [h2] at hb2
        obtain ⟨gc, gex, gerr⟩ := G
        simp only at h1 h2 h3 hb2 ⊢
        subst h3 h1
        have hfg : ∀ r ∈ gc, ∀ p ∈ r, finFP p = true := by
          intro r hr p hp'
          have := hf (r.map toPos) (List.mem_map_of_mem hr) (toPos p) (List.mem_map_of_mem hp')
          rwa [toPos_fin] at this
        rw [ringsCheck rec gc hfg]
        have hn : B.snd.isNone = (withMembers ex k).isNone := by rw [← hb2]; cases B.snd <;> rfl
        have ho : (optsG o).requireValid = o.requireValid ∧ (optsG o).allowRects = o.allowRects := ⟨rfl, rfl⟩
        simp only [hb1, hb2, hn, ho.1, ho.2, Option.isNone_none, Bool.not_true, Bool.false_eq_true, if_false, id]
        cases gc with
        | nil => simp [Agree, errG]
        | cons e hs =>
          have hholes : (if decide (Int.ofNat (e :: hs).length > 1) = true then sliceFrom (e :: hs) 1 else []) = hs := by
            cases hs <;> simp [sliceFrom]
            omega
          have he0 : arrAt ([] : List FP) (e :: hs) 0 = e := by simp [arrAt]
          have hnp : newPoly e hs (some (o.indexKind, (o.indexGeometry : Int))) =
              (mkPoly o (List.map (fun x => List.map toPos x) (e :: hs)), List.map (fun x => List.map toPos x) (e :: hs)) := by
            simp [newPoly, mkPoly]
          have hne : ¬ ((Int.ofNat (e :: hs).length == 0) = true) := by simp; omega
          simp only [hholes, he0, hnp, hne, if_false]
          cases hall : (List.map (fun x => List.map toPos x) (e :: hs)).all ringOK
          · simp [Agree, errG, hall]
          · simp only [if_true, List.isEmpty_cons, Bool.false_or, hall, Bool.not_true, Bool.false_eq_true, if_false]
            have hobj : (if ((withMembers ex k).isNone && o.allowRects && Int.ofNat hs.length == 0 && Int.ofNat e.length == 5 &&
                  mfLt (arrAt (mfInt 0, mfInt 0) e 0).fst (arrAt (mfInt 0, mfInt 0) e 1).fst &&
                  mfEq (arrAt (mfInt 0, mfInt 0) e 0).snd (arrAt (mfInt 0, mfInt 0) e 1).snd &&
                  mfEq (arrAt (mfInt 0, mfInt 0) e 1).fst (arrAt (mfInt 0, mfInt 0) e 2).fst &&
                  mfLt (arrAt (mfInt 0, mfInt 0) e 1).snd (arrAt (mfInt 0, mfInt 0) e 2).snd &&
                  mfLt (arrAt (mfInt 0, mfInt 0) e 3).fst (arrAt (mfInt 0, mfInt 0) e 2).fst &&
                  mfEq (arrAt (mfInt 0, mfInt 0) e 2).snd (arrAt (mfInt 0, mfInt 0) e 3).snd &&
                  mfEq (arrAt (mfInt 0, mfInt 0) e 3).fst (arrAt (mfInt 0, mfInt 0) e 4).fst &&
                  mfLt (arrAt (mfInt 0, mfInt 0) e 4).snd (arrAt (mfInt 0, mfInt 0) e 3).snd) = true then
                Obj.rectO (boxOf (toPos (arrAt (mfInt 0, mfInt 0) e 0), toPos (arrAt (mfInt 0, mfInt 0) e 2)))
                  (toPos (arrAt (mfInt 0, mfInt 0) e 0)) (toPos (arrAt (mfInt 0, mfInt 0) e 2))
              else Obj.polygon (mkPoly o (List.map (fun x => List.map toPos x) (e :: hs)))
                  (List.map (fun x => List.map toPos x) (e :: hs)) (withMembers ex k)) =
              (match List.map (fun x => List.map toPos x) (e :: hs) with
              | [e'] =>
                if (withMembers ex k).isNone && o.allowRects && isRectRing e' then
                  match e' with
                  | [p0, _, p2, _, _] => Obj.rectO ⟨p0.p, p2.p⟩ p0 p2
                  | _ => .polygon (mkPoly o (List.map (fun x => List.map toPos x) (e :: hs))) (List.map (fun x => List.map toPos x) (e :: hs)) (withMembers ex k)
                else .polygon (mkPoly o (List.map (fun x => List.map toPos x) (e :: hs))) (List.map (fun x => List.map toPos x) (e :: hs)) (withMembers ex k)
              | _ => .polygon (mkPoly o (List.map (fun x => List.map toPos x) (e :: hs))) (List.map (fun x => List.map toPos x) (e :: hs)) (withMembers ex k)) := by
              have hfe := hfg e (by simp)
              cases hs with
              | cons h t =>
                have : ¬ ((Int.ofNat (h :: t).length == 0) = true) := by simp; omega
                simp [this]
                intro _ _ h0; omega
              | nil =>
                simp only [List.map_cons, List.map_nil, List.length_nil]
                rcases e with _ | ⟨p0, _ | ⟨p1, _ | ⟨p2, _ | ⟨p3, _ | ⟨p4, _ | ⟨p5, t⟩⟩⟩⟩⟩⟩
                · simp [isRectRing]
                · simp [isRectRing]
                · simp [isRectRing]
                · simp [isRectRing]
                · simp [isRectRing]
                · have r := rectTest_eq p0 p1 p2 p3 p4 (hfe p0 (by simp)) (hfe p1 (by simp)) (hfe p2 (by simp)) (hfe p3 (by simp)) (hfe p4 (by simp))
                  simp only [List.map_cons, List.map_nil] at r ⊢
                  have a0 : arrAt (mfInt 0, mfInt 0) [p0, p1, p2, p3, p4] 0 = p0 := by simp [arrAt]
                  have a1 : arrAt (mfInt 0, mfInt 0) [p0, p1, p2, p3, p4] 1 = p1 := by simp [arrAt]
                  have a2 : arrAt (mfInt 0, mfInt 0) [p0, p1, p2, p3, p4] 2 = p2 := by simp [arrAt]
                  have a3 : arrAt (mfInt 0, mfInt 0) [p0, p1, p2, p3, p4] 3 = p3 := by simp [arrAt]
                  have a4 : arrAt (mfInt 0, mfInt 0) [p0, p1, p2, p3, p4] 4 = p4 := by simp [arrAt]
                  rw [a0, a1, a2, a3, a4, ← r]
                  simp [boxOf, Bool.and_assoc]
                · have : ¬ ((t.length : Int) + 1 + 1 + 1 + 1 + 1 + 1 = 5) := by omega
                  simp [isRectRing, this]
            rw [hobj]
            generalize (match List.map (fun x => List.map toPos x) (e :: hs) with
              | [e'] =>
                if (withMembers ex k).isNone && o.allowRects && isRectRing e' then
                  match e' with
                  | [p0, _, p2, _, _] => Obj.rectO ⟨p0.p, p2.p⟩ p0 p2
                  | _ => Obj.polygon (mkPoly o (List.map (fun x => List.map toPos x) (e :: hs))) (List.map (fun x => List.map toPos x) (e :: hs)) (withMembers ex k)
                else Obj.polygon (mkPoly o (List.map (fun x => List.map toPos x) (e :: hs))) (List.map (fun x => List.map toPos x) (e :: hs)) (withMembers ex k)
              | _ => Obj.polygon (mkPoly o (List.map (fun x => List.map toPos x) (e :: hs))) (List.map (fun x => List.map toPos x) (e :: hs)) (withMembers ex k)) = ob
            cases o.requireValid <;> cases ob.valid <;> simp [Agree, errG]

#print axioms polygon_eq

end Geo.PGlue

