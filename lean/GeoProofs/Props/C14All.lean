/-
  C14, everything: Props/C14.lean (bounds, widening, tiny radius, latitude coverage) and
  Props/C14Lon.lean (longitude coverage and the combined coverage theorem, with the two
  exact-touch counterexamples).
-/
import GeoProofs.Props.C14
import GeoProofs.Props.C14Lon
