/-
  GeoProofs.Props.SeriesBridge — final statements: the methods of *baseSeries and makeSeries as
  regenerated from geometry/series.go (Geo.SMGen, translate/seriesmeth.go), with the ops
  instantiated by the hand model (SMGlue.mops: GeoModel/Series.lean, Index.lean at Rat), equal the
  hand model on ALL inputs.  `abs` forgets the Go field indexKind (the model has none);
  `iterOf f` is the model's Nat-indexed callback as the Go Int-indexed one; `outOpt` maps
  Outcome.panic to none.  Move needs the invariant SMGlue.Inv (indexKind agrees with the header
  byte below the default threshold), which makeSeries establishes and Move preserves
  (inv_makeSeries, inv_move; size hypothesis: the quadtree bytes stay below 2^32).
-/
import GeoProofs.Glue.SeriesGlue
import GeoProofs.SeriesSearch

namespace Geo.SeriesBridge
open Geo Geo.SMGen Geo.SMGlue

theorem numSegments (s : GS) : seriesNumSegments mops s = ((abs s).numSegments : Int) := numSegments_eq s

theorem segmentAt (s : GS) (i : Nat) : seriesSegmentAt mops s (i : Int) = (abs s).segmentAt i := segmentAt_eq s i

theorem numPoints (s : GS) : seriesNumPoints mops s = ((abs s).numPoints : Int) := numPoints_eq s

theorem pointAt (s : GS) (i : Nat) : seriesPointAt mops s (i : Int) = (abs s).pts[i]! := pointAt_eq s i

theorem empty (s : GS) : seriesEmpty mops (some s) = (abs s).empty := empty_eq s

theorem empty_nil : seriesEmpty mops (none : Option GS) = true := SMGlue.empty_nil

theorem valid (s : GS) : seriesValid mops s = (abs s).valid := valid_eq s

theorem fields (s : GS) :
    seriesRect mops s = (abs s).rect ∧ seriesConvex mops s = (abs s).convex ∧
    seriesClockwise mops s = (abs s).clockwise ∧ seriesClosed mops s = (abs s).closed ∧
    seriesIndex mops s = (abs s).index ∧ abs (seriesClearIndex mops s) = { abs s with index := none } :=
  ⟨rfl, rfl, rfl, rfl, rfl, rfl⟩

/-- Search: the type switch, the header reads, the dispatch on data[0] and the brute-force loop
    with its early stop; none on the left = Outcome.panic on the right. -/
theorem search {σ : Type} (s : GS) (q : Box) (f : σ → Seg → Nat → σ × Bool) (st : σ) :
    seriesSearch mops s q (iterOf f) st = outOpt ((abs s).search q f st) := search_eq s q f st

/-- buildIndex on a series without index (on one with an index it is the identity) -/
theorem buildIndex (s : GS) (h : s.index = none) :
    abs (seriesBuildIndex mops s) =
      { abs s with index := buildIndexBytes (abs s).pts (abs s).closed (abs s).rect (kindOf s.indexKind) } := by
  rw [buildIndex_eq s h]; rfl

theorem buildIndex_built (s : GS) (d : Array Nat) (h : s.index = some d) : seriesBuildIndex mops s = s :=
  buildIndex_some s d h

/-- makeSeries with explicit options (kind ∈ {None, RTree, QuadTree}, MinPoints ≥ 0), copying or not -/
theorem makeSeries_opts (pts : List Pt) (cp closed : Bool) (kind : IndexKind) (minPoints : Nat) :
    abs (makeSeries mops pts cp closed (some ⟨kindCode kind, (minPoints : Int)⟩)) =
      mkSeries pts.toArray closed kind minPoints := makeSeries_eq pts cp closed kind minPoints

/-- makeSeries with opts == nil: DefaultIndexOptions -/
theorem makeSeries_nil (pts : List Pt) (cp closed : Bool) :
    abs (makeSeries mops pts cp closed none) = mkSeries pts.toArray closed .quadtree 64 :=
  makeSeries_default pts cp closed

theorem move (s : GS) (dx dy : Rat) (hinv : Inv s) :
    abs (seriesMove mops s dx dy) = (abs s).move dx dy := move_eq s dx dy hinv

/-! ### the invariant -/

/-- the quadtree bytes of these points stay below 2^32 (setCompressed stores the length as uint32) -/
def QSmall (pts : List Pt) (closed : Bool) (rect : Box) : Prop :=
  (qCompress (qBuild (fun i => (segmentAtOf pts.toArray i).box.g) rect.g (numSegmentsOf pts.toArray closed))
    #[2, 0, 0, 0, 0]).size < 2 ^ 32

theorem header_buildIndexBytes (pts : List Pt) (closed : Bool) (rect : Box) (k : Int) (d : Array Nat)
    (hq : QSmall pts closed rect) (h : buildIndexBytes pts.toArray closed rect (kindOf k) = some d) :
    (k = 1 ∧ d[0]? = some 1) ∨ (k = 2 ∧ d[0]? = some 2) := by
  rcases kindOf_cases k with ⟨hk, hk'⟩ | ⟨hk, hk'⟩ | ⟨_, _, hk'⟩
  · left
    refine ⟨hk, ?_⟩
    rw [hk'] at h
    simp only [buildIndexBytes, Option.some.injEq] at h
    rw [← h, getElem?_putU32_of_outside _ 1 _ 0 (by omega), (rtree_compress_ext encF64 _ _).2 0 (by simp)]
    rfl
  · right
    refine ⟨hk, ?_⟩
    rw [hk'] at h
    simp only [buildIndexBytes, Option.some.injEq] at h
    rw [← h, getElem?_putU32_of_outside _ 1 _ 0 (by omega)]
    exact (qCompress_header _ (qBuild_isNil _ _ _) hq).2
  · rw [hk'] at h
    simp [buildIndexBytes] at h

theorem inv_makeSeries (pts : List Pt) (cp closed : Bool) (o : Option IndexOptions)
    (hq : QSmall pts closed (processPoints pts.toArray closed).rect) :
    Inv (makeSeries mops pts cp closed o) := by
  have key : ∀ o : IndexOptions, Inv (makeSeries mops pts cp closed (some o)) := by
    intro o d hd _
    rw [makeSeries_some] at hd ⊢
    split at hd
    · rename_i hc
      rw [if_pos hc]
      exact header_buildIndexBytes pts closed _ o.kind d hq hd
    · exact absurd hd (by simp [baseOf])
  cases o with
  | none => rw [makeSeries_none]; exact key _
  | some o => exact key o

theorem inv_move (s : GS) (dx dy : Rat)
    (hq : QSmall (s.points.map (mvPt dx dy)) s.closed
      (processPoints (s.points.map (mvPt dx dy)).toArray s.closed).rect) :
    Inv (seriesMove mops s dx dy) := by
  intro d hd hlen
  rw [move_points] at hd hlen ⊢
  have hF := makeSeries_fields (s.points.map (mvPt dx dy)) false s.closed none
  have hL := makeSeries_index_none (s.points.map (mvPt dx dy)) false s.closed
  have hR : (makeSeries mops (s.points.map (mvPt dx dy)) false s.closed none).rect =
      (processPoints (s.points.map (mvPt dx dy)).toArray s.closed).rect := by
    rw [makeSeries_none, makeSeries_some]; split <;> rfl
  have hI : (makeSeries mops (s.points.map (mvPt dx dy)) false s.closed none).index ≠ none →
      ¬ ((s.points.length : Int) < defaultIndexOptions.minPoints) := by
    intro hne hlt
    apply hne
    rw [makeSeries_none, makeSeries_some, if_neg]
    · rfl
    · simp only [defaultIndexOptions, List.length_map] at hlt ⊢
      omega
  rw [List.length_map] at hL
  generalize makeSeries mops (s.points.map (mvPt dx dy)) false s.closed none = N at hd hlen hF hL hR hI ⊢
  simp only [] at hd hlen ⊢
  cases hidx : s.index with
  | none =>
    simp only [hidx, Option.isSome_none, Bool.false_eq_true, if_false] at hd hlen ⊢
    have : N.index ≠ none := by rw [show N.index = some d from hd]; simp
    have hlen' : ((N.points.length : Int) < defaultIndexOptions.minPoints) := hlen
    rw [hF.1, List.length_map] at hlen'
    exact absurd hlen' (hI this)
  | some data =>
    simp only [hidx, Option.isSome_some, if_true] at hd hlen ⊢
    cases hNidx : N.index with
    | some d' =>
      rw [buildIndex_some _ d' (by simp [hNidx])] at hlen
      have hlen' : ((N.points.length : Int) < defaultIndexOptions.minPoints) := hlen
      rw [hF.1, List.length_map] at hlen'
      exact absurd hlen' (hI (by simp [hNidx]))
    | none =>
      rw [buildIndex_eq _ (by simp [hNidx])] at hd ⊢
      simp only [hF.1, hF.2, hR] at hd ⊢
      exact header_buildIndexBytes _ s.closed _ s.indexKind d hq hd

end Geo.SeriesBridge

#print axioms Geo.SeriesBridge.numSegments
#print axioms Geo.SeriesBridge.segmentAt
#print axioms Geo.SeriesBridge.numPoints
#print axioms Geo.SeriesBridge.pointAt
#print axioms Geo.SeriesBridge.empty
#print axioms Geo.SeriesBridge.empty_nil
#print axioms Geo.SeriesBridge.valid
#print axioms Geo.SeriesBridge.fields
#print axioms Geo.SeriesBridge.search
#print axioms Geo.SeriesBridge.buildIndex
#print axioms Geo.SeriesBridge.buildIndex_built
#print axioms Geo.SeriesBridge.makeSeries_opts
#print axioms Geo.SeriesBridge.makeSeries_nil
#print axioms Geo.SeriesBridge.move
#print axioms Geo.SeriesBridge.header_buildIndexBytes
#print axioms Geo.SeriesBridge.inv_makeSeries
#print axioms Geo.SeriesBridge.inv_move
