/-
  GeoProofs.CoversSpec.Affine — `Spec.cross a b ·` is affine; sides of a line along a segment;
  open edge points in parametric form.
-/
import GeoProofs.CoversSpec.Defs
import Mathlib.Tactic.Linarith
import Mathlib.Tactic.Ring
import Mathlib.Tactic.LinearCombination
import Mathlib.Tactic.Positivity

namespace Geo
namespace CS

/-- the point `z + τ (q - z)` -/
def lerp (z q : Pt) (τ : Rat) : Pt := ⟨z.x + τ * (q.x - z.x), z.y + τ * (q.y - z.y)⟩

theorem lerp_zero (z q : Pt) : lerp z q 0 = z := by
  simp [lerp]

theorem lerp_one (z q : Pt) : lerp z q 1 = q := by
  cases q; simp [lerp]

theorem cross_lerp (a b z q : Pt) (τ : Rat) :
    Spec.cross a b (lerp z q τ) = (1 - τ) * Spec.cross a b z + τ * Spec.cross a b q := by
  simp only [K.cross_def, lerp]; ring

theorem onSeg_lerp (z q : Pt) {τ : Rat} (h0 : 0 ≤ τ) (h1 : τ ≤ 1) : OnSeg z q (lerp z q τ) :=
  K.onSeg_of_param (t := τ) h0 h1 rfl rfl

theorem onSeg_iff_lerp (z q x : Pt) : OnSeg z q x ↔ ∃ τ : Rat, 0 ≤ τ ∧ τ ≤ 1 ∧ x = lerp z q τ := by
  rw [onSeg_iff_param]
  constructor
  · rintro ⟨t, h0, h1, hx, hy⟩
    exact ⟨t, h0, h1, (K.pt_eq_iff _ _).2 ⟨hx, hy⟩⟩
  · rintro ⟨t, h0, h1, rfl⟩
    exact ⟨t, h0, h1, rfl, rfl⟩

/-- along a segment whose ends are strictly on the same side of the line `ab`, every point is
    strictly on that side -/
theorem cross_pos_on_seg {a b p q x : Pt} (hp : 0 < Spec.cross a b p) (hq : 0 < Spec.cross a b q)
    (hx : OnSeg p q x) : 0 < Spec.cross a b x := by
  obtain ⟨τ, h0, h1, rfl⟩ := (onSeg_iff_lerp p q x).1 hx
  rw [cross_lerp]
  rcases eq_or_lt_of_le h0 with h | h
  · subst h; simpa using hp
  · have : 0 ≤ (1 - τ) * Spec.cross a b p := mul_nonneg (by linarith) hp.le
    have : 0 < τ * Spec.cross a b q := mul_pos h hq
    linarith

theorem cross_neg_on_seg {a b p q x : Pt} (hp : Spec.cross a b p < 0) (hq : Spec.cross a b q < 0)
    (hx : OnSeg p q x) : Spec.cross a b x < 0 := by
  have := cross_pos_on_seg (a := b) (b := a) (p := p) (q := q) (x := x)
    (by rw [K.cross_swap]; linarith) (by rw [K.cross_swap]; linarith) hx
  rw [K.cross_swap] at this; linarith

/-- same strict side (product form) -/
theorem cross_ne_on_seg {a b p q x : Pt} (h : 0 < Spec.cross a b p * Spec.cross a b q)
    (hx : OnSeg p q x) : 0 < Spec.cross a b p * Spec.cross a b x := by
  rcases lt_trichotomy (Spec.cross a b p) 0 with hp | hp | hp
  · have hq : Spec.cross a b q < 0 := by
      by_contra hc
      have := mul_nonpos_of_nonpos_of_nonneg hp.le (not_lt.1 hc)
      linarith
    exact mul_pos_of_neg_of_neg hp (cross_neg_on_seg hp hq hx)
  · rw [hp] at h; simp at h
  · have hq : 0 < Spec.cross a b q := by
      by_contra hc
      have := mul_nonpos_of_nonneg_of_nonpos hp.le (not_lt.1 hc)
      linarith
    exact mul_pos hp (cross_pos_on_seg hp hq hx)

theorem onSeg_cross_zero {a b x : Pt} (h : OnSeg a b x) : Spec.cross a b x = 0 := h.1

/-- open edge points in parametric form -/
theorem openOn_lerp {a b z : Pt} (h : OpenOn a b z) :
    ∃ t : Rat, 0 < t ∧ t < 1 ∧ z = lerp a b t := by
  obtain ⟨h1, h2, h3⟩ := h
  obtain ⟨t, t0, t1, rfl⟩ := (onSeg_iff_lerp a b z).1 h1
  refine ⟨t, lt_of_le_of_ne t0 ?_, lt_of_le_of_ne t1 ?_, rfl⟩
  · rintro rfl; exact h2 (lerp_zero a b)
  · rintro rfl; exact h3 (lerp_one a b)

theorem openOn_of_lerp {a b : Pt} (hab : a ≠ b) {t : Rat} (t0 : 0 < t) (t1 : t < 1) :
    OpenOn a b (lerp a b t) := by
  have hne : b.x - a.x ≠ 0 ∨ b.y - a.y ≠ 0 := by
    by_contra hc
    rw [not_or, not_not, not_not] at hc
    exact hab ((K.pt_eq_iff _ _).2 ⟨by linarith [hc.1], by linarith [hc.2]⟩)
  refine ⟨onSeg_lerp a b t0.le t1.le, ?_, ?_⟩
  · intro h
    have hx := congrArg Pt.x h; have hy := congrArg Pt.y h
    simp only [lerp] at hx hy
    rcases hne with g | g
    · exact g (by have : t * (b.x - a.x) = 0 := by linarith
                  rcases mul_eq_zero.1 this with h' | h'
                  · linarith
                  · exact h')
    · exact g (by have : t * (b.y - a.y) = 0 := by linarith
                  rcases mul_eq_zero.1 this with h' | h'
                  · linarith
                  · exact h')
  · intro h
    have hx := congrArg Pt.x h; have hy := congrArg Pt.y h
    simp only [lerp] at hx hy
    rcases hne with g | g
    · exact g (by have : (1 - t) * (b.x - a.x) = 0 := by linarith
                  rcases mul_eq_zero.1 this with h' | h'
                  · linarith
                  · exact h')
    · exact g (by have : (1 - t) * (b.y - a.y) = 0 := by linarith
                  rcases mul_eq_zero.1 this with h' | h'
                  · linarith
                  · exact h')

end CS
end Geo
