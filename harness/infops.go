package main

// xinf <seed>: objects obtained from Parse whose documents carry ordinates beyond the binary64
// range (1e999 -> +Inf, -1e999 -> -Inf) or null (-> NaN for points), and every predicate among
// them and against ordinary shapes. Implementation-only oracle for C05: each call must return
// (the per-op watchdog of bin/check turns a hang into a failing outcome); panics are reported.

import (
	"fmt"
	"strings"

	"github.com/tidwall/geojson"
)

func xinf(toks []string) string {
	if len(toks) < 2 {
		return "bad-op"
	}
	var seed uint64
	fmt.Sscan(toks[1], &seed)
	r := &rng{s: seed*2654435761 + 12345}
	ord := func() string {
		switch r.intn(6) {
		case 0:
			return "1e999"
		case 1:
			return "-1e999"
		case 2:
			return "1.7976931348623157e308"
		case 3:
			return "-1.7976931348623157e308"
		default:
			return fmt.Sprintf("%d", r.rangeI(-20, 20))
		}
	}
	pos := func() string { return "[" + ord() + "," + ord() + "]" }
	var docs []string
	for i := 0; i < 6; i++ {
		switch r.intn(5) {
		case 0:
			docs = append(docs, `{"type":"Point","coordinates":`+pos()+`}`)
		case 1:
			n := r.rangeI(2, 5)
			var ps []string
			for k := 0; k < n; k++ {
				ps = append(ps, pos())
			}
			docs = append(docs, `{"type":"LineString","coordinates":[`+strings.Join(ps, ",")+`]}`)
		case 2:
			docs = append(docs, `{"type":"MultiPoint","coordinates":[`+pos()+","+pos()+`]}`)
		default:
			n := r.rangeI(3, 6)
			var ps []string
			for k := 0; k < n; k++ {
				ps = append(ps, pos())
			}
			ps = append(ps, ps[0])
			docs = append(docs, `{"type":"Polygon","coordinates":[[`+strings.Join(ps, ",")+`]]}`)
		}
	}
	docs = append(docs, `{"type":"Polygon","coordinates":[[[0,0],[10,0],[10,1e999],[0,1e999],[0,0]]]}`, `{"type":"Point","coordinates":[5,1e999]}`,
		`{"type":"Polygon","coordinates":[[[0,0],[10,0],[10,10],[0,10],[0,0]]]}`, `{"type":"LineString","coordinates":[[-5,5],[15,5]]}`)
	var objs []geojson.Object
	for _, d := range docs {
		for _, opts := range []*geojson.ParseOptions{nil, {IndexGeometry: 1, IndexGeometryKind: 1, IndexChildren: 1}} {
			o, err := geojson.Parse(d, opts)
			if err == nil && o != nil {
				objs = append(objs, o)
			}
		}
	}
	n := 0
	for _, a := range objs {
		for _, b := range objs {
			a.Contains(b)
			a.Within(b)
			a.Intersects(b)
			a.Distance(b)
			n += 4
		}
		_ = a.JSON()
		a.Rect()
		a.Center()
		a.Valid()
		a.NumPoints()
	}
	return "ok"
}
