/-
  GeoProofs.Float.NextUp — `nextUp x` is the least binary64 value above `x`
  (`math.Nextafter(x, +Inf)` for finite x below the largest double).
-/
import GeoProofs.Float.Ops
import GeoProofs.Float.Closure

namespace Geo.F

/-- binary64 grid values without the upper exponent bound -/
def Grid (y : ℚ) : Prop := ∃ m e : ℤ, |m| < 2 ^ 53 ∧ -1074 ≤ e ∧ y = m * (2 : ℚ) ^ e

theorem F64.grid {y : ℚ} (h : F64 y) : Grid y := by
  obtain ⟨m, e, hm, he, _, hy⟩ := h; exact ⟨m, e, hm, he, hy⟩

/-- a double is an integer multiple of its own ulp -/
theorem Grid.int_mul_ulp {y : ℚ} (h : Grid y) : ∃ n : ℤ, y = n * ulp y := by
  obtain ⟨m, e, hm, he, hy⟩ := h
  have := rn_of_grid m e hm he hy
  exact ⟨rne (y / ulp y), this.symm.trans rfl⟩

theorem ulp_mul_of_expo_le {x y : ℚ} (h : expo x ≤ expo y) : ∃ k : ℤ, ulp y = k * ulp x :=
  ⟨_, zpow_eq_int_mul h⟩

/-- on a common grid of step u, x < y forces x + u ≤ y -/
theorem grid_step {x y u : ℚ} (hu : 0 < u) {a b : ℤ} (hx : x = a * u) (hy : y = b * u)
    (h : x < y) : x + u ≤ y := by
  have hab : (a : ℚ) < b := by
    rw [hx, hy] at h; exact lt_of_mul_lt_mul_right h hu.le
  have : a + 1 ≤ b := by exact_mod_cast hab
  have : (a : ℚ) + 1 ≤ b := by exact_mod_cast this
  rw [hx, hy]; nlinarith

theorem neg_grid_add_le {x u : ℚ} {a : ℤ} (hu : 0 < u) (ha : x = a * u) (hx : x < 0) :
    x + u ≤ 0 := by
  have : (a : ℚ) < 0 := by
    by_contra hn; push Not at hn
    have : 0 ≤ (a : ℚ) * u := mul_nonneg hn hu.le
    linarith
  have : a < 0 := by exact_mod_cast this
  have : a ≤ -1 := by omega
  have : (a : ℚ) ≤ -1 := by exact_mod_cast this
  rw [ha]; nlinarith

theorem nextUp_gt (x : ℚ) : x < nextUp x := by
  have hu := ulp_pos x
  unfold nextUp
  split_ifs
  · subst_vars; exact two_zpow_pos _
  · linarith
  · linarith
  · linarith

/-- a coarser-or-equal grid point above x is at least x + ulp x -/
theorem le_of_expo_le {x y : ℚ} (hx : Grid x) (hy : Grid y) (he : expo x ≤ expo y) (h : x < y) :
    x + ulp x ≤ y := by
  obtain ⟨a, ha⟩ := hx.int_mul_ulp
  obtain ⟨b, hb⟩ := hy.int_mul_ulp
  obtain ⟨k, hk⟩ := ulp_mul_of_expo_le he
  exact grid_step (ulp_pos x) ha (b := b * k) (by rw [hb, hk]; push_cast; ring) h

theorem nextUp_least {x y : ℚ} (hx : Grid x) (hy : Grid y) (h : x < y) : nextUp x ≤ y := by
  have hux := ulp_pos x
  obtain ⟨a, ha⟩ := hx.int_mul_ulp
  obtain ⟨b, hb⟩ := hy.int_mul_ulp
  unfold nextUp
  split_ifs with h0 hpos hpow
  · -- x = 0: y is a positive multiple of ulp y ≥ 2^-1074
    subst h0
    have huy := ulp_pos y
    have hb1 : (1 : ℚ) ≤ b := by
      have : (0 : ℚ) < b := by
        by_contra hn; push Not at hn
        have : (b : ℚ) * ulp y ≤ 0 := mul_nonpos_of_nonpos_of_nonneg hn huy.le
        linarith
      have : (0 : ℤ) < b := by exact_mod_cast this
      have : (1 : ℤ) ≤ b := this
      exact_mod_cast this
    have : (2 : ℚ) ^ (-1074 : ℤ) ≤ ulp y := two_zpow_le (by unfold expo; omega)
    rw [hb]; nlinarith
  · -- x > 0
    have hy0 : 0 < y := hpos.trans h
    have he : expo x ≤ expo y :=
      expo_mono h0 (by rw [abs_of_pos hpos, abs_of_pos hy0]; exact h.le)
    exact le_of_expo_le hx hy he h
  · -- x = -2^k, normal: the spacing above x is ulp x / 2
    obtain ⟨hxk, hnorm⟩ := hpow
    have hxneg : x < 0 := lt_of_le_of_ne (not_lt.mp hpos) h0
    by_contra hcon; push Not at hcon
    have hyneg : y < 0 := by
      have := neg_grid_add_le hux ha hxneg
      linarith
    have hy0 : y ≠ 0 := hyneg.ne
    -- ilog y = ilog x - 1
    have hex : expo x = ilog x - 52 := by unfold expo; omega
    have hulp : ulp x = 2 ^ (ilog x - 52) := by unfold ulp; rw [hex]
    have h52 : (2 : ℚ) ^ (ilog x) = 2 ^ (52 : ℤ) * 2 ^ (ilog x - 52) := by
      rw [← zpow_add₀ (by norm_num)]; congr 1; ring
    have hylt : |y| < 2 ^ ilog x := by rw [abs_of_neg hyneg]; linarith
    have hyge : (2 : ℚ) ^ (ilog x - 1) ≤ |y| := by
      rw [abs_of_neg hyneg]
      have : (2 : ℚ) ^ (ilog x) = 2 * 2 ^ (ilog x - 1) := by
        rw [show ilog x = 1 + (ilog x - 1) by ring, zpow_add₀ (by norm_num)]; simp
      have hp1 := two_zpow_pos (ilog x - 1)
      have hp2 := two_zpow_pos (ilog x - 52)
      have h2 : (2 : ℚ) ^ (52 : ℤ) = 4503599627370496 := by norm_num
      rw [h2] at h52
      nlinarith
    have hil : ilog y = ilog x - 1 := by
      have h1 := ilog_lt_of_lt hy0 hylt
      have h2 := le_ilog_of_le hy0 hyge
      omega
    have hey : expo y = ilog x - 53 := by unfold expo; omega
    have huy : ulp y = ulp x / 2 := by
      unfold ulp; rw [hey, hex, show ilog x - 53 = (ilog x - 52) - 1 by ring,
        zpow_sub₀ (by norm_num)]; simp
    -- both on the grid of step ulp y
    have hxg : x = ((-(2 : ℤ) ^ 53 : ℤ) : ℚ) * ulp y := by
      have : x = -(2 : ℚ) ^ ilog x := by linarith
      rw [this, h52, huy, hulp]; push_cast; ring
    have := grid_step (ulp_pos y) hxg hb h
    rw [huy] at this
    linarith
  · -- x < 0, not leaving the binade (or subnormal spacing): spacing ulp x
    have hxneg : x < 0 := lt_of_le_of_ne (not_lt.mp hpos) h0
    by_contra hcon; push Not at hcon
    have hyneg : y < 0 := by
      have := neg_grid_add_le hux ha hxneg
      linarith
    have hy0 : y ≠ 0 := hyneg.ne
    have hle : expo y ≤ expo x :=
      expo_mono hy0 (by rw [abs_of_neg hyneg, abs_of_neg hxneg]; linarith)
    have hge : expo x ≤ expo y := by
      by_cases hsub : ilog x - 52 ≤ -1074
      · unfold expo; omega
      · -- normal, not a power of two: |x| ≥ 2^ilog x + ulp x, so |y| ≥ 2^ilog x
        have hex : expo x = ilog x - 52 := by unfold expo; omega
        have hulp : ulp x = 2 ^ (ilog x - 52) := by unfold ulp; rw [hex]
        have h52 : (2 : ℚ) ^ (ilog x) = ((2 ^ 52 : ℤ) : ℚ) * ulp x := by
          have h := zpow_eq_int_mul (k := ilog x) (u := ilog x - 52) (by omega)
          rw [show (ilog x - (ilog x - 52)).toNat = 52 by omega] at h
          rw [hulp]; exact h
        have hxl := zpow_ilog_le h0
        rw [abs_of_neg hxneg] at hxl
        have hne : -x ≠ 2 ^ ilog x := by
          intro hh; exact hpow ⟨hh, by omega⟩
        have hlt : (2 : ℚ) ^ ilog x < -x := lt_of_le_of_ne hxl (Ne.symm hne)
        have hstep := grid_step hux h52 (b := -a) (by push_cast; linarith) hlt
        have hyl : (2 : ℚ) ^ ilog x ≤ |y| := by rw [abs_of_neg hyneg]; linarith
        have := le_ilog_of_le hy0 hyl
        unfold expo; omega
    have := le_of_expo_le hx hy hge h
    linarith

/-- `nextUp x` is itself a double (unbounded exponent: the overflow of the largest double to +Inf is
    handled by `qnextUp` in `KNumQ.lean`) -/
theorem Grid_nextUp {x : ℚ} (hx : Grid x) : Grid (nextUp x) := by
  have hux := ulp_pos x
  obtain ⟨a, ha⟩ := hx.int_mul_ulp
  have hlow : -1074 ≤ expo x := by unfold expo; omega
  have habs : |a| < 2 ^ 53 := by
    have h1 := abs_div_ulp_lt x
    have h2 : x / ulp x = a := by rw [div_eq_iff hux.ne']; exact ha
    rw [h2] at h1
    exact_mod_cast h1
  have hab := abs_lt.mp habs
  unfold nextUp
  split_ifs with h0 hpos hpow
  · exact ⟨1, -1074, by norm_num, le_rfl, by simp⟩
  · -- x > 0: (a+1)·ulp, renormalised if a+1 = 2^53
    have hapos : 0 < a := by
      have : (0 : ℚ) < a := by
        by_contra hn; push Not at hn
        have : (a : ℚ) * ulp x ≤ 0 := mul_nonpos_of_nonpos_of_nonneg hn hux.le
        linarith
      exact_mod_cast this
    by_cases htop : a + 1 = 2 ^ 53
    · refine ⟨2 ^ 52, expo x + 1, by norm_num, by omega, ?_⟩
      have : (a : ℚ) = 2 ^ 53 - 1 := by
        have : a = 2 ^ 53 - 1 := by omega
        exact_mod_cast this
      have hu : ulp x = 2 ^ expo x := rfl
      rw [zpow_add₀ (by norm_num), zpow_one, ← hu]
      push_cast
      nlinarith
    · refine ⟨a + 1, expo x, by rw [abs_lt]; constructor <;> omega, hlow, ?_⟩
      have hu : ulp x = 2 ^ expo x := rfl
      rw [← hu]; push_cast; linarith
  · -- x = -2^k normal: (2a+1)·(ulp/2)
    obtain ⟨hxk, hnorm⟩ := hpow
    have hex : expo x = ilog x - 52 := by unfold expo; omega
    have hu : ulp x = 2 ^ expo x := rfl
    have h52 : (2 : ℚ) ^ (ilog x) = ((2 ^ 52 : ℤ) : ℚ) * ulp x := by
      have h := zpow_eq_int_mul (k := ilog x) (u := ilog x - 52) (by omega)
      rw [show (ilog x - (ilog x - 52)).toNat = 52 by omega] at h
      rw [hu, hex]; exact h
    have ha52 : a = -2 ^ 52 := by
      have : (a : ℚ) * ulp x = ((-2 ^ 52 : ℤ) : ℚ) * ulp x := by
        rw [← ha]; push_cast; push_cast at h52; linarith
      have := mul_right_cancel₀ hux.ne' this
      exact_mod_cast this
    refine ⟨2 * a + 1, expo x - 1, by rw [ha52]; norm_num, by omega, ?_⟩
    rw [zpow_sub₀ (by norm_num), zpow_one, ← hu]
    push_cast; linarith
  · have hxneg : x < 0 := lt_of_le_of_ne (not_lt.mp hpos) h0
    have haneg : a < 0 := by
      have : (a : ℚ) < 0 := by
        by_contra hn; push Not at hn
        have : 0 ≤ (a : ℚ) * ulp x := mul_nonneg hn hux.le
        linarith
      exact_mod_cast this
    refine ⟨a + 1, expo x, by rw [abs_lt]; constructor <;> omega, hlow, ?_⟩
    have hu : ulp x = 2 ^ expo x := rfl
    rw [← hu]; push_cast; linarith

theorem F64_nextUp_least {x y : ℚ} (hx : F64 x) (hy : F64 y) (h : x < y) : nextUp x ≤ y :=
  nextUp_least hx.grid hy.grid h

end Geo.F
