/-
  GeoProofs.Contains.BoxRing — a rectangle as a closed chain (`Spec.rectPts`) and as a ring of
  the model (`Ring.bx`): membership = the closed rectangle; strict membership = the open one.
-/
import GeoProofs.Contains.Covers

namespace Geo
open GL Jordan

namespace Contains

/-- the chain of the four sides -/
abbrev Er (r : Box) : List (Pt × Pt) := Spec.edges (Spec.rectPts r.min r.max) true

theorem rectPts_rect (r : Box) (hr : BoxOk r) :
    (processPoints (Spec.rectPts r.min r.max).toArray true).rect = r := by
  have h := rect_tight (Spec.rectPts r.min r.max).toArray true (by simp [Spec.rectPts])
  have e : Driver.bboxSpec (Spec.rectPts r.min r.max) = some r := by
    obtain ⟨⟨a, b⟩, ⟨c, d⟩⟩ := r
    obtain ⟨h1, h2⟩ := hr
    simp only at h1 h2
    simp [Driver.bboxSpec, Spec.rectPts, h1, h2]
  rw [show (Spec.rectPts r.min r.max).toArray.toList = Spec.rectPts r.min r.max from rfl, e] at h
  exact Option.some.inj h

theorem onBoundary_Er (r : Box) (p : Pt) :
    Spec.onBoundary (Er r) p = [0, 1, 2, 3].any (onAt r.segmentAt p) := by
  unfold Er
  rw [rect_edges]
  simp [Spec.onBoundary, onAt, Box.segmentAt, spec_onSeg_eq_on, Seg.raycast]

/-- (B1) membership in the rectangle chain is the closed rectangle -/
theorem inRing_Er (r : Box) (hr : BoxOk r) (p : Pt) :
    Spec.inRing (Er r) p = r.containsPt p := by
  by_cases hc : r.containsPt p = true
  · rw [hc]
    by_cases hb : Spec.onBoundary (Er r) p = true
    · unfold Spec.inRing; rw [hb]; rfl
    · have hb' : Spec.onBoundary (Er r) p = false := by simpa using hb
      have hoff : [0, 1, 2, 3].any (onAt r.segmentAt p) = false := by rw [← onBoundary_Er]; exact hb'
      obtain ⟨i0, i1, i2, i3⟩ := bx_inn r p hc hoff
      have hns : ∀ i, i ∈ [0, 1, 2, 3] → ¬ OnSeg (r.segmentAt i).a (r.segmentAt i).b p := by
        intro i hi h
        rw [List.any_eq_false] at hoff
        exact hoff i hi ((raycast_on_iff _ _ _).2 h)
      have hcr : ∀ i, i ∈ [0, 1, 2, 3] →
          Spec.crosses (r.segmentAt i).a (r.segmentAt i).b p = innAt r.segmentAt p i := by
        intro i hi
        rw [Bool.eq_iff_iff, spec_crosses_iff]
        exact (raycast_in_iff _ _ _ (hns i hi)).symm
      have c0 := hcr 0 (by simp)
      have c1 := hcr 1 (by simp)
      have c2 := hcr 2 (by simp)
      have c3 := hcr 3 (by simp)
      rw [i0] at c0; rw [i1] at c1; rw [i2] at c2; rw [i3] at c3
      simp only [Box.segmentAt] at c0 c1 c2 c3
      unfold Spec.inRing
      rw [hb']
      unfold Er
      rw [rect_edges]
      simp [Spec.parity, c0, c1, c2, c3]
  · have hc' : r.containsPt p = false := by simpa using hc
    rw [hc']
    have := outside_rect (Spec.rectPts r.min r.max).toArray p (by rw [rectPts_rect r hr]; exact hc')
    unfold Spec.inRing
    rw [show (Spec.rectPts r.min r.max).toArray.toList = Spec.rectPts r.min r.max from rfl] at this
    rw [this.1, this.2]
    rfl

/-- (B3) strictly inside the rectangle chain: the open rectangle -/
theorem strictIn_Er (r : Box) (hr : BoxOk r) (p : Pt) (h : Spec.strictIn (Er r) p = true) :
    r.min.x < p.x ∧ p.x < r.max.x ∧ r.min.y < p.y ∧ p.y < r.max.y := by
  unfold Spec.strictIn at h
  simp only [Bool.and_eq_true, Bool.not_eq_true'] at h
  obtain ⟨hb, hp⟩ := h
  have hin : r.containsPt p = true := by
    rw [← inRing_Er r hr]; unfold Spec.inRing; rw [hp]; simp
  have hoff : [0, 1, 2, 3].any (onAt r.segmentAt p) = false := by rw [← onBoundary_Er]; exact hb
  rw [containsPt_iff] at hin
  obtain ⟨x1, x2, y1, y2⟩ := hin
  rw [List.any_eq_false] at hoff
  have off : ∀ i, i ∈ [0, 1, 2, 3] → ¬ OnSeg (r.segmentAt i).a (r.segmentAt i).b p := by
    intro i hi h
    exact hoff i hi ((raycast_on_iff _ _ _).2 h)
  have o0 := off 0 (by simp)
  have o1 := off 1 (by simp)
  have o2 := off 2 (by simp)
  have o3 := off 3 (by simp)
  simp only [Box.segmentAt] at o0 o1 o2 o3
  refine ⟨?_, ?_, ?_, ?_⟩
  · refine lt_of_le_of_ne x1 (fun h => o3 (onSeg_vert rfl h.symm ?_ ?_))
    · exact le_trans (min_le_right _ _) y1
    · exact le_trans y2 (le_max_left _ _)
  · refine lt_of_le_of_ne x2 (fun h => o1 (onSeg_vert rfl h ?_ ?_))
    · exact le_trans (min_le_left _ _) y1
    · exact le_trans y2 (le_max_right _ _)
  · refine lt_of_le_of_ne y1 (fun h => o0 (onSeg_horiz rfl h.symm ?_ ?_))
    · exact le_trans (min_le_left _ _) x1
    · exact le_trans x2 (le_max_right _ _)
  · refine lt_of_le_of_ne y2 (fun h => o2 (onSeg_horiz rfl h ?_ ?_))
    · exact le_trans (min_le_right _ _) x1
    · exact le_trans x2 (le_max_left _ _)

/-- (B2) the point test of a `Rect` used as a ring, off its sides -/
theorem bx_hit_off (r : Box) (hr : BoxOk r) (p : Pt) (allow : Bool)
    (hb : Spec.onBoundary (Er r) p = false) :
    (ringContainsPoint (.bx r) p allow).hit = Spec.strictIn (Er r) p := by
  rw [← inRing_eq_strictIn_of_off hb, inRing_Er r hr]
  by_cases hc : r.containsPt p = true
  · rw [bx_ringContainsPoint r p allow hc, ← onBoundary_Er, hb, hc]
    rfl
  · have hc' : r.containsPt p = false := by simpa using hc
    rw [ringContainsPoint_outside _ _ _ (by exact hc'), hc']

end Contains
end Geo
