/-
  GeoProofs.Reparse.Leaf — C06, per-type cases of the reparse theorem for the types without
  recursion: Polygon (incl. Rect re-detection), MultiPoint, MultiLineString, MultiPolygon.
-/
import GeoProofs.ReparseLemmas

namespace Geo

/-! ### nesting depth of written documents -/

theorem mkObj_depth_lt (ty key : String) (c : JVal) (fm : List Member) :
    c.depth < (mkObj ty key c fm).depth := by
  simp only [mkObj, mem, JVal.depth, JVal.depthM]
  omega

theorem depthL_ge : ∀ (ns : List JVal) (n : JVal), n ∈ ns → n.depth ≤ JVal.depthL ns
  | [], _, h => by cases h
  | a :: l, n, h => by
    rw [JVal.depthL]
    rcases List.mem_cons.mp h with rfl | h
    · omega
    · have := depthL_ge l n h; omega

theorem depth_lt_arr (ns : List JVal) (n : JVal) (h : n ∈ ns) : n.depth < (JVal.arr ns).depth := by
  rw [JVal.depth]; have := depthL_ge ns n h; omega

/-! ### Rect re-detection -/

/-- a ring detected as a Rect is written (`rectRing lo hi`) as a 5-point ring that is detected as
    a Rect again, with the same corners -/
theorem isRectRing_rectRing (p0 p1 p2 p3 p4 : Pos) (h : isRectRing [p0, p1, p2, p3, p4] = true) :
    isRectRing (rectRing p0 p2) = true ∧
      (∃ q1 q3 q4, rectRing p0 p2 = [p0, q1, p2, q3, q4]) := by
  simp only [isRectRing, Bool.and_eq_true, decide_eq_true_eq] at h
  obtain ⟨⟨⟨⟨⟨⟨⟨⟨⟨⟨⟨⟨f0, f1⟩, f2⟩, f3⟩, f4⟩, h1⟩, h2⟩, h3⟩, h4⟩, h5⟩, h6⟩, h7⟩, h8⟩ := h
  have hx : p0.p.x < p2.p.x := h3 ▸ h1
  have hy : p0.p.y < p2.p.y := h2 ▸ h4
  refine ⟨?_, ?_⟩
  · simp only [isRectRing, rectRing, Bool.and_eq_true, decide_eq_true_eq, f0, f2, Bool.and_self]
    simp only [GT.gt, hx, hy, and_self]
  · obtain ⟨⟨x0, y0⟩, g0, xs0, ys0⟩ := p0
    obtain ⟨⟨x2, y2⟩, g2, xs2, ys2⟩ := p2
    simp only at f0 f2
    subst f0 f2
    exact ⟨_, _, _, rfl⟩

theorem isRectRing_fin {p0 p1 p2 p3 p4 : Pos} (h : isRectRing [p0, p1, p2, p3, p4] = true) :
    p0.fin = true ∧ p2.fin = true := by
  simp only [isRectRing, Bool.and_eq_true, decide_eq_true_eq] at h
  exact ⟨h.1.1.1.1.1.1.1.1.1.1.1.1, h.1.1.1.1.1.1.1.1.1.1.2⟩

/-- the written ring of a Rect with finite corners -/
theorem rectRing_fin (lo hi : Pos) (hl : lo.fin = true) (hh : hi.fin = true) :
    rectRing lo hi = [lo, ⟨⟨hi.p.x, lo.p.y⟩, true, hi.xs, lo.ys⟩, hi,
      ⟨⟨lo.p.x, hi.p.y⟩, true, lo.xs, hi.ys⟩, lo] := by
  obtain ⟨⟨x0, y0⟩, g0, xs0, ys0⟩ := lo
  obtain ⟨⟨x2, y2⟩, g2, xs2, ys2⟩ := hi
  simp only at hl hh
  subst hl hh
  rfl

theorem ringOK_rectRing (lo hi : Pos) (hl : lo.fin = true) (hh : hi.fin = true) :
    ringOK (rectRing lo hi) = true := by
  rw [rectRing_fin lo hi hl hh]
  simp [ringOK, hl]

/-! ### Polygon -/

/-- the object the Polygon parser builds from the rings and the final `extra` -/
def polyOb (o : POpts) (rings : List (List Pos)) (ex : Option Extra) : Obj :=
  match rings with
  | [e] =>
    if ex.isNone && o.allowRects && isRectRing e then
      match e with
      | [p0, _, p2, _, _] => .rectO ⟨p0.p, p2.p⟩ p0 p2
      | _ => .polygon (mkPoly o rings) rings ex
    else .polygon (mkPoly o rings) rings ex
  | _ => .polygon (mkPoly o rings) rings ex

theorem parsePolygonK_eq (o : POpts) (f : Nat) (k : Keys) :
    parsePolygonK o f k =
      match reqArray k.coordinates .coordsMissing .coordsInvalid with
      | .error e => .error e
      | .ok rc =>
        match parsePolyCoords rc with
        | .error e => .error e
        | .ok (rings, ex) =>
          if rings.isEmpty || !(rings.all ringOK) then .error .coordsInvalid
          else if o.requireValid && !(polyOb o rings (withMembers ex k)).valid then .error .coordsInvalid
          else .ok (polyOb o rings (withMembers ex k)) := rfl

theorem polyOb_cases (o : POpts) (rings : List (List Pos)) (ex : Option Extra) :
    polyOb o rings ex = .polygon (mkPoly o rings) rings ex ∨
    ∃ p0 p1 p2 p3 p4, rings = [[p0, p1, p2, p3, p4]] ∧ ex = none ∧ o.allowRects = true ∧
      isRectRing [p0, p1, p2, p3, p4] = true ∧ polyOb o rings ex = .rectO ⟨p0.p, p2.p⟩ p0 p2 := by
  unfold polyOb
  split
  · split
    · rename_i e hc
      simp only [Bool.and_eq_true, Option.isNone_iff_eq_none] at hc
      split
      · rename_i p0 p1 p2 p3 p4
        exact .inr ⟨p0, p1, p2, p3, p4, rfl, hc.1.1, hc.1.2, hc.2, rfl⟩
      · exact .inl rfl
    · exact .inl rfl
  · exact .inl rfl

theorem polyOb_rect (o : POpts) (q0 q1 q2 q3 q4 : Pos) (ha : o.allowRects = true)
    (h : isRectRing [q0, q1, q2, q3, q4] = true) :
    polyOb o [[q0, q1, q2, q3, q4]] none = .rectO ⟨q0.p, q2.p⟩ q0 q2 := by
  simp [polyOb, ha, h]

theorem ringOK_length {r : List Pos} (h : ringOK r = true) : 4 ≤ r.length := by
  simp only [ringOK, Bool.and_eq_true, decide_eq_true_eq] at h
  exact h.1

theorem mkPoly_not_empty (o : POpts) (e : List Pos) (hs : List (List Pos)) (h : 4 ≤ e.length) :
    (mkPoly o (e :: hs)).empty = false := by
  simp only [mkPoly, Poly.empty, Ring.empty, Series.empty, mkSeries, ptsOf, List.size_toArray,
    List.length_map, Bool.true_and, Bool.or_eq_false_iff, decide_eq_false_iff_not]
  omega

/-- rings accepted by the Polygon parser: at least one ring, all of them closed with ≥ 4 positions -/
theorem rings_facts {rings : List (List Pos)} (hr : ¬ (rings.isEmpty || !(rings.all ringOK)) = true) :
    (∃ e hs, rings = e :: hs ∧ 4 ≤ e.length) ∧ ∀ r ∈ rings, r ≠ [] := by
  simp only [Bool.or_eq_true, Bool.not_eq_true', not_or, Bool.not_eq_false, List.isEmpty_iff,
    List.all_eq_true] at hr
  refine ⟨?_, ?_⟩
  · cases rings with
    | nil => exact absurd rfl hr.1
    | cons e hs => exact ⟨e, hs, rfl, ringOK_length (hr.2 e (by simp))⟩
  · intro r hrm h0
    have := ringOK_length (hr.2 r hrm)
    subst h0
    simp at this

theorem withMembers_none_nil (t c gs g fs : Option JVal) :
    withMembers none { type := t, coordinates := c, geometries := gs, geometry := g, features := fs,
                       foreign := [] } = none := by
  simp [withMembers, Keys.members]

section
variable (vf : String → Rat) (kf : String → String)
include vf kf

theorem reparse_polygon (o : POpts) (f : Nat) (k : Keys) (x : Obj) (h : parsePolygonK o f k = .ok x)
    (hc : ∀ v, k.coordinates = some v → v.DocOK) (hfd : DocOKM k.foreign)
    (hns : ∀ m ∈ k.foreign, isSpecialKey m.2.1 = false) (hfin : AllFin x) :
    ∃ v, Written x v ∧ addProps x = x ∧ centreOf x = none ∧ ∀ g, parse o (g + 1) v = .ok x := by
  rw [parsePolygonK_eq] at h
  cases hco : k.coordinates with
  | none => simp [hco, reqArray] at h
  | some rc =>
    simp only [hco, reqArray] at h
    by_cases ha : rc.isArray = true
    · simp only [ha, if_true] at h
      cases hp : parsePolyCoords rc with
      | error e => simp [hp] at h
      | ok res =>
        obtain ⟨rings, ex0⟩ := res
        simp only [hp] at h
        by_cases hr : (rings.isEmpty || !(rings.all ringOK)) = true
        · rw [if_pos hr] at h; cases h
        · rw [if_neg hr] at h
          by_cases hvalid : (o.requireValid && !(polyOb o rings (withMembers ex0 k)).valid) = true
          · rw [if_pos hvalid] at h; cases h
          · rw [if_neg hvalid, Except.ok.injEq] at h
            subst h
            obtain ⟨⟨e, hs, hre, hlen⟩, hrne⟩ := rings_facts hr
            rcases polyOb_cases o rings (withMembers ex0 k) with
              hpo | ⟨p0, p1, p2, p3, p4, hrings, hexn, hallow, hrect, hpo⟩
            · -- an ordinary polygon
              rw [hpo] at hfin
              obtain ⟨hpf, hexf⟩ := hfin
              have hex0 := ExFin_withMembers hexf
              obtain ⟨hT, htok⟩ := parsePolyCoords_fwd hp (hc rc hco) hex0
              have hexm : exMembers' ex0 = "" := by
                cases ex0 with
                | none => rfl
                | some e => exact hT.2.2.2.1
              refine ⟨mkObj "Polygon" "coordinates" (.arr (ringsNodes vf kf ex0 rings 0)) k.foreign,
                ?_, by rw [hpo]; rfl, by rw [hpo]; rfl, ?_⟩
              · rw [hpo]
                refine ⟨_, _, ?_, membersV_withMembers hexm hfd, rfl⟩
                have hne : (mkPoly o rings).empty = false := by rw [hre]; exact mkPoly_not_empty o e hs hlen
                simp only [CoordsV, hne, Bool.false_eq_true, if_false]
                exact ⟨_, ringsV_nodes vf kf hT (extrasAt_withMembers ex0 k) rings 0
                  (fun r hr' p hp' => ⟨hpf r hr' p hp', htok r hr' p hp'⟩) (by omega), rfl⟩
              · intro g
                rw [parse_mkObj_coords o g "Polygon" _ _ hns, parseTyped_Polygon, parsePolygonK_eq]
                simp only [reqArray, JVal.isArray, if_true]
                rw [parsePolyCoords_nodes vf kf hT (fun r hr' => ⟨hrne r hr', hpf r hr'⟩)]
                simp only [withMembers_mk, hr, hvalid, Bool.false_eq_true, if_false]
            · -- a Rect
              subst hrings
              rw [hpo] at hfin
              obtain ⟨hf0, hf2⟩ := hfin
              have hnone : (withMembers ex0 k).isNone = true := by rw [hexn]; rfl
              obtain ⟨hex0, hfor⟩ := withMembers_isNone hnone
              subst hex0
              obtain ⟨_, htok⟩ := parsePolyCoords_fwd hp (hc rc hco) trivial
              have ht0 := htok [p0, p1, p2, p3, p4] (by simp) p0 (by simp) hf0
              have ht2 := htok [p0, p1, p2, p3, p4] (by simp) p2 (by simp) hf2
              obtain ⟨hrr, q1, q3, q4, hq⟩ := isRectRing_rectRing p0 p1 p2 p3 p4 hrect
              have hT : TableFull none (total [rectRing p0 p2]) := trivial
              have hfr : ∀ p ∈ rectRing p0 p2, p.fin = true ∧ PosTok p := by
                rw [rectRing_fin p0 p2 hf0 hf2]
                intro p hp'
                simp only [List.mem_cons, List.not_mem_nil, or_false] at hp'
                rcases hp' with rfl | rfl | rfl | rfl | rfl
                · exact ⟨hf0, fun _ => ht0⟩
                · exact ⟨rfl, fun _ => ⟨ht2.1, ht0.2⟩⟩
                · exact ⟨hf2, fun _ => ht2⟩
                · exact ⟨rfl, fun _ => ⟨ht0.1, ht2.2⟩⟩
                · exact ⟨hf0, fun _ => ht0⟩
              refine ⟨mkObj "Polygon" "coordinates" (.arr (ringsNodes vf kf none [rectRing p0 p2] 0)) [],
                ?_, by rw [hpo]; rfl, by rw [hpo]; rfl, ?_⟩
              · rw [hpo]
                refine ⟨_, ⟨_, ringsV_nodes vf kf hT (fun _ => rfl) [rectRing p0 p2] 0 ?_ (by omega), rfl⟩, rfl⟩
                intro r hr' p hp'
                simp only [List.mem_singleton] at hr'
                subst hr'
                exact hfr p hp'
              · intro g
                rw [parse_mkObj_coords o g "Polygon" _ _ (by simp), parseTyped_Polygon, parsePolygonK_eq]
                simp only [reqArray, JVal.isArray, if_true]
                rw [parsePolyCoords_nodes vf kf hT (by
                  intro r hr'
                  simp only [List.mem_singleton] at hr'
                  subst hr'
                  exact ⟨by rw [hq]; simp, fun p hp' => (hfr p hp').1⟩)]
                have hok : ([rectRing p0 p2].isEmpty || !([rectRing p0 p2].all ringOK)) = false := by
                  simp [ringOK_rectRing p0 p2 hf0 hf2]
                have hob : polyOb o [rectRing p0 p2] none = .rectO ⟨p0.p, p2.p⟩ p0 p2 := by
                  have := hrr
                  rw [hq] at this ⊢
                  exact polyOb_rect o _ _ _ _ _ hallow this
                rw [hpo] at hvalid
                simp only [withMembers_none_nil, hok, hob, hvalid, Bool.false_eq_true, if_false, hpo]
    · simp [ha] at h
end


/-! ### Multi*: children written as bare coordinates -/

theorem mapM_ok_cons {α β ε} (f : α → Except ε β) (a : α) (l : List α) (bs : List β) :
    (a :: l).mapM f = .ok bs ↔ ∃ b bs', f a = .ok b ∧ l.mapM f = .ok bs' ∧ bs = b :: bs' := by
  rw [List.mapM_cons]
  cases f a with
  | error e => simp [bind, Except.bind]
  | ok b =>
    cases l.mapM f with
    | error e => simp [bind, Except.bind]
    | ok bs' => simp [bind, Except.bind, pure, Except.pure, eq_comm]

/-- the children of a Multi* geometry: each child's coordinates are written as an AST that the
    same child parser maps back to the same child -/
theorem mapM_reparse {β : Type} (fn : JVal → Except PErr β) (toObj : β → Obj) (P : β → Prop)
    (step : ∀ e c, fn e = .ok c → e.DocOK → P c → ∃ n, CoordsV (toObj c) n ∧ fn n = .ok c) :
    ∀ (es : List JVal) (cs : List β), es.mapM fn = .ok cs → DocOKL es → (∀ c ∈ cs, P c) →
      ∃ ns, All2 CoordsV (cs.map toObj) ns ∧ ns.mapM fn = .ok cs
  | [], cs, h, _, _ => by
    simp only [List.mapM_nil, pure, Except.pure, Except.ok.injEq] at h
    subst h
    exact ⟨[], .nil, rfl⟩
  | e :: es, cs, h, hd, hP => by
    obtain ⟨b, bs, hb, hbs, rfl⟩ := (mapM_ok_cons fn e es cs).mp h
    rw [DocOKL] at hd
    obtain ⟨n, hn, hfn⟩ := step e b hb hd.1 (hP b (by simp))
    obtain ⟨ns, hns, hfns⟩ := mapM_reparse fn toObj P step es bs hbs hd.2
      (fun c hc => hP c (by simp [hc]))
    exact ⟨n :: ns, .cons hn hns, (mapM_ok_cons fn n ns _).mpr ⟨b, bs, hfn, hfns, rfl⟩⟩

theorem mapM_ok_mem {α β ε} (f : α → Except ε β) : ∀ (l : List α) (bs : List β), l.mapM f = .ok bs →
    ∀ b ∈ bs, ∃ a ∈ l, f a = .ok b
  | [], bs, h, b, hb => by
    simp only [List.mapM_nil, pure, Except.pure, Except.ok.injEq] at h
    subst h; cases hb
  | a :: l, bs, h, b, hb => by
    obtain ⟨b0, bs', h0, hl, rfl⟩ := (mapM_ok_cons f a l bs).mp h
    rcases List.mem_cons.mp hb with rfl | hb
    · exact ⟨a, by simp, h0⟩
    · obtain ⟨a', ha', hf⟩ := mapM_ok_mem f l bs' hl b hb
      exact ⟨a', by simp [ha'], hf⟩

/-- a collection whose children are geometry leaves is untouched by `addProps` -/
theorem addProps_mkColl_leaves (o : POpts) (kind : CollKind) (cs : List Obj) (ex : Option Extra)
    (h : ∀ c ∈ cs, addProps c = c) : addProps (mkColl o kind cs ex) = mkColl o kind cs ex := by
  have : addPropsL cs = cs := by
    rw [addPropsL_eq_map]
    conv => rhs; rw [← List.map_id cs]
    exact List.map_congr_left h
  simp only [mkColl, addProps, this]

def lineChildK (o : POpts) : JVal → Except PErr Obj := fun v => do
  let (ps, ex) ← parseLineCoords v
  if ps.length < 2 then throw PErr.coordsInvalid
  pure (Obj.lineString (mkLine o ps) ps ex)

def polyChildK (o : POpts) : JVal → Except PErr Obj := fun v => do
  let (rings, ex) ← parsePolyCoords v
  if rings.isEmpty || !(rings.all ringOK) then throw PErr.coordsInvalid
  pure (Obj.polygon (mkPoly o rings) rings ex)

theorem lineChildK_kind {o : POpts} {e : JVal} {c : Obj} (h : lineChildK o e = .ok c) :
    ∃ l ps ex, c = .lineString l ps ex := by
  unfold lineChildK at h
  cases hp : parseLineCoords e with
  | error e => simp [hp, bind, Except.bind] at h
  | ok res =>
    obtain ⟨ps, ex⟩ := res
    simp only [hp, bind, Except.bind] at h
    by_cases hlen : ps.length < 2
    · simp [hlen, throw, throwThe, MonadExceptOf.throw] at h
    · simp only [hlen, if_false, pure, Except.pure, Except.ok.injEq] at h
      exact ⟨_, _, _, h.symm⟩

theorem polyChildK_kind {o : POpts} {e : JVal} {c : Obj} (h : polyChildK o e = .ok c) :
    ∃ p rings ex, c = .polygon p rings ex := by
  unfold polyChildK at h
  cases hp : parsePolyCoords e with
  | error e => simp [hp, bind, Except.bind] at h
  | ok res =>
    obtain ⟨rings, ex⟩ := res
    simp only [hp, bind, Except.bind] at h
    by_cases hr : (rings.isEmpty || !(rings.all ringOK)) = true
    · simp [hr, throw, throwThe, MonadExceptOf.throw] at h
    · simp only [hr, Bool.false_eq_true, if_false, pure, Except.pure, Except.ok.injEq] at h
      exact ⟨_, _, _, h.symm⟩

theorem parseMultiLineStringK_eq (o : POpts) (f : Nat) (k : Keys) :
    parseMultiLineStringK o f k =
      match reqArray k.coordinates .coordsMissing .coordsInvalid with
      | .error e => .error e
      | .ok rc =>
        match rc.elems.mapM (lineChildK o) with
        | .error e => .error e
        | .ok children =>
          if o.requireValid && !(mkColl o .multiLineString children (withMembers none k)).valid
          then .error .coordsInvalid
          else .ok (mkColl o .multiLineString children (withMembers none k)) := rfl

theorem parseMultiPolygonK_eq (o : POpts) (f : Nat) (k : Keys) :
    parseMultiPolygonK o f k =
      match reqArray k.coordinates .coordsMissing .coordsInvalid with
      | .error e => .error e
      | .ok rc =>
        match rc.elems.mapM (polyChildK o) with
        | .error e => .error e
        | .ok children =>
          if o.requireValid && !(mkColl o .multiPolygon children (withMembers none k)).valid
          then .error .coordsInvalid
          else .ok (mkColl o .multiPolygon children (withMembers none k)) := rfl

section
variable (vf : String → Rat) (kf : String → String)
include vf kf

theorem pointChild_step (e : JVal) (c : Pos × Option Extra) (h : parsePointCoords e = .ok c)
    (hd : e.DocOK) (hfin : c.1.fin = true ∧ ExFin c.2) :
    ∃ n, CoordsV (Obj.point c.1 c.2) n ∧ parsePointCoords n = .ok c := by
  obtain ⟨pos, ex⟩ := c
  obtain ⟨ts, hl, rfl, htok, hx, hy⟩ := parsePointCoords_fwd h hd hfin.1 hfin.2
  exact ⟨posNode vf kf pos ts, posV_posNode vf kf hx hy (extrasAt_pointEx ts) htok,
    parsePointCoords_nodes vf kf pos ts hl hfin.1⟩

theorem lineChild_step (o : POpts) (e : JVal) (c : Obj) (h : lineChildK o e = .ok c)
    (hd : e.DocOK) (hfin : AllFin c) :
    ∃ n, CoordsV c n ∧ lineChildK o n = .ok c := by
  unfold lineChildK at h
  cases hp : parseLineCoords e with
  | error e => simp [hp, bind, Except.bind] at h
  | ok res =>
    obtain ⟨ps, ex⟩ := res
    simp only [hp, bind, Except.bind] at h
    by_cases hlen : ps.length < 2
    · simp [hlen, throw, throwThe, MonadExceptOf.throw] at h
    · simp only [hlen, if_false, pure, Except.pure, Except.ok.injEq] at h
      subst h
      obtain ⟨hpf, hexf⟩ := hfin
      obtain ⟨hT, htok⟩ := parseLineCoords_fwd hp hd hexf
      refine ⟨.arr (seriesNodes vf kf ex ps 0), ⟨_, seriesV_nodes vf kf hT (fun _ => rfl) ps 0
        (fun p hp' => ⟨hpf p hp', htok p hp'⟩) (by omega), rfl⟩, ?_⟩
      unfold lineChildK
      simp only [parseLineCoords_nodes vf kf hT hpf, bind, Except.bind, hlen, if_false, pure, Except.pure]

theorem polyChild_step (o : POpts) (e : JVal) (c : Obj) (h : polyChildK o e = .ok c)
    (hd : e.DocOK) (hfin : AllFin c) :
    ∃ n, CoordsV c n ∧ polyChildK o n = .ok c := by
  unfold polyChildK at h
  cases hp : parsePolyCoords e with
  | error e => simp [hp, bind, Except.bind] at h
  | ok res =>
    obtain ⟨rings, ex⟩ := res
    simp only [hp, bind, Except.bind] at h
    by_cases hr : (rings.isEmpty || !(rings.all ringOK)) = true
    · simp [hr, throw, throwThe, MonadExceptOf.throw] at h
    · simp only [hr, Bool.false_eq_true, if_false, pure, Except.pure, Except.ok.injEq] at h
      subst h
      obtain ⟨hpf, hexf⟩ := hfin
      obtain ⟨hT, htok⟩ := parsePolyCoords_fwd hp hd hexf
      obtain ⟨⟨e0, hs, hre, hlen⟩, hrne⟩ := rings_facts hr
      have hne : (mkPoly o rings).empty = false := by rw [hre]; exact mkPoly_not_empty o e0 hs hlen
      refine ⟨.arr (ringsNodes vf kf ex rings 0), ?_, ?_⟩
      · simp only [CoordsV, hne, Bool.false_eq_true, if_false]
        exact ⟨_, ringsV_nodes vf kf hT (fun _ => rfl) rings 0
          (fun r hr' p hp' => ⟨hpf r hr' p hp', htok r hr' p hp'⟩) (by omega), rfl⟩
      · unfold polyChildK
        simp only [parsePolyCoords_nodes vf kf hT (fun r hr' => ⟨hrne r hr', hpf r hr'⟩), bind,
          Except.bind, hr, Bool.false_eq_true, if_false, pure, Except.pure]

theorem reparse_multiPoint (o : POpts) (f : Nat) (k : Keys) (x : Obj) (h : parseMultiPointK o f k = .ok x)
    (hc : ∀ v, k.coordinates = some v → v.DocOK) (hfd : DocOKM k.foreign)
    (hns : ∀ m ∈ k.foreign, isSpecialKey m.2.1 = false) (hfin : AllFin x) :
    ∃ v, Written x v ∧ addProps x = x ∧ centreOf x = none ∧ ∀ g, parse o (g + 1) v = .ok x := by
  unfold parseMultiPointK at h
  cases hco : k.coordinates with
  | none => simp [hco, reqArray] at h
  | some rc =>
    simp only [hco, reqArray] at h
    by_cases ha : rc.isArray = true
    · simp only [ha, if_true] at h
      cases hm : rc.elems.mapM (fun v => parsePointCoords v) with
      | error e => simp [hm] at h
      | ok cs =>
        simp only [hm] at h
        by_cases hvalid : (o.requireValid && !((cs.map (fun c => Obj.point c.1 c.2)).all Obj.valid)) = true
        · rw [if_pos hvalid] at h; cases h
        · rw [if_neg hvalid, Except.ok.injEq] at h
          subst h
          simp only [mkColl, AllFin] at hfin
          have hfin' : ∀ c ∈ cs, c.1.fin = true ∧ ExFin c.2 := by
            intro c hcm
            exact allFinL_iff.mp hfin (Obj.point c.1 c.2) (List.mem_map.mpr ⟨c, hcm, rfl⟩)
          obtain ⟨ns, hns2, hre⟩ := mapM_reparse (fun v => parsePointCoords v)
            (fun c => Obj.point c.1 c.2) (fun c => c.1.fin = true ∧ ExFin c.2)
            (pointChild_step vf kf) rc.elems cs hm (docOKL_iff.mpr (hc rc hco).elems) hfin'
          refine ⟨mkObj "MultiPoint" "coordinates" (.arr ns) k.foreign, ?_, ?_, rfl, ?_⟩
          · exact ⟨ns, k.foreign, hns2, membersV_withMembers rfl hfd, rfl⟩
          · apply addProps_mkColl_leaves
            intro c hcm
            obtain ⟨c', _, rfl⟩ := List.mem_map.mp hcm
            rfl
          · intro g
            rw [parse_mkObj_coords o g "MultiPoint" _ _ hns, parseTyped_MultiPoint]
            unfold parseMultiPointK
            simp only [reqArray, JVal.isArray, if_true, JVal.elems, hre, withMembers_mk, hvalid,
              Bool.false_eq_true, if_false]
    · simp [ha] at h

theorem reparse_multiLineString (o : POpts) (f : Nat) (k : Keys) (x : Obj)
    (h : parseMultiLineStringK o f k = .ok x)
    (hc : ∀ v, k.coordinates = some v → v.DocOK) (hfd : DocOKM k.foreign)
    (hns : ∀ m ∈ k.foreign, isSpecialKey m.2.1 = false) (hfin : AllFin x) :
    ∃ v, Written x v ∧ addProps x = x ∧ centreOf x = none ∧ ∀ g, parse o (g + 1) v = .ok x := by
  rw [parseMultiLineStringK_eq] at h
  cases hco : k.coordinates with
  | none => simp [hco, reqArray] at h
  | some rc =>
    simp only [hco, reqArray] at h
    by_cases ha : rc.isArray = true
    · simp only [ha, if_true] at h
      cases hm : rc.elems.mapM (lineChildK o) with
      | error e => simp [hm] at h
      | ok cs =>
        simp only [hm] at h
        by_cases hvalid : (o.requireValid && !(mkColl o .multiLineString cs (withMembers none k)).valid) = true
        · rw [if_pos hvalid] at h; cases h
        · rw [if_neg hvalid, Except.ok.injEq] at h
          subst h
          simp only [mkColl, AllFin] at hfin
          obtain ⟨ns, hns2, hre⟩ := mapM_reparse (lineChildK o) id AllFin
            (lineChild_step vf kf o) rc.elems cs hm (docOKL_iff.mpr (hc rc hco).elems)
            (allFinL_iff.mp hfin)
          rw [List.map_id] at hns2
          refine ⟨mkObj "MultiLineString" "coordinates" (.arr ns) k.foreign, ?_, ?_, rfl, ?_⟩
          · exact ⟨ns, k.foreign, hns2, membersV_withMembers rfl hfd, rfl⟩
          · apply addProps_mkColl_leaves
            intro c hcm
            obtain ⟨e, _, he⟩ := mapM_ok_mem _ _ _ hm c hcm
            obtain ⟨_, _, _, rfl⟩ := lineChildK_kind he
            rfl
          · intro g
            rw [parse_mkObj_coords o g "MultiLineString" _ _ hns, parseTyped_MultiLineString,
              parseMultiLineStringK_eq]
            simp only [reqArray, JVal.isArray, if_true, JVal.elems, hre, withMembers_mk, hvalid,
              Bool.false_eq_true, if_false]
    · simp [ha] at h

theorem reparse_multiPolygon (o : POpts) (f : Nat) (k : Keys) (x : Obj)
    (h : parseMultiPolygonK o f k = .ok x)
    (hc : ∀ v, k.coordinates = some v → v.DocOK) (hfd : DocOKM k.foreign)
    (hns : ∀ m ∈ k.foreign, isSpecialKey m.2.1 = false) (hfin : AllFin x) :
    ∃ v, Written x v ∧ addProps x = x ∧ centreOf x = none ∧ ∀ g, parse o (g + 1) v = .ok x := by
  rw [parseMultiPolygonK_eq] at h
  cases hco : k.coordinates with
  | none => simp [hco, reqArray] at h
  | some rc =>
    simp only [hco, reqArray] at h
    by_cases ha : rc.isArray = true
    · simp only [ha, if_true] at h
      cases hm : rc.elems.mapM (polyChildK o) with
      | error e => simp [hm] at h
      | ok cs =>
        simp only [hm] at h
        by_cases hvalid : (o.requireValid && !(mkColl o .multiPolygon cs (withMembers none k)).valid) = true
        · rw [if_pos hvalid] at h; cases h
        · rw [if_neg hvalid, Except.ok.injEq] at h
          subst h
          simp only [mkColl, AllFin] at hfin
          obtain ⟨ns, hns2, hre⟩ := mapM_reparse (polyChildK o) id AllFin
            (polyChild_step vf kf o) rc.elems cs hm (docOKL_iff.mpr (hc rc hco).elems)
            (allFinL_iff.mp hfin)
          rw [List.map_id] at hns2
          refine ⟨mkObj "MultiPolygon" "coordinates" (.arr ns) k.foreign, ?_, ?_, rfl, ?_⟩
          · exact ⟨ns, k.foreign, hns2, membersV_withMembers rfl hfd, rfl⟩
          · apply addProps_mkColl_leaves
            intro c hcm
            obtain ⟨e, _, he⟩ := mapM_ok_mem _ _ _ hm c hcm
            obtain ⟨_, _, _, rfl⟩ := polyChildK_kind he
            rfl
          · intro g
            rw [parse_mkObj_coords o g "MultiPolygon" _ _ hns, parseTyped_MultiPolygon,
              parseMultiPolygonK_eq]
            simp only [reqArray, JVal.isArray, if_true, JVal.elems, hre, withMembers_mk, hvalid,
              Bool.false_eq_true, if_false]
    · simp [ha] at h
end

end Geo
