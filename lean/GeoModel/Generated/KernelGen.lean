/-
  GENERATED FILE — do not edit.  Regenerate with
      cd /verif/translate && go build -o bin/translate . && \
        ./bin/translate kernel /repo > /verif/lean/GeoModel/Generated/KernelGen.lean

  Syntactic translation (translate/kernel.go) of the planar kernels of package geometry:
  raycast.go, segment.go and the purely numeric methods of rect.go and point.go.

  Conventions:
    * float64 ↦ α with [KNum α] (GeoModel/KNum.lean: Float for execution, an exact model of
      binary64 rounding for the proofs); Point/Segment/Rect/RaycastResult ↦ KPoint α/KSegment α/
      KRect α/KRaycastResult (fields in lower case, In ↦ inn);
    * method T.M ↦ def tM (receiver first), function f ↦ def f;
    * a +ₖ b, a <ₖ b, a ==ₖ b, … are notation for KNum.add a b, KNum.lt a b, KNum.eq a b, …
      (IEEE comparisons, Bool-valued); integer literal n ↦ (KNum.ofNat n : α); == on structs ↦
      KPoint.eq / KSegment.eq / KRect.eq (field by field);
    * x := e, x = e, p.Y = e ↦ let-rebinding (let p := { p with y := e }); a tuple assignment
      whose right-hand sides mention an earlier target goes through temporaries tmpN';
    * a statement list becomes one expression, continuation style: `if c { …; return e }; rest` ↦
      if c then … e else rest.  An if statement that may fall through on both sides and is
      followed by more statements is joined: through let ret' : Option R (early return: some,
      fall through: none) when it assigns nothing, through a tuple of the variables it assigns
      when it does not return;
    * `for cond { body }` ↦ iterate 4 (fun vars => cond) (fun vars => body) vars — FUEL 4.  The
      only loop of the source (Raycast: p.Y = math.Nextafter(p.Y, +Inf) while p.Y equals a.Y or
      b.Y) runs at most twice on finite input; when the fuel runs out the value is returned as
      is (in Go the loop does not terminate when p.Y = a.Y = +Inf or p.Y = b.Y = +Inf);
    * math.Inf(1)/math.Inf(-1) ↦ KNum.posInf/KNum.negInf, math.Nextafter(x, math.Inf(1)) ↦
      KNum.nextUp x.
  Anything outside the recognised subset appears below as  opaque <name>_unrecognised : Unit.
-/
import GeoModel.KNum

set_option linter.unusedVariables false

namespace Geo.KGen
open Geo
open scoped Geo.KNum

/-- `for cond { step }` with explicit fuel: at most `fuel` iterations; when the fuel runs out the
    current value is returned as is. -/
def iterate {σ : Type} (fuel : Nat) (cond : σ → Bool) (step : σ → σ) (s : σ) : σ :=
  match fuel with
  | 0 => s
  | n + 1 => if cond s then iterate n cond step (step s) else s

/-- Go: `func (seg Segment) Raycast(point Point) RaycastResult` — geometry/raycast.go:12 -/
def segmentRaycast {α : Type} [KNum α] (seg : KSegment α) (point : KPoint α) : KRaycastResult :=
  let p := point
  let a := seg.a
  let b := seg.b
  if a.y <ₖ b.y && (p.y <ₖ a.y || p.y >ₖ b.y) then
    { inn := false, on := false : KRaycastResult }
  else if a.y >ₖ b.y && (p.y <ₖ b.y || p.y >ₖ a.y) then
    { inn := false, on := false : KRaycastResult }
  else
    let ret' : Option KRaycastResult :=
      if a.y ==ₖ b.y then
        if a.x ==ₖ b.x then
          if KPoint.eq p a then
            some { inn := false, on := true : KRaycastResult }
          else
            some { inn := false, on := false : KRaycastResult }
        else if p.y ==ₖ b.y then
          if a.x <ₖ b.x then
            if p.x ≥ₖ a.x && p.x ≤ₖ b.x then
              some { inn := false, on := true : KRaycastResult }
            else
              none
          else if p.x ≥ₖ b.x && p.x ≤ₖ a.x then
            some { inn := false, on := true : KRaycastResult }
          else
            none
        else
          none
      else
        none
    match ret' with
    | some r' => r'
    | none =>
      let ret' : Option KRaycastResult :=
        if a.x ==ₖ b.x && p.x ==ₖ b.x then
          if a.y <ₖ b.y then
            if p.y ≥ₖ a.y && p.y ≤ₖ b.y then
              some { inn := false, on := true : KRaycastResult }
            else
              none
          else if p.y ≥ₖ b.y && p.y ≤ₖ a.y then
            some { inn := false, on := true : KRaycastResult }
          else
            none
        else
          none
      match ret' with
      | some r' => r'
      | none =>
        if (p.x -ₖ a.x) /ₖ (b.x -ₖ a.x) ==ₖ (p.y -ₖ a.y) /ₖ (b.y -ₖ a.y) then
          { inn := false, on := true : KRaycastResult }
        else
          -- Go loop `for (p.Y == a.Y || p.Y == b.Y) && p.Y != math.Inf(1) { … }` at raycast.go:62, run with fuel 4 (see `iterate`)
          let p := iterate 4 (fun p => (p.y ==ₖ a.y || p.y ==ₖ b.y) && p.y !=ₖ (KNum.posInf : α)) (fun p =>
              let p := { p with y := KNum.nextUp p.y }
              p) p
          let ret' : Option KRaycastResult :=
            if a.y <ₖ b.y then
              if p.y <ₖ a.y || p.y >ₖ b.y then
                some { inn := false, on := false : KRaycastResult }
              else
                none
            else if p.y <ₖ b.y || p.y >ₖ a.y then
              some { inn := false, on := false : KRaycastResult }
            else
              none
          match ret' with
          | some r' => r'
          | none =>
            let ret' : Option KRaycastResult :=
              if a.x >ₖ b.x then
                if p.x ≥ₖ a.x then
                  some { inn := false, on := false : KRaycastResult }
                else if p.x ≤ₖ b.x then
                  some { inn := true, on := false : KRaycastResult }
                else
                  none
              else if p.x ≥ₖ b.x then
                some { inn := false, on := false : KRaycastResult }
              else if p.x ≤ₖ a.x then
                some { inn := true, on := false : KRaycastResult }
              else
                none
            match ret' with
            | some r' => r'
            | none =>
              let ret' : Option KRaycastResult :=
                if a.y <ₖ b.y then
                  if (p.y -ₖ a.y) /ₖ (p.x -ₖ a.x) ≥ₖ (b.y -ₖ a.y) /ₖ (b.x -ₖ a.x) then
                    some { inn := true, on := false : KRaycastResult }
                  else
                    none
                else if (p.y -ₖ b.y) /ₖ (p.x -ₖ b.x) ≥ₖ (a.y -ₖ b.y) /ₖ (a.x -ₖ b.x) then
                  some { inn := true, on := false : KRaycastResult }
                else
                  none
              match ret' with
              | some r' => r'
              | none =>
                { inn := false, on := false : KRaycastResult }

/-- Go: `func (seg Segment) Move(deltaX, deltaY float64) Segment` — geometry/segment.go:17 -/
def segmentMove {α : Type} [KNum α] (seg : KSegment α) (deltaX : α) (deltaY : α) : KSegment α :=
  { a := { x := seg.a.x +ₖ deltaX, y := seg.a.y +ₖ deltaY : KPoint α }, b := { x := seg.b.x +ₖ deltaX, y := seg.b.y +ₖ deltaY : KPoint α } : KSegment α }

/-- Go: `func (seg Segment) Rect() Rect` — geometry/segment.go:25 -/
def segmentRect {α : Type} [KNum α] (seg : KSegment α) : KRect α :=
  let rect : KRect α := { min := { x := (KNum.ofNat 0 : α), y := (KNum.ofNat 0 : α) : KPoint α }, max := { x := (KNum.ofNat 0 : α), y := (KNum.ofNat 0 : α) : KPoint α } : KRect α }
  let rect := { rect with min := seg.a }
  let rect := { rect with max := seg.b }
  let rect :=
    if rect.min.x >ₖ rect.max.x then
      let tmp0' := rect.max.x
      let tmp1' := rect.min.x
      let rect := { rect with min := { rect.min with x := tmp0' } }
      let rect := { rect with max := { rect.max with x := tmp1' } }
      rect
    else
      rect
  let rect :=
    if rect.min.y >ₖ rect.max.y then
      let tmp2' := rect.max.y
      let tmp3' := rect.min.y
      let rect := { rect with min := { rect.min with y := tmp2' } }
      let rect := { rect with max := { rect.max with y := tmp3' } }
      rect
    else
      rect
  rect

/-- Go: `func eqZero(x float64) bool` — geometry/segment.go:7 -/
def eqZero {α : Type} [KNum α] (x : α) : Bool :=
  !(x <ₖ (KNum.ofNat 0 : α) || x >ₖ (KNum.ofNat 0 : α))

/-- Go: `func (seg Segment) CollinearPoint(point Point) bool` — geometry/segment.go:38 -/
def segmentCollinearPoint {α : Type} [KNum α] (seg : KSegment α) (point : KPoint α) : Bool :=
  let cmpx := point.x -ₖ seg.a.x
  let cmpy := point.y -ₖ seg.a.y
  let rx := seg.b.x -ₖ seg.a.x
  let ry := seg.b.y -ₖ seg.a.y
  let cmpxr := cmpx *ₖ ry -ₖ cmpy *ₖ rx
  eqZero cmpxr

/-- Go: `func (seg Segment) ContainsPoint(point Point) bool` — geometry/segment.go:45 -/
def segmentContainsPoint {α : Type} [KNum α] (seg : KSegment α) (point : KPoint α) : Bool :=
  (segmentRaycast seg point).on

/-- Go: `func (seg Segment) IntersectsSegment(other Segment) bool` — geometry/segment.go:54 -/
def segmentIntersectsSegment {α : Type} [KNum α] (seg : KSegment α) (other : KSegment α) : Bool :=
  let a := seg.a
  let b := seg.b
  let c := other.a
  let d := other.b
  let ret' : Option Bool :=
    if a.y >ₖ b.y then
      if c.y >ₖ d.y then
        if b.y >ₖ c.y || a.y <ₖ d.y then
          some false
        else
          none
      else if b.y >ₖ d.y || a.y <ₖ c.y then
        some false
      else
        none
    else if c.y >ₖ d.y then
      if a.y >ₖ c.y || b.y <ₖ d.y then
        some false
      else
        none
    else if a.y >ₖ d.y || b.y <ₖ c.y then
      some false
    else
      none
  match ret' with
  | some r' => r'
  | none =>
    let ret' : Option Bool :=
      if a.x >ₖ b.x then
        if c.x >ₖ d.x then
          if b.x >ₖ c.x || a.x <ₖ d.x then
            some false
          else
            none
        else if b.x >ₖ d.x || a.x <ₖ c.x then
          some false
        else
          none
      else if c.x >ₖ d.x then
        if a.x >ₖ c.x || b.x <ₖ d.x then
          some false
        else
          none
      else if a.x >ₖ d.x || b.x <ₖ c.x then
        some false
      else
        none
    match ret' with
    | some r' => r'
    | none =>
      if KPoint.eq seg.a other.a || KPoint.eq seg.a other.b || KPoint.eq seg.b other.a || KPoint.eq seg.b other.b then
        true
      else
        let cmpx := c.x -ₖ a.x
        let cmpy := c.y -ₖ a.y
        let rx := b.x -ₖ a.x
        let ry := b.y -ₖ a.y
        let cmpxr := cmpx *ₖ ry -ₖ cmpy *ₖ rx
        if eqZero cmpxr then
          if !((c.x -ₖ a.x ≤ₖ (KNum.ofNat 0 : α)) != (c.x -ₖ b.x ≤ₖ (KNum.ofNat 0 : α)) || (c.y -ₖ a.y ≤ₖ (KNum.ofNat 0 : α)) != (c.y -ₖ b.y ≤ₖ (KNum.ofNat 0 : α))) then
            (segmentRaycast seg other.a).on || (segmentRaycast seg other.b).on || (segmentRaycast other seg.a).on
          else
            true
        else
          let sx := d.x -ₖ c.x
          let sy := d.y -ₖ c.y
          let cmpxs := cmpx *ₖ sy -ₖ cmpy *ₖ sx
          let rxs := rx *ₖ sy -ₖ ry *ₖ sx
          if eqZero rxs then
            false
          else
            let rxsr := (KNum.ofNat 1 : α) /ₖ rxs
            let t := cmpxs *ₖ rxsr
            let u := cmpxr *ₖ rxsr
            if !(t ≥ₖ (KNum.ofNat 0 : α) && t ≤ₖ (KNum.ofNat 1 : α) && u ≥ₖ (KNum.ofNat 0 : α) && u ≤ₖ (KNum.ofNat 1 : α)) then
              false
            else
              true

/-- Go: `func (seg Segment) ContainsSegment(other Segment) bool` — geometry/segment.go:135 -/
def segmentContainsSegment {α : Type} [KNum α] (seg : KSegment α) (other : KSegment α) : Bool :=
  (segmentRaycast seg other.a).on && (segmentRaycast seg other.b).on

/-- Go: `func (rect Rect) Move(deltaX, deltaY float64) Rect` — geometry/rect.go:11 -/
def rectMove {α : Type} [KNum α] (rect : KRect α) (deltaX : α) (deltaY : α) : KRect α :=
  { min := { x := rect.min.x +ₖ deltaX, y := rect.min.y +ₖ deltaY : KPoint α }, max := { x := rect.max.x +ₖ deltaX, y := rect.max.y +ₖ deltaY : KPoint α } : KRect α }

/-- Go: `func (rect Rect) Center() Point` — geometry/rect.go:26 -/
def rectCenter {α : Type} [KNum α] (rect : KRect α) : KPoint α :=
  { x := (rect.max.x +ₖ rect.min.x) /ₖ (KNum.ofNat 2 : α), y := (rect.max.y +ₖ rect.min.y) /ₖ (KNum.ofNat 2 : α) : KPoint α }

/-- Go: `func (rect Rect) Area() float64` — geometry/rect.go:30 -/
def rectArea {α : Type} [KNum α] (rect : KRect α) : α :=
  (rect.max.x -ₖ rect.min.x) *ₖ (rect.max.y -ₖ rect.min.y)

/-- Go: `func (point Point) Valid() bool` — geometry/point.go:19 -/
def pointValid {α : Type} [KNum α] (point : KPoint α) : Bool :=
  point.x ≥ₖ KNum.neg (KNum.ofNat 180 : α) && point.x ≤ₖ (KNum.ofNat 180 : α) && point.y ≥ₖ KNum.neg (KNum.ofNat 90 : α) && point.y ≤ₖ (KNum.ofNat 90 : α)

/-- Go: `func (rect Rect) Valid() bool` — geometry/rect.go:104 -/
def rectValid {α : Type} [KNum α] (rect : KRect α) : Bool :=
  pointValid rect.min && pointValid rect.max

/-- Go: `func (rect Rect) Rect() Rect` — geometry/rect.go:108 -/
def rectRect {α : Type} [KNum α] (rect : KRect α) : KRect α :=
  rect

/-- Go: `func (rect Rect) ContainsPoint(point Point) bool` — geometry/rect.go:116 -/
def rectContainsPoint {α : Type} [KNum α] (rect : KRect α) (point : KPoint α) : Bool :=
  point.x ≥ₖ rect.min.x && point.x ≤ₖ rect.max.x && point.y ≥ₖ rect.min.y && point.y ≤ₖ rect.max.y

/-- Go: `func (rect Rect) IntersectsPoint(point Point) bool` — geometry/rect.go:121 -/
def rectIntersectsPoint {α : Type} [KNum α] (rect : KRect α) (point : KPoint α) : Bool :=
  rectContainsPoint rect point

/-- Go: `func (rect Rect) ContainsRect(other Rect) bool` — geometry/rect.go:125 -/
def rectContainsRect {α : Type} [KNum α] (rect : KRect α) (other : KRect α) : Bool :=
  if other.min.x <ₖ rect.min.x || other.max.x >ₖ rect.max.x then
    false
  else if other.min.y <ₖ rect.min.y || other.max.y >ₖ rect.max.y then
    false
  else
    true

/-- Go: `func (rect Rect) IntersectsRect(other Rect) bool` — geometry/rect.go:135 -/
def rectIntersectsRect {α : Type} [KNum α] (rect : KRect α) (other : KRect α) : Bool :=
  if rect.min.y >ₖ other.max.y || rect.max.y <ₖ other.min.y then
    false
  else if rect.min.x >ₖ other.max.x || rect.max.x <ₖ other.min.x then
    false
  else
    true

/-- Go: `func (point Point) Move(deltaX, deltaY float64) Point` — geometry/point.go:11 -/
def pointMove {α : Type} [KNum α] (point : KPoint α) (deltaX : α) (deltaY : α) : KPoint α :=
  { x := point.x +ₖ deltaX, y := point.y +ₖ deltaY : KPoint α }

/-- Go: `func (point Point) Rect() Rect` — geometry/point.go:23 -/
def pointRect {α : Type} [KNum α] (point : KPoint α) : KRect α :=
  { min := point, max := point : KRect α }

/-- Go: `func (point Point) ContainsPoint(other Point) bool` — geometry/point.go:27 -/
def pointContainsPoint {α : Type} [KNum α] (point : KPoint α) (other : KPoint α) : Bool :=
  KPoint.eq point other

/-- Go: `func (point Point) IntersectsPoint(other Point) bool` — geometry/point.go:31 -/
def pointIntersectsPoint {α : Type} [KNum α] (point : KPoint α) (other : KPoint α) : Bool :=
  KPoint.eq point other

/-- Go: `func (point Point) ContainsRect(rect Rect) bool` — geometry/point.go:35 -/
def pointContainsRect {α : Type} [KNum α] (point : KPoint α) (rect : KRect α) : Bool :=
  KRect.eq (pointRect point) rect

/-- Go: `func (point Point) IntersectsRect(rect Rect) bool` — geometry/point.go:39 -/
def pointIntersectsRect {α : Type} [KNum α] (point : KPoint α) (rect : KRect α) : Bool :=
  rectContainsPoint rect point

end Geo.KGen
