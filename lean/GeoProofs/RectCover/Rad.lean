/-
  GeoProofs.RectCover.Rad — longitude coverage of RectFromCenter in radians: a disc of angular
  radius `r` around latitude `φ` that contains no pole in its interior has all its points within
  `rectLonDelta φ r` of the centre meridian.
-/
import GeoProofs.RectCover.Trig

namespace Geo.C14
open Geo GeoReal Real

/-- facts about a pole-free disc: `0 < r`, `|φ| + r ≤ π/2` -/
theorem disc_facts {φ r : ℝ} (hr0 : 0 < r) (hN : φ + r ≤ π / 2) (hS : -π / 2 ≤ φ - r) :
    0 < cos φ ∧ 0 ≤ cos r ∧ sin φ ^ 2 ≤ cos r ^ 2 := by
  have hp := pi_pos
  have hc : 0 < cos φ := cos_pos_of_mem_Ioo ⟨by linarith, by linarith⟩
  have hr : 0 ≤ cos r := cos_nonneg_of_neg_pi_div_two_le_of_le (by linarith) (by linarith)
  refine ⟨hc, hr, ?_⟩
  have h1 : sin φ ≤ cos r := by
    rw [← sin_pi_div_two_sub]
    exact sin_le_sin_of_le_of_le_pi_div_two (by linarith) (by linarith) (by linarith)
  have h2 : -cos r ≤ sin φ := by
    rw [← sin_pi_div_two_sub, ← sin_neg]
    exact sin_le_sin_of_le_of_le_pi_div_two (by linarith) (by linarith) (by linarith)
  exact sq_le_sq' h2 h1

/-- a pole is not in a disc that stays strictly away from it -/
theorem cos_pos_of_mem_disc {φ r φ' δ : ℝ} (hr0 : 0 < r) (hN : φ + r ≤ π / 2)
    (hS : -π / 2 ≤ φ - r) (hφ' : -π / 2 ≤ φ' ∧ φ' ≤ π / 2)
    (hd : cos r ≤ sin φ * sin φ' + cos φ * cos φ' * cos δ)
    (hP : (-π / 2 < φ' ∧ φ' < π / 2) ∨ (φ + r ≠ π / 2 ∧ φ - r ≠ -π / 2)) : 0 < cos φ' := by
  have hp := pi_pos
  rcases hP with hP | hP
  · exact cos_pos_of_mem_Ioo ⟨by linarith [hP.1], hP.2⟩
  · have hN' : φ + r < π / 2 := lt_of_le_of_ne hN hP.1
    have hS' : -π / 2 < φ - r := lt_of_le_of_ne hS (Ne.symm hP.2)
    have h1 : sin φ < cos r := by
      rw [← sin_pi_div_two_sub]
      exact sin_lt_sin_of_lt_of_le_pi_div_two (by linarith) (by linarith) (by linarith)
    have h2 : -cos r < sin φ := by
      rw [← sin_pi_div_two_sub, ← sin_neg]
      exact sin_lt_sin_of_lt_of_le_pi_div_two (by linarith) (by linarith) (by linarith)
    by_contra hneg
    have hc0 : cos φ' = 0 :=
      le_antisymm (not_lt.1 hneg) (cos_nonneg_of_neg_pi_div_two_le_of_le (by linarith [hφ'.1]) hφ'.2)
    have hs := sin_sq_add_cos_sq φ'
    rw [hc0] at hs hd
    have hs1 : sin φ' = 1 ∨ sin φ' = -1 := by
      have : (sin φ' - 1) * (sin φ' + 1) = 0 := by nlinarith
      rcases mul_eq_zero.1 this with h | h
      · left; linarith
      · right; linarith
    rcases hs1 with h | h <;> rw [h] at hd <;> nlinarith

/-- Longitude coverage in radians.  Centre `(φ, l)`, angular radius `r > 0`, no pole in the
    interior of the disc, the interval `l ± rectLonDelta φ r` inside [−π, π]; a point `(φ', lp)`
    of the disc (law-of-cosines form).  Side conditions: the point is not a pole or the disc does
    not touch a pole; the point is not on the antimeridian or the interval does not end there. -/
theorem lon_cover_rad {φ l r φ' lp : ℝ} (hr0 : 0 < r) (hN : φ + r ≤ π / 2)
    (hS : -π / 2 ≤ φ - r) (hφ' : -π / 2 ≤ φ' ∧ φ' ≤ π / 2) (hlp : -π ≤ lp ∧ lp ≤ π)
    (hlo : -π ≤ l - rectLonDelta φ r) (hhi : l + rectLonDelta φ r ≤ π)
    (hd : cos r ≤ sin φ * sin φ' + cos φ * cos φ' * cos (lp - l))
    (hP : (-π / 2 < φ' ∧ φ' < π / 2) ∨ (φ + r ≠ π / 2 ∧ φ - r ≠ -π / 2))
    (hA : (-π < lp ∧ lp < π) ∨ (l - rectLonDelta φ r ≠ -π ∧ l + rectLonDelta φ r ≠ π)) :
    l - rectLonDelta φ r ≤ lp ∧ lp ≤ l + rectLonDelta φ r := by
  obtain ⟨hc, hr, hq⟩ := disc_facts hr0 hN hS
  have hc' := cos_pos_of_mem_disc hr0 hN hS hφ' hd hP
  have hA' := cos_dev_ge hc hc' hr hq hd
  rw [rectLonDelta_eq hc hr hq] at hlo hhi hA ⊢
  exact lon_mem_of_cos_ge hlp hlo hhi hA' hA

/-- the half-width is at most a quarter turn (pole-free disc) -/
theorem rectLonDelta_le {φ r : ℝ} (hr0 : 0 < r) (hN : φ + r ≤ π / 2) (hS : -π / 2 ≤ φ - r) :
    0 ≤ rectLonDelta φ r ∧ rectLonDelta φ r ≤ π / 2 := by
  obtain ⟨hc, hr, hq⟩ := disc_facts hr0 hN hS
  rw [rectLonDelta_eq hc hr hq]
  exact ⟨arccos_nonneg _, arccos_le_pi_div_two.2 (div_nonneg (sqrt_nonneg _) hc.le)⟩

/-- Tightness: the half-width is attained.  The point at latitude `φT = arcsin (sin φ / cos r)`
    and longitude deviation `rectLonDelta φ r` lies ON the small circle (`cos d = cos r`), so no
    smaller half-width covers the disc. -/
theorem rectLonDelta_attained {φ r : ℝ} (hr0 : 0 < r) (hN : φ + r < π / 2)
    (hS : -π / 2 < φ - r) :
    sin φ * sin (arcsin (sin φ / cos r))
      + cos φ * cos (arcsin (sin φ / cos r)) * cos (rectLonDelta φ r) = cos r := by
  have hp := pi_pos
  obtain ⟨hc, -, hq⟩ := disc_facts hr0 hN.le hS.le
  have hr : 0 < cos r := cos_pos_of_mem_Ioo ⟨by linarith, by linarith⟩
  set Q := √(cos r ^ 2 - sin φ ^ 2) with hQ
  have hQ0 : 0 ≤ Q := sqrt_nonneg _
  have hQ2 : Q ^ 2 = cos r ^ 2 - sin φ ^ 2 := sq_sqrt (by linarith)
  have h1 := sin_sq_add_cos_sq φ
  have h2 := sin_sq_add_cos_sq r
  have hQc : Q ≤ cos φ :=
    (abs_le_of_sq_le_sq' (by nlinarith [sq_nonneg (sin r)]) hc.le).2
  have habs : |sin φ| ≤ cos r := abs_le_of_sq_le_sq hq hr.le
  have ht : -1 ≤ sin φ / cos r ∧ sin φ / cos r ≤ 1 := by
    rw [abs_le] at habs
    constructor
    · rw [le_div_iff₀ hr]; linarith
    · rw [div_le_iff₀ hr]; linarith
  have e1 : 1 - (sin φ / cos r) ^ 2 = (Q / cos r) ^ 2 := by
    rw [div_pow, div_pow, hQ2]; field_simp
  rw [rectLonDelta_eq hc hr.le hq, ← hQ, sin_arcsin ht.1 ht.2, cos_arcsin, e1,
    sqrt_sq (div_nonneg hQ0 hr.le),
    cos_arccos (by linarith [div_nonneg hQ0 hc.le]) ((div_le_one hc).2 hQc)]
  field_simp
  nlinarith

end Geo.C14
