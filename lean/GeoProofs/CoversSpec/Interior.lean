/-
  GeoProofs.CoversSpec.Interior — `Spec.interiorPoint` returns a point strictly inside every
  simple ring: halfway between the two lowest vertex levels, halfway between the two leftmost
  intercepts of the ring with that level.
-/
import GeoProofs.CoversSpec.Defs
import GeoProofs.Intersects.Regions
import GeoProofs.ContainsConvex.SegInside

namespace Geo
namespace CS
open Jordan Cvx IX

/-! ### `insertSorted` keeps a strictly increasing list -/

theorem sorted_insertSorted (x : Rat) (l : List Rat) (hl : l.Pairwise (· < ·)) :
    (Spec.insertSorted x l).Pairwise (· < ·) := by
  induction l with
  | nil => simp [Spec.insertSorted]
  | cons z zs ih =>
    unfold Spec.insertSorted
    rw [List.pairwise_cons] at hl
    split_ifs with h1 h2
    · refine List.pairwise_cons.2 ⟨?_, List.pairwise_cons.2 hl⟩
      intro a ha
      rcases List.mem_cons.1 ha with rfl | ha
      · exact h1
      · exact lt_trans h1 (hl.1 a ha)
    · exact List.pairwise_cons.2 hl
    · refine List.pairwise_cons.2 ⟨?_, ih hl.2⟩
      intro a ha
      rcases (CC.mem_insertSorted x a zs).1 ha with rfl | ha
      · exact lt_of_le_of_ne (not_lt.1 h1) (Ne.symm h2)
      · exact hl.1 a ha

/-- folding conditional insertions: the result is strictly increasing and holds exactly the
    inserted values -/
theorem fold_insert {α : Type} (c : α → Bool) (g : α → Rat) (l : List α) :
    ∀ init : List Rat, init.Pairwise (· < ·) →
      (l.foldl (fun acc e => if c e = true then Spec.insertSorted (g e) acc else acc) init).Pairwise (· < ·) ∧
      ∀ y, y ∈ l.foldl (fun acc e => if c e = true then Spec.insertSorted (g e) acc else acc) init ↔
        (y ∈ init ∨ ∃ e ∈ l, c e = true ∧ g e = y) := by
  induction l with
  | nil => intro init h; simp [h]
  | cons a as ih =>
    intro init h
    rw [List.foldl_cons]
    by_cases hc : c a = true
    · rw [if_pos hc]
      obtain ⟨h1, h2⟩ := ih _ (sorted_insertSorted (g a) init h)
      refine ⟨h1, fun y => ?_⟩
      rw [h2, CC.mem_insertSorted]
      constructor
      · rintro ((rfl | h) | ⟨e, he, hce, rfl⟩)
        · exact Or.inr ⟨a, by simp, hc, rfl⟩
        · exact Or.inl h
        · exact Or.inr ⟨e, by simp [he], hce, rfl⟩
      · rintro (h | ⟨e, he, hce, rfl⟩)
        · exact Or.inl (Or.inr h)
        · rcases List.mem_cons.1 he with rfl | he
          · exact Or.inl (Or.inl rfl)
          · exact Or.inr ⟨e, he, hce, rfl⟩
    · rw [if_neg hc]
      obtain ⟨h1, h2⟩ := ih _ h
      refine ⟨h1, fun y => ?_⟩
      rw [h2]
      constructor
      · rintro (h | ⟨e, he, hce, rfl⟩)
        · exact Or.inl h
        · exact Or.inr ⟨e, by simp [he], hce, rfl⟩
      · rintro (h | ⟨e, he, hce, rfl⟩)
        · exact Or.inl h
        · rcases List.mem_cons.1 he with rfl | he
          · exact absurd hce hc
          · exact Or.inr ⟨e, he, hce, rfl⟩

/-- a strictly increasing list with two different members -/
theorem two_of_sorted (l : List Rat) (hl : l.Pairwise (· < ·)) (a b : Rat) (ha : a ∈ l) (hb : b ∈ l)
    (hab : a ≠ b) :
    ∃ x0 x1 r, l = x0 :: x1 :: r ∧ x0 < x1 ∧ ∀ m ∈ l, m = x0 ∨ x1 ≤ m := by
  match l, hl with
  | [], _ => simp at ha
  | [x], _ =>
    simp only [List.mem_singleton] at ha hb
    exact absurd (ha.trans hb.symm) hab
  | x0 :: x1 :: r, hl =>
    rw [List.pairwise_cons, List.pairwise_cons] at hl
    refine ⟨x0, x1, r, rfl, hl.1 x1 (by simp), ?_⟩
    intro m hm
    rcases List.mem_cons.1 hm with rfl | hm
    · exact Or.inl rfl
    · rcases List.mem_cons.1 hm with rfl | hm
      · exact Or.inr (le_refl _)
      · exact Or.inr (hl.2.1 m hm).le


/-! ### the vertices of a simple chain are not all on one level -/

theorem flat_onSeg {a b c : Pt} (h1 : a.y = b.y) (h2 : b.y = c.y) (hab : a.x ≤ b.x) (hcb : c.x ≤ b.x) :
    OnSeg a b c ∨ OnSeg b c a := by
  by_cases hac : a.x ≤ c.x
  · left
    refine ⟨by rw [K.cross_def, h1, h2]; ring, ?_, ?_, ?_, ?_⟩
    · rw [min_eq_left hab]; exact hac
    · rw [max_eq_right hab]; exact hcb
    · rw [h1, h2, min_self]
    · rw [h1, h2, max_self]
  · right
    have hca : c.x ≤ a.x := (not_le.1 hac).le
    refine ⟨by rw [K.cross_def, h1, h2]; ring, ?_, ?_, ?_, ?_⟩
    · rw [min_eq_right hcb]; exact hca
    · rw [max_eq_left hcb]; exact hab
    · rw [h1, h2, min_self]
    · rw [h1, h2, max_self]

theorem simple0_not_flat {P : Nat → Pt} {n : Nat} (h : Simple0 P n) (c : Rat) :
    ¬ ∀ i, (P i).y = c := by
  intro hall
  have hn : 0 < n := by have := h.n3; omega
  have hne : List.range n ≠ [] := by
    intro hh; rw [List.range_eq_nil] at hh; omega
  obtain ⟨m, -, hmin⟩ := exists_min_list (fun i => -(P i).x) (List.range n) hne
  have hmax : ∀ i, (P i).x ≤ (P m).x := by
    intro i
    have := hmin (i % n) (List.mem_range.2 (Nat.mod_lt _ hn))
    rw [← h.per_mod i] at this
    simpa using this
  have e1 : P (m + n - 1 + 1) = P m := by
    rw [show m + n - 1 + 1 = m + n from by omega, h.per]
  have hflat := flat_onSeg (a := P (m + n - 1)) (b := P (m + n - 1 + 1)) (c := P (m + n - 1 + 2))
    (by rw [hall, hall]) (by rw [hall, hall]) (by rw [e1]; exact hmax _) (by rw [e1]; exact hmax _)
  rcases hflat with hh | hh
  · exact h.adj1 _ hh
  · exact h.adj2 _ hh

/-! ### a periodic Boolean sequence that takes both values switches both ways -/

theorem switch_down (Y : Nat → Bool) (a : Nat) :
    ∀ d, Y a = true → Y (a + d) = false → ∃ i, Y i = true ∧ Y (i + 1) = false := by
  intro d
  induction d with
  | zero => intro h1 h2; rw [Nat.add_zero, h1] at h2; cases h2
  | succ d ih =>
    intro h1 h2
    cases hd : Y (a + d) with
    | false => exact ih h1 hd
    | true => exact ⟨a + d, hd, h2⟩

theorem switch_up (Y : Nat → Bool) (a d : Nat) (h1 : Y a = false) (h2 : Y (a + d) = true) :
    ∃ i, Y i = false ∧ Y (i + 1) = true := by
  obtain ⟨i, hi1, hi2⟩ := switch_down (fun i => !Y i) a d (by simp [h1]) (by simp [h2])
  exact ⟨i, by simpa using hi1, by simpa using hi2⟩

theorem two_switches (Y : Nat → Bool) (n : Nat) (hn : 0 < n) (per : ∀ i, Y (i + n) = Y i)
    (a b : Nat) (ha : Y a = true) (hb : Y b = false) :
    ∃ i j, i < n ∧ j < n ∧ i ≠ j ∧ Y i ≠ Y (i + 1) ∧ Y j ≠ Y (j + 1) := by
  have perk : ∀ k i, Y (i + k * n) = Y i := by
    intro k
    induction k with
    | zero => intro i; simp
    | succ k ih => intro i; rw [show i + (k + 1) * n = (i + k * n) + n from by ring, per, ih]
  have pm : ∀ i, Y i = Y (i % n) := by
    intro i
    conv_lhs => rw [← Nat.mod_add_div i n, mul_comm]
    exact perk _ _
  have pm1 : ∀ i, Y (i + 1) = Y (i % n + 1) := by
    intro i
    rw [pm (i + 1), pm (i % n + 1), Nat.add_mod i 1 n, Nat.add_mod (i % n) 1 n, Nat.mod_mod]
  have hkn : ∀ k, k ≤ k * n := fun k => Nat.le_mul_of_pos_right k hn
  obtain ⟨i, hi1, hi2⟩ := switch_down Y a (b + a * n - a) ha (by
    rw [show a + (b + a * n - a) = b + a * n from by have := hkn a; omega, perk]; exact hb)
  obtain ⟨j, hj1, hj2⟩ := switch_up Y b (a + b * n - b) hb (by
    rw [show b + (a + b * n - b) = a + b * n from by have := hkn b; omega, perk]; exact ha)
  refine ⟨i % n, j % n, Nat.mod_lt _ hn, Nat.mod_lt _ hn, ?_, ?_, ?_⟩
  · intro he
    have : Y i = Y j := by rw [pm i, pm j, he]
    rw [hi1, hj1] at this; cases this
  · rw [← pm, ← pm1, hi1, hi2]; simp
  · rw [← pm, ← pm1, hj1, hj2]; simp


/-! ### the level `y` carries no vertex: intercepts of the straddling edges -/

theorem intercept_ne {P : Nat → Pt} {n : Nat} (hS : Simple0 P n) {y : Rat} (hy : ∀ i, (P i).y ≠ y)
    {i j : Nat} (hi : i < n) (hj : j < n) (hij : i ≠ j)
    (si : straddle (P i) (P (i+1)) y = true) (sj : straddle (P j) (P (j+1)) y = true) :
    Xat (P i) (P (i+1)) y ≠ Xat (P j) (P (j+1)) y := by
  intro he
  have h1 := onSeg_X si
  have h2 := onSeg_X sj
  rw [← he] at h2
  rcases (CC.simple0_meet hS hi hj hij h1 h2).1 with h | h
  · exact hy i (by rw [← h])
  · exact hy (i+1) (by rw [← h])

theorem two_straddles {P : Nat → Pt} {n : Nat} (hS : Simple0 P n) {y : Rat} {a b : Nat}
    (ha : (P a).y ≤ y) (hb : y < (P b).y) :
    ∃ i j, i < n ∧ j < n ∧ i ≠ j ∧ straddle (P i) (P (i+1)) y = true ∧
      straddle (P j) (P (j+1)) y = true := by
  have hn : 0 < n := by have := hS.n3; omega
  obtain ⟨i, j, hi, hj, hij, h1, h2⟩ := two_switches (fun i => decide ((P i).y ≤ y)) n hn
    (fun i => by simp only [hS.per]) a b (by simpa using ha) (by simpa using hb)
  refine ⟨i, j, hi, hj, hij, ?_, ?_⟩
  · unfold straddle; rw [bne_iff_ne]; exact h1
  · unfold straddle; rw [bne_iff_ne]; exact h2

/-- an edge with a point at a level that carries none of its ends straddles the level -/
theorem straddle_of_onSeg {a b x : Pt} (h : OnSeg a b x) (ha : a.y ≠ x.y) (hb : b.y ≠ x.y) :
    straddle a b x.y = true := by
  obtain ⟨-, -, -, h1, h2⟩ := h
  rw [straddle_iff]
  rcases le_total a.y b.y with hab | hab
  · rw [min_eq_left hab] at h1; rw [max_eq_right hab] at h2
    exact Or.inl ⟨h1, lt_of_le_of_ne h2 (Ne.symm hb)⟩
  · rw [min_eq_right hab] at h1; rw [max_eq_left hab] at h2
    exact Or.inr ⟨h1, lt_of_le_of_ne h2 (Ne.symm ha)⟩


/-- the core: halfway between the two leftmost intercepts, off the chain, leftward parity one -/
theorem core {P : Nat → Pt} {n : Nat} (hS : Simple0 P n) {y : Rat} (hy : ∀ i, (P i).y ≠ y)
    {a b : Nat} (ha : (P a).y ≤ y) (hb : y < (P b).y) (xs : List Rat) (hsorted : xs.Pairwise (· < ·))
    (hmem : ∀ x, x ∈ xs ↔ ∃ i, i < n ∧ straddle (P i) (P (i+1)) y = true ∧ Xat (P i) (P (i+1)) y = x) :
    ∃ x0 x1 r, xs = x0 :: x1 :: r ∧
      Off ((List.range n).map (fun i => (P i, P (i+1)))) ⟨(x0 + x1) / 2, y⟩ ∧
      parityL ((List.range n).map (fun i => (P i, P (i+1)))) ⟨(x0 + x1) / 2, y⟩ = 1 := by
  obtain ⟨i, j, hi, hj, hij, si, sj⟩ := two_straddles hS ha hb
  obtain ⟨x0, x1, r, hxs, h01, hall⟩ := two_of_sorted xs hsorted _ _
    ((hmem _).2 ⟨i, hi, si, rfl⟩) ((hmem _).2 ⟨j, hj, sj, rfl⟩) (intercept_ne hS hy hi hj hij si sj)
  have hlo : x0 < (x0 + x1) / 2 := by linarith
  have hhi : (x0 + x1) / 2 < x1 := by linarith
  have key : ∀ k, k < n → straddle (P k) (P (k+1)) y = true →
      Xat (P k) (P (k+1)) y = x0 ∨ x1 ≤ Xat (P k) (P (k+1)) y :=
    fun k hk sk => hall _ ((hmem _).2 ⟨k, hk, sk, rfl⟩)
  refine ⟨x0, x1, r, hxs, ?_, ?_⟩
  · intro e he hon
    obtain ⟨k, hk, rfl⟩ := List.mem_map.1 he
    have hk := List.mem_range.1 hk
    have sk : straddle (P k) (P (k+1)) y = true := straddle_of_onSeg hon (hy k) (hy (k+1))
    have hc := hon.1
    rw [cross_X _ _ _ (straddle_ne sk)] at hc
    have hD : (P (k+1)).y - (P k).y ≠ 0 := sub_ne_zero.2 (Ne.symm (straddle_ne sk))
    have hX : Xat (P k) (P (k+1)) y = (x0 + x1) / 2 := by
      rcases mul_eq_zero.1 hc with h | h
      · exact absurd h hD
      · simpa [sub_eq_zero] using h
    rcases key k hk sk with h | h <;> rw [hX] at h <;> linarith
  · have hx0 : x0 ∈ xs := by rw [hxs]; simp
    obtain ⟨k0, hk0, sk0, hX0⟩ := (hmem _).1 hx0
    unfold parityL
    rw [filter_length_one _ _ k0 (P k0, P (k0+1)) (by simp [hk0])]
    · rw [crossesL_iff_X]; exact ⟨sk0, by simp only [hX0]; exact hlo⟩
    · intro j f hjk hf
      rw [List.getElem?_map] at hf
      have hjn : j < n := by
        by_contra hc
        rw [List.getElem?_eq_none (by simpa using hc)] at hf
        cases hf
      rw [List.getElem?_range hjn] at hf
      simp only [Option.map_some, Option.some.injEq] at hf
      subst hf
      by_contra hc
      rw [Bool.not_eq_false, crossesL_iff_X] at hc
      obtain ⟨sj', hlt⟩ := hc
      simp only at hlt
      rcases key j hjn sj' with h | h
      · exact intercept_ne hS hy hjn hk0 hjk sj' sk0 (h.trans hX0.symm)
      · linarith


/-! ### `Spec.interiorPoint` -/

/-- the vertex levels, strictly increasing -/
def ysOf (h : List Pt) : List Rat :=
  h.foldl (fun acc p => if (fun _ : Pt => true) p = true then Spec.insertSorted p.y acc else acc) []

/-- the strict straddle test of `Spec.interiorPoint` -/
def sstr (y : Rat) (e : Pt × Pt) : Bool :=
  (decide (e.1.y < y) && decide (y < e.2.y)) || (decide (e.2.y < y) && decide (y < e.1.y))

/-- the intercepts at level `y`, strictly increasing -/
def xsOf (h : List Pt) (y : Rat) : List Rat :=
  (Spec.edges h true).foldl (fun acc e =>
    if sstr y e = true then Spec.insertSorted (Xat e.1 e.2 y) acc else acc) []

theorem interiorPoint_eq (h : List Pt) :
    Spec.interiorPoint h =
      match ysOf h with
      | y0 :: y1 :: _ =>
        (match xsOf h ((y0 + y1) / 2) with
         | x0 :: x1 :: _ => some ⟨(x0 + x1) / 2, (y0 + y1) / 2⟩
         | _ => none)
      | _ => none := rfl

theorem cyc_mem (L : List Pt) (hN : 0 < SeriesL.nptsL L) (k : Nat) : cyc L k ∈ L := by
  have hlt : k % SeriesL.nptsL L < L.length := lt_of_lt_of_le (Nat.mod_lt _ hN) (SeriesL.nptsL_le L)
  unfold cyc
  rw [getElem!_pos L _ hlt]
  exact List.getElem_mem hlt

theorem sstr_iff {a b : Pt} {y : Rat} (ha : a.y ≠ y) (hb : b.y ≠ y) :
    sstr y (a, b) = true ↔ straddle a b y = true := by
  unfold sstr
  rw [straddle_iff]
  simp only [Bool.or_eq_true, Bool.and_eq_true, decide_eq_true_eq]
  constructor
  · rintro (⟨h1, h2⟩ | ⟨h1, h2⟩)
    · exact Or.inl ⟨h1.le, h2⟩
    · exact Or.inr ⟨h1.le, h2⟩
  · rintro (⟨h1, h2⟩ | ⟨h1, h2⟩)
    · exact Or.inl ⟨lt_of_le_of_ne h1 ha, h2⟩
    · exact Or.inr ⟨lt_of_le_of_ne h1 hb, h2⟩


/-- `Spec.interiorPoint` returns a point strictly inside every simple ring -/
theorem interiorPoint_spec (h : List Pt) (hs : Spec.simpleRing h = true) :
    ∃ x, Spec.interiorPoint h = some x ∧ Spec.strictIn (Spec.edges h true) x = true := by
  obtain ⟨hlen, h3, hE, hS⟩ := ring_data h hs
  have hN : 0 < SeriesL.nptsL h := by omega
  -- the levels
  obtain ⟨ysS, ysM⟩ := fold_insert (fun _ : Pt => true) (fun p => p.y) h [] List.Pairwise.nil
  have ysM' : ∀ y, y ∈ ysOf h ↔ ∃ p ∈ h, p.y = y := by
    intro y
    refine (ysM y).trans ?_
    constructor
    · rintro (hh | ⟨e, he, -, hx⟩)
      · simp at hh
      · exact ⟨e, he, hx⟩
    · rintro ⟨e, he, hx⟩
      exact Or.inr ⟨e, he, rfl, hx⟩
  have hvert : ∀ i, (cyc h i).y ∈ ysOf h := fun i => (ysM' _).2 ⟨_, cyc_mem h hN i, rfl⟩
  have hnf := simple0_not_flat hS (cyc h 0).y
  rw [not_forall] at hnf
  obtain ⟨i1, hi1⟩ := hnf
  obtain ⟨y0, y1, r, hys, h01, hyall⟩ := two_of_sorted (ysOf h) ysS _ _ (hvert i1) (hvert 0) hi1
  have hy : ∀ i, (cyc h i).y ≠ (y0 + y1) / 2 := by
    intro i he
    rcases hyall _ (hvert i) with hh | hh <;> rw [he] at hh <;> linarith
  obtain ⟨p0, hp0, e0⟩ := (ysM' y0).1 (by rw [hys]; simp)
  obtain ⟨p1, hp1, e1⟩ := (ysM' y1).1 (by rw [hys]; simp)
  obtain ⟨a, rfl⟩ := mem_cyc h hlen p0 hp0
  obtain ⟨b, rfl⟩ := mem_cyc h hlen p1 hp1
  -- the intercepts
  obtain ⟨xsS, xsM⟩ := fold_insert (sstr ((y0 + y1) / 2)) (fun e => Xat e.1 e.2 ((y0 + y1) / 2))
    (Spec.edges h true) [] List.Pairwise.nil
  have xsM' : ∀ x, x ∈ xsOf h ((y0 + y1) / 2) ↔ ∃ i, i < SeriesL.nptsL h ∧
      straddle (cyc h i) (cyc h (i+1)) ((y0 + y1) / 2) = true ∧
      Xat (cyc h i) (cyc h (i+1)) ((y0 + y1) / 2) = x := by
    intro x
    have := xsM x
    simp only [List.not_mem_nil, false_or] at this
    refine this.trans ?_
    rw [hE]
    constructor
    · rintro ⟨e, he, hc, hx⟩
      obtain ⟨i, hi, rfl⟩ := List.mem_map.1 he
      exact ⟨i, List.mem_range.1 hi, (sstr_iff (hy i) (hy (i+1))).1 hc, hx⟩
    · rintro ⟨i, hi, hc, hx⟩
      exact ⟨_, List.mem_map.2 ⟨i, List.mem_range.2 hi, rfl⟩, (sstr_iff (hy i) (hy (i+1))).2 hc, hx⟩
  obtain ⟨x0, x1, r', hxs, hoff, hpar⟩ := core hS hy (a := a) (b := b) (by rw [e0]; linarith)
    (by rw [e1]; linarith) (xsOf h ((y0 + y1) / 2)) xsS xsM'
  rw [← hE] at hoff hpar
  refine ⟨⟨(x0 + x1) / 2, (y0 + y1) / 2⟩, ?_, ?_⟩
  · rw [interiorPoint_eq, hys]
    simp only
    rw [hxs]
  · have hb := (off_iff _ _).1 hoff
    rw [parity_left_eq_right h _ hb] at hpar
    unfold Spec.strictIn
    rw [hb, hpar]
    rfl

end CS
end Geo
