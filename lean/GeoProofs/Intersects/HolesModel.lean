/-
  GeoProofs.Intersects.HolesModel — `Geom.intersects` against "share a point" for valid shapes,
  polygons WITH holes, under the hypothesis `ConvexOK` on every hole ring (the convex flag of a
  hole is only raised when its strict interior is convex; `Strict.lean`).
-/
import GeoProofs.Intersects.Holes

namespace Geo
namespace IX
open GL Jordan

/-- the un-indexed ring of the model for a vertex list -/
def ringOfL (h : List Pt) : Ring := .ser (mkSeries h.toArray true .none 0)

/-! ### specification level: exterior test plus "no hole swallows the other shape" -/

/-- a curve with a point in the exterior region that no hole swallows has a point in the
    polygon -/
theorem curve_member {C : List Pt} {H : List (List Pt)} (hf : PolyFacts C H) (pts : List Pt)
    (closed : Bool) (y : Pt) (hy : Spec.onBoundary (Spec.edges pts closed) y = true)
    (hin : Spec.inRing (Spec.edges C true) y = true)
    (hnosw : ∀ h ∈ H, ¬ ∀ x, Spec.onBoundary (Spec.edges pts closed) x = true →
      Spec.strictIn (Spec.edges h true) x = true) :
    ∃ z, Spec.onBoundary (Spec.edges pts closed) z = true ∧ pmem C H z = true := by
  by_cases hall : ∀ h ∈ H, Spec.strictIn (Spec.edges h true) y = false
  · exact ⟨y, hy, (pmem_iff C H y).2 ⟨hin, hall⟩⟩
  · simp only [not_forall] at hall
    obtain ⟨h, hh, hs⟩ := hall
    have hs' : Spec.strictIn (Spec.edges h true) y = true := by simpa using hs
    have := hnosw h hh
    simp only [not_forall] at this
    obtain ⟨u, hu, hus⟩ := this
    have hus' : Spec.strictIn (Spec.edges h true) u = false := by simpa using hus
    obtain ⟨z, hz1, hz2⟩ := exists_boundary_hit h pts closed y u hy hu hs' hus'
    exact ⟨z, hz1, hf.mem_hole h hh z hz2⟩

theorem line_holes_iff {C : List Pt} {H : List (List Pt)} (hf : PolyFacts C H) (pts : List Pt)
    (closed : Bool) :
    ((∃ x, Spec.inRing (Spec.edges C true) x = true ∧ Spec.onBoundary (Spec.edges pts closed) x = true) ∧
      ∀ h ∈ H, ¬ ∀ x, Spec.onBoundary (Spec.edges pts closed) x = true →
        Spec.strictIn (Spec.edges h true) x = true) ↔
    ∃ x, Spec.onBoundary (Spec.edges pts closed) x = true ∧ pmem C H x = true := by
  constructor
  · rintro ⟨⟨y, hin, hy⟩, hnosw⟩
    exact curve_member hf pts closed y hy hin hnosw
  · rintro ⟨x, hx, hm⟩
    rw [pmem_iff] at hm
    refine ⟨⟨x, hm.1, hx⟩, ?_⟩
    intro h hh hall
    have := hm.2 h hh
    rw [hall x hx] at this
    cases this

theorem regions_holes_iff {CA CB : List Pt} {HA HB : List (List Pt)} (hfA : PolyFacts CA HA)
    (hfB : PolyFacts CB HB) :
    ((∃ x, Spec.inRing (Spec.edges CB true) x = true ∧ Spec.inRing (Spec.edges CA true) x = true) ∧
      (∀ h ∈ HA, ¬ ∀ x, Spec.onBoundary (Spec.edges CB true) x = true →
        Spec.strictIn (Spec.edges h true) x = true) ∧
      (∀ h ∈ HB, ¬ ∀ x, Spec.onBoundary (Spec.edges CA true) x = true →
        Spec.strictIn (Spec.edges h true) x = true)) ↔
    ∃ x, pmem CA HA x = true ∧ pmem CB HB x = true := by
  constructor
  · rintro ⟨⟨x, hxB, hxA⟩, hswA, hswB⟩
    rcases (regions_meet_iff _ _).1 ⟨x, hxA, hxB⟩ with ⟨v, h1, h2⟩ | ⟨v, h1, h2⟩
    · obtain ⟨z, hz1, hz2⟩ := curve_member hfB CA true v h1 h2 hswB
      exact ⟨z, hfA.mem_ext z hz1, hz2⟩
    · obtain ⟨z, hz1, hz2⟩ := curve_member hfA CB true v h1 h2 hswA
      exact ⟨z, hz2, hfB.mem_ext z hz1⟩
  · rintro ⟨x, hA, hB⟩
    rw [pmem_iff] at hA hB
    refine ⟨⟨x, hB.1, hA.1⟩, ?_, ?_⟩
    · intro h hh hall
      have := region_inside_of_boundary_inside (ringSpec_ext CB) (ringSpec_ext h)
        (ser_nonempty CB hfB.cne) (ser_nonempty h (hfA.hne h hh)) hall x hB.1
      rw [hA.2 h hh] at this
      cases this
    · intro h hh hall
      have := region_inside_of_boundary_inside (ringSpec_ext CA) (ringSpec_ext h)
        (ser_nonempty CA hfA.cne) (ser_nonempty h (hfB.hne h hh)) hall x hA.1
      rw [hB.2 h hh] at this
      cases this

/-! ### model level -/

theorem any_map_ring (H : List (List Pt)) (f : Ring → Bool) :
    (H.map ringOfL).any f = H.any (fun h => f (ringOfL h)) := by
  rw [List.any_map]; rfl

/-- the "hole swallows the other shape" test -/
theorem swallow_iff {h : List Pt} (hh : 3 ≤ h.length) (hcv : ConvexOK (ringOfL h) h)
    {o : Ring} {EO : List (Pt × Pt)} (ho : OtherSpec o EO) (hoe : o.empty = false) :
    ringContainsRing (ringOfL h) o false = true ↔
      ∀ x, Spec.onBoundary EO x = true → Spec.strictIn (Spec.edges h true) x = true := by
  have := ringContainsRing_strict_iff (ringSpec_ext h) (strictSpec_mk h.toArray 0) hcv
    (o := o) (EO := EO) (fun _ => ho)
  unfold ringOfL
  rw [this]
  constructor
  · exact fun hh => hh.2.2
  · exact fun hh' => ⟨ser_nonempty h hh, hoe, hh'⟩

theorem not_any_iff {α : Type} (l : List α) (f : α → Bool) :
    (!(l.any f)) = true ↔ ∀ a ∈ l, ¬ f a = true := by
  rw [Bool.not_eq_true', List.any_eq_false]

theorem lineSer_nonempty (pts : List Pt) (h : 2 ≤ pts.length) :
    (mkSeries pts.toArray false .none 0).empty = false := by
  unfold Series.empty
  simp
  omega

theorem polyLine_iff {C : List Pt} {H : List (List Pt)} (hf : PolyFacts C H)
    (hcv : ∀ h ∈ H, ConvexOK (ringOfL h) h) (pts : List Pt) (hl : 2 ≤ pts.length) :
    Poly.intersectsLine ⟨some (ringOfL C), H.map ringOfL⟩ (mkSeries pts.toArray false .none 0) = true ↔
      ∃ x, Spec.onBoundary (Spec.edges pts false) x = true ∧ pmem C H x = true := by
  rw [← line_holes_iff hf pts false]
  unfold Poly.intersectsLine
  simp only
  have e1 := ringLine_iff (ringSpec_ext C) pts
  have ho : OtherSpec (.ser (mkSeries pts.toArray false .none 0)) (Spec.edges pts false) :=
    otherSpec_ser (mkSeries pts.toArray false .none 0) rfl (lineSer_nonempty pts hl)
  by_cases h1 : ringIntersectsLine (ringOfL C) (mkSeries pts.toArray false .none 0) true = true
  · rw [if_neg (by simp [h1]), any_map_ring, not_any_iff]
    have h1' := e1.1 h1
    constructor
    · intro hno
      refine ⟨h1', ?_⟩
      intro h hh hall
      exact hno h hh ((swallow_iff (hf.hne h hh) (hcv h hh) ho (lineSer_nonempty pts hl)).2 hall)
    · rintro ⟨-, hno⟩ h hh hsw
      exact hno h hh ((swallow_iff (hf.hne h hh) (hcv h hh) ho (lineSer_nonempty pts hl)).1 hsw)
  · rw [if_pos (by simp [h1])]
    refine iff_of_false (by simp) ?_
    rintro ⟨hex, -⟩
    exact h1 (e1.2 hex)

theorem polyRegion_iff {CA CB : List Pt} {HA HB : List (List Pt)} (hfA : PolyFacts CA HA)
    (hfB : PolyFacts CB HB) (hcvA : ∀ h ∈ HA, ConvexOK (ringOfL h) h)
    (hcvB : ∀ h ∈ HB, ConvexOK (ringOfL h) h) (rB : Ring) (hrB : RingSpec rB CB)
    (hoB : OtherSpec rB (Spec.edges CB true)) (hBne : rB.empty = false) :
    Poly.intersectsPoly ⟨some (ringOfL CA), HA.map ringOfL⟩ ⟨some rB, HB.map ringOfL⟩ = true ↔
      ∃ x, pmem CA HA x = true ∧ pmem CB HB x = true := by
  rw [← regions_holes_iff hfA hfB]
  unfold Poly.intersectsPoly
  simp only
  have e1 := ringIntersectsRing_exact_of_spec hrB (ringSpec_ext CA)
  have hoA : OtherSpec (ringOfL CA) (Spec.edges CA true) :=
    otherSpec_ser (mkSeries CA.toArray true .none 0) rfl (ser_nonempty CA hfA.cne)
  by_cases h1 : ringIntersectsRing rB (ringOfL CA) true = true
  swap
  · rw [if_pos (by simp [h1])]
    refine iff_of_false (by simp) ?_
    rintro ⟨hex, -⟩
    exact h1 (e1.2 hex)
  rw [if_neg (by simp [h1])]
  have h1' := e1.1 h1
  by_cases h2 : (HA.map ringOfL).any (fun h => ringContainsRing h rB false) = true
  · rw [if_pos h2]
    refine iff_of_false (by simp) ?_
    rintro ⟨-, hno, -⟩
    rw [any_map_ring, List.any_eq_true] at h2
    obtain ⟨h, hh, hsw⟩ := h2
    exact hno h hh ((swallow_iff (hfA.hne h hh) (hcvA h hh) hoB hBne).1 hsw)
  rw [if_neg h2]
  by_cases h3 : (HB.map ringOfL).any (fun h => ringContainsRing h (ringOfL CA) false) = true
  · rw [if_pos h3]
    refine iff_of_false (by simp) ?_
    rintro ⟨-, -, hno⟩
    rw [any_map_ring, List.any_eq_true] at h3
    obtain ⟨h, hh, hsw⟩ := h3
    exact hno h hh ((swallow_iff (hfB.hne h hh) (hcvB h hh) hoA (ser_nonempty CA hfA.cne)).1 hsw)
  rw [if_neg h3]
  refine iff_of_true rfl ⟨h1', ?_, ?_⟩
  · intro h hh hall
    apply h2
    rw [any_map_ring, List.any_eq_true]
    exact ⟨h, hh, (swallow_iff (hfA.hne h hh) (hcvA h hh) hoB hBne).2 hall⟩
  · intro h hh hall
    apply h3
    rw [any_map_ring, List.any_eq_true]
    exact ⟨h, hh, (swallow_iff (hfB.hne h hh) (hcvB h hh) hoA (ser_nonempty CA hfA.cne)).2 hall⟩

/-! ### the 4 × 4 matrix -/

/-- every hole ring of the shape satisfies `ConvexOK` -/
def HolesConvexOK (S : Spec.Shape) : Prop := ∀ h ∈ S.holes, ConvexOK (ringOfL h) h

theorem build_poly (ext : List Pt) (hs : List (List Pt)) :
    build (.poly ext hs) = .poly ⟨some (ringOfL ext), hs.map ringOfL⟩ := rfl

theorem rectFacts (lo hi : Pt) : PolyFacts (Spec.rectPts lo hi) [] where
  cne := by simp [Spec.rectPts]
  hne := by intro h hh; simp at hh
  hin := by intro h hh; simp at hh
  hdis := by intro h hh; simp at hh
  hext := by intro h hh; simp at hh

theorem point_poly (a : Pt) (ext : List Pt) (hs : List (List Pt)) :
    (build (.point a)).intersects (build (.poly ext hs)) = (Spec.Shape.poly ext hs).member a ∧
    (build (.poly ext hs)).intersects (build (.point a)) = (Spec.Shape.poly ext hs).member a := by
  have := polyContainsPoint_iff ext.toArray .none 0 (hs.map (fun h => (h.toArray, IndexKind.none, 0)))
    (series_search_exact_kind_none _ _ _)
    (fun h hh => by
      obtain ⟨h0, -, rfl⟩ := List.mem_map.1 hh
      exact series_search_exact_kind_none _ _ _) a
  simp only [List.map_map, Function.comp_def, List.map_id'] at this
  exact ⟨this, this⟩

theorem poly_rect_iff (ext : List Pt) (hs : List (List Pt)) (lo hi : Pt)
    (hv : (Spec.Shape.poly ext hs).valid = true) (hr : (Spec.Shape.rect lo hi).valid = true)
    (hcv : HolesConvexOK (.poly ext hs)) :
    Poly.intersectsPoly ⟨some (ringOfL ext), hs.map ringOfL⟩ (Box.asPoly ⟨lo, hi⟩) = true ↔
      ∃ x, (Spec.Shape.poly ext hs).member x = true ∧ (Spec.Shape.rect lo hi).member x = true := by
  have hb := hr
  simp only [Spec.Shape.valid, Bool.and_eq_true, decide_eq_true_eq] at hb
  have := polyRegion_iff (polyFacts_of_valid ext hs hv) (rectFacts lo hi) hcv
    (fun h hh => by simp at hh) (.bx ⟨lo, hi⟩) (ringSpec_rect lo hi hr) (otherSpec_bx ⟨lo, hi⟩ hb) rfl
  rw [show Box.asPoly ⟨lo, hi⟩ = ⟨some (.bx ⟨lo, hi⟩), ([] : List (List Pt)).map ringOfL⟩ from rfl, this]
  have hm : ∀ x, pmem (Spec.rectPts lo hi) [] x = (Spec.Shape.rect lo hi).member x := by
    intro x; rw [rect_member lo hi hr]; simp [pmem]
  simp only [hm]
  rfl

theorem intersects_iff_holes (A B : Spec.Shape) (hA : A.valid = true) (hB : B.valid = true)
    (hcA : HolesConvexOK A) (hcB : HolesConvexOK B) :
    (build A).intersects (build B) = true ↔ ∃ x, A.member x = true ∧ B.member x = true := by
  cases A with
  | point a =>
    cases B with
    | poly ext hs => rw [(point_poly a ext hs).1, point_common]
    | point b => exact intersects_iff _ _ hA hB trivial trivial
    | rect lo hi => exact intersects_iff _ _ hA hB trivial trivial
    | line pts => exact intersects_iff _ _ hA hB trivial trivial
  | rect lo hi =>
    cases B with
    | poly ext hs =>
      have e : (build (.rect lo hi)).intersects (build (.poly ext hs)) =
          Poly.intersectsPoly ⟨some (ringOfL ext), hs.map ringOfL⟩ (Box.asPoly ⟨lo, hi⟩) := rfl
      rw [e, poly_rect_iff ext hs lo hi hB hA hcB, exists_comm']
    | point b => exact intersects_iff _ _ hA hB trivial trivial
    | rect lo' hi' => exact intersects_iff _ _ hA hB trivial trivial
    | line pts => exact intersects_iff _ _ hA hB trivial trivial
  | line pts =>
    cases B with
    | poly ext hs =>
      have hl : 2 ≤ pts.length := by
        simp only [Spec.Shape.valid, Spec.validLine, Bool.and_eq_true, decide_eq_true_eq] at hA
        exact hA.1
      have e : (build (.line pts)).intersects (build (.poly ext hs)) =
          Poly.intersectsLine ⟨some (ringOfL ext), hs.map ringOfL⟩ (mkSeries pts.toArray false .none 0) := rfl
      rw [e, polyLine_iff (polyFacts_of_valid ext hs hB) hcB pts hl]
      rfl
    | point b => exact intersects_iff _ _ hA hB trivial trivial
    | rect lo' hi' => exact intersects_iff _ _ hA hB trivial trivial
    | line qts => exact intersects_iff _ _ hA hB trivial trivial
  | poly ext hs =>
    cases B with
    | point b => rw [(point_poly b ext hs).2, exists_comm', point_common]
    | rect lo hi =>
      have e : (build (.poly ext hs)).intersects (build (.rect lo hi)) =
          Poly.intersectsPoly ⟨some (ringOfL ext), hs.map ringOfL⟩ (Box.asPoly ⟨lo, hi⟩) := rfl
      rw [e, poly_rect_iff ext hs lo hi hA hB hcA]
    | line pts =>
      have hl : 2 ≤ pts.length := by
        simp only [Spec.Shape.valid, Spec.validLine, Bool.and_eq_true, decide_eq_true_eq] at hB
        exact hB.1
      have e : (build (.poly ext hs)).intersects (build (.line pts)) =
          Poly.intersectsLine ⟨some (ringOfL ext), hs.map ringOfL⟩ (mkSeries pts.toArray false .none 0) := rfl
      rw [e, polyLine_iff (polyFacts_of_valid ext hs hA) hcA pts hl, exists_comm']
      rfl
    | poly ext' hs' =>
      have hfB := polyFacts_of_valid ext' hs' hB
      have e : (build (.poly ext hs)).intersects (build (.poly ext' hs')) =
          Poly.intersectsPoly ⟨some (ringOfL ext), hs.map ringOfL⟩
            ⟨some (ringOfL ext'), hs'.map ringOfL⟩ := rfl
      rw [e, polyRegion_iff (polyFacts_of_valid ext hs hA) hfB hcA hcB (ringOfL ext') (ringSpec_ext ext')
        (otherSpec_ser (mkSeries ext'.toArray true .none 0) rfl (ser_nonempty ext' hfB.cne))
        (ser_nonempty ext' hfB.cne)]
      rfl

/-! ### `ConvexOK` holds for rectangular holes (non-vacuity of the hypothesis) -/

theorem strictIn_rect_iff (b : Box) (hb : b.min.x ≤ b.max.x ∧ b.min.y ≤ b.max.y) (p : Pt) :
    Spec.strictIn (Spec.edges (Spec.rectPts b.min b.max) true) p = true ↔
      b.min.x < p.x ∧ p.x < b.max.x ∧ b.min.y < p.y ∧ p.y < b.max.y := by
  have hedge : ∀ e ∈ Spec.edges (Spec.rectPts b.min b.max) true, OnSeg e.1 e.2 p →
      p.x = b.min.x ∨ p.x = b.max.x ∨ p.y = b.min.y ∨ p.y = b.max.y := by
    intro e he hon
    rw [rect_edges] at he
    simp only [List.mem_cons, List.not_mem_nil, or_false] at he
    obtain ⟨-, h1, h2, h3, h4⟩ := hon
    rcases he with rfl | rfl | rfl | rfl <;> simp only [min_self, max_self] at h1 h2 h3 h4
    · right; right; left; exact le_antisymm h4 h3
    · right; left; exact le_antisymm h2 h1
    · right; right; right; exact le_antisymm h4 h3
    · left; exact le_antisymm h2 h1
  constructor
  · intro hs
    have hoff := strictIn_off hs
    have hin := strictIn_inRing hs
    rw [inRing_rect b hb, containsPt_iff] at hin
    obtain ⟨x1, x2, y1, y2⟩ := hin
    have onb : ∀ e ∈ Spec.edges (Spec.rectPts b.min b.max) true, ¬ OnSeg e.1 e.2 p := by
      intro e he hon
      rw [onBoundary_of_onSeg he hon] at hoff
      cases hoff
    refine ⟨lt_of_le_of_ne x1 ?_, lt_of_le_of_ne x2 ?_, lt_of_le_of_ne y1 ?_, lt_of_le_of_ne y2 ?_⟩
    · intro h
      refine onb (⟨b.min.x, b.max.y⟩, b.min) (by rw [rect_edges]; simp) (onSeg_vert rfl h.symm ?_ ?_)
      · exact le_trans (min_le_right _ _) y1
      · exact le_trans y2 (le_max_left _ _)
    · intro h
      refine onb (⟨b.max.x, b.min.y⟩, b.max) (by rw [rect_edges]; simp) (onSeg_vert rfl h ?_ ?_)
      · exact le_trans (min_le_left _ _) y1
      · exact le_trans y2 (le_max_right _ _)
    · intro h
      refine onb (b.min, ⟨b.max.x, b.min.y⟩) (by rw [rect_edges]; simp) (onSeg_horiz rfl h.symm ?_ ?_)
      · exact le_trans (min_le_left _ _) x1
      · exact le_trans x2 (le_max_right _ _)
    · intro h
      refine onb (b.max, ⟨b.min.x, b.max.y⟩) (by rw [rect_edges]; simp) (onSeg_horiz rfl h ?_ ?_)
      · exact le_trans (min_le_right _ _) x1
      · exact le_trans x2 (le_max_left _ _)
  · rintro ⟨x1, x2, y1, y2⟩
    have hin : Spec.inRing (Spec.edges (Spec.rectPts b.min b.max) true) p = true := by
      rw [inRing_rect b hb, containsPt_iff]
      exact ⟨x1.le, x2.le, y1.le, y2.le⟩
    have hoff : Spec.onBoundary (Spec.edges (Spec.rectPts b.min b.max) true) p = false := by
      cases hc : Spec.onBoundary (Spec.edges (Spec.rectPts b.min b.max) true) p with
      | false => rfl
      | true =>
        obtain ⟨e, he, hon⟩ := (Geo.onBoundary_iff _ _).1 hc
        rcases hedge e he hon with h | h | h | h <;> linarith
    unfold Spec.inRing at hin
    unfold Spec.strictIn
    rw [hoff] at hin ⊢
    simpa using hin

/-- a rectangular hole (any index / encoding of the four corners `rectPts`) satisfies `ConvexOK` -/
theorem convexOK_rect (r : Ring) (lo hi : Pt) (hb : lo.x ≤ hi.x ∧ lo.y ≤ hi.y) :
    ConvexOK r (Spec.rectPts lo hi) := by
  intro _ p q hp hq x hx
  have e := strictIn_rect_iff ⟨lo, hi⟩ hb
  simp only at e
  rw [e] at hp hq ⊢
  obtain ⟨-, h1, h2, h3, h4⟩ := hx
  obtain ⟨p1, p2, p3, p4⟩ := hp
  obtain ⟨q1, q2, q3, q4⟩ := hq
  exact ⟨lt_of_lt_of_le (lt_min p1 q1) h1, lt_of_le_of_lt h2 (max_lt p2 q2),
    lt_of_lt_of_le (lt_min p3 q3) h3, lt_of_le_of_lt h4 (max_lt p4 q4)⟩

end IX
end Geo
