package main

func objOp(toks []string, line string) (string, bool) { return "", false }

func genObj(suite string, o *out, r *rng, thorough bool) bool { return false }
