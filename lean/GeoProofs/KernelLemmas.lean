/-
  GeoProofs.KernelLemmas — helper lemmas for property C19 (segment kernel).

  The Prop-level specification predicates are defined here in namespace `Geo.K`
  (`K.OnSeg`, `K.Cross`, `K.SegsMeet`); `GeoProofs/Props/C19.lean` defines the official
  `Geo.OnSeg`, `Geo.Cross`, `Geo.SegsMeet` with literally the same bodies, so the lemmas
  proved here transfer by definitional unfolding.
-/
import GeoModel.Kernel
import GeoModel.Spec
import Mathlib.Algebra.Order.Field.Rat
import Mathlib.Algebra.Order.Field.Basic
import Mathlib.Tactic.Linarith
import Mathlib.Tactic.Ring
import Mathlib.Tactic.FieldSimp
import Mathlib.Tactic.SplitIfs
import Mathlib.Tactic.LinearCombination
import Mathlib.Tactic.Positivity
import Mathlib.Tactic.ByContra
import Mathlib.Tactic.Push

namespace Geo
namespace K

def OnSeg (a b p : Pt) : Prop :=
  Spec.cross a b p = 0 ∧ min a.x b.x ≤ p.x ∧ p.x ≤ max a.x b.x ∧ min a.y b.y ≤ p.y ∧ p.y ≤ max a.y b.y

def Cross (a b p : Pt) : Prop :=
  ((a.y ≤ p.y) ≠ (b.y ≤ p.y)) ∧ (if a.y < b.y then 0 < Spec.cross a b p else 0 < Spec.cross b a p)

def SegsMeet (a b c d : Pt) : Prop := ∃ p : Pt, OnSeg a b p ∧ OnSeg c d p

/-! ### generic facts -/

theorem pt_eq_iff (p q : Pt) : p = q ↔ p.x = q.x ∧ p.y = q.y := by
  cases p; cases q; simp

theorem prop_ne_iff (A B : Prop) : (A ≠ B) ↔ ((A ∧ ¬B) ∨ (¬A ∧ B)) := by
  by_cases hA : A <;> by_cases hB : B <;> simp [hA, hB]

theorem cross_def (a b p : Pt) :
    Spec.cross a b p = (b.x - a.x) * (p.y - a.y) - (b.y - a.y) * (p.x - a.x) := rfl

theorem cross_swap (a b p : Pt) : Spec.cross b a p = - Spec.cross a b p := by
  simp only [cross_def]; ring

/-- the convex combination `a + t (b - a)`, `0 ≤ t ≤ 1`, lies between `a` and `b` -/
theorem between_of_param (a b t : Rat) (h0 : 0 ≤ t) (h1 : t ≤ 1) :
    min a b ≤ a + t * (b - a) ∧ a + t * (b - a) ≤ max a b := by
  rcases le_total a b with h | h
  · rw [min_eq_left h, max_eq_right h]
    constructor <;> nlinarith [mul_nonneg h0 (sub_nonneg.2 h), mul_nonneg (sub_nonneg.2 h1) (sub_nonneg.2 h)]
  · rw [min_eq_right h, max_eq_left h]
    constructor <;> nlinarith [mul_nonneg h0 (sub_nonneg.2 h), mul_nonneg (sub_nonneg.2 h1) (sub_nonneg.2 h)]

/-! ### OnSeg -/

theorem onSeg_of_param {a b p : Pt} {t : Rat} (h0 : 0 ≤ t) (h1 : t ≤ 1)
    (hx : p.x = a.x + t * (b.x - a.x)) (hy : p.y = a.y + t * (b.y - a.y)) : OnSeg a b p := by
  refine ⟨?_, ?_, ?_, ?_, ?_⟩
  · rw [cross_def, hx, hy]; ring
  · rw [hx]; exact (between_of_param _ _ t h0 h1).1
  · rw [hx]; exact (between_of_param _ _ t h0 h1).2
  · rw [hy]; exact (between_of_param _ _ t h0 h1).1
  · rw [hy]; exact (between_of_param _ _ t h0 h1).2

theorem onSeg_left (a b : Pt) : OnSeg a b a :=
  onSeg_of_param (t := 0) (le_refl _) (by norm_num) (by ring) (by ring)

theorem onSeg_right (a b : Pt) : OnSeg a b b :=
  onSeg_of_param (t := 1) (by norm_num) (le_refl _) (by ring) (by ring)

theorem onSeg_symm (a b p : Pt) : OnSeg a b p ↔ OnSeg b a p := by
  unfold OnSeg
  rw [cross_swap a b p, min_comm b.x a.x, max_comm b.x a.x, min_comm b.y a.y, max_comm b.y a.y, neg_eq_zero]

/-- collinear, `y` within the closed `y`-range of a non-horizontal segment: on the segment -/
theorem onSeg_of_cross_yrange {a b p : Pt} (hne : a.y ≠ b.y) (hc : Spec.cross a b p = 0)
    (hlo : min a.y b.y ≤ p.y) (hhi : p.y ≤ max a.y b.y) : OnSeg a b p := by
  have hd : b.y - a.y ≠ 0 := sub_ne_zero.2 (Ne.symm hne)
  rw [cross_def] at hc
  have ht : 0 ≤ (p.y - a.y) / (b.y - a.y) ∧ (p.y - a.y) / (b.y - a.y) ≤ 1 := by
    rcases lt_or_gt_of_ne hne with h | h
    · rw [min_eq_left h.le] at hlo; rw [max_eq_right h.le] at hhi
      have hpos : 0 < b.y - a.y := sub_pos.2 h
      exact ⟨div_nonneg (by linarith) hpos.le, (div_le_one hpos).2 (by linarith)⟩
    · rw [min_eq_right h.le] at hlo; rw [max_eq_left h.le] at hhi
      have hneg : b.y - a.y < 0 := sub_neg.2 h
      exact ⟨div_nonneg_of_nonpos (by linarith) hneg.le, (div_le_one_of_neg hneg).2 (by linarith)⟩
  refine onSeg_of_param ht.1 ht.2 ?_ ?_
  · field_simp
    linear_combination -hc
  · field_simp
    ring

/-- collinear, `x` within the closed `x`-range of a non-vertical segment: on the segment -/
theorem onSeg_of_cross_xrange {a b p : Pt} (hne : a.x ≠ b.x) (hc : Spec.cross a b p = 0)
    (hlo : min a.x b.x ≤ p.x) (hhi : p.x ≤ max a.x b.x) : OnSeg a b p := by
  have hd : b.x - a.x ≠ 0 := sub_ne_zero.2 (Ne.symm hne)
  rw [cross_def] at hc
  have ht : 0 ≤ (p.x - a.x) / (b.x - a.x) ∧ (p.x - a.x) / (b.x - a.x) ≤ 1 := by
    rcases lt_or_gt_of_ne hne with h | h
    · rw [min_eq_left h.le] at hlo; rw [max_eq_right h.le] at hhi
      have hpos : 0 < b.x - a.x := sub_pos.2 h
      exact ⟨div_nonneg (by linarith) hpos.le, (div_le_one hpos).2 (by linarith)⟩
    · rw [min_eq_right h.le] at hlo; rw [max_eq_left h.le] at hhi
      have hneg : b.x - a.x < 0 := sub_neg.2 h
      exact ⟨div_nonneg_of_nonpos (by linarith) hneg.le, (div_le_one_of_neg hneg).2 (by linarith)⟩
  refine onSeg_of_param ht.1 ht.2 ?_ ?_
  · field_simp
    ring
  · field_simp
    linear_combination hc

theorem onSeg_degenerate {a p : Pt} : OnSeg a a p ↔ p = a := by
  constructor
  · rintro ⟨-, h1, h2, h3, h4⟩
    rw [min_self] at h1 h3; rw [max_self] at h2 h4
    exact (pt_eq_iff _ _).2 ⟨le_antisymm h2 h1, le_antisymm h4 h3⟩
  · rintro rfl; exact onSeg_left _ _

theorem onSeg_iff_param (a b p : Pt) :
    OnSeg a b p ↔ ∃ t : Rat, 0 ≤ t ∧ t ≤ 1 ∧ p.x = a.x + t * (b.x - a.x) ∧ p.y = a.y + t * (b.y - a.y) := by
  constructor
  · intro h
    by_cases hy : a.y = b.y
    · by_cases hx : a.x = b.x
      · have hab : b = a := (pt_eq_iff _ _).2 ⟨hx.symm, hy.symm⟩
        rw [hab] at h ⊢
        rw [onSeg_degenerate.1 h]
        exact ⟨0, le_refl _, by norm_num, by ring, by ring⟩
      · obtain ⟨hc, h1, h2, h3, h4⟩ := h
        have hd : b.x - a.x ≠ 0 := sub_ne_zero.2 (Ne.symm hx)
        rw [cross_def] at hc
        refine ⟨(p.x - a.x) / (b.x - a.x), ?_, ?_, ?_, ?_⟩
        · rcases lt_or_gt_of_ne hx with h | h
          · rw [min_eq_left h.le] at h1
            exact div_nonneg (by linarith) (by linarith)
          · rw [max_eq_left h.le] at h2
            exact div_nonneg_of_nonpos (by linarith) (by linarith)
        · rcases lt_or_gt_of_ne hx with h | h
          · rw [max_eq_right h.le] at h2
            exact (div_le_one (by linarith)).2 (by linarith)
          · rw [min_eq_right h.le] at h1
            exact (div_le_one_of_neg (by linarith)).2 (by linarith)
        · field_simp; ring
        · field_simp; linear_combination hc
    · obtain ⟨hc, h1, h2, h3, h4⟩ := h
      have hd : b.y - a.y ≠ 0 := sub_ne_zero.2 (Ne.symm hy)
      rw [cross_def] at hc
      refine ⟨(p.y - a.y) / (b.y - a.y), ?_, ?_, ?_, ?_⟩
      · rcases lt_or_gt_of_ne hy with h | h
        · rw [min_eq_left h.le] at h3
          exact div_nonneg (by linarith) (by linarith)
        · rw [max_eq_left h.le] at h4
          exact div_nonneg_of_nonpos (by linarith) (by linarith)
      · rcases lt_or_gt_of_ne hy with h | h
        · rw [max_eq_right h.le] at h4
          exact (div_le_one (by linarith)).2 (by linarith)
        · rw [min_eq_right h.le] at h3
          exact (div_le_one_of_neg (by linarith)).2 (by linarith)
      · field_simp; linear_combination -hc
      · field_simp; ring
  · rintro ⟨t, h0, h1, hx, hy⟩
    exact onSeg_of_param h0 h1 hx hy

/-! ### Cross -/

theorem cross_iff_up {a b p : Pt} (h : a.y < b.y) :
    Cross a b p ↔ a.y ≤ p.y ∧ p.y < b.y ∧ 0 < Spec.cross a b p := by
  unfold Cross
  rw [prop_ne_iff, if_pos h]
  constructor
  · rintro ⟨(⟨h1, h2⟩ | ⟨h1, h2⟩), h3⟩
    · exact ⟨h1, not_le.1 h2, h3⟩
    · exact absurd (le_trans h.le h2) h1
  · rintro ⟨h1, h2, h3⟩
    exact ⟨Or.inl ⟨h1, not_le.2 h2⟩, h3⟩

theorem cross_iff_down {a b p : Pt} (h : b.y < a.y) :
    Cross a b p ↔ b.y ≤ p.y ∧ p.y < a.y ∧ 0 < Spec.cross b a p := by
  unfold Cross
  rw [prop_ne_iff, if_neg (not_lt.2 h.le)]
  constructor
  · rintro ⟨(⟨h1, h2⟩ | ⟨h1, h2⟩), h3⟩
    · exact absurd (le_trans h.le h1) h2
    · exact ⟨h2, not_le.1 h1, h3⟩
  · rintro ⟨h1, h2, h3⟩
    exact ⟨Or.inr ⟨not_le.2 h2, h1⟩, h3⟩

theorem not_cross_horiz {a b p : Pt} (h : a.y = b.y) : ¬ Cross a b p := by
  unfold Cross
  rw [h]
  rintro ⟨h1, -⟩
  exact h1 rfl

theorem cross_symm (a b p : Pt) : Cross a b p ↔ Cross b a p := by
  rcases lt_trichotomy a.y b.y with h | h | h
  · rw [cross_iff_up h, cross_iff_down h]
  · exact iff_of_false (not_cross_horiz h) (not_cross_horiz h.symm)
  · rw [cross_iff_down h, cross_iff_up h]

/-! ### the IEEE shims -/

theorem fdiv_ne {n d : Rat} (h : d ≠ 0) : fdiv n d = .fin (n / d) := by
  simp [fdiv, h]

theorem fdiv_zero_not_fin (n : Rat) : ∀ q, fdiv n 0 ≠ .fin q := by
  intro q
  unfold fdiv
  split_ifs <;> simp_all

theorem feq_fdiv_ne {n1 d1 n2 d2 : Rat} (h1 : d1 ≠ 0) (h2 : d2 ≠ 0) :
    (fdiv n1 d1).feq (fdiv n2 d2) = true ↔ n1 * d2 = n2 * d1 := by
  rw [fdiv_ne h1, fdiv_ne h2]
  simp only [FQ.feq, decide_eq_true_eq]
  exact div_eq_div_iff h1 h2

theorem feq_fdiv_zero_right {n1 d1 n2 : Rat} (h1 : d1 ≠ 0) :
    (fdiv n1 d1).feq (fdiv n2 0) = false := by
  rw [fdiv_ne h1]
  unfold fdiv
  split_ifs <;> simp_all [FQ.feq]

theorem feq_fdiv_zero_left {n1 n2 d2 : Rat} (h2 : d2 ≠ 0) :
    (fdiv n1 0).feq (fdiv n2 d2) = false := by
  rw [fdiv_ne h2]
  unfold fdiv
  split_ifs <;> simp_all [FQ.feq]

theorem fge_fdiv_ne {n1 d1 n2 d2 : Rat} (h1 : d1 ≠ 0) (h2 : d2 ≠ 0) :
    (fdiv n1 d1).fge (fdiv n2 d2) = true ↔ n2 / d2 ≤ n1 / d1 := by
  rw [fdiv_ne h1, fdiv_ne h2]
  simp only [FQ.fge, decide_eq_true_eq]

/-! ### raycast, stage by stage -/

/-- what a correct raycast answer looks like -/
def Good (a b p : Pt) (r : RayRes) : Prop :=
  (r.on = true ↔ OnSeg a b p) ∧ (r.inn = true ↔ (¬ OnSeg a b p ∧ Cross a b p))

/-- the information carried past stage 1 -/
def YRange (a b p : Pt) : Prop :=
  (a.y < b.y → a.y ≤ p.y ∧ p.y ≤ b.y) ∧ (b.y < a.y → b.y ≤ p.y ∧ p.y ≤ a.y)

theorem good_of_out {a b p : Pt} {r : RayRes} (hon : r.on = false) (hin : r.inn = false)
    (h1 : ¬ OnSeg a b p) (h2 : ¬ Cross a b p) : Good a b p r := by
  unfold Good
  rw [hon, hin]
  exact ⟨iff_of_false (by simp) h1, iff_of_false (by simp) (fun h => h2 h.2)⟩

theorem good_of_on {a b p : Pt} {r : RayRes} (hon : r.on = true) (hin : r.inn = false)
    (h1 : OnSeg a b p) : Good a b p r := by
  unfold Good
  rw [hon, hin]
  exact ⟨iff_of_true rfl h1, iff_of_false (by simp) (fun h => h.1 h1)⟩

theorem rcRange_some {a b p : Pt} {r : RayRes} (h : rcRange a b p = some r) : Good a b p r := by
  unfold rcRange at h
  split_ifs at h with h1 h2
  · simp only [Bool.and_eq_true, Bool.or_eq_true, decide_eq_true_eq] at h1
    obtain ⟨hab, hp⟩ := h1
    cases h
    refine good_of_out rfl rfl ?_ ?_
    · rintro ⟨-, -, -, h3, h4⟩
      rw [min_eq_left hab.le] at h3; rw [max_eq_right hab.le] at h4
      rcases hp with hp | hp <;> linarith
    · rw [cross_iff_up hab]
      rintro ⟨h3, h4, -⟩
      rcases hp with hp | hp <;> linarith
  · simp only [Bool.and_eq_true, Bool.or_eq_true, decide_eq_true_eq, gt_iff_lt] at h2
    obtain ⟨hab, hp⟩ := h2
    cases h
    refine good_of_out rfl rfl ?_ ?_
    · rintro ⟨-, -, -, h3, h4⟩
      rw [min_eq_right hab.le] at h3; rw [max_eq_left hab.le] at h4
      rcases hp with hp | hp <;> linarith
    · rw [cross_iff_down hab]
      rintro ⟨h3, h4, -⟩
      rcases hp with hp | hp <;> linarith

theorem rcRange_none {a b p : Pt} (h : rcRange a b p = none) : YRange a b p := by
  unfold rcRange at h
  split_ifs at h with h1 h2
  simp only [Bool.and_eq_true, Bool.or_eq_true, decide_eq_true_eq, gt_iff_lt, not_and, not_or,
    not_lt] at h1 h2
  exact ⟨h1, h2⟩

theorem rcHoriz_some {a b p : Pt} {r : RayRes} (h : rcHoriz a b p = some r) : Good a b p r := by
  unfold rcHoriz at h
  split_ifs at h with hy hx hp hpy hlt hr hr
  · -- degenerate, p = a
    cases h
    have hab : b = a := (pt_eq_iff _ _).2 ⟨hx.symm, hy.symm⟩
    refine good_of_on rfl rfl ?_
    rw [hab, hp]; exact onSeg_left _ _
  · cases h
    have hab : b = a := (pt_eq_iff _ _).2 ⟨hx.symm, hy.symm⟩
    refine good_of_out rfl rfl ?_ (not_cross_horiz hy)
    rw [hab, onSeg_degenerate]; exact hp
  · cases h
    simp only [Bool.and_eq_true, decide_eq_true_eq, ge_iff_le] at hr
    refine good_of_on rfl rfl ?_
    refine onSeg_of_cross_xrange hx ?_ ?_ ?_
    · rw [cross_def, hpy, hy]; ring
    · rw [min_eq_left hlt.le]; exact hr.1
    · rw [max_eq_right hlt.le]; exact hr.2
  · cases h
    simp only [Bool.and_eq_true, decide_eq_true_eq, ge_iff_le] at hr
    have hlt' : b.x ≤ a.x := not_lt.1 hlt
    refine good_of_on rfl rfl ?_
    refine onSeg_of_cross_xrange hx ?_ ?_ ?_
    · rw [cross_def, hpy, hy]; ring
    · rw [min_eq_right hlt']; exact hr.1
    · rw [max_eq_left hlt']; exact hr.2

theorem rcHoriz_none {a b p : Pt} (h : rcHoriz a b p = none) (hy : a.y = b.y) :
    a.x ≠ b.x ∧ ¬ OnSeg a b p := by
  unfold rcHoriz at h
  rw [if_pos hy] at h
  split_ifs at h with hx hp hpy hlt hr hr
  · refine ⟨hx, ?_⟩
    simp only [Bool.and_eq_true, decide_eq_true_eq, ge_iff_le, not_and, not_le] at hr
    rintro ⟨-, h1, h2, -, -⟩
    rw [min_eq_left hlt.le] at h1; rw [max_eq_right hlt.le] at h2
    exact absurd h2 (not_le.2 (hr h1))
  · refine ⟨hx, ?_⟩
    have hlt' : b.x ≤ a.x := not_lt.1 hlt
    simp only [Bool.and_eq_true, decide_eq_true_eq, ge_iff_le, not_and, not_le] at hr
    rintro ⟨-, h1, h2, -, -⟩
    rw [min_eq_right hlt'] at h1; rw [max_eq_left hlt'] at h2
    exact absurd h2 (not_le.2 (hr h1))
  · refine ⟨hx, ?_⟩
    rintro ⟨-, -, -, h3, h4⟩
    rw [hy, min_self] at h3; rw [hy, max_self] at h4
    exact hpy (le_antisymm h4 h3)

theorem rcVert_some {a b p : Pt} {r : RayRes} (h : rcVert a b p = some r) : Good a b p r := by
  unfold rcVert at h
  split_ifs at h with hx hlt hr hr
  all_goals
    simp only [Bool.and_eq_true, decide_eq_true_eq, ge_iff_le] at hx hr
    cases h
    refine good_of_on rfl rfl ⟨?_, ?_, ?_, ?_, ?_⟩
  · rw [cross_def, hx.1, hx.2]; ring
  · rw [hx.1, hx.2, min_self]
  · rw [hx.1, hx.2, max_self]
  · rw [min_eq_left hlt.le]; exact hr.1
  · rw [max_eq_right hlt.le]; exact hr.2
  · rw [cross_def, hx.1, hx.2]; ring
  · rw [hx.1, hx.2, min_self]
  · rw [hx.1, hx.2, max_self]
  · rw [min_eq_right (not_lt.1 hlt)]; exact hr.1
  · rw [max_eq_left (not_lt.1 hlt)]; exact hr.2

theorem rcVert_none {a b p : Pt} (h : rcVert a b p = none) (hr : YRange a b p)
    (hne : a.y ≠ b.y) : ¬ (a.x = b.x ∧ p.x = b.x) := by
  intro hx
  unfold rcVert at h
  have hx' : (decide (a.x = b.x) && decide (p.x = b.x)) = true := by
    simp only [Bool.and_eq_true, decide_eq_true_eq]; exact hx
  rw [if_pos hx'] at h
  split_ifs at h with hlt hc hc
  · simp only [Bool.and_eq_true, decide_eq_true_eq, ge_iff_le, not_and, not_le] at hc
    have := hr.1 hlt
    exact absurd this.2 (not_le.2 (hc this.1))
  · simp only [Bool.and_eq_true, decide_eq_true_eq, ge_iff_le, not_and, not_le] at hc
    have hlt' : b.y < a.y := lt_of_le_of_ne (not_lt.1 hlt) (Ne.symm hne)
    have := hr.2 hlt'
    exact absurd this.2 (not_le.2 (hc this.1))

theorem onSeg_of_yrange {a b p : Pt} (hr : YRange a b p) (hne : a.y ≠ b.y)
    (hc : Spec.cross a b p = 0) : OnSeg a b p := by
  refine onSeg_of_cross_yrange hne hc ?_ ?_
  · rcases lt_or_gt_of_ne hne with h | h
    · rw [min_eq_left h.le]; exact (hr.1 h).1
    · rw [min_eq_right h.le]; exact (hr.2 h).1
  · rcases lt_or_gt_of_ne hne with h | h
    · rw [max_eq_right h.le]; exact (hr.1 h).2
    · rw [max_eq_left h.le]; exact (hr.2 h).2

/-- the slope-equality test, when both denominators are finite, is the collinearity test -/
theorem slope_eq_iff_cross (a b p : Pt) :
    (p.x - a.x) * (b.y - a.y) = (p.y - a.y) * (b.x - a.x) ↔ Spec.cross a b p = 0 := by
  rw [cross_def]
  constructor <;> intro h <;> linear_combination -h

theorem rcSlopeEq_some {a b p : Pt} {r : RayRes} (h : rcSlopeEq a b p = some r)
    (hr : YRange a b p) (hh : a.y = b.y → a.x ≠ b.x) : Good a b p r := by
  unfold rcSlopeEq at h
  split_ifs at h with he
  cases h
  by_cases hy : a.y = b.y
  · have hx : b.x - a.x ≠ 0 := sub_ne_zero.2 (Ne.symm (hh hy))
    have : b.y - a.y = 0 := sub_eq_zero.2 hy.symm
    rw [this, feq_fdiv_zero_right hx] at he
    exact absurd he (by simp)
  · have hy' : b.y - a.y ≠ 0 := sub_ne_zero.2 (Ne.symm hy)
    by_cases hx : a.x = b.x
    · have : b.x - a.x = 0 := sub_eq_zero.2 hx.symm
      rw [this, feq_fdiv_zero_left hy'] at he
      exact absurd he (by simp)
    · have hx' : b.x - a.x ≠ 0 := sub_ne_zero.2 (Ne.symm hx)
      rw [feq_fdiv_ne hx' hy', slope_eq_iff_cross] at he
      exact good_of_on rfl rfl (onSeg_of_yrange hr hy he)

theorem rcSlopeEq_none {a b p : Pt} (h : rcSlopeEq a b p = none)
    (hx : a.x ≠ b.x) (hy : a.y ≠ b.y) : Spec.cross a b p ≠ 0 := by
  unfold rcSlopeEq at h
  split_ifs at h with he
  have hx' : b.x - a.x ≠ 0 := sub_ne_zero.2 (Ne.symm hx)
  have hy' : b.y - a.y ≠ 0 := sub_ne_zero.2 (Ne.symm hy)
  rw [feq_fdiv_ne hx' hy', slope_eq_iff_cross] at he
  exact he

/-- everything the four early stages establish when they all fall through -/
theorem not_onSeg_of_fallthrough {a b p : Pt}
    (h1 : rcRange a b p = none) (h2 : rcHoriz a b p = none) (h3 : rcVert a b p = none)
    (h4 : rcSlopeEq a b p = none) : ¬ OnSeg a b p := by
  by_cases hy : a.y = b.y
  · exact (rcHoriz_none h2 hy).2
  · have hr := rcRange_none h1
    have hv := rcVert_none h3 hr hy
    by_cases hx : a.x = b.x
    · rintro ⟨-, h5, h6, -, -⟩
      rw [hx, min_self] at h5; rw [hx, max_self] at h6
      exact hv ⟨hx, le_antisymm h6 h5⟩
    · intro h
      exact rcSlopeEq_none h4 hx hy h.1

/-! ### stage 5 (`rcCast`) decomposed -/


/-- stage 5a of `rcCast`: the nudged range test -/
def castOut (a b p : Pt) : Bool :=
  let nudged : Bool := decide (p.y = a.y) || decide (p.y = b.y)
  let gtN (v : Rat) : Bool := if nudged then decide (p.y ≥ v) else decide (p.y > v)
  let ltN (v : Rat) : Bool := decide (p.y < v)
  if a.y < b.y then ltN a.y || gtN b.y else ltN b.y || gtN a.y

/-- stage 5b: the x tests -/
def castX (a b p : Pt) : Option RayRes :=
  if a.x > b.x then
    if p.x ≥ a.x then some ⟨false, false, 11⟩
    else if p.x ≤ b.x then some ⟨true, false, 12⟩
    else none
  else
    if p.x ≥ b.x then some ⟨false, false, 13⟩
    else if p.x ≤ a.x then some ⟨true, false, 14⟩
    else none

/-- stage 5c: the slope comparison -/
def castSlope (a b p : Pt) : RayRes :=
  if a.y < b.y then
    if (fdiv (p.y - a.y) (p.x - a.x)).fge (fdiv (b.y - a.y) (b.x - a.x)) then ⟨true, false, 15⟩
    else ⟨false, false, 17⟩
  else
    if (fdiv (p.y - b.y) (p.x - b.x)).fge (fdiv (a.y - b.y) (a.x - b.x)) then ⟨true, false, 16⟩
    else ⟨false, false, 17⟩

theorem rcCast_eq (a b p : Pt) :
    rcCast a b p =
      if castOut a b p then ⟨false, false, 10⟩
      else match castX a b p with
        | some r => r
        | none => castSlope a b p := rfl

theorem castOut_up {a b p : Pt} (h : a.y < b.y) :
    castOut a b p = true ↔ (p.y < a.y ∨ b.y ≤ p.y) := by
  unfold castOut
  simp only [h, if_true]
  split_ifs with hn
  · simp
  · simp only [Bool.or_eq_true, decide_eq_true_eq, not_or] at hn
    simp only [Bool.or_eq_true, decide_eq_true_eq, gt_iff_lt]
    constructor
    · rintro (h1 | h1)
      · exact Or.inl h1
      · exact Or.inr h1.le
    · rintro (h1 | h1)
      · exact Or.inl h1
      · exact Or.inr (lt_of_le_of_ne h1 (Ne.symm hn.2))

theorem castOut_nup {a b p : Pt} (h : ¬ a.y < b.y) :
    castOut a b p = true ↔ (p.y < b.y ∨ a.y ≤ p.y) := by
  unfold castOut
  simp only [h, if_false]
  split_ifs with hn
  · simp
  · simp only [Bool.or_eq_true, decide_eq_true_eq, not_or] at hn
    simp only [Bool.or_eq_true, decide_eq_true_eq, gt_iff_lt]
    constructor
    · rintro (h1 | h1)
      · exact Or.inl h1
      · exact Or.inr h1.le
    · rintro (h1 | h1)
      · exact Or.inl h1
      · exact Or.inr (lt_of_le_of_ne h1 (Ne.symm hn.1))

theorem castX_some {a b p : Pt} {r : RayRes} (h : castX a b p = some r) :
    r.on = false ∧ ((r.inn = false ∧ a.x ≤ p.x ∧ b.x ≤ p.x) ∨ (r.inn = true ∧ p.x ≤ a.x ∧ p.x ≤ b.x)) := by
  unfold castX at h
  split_ifs at h with h1 h2 h3 h2 h3 <;> cases h <;> refine ⟨rfl, ?_⟩
  · exact Or.inl ⟨rfl, h2, by linarith⟩
  · exact Or.inr ⟨rfl, by linarith, h3⟩
  · exact Or.inl ⟨rfl, by linarith, h2⟩
  · exact Or.inr ⟨rfl, h3, by linarith⟩

theorem castX_none {a b p : Pt} (h : castX a b p = none) :
    (a.x < p.x ∧ p.x < b.x) ∨ (b.x < p.x ∧ p.x < a.x) := by
  unfold castX at h
  split_ifs at h with h1 h2 h3 h2 h3
  · exact Or.inr ⟨not_le.1 h3, not_le.1 h2⟩
  · exact Or.inl ⟨not_le.1 h3, not_le.1 h2⟩


/-! ### the bilinear facts behind stage 5 -/


theorem cross_le_of_right {lo hi p : Pt} (h1 : lo.y ≤ p.y) (h2 : p.y < hi.y)
    (hx1 : lo.x ≤ p.x) (hx2 : hi.x ≤ p.x) : Spec.cross lo hi p ≤ 0 := by
  rw [cross_def]
  nlinarith [mul_nonneg (sub_nonneg.2 h1) (sub_nonneg.2 hx2),
    mul_nonneg (sub_nonneg.2 h2.le) (sub_nonneg.2 hx1)]

theorem cross_ge_of_left {lo hi p : Pt} (h1 : lo.y ≤ p.y) (h2 : p.y < hi.y)
    (hx1 : p.x ≤ lo.x) (hx2 : p.x ≤ hi.x) : 0 ≤ Spec.cross lo hi p := by
  rw [cross_def]
  nlinarith [mul_nonneg (sub_nonneg.2 h1) (sub_nonneg.2 hx2),
    mul_nonneg (sub_nonneg.2 h2.le) (sub_nonneg.2 hx1)]

theorem slope_le_iff {lo hi p : Pt}
    (hx : (lo.x < p.x ∧ p.x < hi.x) ∨ (hi.x < p.x ∧ p.x < lo.x)) :
    (hi.y - lo.y) / (hi.x - lo.x) ≤ (p.y - lo.y) / (p.x - lo.x) ↔ 0 ≤ Spec.cross lo hi p := by
  rw [cross_def]
  rcases hx with ⟨h1, h2⟩ | ⟨h1, h2⟩
  · rw [div_le_div_iff₀ (by linarith) (by linarith)]
    constructor <;> intro h <;> linarith
  · rw [← neg_div_neg_eq (hi.y - lo.y), ← neg_div_neg_eq (p.y - lo.y),
      div_le_div_iff₀ (by linarith) (by linarith)]
    constructor <;> intro h <;> linarith


theorem castX_inn_iff {lo hi p : Pt} {r : RayRes} (h1 : lo.y ≤ p.y) (h2 : p.y < hi.y)
    (hc : Spec.cross lo hi p ≠ 0)
    (hX : (r.inn = false ∧ lo.x ≤ p.x ∧ hi.x ≤ p.x) ∨ (r.inn = true ∧ p.x ≤ lo.x ∧ p.x ≤ hi.x)) :
    r.inn = true ↔ 0 < Spec.cross lo hi p := by
  rcases hX with ⟨hr, hx1, hx2⟩ | ⟨hr, hx1, hx2⟩
  · rw [hr]
    exact iff_of_false (by simp) (not_lt.2 (cross_le_of_right h1 h2 hx1 hx2))
  · rw [hr]
    exact iff_of_true rfl (lt_of_le_of_ne (cross_ge_of_left h1 h2 hx1 hx2) (Ne.symm hc))

theorem castSlope_on (a b p : Pt) : (castSlope a b p).on = false := by
  unfold castSlope; split_ifs <;> rfl

theorem castSlope_up {a b p : Pt} (h : a.y < b.y)
    (hx : (a.x < p.x ∧ p.x < b.x) ∨ (b.x < p.x ∧ p.x < a.x)) :
    (castSlope a b p).inn = true ↔ 0 ≤ Spec.cross a b p := by
  have h1 : p.x - a.x ≠ 0 := by rcases hx with ⟨h1, h2⟩ | ⟨h1, h2⟩ <;> intro h0 <;> linarith
  have h2 : b.x - a.x ≠ 0 := by rcases hx with ⟨h1, h2⟩ | ⟨h1, h2⟩ <;> intro h0 <;> linarith
  rw [← slope_le_iff hx, ← fge_fdiv_ne h1 h2]
  unfold castSlope
  rw [if_pos h]
  split_ifs with hf
  · simp [hf]
  · simp [hf]

theorem castSlope_down {a b p : Pt} (h : ¬ a.y < b.y)
    (hx : (a.x < p.x ∧ p.x < b.x) ∨ (b.x < p.x ∧ p.x < a.x)) :
    (castSlope a b p).inn = true ↔ 0 ≤ Spec.cross b a p := by
  have h1 : p.x - b.x ≠ 0 := by rcases hx with ⟨h1, h2⟩ | ⟨h1, h2⟩ <;> intro h0 <;> linarith
  have h2 : a.x - b.x ≠ 0 := by rcases hx with ⟨h1, h2⟩ | ⟨h1, h2⟩ <;> intro h0 <;> linarith
  rw [← slope_le_iff hx.symm, ← fge_fdiv_ne h1 h2]
  unfold castSlope
  rw [if_neg h]
  split_ifs with hf
  · simp [hf]
  · simp [hf]

/-- stage 5 is correct wherever the point is off the segment -/
theorem rcCast_good {a b p : Pt} (hoff : ¬ OnSeg a b p) : Good a b p (rcCast a b p) := by
  rw [rcCast_eq]
  rcases lt_trichotomy a.y b.y with hup | heq | hdn
  · -- ascending
    split_ifs with hout
    · rw [castOut_up hup] at hout
      refine good_of_out rfl rfl hoff ?_
      rw [cross_iff_up hup]
      rintro ⟨h1, h2, -⟩
      rcases hout with h | h <;> linarith
    · rw [castOut_up hup, not_or, not_lt, not_le] at hout
      obtain ⟨h1, h2⟩ := hout
      have hc : Spec.cross a b p ≠ 0 := fun hc =>
        hoff (onSeg_of_cross_yrange hup.ne hc (by rw [min_eq_left hup.le]; exact h1)
          (by rw [max_eq_right hup.le]; exact h2.le))
      have hcr : Cross a b p ↔ 0 < Spec.cross a b p := by
        rw [cross_iff_up hup]; exact ⟨fun h => h.2.2, fun h => ⟨h1, h2, h⟩⟩
      cases hX : castX a b p with
      | some r =>
        obtain ⟨hon, hX'⟩ := castX_some hX
        refine ⟨by simp [hon, hoff], ?_⟩
        show r.inn = true ↔ _
        rw [castX_inn_iff h1 h2 hc hX', hcr]
        exact ⟨fun h => ⟨hoff, h⟩, fun h => h.2⟩
      | none =>
        have hx := castX_none hX
        refine ⟨by simp [castSlope_on, hoff], ?_⟩
        show (castSlope a b p).inn = true ↔ _
        rw [castSlope_up hup hx, hcr]
        exact ⟨fun h => ⟨hoff, lt_of_le_of_ne h (Ne.symm hc)⟩, fun h => h.2.le⟩
  · -- horizontal: the nudge always pushes the point out of range
    have hnup : ¬ a.y < b.y := by rw [heq]; exact lt_irrefl _
    have hout : castOut a b p = true := by
      rw [castOut_nup hnup, heq]; exact lt_or_ge _ _
    rw [if_pos hout]
    exact good_of_out rfl rfl hoff (not_cross_horiz heq)
  · -- descending
    have hnup : ¬ a.y < b.y := not_lt.2 hdn.le
    split_ifs with hout
    · rw [castOut_nup hnup] at hout
      refine good_of_out rfl rfl hoff ?_
      rw [cross_iff_down hdn]
      rintro ⟨h1, h2, -⟩
      rcases hout with h | h <;> linarith
    · rw [castOut_nup hnup, not_or, not_lt, not_le] at hout
      obtain ⟨h1, h2⟩ := hout
      have hoff' : ¬ OnSeg b a p := fun h => hoff ((onSeg_symm a b p).2 h)
      have hc : Spec.cross b a p ≠ 0 := fun hc =>
        hoff' (onSeg_of_cross_yrange hdn.ne hc (by rw [min_eq_left hdn.le]; exact h1)
          (by rw [max_eq_right hdn.le]; exact h2.le))
      have hcr : Cross a b p ↔ 0 < Spec.cross b a p := by
        rw [cross_iff_down hdn]; exact ⟨fun h => h.2.2, fun h => ⟨h1, h2, h⟩⟩
      cases hX : castX a b p with
      | some r =>
        obtain ⟨hon, hX'⟩ := castX_some hX
        have hX'' : (r.inn = false ∧ b.x ≤ p.x ∧ a.x ≤ p.x) ∨ (r.inn = true ∧ p.x ≤ b.x ∧ p.x ≤ a.x) := by
          rcases hX' with ⟨e1, e2, e3⟩ | ⟨e1, e2, e3⟩
          · exact Or.inl ⟨e1, e3, e2⟩
          · exact Or.inr ⟨e1, e3, e2⟩
        refine ⟨by simp [hon, hoff], ?_⟩
        show r.inn = true ↔ _
        rw [castX_inn_iff h1 h2 hc hX'', hcr]
        exact ⟨fun h => ⟨hoff, h⟩, fun h => h.2⟩
      | none =>
        have hx := castX_none hX
        refine ⟨by simp [castSlope_on, hoff], ?_⟩
        show (castSlope a b p).inn = true ↔ _
        rw [castSlope_down hnup hx, hcr]
        exact ⟨fun h => ⟨hoff, lt_of_le_of_ne h (Ne.symm hc)⟩, fun h => h.2.le⟩

/-- the full raycast specification -/
theorem raycast_good (a b p : Pt) : Good a b p (raycast a b p) := by
  unfold raycast
  cases h1 : rcRange a b p with
  | some r => exact rcRange_some h1
  | none =>
    cases h2 : rcHoriz a b p with
    | some r => exact rcHoriz_some h2
    | none =>
      cases h3 : rcVert a b p with
      | some r => exact rcVert_some h3
      | none =>
        cases h4 : rcSlopeEq a b p with
        | some r => exact rcSlopeEq_some h4 (rcRange_none h1) (fun hy => (rcHoriz_none h2 hy).1)
        | none => exact rcCast_good (not_onSeg_of_fallthrough h1 h2 h3 h4)

end K
end Geo
