/-
  GeoProofs.Float.BridgeSeg — `segIntersectsF = Geo.segIntersectsS` on the regime E
  (value and return site).
-/
import GeoProofs.Float.Recip
namespace Geo.F
open Geo
theorem eqZeroF_eq (x : ℚ) : eqZeroF x = decide (x = 0) := by
  unfold eqZeroF
  rcases lt_trichotomy x 0 with h | h | h
  · simp [h, h.ne]
  · simp [h]
  · simp [h, h.ne']

theorem segIntersectsF_eq {s o : Seg} (hsa : PtE s.a) (hsb : PtE s.b) (hoa : PtE o.a)
    (hob : PtE o.b) : segIntersectsF s o = segIntersectsS s o := by
  obtain ⟨a, b⟩ := s; obtain ⟨c, d⟩ := o
  simp only at hsa hsb hoa hob
  have e1 := fsub_exact hoa.1 hsa.1
  have e2 := fsub_exact hoa.2 hsa.2
  have e3 := fsub_exact hsb.1 hsa.1
  have e4 := fsub_exact hsb.2 hsa.2
  have e5 := fsub_exact hoa.1 hsb.1
  have e6 := fsub_exact hoa.2 hsb.2
  have e7 := fsub_exact hob.1 hoa.1
  have e8 := fsub_exact hob.2 hoa.2
  have Dcmpx := hoa.1.sub hsa.1
  have Dcmpy := hoa.2.sub hsa.2
  have Drx := hsb.1.sub hsa.1
  have Dry := hsb.2.sub hsa.2
  have Dsx := hob.1.sub hoa.1
  have Dsy := hob.2.sub hoa.2
  unfold segIntersectsF segIntersectsS
  simp only [e1, e2, e3, e4, e5, e6, e7, e8, fmul_exact Dcmpx Dry, fmul_exact Dcmpy Drx,
    fmul_exact Dcmpx Dsy, fmul_exact Dcmpy Dsx, fmul_exact Drx Dsy, fmul_exact Dry Dsx,
    fsub_exact2 (Dcmpx.mul Dry) (Dcmpy.mul Drx), fsub_exact2 (Dcmpx.mul Dsy) (Dcmpy.mul Dsx),
    fsub_exact2 (Drx.mul Dsy) (Dry.mul Dsx), eqZeroF_eq, decide_eq_true_eq, Seg.raycast,
    raycastF_eq hsa hsb hoa, raycastF_eq hsa hsb hob, raycastF_eq hoa hob hsa]
  by_cases hr : (b.x - a.x) * (d.y - c.y) - (b.y - a.y) * (d.x - c.x) = 0
  · simp only [hr, if_true]
  · obtain ⟨t1, t2⟩ := tcmp ((Dcmpx.mul Dsy).sub (Dcmpy.mul Dsx)) ((Drx.mul Dsy).sub (Dry.mul Dsx)) hr
    obtain ⟨u1, u2⟩ := tcmp ((Dcmpx.mul Dry).sub (Dcmpy.mul Drx)) ((Drx.mul Dsy).sub (Dry.mul Dsx)) hr
    simp only [ge_iff_le, t1, t2, u1, u2]
end Geo.F
