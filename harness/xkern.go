package main

// xkern <k> ax ay bx by px py cx cy dx dy : the segment kernels on the integer lattice scaled by 2^k
// (every coordinate is an integer below 2^24 times 2^k, so every difference, product and sum the
// kernels form is exact in binary64 whatever k is, and quotients of two differences compare as over
// the rationals: GeoProofs/Float). The answers must therefore equal the exact ones computed here on
// the integers. Implementation-only oracle for C19 beyond the sixteenth lattice of regime E.

import (
	"fmt"
	"math"
	"strconv"

	"github.com/tidwall/geojson/geometry"
)

type ip struct{ x, y int64 }

func icross(a, b, c ip) int64 { return (b.x-a.x)*(c.y-a.y) - (b.y-a.y)*(c.x-a.x) }

func ionSeg(a, b, p ip) bool {
	if icross(a, b, p) != 0 {
		return false
	}
	return min64(a.x, b.x) <= p.x && p.x <= max64(a.x, b.x) && min64(a.y, b.y) <= p.y && p.y <= max64(a.y, b.y)
}

func min64(a, b int64) int64 {
	if a < b {
		return a
	}
	return b
}
func max64(a, b int64) int64 {
	if a > b {
		return a
	}
	return b
}

func sgn(v int64) int {
	if v > 0 {
		return 1
	}
	if v < 0 {
		return -1
	}
	return 0
}

func isegsMeet(a, b, c, d ip) bool {
	d1, d2, d3, d4 := sgn(icross(a, b, c)), sgn(icross(a, b, d)), sgn(icross(c, d, a)), sgn(icross(c, d, b))
	if d1*d2 < 0 && d3*d4 < 0 {
		return true
	}
	return ionSeg(a, b, c) || ionSeg(a, b, d) || ionSeg(c, d, a) || ionSeg(c, d, b)
}

func xkern(toks []string) string {
	if len(toks) != 12 {
		return "bad-op"
	}
	k, err := strconv.Atoi(toks[1])
	if err != nil || k < -900 || k > 900 {
		return "bad-op"
	}
	var v [10]int64
	for i := 0; i < 10; i++ {
		n, err := strconv.ParseInt(toks[2+i], 10, 64)
		if err != nil || n > 1<<24 || n < -(1<<24) {
			return "bad-op"
		}
		v[i] = n
	}
	a, b, p, c, d := ip{v[0], v[1]}, ip{v[2], v[3]}, ip{v[4], v[5]}, ip{v[6], v[7]}, ip{v[8], v[9]}
	f := func(q ip) geometry.Point {
		return geometry.Point{X: math.Ldexp(float64(q.x), k), Y: math.Ldexp(float64(q.y), k)}
	}
	sab := geometry.Segment{A: f(a), B: f(b)}
	scd := geometry.Segment{A: f(c), B: f(d)}
	if got, want := sab.Raycast(f(p)).On, ionSeg(a, b, p); got != want {
		return fmt.Sprintf("FAIL Raycast.On = %v, exact %v", got, want)
	}
	if got, want := sab.ContainsPoint(f(p)), ionSeg(a, b, p); got != want {
		return fmt.Sprintf("FAIL ContainsPoint = %v, exact %v", got, want)
	}
	if got, want := sab.CollinearPoint(f(p)), icross(a, b, p) == 0; got != want {
		return fmt.Sprintf("FAIL CollinearPoint = %v, exact %v", got, want)
	}
	want := isegsMeet(a, b, c, d)
	if got := sab.IntersectsSegment(scd); got != want {
		return fmt.Sprintf("FAIL IntersectsSegment = %v, exact %v", got, want)
	}
	if got := scd.IntersectsSegment(sab); got != want {
		return fmt.Sprintf("FAIL IntersectsSegment (swapped) = %v, exact %v", got, want)
	}
	if got, want := sab.ContainsSegment(scd), ionSeg(a, b, c) && ionSeg(a, b, d); got != want {
		return fmt.Sprintf("FAIL ContainsSegment = %v, exact %v", got, want)
	}
	return "ok"
}
