/-
  GeoProofs.Glue.ParseGlueFinal — the four remaining kinds as arms of `parse`, everything the per-kind
  statements assume derived from `JOK` of the document, and the closing induction over the nesting depth.
-/
import GeoProofs.Glue.ParseGlueOK2

set_option linter.unusedSimpArgs false

namespace Geo.PGlue
open Geo Geo.PGen

theorem parse_multiPoint (o : POpts) (fuel : Nat) (ms : List Mem) (raw : String)
    (h : (scanKeys ms).type = some (.str raw "MultiPoint")) :
    parse o (fuel + 1) (.obj ms) = mMultiPoint o (scanKeys ms) := by
  rw [parse]; simp only [h, mMultiPoint]; rfl

theorem parse_multiLineString (o : POpts) (fuel : Nat) (ms : List Mem) (raw : String)
    (h : (scanKeys ms).type = some (.str raw "MultiLineString")) :
    parse o (fuel + 1) (.obj ms) = mMultiLineString o (scanKeys ms) := by
  rw [parse]; simp only [h, mMultiLineString, ← mLineElem_fun]; rfl

theorem parse_multiPolygon (o : POpts) (fuel : Nat) (ms : List Mem) (raw : String)
    (h : (scanKeys ms).type = some (.str raw "MultiPolygon")) :
    parse o (fuel + 1) (.obj ms) = mMultiPolygon o (scanKeys ms) := by
  rw [parse]; simp only [h, mMultiPolygon, ← mPolyElem_fun]; rfl

theorem JOKM_of_mem : ∀ (l : List Mem), (∀ m ∈ l, JOK m.2.2 = true) → JOKM l = true := by
  intro l
  induction l with
  | nil => intro _; rfl
  | cons a t ih =>
    intro h
    obtain ⟨k, d, v⟩ := a
    simp only [JOKM, Bool.and_eq_true]
    exact ⟨h (k, d, v) (by simp), ih (fun m hm => h m (by simp [hm]))⟩

/-- what the scanned keys of a good object are -/
theorem scan_ok (ms : List Mem) (h : JOKM ms = true) :
    (∀ x, (scanKeys ms).coordinates = some x → JOK x = true) ∧
    (∀ x, (scanKeys ms).geometries = some x → JOK x = true) ∧
    (∀ x, (scanKeys ms).geometry = some x → JOK x = true) ∧
    (∀ x, (scanKeys ms).features = some x → JOK x = true) ∧
    JOKM (scanKeys ms).foreign = true := by
  obtain ⟨h1, h2, h3, h4, h5⟩ := scan_mem ms {}
  rw [← scanKeys_eq] at h1 h2 h3 h4 h5
  have hm := JOKM_mem ms h
  refine ⟨?_, ?_, ?_, ?_, ?_⟩
  · intro x hx; rcases h1 x hx with h' | ⟨m, hm', rfl⟩
    · simp at h'
    · exact hm m hm'
  · intro x hx; rcases h2 x hx with h' | ⟨m, hm', rfl⟩
    · simp at h'
    · exact hm m hm'
  · intro x hx; rcases h3 x hx with h' | ⟨m, hm', rfl⟩
    · simp at h'
    · exact hm m hm'
  · intro x hx; rcases h4 x hx with h' | ⟨m, hm', rfl⟩
    · simp at h'
    · exact hm m hm'
  · apply JOKM_of_mem
    intro f hf; rcases h5 f hf with h' | h'
    · simp at h'
    · exact hm f h'

theorem kindHyps_of (rec : RecT) (o : POpts) (fuel : Nat) (hrec : RecOK rec o fuel) (ms : List Mem) (h : JOKM ms = true) :
    KindHyps rec o fuel ms := by
  obtain ⟨hc, hgs, hg, hf, hfo⟩ := scan_ok ms h
  refine ⟨?_, ?_, ?_, ?_⟩
  · intro gk raw ht hk
    rw [parse_multiPoint o fuel ms raw ht]
    exact (multiPoint_eq rec gk o _ hk).toU
  · intro gk raw ht hk
    rw [parse_multiLineString o fuel ms raw ht]
    exact (multiLineString_eq rec gk o _ hk).toU
  · intro gk raw ht hk
    rw [parse_multiPolygon o fuel ms raw ht]
    exact (multiPolygon_eq rec gk o _ hk (fun rc hrc v hv => polyFinV_of_JOK v (JOK_elems rc (hc rc hrc) v hv))).toU
  · intro gk raw ht hk
    rw [parse_feature o fuel ms raw ht]
    refine feature_eq rec o fuel hrec gk _ hk ?_ (fun gv hgv => hg gv hgv)
    intro fin val c ck raw' hx
    cases hp : (JVal.obj (scanKeys ms).foreign).get "properties" with
    | none => rw [hp] at hx; simp at hx
    | some p =>
      rw [hp] at hx
      simp only [Option.bind_some] at hx
      have hpj := JOK_get (JVal.obj (scanKeys ms).foreign) (by simpa [JOK] using hfo) "properties" p hp
      have := JOK_get p hpj "type" _ hx
      simp [JOK] at this
      exact this.2

/-- the generated Parse with itself as recursion parameter, n levels deep -/
def genParse (o : POpts) : Nat → RecT
  | 0 => fun _ _ => (default, some .errDataInvalid)
  | n + 1 => fun data opts => (PGen.Parse (mops (genParse o n)) (mlen data + 1) data opts).getD (default, some .errDataInvalid)

theorem level_of_JOK (rec : RecT) (o : POpts) (fuel : Nat) (hrec : RecOK rec o fuel) (ws : List Char)
    (hws : ∀ c ∈ ws, isWs c = true) (v : JVal) (hv : JOK v = true) (n : Nat) :
    ∃ g, PGen.Parse (mops rec) (ws.length + 1 + n) (ws.map Piece.ch ++ [Piece.doc v]) (some (optsG o)) = some g ∧
      AgreeU g (parse o (fuel + 1) v) := by
  apply Parse_level rec o fuel hrec ws hws v
  · intro ms e; subst e; exact kindHyps_of rec o fuel hrec ms (by simpa [JOK] using hv)
  · intro ms e rc rings ex hrc hp; subst e
    exact polyFinV_of_JOK rc ((scan_ok ms (by simpa [JOK] using hv)).1 rc hrc) rings ex hp
  · intro ms items e hgs x hx; subst e
    have := (scan_ok ms (by simpa [JOK] using hv)).2.1 _ hgs
    exact JOKL_mem items (by simpa [JOK] using this) x hx
  · intro ms items e hfs x hx; subst e
    have := (scan_ok ms (by simpa [JOK] using hv)).2.2.2.1 _ hfs
    exact JOKL_mem items (by simpa [JOK] using this) x hx

theorem genParse_ok (o : POpts) : ∀ n, RecOK (genParse o n) o n := by
  intro n
  induction n with
  | zero => intro v _; simp [parse, AgreeU, errU]
  | succ n ih =>
    intro v hv
    obtain ⟨g, hg, ha⟩ := level_of_JOK (genParse o n) o n ih [] (by simp) v hv (mlen [Piece.doc v])
    have : genParse o (n + 1) [Piece.doc v] (some (optsG o)) = g := by
      simp only [genParse]
      have e : mlen [Piece.doc v] + 1 = ([] : List Char).length + 1 + mlen [Piece.doc v] := by simp; omega
      rw [e]
      simp only [List.map_nil, List.nil_append] at hg
      rw [hg]; rfl
    rw [this]; exact ha

/-- (3) generated Parse, with the generated Parse as its own recursion parameter (depth levels), on the
    text (whitespace, then the value) = the model's parseTop, for documents without overflowing literals -/
theorem parse_bridge (o : POpts) (v : JVal) (hv : JOK v = true) (ws : List Char) (hws : ∀ c ∈ ws, isWs c = true) (n : Nat) :
    ∃ g, PGen.Parse (mops (genParse o v.depth)) (ws.length + 1 + n) (ws.map Piece.ch ++ [Piece.doc v]) (some (optsG o)) = some g ∧
      AgreeU g (parseTop o v) :=
  level_of_JOK (genParse o v.depth) o v.depth (genParse_ok o v.depth) ws hws v hv n

/-- nil options are the default options -/
theorem Parse_nil (rec : RecT) (fuel : Nat) (data : MStr) :
    PGen.Parse (mops rec) fuel data none = PGen.Parse (mops rec) fuel data (some (optsG {})) := by
  unfold PGen.Parse
  rfl

theorem parse_bridge_nil (v : JVal) (hv : JOK v = true) (ws : List Char) (hws : ∀ c ∈ ws, isWs c = true) (n : Nat) :
    ∃ g, PGen.Parse (mops (genParse {} v.depth)) (ws.length + 1 + n) (ws.map Piece.ch ++ [Piece.doc v]) none = some g ∧
      AgreeU g (parseTop {} v) := by
  rw [Parse_nil]; exact parse_bridge {} v hv ws hws n

#print axioms parse_bridge
#print axioms parse_bridge_nil

end Geo.PGlue
