/-
  GeoProofs.Algebra.LeafOKx — valid shapes WITH indexes.  `Geom.OKx A`: `A` is `g.build` for a
  build configuration `g : GCfg` (vertex arrays with index kind and threshold per series,
  GeoProofs/IndexIndep/Matrix.lean) all of whose searches are exact, and the index-free geometry
  `g.plain` is a valid shape (`Geom.OK`).  By index independence of `Geom.intersects`
  (`Geom.Sim.intersects`) Intersects is exact on such geometry too.
-/
import GeoProofs.Algebra.LeafOK
import GeoProofs.IndexIndep.Matrix

namespace Geo
open GL IX

theorem GCfg.shape_build (g : GCfg) : g.build.shape = g.plain.shape := by
  cases g with
  | point p => rfl
  | rect r => rfl
  | line c => rfl
  | poly e hs =>
    simp only [GCfg.build, GCfg.plain, Geom.shape, List.map_map]
    congr 1

def Geom.OKx (A : Geom) : Prop := ∃ g : GCfg, g.Exact ∧ A = g.build ∧ g.plain.OK

theorem okx_build (S : Spec.Shape) (hv : S.valid = true) (hc : HolesConvexOK S) : (build S).OKx := by
  cases S with
  | point p => exact ⟨.point p, trivial, rfl, Geom.OK.of_build (.point p) hv hc⟩
  | rect lo hi => exact ⟨.rect ⟨lo, hi⟩, trivial, rfl, Geom.OK.of_build (.rect lo hi) hv hc⟩
  | line pts =>
    exact ⟨.line ⟨pts.toArray, .none, 0⟩, series_search_exact_kind_none _ _ _, rfl,
      Geom.OK.of_build (.line pts) hv hc⟩
  | poly ext hs =>
    refine ⟨.poly ⟨ext.toArray, .none, 0⟩ (hs.map fun h => ⟨h.toArray, .none, 0⟩),
      ⟨series_search_exact_kind_none _ _ _, ?_⟩, ?_, ?_⟩
    · intro h hh
      obtain ⟨l, -, rfl⟩ := List.mem_map.1 hh
      exact series_search_exact_kind_none _ _ _
    · simp [GCfg.build, build, SerCfg.ring, Function.comp_def]
    · have e : GCfg.plain (.poly ⟨ext.toArray, .none, 0⟩ (hs.map fun h => ⟨h.toArray, .none, 0⟩)) =
          build (.poly ext hs) := by
        simp [GCfg.plain, build, SerCfg.ring0, Function.comp_def]
      rw [e]; exact Geom.OK.of_build (.poly ext hs) hv hc

theorem Geom.OK.okx {A : Geom} (h : A.OK) : A.OKx := by
  rw [h.2.2]; exact okx_build _ h.1 h.2.1

theorem Geom.OKx.symOK {A : Geom} (h : A.OKx) : A.SymOK := by
  obtain ⟨g, hg, rfl, -⟩ := h
  cases g with
  | point p => trivial
  | rect r => trivial
  | line c => exact mkSeries_WF _ _ _ _ hg
  | poly e hs =>
    intro r hr
    simp only [Option.some.injEq] at hr
    subst hr
    exact ⟨_, _, _, rfl, hg.1⟩

theorem Geom.OKx.valid {A : Geom} (h : A.OKx) : A.shape.valid = true := by
  obtain ⟨g, -, rfl, ok⟩ := h
  rw [GCfg.shape_build]; exact ok.1

/-- exactness of Intersects for indexed valid shapes -/
theorem Geom.OKx.intersects_eq {A B : Geom} (hA : A.OKx) (hB : B.OKx) :
    A.intersects B = Spec.meets A.shape B.shape := by
  obtain ⟨g, hg, rfl, okA⟩ := hA
  obtain ⟨g', hg', rfl, okB⟩ := hB
  rw [Geom.Sim.intersects (GCfg.sim g hg) (GCfg.sim g' hg'), Geom.OK.intersects_eq okA okB,
    GCfg.shape_build, GCfg.shape_build]

def Obj.LeafOKx (a : Obj) : Prop := a.geom.OKx

theorem Obj.LeafOK.okx {a : Obj} (h : a.LeafOK) : a.LeafOKx := Geom.OK.okx h
theorem Obj.LeafOKx.symOK {a : Obj} (h : a.LeafOKx) : a.LeafSymOK := Geom.OKx.symOK h
theorem Obj.LeafOKx.wf {a : Obj} (h : a.LeafOKx) : a.LeafWF := h.symOK.wf

end Geo
