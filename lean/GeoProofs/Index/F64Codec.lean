/-
  GeoProofs.Index.F64Codec — the float codec of GeoModel.Series (`encF64` = the 8 little-endian
  bytes of `f64bits`, `decF64` its inverse) round-trips on every rational that is a NORMAL
  IEEE-754 binary64 number or zero (`Dyadic53`): `decF64 (encF64 q) = q`.

  `Dyadic53 q` (for `q ≠ 0`, `n = |q.num|`, `d = q.den`, `hb = log2 n`, `ld = log2 d`):
    * `d = 2^ld`                      (dyadic),
    * `2^(hb-52) ∣ n`                 (at most 53 significant bits; vacuous when `n < 2^53`),
    * `-1022 ≤ hb - ld ≤ 1023`        (normal exponent range).
  `Dyadic53.of_div_pow`: every `k / 2^j` with `0 < |k| < 2^53`, `j ≤ 1022` qualifies.
-/
import GeoModel.Series
import GeoProofs.Index.Codec
import Mathlib.Algebra.Order.Field.Rat
import Mathlib.Algebra.Order.Field.Basic
import Mathlib.Tactic.Ring
import Mathlib.Tactic.Linarith
import Mathlib.Tactic.FieldSimp
import Mathlib.Tactic.NormNum
import Mathlib.Tactic.Push
import Mathlib.Data.Nat.Prime.Basic

namespace Geo

/-! ## bytes ↔ bits -/

theorem foldr_leBytes (n k : Nat) :
    (leBytes n k).foldr (fun b acc => b + 256 * acc) 0 = n % 256 ^ k := by
  induction k generalizing n with
  | zero => simp [leBytes, Nat.mod_one]
  | succ k ih =>
    rw [leBytes, List.foldr_cons, ih, pow_succ', Nat.mod_mul]

theorem leBytes_lt_256 (n k : Nat) : ∀ b ∈ leBytes n k, b < 256 := by
  induction k generalizing n with
  | zero => intro b hb; simp [leBytes] at hb
  | succ k ih =>
    intro b hb
    rw [leBytes] at hb
    rcases List.mem_cons.1 hb with rfl | hb
    · exact Nat.mod_lt _ (by decide)
    · exact ih _ b hb

/-- `decF64` as a function of the 64-bit pattern -/
def decBits (bits : Nat) : Rat :=
  if bits % 2^63 = 0 then 0
  else
    let sign : Nat := bits / 2^63
    let biased : Nat := (bits / 2^52) % 2^11
    let mant : Nat := bits % 2^52 + 2^52
    let v : Rat :=
      if biased ≥ 1075 then ((mant * 2^(biased - 1075) : Nat) : Rat)
      else (mant : Rat) / ((2^(1075 - biased) : Nat) : Rat)
    if sign = 1 then -v else v

theorem decF64_eq_decBits (bs : List Nat) :
    decF64 bs = decBits (bs.foldr (fun b acc => b + 256 * acc) 0) := rfl

theorem decF64_encF64_eq (q : Rat) : decF64 (encF64 q) = decBits (f64bits q % 256 ^ 8) := by
  rw [decF64_eq_decBits, encF64, foldr_leBytes]

theorem encF64_length (q : Rat) : (encF64 q).length = 8 := by simp [encF64]

theorem encF64_lt_256 (q : Rat) : ∀ b ∈ encF64 q, b < 256 := leBytes_lt_256 _ _

/-! ## decoding a bit pattern given by its three fields -/

theorem decBits_fields (s b m : Nat) (hb1 : 1 ≤ b) (hb2 : b < 2 ^ 11) (hm : m < 2 ^ 52) :
    decBits (s * 2 ^ 63 + b * 2 ^ 52 + m) =
      (if s = 1 then
        -(if b ≥ 1075 then (((m + 2 ^ 52) * 2 ^ (b - 1075) : Nat) : Rat)
          else ((m + 2 ^ 52 : Nat) : Rat) / ((2 ^ (1075 - b) : Nat) : Rat))
       else (if b ≥ 1075 then (((m + 2 ^ 52) * 2 ^ (b - 1075) : Nat) : Rat)
          else ((m + 2 ^ 52 : Nat) : Rat) / ((2 ^ (1075 - b) : Nat) : Rat))) := by
  have h1 : (s * 2 ^ 63 + b * 2 ^ 52 + m) % 2 ^ 63 ≠ 0 := by omega
  have h2 : (s * 2 ^ 63 + b * 2 ^ 52 + m) / 2 ^ 63 = s := by omega
  have h3 : (s * 2 ^ 63 + b * 2 ^ 52 + m) / 2 ^ 52 % 2 ^ 11 = b := by omega
  have h4 : (s * 2 ^ 63 + b * 2 ^ 52 + m) % 2 ^ 52 = m := by omega
  unfold decBits
  rw [if_neg h1]
  simp only [h2, h3, h4]

/-! ## the mantissa computed by `f64bits` -/

theorem mant_spec (n : Nat) (hn : n ≠ 0) (hdiv : 2 ^ (n.log2 - 52) ∣ n) :
    (if n.log2 ≤ 52 then (n <<< (52 - n.log2)) % 2 ^ 52 else (n >>> (n.log2 - 52)) % 2 ^ 52) < 2 ^ 52 ∧
    n * 2 ^ (52 - n.log2) =
      ((if n.log2 ≤ 52 then (n <<< (52 - n.log2)) % 2 ^ 52 else (n >>> (n.log2 - 52)) % 2 ^ 52)
        + 2 ^ 52) * 2 ^ (n.log2 - 52) := by
  have lo : 2 ^ n.log2 ≤ n := Nat.log2_self_le hn
  have hi : n < 2 ^ (n.log2 + 1) := Nat.lt_log2_self
  generalize n.log2 = hb at *
  by_cases hle : hb ≤ 52
  · rw [if_pos hle, Nat.shiftLeft_eq]
    have e0 : hb - 52 = 0 := by omega
    have hP : 2 ^ hb * 2 ^ (52 - hb) = 2 ^ 52 := by rw [← pow_add]; congr 1; omega
    have hP' : 2 ^ (hb + 1) * 2 ^ (52 - hb) = 2 * 2 ^ 52 := by
      rw [pow_succ, Nat.mul_right_comm, hP, Nat.mul_comm]
    have l1 : 2 ^ hb * 2 ^ (52 - hb) ≤ n * 2 ^ (52 - hb) := Nat.mul_le_mul_right _ lo
    have l2 : n * 2 ^ (52 - hb) < 2 ^ (hb + 1) * 2 ^ (52 - hb) :=
      Nat.mul_lt_mul_of_pos_right hi (Nat.two_pow_pos _)
    rw [hP] at l1
    rw [hP'] at l2
    generalize n * 2 ^ (52 - hb) = X at *
    rw [e0, pow_zero, Nat.mul_one]
    omega
  · rw [if_neg hle, Nat.shiftRight_eq_div_pow]
    have e0 : 52 - hb = 0 := by omega
    obtain ⟨m, hm⟩ := hdiv
    have hk : 0 < 2 ^ (hb - 52) := Nat.two_pow_pos _
    have hdivm : n / 2 ^ (hb - 52) = m := by rw [hm]; exact Nat.mul_div_cancel_left _ hk
    have hP : 2 ^ hb = 2 ^ (hb - 52) * 2 ^ 52 := by rw [← pow_add]; congr 1; omega
    have hP' : 2 ^ (hb + 1) = 2 ^ (hb - 52) * (2 * 2 ^ 52) := by
      rw [pow_succ, hP, Nat.mul_assoc, Nat.mul_comm (2 ^ 52) 2]
    have l1 : 2 ^ 52 ≤ m := by
      rw [hP, hm] at lo
      exact Nat.le_of_mul_le_mul_left lo hk
    have l2 : m < 2 * 2 ^ 52 := by
      rw [hP', hm] at hi
      exact Nat.lt_of_mul_lt_mul_left hi
    rw [hdivm, e0, pow_zero, Nat.mul_one, hm, Nat.mul_comm]
    have : m % 2 ^ 52 + 2 ^ 52 = m := by omega
    rw [this]
    exact ⟨Nat.mod_lt _ (by decide), rfl⟩

/-! ## the round trip -/

/-- `q` is zero or a normal IEEE-754 binary64 number: dyadic, at most 53 significant bits,
    exponent of the leading bit in `[-1022, 1023]`. -/
def Dyadic53 (q : Rat) : Prop :=
  q = 0 ∨ (q.den = 2 ^ Nat.log2 q.den ∧ 2 ^ (Nat.log2 q.num.natAbs - 52) ∣ q.num.natAbs ∧
    Nat.log2 q.den ≤ Nat.log2 q.num.natAbs + 1022 ∧ Nat.log2 q.num.natAbs ≤ Nat.log2 q.den + 1023)

instance (q : Rat) : Decidable (Dyadic53 q) := by unfold Dyadic53; infer_instance

theorem scale_identity (n M hb ld b : Nat) (hkey : n * 2 ^ (52 - hb) = M * 2 ^ (hb - 52))
    (hb' : b + ld = hb + 1023) : M * 2 ^ (b - 1075) * 2 ^ ld = n * 2 ^ (1075 - b) := by
  have e : (b - 1075) + ld + (52 - hb) = (hb - 52) + (1075 - b) := by omega
  apply Nat.eq_of_mul_eq_mul_right (Nat.two_pow_pos (52 - hb))
  calc M * 2 ^ (b - 1075) * 2 ^ ld * 2 ^ (52 - hb)
      = M * 2 ^ ((b - 1075) + ld + (52 - hb)) := by rw [pow_add, pow_add]; ring
    _ = M * 2 ^ ((hb - 52) + (1075 - b)) := by rw [e]
    _ = (M * 2 ^ (hb - 52)) * 2 ^ (1075 - b) := by rw [pow_add]; ring
    _ = (n * 2 ^ (52 - hb)) * 2 ^ (1075 - b) := by rw [hkey]
    _ = n * 2 ^ (1075 - b) * 2 ^ (52 - hb) := by ring

theorem rat_abs_form (q : Rat) :
    q = if q < 0 then -((q.num.natAbs : Rat) / (q.den : Rat)) else (q.num.natAbs : Rat) / (q.den : Rat) := by
  have h0 := Rat.num_div_den q
  split
  · rename_i h
    have hnum : q.num < 0 := Rat.num_neg.2 h
    have e : (q.num.natAbs : Int) = -q.num := by omega
    have e' : (q.num.natAbs : Rat) = -(q.num : Rat) := by
      rw [← Int.cast_natCast, e, Int.cast_neg]
    rw [e', neg_div, neg_neg, h0]
  · rename_i h
    have hnum : 0 ≤ q.num := by
      rcases lt_or_ge q.num 0 with h' | h'
      · exact absurd (Rat.num_neg.1 h') h
      · exact h'
    have e : (q.num.natAbs : Int) = q.num := by omega
    have e' : (q.num.natAbs : Rat) = (q.num : Rat) := by
      rw [← Int.cast_natCast, e]
    rw [e', h0]

theorem f64bits_zero : f64bits 0 = 0 := by simp [f64bits]

theorem decF64_encF64_zero : decF64 (encF64 0) = 0 := by
  rw [decF64_encF64_eq, f64bits_zero]
  simp [decBits]

/-- the bit pattern of a `Dyadic53` number: sign, biased exponent, 52 mantissa bits -/
theorem f64bits_spec (q : Rat) (hq : q ≠ 0)
    (hdiv : 2 ^ (Nat.log2 q.num.natAbs - 52) ∣ q.num.natAbs)
    (he1 : Nat.log2 q.den ≤ Nat.log2 q.num.natAbs + 1022) :
    ∃ mant : Nat, mant < 2 ^ 52 ∧
      q.num.natAbs * 2 ^ (52 - q.num.natAbs.log2) = (mant + 2 ^ 52) * 2 ^ (q.num.natAbs.log2 - 52) ∧
      f64bits q = (if q < 0 then 1 else 0) * 2 ^ 63 +
        (q.num.natAbs.log2 + 1023 - q.den.log2) * 2 ^ 52 + mant := by
  have hn : q.num.natAbs ≠ 0 := by
    intro h
    exact hq (Rat.num_eq_zero.1 (Int.natAbs_eq_zero.1 h))
  obtain ⟨hm, hkey⟩ := mant_spec _ hn hdiv
  refine ⟨_, hm, hkey, ?_⟩
  unfold f64bits
  rw [if_neg hq]
  have : ((q.num.natAbs.log2 : Int) - (q.den.log2 : Int) + 1023).toNat =
      q.num.natAbs.log2 + 1023 - q.den.log2 := by omega
  simp only [this]

/-- **the float codec round-trips on normal binary64 numbers and zero** -/
theorem decF64_encF64 (q : Rat) (h : Dyadic53 q) : decF64 (encF64 q) = q := by
  rcases h with rfl | ⟨hd, hdiv, he1, he2⟩
  · exact decF64_encF64_zero
  · by_cases hq : q = 0
    · subst hq; exact decF64_encF64_zero
    · obtain ⟨mant, hm, hkey, hbits⟩ := f64bits_spec q hq hdiv he1
      rw [decF64_encF64_eq, hbits]
      generalize q.num.natAbs.log2 = hb at *
      generalize hld : q.den.log2 = ld at *
      have hb2 : hb + 1023 - ld < 2 ^ 11 := by omega
      have hb1 : 1 ≤ hb + 1023 - ld := by omega
      have hs : (if q < 0 then 1 else 0 : Nat) ≤ 1 := by split <;> omega
      have hlt : (if q < 0 then 1 else 0) * 2 ^ 63 + (hb + 1023 - ld) * 2 ^ 52 + mant < 256 ^ 8 := by
        generalize (if q < 0 then 1 else 0 : Nat) = s at hs
        omega
      rw [Nat.mod_eq_of_lt hlt, decBits_fields _ _ _ hb1 hb2 hm]
      have hid := scale_identity q.num.natAbs (mant + 2 ^ 52) hb ld (hb + 1023 - ld) hkey (by omega)
      rw [← hd] at hid
      have hden : (q.den : Rat) ≠ 0 := Nat.cast_ne_zero.2 q.den_nz
      -- the magnitude
      have hv : (if hb + 1023 - ld ≥ 1075 then
            (((mant + 2 ^ 52) * 2 ^ (hb + 1023 - ld - 1075) : Nat) : Rat)
          else ((mant + 2 ^ 52 : Nat) : Rat) / ((2 ^ (1075 - (hb + 1023 - ld)) : Nat) : Rat)) =
          (q.num.natAbs : Rat) / (q.den : Rat) := by
        generalize hb + 1023 - ld = b at *
        split
        · rename_i hge
          have e0 : 1075 - b = 0 := by omega
          rw [e0, pow_zero, Nat.mul_one] at hid
          rw [eq_div_iff hden]
          exact_mod_cast hid
        · rename_i hlt'
          have e0 : b - 1075 = 0 := by omega
          rw [e0, pow_zero, Nat.mul_one] at hid
          have hp : ((2 ^ (1075 - b) : Nat) : Rat) ≠ 0 :=
            Nat.cast_ne_zero.2 (Nat.two_pow_pos _).ne'
          rw [div_eq_div_iff hp hden]
          exact_mod_cast hid
      rw [hv]
      refine Eq.trans ?_ (rat_abs_form q).symm
      by_cases hneg : q < 0
      · simp [hneg]
      · simp [hneg]

/-! ## which rationals are `Dyadic53` -/

theorem Dyadic53.zero : Dyadic53 0 := Or.inl rfl

/-- every `k / 2^j` with `|k| < 2^53` and `j ≤ 1022` (given as `q * 2^j = k`) is `Dyadic53`:
    this covers all coordinates of the differential tests (sixteenths up to magnitude `2^20`,
    and up to 16 further halvings) with a wide margin. -/
theorem Dyadic53.of_mul_pow (q : Rat) (k : Int) (j : Nat) (hqk : q * 2 ^ j = k)
    (hk : k.natAbs < 2 ^ 53) (hj : j ≤ 1022) : Dyadic53 q := by
  by_cases hq : q = 0
  · exact Or.inl hq
  right
  have hden : (q.den : Rat) ≠ 0 := Nat.cast_ne_zero.2 q.den_nz
  have hnum : (q.num : Rat) = q * q.den := (div_eq_iff hden).1 (Rat.num_div_den q)
  have hz : q.num * 2 ^ j = k * q.den := by
    have : (q.num : Rat) * 2 ^ j = k * q.den := by rw [hnum, ← hqk]; ring
    exact_mod_cast this
  have hN : q.num.natAbs * 2 ^ j = k.natAbs * q.den := by
    have := congrArg Int.natAbs hz
    simpa [Int.natAbs_mul, Int.natAbs_pow] using this
  have hdvd : q.den ∣ 2 ^ j :=
    Nat.Coprime.dvd_of_dvd_mul_left q.reduced.symm ⟨k.natAbs, by rw [hN, Nat.mul_comm]⟩
  obtain ⟨i, hij, hi⟩ := (Nat.dvd_prime_pow Nat.prime_two).1 hdvd
  have hld : q.den.log2 = i := by rw [hi, Nat.log2_two_pow]
  have hn0 : q.num.natAbs ≠ 0 := fun h => hq (Rat.num_eq_zero.1 (Int.natAbs_eq_zero.1 h))
  have hnle : q.num.natAbs ≤ k.natAbs := by
    have e : 2 ^ j = 2 ^ (j - i) * 2 ^ i := by rw [← pow_add]; congr 1; omega
    rw [hi, e, ← Nat.mul_assoc] at hN
    have := Nat.eq_of_mul_eq_mul_right (Nat.two_pow_pos i) hN
    rw [← this]
    exact Nat.le_mul_of_pos_right _ (Nat.two_pow_pos _)
  have hlog : q.num.natAbs.log2 < 53 := (Nat.log2_lt hn0).2 (lt_of_le_of_lt hnle hk)
  have e0 : q.num.natAbs.log2 - 52 = 0 := by omega
  refine ⟨?_, ?_, by omega, by omega⟩
  · rw [hld]; exact hi
  · rw [e0, pow_zero]; exact one_dvd _

/-- integers below `2^53` in absolute value -/
theorem Dyadic53.of_int (k : Int) (hk : k.natAbs < 2 ^ 53) : Dyadic53 (k : Rat) :=
  Dyadic53.of_mul_pow _ k 0 (by simp) hk (by omega)

/-! ## the round trip fails outside `Dyadic53` (so `∀ x, decF64 (encF64 x) = x` is FALSE) -/

/-- not dyadic -/
theorem decF64_encF64_counterexample : decF64 (encF64 (1 / 3)) ≠ 1 / 3 := by decide +kernel

/-- 54 significant bits: `f64bits` truncates -/
theorem decF64_encF64_counterexample_54bits :
    decF64 (encF64 (2 ^ 53 + 1)) ≠ 2 ^ 53 + 1 := by decide +kernel

/-- `f64bits` is only meant for the NORMAL range: the smallest subnormal double `2^-1074` gets the
    bit pattern of `0` (the true pattern is `1`).  Execution-side remark: the driver never sees
    such coordinates. -/
theorem f64bits_subnormal_counterexample :
    f64bits (1 / 2 ^ 1074) = 0 ∧ decF64 (encF64 (1 / 2 ^ 1074)) = 0 := by decide +kernel

/-- sanity: the patterns of a few doubles are the IEEE-754 ones -/
example : f64bits 1 = 0x3FF0000000000000 := by decide +kernel
example : f64bits (-2) = 0xC000000000000000 := by decide +kernel
example : f64bits (5 / 2) = 0x4004000000000000 := by decide +kernel
example : f64bits (-(1 / 16)) = 0xBFB0000000000000 := by decide +kernel
example : f64bits (2 ^ 60) = 0x43B0000000000000 := by decide +kernel
example : f64bits (2 ^ 1023) = 0x7FE0000000000000 := by decide +kernel
example : f64bits (1 / 2 ^ 1022) = 0x0010000000000000 := by decide +kernel
example : Dyadic53 (2 ^ 60) := by decide +kernel
example : Dyadic53 (-(1234567 / 2 ^ 40)) := by decide +kernel
example : ¬ Dyadic53 (1 / 3) := by decide +kernel

end Geo

#print axioms Geo.decF64_encF64
#print axioms Geo.encF64_length
#print axioms Geo.encF64_lt_256
#print axioms Geo.Dyadic53.of_mul_pow
#print axioms Geo.decF64_encF64_counterexample
#print axioms Geo.f64bits_subnormal_counterexample
