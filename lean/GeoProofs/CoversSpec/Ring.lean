/-
  GeoProofs.CoversSpec.Ring — a simple closed chain as a periodic vertex sequence with its
  edge list; elementary consequences of simplicity used by the connection theorem.
-/
import GeoProofs.CoversSpec.Defs
import Mathlib.Tactic.Linarith
import Mathlib.Tactic.Ring
import Mathlib.Tactic.LinearCombination

namespace Geo
namespace CS
open Jordan Cvx

/-- edge list `es` of the simple periodic vertex sequence `P` (period `n`) -/
structure RingD (es : List (Pt × Pt)) (P : Nat → Pt) (n : Nat) : Prop where
  simple : Simple0 P n
  edges : es = (List.range n).map (fun i => (P i, P (i+1)))

variable {es : List (Pt × Pt)} {P : Nat → Pt} {n : Nat}

theorem RingD.npos (R : RingD es P n) : 0 < n := by have := R.simple.n3; omega

theorem RingD.mem_iff (R : RingD es P n) (e : Pt × Pt) :
    e ∈ es ↔ ∃ j, j < n ∧ e = (P j, P (j+1)) := by
  rw [R.edges, List.mem_map]
  constructor
  · rintro ⟨j, hj, rfl⟩; exact ⟨j, List.mem_range.1 hj, rfl⟩
  · rintro ⟨j, hj, rfl⟩; exact ⟨j, List.mem_range.2 hj, rfl⟩

theorem RingD.edge_eq_mod (R : RingD es P n) (i : Nat) :
    (P i, P (i+1)) = (P (i % n), P (i % n + 1)) := by
  rw [pmod R.simple.per i, pmod_add R.simple.per i 1]

/-- every index (not only `< n`) names an edge -/
theorem RingD.edge_mem (R : RingD es P n) (i : Nat) : (P i, P (i+1)) ∈ es := by
  rw [R.edge_eq_mod i, R.mem_iff]
  exact ⟨i % n, Nat.mod_lt _ R.npos, rfl⟩

theorem RingD.ne_succ (R : RingD es P n) (i : Nat) : P i ≠ P (i+1) := by
  intro h
  -- adj2 at i: P i ∉ [P (i+1), P (i+2)]
  exact R.simple.adj2 i (by rw [h]; exact K.onSeg_left _ _)

/-- a point of edge `i` other than its ends lies on no other edge (as a pair of points) -/
theorem RingD.open_unique (R : RingD es P n) (i : Nat) {z : Pt}
    (hz : OpenOn (P i) (P (i+1)) z) {e : Pt × Pt} (he : e ∈ es) (hez : OnSeg e.1 e.2 z) :
    e = (P i, P (i+1)) := by
  obtain ⟨j, hj, rfl⟩ := (R.mem_iff e).1 he
  rw [R.edge_eq_mod i]
  by_cases hij : i % n = j
  · rw [hij]
  · exfalso
    obtain ⟨hz1, hz2, hz3⟩ := hz
    have e1 := R.edge_eq_mod i
    rw [Prod.mk.injEq] at e1
    rw [e1.1, e1.2] at hz1
    have := (CC.simple0_meet R.simple (Nat.mod_lt _ R.npos) hj hij hz1 hez).1
    rw [← e1.1, ← e1.2] at this
    rcases this with h | h
    · exact hz2 h
    · exact hz3 h

/-- two positions of the edge list holding the same pair are the same position -/
theorem RingD.pos_unique (R : RingD es P n) {j k : Nat} {e f : Pt × Pt}
    (hj : es[j]? = some e) (hk : es[k]? = some f) (hef : e = f) : j = k := by
  by_contra hne
  subst hef
  rw [R.edges] at hj hk
  have hjn : j < n := by
    have := (List.getElem?_eq_some_iff.1 hj).1; simpa using this
  have hkn : k < n := by
    have := (List.getElem?_eq_some_iff.1 hk).1; simpa using this
  simp only [List.getElem?_map, List.getElem?_range hjn, List.getElem?_range hkn, Option.map_some,
    Option.some.injEq] at hj hk
  have h1 : P j = P k := by rw [← hk] at hj; exact (Prod.mk.inj hj).1
  have h2 : P (j+1) = P (k+1) := by rw [← hk] at hj; exact (Prod.mk.inj hj).2
  have hm : OnSeg (P j) (P (j+1)) ⟨(P j).x + (1/2) * ((P (j+1)).x - (P j).x),
      (P j).y + (1/2) * ((P (j+1)).y - (P j).y)⟩ :=
    K.onSeg_of_param (t := 1/2) (by norm_num) (by norm_num) rfl rfl
  have hm' : OnSeg (P k) (P (k+1)) ⟨(P j).x + (1/2) * ((P (j+1)).x - (P j).x),
      (P j).y + (1/2) * ((P (j+1)).y - (P j).y)⟩ := by rw [← h1, ← h2]; exact hm
  have := (CC.simple0_meet R.simple hjn hkn hne hm hm').1
  have hne' := R.ne_succ j
  rcases this with g | g
  · apply hne'
    have gx := congrArg Pt.x g; have gy := congrArg Pt.y g
    simp only at gx gy
    exact (K.pt_eq_iff _ _).2 ⟨by linarith, by linarith⟩
  · apply hne'
    have gx := congrArg Pt.x g; have gy := congrArg Pt.y g
    simp only at gx gy
    exact (K.pt_eq_iff _ _).2 ⟨by linarith, by linarith⟩

end CS
end Geo
