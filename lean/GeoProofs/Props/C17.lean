/-
  Property C17: every constructible object serialises to well-formed JSON.

  The grammar (`IsJSON`, `IsNumTok`, `IsStrTok`, `IsJSONValue`, `IsJSONObject`), the
  token-well-formedness predicate on ASTs (`JVal.TokOK`), the relation `Written x v`
  ("v is a token-well-formed AST of the document `write x`") and the precondition `WriteOK`
  are defined in GeoProofs.WriteLemmas.

  Number codec convention (trusted contract): the canonical text of a finite float is a number
  token; this enters only through `WriteOK` (each ordinate text is "null" or a number token).
-/
import GeoProofs.WriteLemmas

namespace Geo

/-! ### render of a token-well-formed AST is JSON -/

/-- the leaves of `v` are tokens (`raw` of every num is a number token, `raw` of every str and
    every member key is a string token) ⇒ the minified text is a JSON value -/
theorem render_is_json (v : JVal) (h : v.TokOK) : IsJSONValue v.render.toList :=
  render_json v h

/-! ### the writers produce JSON objects -/

theorem write_is_json (x : Obj) (h : WriteOK x) : ∃ s, write x = some s ∧ IsJSONObject s.toList := by
  obtain ⟨v, hv⟩ := h.written
  obtain ⟨hw, hok⟩ := hv.render
  obtain ⟨ty, key, c, fm, rfl⟩ := hv.isObj
  refine ⟨_, hw, .inr ?_⟩
  exact render_obj_isObject1 (by simp) (by simpa [mkObj, JVal.TokOK] using hok)

/-- in particular the text is a JSON value -/
theorem write_is_json_value (x : Obj) (h : WriteOK x) : ∃ s, write x = some s ∧ IsJSONValue s.toList :=
  let ⟨s, hs, hj⟩ := write_is_json x h; ⟨s, hs, hj.isValue⟩

/-! ### the `type` member -/

/-- the text starts with `{"type":"<T>"` where T is the GeoJSON type of the kind: Point for
    point/spoint, LineString, Polygon for polygon/rectO, the collection's typeName, Feature for
    feature and circle (`geomType`) -/
theorem write_type (x : Obj) (s : String) (h : write x = some s) :
    ∃ rest, s = "{\"type\":\"" ++ geomType x ++ "\"" ++ rest := by
  have key : ∀ (o : Option String) (ty k tail : String),
      o.map (fun c => objText ty k c tail) = some s → ∃ rest, s = "{\"type\":\"" ++ ty ++ "\"" ++ rest := by
    intro o ty k tail ho
    cases o with
    | none => cases ho
    | some c =>
      simp only [Option.map_some, Option.some.injEq] at ho
      subst ho
      exact ⟨",\"" ++ k ++ "\":" ++ c ++ tail ++ "}", by simp only [objText]; str_eq⟩
  cases x with
  | point pos ex => rw [write_point] at h; exact key _ _ _ _ h
  | spoint pos => rw [write_spoint] at h; exact key _ _ _ _ h
  | lineString l poss ex => rw [write_lineString] at h; exact key _ _ _ _ h
  | polygon p rings ex => rw [write_polygon] at h; exact key _ _ _ _ h
  | rectO b lo hi => rw [write_rectO] at h; exact key _ _ _ _ h
  | feature b ex => rw [write_feature] at h; exact key _ _ _ _ h
  | coll kind cs ex idx =>
    rw [write_coll] at h
    cases hp : writeParts kind cs with
    | none => simp [hp] at h
    | some parts =>
      simp only [hp, Option.map_some, Option.some.injEq] at h
      subst h
      exact ⟨",\"" ++ collKey kind ++ "\":" ++ ("[" ++ cj parts ++ "]") ++ writeExtra ex false ++ "}",
        by simp only [objText, geomType]; str_eq⟩
  | circle c r =>
    simp only [write, Option.some.injEq] at h
    subst h
    exact ⟨",\"geometry\":{\"type\":\"Point\",\"coordinates\":[" ++ c.xs ++ "," ++ c.ys ++
      "]},\"properties\":{\"type\":\"Circle\",\"radius\":" ++ r ++ ",\"radius_units\":\"m\"}}",
      by simp only [geomType]; str_eq⟩

/-! ### nesting depth of `"coordinates"` -/

/-- a number or `null` -/
def IsOrdLeaf : JVal → Prop
  | .null => True
  | .num _ _ _ _ _ => True
  | _ => False

/-- `ArrDepth n v`: `v` is an array nested to depth `n` over positions: depth 1 is a position (an
    array of at least two numbers/nulls); an empty array is allowed at any level above the
    position level -/
def ArrDepth : Nat → JVal → Prop
  | 0, v => IsOrdLeaf v
  | n + 1, .arr items => (n = 0 → 2 ≤ items.length) ∧ ∀ i ∈ items, ArrDepth n i
  | _ + 1, _ => False

/-- depth of the coordinates of a leaf geometry -/
def leafDepth : Obj → Option Nat
  | .point _ _ => some 1
  | .spoint _ => some 1
  | .lineString _ _ _ => some 2
  | .polygon _ _ _ => some 3
  | .rectO _ _ _ => some 3
  | _ => none

/-- depth the GeoJSON type requires: Point 1, LineString/MultiPoint 2, Polygon/MultiLineString 3,
    MultiPolygon 4 -/
def coordDepth : Obj → Nat
  | .coll .multiPoint _ _ _ => 2
  | .coll .multiLineString _ _ _ => 3
  | .coll .multiPolygon _ _ _ => 4
  | o => (leafDepth o).getD 0

/-- the geometry kinds (with children of the kind the Multi* type has) -/
def IsGeomKind : Obj → Prop
  | .coll .multiPoint cs _ _ => ∀ c ∈ cs, leafDepth c = some 1
  | .coll .multiLineString cs _ _ => ∀ c ∈ cs, leafDepth c = some 2
  | .coll .multiPolygon cs _ _ => ∀ c ∈ cs, leafDepth c = some 3
  | o => (leafDepth o).isSome

theorem NumV.leaf {t n} (h : NumV t n) : IsOrdLeaf n := by
  rcases h with ⟨_, rfl⟩ | ⟨_, _, _, rfl⟩ <;> trivial

theorem all2_numV_leaf {ts es} (h : All2 NumV ts es) : ∀ v ∈ es, IsOrdLeaf v := by
  induction h with
  | nil => simp
  | cons h _ ih =>
    intro v hv
    rcases List.mem_cons.mp hv with rfl | hv
    · exact h.leaf
    · exact ih v hv

theorem PosV.depth {pos ex i n} (h : PosV pos ex i n) : ArrDepth 1 n := by
  obtain ⟨nx, ny, ts, es, hx, hy, _, hes, rfl⟩ := h
  refine ⟨fun _ => by simp, ?_⟩
  intro v hv
  simp only [List.mem_cons] at hv
  rcases hv with rfl | rfl | hv
  · exact hx.numV.leaf
  · exact hy.numV.leaf
  · exact all2_numV_leaf hes v hv

theorem SeriesV.depth {ex} : ∀ {ps i ns}, SeriesV ex ps i ns → ArrDepth 2 (.arr ns)
  | [], _, _, h => by cases h; exact ⟨by simp, by simp⟩
  | p :: ps, i, _, ⟨n, ns', rfl, hp, hs⟩ => by
    have ih := SeriesV.depth hs
    refine ⟨by simp, ?_⟩
    intro v hv
    rcases List.mem_cons.mp hv with rfl | hv
    · exact hp.depth
    · exact ih.2 v hv

theorem RingsV.depth {ex} : ∀ {rs i ns}, RingsV ex rs i ns → ArrDepth 3 (.arr ns)
  | [], _, _, h => by cases h; exact ⟨by simp, by simp⟩
  | r :: rs, i, _, ⟨rn, ns', rfl, hr, hs⟩ => by
    have ih := RingsV.depth hs
    refine ⟨by simp, ?_⟩
    intro v hv
    rcases List.mem_cons.mp hv with rfl | hv
    · exact hr.depth
    · exact ih.2 v hv

theorem CoordsV.depth : ∀ {x c}, CoordsV x c → ∀ d, leafDepth x = some d → ArrDepth d c
  | .point _ _, _, h, d, hd => by cases hd; exact PosV.depth h
  | .spoint _, _, h, d, hd => by cases hd; exact PosV.depth h
  | .lineString _ _ _, _, ⟨ns, h, rfl⟩, d, hd => by cases hd; exact h.depth
  | .polygon poly _ _, c, h, d, hd => by
    cases hd
    simp only [CoordsV] at h
    by_cases he : poly.empty = true
    · rw [if_pos he] at h; subst h; exact ⟨by simp, by simp⟩
    · rw [if_neg he] at h
      obtain ⟨ns, h, rfl⟩ := h
      exact h.depth
  | .rectO _ _ _, _, ⟨ns, h, rfl⟩, d, hd => by cases hd; exact h.depth
  | .coll _ _ _ _, _, h, _, _ => by cases h
  | .feature _ _, _, h, _, _ => by cases h
  | .circle _ _, _, h, _, _ => by cases h

theorem all2_depth {cs ns d} (h : All2 CoordsV cs ns) (hk : ∀ c ∈ cs, leafDepth c = some d) :
    ∀ n ∈ ns, ArrDepth d n := by
  induction h with
  | nil => simp
  | cons h _ ih =>
    intro n hn
    rcases List.mem_cons.mp hn with rfl | hn
    · exact h.depth d (hk _ (by simp))
    · exact ih (fun c hc => hk c (by simp [hc])) n hn

/-- for the geometry kinds the document is `{"type":T,"coordinates":c,…}` where `c` is an array
    nested to the depth the type requires.  Stated on the AST `v` of the written document
    (`Written x v`, hence `write x = some v.render` by `Written.render`). -/
theorem write_coords_depth (x : Obj) (v : JVal) (hk : IsGeomKind x) (h : Written x v) :
    ∃ c fm, v = mkObj (geomType x) "coordinates" c fm ∧ ArrDepth (coordDepth x) c ∧
      write x = some (objText (geomType x) "coordinates" c.render (cjTail (fm.map memText))) := by
  have hw := h.render.1
  cases x with
  | point pos ex =>
    obtain ⟨c, fm, hc, _, rfl⟩ := h
    exact ⟨c, fm, rfl, hc.depth 1 rfl, by rw [hw, render_mkObj']; rfl⟩
  | spoint pos =>
    obtain ⟨c, hc, rfl⟩ := h
    exact ⟨c, [], rfl, hc.depth 1 rfl, by rw [hw, render_mkObj']; rfl⟩
  | lineString l poss ex =>
    obtain ⟨c, fm, hc, _, rfl⟩ := h
    exact ⟨c, fm, rfl, hc.depth 2 rfl, by rw [hw, render_mkObj']; rfl⟩
  | polygon p rings ex =>
    obtain ⟨c, fm, hc, _, rfl⟩ := h
    exact ⟨c, fm, rfl, hc.depth 3 rfl, by rw [hw, render_mkObj']; rfl⟩
  | rectO b lo hi =>
    obtain ⟨c, hc, rfl⟩ := h
    exact ⟨c, [], rfl, hc.depth 3 rfl, by rw [hw, render_mkObj']; rfl⟩
  | feature b ex => cases hk
  | circle c r => cases hk
  | coll kind cs ex idx =>
    obtain ⟨ns, fm, hns, _, rfl⟩ := h
    cases kind with
    | multiPoint =>
      exact ⟨.arr ns, fm, rfl, ⟨by simp, all2_depth hns hk⟩, by rw [hw, render_mkObj']; rfl⟩
    | multiLineString =>
      exact ⟨.arr ns, fm, rfl, ⟨by simp, all2_depth hns hk⟩, by rw [hw, render_mkObj']; rfl⟩
    | multiPolygon =>
      exact ⟨.arr ns, fm, rfl, ⟨by simp, all2_depth hns hk⟩, by rw [hw, render_mkObj']; rfl⟩
    | geometryCollection => cases hk
    | featureCollection => cases hk

/-! ### non-finite ordinates -/

theorem not_numTok_of_letter {l : List Char} {c : Char} (hc : c ∈ l)
    (hbad : ¬ (c.isDigit = true ∨ c = '-' ∨ c = '+' ∨ c = '.' ∨ c = 'e' ∨ c = 'E')) : ¬ IsNumTok l :=
  fun h => hbad (numTok_chars h c hc)

/-- a position with `fin = false` whose texts are "null" is written with `null` ordinates; and
    none of the non-finite spellings of `strconv.AppendFloat` is a number token, so under
    `WriteOK` (every ordinate text is "null" or a number token) they cannot occur at a value
    position of the output, which is JSON by `write_is_json`. -/
theorem nonfinite_written_as_null :
    (∀ (p : Pt), write (.point ⟨p, false, "null", "null"⟩ none) =
        some "{\"type\":\"Point\",\"coordinates\":[null,null]}") ∧
    (∀ pos : Pos, pos.xs = "null" → pos.ys = "null" → writePos pos none 0 = some "[null,null]") ∧
    ¬ IsNumTok "NaN".toList ∧ ¬ IsNumTok "+Inf".toList ∧ ¬ IsNumTok "-Inf".toList ∧
    ¬ IsNumTok "Inf".toList ∧
    (∀ x, WriteOK x → ∃ s, write x = some s ∧ IsJSONValue s.toList) := by
  refine ⟨?_, ?_, ?_, ?_, ?_, ?_, write_is_json_value⟩
  · intro p; simp only [write, writePos, writeExtra]; decide
  · intro pos hx hy; simp only [writePos, hx, hy]; decide
  · exact not_numTok_of_letter (c := 'N') (by decide) (by decide)
  · exact not_numTok_of_letter (c := 'I') (by decide) (by decide)
  · exact not_numTok_of_letter (c := 'I') (by decide) (by decide)
  · exact not_numTok_of_letter (c := 'I') (by decide) (by decide)

/-! ### AppendJSON appends -/

/-- `AppendJSON(dst)`: the document is appended to `dst` -/
def appendJSON (pre : String) (x : Obj) : Option String := (write x).map (pre ++ ·)

/-- the result is `pre` followed by `write x`.  Trivially true in a pure model; the aliasing half
    of the property (the prefix bytes of the destination slice are left untouched) is checked on
    the implementation by the harness, it is not expressible here. -/
theorem append_prefix (pre : String) (x : Obj) : appendJSON pre x = (write x).map (pre ++ ·) := rfl

/-! ### NewFeature member sanitising -/

theorem dropFirst_tokOK : ∀ {ms : List Member}, TokOKM ms → TokOKM (Driver.featureExtra.dropFirst ms)
  | [], _ => trivial
  | (k, d, v) :: ms, h => by
    rw [TokOKM] at h
    rw [Driver.featureExtra.dropFirst]
    split
    · exact h.2.2
    · rw [TokOKM]; exact ⟨h.1, h.2.1, dropFirst_tokOK h.2.2⟩

/-- whatever text is given, the resulting `Extra` (if any) has `members` = the render of a JSON
    object AST with at least one member (a sublist of the given members), it is not `{}` (nor
    empty), and `dims = 0`, `values = []` -/
theorem featureExtra_ok (trimmed : String) (ast : Option JVal) (e : Extra)
    (h : Driver.featureExtra trimmed ast = some e) :
    (∃ ms ms', ast = some (.obj ms) ∧ ms' = Driver.featureExtra.dropFirst ms ∧ ms' ≠ [] ∧
        e.members = (JVal.obj ms').render ∧ e.hasProps = ms'.any (fun m => m.2.1 == "properties")) ∧
      e.members ≠ "{}" ∧ e.members ≠ "" ∧ e.dims = 0 ∧ e.values = [] := by
  unfold Driver.featureExtra at h
  split at h
  · cases h
  · split at h
    · rename_i ms
      simp only at h
      split at h
      · cases h
      · rename_i hne
        simp only [Option.some.injEq] at h
        subst h
        have hne' : (JVal.obj (Driver.featureExtra.dropFirst ms)).render ≠ "{}" := by simpa using hne
        refine ⟨⟨ms, _, rfl, rfl, ?_, rfl, rfl⟩, hne', ?_, rfl, rfl⟩
        · intro h0
          rw [h0] at hne'
          exact hne' (by decide)
        · rw [render_obj]
          intro h0
          have := congrArg String.toList h0
          simp at this
    · cases h

/-- hence `WriteOK` is preserved by wrapping a `WriteOK` object in a feature built this way
    (for a token-well-formed members AST) -/
theorem featureExtra_writeOK (trimmed : String) (ast : Option JVal) (x : Obj)
    (hast : ∀ v, ast = some v → v.TokOK) (hx : WriteOK x) :
    WriteOK (.feature x (Driver.featureExtra trimmed ast)) := by
  refine ⟨hx, ?_⟩
  cases he : Driver.featureExtra trimmed ast with
  | none => trivial
  | some e =>
    obtain ⟨⟨ms, ms', hms, hms', hne, hmem, _⟩, _⟩ := featureExtra_ok trimmed ast e he
    right
    rw [hmem]
    apply render_obj_isObject1 hne
    rw [hms']
    exact dropFirst_tokOK (by simpa [JVal.TokOK] using hast _ hms)

/-! ### non-vacuity: a concrete Feature with foreign members -/

section Example

def exMembers : List Member :=
  [mem "id" (.num true 7 "7" "7000" "7"),
   mem "properties" (.obj [mem "name" (strV "a\\\"b"), mem "tags" (.arr [.tru, .null, .num true (-3/2) "-1.5" "-1500" "-1.5e0"])])]

def exFeature : Obj :=
  .feature (.point ⟨⟨3/2, -2⟩, true, "1.5", "-2"⟩ (some ⟨1, ["10"], "", false⟩))
    (some ⟨0, [], (JVal.obj exMembers).render, true⟩)

def exText : String :=
  "{\"type\":\"Feature\",\"geometry\":{\"type\":\"Point\",\"coordinates\":[1.5,-2,10]},\"id\":7,\"properties\":{\"name\":\"a\\\"b\",\"tags\":[true,null,-1.5e0]}}"

/-- info: true -/
#guard_msgs in
#eval write exFeature == some exText

theorem exMembers_tokOK : TokOKM exMembers := by
  simp only [exMembers, mem, strV, TokOKM, TokOKL, JVal.TokOK, and_true, true_and]
  exact ⟨strTokB_sound (by decide), numTokB_sound (by decide), strTokB_sound (by decide),
    strTokB_sound (by decide), strTokB_sound (by decide), strTokB_sound (by decide),
    numTokB_sound (by decide)⟩

theorem exFeature_writeOK : WriteOK exFeature := by
  refine ⟨⟨⟨⟨.inr (numTokB_sound (by decide)), .inr (numTokB_sound (by decide))⟩, ?_, ?_⟩, .inl rfl⟩, .inr ?_⟩
  · intro t ht
    simp only [List.mem_singleton] at ht
    subst ht
    exact .inr (numTokB_sound (by decide))
  · simp [TableOK]
  · exact render_obj_isObject1 (by simp [exMembers]) exMembers_tokOK

/-- the concrete document is a JSON object -/
example : ∃ s, write exFeature = some s ∧ IsJSONObject s.toList :=
  write_is_json exFeature exFeature_writeOK

end Example

end Geo

#print axioms Geo.render_is_json
#print axioms Geo.write_is_json
#print axioms Geo.write_type
#print axioms Geo.write_coords_depth
#print axioms Geo.nonfinite_written_as_null
#print axioms Geo.append_prefix
#print axioms Geo.featureExtra_ok
#print axioms Geo.featureExtra_writeOK
#print axioms Geo.exFeature_writeOK
